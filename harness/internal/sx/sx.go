// Package sx prints the s-expression text exchanged with the Coq model runner.
package sx

import (
	"encoding/hex"
	"math/big"
	"strconv"
	"strings"
)

type V string

func N(n uint64) V     { return V(strconv.FormatUint(n, 10)) }
func I(n int) V        { return V(strconv.Itoa(n)) } // caller guarantees n >= 0
func Big(n *big.Int) V { return V(n.String()) }
func B(b []byte) V     { return V("x" + hex.EncodeToString(b)) }
func S(s string) V     { return V(s) }
func Bool(b bool) V {
	if b {
		return "1"
	}
	return "0"
}
func L(items ...V) V {
	parts := make([]string, len(items))
	for i, it := range items {
		parts[i] = string(it)
	}
	return V("(" + strings.Join(parts, " ") + ")")
}
func Some(v V) V { return L(S("some"), v) }
func None() V    { return S("none") }
func Ok(v V) V   { return L(S("ok"), v) }
func Err() V     { return L(S("err")) }
func Panic() V   { return L(S("panic")) }

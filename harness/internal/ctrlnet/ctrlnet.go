// Package ctrlnet is a p2p swarm whose transport is the test driver: every inner
// Tell is captured, and the driver decides what is delivered, when, how often
// and in which order.
package ctrlnet

import (
	"context"
	"fmt"
	"sync"
	"time"

	"go.brendoncarroll.net/p2p"
	"go.brendoncarroll.net/p2p/s/memswarm"
)

type Addr = memswarm.Addr

type Packet struct {
	Src, Dst Addr
	Data     []byte
}

type Net struct {
	mu       sync.Mutex
	mtu      int
	nodes    map[int]*Node
	captured []Packet
	nsent    int
	// Auto: deliver every captured packet immediately (in Tell order)
	Auto bool
}

func New(mtu int) *Net { return &Net{mtu: mtu, nodes: map[int]*Node{}} }

func (n *Net) SetMTU(m int) { n.mu.Lock(); n.mtu = m; n.mu.Unlock() }

type delivery struct {
	msg  p2p.Message[Addr]
	done chan struct{}
}

type Node struct {
	net    *Net
	addr   Addr
	inbox  chan *delivery
	closed chan struct{}
	once   sync.Once

	mu      sync.Mutex
	cond    *sync.Cond
	waiting int
	sent    int
	done    int
}

func (n *Net) NewNode() *Node {
	n.mu.Lock()
	defer n.mu.Unlock()
	nd := &Node{net: n, addr: Addr{N: len(n.nodes)}, inbox: make(chan *delivery, 1<<16), closed: make(chan struct{})}
	nd.cond = sync.NewCond(&nd.mu)
	n.nodes[nd.addr.N] = nd
	return nd
}

// ---- p2p.Swarm ----
func (nd *Node) Tell(ctx context.Context, dst Addr, v p2p.IOVec) error {
	select {
	case <-nd.closed:
		return p2p.ErrClosed
	default:
	}
	nd.net.mu.Lock()
	if p2p.VecSize(v) > nd.net.mtu {
		nd.net.mu.Unlock()
		return p2p.ErrMTUExceeded
	}
	pkt := Packet{Src: nd.addr, Dst: dst, Data: p2p.VecBytes(nil, v)}
	nd.net.captured = append(nd.net.captured, pkt)
	nd.net.nsent++
	auto := nd.net.Auto
	nd.net.mu.Unlock()
	if auto {
		nd.net.Deliver(pkt)
	}
	return nil
}

func (nd *Node) Receive(ctx context.Context, fn func(p2p.Message[Addr])) error {
	nd.mu.Lock()
	nd.waiting++
	nd.cond.Broadcast()
	nd.mu.Unlock()
	leave := func() {
		nd.mu.Lock()
		nd.waiting--
		nd.cond.Broadcast()
		nd.mu.Unlock()
	}
	select {
	case <-ctx.Done():
		leave()
		return ctx.Err()
	case <-nd.closed:
		leave()
		return p2p.ErrClosed
	case d := <-nd.inbox:
		leave()
		fn(d.msg)
		// the message may only be used until fn returns (swarm.go): recycle the buffer the way a real
		// transport does, so that a layer above that kept a reference to it is found out
		for i := range d.msg.Payload {
			d.msg.Payload[i] = 0xA5 ^ byte(i)
		}
		nd.mu.Lock()
		nd.done++
		nd.cond.Broadcast()
		nd.mu.Unlock()
		close(d.done)
		return nil
	}
}

func (nd *Node) LocalAddrs() []Addr { return []Addr{nd.addr} }
func (nd *Node) LocalAddr() Addr    { return nd.addr }
func (nd *Node) MTU() int {
	nd.net.mu.Lock()
	defer nd.net.mu.Unlock()
	return nd.net.mtu
}
func (nd *Node) Close() error {
	nd.once.Do(func() { close(nd.closed) })
	return nil
}
func (nd *Node) ParseAddr(x []byte) (Addr, error) { return memswarm.ParseAddr(x) }

// ---- p2p.Secure with a string "public key" ----
func (nd *Node) PublicKey() string { return fmt.Sprintf("key-%d", nd.addr.N) }
func (nd *Node) LookupPublicKey(ctx context.Context, a Addr) (string, error) {
	return fmt.Sprintf("key-%d", a.N), nil
}

// ---- driver side ----

// Sent is the number of packets ever captured.
func (n *Net) Sent() int { n.mu.Lock(); defer n.mu.Unlock(); return n.nsent }

// Take returns and clears everything captured so far.
func (n *Net) Take() []Packet {
	n.mu.Lock()
	defer n.mu.Unlock()
	out := n.captured
	n.captured = nil
	return out
}

// Deliver hands a packet to its destination's inbox (no waiting).
func (n *Net) Deliver(p Packet) *delivery {
	n.mu.Lock()
	dst := n.nodes[p.Dst.N]
	n.mu.Unlock()
	if dst == nil {
		return nil
	}
	d := &delivery{msg: p2p.Message[Addr]{Src: p.Src, Dst: p.Dst, Payload: append([]byte{}, p.Data...)}, done: make(chan struct{})}
	dst.mu.Lock()
	dst.sent++
	dst.mu.Unlock()
	dst.inbox <- d
	return d
}

// WaitIdle blocks until every delivered packet has been consumed and `workers`
// goroutines are again blocked in Receive, i.e. the layer above has finished
// processing everything delivered so far.
func (nd *Node) WaitIdle(workers int) {
	deadline := time.Now().Add(20 * time.Second)
	t := time.AfterFunc(20*time.Second, func() { nd.mu.Lock(); nd.cond.Broadcast(); nd.mu.Unlock() })
	defer t.Stop()
	nd.mu.Lock()
	defer nd.mu.Unlock()
	for !(nd.done == nd.sent && nd.waiting >= workers) {
		if time.Now().After(deadline) {
			panic(fmt.Sprintf("ctrlnet: layer above did not become idle (done=%d sent=%d waiting=%d want=%d)", nd.done, nd.sent, nd.waiting, workers))
		}
		nd.cond.Wait()
	}
}

// DeliverSync delivers one packet and waits until the layer above has processed it.
func (n *Net) DeliverSync(p Packet, workers int) {
	n.mu.Lock()
	dst := n.nodes[p.Dst.N]
	n.mu.Unlock()
	if dst == nil {
		return
	}
	dst.WaitIdle(workers)
	n.Deliver(p)
	dst.WaitIdle(workers)
}

// Package gen: one splitmix64 PRNG; every random choice of a run derives from it.
package gen

type R struct{ s uint64 }

func New(seed uint64) *R { return &R{s: seed} }

func (r *R) U64() uint64 {
	r.s += 0x9e3779b97f4a7c15
	z := r.s
	z = (z ^ (z >> 30)) * 0xbf58476d1ce4e5b9
	z = (z ^ (z >> 27)) * 0x94d049bb133111eb
	return z ^ (z >> 31)
}
func (r *R) Intn(n int) int {
	if n <= 0 {
		return 0
	}
	return int(r.U64() % uint64(n))
}
func (r *R) Bool() bool { return r.U64()&1 == 1 }
func (r *R) Bytes(n int) []byte {
	b := make([]byte, n)
	for i := range b {
		b[i] = byte(r.U64())
	}
	return b
}
func Pick[T any](r *R, xs []T) T { return xs[r.Intn(len(xs))] }

// Fork derives an independent stream (for a sub-case) without disturbing order.
func (r *R) Fork() *R { return New(r.U64()) }

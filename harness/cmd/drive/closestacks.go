package main

import (
	"context"
	"crypto/ed25519"
	"errors"
	"fmt"
	"runtime"
	"sync"
	"time"

	"go.brendoncarroll.net/p2p"
	"go.brendoncarroll.net/p2p/f/x509"
	"go.brendoncarroll.net/p2p/p/mbapp"
	"go.brendoncarroll.net/p2p/p/p2pmux"
	"go.brendoncarroll.net/p2p/s/fragswarm"
	"go.brendoncarroll.net/p2p/s/memswarm"
	"go.brendoncarroll.net/p2p/s/multiswarm"
	"go.brendoncarroll.net/p2p/s/p2pkeswarm"
	"go.brendoncarroll.net/p2p/s/quicswarm"
	"go.brendoncarroll.net/p2p/s/sshswarm"
	"go.brendoncarroll.net/p2p/s/udpswarm"
	"go.brendoncarroll.net/p2p/s/wlswarm"

	"verifharness/internal/sx"
)

// closable is what C12 needs of a swarm: blocking calls and Close.
type closable struct {
	name     string
	warm     func() // optional: establish connections / sessions so that Close has something to release
	receive  func(ctx context.Context) (called bool, err error)
	serveAsk func(ctx context.Context) (called bool, err error) // nil if not ask-capable
	closeFn  func() error
}

func mkClosable[A p2p.Addr](name string, sw p2p.Swarm[A]) closable {
	cl := closable{name: name, closeFn: sw.Close}
	cl.receive = func(ctx context.Context) (bool, error) {
		called := false
		err := sw.Receive(ctx, func(p2p.Message[A]) { called = true })
		return called, err
	}
	if as, ok := sw.(p2p.AskServer[A]); ok {
		cl.serveAsk = func(ctx context.Context) (bool, error) {
			called := false
			err := as.ServeAsk(ctx, func(context.Context, []byte, p2p.Message[A]) int { called = true; return 0 })
			return called, err
		}
	}
	return cl
}

type secMem = p2p.SecureAskSwarm[memswarm.Addr, x509.PublicKey]

func closeStackKinds() []func() closable {
	pub := func(i int) x509.PublicKey {
		k := testKey(500 + i)
		p, err := x509.DefaultRegistry().PublicFromPrivate(&k)
		if err != nil {
			panic(err)
		}
		return p
	}
	newMem := func() secMem {
		return memswarm.NewSecureRealm[x509.PublicKey]().NewSwarm(pub(1))
	}
	return []func() closable{
		func() closable { return mkClosable[memswarm.Addr]("memswarm", newMem()) },
		func() closable {
			return mkClosable[memswarm.Addr]("fragswarm", fragswarm.NewSecure[memswarm.Addr, x509.PublicKey](newMem(), 1<<16))
		},
		func() closable {
			return mkClosable[memswarm.Addr]("mbapp", mbapp.New[memswarm.Addr, x509.PublicKey](newMem(), 1<<16))
		},
		func() closable {
			inner := newMem()
			m := p2pmux.NewStringSecureAskMux[memswarm.Addr, x509.PublicKey](inner)
			cl := mkClosable[memswarm.Addr]("mux-channel", m.Open("chan"))
			closeChan := cl.closeFn
			// the multiplexer's own loops belong to the swarm beneath it
			cl.closeFn = func() error { err := closeChan(); inner.Close(); return err }
			return cl
		},
		func() closable {
			return mkClosable[memswarm.Addr]("wlswarm", wlswarm.WrapSecureAsk[memswarm.Addr, x509.PublicKey](newMem(), func(memswarm.Addr) bool { return true }))
		},
		func() closable {
			ms := multiswarm.NewSecureAsk[x509.PublicKey](map[string]multiswarm.DynSecureAskSwarm[x509.PublicKey]{
				"a": multiswarm.WrapSecureAskSwarm[memswarm.Addr, x509.PublicKey](newMem()),
				"b": multiswarm.WrapSecureAskSwarm[memswarm.Addr, x509.PublicKey](newMem()),
			})
			return mkClosable[multiswarm.Addr]("multiswarm", ms)
		},
		func() closable {
			ms := multiswarm.NewSecureAsk[x509.PublicKey](map[string]multiswarm.DynSecureAskSwarm[x509.PublicKey]{
				"a": errCloseSwarm{multiswarm.WrapSecureAskSwarm[memswarm.Addr, x509.PublicKey](newMem())},
				"b": errCloseSwarm{multiswarm.WrapSecureAskSwarm[memswarm.Addr, x509.PublicKey](newMem())},
			})
			return mkClosable[multiswarm.Addr]("multiswarm-transport-close-fails", ms)
		},
		func() closable {
			ks := p2pkeswarm.New[memswarm.Addr](newMem(), testKey(501))
			cl := mkClosable[p2pkeswarm.Addr[memswarm.Addr]]("p2pkeswarm", ks)
			cl.warm = func() { // a handshake in progress towards a peer that never answers: its timers run
				ctx, cf := context.WithTimeout(context.Background(), 30*time.Millisecond)
				defer cf()
				_ = ks.Tell(ctx, p2pkeswarm.Addr[memswarm.Addr]{ID: p2p.PeerID{1}, Addr: memswarm.Addr{N: 77}}, p2p.IOVec{[]byte("x")})
			}
			return cl
		},
		func() closable {
			u, err := udpswarm.New("127.0.0.1:")
			if err != nil {
				panic(err)
			}
			return mkClosable[udpswarm.Addr]("udpswarm", u)
		},
		func() closable {
			q, err := quicswarm.NewOnUDP("127.0.0.1:", testKey(502))
			if err != nil {
				panic(err)
			}
			return mkClosable[quicswarm.Addr[udpswarm.Addr]]("quicswarm", q)
		},
		func() closable {
			mkSSH := func(b byte) *sshswarm.Swarm {
				seed := make([]byte, 32)
				seed[0] = b
				signer, err := sshswarm.NewSignerFromSigner(ed25519.NewKeyFromSeed(seed))
				if err != nil {
					panic(err)
				}
				s, err := sshswarm.New("127.0.0.1:", signer)
				if err != nil {
					panic(err)
				}
				return s
			}
			s, peer := mkSSH(9), mkSSH(10)
			cl := mkClosable[sshswarm.Addr]("sshswarm", s)
			cl.warm = func() { // an established outbound and inbound connection
				ctx, cf := context.WithTimeout(context.Background(), 3*time.Second)
				defer cf()
				go peer.Receive(ctx, func(p2p.Message[sshswarm.Addr]) {})
				_ = s.Tell(ctx, peer.LocalAddrs()[0], p2p.IOVec{[]byte("hello")})
				go s.Receive(ctx, func(p2p.Message[sshswarm.Addr]) {})
				_ = peer.Tell(ctx, s.LocalAddrs()[0], p2p.IOVec{[]byte("hello")})
				time.Sleep(20 * time.Millisecond)
			}
			inner := cl.closeFn
			cl.closeFn = func() error { err := inner(); peer.Close(); return err }
			return cl
		},
	}
}

// closeStacks: goroutines blocked in Receive / ServeAsk with contexts that never
// expire, then Close (twice), then fresh calls: everybody must return a non-nil
// error promptly.
// closeWhileCallbackTells: Close is called while a Receive callback is still running and
// that callback then sends a message through the same network (what p2pkeswarm does when it
// answers a handshake message).  Close must return.
func closeWhileCallbackTells(c *ctxT) {
	for rep := 0; rep < c.scale(3, 20); rep++ {
		realm := memswarm.NewRealm()
		a, b := realm.NewSwarm(), realm.NewSwarm()
		lg := &evlog{}
		inCb := make(chan struct{})
		cbDone := make(chan struct{})
		go func() {
			defer close(cbDone)
			a.Receive(context.Background(), func(m p2p.Message[memswarm.Addr]) {
				close(inCb)
				time.Sleep(time.Duration(5+c.rng.Intn(30)) * time.Millisecond) // Close begins meanwhile
				a.Tell(context.Background(), b.LocalAddrs()[0], p2p.IOVec{[]byte("reply")})
			})
		}()
		b.Tell(context.Background(), a.LocalAddrs()[0], p2p.IOVec{[]byte("hello")})
		select {
		case <-inCb:
		case <-time.After(2 * time.Second):
		}
		lg.add(sx.L(sx.S("cb")))
		closed := make(chan struct{})
		go func() { a.Close(); close(closed) }()
		select {
		case <-closed:
		case <-time.After(6 * time.Second):
			lg.add(sx.L(sx.S("stuck-close"), sx.I(0)))
		}
		lg.add(sx.L(sx.S("ce")))
		go b.Close() // (would wait for the realm lock if a.Close is stuck)
		lg.mu.Lock()
		evs := append([]sx.V{}, lg.evs...)
		lg.mu.Unlock()
		c.emit(sx.L(sx.S("hub"), sx.S("close-in-callback"), sx.I(1), sx.I(1), sx.I(c.n)), sx.L(evs...))
		c.count("close/in-callback")
	}
}

func closeStacks(c *ctxT) {
	closeWhileCallbackTells(c)
	closePendingDelivery(c)
	for _, mk := range closeStackKinds() {
		for rep := 0; rep < c.scale(2, 12); rep++ {
			runtime.GC()
			base := runtime.NumGoroutine()
			cl := mk()
			if cl.warm != nil {
				cl.warm()
			}
			lg := &evlog{}
			var wg sync.WaitGroup
			nBlocked := 1 + c.rng.Intn(4)
			done := []chan struct{}{}
			start := func(id int, f func(context.Context) (bool, error)) {
				d := make(chan struct{})
				done = append(done, d)
				wg.Add(1)
				go func() {
					defer wg.Done()
					defer close(d)
					lg.add(sx.L(sx.S("rc"), sx.I(id)))
					called, err := f(context.Background())
					switch {
					case err != nil:
						lg.add(sx.L(sx.S("rre"), sx.I(id), sx.S("closed")))
					case !called:
						lg.add(sx.L(sx.S("nilret"), sx.I(id)))
					default:
						lg.add(sx.L(sx.S("unexpected-message"), sx.I(id)))
					}
				}()
			}
			id := 0
			for i := 0; i < nBlocked; i++ {
				start(id, cl.receive)
				id++
				if cl.serveAsk != nil {
					start(id, cl.serveAsk)
					id++
				}
			}
			time.Sleep(2 * time.Millisecond) // let them block
			lg.add(sx.L(sx.S("cb")))
			closed := make(chan struct{})
			go func() {
				defer close(closed)
				defer func() {
					if e := recover(); e != nil {
						lg.add(sx.L(sx.S("panic"), sx.I(0)))
					}
				}()
				cl.closeFn()
				cl.closeFn() // repeated Close
			}()
			select {
			case <-closed:
			case <-time.After(8 * time.Second):
				lg.add(sx.L(sx.S("stuck-close"), sx.I(0)))
			}
			lg.add(sx.L(sx.S("ce")))
			// calls made afterwards
			start(id, cl.receive)
			id++
			if cl.serveAsk != nil {
				start(id, cl.serveAsk)
				id++
			}
			ch := make(chan struct{})
			go func() { wg.Wait(); close(ch) }()
			select {
			case <-ch:
			case <-time.After(6 * time.Second):
				for i, d := range done {
					select {
					case <-d:
					default:
						lg.add(sx.L(sx.S("stuck-r"), sx.I(i)))
					}
				}
			}
			// Close releases the goroutines the swarm started
			left := 0
			for deadline := time.Now().Add(6 * time.Second); time.Now().Before(deadline); time.Sleep(5 * time.Millisecond) {
				if left = runtime.NumGoroutine() - base; left <= 0 {
					break
				}
			}
			if left > 0 {
				lg.add(sx.L(sx.S("leak"), sx.I(left)))
			}
			c.hist[fmt.Sprintf("close/%s/goroutines-left-%d", cl.name, left)]++
			lg.mu.Lock()
			evs := append([]sx.V{}, lg.evs...)
			lg.mu.Unlock()
			c.emit(sx.L(sx.S("hub"), sx.S("stack-"+cl.name), sx.I(id), sx.I(0), sx.I(c.n)), sx.L(evs...))
			c.count(fmt.Sprintf("close/%s", cl.name))
		}
	}
}

// cancelStacks: a Receive / ServeAsk whose context is cancelled while nothing
// arrives must return promptly with the context's error (C13).
func cancelStacks(c *ctxT) {
	for _, mk := range closeStackKinds() {
		cl := mk()
		lg := &evlog{}
		var wg sync.WaitGroup
		var cancels []context.CancelFunc
		done := []chan struct{}{}
		start := func(id int, f func(context.Context) (bool, error)) {
			ctx, cancel := context.WithCancel(context.Background())
			cancels = append(cancels, cancel)
			d := make(chan struct{})
			done = append(done, d)
			wg.Add(1)
			go func() {
				defer wg.Done()
				defer close(d)
				lg.add(sx.L(sx.S("rc"), sx.I(id)))
				called, err := f(ctx)
				switch {
				case err != nil:
					lg.add(sx.L(sx.S("rre"), sx.I(id), errClass(ctx, err)))
				case !called:
					lg.add(sx.L(sx.S("nilret"), sx.I(id)))
				}
			}()
		}
		start(0, cl.receive)
		if cl.serveAsk != nil {
			start(1, cl.serveAsk)
		}
		time.Sleep(2 * time.Millisecond)
		for i, cancel := range cancels {
			lg.add(sx.L(sx.S("cr"), sx.I(i)))
			cancel()
		}
		ch := make(chan struct{})
		go func() { wg.Wait(); close(ch) }()
		select {
		case <-ch:
		case <-time.After(5 * time.Second):
			for i, d := range done {
				select {
				case <-d:
				default:
					lg.add(sx.L(sx.S("stuck-r"), sx.I(i)))
				}
			}
		}
		cl.closeFn()
		lg.mu.Lock()
		evs := append([]sx.V{}, lg.evs...)
		lg.mu.Unlock()
		c.emit(sx.L(sx.S("hub"), sx.S("cancel-"+cl.name), sx.I(len(done)), sx.I(0), sx.I(c.n)), sx.L(evs...))
		c.count("cancel/" + cl.name)
	}
}

// errCloseSwarm is a transport whose Close does its work and then reports an error
// (a socket its owner had already closed does that)
type errCloseSwarm struct {
	multiswarm.DynSecureAskSwarm[x509.PublicKey]
}

func (e errCloseSwarm) Close() error {
	e.DynSecureAskSwarm.Close()
	return errors.New("transport close failed")
}

// closePendingDelivery: a message has arrived at a p2pkeswarm over an in-memory transport but
// nobody is in Receive, so one of its workers is blocked handing it up; Close must still return.
func closePendingDelivery(c *ctxT) {
	for rep := 0; rep < c.scale(3, 20); rep++ {
		realm := memswarm.NewRealm()
		a := p2pkeswarm.New[memswarm.Addr](realm.NewSwarm(), testKey(511))
		b := p2pkeswarm.New[memswarm.Addr](realm.NewSwarm(), testKey(512))
		lg := &evlog{}
		ctx, cf := context.WithTimeout(context.Background(), 2*time.Second)
		for i := 0; i < 1+c.rng.Intn(3); i++ {
			b.Tell(ctx, a.LocalAddrs()[0], p2p.IOVec{[]byte("pending")})
		}
		cf()
		time.Sleep(10 * time.Millisecond)
		lg.add(sx.L(sx.S("cb")))
		closed := make(chan struct{})
		go func() { a.Close(); close(closed) }()
		select {
		case <-closed:
		case <-time.After(8 * time.Second):
			lg.add(sx.L(sx.S("stuck-close"), sx.I(0)))
		}
		lg.add(sx.L(sx.S("ce")))
		go b.Close()
		lg.mu.Lock()
		evs := append([]sx.V{}, lg.evs...)
		lg.mu.Unlock()
		c.emit(sx.L(sx.S("hub"), sx.S("close-with-pending-delivery"), sx.I(1), sx.I(1), sx.I(c.n)), sx.L(evs...))
		c.count("close/pending-delivery")
	}
}

package main

import (
	"context"
	"encoding/binary"
	"fmt"
	"sync"
	"time"

	"go.brendoncarroll.net/p2p"
	"go.brendoncarroll.net/p2p/f/x509"
	"go.brendoncarroll.net/p2p/p/p2pke"

	"verifharness/internal/gen"
	"verifharness/internal/sx"
)

func init() {
	drivers["C05"] = runC05
	drivers["C07"] = runC07
}

// A world of real p2pke Channels whose network is the driver.  Time does not
// pass by itself: timers are configured far away and fired through the hook,
// ageing is done through the hook (KeepAlive = 60 min, RejectAfter = 180 min).
type chMsg struct {
	from int
	data []byte
}

type chWorld struct {
	n      int
	accept [][]bool
	chans  []*p2pke.Channel
	owner  map[string]int // marshalled public key data -> channel index

	mu   sync.Mutex
	msgs []chMsg

	acts []sx.V
	obs  []sx.V
}

func newChWorld(n int, accept [][]bool) *chWorld {
	w := &chWorld{n: n, accept: accept, owner: map[string]int{}}
	for i := 0; i < n; i++ {
		priv := testKey(400 + i)
		pub, err := x509.DefaultRegistry().PublicFromPrivate(&priv)
		if err != nil {
			panic(err)
		}
		w.owner[string(pub.Data)] = i
		w.chans = append(w.chans, nil)
		w.makeChan(i)
	}
	return w
}

func (w *chWorld) makeChan(i int) {
	i2 := i
	w.chans[i] = p2pke.NewChannel(p2pke.ChannelConfig{
		PrivateKey: testKey(400 + i),
		Send: func(b []byte) {
			w.mu.Lock()
			w.msgs = append(w.msgs, chMsg{i2, append([]byte{}, b...)})
			w.mu.Unlock()
		},
		AcceptKey: func(k *x509.PublicKey) bool {
			o, ok := w.owner[string(k.Data)]
			return ok && w.accept[i2][o]
		},
		Logger:           nopLogger,
		KeepAliveTimeout: 60 * time.Minute,
		RejectAfterTime:  180 * time.Minute,
		RekeyAfterTime:   1000 * time.Hour,
		HandshakeBackoff: 1000 * time.Hour,
	})
}

func (w *chWorld) nmsgs() int {
	w.mu.Lock()
	defer w.mu.Unlock()
	return len(w.msgs)
}

func (w *chWorld) kindsSince(n0 int) sx.V {
	w.mu.Lock()
	defer w.mu.Unlock()
	var ks []sx.V
	for _, m := range w.msgs[n0:] {
		c := binary.BigEndian.Uint32(m.data[:4])
		if c < 4 {
			ks = append(ks, sx.N(uint64(c)))
		} else {
			ks = append(ks, sx.L(sx.S("data"), sx.N(uint64(c))))
		}
	}
	return sx.L(ks...)
}

func (w *chWorld) chanSx(x int) []sx.V {
	infos := w.chans[x].VerifSlotInfos()
	slots := make([]sx.V, 3)
	for i, in := range infos {
		if !in.Present {
			slots[i] = sx.N(0)
			continue
		}
		rk := sx.S("none")
		if in.RemoteKey != nil {
			if o, ok := w.owner[string(in.RemoteKey)]; ok {
				rk = sx.I(o)
			} else {
				rk = sx.S("unknown-key")
			}
		}
		ii := 0
		if in.IsInit {
			ii = 1
		}
		slots[i] = sx.L(sx.I(ii), sx.I(int(in.HsIndex)), rk)
	}
	rem := sx.S("none")
	if rk := w.chans[x].RemoteKey(); !rk.IsZero() {
		if o, ok := w.owner[string(rk.Data)]; ok {
			rem = sx.I(o)
		} else {
			rem = sx.S("unknown-key")
		}
	}
	return []sx.V{sx.L(slots...), rem, sx.I(x)}
}

func (w *chWorld) record(act sx.V, res sx.V, n0 int, x int) {
	w.acts = append(w.acts, act)
	entry := append([]sx.V{res, w.kindsSince(n0)}, w.chanSx(x)...)
	w.obs = append(w.obs, sx.L(entry...))
}

func (w *chWorld) rekey(x int) {
	before := w.chans[x].VerifSlotInfos()[2]
	n0 := w.nmsgs()
	w.chans[x].VerifFireRekey()
	after := w.chans[x].VerifSlotInfos()[2]
	rank := uint64(0)
	if after.Present && (!before.Present || before.IDRank != after.IDRank) {
		rank = after.IDRank
		// the handshake timer was armed with 0: wait for its InitHello
		deadline := time.Now().Add(5 * time.Second)
		for w.nmsgs() == n0 {
			if time.Now().After(deadline) {
				panic("handshake timer did not fire")
			}
			time.Sleep(50 * time.Microsecond)
		}
		time.Sleep(100 * time.Microsecond)
	}
	w.record(sx.L(sx.S("rekey"), sx.I(x), sx.N(rank)), sx.S("rekey"), n0, x)
}

func (w *chWorld) handshake(x int) {
	n0 := w.nmsgs()
	w.chans[x].VerifFireHandshake()
	w.record(sx.L(sx.S("hs"), sx.I(x)), sx.S("hs"), n0, x)
}

func (w *chWorld) deliverTag(tag string, x, j int) (app bool) {
	n0 := w.nmsgs()
	if j >= n0 {
		w.record(sx.L(sx.S(tag), sx.I(x), sx.I(j)), sx.S("nomsg"), n0, x)
		return false
	}
	w.mu.Lock()
	data := w.msgs[j].data
	w.mu.Unlock()
	out, err := w.chans[x].Deliver(nil, data)
	var res sx.V
	switch {
	case err != nil:
		res = sx.S("error")
	case out != nil:
		idx := uint64(1 << 62)
		if len(out) == 8 {
			idx = binary.BigEndian.Uint64(out)
		}
		res = sx.L(sx.S("app"), sx.N(idx))
		app = true
	case w.nmsgs() > n0:
		res = sx.S("reply")
	default:
		res = sx.S("none")
	}
	w.record(sx.L(sx.S(tag), sx.I(x), sx.I(j)), res, n0, x)
	return app
}
func (w *chWorld) deliver(x, j int) bool { return w.deliverTag("dlv", x, j) }

// send: the payload names the index the ciphertext will have in the message list
func (w *chWorld) sendTag(tag string, x int) (idx int, sent bool) {
	n0 := w.nmsgs()
	res := sx.S("blocked")
	if w.chans[x].VerifExpireNow() {
		var p [8]byte
		binary.BigEndian.PutUint64(p[:], uint64(n0))
		ctx, cf := context.WithTimeout(context.Background(), 2*time.Second)
		err := w.chans[x].Send(ctx, p2p.IOVec{p[:]})
		cf()
		if err == nil && w.nmsgs() == n0+1 {
			res, sent = sx.S("sent"), true
		} else {
			res = sx.S("send-failed")
		}
	}
	w.record(sx.L(sx.S(tag), sx.I(x)), res, n0, x)
	return n0, sent
}
func (w *chWorld) send(x int) (int, bool) { return w.sendTag("send", x) }

func (w *chWorld) age(x int, minutes int) {
	n0 := w.nmsgs()
	w.chans[x].VerifAge(time.Duration(minutes) * time.Minute)
	w.record(sx.L(sx.S("age"), sx.I(x), sx.I(minutes)), sx.S("aged"), n0, x)
}

func (w *chWorld) restart(x int) {
	n0 := w.nmsgs()
	w.chans[x].Close()
	w.makeChan(x)
	w.record(sx.L(sx.S("restart"), sx.I(x)), sx.S("restarted"), n0, x)
}

func (w *chWorld) close() {
	for _, c := range w.chans {
		c.Close()
	}
}

func (w *chWorld) emit(c *ctxT, class string) {
	rows := make([]sx.V, w.n)
	for i := range rows {
		r := make([]sx.V, w.n)
		for j := range r {
			if w.accept[i][j] {
				r[j] = sx.I(1)
			} else {
				r[j] = sx.I(0)
			}
		}
		rows[i] = sx.L(r...)
	}
	c.emit(sx.L(sx.S("chan"), sx.I(w.n), sx.L(rows...), sx.L(w.acts...)), sx.L(w.obs...))
	c.count(class)
}

// a random adversarial action on the world
func (w *chWorld) randomAct(r *gen.R, allowAge, allowRestart bool) {
	w.randomAct2(r, allowAge, allowRestart, false)
}

// time passes for every channel alike (ageAll) unless the scenario is about
// safety only, where one-sided ageing is a harmless over-approximation
func (w *chWorld) ageAll(minutes int) {
	for x := range w.chans {
		w.age(x, minutes)
	}
}

func (w *chWorld) randomAct2(r *gen.R, allowAge, allowRestart, ageTogether bool) {
	x := r.Intn(w.n)
	switch k := r.Intn(20); {
	case k < 2:
		w.rekey(x)
	case k < 4:
		w.handshake(x)
	case k < 12: // deliver: mostly recent messages, to anybody
		n := w.nmsgs()
		if n == 0 {
			w.rekey(x)
			return
		}
		j := n - 1 - r.Intn(min(n, 4))
		if r.Intn(4) == 0 {
			j = r.Intn(n + 1)
		}
		if ageTogether && j < n { // liveness scenarios: the network does not reflect a channel's messages to itself
			w.mu.Lock()
			from := w.msgs[j].from
			w.mu.Unlock()
			if from == x {
				x = (x + 1) % w.n
			}
		}
		w.deliver(x, j)
	case k < 15:
		w.send(x)
	case k < 17 && allowAge:
		if ageTogether {
			w.ageAll(gen.Pick(r, []int{61, 100, 181}))
		} else {
			w.age(x, gen.Pick(r, []int{61, 100, 181}))
		}
	case k == 17 && allowRestart:
		w.restart(x)
	default:
		// the message most likely to make progress: the latest one not from x
		w.mu.Lock()
		j := -1
		for i := len(w.msgs) - 1; i >= 0; i-- {
			if w.msgs[i].from != x {
				j = i
				break
			}
		}
		w.mu.Unlock()
		if j >= 0 {
			w.deliver(x, j)
		}
	}
}

func genAccept(r *gen.R, n int, rejecting bool) [][]bool {
	a := make([][]bool, n)
	for i := range a {
		a[i] = make([]bool, n)
		for j := range a[i] {
			a[i][j] = !rejecting || r.Intn(3) > 0
		}
	}
	return a
}

func runC05(c *ctxT) { runC05n(c, c.scale(260, 6000)) }

func runC05n(c *ctxT, n int) {
	for i := 0; i < n; i++ {
		r := c.rng.Fork()
		nc := 2 + r.Intn(2)
		if i%4 == 1 {
			nc = 3
		}
		w := newChWorld(nc, genAccept(r, nc, i%4 != 1))
		if i%4 == 1 {
			// directed: a channel bound to one key has its rekey handshake answered by ANOTHER key it would
			// accept on a fresh channel; then that peer sends data
			a := r.Intn(3)
			b, o := (a+1)%3, (a+2)%3
			w.rekey(a)
			w.reliableRounds(a, b, 2)
			w.send(a)
			w.rekey(a)
			w.reliableRounds(a, o, 2)
			w.send(o)
			w.pump(a, o)
			w.send(b)
			w.pump(a, b)
		}
		steps := 10 + r.Intn(50)
		for s := 0; s < steps; s++ {
			w.randomAct(r, i%3 == 0, i%5 == 0)
		}
		w.emit(c, fmt.Sprintf("c05/chans%d/steps%d", nc, steps/20*20))
		w.close()
	}
}

// pump: one handshake retransmission interval on both sides followed by
// in-order delivery of everything emitted, until quiet
func (w *chWorld) pump(a, b int) {
	start := w.nmsgs()
	w.handshake(a)
	w.handshake(b)
	for j := start; j < w.nmsgs() && j < start+40; j++ {
		w.mu.Lock()
		from := w.msgs[j].from
		w.mu.Unlock()
		to := a
		if from == a {
			to = b
		}
		w.deliver(to, j)
	}
}

// establish: a initiates and the network is reliable for `rounds` intervals
func (w *chWorld) reliableRounds(a, b, rounds int) {
	for round := 0; round < rounds; round++ {
		ia := w.chans[a].VerifSlotInfos()
		if !ia[1].Present && !ia[2].Present {
			w.rekey(a)
		}
		w.pump(a, b)
	}
}

// pendingSend: a Send is pending on a while the network is reliable.  Each
// round is what the blocked Send does when it wakes up (expire, send if there is
// a current session, otherwise arm the rekey timer when no handshake is in
// progress) followed by one retransmission interval.  The last attempt is the
// marked one.
func (w *chWorld) pendingSend(a, b, rounds int) (int, bool) {
	for round := 0; round < rounds; round++ {
		if j, ok := w.send(a); ok {
			return j, true
		}
		if !w.chans[a].VerifSlotInfos()[2].Present {
			w.rekey(a)
		}
		w.pump(a, b)
	}
	return w.sendTag("msend", a)
}

func runC07(c *ctxT) {
	timerCases(c, c.rng.Fork())
	n := c.scale(260, 6000)
	for i := 0; i < n; i++ {
		r := c.rng.Fork()
		w := newChWorld(2, genAccept(r, 2, false))
		a, b := 0, 1
		class := "prefix"
		switch i % 6 {
		case 0: // simultaneous initiation, crossed messages
			w.rekey(a)
			w.rekey(b)
			class = "simultaneous"
		case 1: // established, then one side restarts with a fresh channel
			w.rekey(a)
			w.reliableRounds(a, b, 2)
			if r.Bool() {
				w.send(a)
			}
			w.restart(gen.Pick(r, []int{a, b}))
			class = "restart"
		case 2: // established, aged past keep-alive / rekey / reject on one or both sides
			w.rekey(a)
			w.reliableRounds(a, b, 2)
			for k := 0; k < 1+r.Intn(2); k++ {
				w.ageAll(gen.Pick(r, []int{61, 100, 181}))
				if r.Bool() { // traffic in one direction keeps that side's receiver fresh
					if j, ok := w.send(a); ok {
						w.deliver(b, j)
					}
				}
			}
			class = "aged"
		case 3: // rekey of an established channel with traffic in between
			w.rekey(a)
			w.reliableRounds(a, b, 2)
			w.send(a)
			w.rekey(gen.Pick(r, []int{a, b}))
			class = "rekey"
		}
		if i%6 == 4 { // steady traffic both ways, each gap below KeepAlive: nobody may be torn down for idleness
			w.rekey(a)
			w.reliableRounds(a, b, 2)
			for k := 0; k < 3; k++ {
				w.ageAll(gen.Pick(r, []int{40, 50, 55}))
				if j, ok := w.send(a); ok {
					w.deliver(b, j)
				}
				if j, ok := w.send(b); ok {
					w.deliver(a, j)
				}
			}
			if j, ok := w.sendTag("msend", b); ok {
				w.deliverTag("mdlv", a, j)
			}
			w.emit(c, "c07/keepalive")
			w.close()
			continue
		}
		// adversarial prefix over the channel's own messages
		steps := r.Intn(25)
		for s := 0; s < steps; s++ {
			w.randomAct2(r, i%6 == 2, false, true)
		}
		// the network becomes reliable; a Send is pending on a.  Once it has
		// completed (possibly on a session the peer has meanwhile dropped: that
		// datagram may be lost) and two more intervals have passed, traffic flows.
		if _, ok := w.pendingSend(a, b, 4); ok {
			w.pump(a, b)
			w.pump(a, b)
			if j, ok := w.sendTag("msend", a); ok {
				w.deliverTag("mdlv", b, j)
				if j, ok := w.send(b); ok { // whatever b can then send must be readable by a
					w.deliverTag("mdlv", a, j)
				}
			}
		}
		w.emit(c, fmt.Sprintf("c07/%s/prefix%d", class, steps/10*10))
		w.close()
	}
}

package main

import (
	"bytes"
	"fmt"
	"go.brendoncarroll.net/p2p/s/memswarm"

	"go.brendoncarroll.net/p2p"
	"go.brendoncarroll.net/p2p/f/x509"
	"go.brendoncarroll.net/p2p/f/x509/oids"
	"go.brendoncarroll.net/p2p/s/p2pkeswarm"
	"go.brendoncarroll.net/p2p/s/quicswarm"

	"verifharness/internal/gen"
	"verifharness/internal/sx"
)

func init() { drivers["C17"] = runC17 }

func genOID(r *gen.R) []int {
	n := 2 + r.Intn(11)
	switch r.Intn(12) {
	case 0:
		n = r.Intn(2) // too short: not encodable
	}
	arcs := make([]int, n)
	for i := range arcs {
		switch r.Intn(8) {
		case 0:
			arcs[i] = 0
		case 1:
			arcs[i] = gen.Pick(r, []int{127, 128, 16383, 16384, 1<<21 - 1, 1 << 21, 1<<28 - 1, 1 << 28})
		case 2:
			arcs[i] = gen.Pick(r, []int{1<<31 - 1, 1 << 31, 1 << 40, 1<<62 - 1}) // at / beyond the decoder's limit
		default:
			arcs[i] = r.Intn(100000)
		}
	}
	if n >= 2 {
		switch r.Intn(10) {
		case 0:
			arcs[0] = 3 // invalid first arc
		case 1:
			arcs[0], arcs[1] = r.Intn(2), 40+r.Intn(5) // invalid second arc
		case 2:
			arcs[0], arcs[1] = 2, gen.Pick(r, []int{0, 39, 40, 47, 48, 999, 1<<31 - 81, 1<<31 - 80})
		default:
			arcs[0], arcs[1] = r.Intn(3), r.Intn(40)
		}
	}
	return arcs
}

func arcsSx(a []int) sx.V {
	out := make([]sx.V, len(a))
	for i, x := range a {
		out[i] = sx.N(uint64(x))
	}
	return sx.L(out...)
}

func genKeyData(r *gen.R) []byte {
	switch r.Intn(8) {
	case 0:
		return nil
	case 1:
		return []byte{}
	case 2:
		return make([]byte, 32)
	case 3:
		return r.Bytes(gen.Pick(r, []int{125, 126, 127, 128, 129, 255, 256, 257, 600}))
	default:
		return r.Bytes(r.Intn(70))
	}
}

func oidArcs(o oids.OID) []int {
	out := make([]int, o.Len())
	for i := range out {
		out[i] = int(o.At(i))
	}
	return out
}

func cmp3(c int) sx.V { return sx.I(c + 1) }

func runC17(c *ctxT) {
	r := c.rng
	n := c.scale(700, 20000)
	for i := 0; i < n; i++ {
		arcs := genOID(r)
		data := genKeyData(r)
		k := x509.PublicKey{Algorithm: oids.New(arcs...), Data: data}
		m := x509.MarshalPublicKey(nil, &k)
		// ---- marshal / parse back
		back, err := x509.ParsePublicKey(m)
		rt := err == nil && x509.EqualPublicKeys(&back, &k) && bytes.Equal(back.Data, k.Data)
		c.emit(sx.L(sx.S("spki"), arcsSx(arcs), sx.B(data)), sx.L(sx.B(m), sx.Bool(rt)))
		c.count(fmt.Sprintf("spki/arcs%d/data%s/roundtrip%v", len(arcs)/4*4, lenClass(len(data)), rt))
		// ---- equality vs encoding
		arcs2, data2 := arcs, data
		switch r.Intn(4) {
		case 0:
			arcs2 = genOID(r)
		case 1:
			data2 = genKeyData(r)
		case 2:
			if len(data) > 0 {
				data2 = append([]byte{}, data...)
				data2[r.Intn(len(data2))] ^= 1
			}
		}
		k2 := x509.PublicKey{Algorithm: oids.New(arcs2...), Data: data2}
		m2 := x509.MarshalPublicKey(nil, &k2)
		c.emit(sx.L(sx.S("equal"), arcsSx(arcs), sx.B(data), arcsSx(arcs2), sx.B(data2)),
			sx.L(sx.Bool(x509.EqualPublicKeys(&k, &k2)), sx.Bool(bytes.Equal(m, m2))))
		// ---- parse of valid, mutated and arbitrary encodings
		raw := append([]byte{}, m...)
		switch r.Intn(5) {
		case 0:
			raw = r.Bytes(r.Intn(40))
		case 1:
			if len(raw) > 0 {
				raw[r.Intn(len(raw))] ^= byte(1 << uint(r.Intn(8)))
			}
		case 2:
			if len(raw) > 0 {
				raw = raw[:r.Intn(len(raw))]
			}
		case 3:
			raw = append(raw, r.Bytes(1+r.Intn(3))...)
		}
		obs := sx.Err()
		if pk, err := x509.ParsePublicKey(raw); err == nil {
			obs = sx.L(sx.S("ok"), arcsSx(oidArcs(pk.Algorithm)), sx.B(pk.Data), sx.B(x509.MarshalPublicKey(nil, &pk)))
		}
		c.emit(sx.L(sx.S("parse"), sx.B(raw)), obs)
		c.count("parse/" + obsClass(obs))
		// ---- fingerprints across layers and across re-parsing
		if rt && i%4 == 0 {
			f1 := p2pkeswarm.DefaultFingerprinter(&k)
			f2 := quicswarm.DefaultFingerprinter(k)
			f3 := p2pkeswarm.DefaultFingerprinter(&back)
			c.emit(sx.L(sx.S("fplayers"), arcsSx(arcs), sx.B(data)), sx.L(sx.B(f1[:]), sx.B(f2[:]), sx.B(f3[:])))
			c.count("fplayers")
		}
		// ---- peer ids
		var id p2p.PeerID
		switch r.Intn(6) {
		case 0:
		case 1:
			for j := range id {
				id[j] = 0xff
			}
		default:
			copy(id[:], r.Bytes(32))
		}
		txt, _ := id.MarshalText()
		c.emit(sx.L(sx.S("idtext"), sx.B(id[:])), sx.B(txt))
		// candidate texts: valid, one symbol mutated, foreign symbols, wrong length, trailing bits
		cand := append([]byte{}, txt...)
		switch r.Intn(8) {
		case 0:
			cand[r.Intn(len(cand))] = gen.Pick(r, []byte{'!', '+', '/', '=', ' ', '\n', '\r', 0, 0xff, '.'})
		case 1:
			cand[r.Intn(len(cand))] = p2p.Base64Alphabet[r.Intn(64)]
		case 2:
			cand[len(cand)-1] = p2p.Base64Alphabet[r.Intn(64)] // trailing bits
		case 3:
			cand = cand[:gen.Pick(r, []int{0, 1, 42})]
		case 4:
			cand = append(cand, p2p.Base64Alphabet[r.Intn(64)])
		case 5:
			cand = bytes.Repeat([]byte{'!'}, 43)
		case 6:
			cand = r.Bytes(43)
		}
		var got p2p.PeerID
		copy(got[:], r.Bytes(32)) // a pre-existing value must not leak through
		pobs := sx.Err()
		before := got
		func() {
			defer func() {
				if e := recover(); e != nil {
					pobs = sx.L(sx.S("panic"))
				}
			}()
			if err := got.UnmarshalText(cand); err == nil {
				pobs = sx.Ok(sx.B(got[:]))
			} else if got != before {
				pobs = sx.L(sx.S("err-but-receiver-changed"))
			}
		}()
		c.emit(sx.L(sx.S("idparse"), sx.B(cand)), pobs)
		c.count("idparse/" + obsClass(pobs))
		// the same text as the identity part of a nested address: id@inner
		if !bytes.Contains(cand, []byte("@")) {
			full := append(append([]byte{}, cand...), []byte("@7")...)
			memParse := func(b []byte) (memswarm.Addr, error) { return memswarm.ParseAddr(b) }
			qobs, kobs := sx.Err(), sx.Err()
			if a, err := quicswarm.ParseAddr[memswarm.Addr](memParse, full); err == nil {
				qobs = sx.Ok(sx.B(a.ID[:]))
			}
			if a, err := p2pkeswarm.ParseAddr[memswarm.Addr](memParse, full); err == nil {
				kobs = sx.Ok(sx.B(a.ID[:]))
			}
			c.emit(sx.L(sx.S("idparse"), sx.B(cand)), qobs)
			c.emit(sx.L(sx.S("idparse"), sx.B(cand)), kobs)
			c.count("idparse-in-address/" + obsClass(qobs))
		}
		var id2 p2p.PeerID
		copy(id2[:], r.Bytes(32))
		if r.Intn(3) == 0 { // share a long prefix
			copy(id2[:], id[:r.Intn(33)])
		}
		t2, _ := id2.MarshalText()
		c.emit(sx.L(sx.S("idorder"), sx.B(id[:]), sx.B(id2[:])), sx.L(cmp3(bytes.Compare(txt, t2)), cmp3(id.Compare(id2))))
	}
}

package main

import (
	"bytes"
	"context"
	"crypto/ed25519"
	"fmt"
	"sync"
	"time"

	"go.brendoncarroll.net/p2p"
	"go.brendoncarroll.net/p2p/f/x509"
	"go.brendoncarroll.net/p2p/s/memswarm"
	"go.brendoncarroll.net/p2p/s/p2pkeswarm"
	"go.brendoncarroll.net/p2p/s/quicswarm"
	"go.brendoncarroll.net/p2p/s/sshswarm"
	"go.brendoncarroll.net/p2p/s/udpswarm"
	"go.brendoncarroll.net/p2p/s/wlswarm"

	"verifharness/internal/gen"
	"verifharness/internal/sx"
)

func init() { drivers["C04"] = runC04 }

// a secure node with its address type erased
type secNode struct {
	idx     int
	tell    func(ctx context.Context, identityOf, locationOf *secNode, payload []byte) error
	ask     func(ctx context.Context, identityOf, locationOf *secNode, payload []byte) ([]byte, error) // nil if not ask-capable
	addr    any
	keyData []byte // this node's public key as LookupPublicKey of a peer should report it
	mkAddr  func(identityOf, locationOf *secNode) any
	closeFn func() error

	mu  sync.Mutex
	got []secDelivery
}

type secDelivery struct {
	payload  []byte
	srcOwner int // node whose identity the source address carries (-1 unknown)
	keyOwner int // node whose key LookupPublicKey(src) returned inside the handler (-1 unknown / error)
	viaAsk   bool
}

type secWorld struct {
	kind  string
	nodes []*secNode
	allow [][]bool
}

func (w *secWorld) ownerOfKey(data []byte) int {
	for _, n := range w.nodes {
		if bytes.Equal(n.keyData, data) {
			return n.idx
		}
	}
	return -1
}

func newKeWorld(n int, allow [][]bool) *secWorld { return newKeOrWlWorld(n, allow, false) }

// the whitelist applied by a wlswarm wrapper around a p2pkeswarm that accepts everybody
func newWlWorld(n int, allow [][]bool) *secWorld { return newKeOrWlWorld(n, allow, true) }

func newKeOrWlWorld(n int, allow [][]bool, viaWl bool) *secWorld {
	w := &secWorld{kind: "p2pkeswarm", allow: allow}
	if viaWl {
		w.kind = "wlswarm"
	}
	realm := memswarm.NewRealm(memswarm.WithQueueLen(64))
	type kAddr = p2pkeswarm.Addr[memswarm.Addr]
	sws := make([]p2p.SecureSwarm[kAddr, x509.PublicKey], n)
	ids := make([]p2p.PeerID, n)
	for i := 0; i < n; i++ {
		i := i
		priv := testKey(700 + i)
		pub, _ := x509.DefaultRegistry().PublicFromPrivate(&priv)
		ids[i] = p2pkeswarm.DefaultFingerprinter(&pub)
		nd := &secNode{idx: i, keyData: pub.Data}
		w.nodes = append(w.nodes, nd)
		af := func(a kAddr) bool {
			for j, id := range ids {
				if id == a.ID {
					return allow[i][j]
				}
			}
			return false
		}
		if viaWl {
			sws[i] = wlswarm.WrapSecure[kAddr, x509.PublicKey](p2pkeswarm.New[memswarm.Addr](realm.NewSwarm(), priv), af)
		} else {
			sws[i] = p2pkeswarm.New[memswarm.Addr](realm.NewSwarm(), priv, p2pkeswarm.WithWhitelist[memswarm.Addr](af))
		}
	}
	for i, nd := range w.nodes {
		sw := sws[i]
		nd.addr = sw.LocalAddrs()[0]
		nd.closeFn = sw.Close
		nd.mkAddr = func(identityOf, locationOf *secNode) any {
			return kAddr{ID: identityOf.addr.(kAddr).ID, Addr: locationOf.addr.(kAddr).Addr}
		}
		nd.tell = func(ctx context.Context, identityOf, locationOf *secNode, payload []byte) error {
			return sw.Tell(ctx, nd.mkAddr(identityOf, locationOf).(kAddr), p2p.IOVec{payload})
		}
		nd2 := nd
		go func() {
			for {
				if err := sw.Receive(context.Background(), func(m p2p.Message[kAddr]) {
					d := secDelivery{payload: append([]byte{}, m.Payload...), srcOwner: -1, keyOwner: -1}
					for j, id := range ids {
						if id == m.Src.ID {
							d.srcOwner = j
						}
					}
					lctx, cf := context.WithTimeout(context.Background(), time.Second)
					if k, err := sw.LookupPublicKey(lctx, m.Src); err == nil {
						d.keyOwner = w.ownerOfKey(k.Data)
					}
					cf()
					nd2.mu.Lock()
					nd2.got = append(nd2.got, d)
					nd2.mu.Unlock()
				}); err != nil {
					return
				}
			}
		}()
	}
	return w
}

func newQuicWorld(n int, allow [][]bool) *secWorld {
	w := &secWorld{kind: "quicswarm", allow: allow}
	type qAddr = quicswarm.Addr[udpswarm.Addr]
	sws := make([]*quicswarm.Swarm[udpswarm.Addr], n)
	ids := make([]p2p.PeerID, n)
	for i := 0; i < n; i++ {
		i := i
		priv := testKey(720 + i)
		pub, _ := x509.DefaultRegistry().PublicFromPrivate(&priv)
		ids[i] = quicswarm.DefaultFingerprinter(pub)
		w.nodes = append(w.nodes, &secNode{idx: i, keyData: pub.Data})
		sw, err := quicswarm.NewOnUDP("127.0.0.1:", priv, quicswarm.WithWhilelist[udpswarm.Addr](func(a p2p.Addr) bool {
			qa, ok := a.(qAddr)
			if !ok {
				return false
			}
			for j, id := range ids {
				if id == qa.ID {
					return allow[i][j]
				}
			}
			return false
		}))
		if err != nil {
			panic(err)
		}
		sws[i] = sw
	}
	for i, nd := range w.nodes {
		sw := sws[i]
		nd.addr = sw.LocalAddrs()[0]
		nd.closeFn = sw.Close
		nd.mkAddr = func(identityOf, locationOf *secNode) any {
			return qAddr{ID: identityOf.addr.(qAddr).ID, Addr: locationOf.addr.(qAddr).Addr}
		}
		nd.tell = func(ctx context.Context, identityOf, locationOf *secNode, payload []byte) error {
			return sw.Tell(ctx, nd.mkAddr(identityOf, locationOf).(qAddr), p2p.IOVec{payload})
		}
		nd.ask = func(ctx context.Context, identityOf, locationOf *secNode, payload []byte) ([]byte, error) {
			resp := make([]byte, 64)
			k, err := sw.Ask(ctx, resp, nd.mkAddr(identityOf, locationOf).(qAddr), p2p.IOVec{payload})
			if err != nil {
				return nil, err
			}
			return resp[:k], nil
		}
		nd2 := nd
		record := func(src qAddr, payload []byte, viaAsk bool) {
			d := secDelivery{payload: append([]byte{}, payload...), srcOwner: -1, keyOwner: -1, viaAsk: viaAsk}
			for j, id := range ids {
				if id == src.ID {
					d.srcOwner = j
				}
			}
			lctx, cf := context.WithTimeout(context.Background(), time.Second)
			if k, err := sw.LookupPublicKey(lctx, src); err == nil {
				d.keyOwner = w.ownerOfKey(k.Data)
			}
			cf()
			nd2.mu.Lock()
			nd2.got = append(nd2.got, d)
			nd2.mu.Unlock()
		}
		go func() {
			for {
				if err := sw.Receive(context.Background(), func(m p2p.Message[qAddr]) { record(m.Src, m.Payload, false) }); err != nil {
					return
				}
			}
		}()
		go func() {
			for {
				if err := sw.ServeAsk(context.Background(), func(ctx context.Context, resp []byte, m p2p.Message[qAddr]) int {
					record(m.Src, m.Payload, true)
					return copy(resp, "ok")
				}); err != nil {
					return
				}
			}
		}()
	}
	return w
}

func newSSHWorld(n int, allow [][]bool) *secWorld {
	w := &secWorld{kind: "sshswarm", allow: allow}
	sws := make([]*sshswarm.Swarm, n)
	fps := make([]string, n)
	for i := 0; i < n; i++ {
		seed := make([]byte, 32)
		seed[0] = byte(60 + i)
		signer, err := sshswarm.NewSignerFromSigner(ed25519.NewKeyFromSeed(seed))
		if err != nil {
			panic(err)
		}
		sw, err := sshswarm.New("127.0.0.1:", signer)
		if err != nil {
			panic(err)
		}
		sws[i] = sw
		fps[i] = sw.LocalAddrs()[0].Fingerprint
		w.nodes = append(w.nodes, &secNode{idx: i, keyData: signer.PublicKey().Marshal()})
	}
	for i, nd := range w.nodes {
		sw := sws[i]
		nd.addr = sw.LocalAddrs()[0]
		nd.closeFn = sw.Close
		nd.mkAddr = func(identityOf, locationOf *secNode) any {
			a := locationOf.addr.(sshswarm.Addr)
			a.Fingerprint = identityOf.addr.(sshswarm.Addr).Fingerprint
			return a
		}
		nd.tell = func(ctx context.Context, identityOf, locationOf *secNode, payload []byte) error {
			return sw.Tell(ctx, nd.mkAddr(identityOf, locationOf).(sshswarm.Addr), p2p.IOVec{payload})
		}
		nd.ask = func(ctx context.Context, identityOf, locationOf *secNode, payload []byte) ([]byte, error) {
			resp := make([]byte, 64)
			k, err := sw.Ask(ctx, resp, nd.mkAddr(identityOf, locationOf).(sshswarm.Addr), p2p.IOVec{payload})
			if err != nil {
				return nil, err
			}
			return resp[:k], nil
		}
		nd2 := nd
		record := func(src sshswarm.Addr, payload []byte, viaAsk bool) {
			if !viaAsk && !bytes.HasPrefix(payload, []byte("reply-")) {
				reply := append([]byte("reply-"), payload...)
				go func() {
					rctx, rcf := context.WithTimeout(context.Background(), time.Second)
					defer rcf()
					sw.Tell(rctx, src, p2p.IOVec{reply}) // goes back over the connection the message arrived on
				}()
			}
			d := secDelivery{payload: append([]byte{}, payload...), srcOwner: -1, keyOwner: -1, viaAsk: viaAsk}
			for j, fp := range fps {
				if fp == src.Fingerprint {
					d.srcOwner = j
				}
			}
			lctx, cf := context.WithTimeout(context.Background(), time.Second)
			if k, err := sw.LookupPublicKey(lctx, src); err == nil && k != nil {
				d.keyOwner = w.ownerOfKey(k.Marshal())
			}
			cf()
			nd2.mu.Lock()
			nd2.got = append(nd2.got, d)
			nd2.mu.Unlock()
		}
		go func() {
			for {
				if err := sw.Receive(context.Background(), func(m p2p.Message[sshswarm.Addr]) { record(m.Src, m.Payload, false) }); err != nil {
					return
				}
			}
		}()
		go func() {
			for {
				if err := sw.ServeAsk(context.Background(), func(ctx context.Context, resp []byte, m p2p.Message[sshswarm.Addr]) int {
					record(m.Src, m.Payload, true)
					return copy(resp, "ok")
				}); err != nil {
					return
				}
			}
		}()
	}
	return w
}

func c04Case(c *ctxT, r *gen.R, mk func(int, [][]bool) *secWorld, whitelisting bool) {
	n := 3
	allow := make([][]bool, n)
	for i := range allow {
		allow[i] = make([]bool, n)
		for j := range allow[i] {
			allow[i][j] = !whitelisting || i == j || r.Intn(3) > 0
		}
	}
	w := mk(n, allow)
	nSends := 5 + r.Intn(8)
	type sendRec struct {
		from, ident, loc int
		ask              bool
		err              error
	}
	recs := make([]sendRec, nSends)
	var burst sync.WaitGroup
	for i := range recs {
		from := r.Intn(n)
		loc := (from + 1 + r.Intn(n-1)) % n
		ident := loc
		if r.Intn(3) == 0 { // the wrong identity at that location
			ident = (loc + 1 + r.Intn(n-1)) % n
		}
		concurrent := i < 2 // first contact by two peers at the same moment
		if concurrent {
			from, loc, ident = 1+i, 0, 0
		}
		rec := sendRec{from: from, ident: ident, loc: loc, ask: r.Intn(3) == 0 && w.nodes[from].ask != nil}
		payload := []byte(fmt.Sprintf("msg-%03d-from-%d", i, from))
		timeout := 1500 * time.Millisecond
		if ident != loc {
			timeout = 400 * time.Millisecond
		}
		do := func(i int, rec sendRec) {
			ctx, cf := context.WithTimeout(context.Background(), timeout)
			if rec.ask {
				_, rec.err = w.nodes[rec.from].ask(ctx, w.nodes[rec.ident], w.nodes[rec.loc], payload)
			} else {
				rec.err = w.nodes[rec.from].tell(ctx, w.nodes[rec.ident], w.nodes[rec.loc], payload)
			}
			cf()
			recs[i] = rec
		}
		if concurrent {
			burst.Add(1)
			go func(i int, rec sendRec) { defer burst.Done(); do(i, rec) }(i, rec)
			if i == 1 {
				burst.Wait()
			}
			continue
		}
		do(i, rec)
	}
	time.Sleep(60 * time.Millisecond) // deliveries in flight
	var obs []sx.V
	for i, rec := range recs {
		payload := []byte(fmt.Sprintf("msg-%03d-from-%d", i, rec.from))
		var ds []sx.V
		for _, nd := range w.nodes {
			nd.mu.Lock()
			for _, d := range nd.got {
				if bytes.Equal(d.payload, payload) {
					ds = append(ds, sx.L(sx.I(nd.idx), sxZ(int64(d.srcOwner)), sxZ(int64(d.keyOwner))))
				}
			}
			nd.mu.Unlock()
		}
		res := "ok"
		if rec.err != nil {
			res = "error"
		}
		obs = append(obs, sx.L(sx.I(rec.from), sx.I(rec.ident), sx.I(rec.loc), sx.S(res), sx.L(ds...)))
		if w.kind == "sshswarm" && rec.ident == rec.loc && !rec.ask {
			// the receiver answered over the same connection: a record of its own (from = the replier)
			reply := append([]byte("reply-"), payload...)
			var rs []sx.V
			for _, nd := range w.nodes {
				nd.mu.Lock()
				for _, d := range nd.got {
					if bytes.Equal(d.payload, reply) {
						rs = append(rs, sx.L(sx.I(nd.idx), sxZ(int64(d.srcOwner)), sxZ(int64(d.keyOwner))))
					}
				}
				nd.mu.Unlock()
			}
			obs = append(obs, sx.L(sx.I(rec.loc), sx.I(rec.from), sx.I(rec.from), sx.S("ok"), sx.L(rs...)))
		}
	}
	rows := make([]sx.V, n)
	for i := range rows {
		rr := make([]sx.V, n)
		for j := range rr {
			rr[j] = sx.I(boolInt(allow[i][j]))
		}
		rows[i] = sx.L(rr...)
	}
	c.emit(sx.L(sx.S("sec"), sx.S(w.kind), sx.L(rows...), sx.I(c.n)), sx.L(obs...))
	c.count("c04/" + w.kind)
	for _, nd := range w.nodes {
		nd.closeFn()
	}
}

func runC04(c *ctxT) {
	n := c.scale(36, 240)
	for i := 0; i < c.scale(8, 60); i++ {
		c04Case(c, c.rng.Fork(), newWlWorld, true)
	}
	for i := 0; i < c.scale(3, 12); i++ {
		quicChainAdversary(c, i)
		sshQueryAdversary(c, i)
	}
	for i := 0; i < c.scale(6, 30); i++ {
		keClaimAdversary(c, i)
	}
	for i := 0; i < c.scale(4, 20); i++ {
		keOvertake(c, i)
	}
	for i := 0; i < n; i++ {
		r := c.rng.Fork()
		switch i % 3 {
		case 0:
			c04Case(c, r, newKeWorld, i%2 == 0)
		case 1:
			c04Case(c, r, newQuicWorld, i%2 == 0)
		default:
			c04Case(c, r, newSSHWorld, false)
		}
	}
}

package main

import (
	"bytes"
	"context"
	"fmt"
	"go.brendoncarroll.net/p2p/p/mbapp"
	"os"
	"os/exec"
	"path/filepath"
	"runtime"
	"strings"
	"sync"
	"sync/atomic"
	"time"

	"go.brendoncarroll.net/p2p"
	"go.brendoncarroll.net/p2p/p/kademlia"
	"go.brendoncarroll.net/p2p/s/memswarm"

	"verifharness/internal/sx"
)

func init() { drivers["C14"] = runC14 }

// payloadChanged counts callbacks that saw their message change while they ran
// (set by the receive callbacks of the stack harness when slowCallbacks is on)
var (
	slowCallbacks  bool
	payloadChanged atomic.Int64
)

// runC14: the concurrent scenarios of the other properties are run again by a
// race-detector build of this driver (build/drive.race), one child per scenario
// family; every race report is an observation.  In-process: callbacks that hold
// their message while other traffic flows, checking that it does not change.
func runC14(c *ctxT) {
	raceBin := filepath.Join(filepath.Dir(os.Args[0]), "drive.race")
	if _, err := os.Stat(raceBin); err != nil {
		c.emit(sx.L(sx.S("race"), sx.S("build"), sx.I(0)), sx.L(sx.S("no-race-binary")))
		return
	}
	families := []string{"C14race", "C01", "C05", "C11", "C12", "C13", "C10"}
	for _, fam := range families {
		for rep := 0; rep < c.scale(1, 4); rep++ {
			seed := c.rng.U64() % 100000
			tmp, _ := os.CreateTemp("", "c14-*.cases")
			tmp.Close()
			cmd := exec.Command(raceBin, "-prop", fam, "-tier", "quick", "-seed", fmt.Sprint(seed), "-out", tmp.Name())
			cmd.Env = append(os.Environ(), "GORACE=halt_on_error=0 history_size=3")
			var stderr bytes.Buffer
			cmd.Stderr = &stderr
			runErr := cmd.Run()
			os.Remove(tmp.Name())
			out := stderr.String()
			n := strings.Count(out, "WARNING: DATA RACE")
			first := ""
			if i := strings.Index(out, "WARNING: DATA RACE"); i >= 0 {
				first = out[i:]
				if len(first) > 1800 {
					first = first[:1800]
				}
				c.extra[fmt.Sprintf("race-%s-%d", fam, seed)] = first
			}
			status := "clean"
			if n > 0 {
				status = "race"
			} else if runErr != nil {
				status = "child-failed"
				c.extra[fmt.Sprintf("child-%s-%d", fam, seed)] = lastBytes(out, 1200)
			}
			c.emit(sx.L(sx.S("race"), sx.S(fam), sx.N(seed)), sx.L(sx.S(status), sx.I(n)))
			c.count("race/" + fam + "/" + status)
		}
	}
	// an Ask that returned an error must not have its response buffer written afterwards (mbapp: a reply whose
	// lookup had succeeded before the context ended is completed after Ask returned)
	for i := 0; i < c.scale(20, 200); i++ {
		rr := c.rng.Fork()
		buf := rr.Bytes(1 + rr.Intn(40))
		reply := rr.Bytes(1 + rr.Intn(60))
		st, written := "error", false
		func() {
			defer func() {
				if e := recover(); e != nil {
					st = "panic"
				}
			}()
			var err error
			err, written = mbapp.VerifLateReply(buf, reply)
			if err == nil {
				st = "nil"
			}
		}()
		c.emit(sx.L(sx.S("late"), sx.S("mbapp-ask"), sx.I(i)), sx.L(sx.S(st), sx.I(boolInt(written))))
		c.count("own/late-reply")
	}
	c14Extras(c)
	// buffer ownership in swarmutil.Queue: callbacks that Deliver into the queue they are being served from
	for i := 0; i < c.scale(150, 3000); i++ {
		queueBuf(c, c.rng.Fork())
	}
	// buffer ownership in the bounded queue of vswarm / memswarm
	for i := 0; i < c.scale(10, 100); i++ {
		changed := memQueueOwnership(200)
		c.emit(sx.L(sx.S("own"), sx.S("memswarm-queue"), sx.I(i)), sx.L(sx.S("changed"), sx.I(changed)))
		c.count("own/memswarm-queue")
	}
	// buffer ownership: callbacks hold their message while concurrent traffic flows
	slowCallbacks = true
	defer func() { slowCallbacks = false }()
	for i := 0; i < c.scale(40, 800); i++ {
		rr := c.rng.Fork()
		spec := genStack01(rr)
		spec.Ke = false
		spec.Upper = nil
		before := payloadChanged.Load()
		sub := &ctxT{prop: "C14", tier: c.tier, rng: rr, out: discardWriter(), hist: map[string]int{}, extra: map[string]any{}}
		c01Case(sub, rr, spec)
		changed := payloadChanged.Load() - before
		c.emit(sx.L(sx.S("own"), spec.sx(spec.otherMTU()), sx.I(i)), sx.L(sx.S("changed"), sx.I(int(changed))))
		c.count("own")
	}
}

func lastBytes(s string, n int) string {
	if len(s) > n {
		return s[len(s)-n:]
	}
	return s
}

// C14race: shared structures hammered from several goroutines; meaningful only
// in the race-detector build (the parent counts the reports)
func init() { drivers["C14race"] = runC14race }

func runC14race(c *ctxT) {
	// kademlia cache and DHT node
	locus := make([]byte, 32)
	locus[0] = 7
	cache := kademlia.NewCache[[]byte](locus, 300, 1)
	node := kademlia.NewDHTNode(kademlia.DHTNodeParams{LocalID: p2p.PeerID{7}, PeerCacheSize: 256, DataCacheSize: 64})
	var wg sync.WaitGroup
	for g := 0; g < 6; g++ {
		g := g
		wg.Add(1)
		go func() {
			defer wg.Done()
			now := time.Now()
			for i := 0; i < 400; i++ {
				key := []byte{byte(g*31 + i), byte(i >> 3), byte(g)}
				switch i % 7 {
				case 0:
					cache.Put(key, []byte{1}, now, now.Add(time.Hour))
				case 1:
					cache.Get(key, now)
				case 2:
					_ = cache.Count() + boolInt(cache.IsFull()) + cache.AcceptingPrefixLen()
				case 3:
					cache.ForEach(key, func(e kademlia.Entry[[]byte]) bool { return true })
				case 4:
					cache.Expire(nil, now)
				case 5:
					var id p2p.PeerID
					copy(id[:], key)
					node.AddPeer(id, key)
					_, _ = node.HandlePut(id, kademlia.PutReq{Key: key, Value: key, TTLms: 1000})
				default:
					var id p2p.PeerID
					copy(id[:], key)
					_, _ = node.HandleGet(id, kademlia.GetReq{Key: key})
					_, _ = node.HandleFindNode(id, kademlia.FindNodeReq{Target: id, Limit: 5})
					_ = node.ListPeers(3)
					cache.Delete(key)
				}
			}
		}()
	}
	wg.Wait()
	// a pair of channels used from several goroutines
	w := newChWorld(2, [][]bool{{true, true}, {true, true}})
	w.rekey(0)
	w.reliableRounds(0, 1, 2)
	for g := 0; g < 4; g++ {
		g := g
		wg.Add(1)
		go func() {
			defer wg.Done()
			for i := 0; i < 50; i++ {
				x := g % 2
				ctx, cf := context.WithTimeout(context.Background(), 200*time.Millisecond)
				_ = w.chans[x].Send(ctx, p2p.IOVec{[]byte{1, 2, 3, 4, 5, 6, 7, 8}})
				cf()
				_ = w.chans[x].RemoteKey()
				_ = w.chans[x].LastReceived()
				_ = w.chans[x].LastSent()
				w.mu.Lock()
				var data []byte
				for j := len(w.msgs) - 1; j >= 0; j-- {
					if w.msgs[j].from != x {
						data = w.msgs[j].data
						break
					}
				}
				w.mu.Unlock()
				if data != nil {
					_, _ = w.chans[x].Deliver(nil, data)
				}
			}
		}()
	}
	wg.Wait()
	w.close()
	memQueueOwnership(300)
	c.emit(sx.L(sx.S("race-workload"), sx.I(1)), sx.L(sx.S("done")))
}

// memQueueOwnership: several senders Tell one vswarm node (bounded Queue with few
// slots); the receiver's callbacks hold their message and checksum it before and
// after.  Returns how many callbacks saw their message change.
func memQueueOwnership(rounds int) int {
	realm := memswarm.NewRealm(memswarm.WithQueueLen(2))
	rcv := realm.NewSwarm()
	ctx, cancel := context.WithCancel(context.Background())
	defer cancel()
	var changed atomic.Int64
	var rwg sync.WaitGroup
	for k := 0; k < 2; k++ {
		rwg.Add(1)
		go func() {
			defer rwg.Done()
			for {
				if err := rcv.Receive(ctx, func(m p2p.Message[memswarm.Addr]) {
					h0 := fnv64(m.Payload)
					uniform := true
					for _, b := range m.Payload {
						if b != m.Payload[0] {
							uniform = false
						}
					}
					for i := 0; i < 3; i++ {
						runtime.Gosched()
						time.Sleep(10 * time.Microsecond)
					}
					if fnv64(m.Payload) != h0 || !uniform {
						changed.Add(1)
					}
				}); err != nil {
					return
				}
			}
		}()
	}
	var swg sync.WaitGroup
	for s := 0; s < 4; s++ {
		s := s
		snd := realm.NewSwarm()
		swg.Add(1)
		go func() {
			defer swg.Done()
			defer snd.Close()
			for i := 0; i < rounds; i++ {
				buf := bytes.Repeat([]byte{byte(1 + s*16 + i%16)}, 64+8*s)
				_ = snd.Tell(ctx, rcv.LocalAddrs()[0], p2p.IOVec{buf})
			}
		}()
	}
	swg.Wait()
	time.Sleep(2 * time.Millisecond)
	cancel()
	rcv.Close()
	rwg.Wait()
	return int(changed.Load())
}

package main

import (
	"context"
	"sync"
	"time"

	"go.brendoncarroll.net/p2p"
	"go.brendoncarroll.net/p2p/s/quicswarm"
	"go.brendoncarroll.net/p2p/s/udpswarm"

	"verifharness/internal/gen"
	"verifharness/internal/sx"
)

// quicBaseCases: quicswarm as the base of an (empty) stack, with its default and
// with configured MTUs above the default: one Tell of MTU, MTU-1, DefaultMTU+1,
// MTU+1 or a small size; reported MTU, result class and whether the payload
// arrived intact.  case = (stack <mtu> () (pat seed size)), as the other stacks.
func quicBaseCases(c *ctxT, r *gen.R) {
	type qAddr = quicswarm.Addr[udpswarm.Addr]
	n := c.scale(4, 24)
	for i := 0; i < n; i++ {
		cfg := gen.Pick(r, []int{0, quicswarm.DefaultMTU + 4096, quicswarm.DefaultMTU + 1})
		if c.thorough() && i%4 == 0 {
			cfg = 2 * quicswarm.DefaultMTU
		}
		var opts []quicswarm.Option[udpswarm.Addr]
		if cfg != 0 {
			opts = append(opts, quicswarm.WithMTU[udpswarm.Addr](cfg))
		}
		a, err := quicswarm.NewOnUDP("127.0.0.1:", testKey(780), opts...)
		if err != nil {
			panic(err)
		}
		b, err := quicswarm.NewOnUDP("127.0.0.1:", testKey(781), opts...)
		if err != nil {
			panic(err)
		}
		var mu sync.Mutex
		var got [][]byte
		go func() {
			for {
				if err := b.Receive(context.Background(), func(m p2p.Message[qAddr]) {
					mu.Lock()
					got = append(got, append([]byte{}, m.Payload...))
					mu.Unlock()
				}); err != nil {
					return
				}
			}
		}()
		go func() {
			for {
				if err := b.ServeAsk(context.Background(), func(ctx context.Context, resp []byte, m p2p.Message[qAddr]) int {
					return copy(resp, m.Payload) // echo
				}); err != nil {
					return
				}
			}
		}()
		dst := b.LocalAddrs()[0]
		wctx, wcf := context.WithTimeout(context.Background(), 5*time.Second)
		a.Tell(wctx, dst, p2p.IOVec{[]byte("warm-up")})
		wcf()
		waitN := func(k int) {
			for dl := time.Now().Add(5 * time.Second); time.Now().Before(dl); time.Sleep(time.Millisecond) {
				mu.Lock()
				l := len(got)
				mu.Unlock()
				if l >= k {
					return
				}
			}
		}
		waitN(1)
		mu.Lock()
		got = nil
		mu.Unlock()
		reported := a.MTU()
		size := gen.Pick(r, []int{reported, reported - 1, quicswarm.DefaultMTU + 1, reported + 1, 1 + r.Intn(2000)})
		seed := uint64(9000 + i)
		payload := patBytes(seed, size)
		tctx, tcf := context.WithTimeout(context.Background(), 10*time.Second)
		terr := a.Tell(tctx, dst, p2p.IOVec{payload})
		tcf()
		cls, npk, lens := "ok", 1, sx.L(sx.I(size))
		switch {
		case terr == nil:
			waitN(1)
			time.Sleep(20 * time.Millisecond)
		case p2p.IsErrMTUExceeded(terr):
			cls, npk, lens = "err", 0, sx.L()
			time.Sleep(20 * time.Millisecond)
		default:
			cls, npk, lens = "other-error", 0, sx.L()
		}
		mu.Lock()
		intact := 0
		if len(got) == 1 && string(got[0]) == string(payload) {
			intact = 1
		} else if len(got) > 0 {
			intact = 2
		}
		mu.Unlock()
		// the same sizes through Ask: the request and the echoed response are framed with a length prefix
		asize := gen.Pick(r, []int{reported, reported - 1, reported + 1, 1 + r.Intn(2000)})
		aseed := uint64(9500 + i)
		req := patBytes(aseed, asize)
		respBuf := make([]byte, reported)
		actx, acf := context.WithTimeout(context.Background(), 10*time.Second)
		an, aerr := a.Ask(actx, respBuf, dst, p2p.IOVec{req})
		acf()
		acls, anpk, alens, aintact := "ok", 1, sx.L(sx.I(asize)), 0
		switch {
		case aerr == nil:
			if an == asize && string(respBuf[:an]) == string(req) {
				aintact = 1
			} else {
				aintact = 2
			}
		case p2p.IsErrMTUExceeded(aerr):
			acls, anpk, alens = "err", 0, sx.L()
		default:
			acls, anpk, alens = "other-error", 0, sx.L()
		}
		c.emit(sx.L(sx.S("stack"), sxZ(int64(reported)), sx.L(), sx.L(sx.S("zeros"), sx.I(asize))),
			sx.L(sxZ(int64(reported)), sx.S(acls), sx.I(anpk), sx.I(1), alens, sx.I(aintact)))
		c.count("stack/quic-base-ask/" + acls)
		a.Close()
		b.Close()
		c.emit(sx.L(sx.S("stack"), sxZ(int64(reported)), sx.L(), sx.L(sx.S("zeros"), sx.I(size))),
			sx.L(sxZ(int64(reported)), sx.S(cls), sx.I(npk), sx.I(1), lens, sx.I(intact)))
		c.count("stack/quic-base/" + cls)
	}
}

package main

import (
	"go.brendoncarroll.net/p2p"
	"go.brendoncarroll.net/p2p/p/p2pmux"

	"verifharness/internal/gen"
	"verifharness/internal/sx"
)

func hookMuxVec(k muxKind, c chanID, x []byte) p2p.IOVec {
	switch k.name {
	case "string":
		return p2pmux.VerifStringMux(c.s, vec(x))
	case "varint":
		return p2pmux.VerifVarintMux(c.n, vec(x))
	case "u16":
		return p2pmux.VerifUint16Mux(uint16(c.n), vec(x))
	case "u32":
		return p2pmux.VerifUint32Mux(uint32(c.n), vec(x))
	default:
		return p2pmux.VerifUint64Mux(c.n, vec(x))
	}
}

// framesHeldTogether: two frames are built before either is written out (two
// goroutines telling on different channels do this): each must still be the
// frame of its own channel.  Emitted as ordinary (frame ...) cases.
func framesHeldTogether(c *ctxT, k muxKind, r *gen.R, n int) {
	for i := 0; i < n; i++ {
		c1, c2 := genChan(r, k), genChan(r, k)
		x1, x2 := genPayload(r), genPayload(r)
		v1 := hookMuxVec(k, c1, x1)
		v2 := hookMuxVec(k, c2, x2)
		b1 := p2p.VecBytes(nil, v1)
		b2 := p2p.VecBytes(nil, v2)
		c.emit(sx.L(sx.S("frame"), sx.S(k.name), c1.sx(), sx.B(x1)), sx.B(b1))
		c.emit(sx.L(sx.S("frame"), sx.S(k.name), c2.sx(), sx.B(x2)), sx.B(b2))
		c.count("frame/" + k.name + "/held-together")
	}
}

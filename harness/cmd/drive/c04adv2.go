package main

import (
	"context"
	"crypto/ed25519"
	"crypto/rand"
	"encoding/binary"
	"fmt"
	"io"
	"net"
	"runtime"
	"strconv"
	"sync"
	"time"

	"github.com/flynn/noise"
	"golang.org/x/crypto/ssh"
	"google.golang.org/protobuf/proto"

	"go.brendoncarroll.net/p2p"
	"go.brendoncarroll.net/p2p/f/x509"
	"go.brendoncarroll.net/p2p/p/p2pke"
	"go.brendoncarroll.net/p2p/s/p2pkeswarm"
	"go.brendoncarroll.net/p2p/s/sshswarm"

	"verifharness/internal/ctrlnet"
	"verifharness/internal/sx"
)

var c04AllAllowed = sx.L(sx.L(sx.I(1), sx.I(1), sx.I(1)), sx.L(sx.I(1), sx.I(1), sx.I(1)), sx.L(sx.I(1), sx.I(1), sx.I(1)))

// ---- SSH: a stock client made to ASK about keys without signing ----

// scriptedPub is a public key whose wire encoding changes from call to call: the
// x/crypto client asks the server "would you accept this key?" with the first
// encoding and compares the answer with the second; when they differ it gives up
// on that key without ever producing a signature: a pure query for any key.
type scriptedPub struct {
	mu       sync.Mutex
	keyType  string
	marshals [][]byte
}

func (p *scriptedPub) Type() string { return p.keyType }
func (p *scriptedPub) Marshal() []byte {
	p.mu.Lock()
	defer p.mu.Unlock()
	if len(p.marshals) == 0 {
		return []byte("exhausted")
	}
	out := p.marshals[0]
	p.marshals = p.marshals[1:]
	return out
}
func (p *scriptedPub) Verify(data []byte, sig *ssh.Signature) error { return io.ErrUnexpectedEOF }

type queryOnlySigner struct{ pub *scriptedPub }

func newQueryOnly(pk ssh.PublicKey) ssh.Signer {
	return queryOnlySigner{pub: &scriptedPub{keyType: pk.Type(), marshals: [][]byte{pk.Marshal(), []byte("not the same")}}}
}
func (s queryOnlySigner) PublicKey() ssh.PublicKey { return s.pub }
func (s queryOnlySigner) Sign(rand io.Reader, data []byte) (*ssh.Signature, error) {
	return nil, fmt.Errorf("a query-only signer never signs")
}

// sshQueryAdversary: node 2 asks the honest node 0 about its own key, then about
// the key of victim 1 (no signature needed), then signs with its own key.  What it
// sends must be attributed to key 2.
func sshQueryAdversary(c *ctxT, rep int) {
	signers := make([]ssh.Signer, 3)
	fps := make([]string, 3)
	for i := range signers {
		seed := make([]byte, 32)
		seed[0] = byte(90 + i)
		s, err := sshswarm.NewSignerFromSigner(ed25519.NewKeyFromSeed(seed))
		if err != nil {
			panic(err)
		}
		signers[i] = s
		fps[i] = ssh.FingerprintSHA256(s.PublicKey())
	}
	honest, err := sshswarm.New("127.0.0.1:", signers[0])
	if err != nil {
		panic(err)
	}
	defer honest.Close()
	type obsT struct{ src, key int }
	got := make(chan obsT, 1)
	rctx, rcf := context.WithTimeout(context.Background(), 5*time.Second)
	defer rcf()
	go honest.Receive(rctx, func(m p2p.Message[sshswarm.Addr]) {
		o := obsT{-1, -1}
		for j, fp := range fps {
			if fp == m.Src.Fingerprint {
				o.src = j
			}
		}
		lctx, cf := context.WithTimeout(context.Background(), time.Second)
		if pk, err := honest.LookupPublicKey(lctx, m.Src); err == nil {
			for j, fp := range fps {
				if fp == ssh.FingerprintSHA256(pk) {
					o.key = j
				}
			}
		}
		cf()
		got <- o
	})
	// the order of the queries varies; the key that signs is always the adversary's own
	auth := []ssh.Signer{newQueryOnly(signers[2].PublicKey()), newQueryOnly(signers[1].PublicKey()), signers[2]}
	if rep%2 == 1 {
		auth = []ssh.Signer{newQueryOnly(signers[1].PublicKey()), signers[2]}
	}
	a := honest.LocalAddrs()[0]
	target := net.JoinHostPort(a.IP.String(), strconv.Itoa(int(a.Port)))
	res := "error"
	var ds []sx.V
	client, err := ssh.Dial("tcp", target, &ssh.ClientConfig{Auth: []ssh.AuthMethod{ssh.PublicKeys(auth...)}, HostKeyCallback: ssh.InsecureIgnoreHostKey(), Timeout: 4 * time.Second})
	if err == nil {
		if _, _, err := client.SendRequest("", false, []byte(fmt.Sprintf("ssh-query-adversary-%d", rep))); err == nil {
			res = "ok"
		}
		select {
		case o := <-got:
			ds = append(ds, sx.L(sx.I(0), sxZ(int64(o.src)), sxZ(int64(o.key))))
		case <-time.After(1500 * time.Millisecond):
		}
		client.Close()
	}
	c.emit(sx.L(sx.S("sec"), sx.S("ssh-query-adversary"), c04AllAllowed, sx.I(c.n)), sx.L(sx.L(sx.I(2), sx.I(0), sx.I(0), sx.S(res), sx.L(ds...))))
	c.count("c04/ssh-query-adversary")
}

// ---- P2PKE: an adversary that replays a victim's InitHello claim inside its own handshake ----

// keClaimAdversary: honest node 1 greets victim 0; the adversary (address of node 2, own key 2)
// copies the signed timestamp claim out of that InitHello (it travels in the clear) into an
// InitHello of its own Noise handshake, reads the RespHello, and then either sends application
// data at once (variant 0), or first an InitDone signed with its own key (variant 1) or carrying
// the claim's timestamp signature (variant 2).  Nothing it sends may be delivered as coming from node 1.
func keClaimAdversary(c *ctxT, rep int) {
	type kAddr = p2pkeswarm.Addr[ctrlnet.Addr]
	net := ctrlnet.New(1 << 16)
	vn, hn, an := net.NewNode(), net.NewNode(), net.NewNode()
	keys := []x509.PrivateKey{testKey(740), testKey(741), testKey(742)}
	var ids []p2p.PeerID
	var pubData [][]byte
	for i := range keys {
		pub, _ := x509.DefaultRegistry().PublicFromPrivate(&keys[i])
		ids = append(ids, p2pkeswarm.DefaultFingerprinter(&pub))
		pubData = append(pubData, pub.Data)
	}
	victim := p2pkeswarm.New[ctrlnet.Addr](vn, keys[0])
	honest := p2pkeswarm.New[ctrlnet.Addr](hn, keys[1])
	defer victim.Close()
	defer honest.Close()
	var mu sync.Mutex
	var ds []sx.V
	go func() {
		for {
			if err := victim.Receive(context.Background(), func(m p2p.Message[kAddr]) {
				src, key := -1, -1
				for j, id := range ids {
					if id == m.Src.ID {
						src = j
					}
				}
				lctx, cf := context.WithTimeout(context.Background(), time.Second)
				if k, err := victim.LookupPublicKey(lctx, m.Src); err == nil {
					for j, d := range pubData {
						if string(d) == string(k.Data) {
							key = j
						}
					}
				}
				cf()
				if string(m.Payload) != "greeting" { // the honest node's own message is not of interest
					mu.Lock()
					ds = append(ds, sx.L(sx.I(0), sxZ(int64(src)), sxZ(int64(key))))
					mu.Unlock()
				}
			}); err != nil {
				return
			}
		}
	}()
	// the honest node's InitHello, captured on the wire
	net.Auto = false
	hctx, hcf := context.WithTimeout(context.Background(), 40*time.Millisecond)
	go honest.Tell(hctx, kAddr{ID: ids[0], Addr: vn.LocalAddr()}, p2p.IOVec{[]byte("greeting")})
	time.Sleep(3 * time.Millisecond)
	var ih []byte
	for _, p := range net.Take() {
		if len(p.Data) > 36 && binary.BigEndian.Uint32(p.Data[:4]) == 0 {
			ih = p.Data
		}
	}
	hcf()
	res := "error"
	workers := 1 + runtime.GOMAXPROCS(0)
	if ih != nil {
		hs, err := noise.NewHandshakeState(noise.Config{CipherSuite: keSuite, Random: rand.Reader, Pattern: noise.HandshakeNN, Initiator: true})
		if err != nil {
			panic(err)
		}
		msg, _, _, err := hs.WriteMessage([]byte{0, 0, 0, 0}, ih[4+32:]) // own ephemeral, the victim's claim
		if err != nil {
			panic(err)
		}
		net.DeliverSync(ctrlnet.Packet{Src: an.LocalAddr(), Dst: vn.LocalAddr(), Data: msg}, workers)
		var rh []byte
		for _, p := range net.Take() {
			if p.Dst == an.LocalAddr() && len(p.Data) > 4 && binary.BigEndian.Uint32(p.Data[:4]) == 1 {
				rh = p.Data
			}
		}
		if rh != nil {
			if _, cs1, _, err := hs.ReadMessage(nil, rh[4:]); err == nil && cs1 != nil {
				res = "ok"
				if v := rep % 3; v != 0 {
					sig := keSign(742, "p2pke/channel-binding", hs.ChannelBinding())
					if v == 2 {
						sig = tsSigOf(ih)
					}
					body, _ := proto.Marshal(&p2pke.InitDone{Sig: sig})
					hdr := []byte{0, 0, 0, 2}
					net.DeliverSync(ctrlnet.Packet{Src: an.LocalAddr(), Dst: vn.LocalAddr(), Data: cs1.Cipher().Encrypt(append([]byte{}, hdr...), 2, hdr, body)}, workers)
				}
				for ctr := uint64(16); ctr < 18; ctr++ {
					hdr := make([]byte, 4)
					binary.BigEndian.PutUint32(hdr, uint32(ctr))
					data := cs1.Cipher().Encrypt(append([]byte{}, hdr...), ctr, hdr, []byte(fmt.Sprintf("claim-adversary-%d", rep)))
					net.DeliverSync(ctrlnet.Packet{Src: an.LocalAddr(), Dst: vn.LocalAddr(), Data: data}, workers)
				}
				time.Sleep(20 * time.Millisecond)
			}
		}
	}
	mu.Lock()
	out := append([]sx.V{}, ds...)
	mu.Unlock()
	c.emit(sx.L(sx.S("sec"), sx.S("ke-claim-adversary"), c04AllAllowed, sx.I(c.n)), sx.L(sx.L(sx.I(2), sx.I(0), sx.I(0), sx.S(res), sx.L(out...))))
	c.count("c04/ke-claim-adversary")
}

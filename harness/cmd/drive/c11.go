package main

import (
	"bytes"
	"context"
	"crypto/ed25519"
	"encoding/binary"
	"fmt"
	"os"
	"strings"
	"sync"
	"time"

	"go.brendoncarroll.net/p2p"
	"go.brendoncarroll.net/p2p/f/x509"
	"go.brendoncarroll.net/p2p/p/mbapp"
	"go.brendoncarroll.net/p2p/p/p2pmux"
	"go.brendoncarroll.net/p2p/s/memswarm"
	"go.brendoncarroll.net/p2p/s/multiswarm"
	"go.brendoncarroll.net/p2p/s/quicswarm"
	"go.brendoncarroll.net/p2p/s/sshswarm"
	"go.brendoncarroll.net/p2p/s/udpswarm"
	"go.brendoncarroll.net/p2p/s/wlswarm"

	"verifharness/internal/gen"
	"verifharness/internal/sx"
)

func init() { drivers["C11"] = runC11 }

// one ask-capable node with the address type erased
type askNode struct {
	ask     func(ctx context.Context, resp []byte, dst *askNode, req []byte) (int, error)
	serve   func(ctx context.Context, fn func(ctx context.Context, resp []byte, src string, payload []byte) int) error
	addr    any
	addrTxt string
	closeFn func() error
}

func mkAskNode[A p2p.Addr](sw p2p.AskSwarm[A], pick func([]A) A) *askNode {
	n := &askNode{closeFn: sw.Close}
	a := pick(sw.LocalAddrs())
	n.addr, n.addrTxt = a, textOf(a)
	n.ask = func(ctx context.Context, resp []byte, dst *askNode, req []byte) (int, error) {
		return sw.Ask(ctx, resp, dst.addr.(A), p2p.IOVec{req})
	}
	n.serve = func(ctx context.Context, fn func(context.Context, []byte, string, []byte) int) error {
		return sw.ServeAsk(ctx, func(ctx context.Context, resp []byte, m p2p.Message[A]) int {
			return fn(ctx, resp, textOf(m.Src), m.Payload)
		})
	}
	return n
}

type askWorldKind struct {
	name string
	mk   func(n int) []*askNode
}

func askWorldKinds() []askWorldKind {
	pub := func(i int) x509.PublicKey {
		k := testKey(600 + i)
		p, err := x509.DefaultRegistry().PublicFromPrivate(&k)
		if err != nil {
			panic(err)
		}
		return p
	}
	mems := func(n int) []secMem {
		realm := memswarm.NewSecureRealm[x509.PublicKey](memswarm.WithQueueLen(512))
		out := make([]secMem, n)
		for i := range out {
			out[i] = realm.NewSwarm(pub(i))
		}
		return out
	}
	first := firstAddr[memswarm.Addr]
	return []askWorldKind{
		{"memswarm", func(n int) (out []*askNode) {
			for _, m := range mems(n) {
				out = append(out, mkAskNode[memswarm.Addr](m, first))
			}
			return
		}},
		{"mux", func(n int) (out []*askNode) {
			for _, m := range mems(n) {
				out = append(out, mkAskNode[memswarm.Addr](p2pmux.NewStringSecureAskMux[memswarm.Addr, x509.PublicKey](m).Open("asks"), first))
			}
			return
		}},
		{"mbapp", func(n int) (out []*askNode) {
			for _, m := range mems(n) {
				mb := mbapp.New[memswarm.Addr, x509.PublicKey](m, 1<<16)
				mb.VerifHoldPartials()
				out = append(out, mkAskNode[memswarm.Addr](mb, first))
			}
			return
		}},
		{"mbapp-small-parts", func(n int) (out []*askNode) { // multi-part requests and responses
			realm := memswarm.NewSecureRealm[x509.PublicKey](memswarm.WithQueueLen(4096), memswarm.WithMTU(80))
			for i := 0; i < n; i++ {
				mb := mbapp.New[memswarm.Addr, x509.PublicKey](realm.NewSwarm(pub(i)), 1<<14)
				mb.VerifHoldPartials()
				out = append(out, mkAskNode[memswarm.Addr](mb, first))
			}
			return
		}},
		{"wlswarm", func(n int) (out []*askNode) {
			for _, m := range mems(n) {
				out = append(out, mkAskNode[memswarm.Addr](wlswarm.WrapSecureAsk[memswarm.Addr, x509.PublicKey](m, func(a memswarm.Addr) bool { return a.N%3 != 2 }), first))
			}
			return
		}},
		{"multiswarm", func(n int) (out []*askNode) {
			for _, m := range mems(n) {
				ms := multiswarm.NewSecureAsk[x509.PublicKey](map[string]multiswarm.DynSecureAskSwarm[x509.PublicKey]{
					"a": multiswarm.WrapSecureAskSwarm[memswarm.Addr, x509.PublicKey](m),
				})
				out = append(out, mkAskNode[multiswarm.Addr](ms, firstAddr[multiswarm.Addr]))
			}
			return
		}},
		{"mux-over-mbapp", func(n int) (out []*askNode) {
			for _, m := range mems(n) {
				mb := mbapp.New[memswarm.Addr, x509.PublicKey](m, 1<<16)
				mb.VerifHoldPartials()
				out = append(out, mkAskNode[memswarm.Addr](p2pmux.NewStringSecureAskMux[memswarm.Addr, x509.PublicKey](mb).Open("x"), first))
			}
			return
		}},
		{"sshswarm", func(n int) (out []*askNode) {
			for i := 0; i < n; i++ {
				seed := make([]byte, 32)
				seed[0] = byte(40 + i)
				signer, err := sshswarm.NewSignerFromSigner(ed25519.NewKeyFromSeed(seed))
				if err != nil {
					panic(err)
				}
				s, err := sshswarm.New("127.0.0.1:", signer)
				if err != nil {
					panic(err)
				}
				out = append(out, mkAskNode[sshswarm.Addr](s, firstAddr[sshswarm.Addr]))
			}
			return
		}},
		{"quicswarm", func(n int) (out []*askNode) {
			for i := 0; i < n; i++ {
				q, err := quicswarm.NewOnUDP("127.0.0.1:", testKey(620+i))
				if err != nil {
					panic(err)
				}
				out = append(out, mkAskNode[quicswarm.Addr[udpswarm.Addr]](q, firstAddr[quicswarm.Addr[udpswarm.Addr]]))
			}
			return
		}},
	}
}

// the answer a handler of node `server` gives to request `id`, of length l
func c11Answer(server int, id uint32, l int) []byte {
	b := make([]byte, l)
	for i := range b {
		b[i] = byte(uint32(server)*31 + id*7 + uint32(i))
	}
	return b
}

// request: id(4) wanted-length(4) flags(1) then filler; flags: 1 = handler fails, 2 = handler is slow
func c11Request(id uint32, want int, flags byte, fill int) []byte {
	b := make([]byte, 9+fill)
	binary.BigEndian.PutUint32(b, id)
	binary.BigEndian.PutUint32(b[4:], uint32(want))
	b[8] = flags
	for i := 9; i < len(b); i++ {
		b[i] = byte(id + uint32(i))
	}
	return b
}

func c11Case(c *ctxT, r *gen.R, kind askWorldKind) {
	nNodes := 3
	nodes := kind.mk(nNodes)
	ctx, cancel := context.WithCancel(context.Background())
	var swg sync.WaitGroup
	var mu sync.Mutex
	handlerSaw := map[uint32]string{} // request id -> "src|ok" as the handler saw it
	reqOf := map[uint32][]byte{}
	deaf := -1 // a node that has the swarm open but never serves: asks to it park until it is closed
	if r.Intn(4) == 0 {
		deaf = r.Intn(nNodes)
	}
	for si, nd := range nodes {
		if si == deaf {
			continue
		}
		for w := 0; w < 2; w++ { // two serving goroutines per node
			si, nd := si, nd
			swg.Add(1)
			go func() {
				defer swg.Done()
				for {
					err := nd.serve(ctx, func(hctx context.Context, resp []byte, src string, payload []byte) int {
						if len(payload) < 9 {
							return -1
						}
						id := binary.BigEndian.Uint32(payload)
						want := int(binary.BigEndian.Uint32(payload[4:]))
						mu.Lock()
						okReq := bytes.Equal(reqOf[id], payload)
						handlerSaw[id] = fmt.Sprintf("%s|%v", src, okReq)
						mu.Unlock()
						if payload[8]&2 != 0 {
							select {
							case <-hctx.Done():
							case <-time.After(300 * time.Millisecond):
							}
						}
						if payload[8]&1 != 0 {
							return -1
						}
						if want > len(resp) {
							return -1
						}
						return copy(resp, c11Answer(si, id, want))
					})
					if err != nil {
						return
					}
				}
			}()
		}
	}
	time.Sleep(time.Millisecond)
	type askRec struct {
		id           uint32
		from, to     int
		want, buf    int
		flags        byte
		deadlineMs   int
		n            int
		err          error
		got          []byte
		elapsed      time.Duration
		closedMidway bool
	}
	nAsks := 6 + r.Intn(14)
	recs := make([]*askRec, nAsks)
	closeVictim := -1
	if r.Intn(4) == 0 {
		closeVictim = r.Intn(nNodes)
	}
	if deaf >= 0 {
		closeVictim = deaf
	}
	var awg sync.WaitGroup
	crossing := strings.Contains(kind.name, "mbapp") // every node asks at the same moment: equal counters, equal origin times
	var barrier chan struct{}
	for i := range recs {
		from := r.Intn(nNodes)
		to := (from + 1 + r.Intn(nNodes-1)) % nNodes
		want := gen.Pick(r, []int{0, 1, 8, 60, 300, 2000})
		if crossing {
			from = i % nNodes
			to = []int{1, 0, 0}[from] // 0 and 1 ask each other in the same round
			want = gen.Pick(r, []int{300, 2000, 700})
			if i%nNodes == 0 {
				if barrier != nil {
					close(barrier)
					time.Sleep(3 * time.Millisecond)
				}
				barrier = make(chan struct{})
			}
		}
		bar := barrier
		rec := &askRec{id: uint32(i + 1), from: from, to: to, want: want, buf: want, deadlineMs: 2000}
		switch r.Intn(8) {
		case 0:
			rec.flags = 1 // the handler signals failure
		case 1:
			rec.flags, rec.deadlineMs = 2, 60 // the handler is slower than the asker's deadline
		case 2:
			if want > 0 {
				rec.buf = want - 1 - r.Intn(want) // the response does not fit the asker's buffer
			}
		case 3:
			rec.buf = want + r.Intn(50)
		}
		if rec.to == deaf {
			rec.deadlineMs = 300
		}
		if kind.name == "wlswarm" && (rec.from%3 == 2 || rec.to%3 == 2) {
			rec.flags |= 8 // the whitelist wrapper rejects node 2, as asker and as destination
		}
		recs[i] = rec
		req := c11Request(rec.id, rec.want, rec.flags, gen.Pick(r, []int{0, 3, 40, 200}))
		mu.Lock()
		reqOf[rec.id] = req
		mu.Unlock()
		awg.Add(1)
		go func() {
			defer awg.Done()
			actx, cf := context.WithTimeout(ctx, time.Duration(rec.deadlineMs)*time.Millisecond)
			defer cf()
			resp := make([]byte, rec.buf, rec.buf+int(rec.id%3)*17) // often a window into a larger array
			if bar != nil {
				<-bar
			}
			t0 := time.Now()
			rec.n, rec.err = nodes[rec.from].ask(actx, resp, nodes[rec.to], req)
			rec.elapsed = time.Since(t0)
			if rec.err == nil && rec.n >= 0 && rec.n <= len(resp) {
				rec.got = append([]byte{}, resp[:rec.n]...)
			}
		}()
		if i == nAsks/2 && closeVictim >= 0 {
			nodes[closeVictim].closeFn()
		}
		if r.Intn(3) == 0 {
			time.Sleep(time.Duration(r.Intn(300)) * time.Microsecond)
		}
	}
	if barrier != nil {
		close(barrier)
	}
	// an Ask that has not returned long after its deadline is recorded as such and abandoned
	allDone := make(chan struct{})
	go func() { awg.Wait(); close(allDone) }()
	hung := false
	select {
	case <-allDone:
	case <-time.After(6 * time.Second):
		hung = true
	}
	cancel()
	for _, nd := range nodes {
		nd.closeFn()
	}
	if hung {
		select {
		case <-allDone:
		case <-time.After(2 * time.Second):
		}
	}
	sdone := make(chan struct{})
	go func() { swg.Wait(); close(sdone) }()
	select {
	case <-sdone:
	case <-time.After(3 * time.Second):
	}
	// one record per ask
	var obs []sx.V
	for _, rec := range recs {
		res := "error"
		detail := 0
		if rec.err == nil {
			res = "ok"
			want := c11Answer(rec.to, rec.id, rec.want)
			switch {
			case rec.n != rec.want || !bytes.Equal(rec.got, want):
				detail = 1 // not the bytes its own handler produced
				if os.Getenv("C11DBG") != "" {
					first := -1
					for i := 0; i < len(want) && i < len(rec.got); i++ {
						if want[i] != rec.got[i] {
							first = i
							break
						}
					}
					zeros := 0
					for _, b := range rec.got {
						if b == 0 {
							zeros++
						}
					}
					fmt.Fprintf(os.Stderr, "C11DBG kind=%s id=%d n=%d want=%d firstdiff=%d zeros=%d to=%d from=%d victim=%d\n", kind.name, rec.id, rec.n, rec.want, first, zeros, rec.to, rec.from, closeVictim)
				}
			}
			mu.Lock()
			saw := handlerSaw[rec.id]
			mu.Unlock()
			want2 := fmt.Sprintf("%s|true", nodes[rec.from].addrTxt)
			if kind.name == "sshswarm" {
				// a dialed TCP connection comes from an ephemeral port: identity and host must match
				saw, want2 = dropPort(saw), dropPort(want2)
			}
			if saw != want2 {
				detail += 2 // the handler did not see exactly this request from this asker
			}
		}
		late := 0
		if hung && rec.elapsed == 0 && rec.err == nil && rec.got == nil && rec.n == 0 {
			late = 1
			rec.err = context.DeadlineExceeded
		}
		if rec.elapsed > time.Duration(rec.deadlineMs)*time.Millisecond+700*time.Millisecond {
			late = 1
		}
		victim := 0
		if rec.to == closeVictim || rec.from == closeVictim {
			victim = 1
		}
		obs = append(obs, sx.L(sx.I(int(rec.id)), sx.I(rec.want), sx.I(rec.buf), sx.I(int(rec.flags)), sx.S(res), sx.I(detail), sx.I(late), sx.I(victim)))
	}
	c.emit(sx.L(sx.S("ask"), sx.S(kind.name), sx.I(nAsks), sx.I(c.n)), sx.L(obs...))
	c.count("c11/" + kind.name)
}

func runC11(c *ctxT) {
	kinds := askWorldKinds()
	n := c.scale(110, 2500)
	for i := 0; i < n; i++ {
		k := kinds[i%len(kinds)]
		if (k.name == "sshswarm" || k.name == "quicswarm") && i >= 4*len(kinds) && !c.thorough() {
			k = kinds[i%7] // the socket transports are slow to set up: a few cases each in the quick tier
		}
		c11Case(c, c.rng.Fork(), k)
	}
}

func dropPort(s string) string {
	bar := len(s)
	for i := len(s) - 1; i >= 0; i-- {
		if s[i] == '|' {
			bar = i
		}
		if s[i] == ':' {
			return s[:i] + s[bar:]
		}
	}
	return s
}

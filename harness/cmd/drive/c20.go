package main

import (
	"errors"
	"fmt"
	"sort"

	"go.brendoncarroll.net/p2p"
	"go.brendoncarroll.net/p2p/p/kademlia"

	"verifharness/internal/gen"
	"verifharness/internal/sx"
)

func init() { drivers["C20"] = runC20 }

type simNode struct {
	id    p2p.PeerID
	info  []byte
	peers []int // indices into the universe
	mode  int   // responder behaviour
	value []byte
	acc   bool
}

const (
	mHonest    = iota // nearest peers to the target, up to the limit
	mFail             // Ask returns an error
	mEveryone         // returns the whole universe
	mSelf             // returns itself
	mInitial          // returns the initial peers again (incl. the first contacted)
	mCycle            // returns its successor in a cycle over the universe
	mFabricate        // returns many fabricated ids
	nModes
)

func nodeSx(n kademlia.NodeInfo) sx.V { return sx.L(sx.B(n.ID[:]), sx.B(n.Info)) }
func nodesSx(ns []kademlia.NodeInfo) sx.V {
	out := make([]sx.V, len(ns))
	for i, n := range ns {
		out[i] = nodeSx(n)
	}
	return sx.L(out...)
}

type sim struct {
	r        *gen.R
	univ     []*simNode
	byID     map[p2p.PeerID]int
	initial  []kademlia.NodeInfo
	asked    []sx.V
	answers  []sx.V
	fabN     int
	perID    map[p2p.PeerID]int
	maxPerID int
}

func (s *sim) info(i int) kademlia.NodeInfo {
	n := s.univ[i]
	return kademlia.NodeInfo{ID: n.id, Info: append([]byte{}, n.info...)}
}

func (s *sim) closer(nd *simNode, key []byte, limit int) []kademlia.NodeInfo {
	var out []kademlia.NodeInfo
	switch nd.mode {
	case mEveryone:
		for i := range s.univ {
			out = append(out, s.info(i))
		}
	case mSelf:
		out = append(out, kademlia.NodeInfo{ID: nd.id, Info: nd.info})
	case mInitial:
		for _, n := range s.initial {
			out = append(out, kademlia.NodeInfo{ID: n.ID, Info: append([]byte{}, n.Info...)})
		}
	case mCycle:
		i := s.byID[nd.id]
		out = append(out, s.info((i+1)%len(s.univ)), s.info((i+2)%len(s.univ)))
	case mFabricate:
		for j := 0; j < s.fabN; j++ {
			var id p2p.PeerID
			copy(id[:], s.r.Bytes(32))
			// fabricated ids creep towards the key so that they are admitted
			for b := 0; b < 1+s.r.Intn(6) && b < len(key); b++ {
				id[b] = key[b]
			}
			out = append(out, kademlia.NodeInfo{ID: id, Info: []byte{0xfa}})
		}
	default:
		idx := append([]int{}, nd.peers...)
		sort.Slice(idx, func(a, b int) bool {
			return kademlia.DistanceLt(key, s.univ[idx[a]].id[:], s.univ[idx[b]].id[:])
		})
		if limit > 0 && len(idx) > limit {
			idx = idx[:limit]
		}
		for _, i := range idx {
			out = append(out, s.info(i))
		}
	}
	return out
}

func (s *sim) record(nd kademlia.NodeInfo, ok bool, nodes []kademlia.NodeInfo, value []byte, acc bool) {
	s.asked = append(s.asked, sx.B(nd.ID[:]))
	s.perID[nd.ID]++
	if s.perID[nd.ID] > s.maxPerID {
		s.maxPerID = s.perID[nd.ID]
	}
	tag := "ok"
	if !ok {
		tag = "err"
	}
	v := sx.None()
	if value != nil {
		v = sx.B(value)
	}
	s.answers = append(s.answers, sx.L(sx.S(tag), nodesSx(nodes), v, sx.Bool(acc)))
}

func (s *sim) lookup(nd kademlia.NodeInfo) *simNode {
	if i, ok := s.byID[nd.ID]; ok {
		return s.univ[i]
	}
	// a fabricated node: nobody is there
	return &simNode{id: nd.ID, mode: mFail}
}

func copyNodes(ns []kademlia.NodeInfo) []kademlia.NodeInfo {
	out := make([]kademlia.NodeInfo, len(ns))
	for i, n := range ns {
		out[i] = kademlia.NodeInfo{ID: n.ID, Info: append([]byte{}, n.Info...)}
	}
	return out
}

func newSim(r *gen.R, c *ctxT) *sim {
	s := &sim{r: r, byID: map[p2p.PeerID]int{}, perID: map[p2p.PeerID]int{}}
	n := 3 + r.Intn(28)
	topo := r.Intn(5)
	adversaries := r.Intn(3) // 0: all honest, 1: a few, 2: many
	for i := 0; i < n; i++ {
		nd := &simNode{info: r.Bytes(1 + r.Intn(3)), acc: r.Intn(3) > 0}
		copy(nd.id[:], r.Bytes(32))
		if i == 0 && r.Intn(6) == 0 {
			nd.id = p2p.PeerID{} // the all-zero id
		}
		if r.Intn(8) == 0 {
			nd.info[0] = 0xee // rejected by the validating rule
		}
		if adversaries == 2 && r.Intn(2) == 0 || adversaries == 1 && r.Intn(6) == 0 {
			nd.mode = 1 + r.Intn(nModes-1)
		}
		if r.Intn(4) == 0 {
			nd.value = r.Bytes(1 + r.Intn(4))
			if r.Intn(5) == 0 {
				nd.value[0] = 0xee
			}
		}
		s.byID[nd.id] = i
		s.univ = append(s.univ, nd)
	}
	for i, nd := range s.univ {
		switch topo {
		case 0: // ring
			nd.peers = []int{(i + 1) % n, (i + n - 1) % n}
		case 1: // clique
			for j := 0; j < n; j++ {
				if j != i {
					nd.peers = append(nd.peers, j)
				}
			}
		case 2: // star
			if i == 0 {
				for j := 1; j < n; j++ {
					nd.peers = append(nd.peers, j)
				}
			} else {
				nd.peers = []int{0}
			}
		default: // random sparse
			for j := 0; j < 1+r.Intn(5); j++ {
				nd.peers = append(nd.peers, r.Intn(n))
			}
		}
	}
	s.fabN = c.scale(40, 2000)
	if r.Intn(10) == 0 {
		s.fabN = c.scale(300, 10000)
	}
	nInit := r.Intn(8)
	if r.Intn(5) == 0 {
		nInit = r.Intn(21)
	}
	for i := 0; i < nInit; i++ {
		s.initial = append(s.initial, s.info(r.Intn(n)))
	}
	if len(s.initial) > 0 && r.Intn(3) == 0 { // duplicates
		s.initial = append(s.initial, s.initial[0])
	}
	c.count(fmt.Sprintf("topology%d/adversaries%d/initial%d", topo, adversaries, len(s.initial)/4*4))
	return s
}

func errSx(err error) sx.V { return sx.Bool(err != nil) }

func runC20(c *ctxT) {
	r := c.rng
	nCases := c.scale(400, 6000)
	for i := 0; i < nCases; i++ {
		s := newSim(r.Fork(), c)
		rule := uint64(r.Intn(2))
		var key [32]byte
		copy(key[:], r.Bytes(32))
		if r.Bool() {
			key = s.univ[r.Intn(len(s.univ))].id // an existing node's id
		}
		if r.Intn(4) == 0 { // a key next to the all-zero id: every node is farther from it than the zero value of a PeerID
			for j := 0; j < 8+r.Intn(24); j++ {
				key[j] = 0
			}
		}
		initialSx := nodesSx(s.initial)
		initial := copyNodes(s.initial)
		op := r.Intn(4)
		var obs sx.V
		var cs func() sx.V
		func() {
			defer func() {
				if e := recover(); e != nil {
					obs = sx.S("panic")
				}
			}()
			switch op {
			case 0:
				cs = func() sx.V {
					return sx.L(sx.S("find"), sx.B(key[:]), sx.N(rule), initialSx, sx.L(s.answers...))
				}
				res, err := kademlia.DHTFindNode(kademlia.DHTFindNodeParams{
					Initial: initial, Target: key,
					Validate: func(n kademlia.NodeInfo) bool { return rule == 0 || !(len(n.Info) > 0 && n.Info[0] == 0xee) },
					Ask: func(nd kademlia.NodeInfo, req kademlia.FindNodeReq) (kademlia.FindNodeRes, error) {
						sn := s.lookup(nd)
						if sn.mode == mFail {
							s.record(nd, false, nil, nil, false)
							return kademlia.FindNodeRes{}, errors.New("unreachable")
						}
						ns := s.closer(sn, req.Target[:], req.Limit)
						s.record(nd, true, ns, nil, false)
						return kademlia.FindNodeRes{Nodes: copyNodes(ns)}, nil
					},
				})
				closest := sx.None()
				if !(len(s.asked) == 0 && err != nil) {
					closest = sx.L(sx.B(res.Closest[:]), sx.B(res.Info))
				}
				obs = sx.L(sx.S("find"), sx.L(s.asked...), closest, sx.I(res.Contacted), errSx(err))
			case 1:
				cs = func() sx.V {
					return sx.L(sx.S("join"), sx.B(key[:]), sx.N(rule), initialSx, sx.L(s.answers...))
				}
				added := kademlia.DHTJoin(kademlia.DHTJoinParams{
					Initial: initial, Target: key,
					AddPeer: func(id p2p.PeerID, info []byte) bool { return rule == 0 || id[31]%2 == 0 },
					Ask: func(nd kademlia.NodeInfo, req kademlia.FindNodeReq) (kademlia.FindNodeRes, error) {
						sn := s.lookup(nd)
						if sn.mode == mFail {
							s.record(nd, false, nil, nil, false)
							return kademlia.FindNodeRes{}, errors.New("unreachable")
						}
						ns := s.closer(sn, req.Target[:], req.Limit)
						s.record(nd, true, ns, nil, false)
						return kademlia.FindNodeRes{Nodes: copyNodes(ns)}, nil
					},
				})
				obs = sx.L(sx.S("join"), sx.L(s.asked...), sx.I(added))
			case 2:
				cs = func() sx.V {
					return sx.L(sx.S("get"), sx.B(key[:]), sx.N(rule), initialSx, sx.L(s.answers...))
				}
				res, err := kademlia.DHTGet(kademlia.DHTGetParams{
					Key: key[:], Initial: initial,
					Validate: func(v []byte) bool { return rule == 0 || !(len(v) > 0 && v[0] == 0xee) },
					Ask: func(nd kademlia.NodeInfo, req kademlia.GetReq) (kademlia.GetRes, error) {
						sn := s.lookup(nd)
						if sn.mode == mFail {
							s.record(nd, false, nil, nil, false)
							return kademlia.GetRes{}, errors.New("unreachable")
						}
						ns := s.closer(sn, req.Key, 0)
						s.record(nd, true, ns, sn.value, false)
						return kademlia.GetRes{Value: append([]byte(nil), sn.value...), Closer: copyNodes(ns)}, nil
					},
				})
				val, from, closest := sx.None(), sx.None(), sx.None()
				if res.Value != nil {
					val = sx.B(res.Value)
				}
				if err == nil {
					from = sx.B(res.From[:])
				}
				if res.NumResponded > 0 {
					closest = sx.B(res.Closest[:])
				}
				obs = sx.L(sx.S("get"), sx.L(s.asked...), val, from, closest, sx.I(res.NumContacted), sx.I(res.NumResponded), errSx(err))
			default:
				minAcc := r.Intn(5) - 1
				minSx := sxZ(int64(minAcc))
				cs = func() sx.V {
					return sx.L(sx.S("put"), sx.B(key[:]), minSx, initialSx, sx.L(s.answers...))
				}
				res, err := kademlia.DHTPut(kademlia.DHTPutParams{
					Initial: initial, Key: key[:], Value: []byte("v"), MinAccepted: minAcc,
					Ask: func(nd kademlia.NodeInfo, req kademlia.PutReq) (kademlia.PutRes, error) {
						sn := s.lookup(nd)
						if sn.mode == mFail {
							s.record(nd, false, nil, nil, false)
							return kademlia.PutRes{}, errors.New("unreachable")
						}
						ns := s.closer(sn, req.Key, 0)
						s.record(nd, true, ns, nil, sn.acc)
						return kademlia.PutRes{Accepted: sn.acc, Closer: copyNodes(ns)}, nil
					},
				})
				closest := sx.None()
				if res.Accepted > 0 {
					closest = sx.B(res.Closest[:])
				}
				obs = sx.L(sx.S("put"), sx.L(s.asked...), closest, sx.I(res.Accepted), sx.I(res.Contacted), sx.I(res.Responded), errSx(err))
			}
		}()
		// non-trivial: some node is named by two responders / an adversarial responder answered
		named := map[string]int{}
		for _, a := range s.answers {
			named[string(a)]++
		}
		adv := false
		for _, nd := range s.univ {
			if nd.mode != mHonest && s.perID[nd.id] > 0 {
				adv = true
			}
		}
		c.emitNT(cs(), obs, adv || len(s.asked) >= 2)
		c.count([]string{"find", "join", "get", "put"}[op])
		if len(s.initial) == 0 {
			c.count("empty-initial")
		}
		if s.maxPerID > 1 {
			c.count("recontacted")
		}
	}
}

package main

import (
	"context"
	"sync"
	"sync/atomic"
	"time"

	"go.brendoncarroll.net/p2p"
	"go.brendoncarroll.net/p2p/s/udpswarm"

	"verifharness/internal/sx"
)

// udpConcurrent: several goroutines sit in Receive on ONE udpswarm (as the
// workers of p2pkeswarm and quicswarm do) while several senders tell it
// self-describing payloads (every byte of a payload is the same value).  Each
// callback holds its message briefly: it must stay one of the payloads told.
// case = (udp-concurrent <receivers> <senders> i)   obs = (<received> <bad>)
func udpConcurrent(c *ctxT, rep int) {
	nRecv, nSend := 2+rep%3, 2+rep%2
	r, b := udpConcurrentRun(rep)
	c.emit(sx.L(sx.S("udp-concurrent"), sx.I(nRecv), sx.I(nSend), sx.I(rep)), sx.L(sx.I(r), sx.I(b)))
	c.count("udp-concurrent")
}

func udpConcurrentRun(rep int) (int, int) {
	nRecv, nSend := 2+rep%3, 2+rep%2
	rcv, err := udpswarm.New("127.0.0.1:")
	if err != nil {
		panic(err)
	}
	var received, bad atomic.Int64
	ctx, cancel := context.WithCancel(context.Background())
	var rwg sync.WaitGroup
	for i := 0; i < nRecv; i++ {
		rwg.Add(1)
		go func() {
			defer rwg.Done()
			for {
				if err := rcv.Receive(ctx, func(m p2p.Message[udpswarm.Addr]) {
					uniform := func() bool {
						for _, b := range m.Payload {
							if b != m.Payload[0] {
								return false
							}
						}
						return len(m.Payload) > 0
					}
					ok1 := uniform()
					first := byte(0)
					if len(m.Payload) > 0 {
						first = m.Payload[0]
					}
					time.Sleep(150 * time.Microsecond)
					if !ok1 || !uniform() || m.Payload[0] != first {
						bad.Add(1)
					}
					received.Add(1)
				}); err != nil {
					return
				}
			}
		}()
	}
	dst := rcv.LocalAddrs()[0]
	var swg sync.WaitGroup
	for s := 0; s < nSend; s++ {
		s := s
		swg.Add(1)
		go func() {
			defer swg.Done()
			snd, err := udpswarm.New("127.0.0.1:")
			if err != nil {
				return
			}
			defer snd.Close()
			for j := 0; j < 150; j++ {
				p := make([]byte, 200+40*s)
				for k := range p {
					p[k] = byte(1 + s*60 + j%50)
				}
				snd.Tell(context.Background(), dst, p2p.IOVec{p})
				if j%10 == 0 {
					time.Sleep(100 * time.Microsecond)
				}
			}
		}()
	}
	swg.Wait()
	time.Sleep(30 * time.Millisecond)
	cancel()
	rcv.Close()
	rwg.Wait()
	return int(received.Load()), int(bad.Load())
}

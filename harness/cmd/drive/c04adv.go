package main

import (
	"context"
	"crypto/tls"
	"fmt"
	"net"
	"strconv"
	"time"

	"github.com/quic-go/quic-go"

	"go.brendoncarroll.net/p2p"
	"go.brendoncarroll.net/p2p/f/x509"
	"go.brendoncarroll.net/p2p/s/quicswarm"
	"go.brendoncarroll.net/p2p/s/swarmutil"
	"go.brendoncarroll.net/p2p/s/udpswarm"

	"verifharness/internal/sx"
)

// quicChainAdversary: a raw QUIC client that authenticates the TLS handshake with
// its own key (node 2) but presents a certificate chain to which the public
// certificate of a victim (node 1) is appended, in either order that TLS lets
// through.  The honest listener (node 0) must attribute what arrives to the key
// that signed the handshake.  One record in the format of the other C04 worlds.
func quicChainAdversary(c *ctxT, rep int) {
	type qAddr = quicswarm.Addr[udpswarm.Addr]
	reg := x509.DefaultRegistry()
	keys := []x509.PrivateKey{testKey(760), testKey(761), testKey(762)}
	var ids []p2p.PeerID
	var pubData [][]byte
	for i := range keys {
		pub, _ := reg.PublicFromPrivate(&keys[i])
		ids = append(ids, quicswarm.DefaultFingerprinter(pub))
		pubData = append(pubData, pub.Data)
	}
	honest, err := quicswarm.NewOnUDP("127.0.0.1:", keys[0])
	if err != nil {
		panic(err)
	}
	defer honest.Close()
	victimSigner, _ := x509.ToStandardSigner(&keys[1])
	attackerSigner, _ := x509.ToStandardSigner(&keys[2])
	victimDER := swarmutil.GenerateSelfSigned(victimSigner).Certificate[0]
	cert := swarmutil.GenerateSelfSigned(attackerSigner)
	cert.Certificate = [][]byte{cert.Certificate[0], victimDER} // leaf = the key that signs the handshake
	for k := 0; k < rep%3; k++ {
		cert.Certificate = append(cert.Certificate, victimDER)
	}
	cert.Leaf = nil
	payload := []byte(fmt.Sprintf("chain-adversary-%d", rep))
	type obsT struct{ src, key int }
	got := make(chan obsT, 1)
	rctx, rcf := context.WithTimeout(context.Background(), 4*time.Second)
	defer rcf()
	go honest.Receive(rctx, func(m p2p.Message[qAddr]) {
		o := obsT{-1, -1}
		for j, id := range ids {
			if id == m.Src.ID {
				o.src = j
			}
		}
		lctx, cf := context.WithTimeout(context.Background(), time.Second)
		if k, err := honest.LookupPublicKey(lctx, m.Src); err == nil {
			for j, d := range pubData {
				if string(d) == string(k.Data) {
					o.key = j
				}
			}
		}
		cf()
		got <- o
	})
	haddr := honest.LocalAddrs()[0].Addr
	target := net.JoinHostPort(haddr.IP.String(), strconv.Itoa(int(haddr.Port)))
	res := "error"
	var ds []sx.V
	dctx, dcf := context.WithTimeout(context.Background(), 3*time.Second)
	conn, err := quic.DialAddr(dctx, target, &tls.Config{Certificates: []tls.Certificate{cert}, InsecureSkipVerify: true, NextProtos: []string{"p2p"}}, &quic.Config{EnableDatagrams: true})
	dcf()
	if err == nil {
		if st, err := conn.OpenUniStream(); err == nil {
			st.Write(payload)
			st.Close()
			res = "ok"
		}
		select {
		case o := <-got:
			ds = append(ds, sx.L(sx.I(0), sxZ(int64(o.src)), sxZ(int64(o.key))))
		case <-time.After(1500 * time.Millisecond):
		}
		conn.CloseWithError(0, "")
	}
	rows := sx.L(sx.L(sx.I(1), sx.I(1), sx.I(1)), sx.L(sx.I(1), sx.I(1), sx.I(1)), sx.L(sx.I(1), sx.I(1), sx.I(1)))
	c.emit(sx.L(sx.S("sec"), sx.S("quic-chain-adversary"), rows, sx.I(c.n)), sx.L(sx.L(sx.I(2), sx.I(0), sx.I(0), sx.S(res), sx.L(ds...))))
	c.count("c04/quic-chain-adversary")
}

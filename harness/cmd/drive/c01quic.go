package main

import (
	"context"
	"sync"
	"time"

	"go.brendoncarroll.net/p2p"
	"go.brendoncarroll.net/p2p/s/quicswarm"
	"go.brendoncarroll.net/p2p/s/udpswarm"

	"verifharness/internal/sx"
)

// quicDeadlineTells: Tells of a large payload whose context expires while the payload is
// being written.  Such a Tell fails; whatever the receiver is handed must still be a whole
// payload that was told, never the part that had been written.
// case = (quic-deadline <size> i)   obs = (<tells that failed> <deliveries> <deliveries that are no told payload>)
func quicDeadlineTells(c *ctxT, rep int) {
	type qAddr = quicswarm.Addr[udpswarm.Addr]
	a, err := quicswarm.NewOnUDP("127.0.0.1:", testKey(790))
	if err != nil {
		panic(err)
	}
	b, err := quicswarm.NewOnUDP("127.0.0.1:", testKey(791))
	if err != nil {
		panic(err)
	}
	size := 1 << (17 + rep%4) // 128 KiB .. 1 MiB
	big := patBytes(uint64(7000+rep), size)
	var mu sync.Mutex
	deliveries, foreign := 0, 0
	go func() {
		for {
			if err := b.Receive(context.Background(), func(m p2p.Message[qAddr]) {
				mu.Lock()
				deliveries++
				if string(m.Payload) != "warm" && string(m.Payload) != string(big) {
					foreign++
				}
				mu.Unlock()
			}); err != nil {
				return
			}
		}
	}()
	dst := b.LocalAddrs()[0]
	wctx, wcf := context.WithTimeout(context.Background(), 5*time.Second)
	a.Tell(wctx, dst, p2p.IOVec{[]byte("warm")})
	wcf()
	failed := 0
	for i := 0; i < 12; i++ {
		ctx, cf := context.WithTimeout(context.Background(), time.Duration(150+250*i)*time.Microsecond)
		if err := a.Tell(ctx, dst, p2p.IOVec{big}); err != nil {
			failed++
		}
		cf()
	}
	time.Sleep(300 * time.Millisecond)
	mu.Lock()
	d, f := deliveries, foreign
	mu.Unlock()
	a.Close()
	b.Close()
	c.emit(sx.L(sx.S("quic-deadline"), sx.I(size), sx.I(rep)), sx.L(sx.I(failed), sx.I(d), sx.I(f)))
	c.count("quic-deadline")
}

// Command drive runs the implementation (/repo, built with -tags verif) on
// generated cases and writes one line per case:  <prop> TAB <case-sx> TAB <obs-sx>
package main

import (
	"bufio"
	"encoding/json"
	"flag"
	"fmt"
	"io"
	"os"
	"sort"

	"verifharness/internal/gen"
	"verifharness/internal/sx"
)

type ctxT struct {
	prop  string
	tier  string
	rng   *gen.R
	out   *bufio.Writer
	n     int
	hist  map[string]int // input-distribution histogram, written to evidence
	extra map[string]any
}

// emit writes one case; nontrivial per the property's stated rule (Appendix B)
func (c *ctxT) emitNT(cs, obs sx.V, nontrivial bool) {
	nt := 0
	if nontrivial {
		nt = 1
	}
	fmt.Fprintf(c.out, "%s\t%s\t%s\t%d\n", c.prop, cs, obs, nt)
	c.n++
}
func (c *ctxT) emit(cs, obs sx.V) { c.emitNT(cs, obs, true) }

// begin/end: a case whose execution may kill the process (a panic in a layer's
// own goroutine).  The case is on disk before it runs; a parent completes an
// unfinished line with the observation "panic".
func (c *ctxT) begin(cs sx.V) {
	fmt.Fprintf(c.out, "%s\t%s\t", c.prop, cs)
	c.out.Flush()
}
func (c *ctxT) end(obs sx.V) {
	fmt.Fprintf(c.out, "%s\t1\n", obs)
	c.out.Flush()
	c.n++
}
func (c *ctxT) count(class string) { c.hist[class]++ }
func (c *ctxT) thorough() bool     { return c.tier == "thorough" }

// scale returns q for quick and t for thorough
func (c *ctxT) scale(q, t int) int {
	if c.thorough() {
		return t
	}
	return q
}

var drivers = map[string]func(*ctxT){}

// childKind is set in a crash-isolated child process (see c08.go)
var childKind string

func main() {
	prop := flag.String("prop", "", "property id")
	tier := flag.String("tier", "quick", "quick|thorough")
	seed := flag.Uint64("seed", 1, "PRNG seed")
	outp := flag.String("out", "", "cases output file")
	statp := flag.String("stats", "", "stats json output file")
	flag.String("corpus", "", "unused")
	flag.StringVar(&childKind, "child", "", "internal: run one crash-isolated batch")
	flag.Parse()
	d, ok := drivers[*prop]
	if !ok {
		fmt.Fprintln(os.Stderr, "no driver for", *prop)
		os.Exit(2)
	}
	f, err := os.Create(*outp)
	if err != nil {
		panic(err)
	}
	w := bufio.NewWriterSize(f, 1<<20)
	c := &ctxT{prop: *prop, tier: *tier, rng: gen.New(*seed), out: w, hist: map[string]int{}, extra: map[string]any{}}
	d(c)
	w.Flush()
	f.Close()
	if *statp != "" {
		keys := make([]string, 0, len(c.hist))
		for k := range c.hist {
			keys = append(keys, k)
		}
		sort.Strings(keys)
		st := map[string]any{"cases": c.n, "histogram": c.hist, "extra": c.extra}
		b, _ := json.MarshalIndent(st, "", " ")
		os.WriteFile(*statp, b, 0o644)
	}
}

func discardWriter() *bufio.Writer { return bufio.NewWriter(io.Discard) }

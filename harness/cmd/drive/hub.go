package main

import (
	"context"
	"errors"
	"fmt"
	"strings"
	"sync"
	"time"

	"go.brendoncarroll.net/p2p"
	"go.brendoncarroll.net/p2p/s/memswarm"
	"go.brendoncarroll.net/p2p/s/swarmutil"

	"verifharness/internal/gen"
	"verifharness/internal/sx"
)

func init() {
	drivers["C12"] = func(c *ctxT) { runHubs(c, true) }
	drivers["C13"] = func(c *ctxT) { runHubs(c, false) }
}

// An event log shared by all goroutines of one scenario: the order of the log
// is the order in which the goroutines took the lock, which respects causality.
type evlog struct {
	mu  sync.Mutex
	evs []sx.V
}

func (l *evlog) add(v sx.V) {
	l.mu.Lock()
	l.evs = append(l.evs, v)
	l.mu.Unlock()
}

type hubUnderTest struct {
	kind    string
	receive func(ctx context.Context, cb func(msg uint64) int) error
	deliver func(ctx context.Context, msg uint64) (int, error)
	closeFn func()
}

type hAddr = memswarm.Addr

func newTellHubUT() *hubUnderTest {
	h := swarmutil.NewTellHub[hAddr]()
	return &hubUnderTest{kind: "tell",
		receive: func(ctx context.Context, cb func(uint64) int) error {
			return h.Receive(ctx, func(m p2p.Message[hAddr]) { cb(uint64(m.Src.N)) })
		},
		deliver: func(ctx context.Context, msg uint64) (int, error) {
			return 0, h.Deliver(ctx, p2p.Message[hAddr]{Src: hAddr{N: int(msg)}})
		},
		closeFn: func() { h.CloseWithError(nil) },
	}
}

func newAskHubUT() *hubUnderTest {
	h := swarmutil.NewAskHub[hAddr]()
	return &hubUnderTest{kind: "ask",
		receive: func(ctx context.Context, cb func(uint64) int) error {
			return h.ServeAsk(ctx, func(ctx context.Context, resp []byte, m p2p.Message[hAddr]) int { return cb(uint64(m.Src.N)) })
		},
		deliver: func(ctx context.Context, msg uint64) (int, error) {
			return h.Deliver(ctx, make([]byte, 8), p2p.Message[hAddr]{Src: hAddr{N: int(msg)}})
		},
		closeFn: func() { h.Close() },
	}
}

func errClass(ctx context.Context, err error) sx.V {
	if ctx.Err() != nil && errors.Is(err, ctx.Err()) {
		return sx.S("ctx")
	}
	return sx.S("closed")
}

// one scenario on one hub
func hubScenario(c *ctxT, r *gen.R, h *hubUnderTest, closeHeavy bool) {
	lg := &evlog{}
	var wg sync.WaitGroup
	type call struct {
		cancel  context.CancelFunc
		done    chan struct{}
		release chan struct{} // receiver: the callback waits for this
	}
	var recvs, dlvs []*call
	startRecv := func(hold bool) {
		i := len(recvs)
		ctx, cancel := context.WithCancel(context.Background())
		cl := &call{cancel: cancel, done: make(chan struct{}), release: make(chan struct{})}
		if !hold {
			close(cl.release)
		}
		recvs = append(recvs, cl)
		wg.Add(1)
		go func() {
			defer wg.Done()
			defer close(cl.done)
			called := false
			lg.add(sx.L(sx.S("rc"), sx.I(i)))
			err := h.receive(ctx, func(msg uint64) int {
				called = true
				lg.add(sx.L(sx.S("meet"), sx.I(i), sx.N(msg)))
				<-cl.release
				ans := int(msg*7+3) % 1000
				if h.kind == "ask" {
					lg.add(sx.L(sx.S("cbe"), sx.I(i), sx.I(ans)))
				} else {
					lg.add(sx.L(sx.S("cbe"), sx.I(i)))
				}
				return ans
			})
			switch {
			case err != nil && called:
				lg.add(sx.L(sx.S("err-after-callback"), sx.I(i)))
			case err != nil:
				lg.add(sx.L(sx.S("rre"), sx.I(i), errClass(ctx, err)))
			case !called:
				lg.add(sx.L(sx.S("nilret"), sx.I(i)))
			}
		}()
	}
	startDlv := func() {
		j := len(dlvs)
		ctx, cancel := context.WithCancel(context.Background())
		cl := &call{cancel: cancel, done: make(chan struct{})}
		dlvs = append(dlvs, cl)
		wg.Add(1)
		go func() {
			defer wg.Done()
			defer close(cl.done)
			lg.add(sx.L(sx.S("dc"), sx.I(j)))
			n, err := h.deliver(ctx, uint64(j))
			if err != nil {
				lg.add(sx.L(sx.S("dre"), sx.I(j), errClass(ctx, err)))
			} else if h.kind == "ask" {
				lg.add(sx.L(sx.S("dok"), sx.I(j), sx.I(n)))
			} else {
				lg.add(sx.L(sx.S("dok"), sx.I(j)))
			}
		}()
	}
	pause := func() { time.Sleep(time.Duration(20+r.Intn(200)) * time.Microsecond) }
	closed := false
	steps := 6 + r.Intn(20)
	for s := 0; s < steps; s++ {
		k := r.Intn(20)
		switch {
		case k < 6:
			startRecv(r.Intn(3) == 0)
		case k < 11:
			startDlv()
		case k < 13 && len(recvs) > 0:
			i := r.Intn(len(recvs))
			lg.add(sx.L(sx.S("cr"), sx.I(i)))
			recvs[i].cancel()
		case k < 14 && len(dlvs) > 0:
			j := r.Intn(len(dlvs))
			lg.add(sx.L(sx.S("cd"), sx.I(j)))
			dlvs[j].cancel()
		case k < 16 && len(recvs) > 0: // let a held callback finish
			i := r.Intn(len(recvs))
			select {
			case <-recvs[i].release:
			default:
				close(recvs[i].release)
			}
		case k < 17+boolInt(closeHeavy)*2 && !closed:
			closed = true
			lg.add(sx.L(sx.S("cb")))
			h.closeFn()
			lg.add(sx.L(sx.S("ce")))
		default:
			pause()
		}
		if r.Intn(3) > 0 {
			pause()
		}
	}
	// the end: callbacks finish; the hub is closed and every context cancelled,
	// after which nobody may still be blocked
	for _, cl := range recvs {
		select {
		case <-cl.release:
		default:
			close(cl.release)
		}
	}
	pause()
	if !closed {
		lg.add(sx.L(sx.S("cb")))
		h.closeFn()
		lg.add(sx.L(sx.S("ce")))
	}
	// a call made after Close has returned
	startRecv(false)
	startDlv()
	waitAll := func(d time.Duration) bool {
		ch := make(chan struct{})
		go func() { wg.Wait(); close(ch) }()
		select {
		case <-ch:
			return true
		case <-time.After(d):
			return false
		}
	}
	if !waitAll(5 * time.Second) {
		for i, cl := range recvs {
			select {
			case <-cl.done:
			default:
				lg.add(sx.L(sx.S("stuck-r"), sx.I(i)))
			}
		}
		for j, cl := range dlvs {
			select {
			case <-cl.done:
			default:
				lg.add(sx.L(sx.S("stuck-d"), sx.I(j)))
			}
		}
		// let the goroutines go
		for _, cl := range recvs {
			cl.cancel()
		}
		for _, cl := range dlvs {
			cl.cancel()
		}
		waitAll(500 * time.Millisecond)
	}
	lg.mu.Lock()
	evs := append([]sx.V{}, lg.evs...)
	lg.mu.Unlock()
	c.emit(sx.L(sx.S("hub"), sx.S(h.kind), sx.I(len(recvs)), sx.I(len(dlvs)), sx.I(c.n)), sx.L(evs...))
	c.count(fmt.Sprintf("hub/%s/recv%d/dlv%d", h.kind, len(recvs)/4*4, len(dlvs)/4*4))
}

func boolInt(b bool) int {
	if b {
		return 1
	}
	return 0
}

// the bounded queue: accepted messages are handed to exactly one callback each,
// a cancelled receiver loses nothing, Close ends every receiver
func queueScenario(c *ctxT, r *gen.R) {
	q := swarmutil.NewQueue[hAddr](1+r.Intn(4), 64)
	lg := &evlog{}
	var wg sync.WaitGroup
	nRecv := 1 + r.Intn(4)
	type rc struct {
		cancel context.CancelFunc
		done   chan struct{}
	}
	var recvs []*rc
	stop := make(chan struct{})
	for i := 0; i < nRecv; i++ {
		i := i
		ctx, cancel := context.WithCancel(context.Background())
		cl := &rc{cancel: cancel, done: make(chan struct{})}
		recvs = append(recvs, cl)
		wg.Add(1)
		go func() {
			defer wg.Done()
			defer close(cl.done)
			call := 0
			for {
				id := i*1000 + call
				call++
				lg.add(sx.L(sx.S("rc"), sx.I(id)))
				called := false
				err := q.Receive(ctx, func(m p2p.Message[hAddr]) {
					called = true
					lg.add(sx.L(sx.S("meet"), sx.I(id), sx.I(m.Src.N)))
					lg.add(sx.L(sx.S("cbe"), sx.I(id)))
				})
				if err != nil {
					lg.add(sx.L(sx.S("rre"), sx.I(id), errClass(ctx, err)))
					return
				}
				if !called {
					lg.add(sx.L(sx.S("nilret"), sx.I(id)))
					return
				}
				select {
				case <-stop:
				default:
				}
			}
		}()
	}
	accepted := 0
	nMsg := 3 + r.Intn(20)
	for m := 0; m < nMsg; m++ {
		lg.add(sx.L(sx.S("dc"), sx.I(m)))
		if q.Deliver(p2p.Message[hAddr]{Src: hAddr{N: m}, Payload: []byte{byte(m)}}) {
			accepted++
			lg.add(sx.L(sx.S("qacc"), sx.I(m)))
		} else {
			lg.add(sx.L(sx.S("qrej"), sx.I(m)))
		}
		if r.Intn(6) == 0 && len(recvs) > 1 { // cancel a competing receiver at that very moment (receiver 0 always stays)
			i := 1 + r.Intn(len(recvs)-1)
			lg.add(sx.L(sx.S("cr"), sx.I(i*1000)))
			recvs[i].cancel()
		}
		if r.Intn(2) == 0 {
			time.Sleep(time.Duration(r.Intn(100)) * time.Microsecond)
		}
	}
	// with at least one receiver left, everything accepted is eventually handed to a callback
	alive := 0
	for _, cl := range recvs {
		select {
		case <-cl.done:
		default:
			alive++
		}
	}
	deadline := time.Now().Add(time.Second)
	for alive > 0 && time.Now().Before(deadline) {
		lg.mu.Lock()
		got := 0
		for _, e := range lg.evs {
			if len(e) > 5 && string(e[:5]) == "(meet" {
				got++
			}
		}
		lg.mu.Unlock()
		if got >= accepted {
			break
		}
		time.Sleep(100 * time.Microsecond)
	}
	// an accepted message that no callback got although a receiver was there to take it is lost
	// (a receiver cancelled at the end leaves only when it next calls Receive: count again)
	time.Sleep(300 * time.Microsecond)
	alive = 0
	for _, cl := range recvs {
		select {
		case <-cl.done:
		default:
			alive++
		}
	}
	if alive > 0 {
		lg.mu.Lock()
		metIDs := map[string]bool{}
		var accIDs []string
		for _, e := range lg.evs {
			f := strings.Fields(strings.Trim(string(e), "()"))
			if len(f) == 3 && f[0] == "meet" {
				metIDs[f[2]] = true
			}
			if len(f) == 2 && f[0] == "qacc" {
				accIDs = append(accIDs, f[1])
			}
		}
		lg.mu.Unlock()
		for _, id := range accIDs {
			if !metIDs[id] {
				lg.add(sx.L(sx.S("lost"), sx.S(id)))
			}
		}
	}
	close(stop)
	lg.add(sx.L(sx.S("cb")))
	qclosed := make(chan struct{})
	go func() { q.Close(); close(qclosed) }()
	select {
	case <-qclosed:
	case <-time.After(5 * time.Second): // Close collects every buffer: it never returns if one was lost
		lg.add(sx.L(sx.S("stuck-close"), sx.I(0)))
	}
	lg.add(sx.L(sx.S("ce")))
	ch := make(chan struct{})
	go func() { wg.Wait(); close(ch) }()
	select {
	case <-ch:
	case <-time.After(5 * time.Second):
		for i, cl := range recvs {
			select {
			case <-cl.done:
			default:
				lg.add(sx.L(sx.S("stuck-r"), sx.I(i*1000)))
				cl.cancel()
			}
		}
	}
	lg.mu.Lock()
	evs := append([]sx.V{}, lg.evs...)
	lg.mu.Unlock()
	// lost messages: accepted but never handed to a callback although a receiver was alive
	c.emit(sx.L(sx.S("hub"), sx.S("queue"), sx.I(nRecv), sx.I(nMsg), sx.I(c.n)), sx.L(evs...))
	c.count("hub/queue")
}

func runHubs(c *ctxT, closeHeavy bool) {
	n := c.scale(240, 5000)
	for i := 0; i < n; i++ {
		r := c.rng.Fork()
		switch i % 5 {
		case 0, 1:
			hubScenario(c, r, newTellHubUT(), closeHeavy)
		case 2, 3:
			hubScenario(c, r, newAskHubUT(), closeHeavy)
		default:
			queueScenario(c, r)
		}
	}
	for i := 0; i < c.scale(150, 4000); i++ {
		queueSeq(c, c.rng.Fork(), closeHeavy)
	}
	if closeHeavy {
		closeStacks(c)
	} else {
		cancelStacks(c)
	}
}

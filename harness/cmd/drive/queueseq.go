package main

import (
	"context"
	"errors"
	"time"

	"go.brendoncarroll.net/p2p"
	"go.brendoncarroll.net/p2p/s/swarmutil"

	"verifharness/internal/gen"
	"verifharness/internal/sx"
)

// queueSeq drives one swarmutil.Queue through a random single-threaded
// operation sequence; every result is compared with Model.Queue.
// case = (hub qseq <cap> <mtu> (<op> ...))
func queueSeq(c *ctxT, r *gen.R, closeHeavy bool) {
	capN := 1 + r.Intn(4)
	mtu := r.Intn(9)
	q := swarmutil.NewQueue[hAddr](capN, mtu)
	nOps := 5 + r.Intn(36)
	var ops, res []sx.V
	buf := make([]byte, 0, 16) // the caller's buffer is reused: the queue must have copied
	closed := false
	for i := 0; i < nOps; i++ {
		k := r.Intn(20)
		switch {
		case k < 9: // deliver
			n := r.Intn(mtu + 3)
			buf = buf[:0]
			for j := 0; j < n; j++ {
				buf = append(buf, byte(r.Intn(256)))
			}
			src, dst := r.Intn(5), r.Intn(5)
			ops = append(ops, sx.L(sx.S("d"), sx.I(src), sx.I(dst), sx.B(buf)))
			var ok bool
			if r.Intn(2) == 0 {
				ok = q.Deliver(p2p.Message[hAddr]{Src: hAddr{N: src}, Dst: hAddr{N: dst}, Payload: buf})
			} else if n > mtu {
				// DeliverVec does not check the MTU itself: its callers do (vswarm). Keep to Deliver here.
				ok = q.Deliver(p2p.Message[hAddr]{Src: hAddr{N: src}, Dst: hAddr{N: dst}, Payload: buf})
			} else {
				h := n / 2
				ok = q.DeliverVec(hAddr{N: src}, hAddr{N: dst}, p2p.IOVec{buf[:h], buf[h:]})
			}
			if ok {
				res = append(res, sx.L(sx.S("acc")))
			} else {
				res = append(res, sx.L(sx.S("ref")))
			}
			for j := range buf { // scribble over the caller's buffer
				buf[j] ^= 0xff
			}
		case k < 16 && !closed && q.Len() > 0 && r.Intn(4) == 0:
			// a Receive whose context is already cancelled while messages are queued: it may take one
			// or return the context error, but it must not consume a message without handing it out
			ctx, cancel := context.WithCancel(context.Background())
			cancel()
			var got *sx.V
			err := q.Receive(ctx, func(m p2p.Message[hAddr]) {
				v := sx.L(sx.S("got"), sx.I(m.Src.N), sx.I(m.Dst.N), sx.B(append([]byte{}, m.Payload...)))
				got = &v
			})
			switch {
			case err == nil && got != nil:
				ops = append(ops, sx.L(sx.S("rc"), sx.I(1)))
				res = append(res, *got)
			case errors.Is(err, context.Canceled):
				ops = append(ops, sx.L(sx.S("rc"), sx.I(0)))
				res = append(res, sx.L(sx.S("ctx")))
			default:
				ops = append(ops, sx.L(sx.S("rc"), sx.I(0)))
				res = append(res, sx.L(sx.S("other-error")))
			}
			ops = append(ops, sx.L(sx.S("l")))
			res = append(res, sx.L(sx.S("n"), sx.I(q.Len())))
		case k < 16: // receive
			ops = append(ops, sx.L(sx.S("r")))
			ctx, cancel := context.WithTimeout(context.Background(), 2*time.Second)
			if q.Len() == 0 && !closed {
				cancel() // nothing to get: a Receive would wait for ever
			}
			var got *sx.V
			err := q.Receive(ctx, func(m p2p.Message[hAddr]) {
				v := sx.L(sx.S("got"), sx.I(m.Src.N), sx.I(m.Dst.N), sx.B(append([]byte{}, m.Payload...)))
				got = &v
			})
			cancel()
			switch {
			case err == nil && got != nil:
				res = append(res, *got)
			case err == nil:
				res = append(res, sx.L(sx.S("nil-without-callback")))
			case errors.Is(err, p2p.ErrClosed):
				res = append(res, sx.L(sx.S("closed")))
			case errors.Is(err, context.Canceled) || errors.Is(err, context.DeadlineExceeded):
				res = append(res, sx.L(sx.S("block")))
			default:
				res = append(res, sx.L(sx.S("other-error")))
			}
		case k < 17: // purge
			ops = append(ops, sx.L(sx.S("p")))
			res = append(res, sx.L(sx.S("n"), sx.I(q.Purge())))
		case k < 18 || (closeHeavy && k < 19): // close
			ops = append(ops, sx.L(sx.S("c")))
			cerr := make(chan error, 1)
			go func() { cerr <- q.Close() }()
			select {
			case err := <-cerr:
				if err != nil {
					res = append(res, sx.L(sx.S("close-error")))
				} else {
					res = append(res, sx.L(sx.S("done")))
				}
			case <-time.After(3 * time.Second):
				// Close collects every buffer: it never returns if one was lost
				res = append(res, sx.L(sx.S("close-stuck")))
				c.emit(sx.L(sx.S("hub"), sx.S("qseq"), sx.I(capN), sx.I(mtu), sx.L(ops...)), sx.L(res...))
				c.count("hub/qseq")
				return
			}
			closed = true
		default:
			ops = append(ops, sx.L(sx.S("l")))
			res = append(res, sx.L(sx.S("n"), sx.I(q.Len())))
		}
	}
	c.emit(sx.L(sx.S("hub"), sx.S("qseq"), sx.I(capN), sx.I(mtu), sx.L(ops...)), sx.L(res...))
	c.count("hub/qseq")
}

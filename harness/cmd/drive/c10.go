package main

import (
	"bytes"
	"context"
	"encoding/binary"
	"fmt"
	"runtime"
	"sort"
	"strings"
	"sync"

	"go.brendoncarroll.net/p2p"
	"go.brendoncarroll.net/p2p/p/mbapp"
	"go.brendoncarroll.net/p2p/s/fragswarm"

	"verifharness/internal/ctrlnet"
	"verifharness/internal/gen"
	"verifharness/internal/sx"
)

func init() { drivers["C10"] = runC10 }

type cAddr = ctrlnet.Addr

// fragLayer abstracts the two fragmenting layers for the drivers
type fragLayerKind struct {
	name    string
	hdr     int
	workers func() int
	wrap    func(nd *ctrlnet.Node, mtu int) p2p.Swarm[cAddr]
}

var fragKinds = []fragLayerKind{
	{"frag", 15, func() int { return runtime.GOMAXPROCS(0) },
		func(nd *ctrlnet.Node, mtu int) p2p.Swarm[cAddr] { return fragswarm.New[cAddr](nd, mtu) }},
	{"mbapp", 24, func() int { return 1 },
		func(nd *ctrlnet.Node, mtu int) p2p.Swarm[cAddr] {
			sw := mbapp.New[cAddr, string](nd, mtu, mbapp.WithNumWorkers(1))
			sw.VerifHoldPartials() // the driver, not the cleanup timer, decides which fragments arrive
			return sw
		}},
}

func patBytes(seed uint64, n int) []byte {
	b := make([]byte, n)
	for i := range b {
		b[i] = byte((seed + uint64(i)*7 + uint64(i)/256) % 256)
	}
	return b
}

func fnv64(p []byte) uint64 {
	h := uint64(14695981039346656037)
	for _, b := range p {
		h = (h ^ uint64(b)) * 1099511628211
	}
	return h
}

type delivered struct {
	src     cAddr
	payload []byte
}

// drain runs a receiver on the upper swarm and records what it is handed
type drain struct {
	mu  sync.Mutex
	got []delivered
}

func startDrain(ctx context.Context, sw p2p.Swarm[cAddr]) *drain {
	d := &drain{}
	go func() {
		for {
			if err := sw.Receive(ctx, func(m p2p.Message[cAddr]) {
				d.mu.Lock()
				d.got = append(d.got, delivered{m.Src, append([]byte{}, m.Payload...)})
				d.mu.Unlock()
			}); err != nil {
				return
			}
		}
	}()
	return d
}
func (d *drain) take() []delivered {
	d.mu.Lock()
	defer d.mu.Unlock()
	out := d.got
	d.got = nil
	return out
}

func addrText(a cAddr) []byte { t, _ := a.MarshalText(); return t }

func runC10(c *ctxT) { runC10n(c, c.scale(160, 3000)) }

func runC10n(c *ctxT, n int) {
	r := c.rng
	for i := 0; i < n; i++ {
		k := fragKinds[i%2]
		inner := gen.Pick(r, []int{k.hdr + 1, k.hdr + 2, k.hdr + 5, 40, 64, 100, 200, 1280})
		if r.Intn(3) == 0 {
			inner = k.hdr + 1 + r.Intn(180)
		}
		c10Case(c, r.Fork(), k, inner)
		if i%6 == 0 {
			fragSlowReceiver(c, r.Fork())
		}
	}
}

func c10Case(c *ctxT, r *gen.R, k fragLayerKind, inner int) {
	ctx, cancel := context.WithCancel(context.Background())
	defer cancel()
	net := ctrlnet.New(inner)
	recvNode := net.NewNode()
	cfgMTU := 1 << 16
	upper := k.wrap(recvNode, cfgMTU)
	dr := startDrain(ctx, upper)
	workers := k.workers()
	recvNode.WaitIdle(workers)

	nSrc := 2 + r.Intn(3)
	var ledger []sx.V
	var pool []ctrlnet.Packet
	msgOf := map[int]int{} // pool index -> message serial
	serial := 0
	part := inner - k.hdr
	var firstNode *ctrlnet.Node
	firstSize := 0
	for s := 0; s < nSrc; s++ {
		sn := net.NewNode()
		su := k.wrap(sn, cfgMTU)
		nMsg := 1 + r.Intn(3)
		for m := 0; m < nMsg; m++ {
			size := gen.Pick(r, []int{0, 1, part - 1, part, part + 1, 2 * part, 2*part + 1, 3*part - 1, 5 * part})
			if r.Intn(3) == 0 {
				size = r.Intn(6*part + 2)
			}
			if r.Intn(4) == 0 && part <= 64 {
				// part counts around the bitmap's byte boundaries
				np := gen.Pick(r, []int{7, 8, 9, 15, 16, 17, 24, 32, 33, 64})
				size = np*part - gen.Pick(r, []int{0, 0, 1, part - 1})
			}
			if size > 254*part {
				size = 254 * part
			}
			oversize := false
			if part <= 8 && r.Intn(6) == 0 {
				// more fragments than the header can count: the sender must refuse, never wrap the count
				maxParts := 255
				if k.name == "mbapp" {
					maxParts = 65535
				}
				if (maxParts+3)*part <= 3000 {
					size = (maxParts+1)*part + r.Intn(2*part)
					oversize = true
				}
			}
			payload := patBytes(uint64(serial)*37+1, size)
			if size >= 2 {
				payload[0], payload[1] = byte(serial), byte(serial>>8) // unique content
			}
			if err := su.Tell(ctx, recvNode.LocalAddr(), p2p.IOVec{payload}); err != nil {
				if oversize && p2p.IsErrMTUExceeded(err) {
					net.Take()
					continue // refused, as it must be: nothing was sent
				}
				panic(err)
			}
			if oversize {
				// accepted although it needs more fragments than the header can count: whatever the receiver
				// makes of these fragments, it was not told (the ledger does not list it)
				for _, p := range net.Take() {
					msgOf[len(pool)] = serial
					pool = append(pool, p)
				}
				serial++
				continue
			}
			if s == 0 && m == 0 {
				firstNode, firstSize = sn, size
			}
			ledger = append(ledger, sx.L(sx.B(addrText(sn.LocalAddr())), sx.B(payload)))
			for _, p := range net.Take() {
				msgOf[len(pool)] = serial
				pool = append(pool, p)
			}
			serial++
		}
	}
	// adversarial schedule over genuine fragments: any order, duplicates, omissions
	order := make([]int, 0, 2*len(pool))
	idx := r.Intn(2) == 0
	for i := range pool {
		order = append(order, i)
	}
	for i := len(order) - 1; i > 0; i-- {
		if idx || r.Intn(3) > 0 { // full shuffle or mostly-interleaved
			j := r.Intn(i + 1)
			order[i], order[j] = order[j], order[i]
		}
	}
	var sched []int
	dropped, dups := 0, 0
	firstLost := false // a fragment of the very first message is lost: its partial state stays behind
	for _, i := range order {
		switch r.Intn(12) {
		case 0:
			dropped++
			if msgOf[i] == 0 {
				firstLost = true
			}
			continue // lost
		case 1, 2:
			sched = append(sched, i)
			dups++
			if r.Bool() {
				sched = append(sched, i)
			}
		}
		sched = append(sched, i)
	}
	// late duplicates of already-delivered fragments
	for j := 0; j < r.Intn(4) && len(pool) > 0; j++ {
		sched = append(sched, r.Intn(len(pool)))
		dups++
	}
	firstOnce := !firstLost // every fragment of the first message is delivered exactly once
	occ := map[int]int{}
	for _, i := range sched {
		occ[i]++
	}
	for i := range pool {
		if msgOf[i] == 0 && occ[i] != 1 {
			firstOnce = false
		}
	}
	if k.name == "frag" && firstNode != nil && firstSize > part && firstOnce && r.Intn(2) == 0 {
		// the first source restarts: a new layer on the same address numbers its messages from the start again.
		// (Only when every fragment of its first message arrived exactly once: fragswarm tells messages apart by
		// source and id alone, so a restarted sender's fragments DO mix with whatever a lost or duplicated fragment
		// of an old message with that id left behind, until the cleanup a minute later; sender restarts are outside
		// what C10 quantifies over.)
		su2 := k.wrap(firstNode, cfgMTU)
		payload := patBytes(uint64(serial)*37+11, firstSize)
		payload[0], payload[1] = byte(serial), 0xEE
		if err := su2.Tell(ctx, recvNode.LocalAddr(), p2p.IOVec{payload}); err != nil {
			panic(err)
		}
		ledger = append(ledger, sx.L(sx.B(addrText(firstNode.LocalAddr())), sx.B(payload)))
		for _, p := range net.Take() {
			sched = append(sched, len(pool))
			pool = append(pool, p)
		}
		serial++
	}
	var pkts, obs []sx.V
	for _, i := range sched {
		p := pool[i]
		net.DeliverSync(p, workers)
		pkts = append(pkts, sx.L(sx.B(addrText(p.Src)), sx.B(p.Data)))
		got := dr.take()
		switch len(got) {
		case 0:
			obs = append(obs, sx.None())
		case 1:
			obs = append(obs, sx.L(sx.B(addrText(got[0].src)), sx.B(got[0].payload)))
		default:
			obs = append(obs, sx.S("multiple-deliveries-for-one-fragment"))
		}
	}
	cs := sx.L(sx.S("recv"), sx.S(k.name), sx.I(cfgMTU), sx.L(ledger...), sx.L(pkts...))
	c.emitNT(cs, sx.L(obs...), serial >= 2 || dups > 0 || dropped > 0)
	c.count(fmt.Sprintf("%s/inner%d/msgs%d/dups%v/drops%v", k.name, inner/50*50, serial/3*3, dups > 0, dropped > 0))
	upper.Close()
}

// fragTellCase: sender half (used by C09): Tell one payload through a real
// fragmenting layer, capture the fragments, deliver them in order to a real
// receiving layer and compare what comes out.
func fragTellCase(c *ctxT, k fragLayerKind, inner, cfg int, seed uint64, size int) {
	ctx, cancel := context.WithCancel(context.Background())
	defer cancel()
	net := ctrlnet.New(inner)
	rn, sn := net.NewNode(), net.NewNode()
	ru := k.wrap(rn, cfg)
	su := k.wrap(sn, cfg)
	dr := startDrain(ctx, ru)
	workers := k.workers()
	payload := patBytes(seed, size)
	plSx := sx.L(sx.S("pat"), sx.N(seed), sx.I(size))
	reported := su.MTU()
	var obs sx.V
	ident := sx.N(0)
	func() {
		defer func() {
			if e := recover(); e != nil {
				obs = sx.S("panic")
			}
		}()
		err := su.Tell(ctx, rn.LocalAddr(), p2p.IOVec{payload})
		pkts := net.Take()
		if err != nil {
			if !p2p.IsErrMTUExceeded(err) {
				obs = sx.L(sxZ(int64(reported)), sx.S("other-error"))
				return
			}
			if len(pkts) != 0 {
				obs = sx.L(sxZ(int64(reported)), sx.S("err-but-emitted"))
				return
			}
			obs = sx.L(sxZ(int64(reported)), sx.S("err"))
			return
		}
		if len(pkts) > 0 && k.name == "mbapp" {
			h := pkts[0].Data
			ident = sx.L(sx.N(uint64(binary.BigEndian.Uint32(h[4:8]))), sx.N(uint64(binary.BigEndian.Uint32(h[8:12]))),
				sx.N(uint64(binary.BigEndian.Uint32(h[20:24]))))
		}
		var dg uint64
		maxLen := 0
		for _, p := range pkts {
			if len(pkts) <= 2000 { // beyond that only count and sizes are compared
				dg += fnv64(p.Data)
			}
			if len(p.Data) > maxLen {
				maxLen = len(p.Data)
			}
		}
		// deliver in order through the real receiver
		rn.WaitIdle(workers)
		for _, p := range pkts {
			net.Deliver(p)
		}
		rn.WaitIdle(workers)
		got := dr.take()
		intact := len(got) == 1 && bytes.Equal(got[0].payload, payload) && got[0].src == sn.LocalAddr()
		list := sx.S("big")
		if len(pkts) <= 32 {
			sort.Slice(pkts, func(i, j int) bool { return bytes.Compare(pkts[i].Data, pkts[j].Data) < 0 })
			items := make([]sx.V, len(pkts))
			for i, p := range pkts {
				items[i] = sx.B(p.Data)
			}
			list = sx.L(items...)
		}
		obs = sx.L(sxZ(int64(reported)), sx.S("ok"), sx.I(len(pkts)), sx.N(dg), sx.I(maxLen), sx.Bool(intact), list)
	}()
	if k.name == "mbapp" && string(ident) == "0" {
		ident = sx.L(sx.N(0), sx.N(0), sx.N(0))
	}
	c.emit(sx.L(sx.S("tell"), sx.S(k.name), sxZ(int64(inner)), sxZ(int64(cfg)), ident, plSx), obs)
	cls := "panic"
	if f := strings.Fields(string(obs)); len(f) >= 2 {
		cls = strings.Trim(f[1], "()")
	}
	c.count(fmt.Sprintf("tell/%s/%s", k.name, cls))
	ru.Close()
	su.Close()
}

package main

import (
	"bytes"
	"context"
	"fmt"
	"sort"
	"sync"
	"time"

	"go.brendoncarroll.net/p2p"

	"verifharness/internal/gen"
	"verifharness/internal/sx"
)

func init() { drivers["C01"] = runC01 }

func genStack01(r *gen.R) stackSpec {
	spec := stackSpec{Base: gen.Pick(r, []int{64, 100, 200, 576, 1280, 4096})}
	layer := func() layerSpec {
		l := genLayer(r, true)
		if l.Kind == "frag" || l.Kind == "mbapp" {
			l.Arg = gen.Pick(r, []int64{3000, 20000, 1 << 16})
		}
		return l
	}
	for i := r.Intn(3); i > 0; i-- {
		spec.Lower = append(spec.Lower, layer())
	}
	spec.Ke = r.Intn(4) == 0
	if spec.Ke {
		for i := r.Intn(3); i > 0; i-- {
			spec.Upper = append(spec.Upper, layer())
		}
	}
	if r.Intn(6) == 0 {
		spec.Multi = gen.Pick(r, []int{700, 1280, 4096})
	}
	return spec
}

// c01Case: 2-4 senders Tell 1-4 messages each, concurrently, to one receiver
// through identical real stacks; every send buffer is overwritten as soon as
// Tell returns.
func c01Case(c *ctxT, r *gen.R, spec stackSpec) {
	nSend := 2 + r.Intn(3)
	w := newStackWorld(spec, 1+nSend)
	defer w.close()
	rcv := w.ends[0]
	mtu := rcv.mtu()
	if mtu < 1 {
		c.count("c01/no-room")
		return
	}
	// warm-up (P2PKE handshakes), one sender at a time
	for _, s := range w.ends[1:] {
		ctx, cf := context.WithTimeout(w.ctx, 5*time.Second)
		err := s.tellTo(ctx, rcv, p2p.IOVec{[]byte{0xEE}})
		cf()
		if err != nil {
			c.count("c01/warmup-failed")
			return
		}
	}
	w.settle(rcv.has(nSend))
	w.net.Take()
	for _, e := range w.ends {
		e.take()
	}

	type told struct {
		src     string
		payload []byte
	}
	var mu sync.Mutex
	var ledger []told
	var wg sync.WaitGroup
	maxSize := mtu
	if maxSize > 2500 {
		maxSize = 2500
	}
	panicked := false
	total := 0
	for si, s := range w.ends[1:] {
		rr := r.Fork()
		nMsg := 1 + rr.Intn(4)
		total += nMsg
		wg.Add(1)
		go func(si int, s *stackEnd) {
			defer wg.Done()
			defer func() {
				if e := recover(); e != nil {
					panicked = true
				}
			}()
			for m := 0; m < nMsg; m++ {
				size := gen.Pick(rr, []int{0, 1, 2, 17, maxSize, maxSize - 1, maxSize / 2})
				if rr.Intn(2) == 0 {
					size = rr.Intn(maxSize + 1)
				}
				buf := make([]byte, size)
				for i := range buf {
					buf[i] = byte(rr.Intn(256))
				}
				if size >= 2 { // distinct content per message
					buf[0], buf[1] = byte(si), byte(m)
				}
				keep := append([]byte{}, buf...)
				// split the vector in two to exercise IOVec handling
				cut := 0
				if size > 0 {
					cut = rr.Intn(size + 1)
				}
				ctx, cf := context.WithTimeout(w.ctx, 10*time.Second)
				err := s.tellTo(ctx, rcv, p2p.IOVec{buf[:cut], buf[cut:]})
				cf()
				for i := range buf { // the caller reuses its buffer immediately
					buf[i] = 0xFF
				}
				if err == nil {
					mu.Lock()
					ledger = append(ledger, told{s.addrTxt, keep})
					mu.Unlock()
				}
			}
		}(si, s)
	}
	wg.Wait()
	nonEmpty := 0
	for _, t := range ledger {
		if len(t.payload) > 0 {
			nonEmpty++
		}
	}
	w.settle(rcv.has(nonEmpty))

	var obs sx.V
	stray := 0
	for _, e := range w.ends[1:] {
		stray += len(e.take())
	}
	got := rcv.take()
	sort.Slice(got, func(i, j int) bool {
		if got[i].src != got[j].src {
			return got[i].src < got[j].src
		}
		return bytes.Compare(got[i].payload, got[j].payload) < 0
	})
	ds := make([]sx.V, len(got))
	for i, g := range got {
		ds[i] = sx.L(sx.B([]byte(g.src)), sx.B([]byte(g.dst)), sx.B(g.payload))
	}
	obs = sx.L(sx.I(stray), sx.L(ds...))
	if panicked {
		obs = sx.S("panic")
	}
	ls := make([]sx.V, len(ledger))
	for i, t := range ledger {
		ls[i] = sx.L(sx.B([]byte(t.src)), sx.B(t.payload))
	}
	wires := sx.S("opaque")
	if !spec.Ke && spec.Multi == 0 {
		var ws []sx.V
		for _, p := range w.net.Take() {
			if p.Dst == rcv.bottom.LocalAddr() {
				ws = append(ws, sx.L(sx.B(addrText(p.Src)), sx.B(p.Data)))
			}
		}
		wires = sx.L(ws...)
	}
	c.emit(sx.L(sx.S("c01"), spec.sx(spec.otherMTU()), sx.B([]byte(rcv.addrTxt)), sx.L(ls...), wires), obs)
	c.count(fmt.Sprintf("c01/depth%d/ke%v/multi%v/senders%d/msgs%d", len(spec.Lower)+len(spec.Upper), spec.Ke, spec.Multi > 0, nSend, total/4*4))
}

func runC01(c *ctxT) {
	// reassembly under adversarial schedules of genuine fragments, incl. a sender that restarts (C10's cases): no mixtures
	runC10n(c, c.scale(60, 800))
	for i := 0; i < c.scale(6, 40); i++ {
		udpConcurrent(c, i)
	}
	for i := 0; i < c.scale(4, 24); i++ {
		quicDeadlineTells(c, i)
	}
	r := c.rng
	n := c.scale(160, 3000)
	for i := 0; i < n; i++ {
		rr := r.Fork()
		spec := genStack01(rr)
		if spec.Ke {
			probe := newStackWorld(stackSpec{Base: spec.Base, Lower: spec.Lower}, 1)
			room := probe.ends[0].mtu()
			probe.close()
			if room < 600 {
				spec.Ke, spec.Upper = false, nil
			}
		}
		c01Case(c, rr, spec)
	}
}

package main

import (
	"bytes"
	"context"
	"time"
	"unsafe"

	"go.brendoncarroll.net/p2p"
	"go.brendoncarroll.net/p2p/s/swarmutil"

	"verifharness/internal/gen"
	"verifharness/internal/sx"
)

// queueBuf: buffer ownership in swarmutil.Queue.  A single-threaded history in
// which some Receive callbacks call Deliver on the same queue before they return
// (the concurrency that matters for ownership, made deterministic): the buffer a
// callback was given must not be the one that Deliver writes into.
// case = (qbuf <cap> <mtu> (<op> ...)), see coq/Run/RunQueueBuf.v
func queueBuf(c *ctxT, r *gen.R) {
	capN := 1 + r.Intn(3)
	mtu := 1 + r.Intn(8)
	q := swarmutil.NewQueue[hAddr](capN, mtu)
	bufID := map[*byte]int{}
	idOf := func(p []byte) int {
		k := unsafe.SliceData(p)
		if id, ok := bufID[k]; ok {
			return id
		}
		bufID[k] = len(bufID)
		return len(bufID) - 1
	}
	mkMsg := func() (int, int, []byte) {
		n := r.Intn(mtu + 2)
		if r.Intn(4) != 0 && n > mtu {
			n = mtu
		}
		p := make([]byte, n)
		for j := range p {
			p[j] = byte(r.Intn(256))
		}
		return r.Intn(5), r.Intn(5), p
	}
	var ops, res []sx.V
	closed := false
	nOps := 6 + r.Intn(30)
	for i := 0; i < nOps; i++ {
		k := r.Intn(20)
		switch {
		case k < 8:
			s, d, p := mkMsg()
			ops = append(ops, sx.L(sx.S("d"), sx.I(s), sx.I(d), sx.B(p)))
			if q.Deliver(p2p.Message[hAddr]{Src: hAddr{N: s}, Dst: hAddr{N: d}, Payload: p}) {
				res = append(res, sx.L(sx.S("acc")))
			} else {
				res = append(res, sx.L(sx.S("ref")))
			}
		case k < 18:
			inner := k >= 12
			var is, id int
			var ip []byte
			if inner {
				is, id, ip = mkMsg()
				ops = append(ops, sx.L(sx.S("rd"), sx.I(is), sx.I(id), sx.B(ip)))
			} else {
				ops = append(ops, sx.L(sx.S("r")))
			}
			ctx, cancel := context.WithTimeout(context.Background(), 2*time.Second)
			if q.Len() == 0 && !closed {
				cancel()
			}
			var got *sx.V
			err := q.Receive(ctx, func(m p2p.Message[hAddr]) {
				before := append([]byte{}, m.Payload...)
				bs, bd := m.Src.N, m.Dst.N
				items := []sx.V{sx.S("got"), sx.I(bs), sx.I(bd), sx.B(before), sx.I(idOf(m.Payload))}
				if inner {
					if q.Deliver(p2p.Message[hAddr]{Src: hAddr{N: is}, Dst: hAddr{N: id}, Payload: ip}) {
						items = append(items, sx.S("acc"))
					} else {
						items = append(items, sx.S("ref"))
					}
					if m.Src.N == bs && m.Dst.N == bd && bytes.Equal(m.Payload, before) {
						items = append(items, sx.S("same"))
					} else {
						items = append(items, sx.S("changed"))
					}
				}
				v := sx.L(items...)
				got = &v
			})
			cancel()
			if err == nil && got != nil {
				res = append(res, *got)
			} else {
				res = append(res, sx.L(sx.S("none")))
			}
		case k < 19:
			ops = append(ops, sx.L(sx.S("p")))
			q.Purge()
			res = append(res, sx.L(sx.S("done")))
		default:
			ops = append(ops, sx.L(sx.S("c")))
			q.Close()
			closed = true
			res = append(res, sx.L(sx.S("done")))
		}
	}
	c.emit(sx.L(sx.S("qbuf"), sx.I(capN), sx.I(mtu), sx.L(ops...)), sx.L(res...))
	c.count("own/qbuf")
}

package main

import (
	"bytes"
	"encoding/binary"
	"time"

	"go.brendoncarroll.net/p2p/f/x509"
	"go.brendoncarroll.net/p2p/p/p2pke"
	"go.uber.org/zap"

	"crypto/ed25519"

	"verifharness/internal/gen"
	"verifharness/internal/sx"
)

func init() { drivers["C06"] = runC06 }

var nopLogger = zap.NewNop()

func testKey(i int) x509.PrivateKey {
	seed := make([]byte, 32)
	binary.BigEndian.PutUint64(seed[24:], uint64(i))
	algo, signer := x509.SignerFromStandard(ed25519.NewKeyFromSeed(seed))
	priv, err := x509.DefaultRegistry().StoreSigner(algo, signer)
	if err != nil {
		panic(err)
	}
	return priv
}

func newSession(isInit bool, key int, now time.Time) *p2pke.Session {
	return p2pke.NewSession(p2pke.SessionConfig{
		IsInit: isInit, Registry: x509.DefaultRegistry(), PrivateKey: testKey(key),
		Now: now, Logger: nopLogger, RejectAfter: p2pke.RejectAfterTime,
	})
}

var kindNames = []string{"ih", "rh", "id", "rd"}

func msgKind(b []byte) (string, uint32) {
	n := binary.BigEndian.Uint32(b[:4])
	if n < 4 {
		return kindNames[n], n
	}
	return "data", n
}

func msgSx(kind string, c uint32) sx.V {
	if kind == "data" {
		return sx.L(sx.S("data"), sx.N(uint64(c)))
	}
	return sx.S(kind)
}

// one session pair driven by a schedule over its own genuine messages
type hsPair struct {
	i, r   *p2pke.Session
	now    time.Time
	fromI  map[string][]byte // kind or "data<c>" -> bytes
	fromR  map[string][]byte
	dataI  []uint32
	dataR  []uint32
	obs    []sx.V
	acts   []sx.V
	broken bool
}

func newHsPair() *hsPair {
	now := time.Now()
	p := &hsPair{i: newSession(true, 1, now), r: newSession(false, 2, now), now: now, fromI: map[string][]byte{}, fromR: map[string][]byte{}}
	p.collect()
	return p
}

// collect records each side's current handshake message (and checks idempotence)
func (p *hsPair) collect() {
	for side, s := range []*p2pke.Session{p.i, p.r} {
		a := s.Handshake(nil)
		b := s.Handshake(nil)
		if !bytes.Equal(a, b) {
			p.broken = true
		}
		if len(a) == 0 {
			continue
		}
		kind, _ := msgKind(a)
		m := p.fromI
		if side == 1 {
			m = p.fromR
		}
		if old, ok := m[kind]; ok && !bytes.Equal(old, a) {
			p.broken = true // the cached message changed
		}
		m[kind] = a
	}
}

func key(kind string, c uint32) string {
	if kind == "data" {
		return "data" + string(rune(c))
	}
	return kind
}

func (p *hsPair) state(outcome sx.V) {
	if p.broken {
		p.obs = append(p.obs, sx.S("handshake-not-idempotent"))
		p.broken = false
	}
	p.obs = append(p.obs, sx.L(sx.I(int(p.i.VerifHsIndex())), sx.Bool(p.i.IsReady()), sx.I(int(p.r.VerifHsIndex())), sx.Bool(p.r.IsReady()), outcome))
}

func (p *hsPair) deliver(to *p2pke.Session, replies map[string][]byte, msg []byte) (out sx.V) {
	defer func() {
		if e := recover(); e != nil {
			out = sx.S("panic")
		}
	}()
	isApp, reply, err := to.Deliver(nil, append([]byte{}, msg...), p.now)
	switch {
	case err != nil:
		return sx.S("err")
	case isApp:
		return sx.S("app")
	case reply == nil:
		k, _ := msgKind(msg)
		if k == "data" {
			return sx.S("drop")
		}
		return sx.L(sx.S("reply"), sx.S("none"))
	default:
		k, _ := msgKind(reply)
		replies[k] = reply
		return sx.L(sx.S("reply"), sx.S(k))
	}
}

func (p *hsPair) act(tag, kind string, c uint32) {
	var out sx.V
	switch tag {
	case "tor", "refi":
		msg, ok := p.fromI[key(kind, c)]
		if !ok {
			out = sx.S("noop")
		} else if tag == "tor" {
			out = p.deliver(p.r, p.fromR, msg)
		} else {
			out = p.deliver(p.i, p.fromI, msg)
		}
	case "toi", "refr":
		msg, ok := p.fromR[key(kind, c)]
		if !ok {
			out = sx.S("noop")
		} else if tag == "toi" {
			out = p.deliver(p.i, p.fromI, msg)
		} else {
			out = p.deliver(p.r, p.fromR, msg)
		}
	}
	p.acts = append(p.acts, sx.L(sx.S(tag), msgSx(kind, c)))
	p.collect()
	p.state(out)
}

func (p *hsPair) send(fromI bool) {
	s, m, tag := p.i, p.fromI, "sendi"
	if !fromI {
		s, m, tag = p.r, p.fromR, "sendr"
	}
	out := sx.S("nosend")
	ct, err := s.Send(nil, []byte("payload"), p.now)
	if err == nil {
		_, c := msgKind(ct)
		m[key("data", c)] = ct
		if fromI {
			p.dataI = append(p.dataI, c)
		} else {
			p.dataR = append(p.dataR, c)
		}
		out = sx.L(sx.S("sent"), sx.N(uint64(c)))
	}
	p.acts = append(p.acts, sx.S(tag))
	p.collect()
	p.state(out)
}

func (p *hsPair) final() {
	// fair suffix: each side's current handshake message once more, twice round
	for round := 0; round < 2; round++ {
		if m := p.i.Handshake(nil); len(m) > 0 {
			p.deliver(p.r, p.fromR, m)
		}
		if m := p.r.Handshake(nil); len(m) > 0 {
			p.deliver(p.i, p.fromI, m)
		}
	}
	flow := func(a, b *p2pke.Session) bool {
		ct, err := a.Send(nil, []byte("after"), p.now)
		if err != nil {
			return false
		}
		isApp, pt, err := b.Deliver(nil, ct, p.now)
		return err == nil && isApp && string(pt) == "after"
	}
	ir := flow(p.i, p.r)
	ri := flow(p.r, p.i)
	p.obs = append(p.obs, sx.L(sx.S("final"), sx.Bool(p.i.IsReady()), sx.Bool(p.r.IsReady()), sx.Bool(ir), sx.Bool(ri)))
}

func runC06(c *ctxT) {
	r := c.rng
	n := c.scale(400, 20000)
	for i := 0; i < n; i++ {
		p := newHsPair()
		length := r.Intn(41)
		canonical := true
		for j := 0; j < length; j++ {
			switch r.Intn(12) {
			case 0, 1, 2, 3, 4: // deliver some handshake message (existing or not yet)
				k := r.Intn(4)
				tag := "tor"
				if k%2 == 1 {
					tag = "toi"
				}
				if r.Intn(8) == 0 { // wrong direction: reflect
					tag = map[string]string{"tor": "refi", "toi": "refr"}[tag]
				}
				p.act(tag, kindNames[k], 0)
			case 5, 6:
				p.send(r.Bool())
			case 7, 8, 9: // deliver (or replay) some data message
				if r.Bool() && len(p.dataI) > 0 {
					p.act(gen.Pick(r, []string{"tor", "tor", "tor", "refi"}), "data", gen.Pick(r, p.dataI))
				} else if len(p.dataR) > 0 {
					p.act(gen.Pick(r, []string{"toi", "toi", "toi", "refr"}), "data", gen.Pick(r, p.dataR))
				}
			default: // the canonical next step
				if m := p.i.Handshake(nil); len(m) > 0 && r.Bool() {
					k, _ := msgKind(m)
					p.act("tor", k, 0)
				} else if m := p.r.Handshake(nil); len(m) > 0 {
					k, _ := msgKind(m)
					p.act("toi", k, 0)
				}
				continue
			}
			canonical = false
		}
		p.final()
		c.emitNT(sx.L(sx.S("hs"), sx.L(p.acts...)), sx.L(p.obs...), !canonical)
		c.count("len" + string(rune('0'+length/10)) + "0s")
	}
}

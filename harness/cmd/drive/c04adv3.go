package main

import (
	"context"
	"encoding/binary"
	"fmt"
	"runtime"
	"sync"
	"time"

	"go.brendoncarroll.net/p2p"
	"go.brendoncarroll.net/p2p/f/x509"
	"go.brendoncarroll.net/p2p/s/p2pkeswarm"

	"verifharness/internal/ctrlnet"
	"verifharness/internal/sx"
)

// keOvertake: node 1 greets node 0; the RespDone of node 0 is lost and node 0's
// first application message reaches node 1 before it (data overtaking the final
// handshake message).  What node 1 hands up must carry node 0's identity and key.
// The transport is driven by hand.  Record: from = 0, identity = location = 1.
func keOvertake(c *ctxT, rep int) {
	type kAddr = p2pkeswarm.Addr[ctrlnet.Addr]
	net := ctrlnet.New(1 << 16)
	n0, n1 := net.NewNode(), net.NewNode()
	keys := []x509.PrivateKey{testKey(750), testKey(751)}
	var ids []p2p.PeerID
	var pubData [][]byte
	for i := range keys {
		pub, _ := x509.DefaultRegistry().PublicFromPrivate(&keys[i])
		ids = append(ids, p2pkeswarm.DefaultFingerprinter(&pub))
		pubData = append(pubData, pub.Data)
	}
	s0 := p2pkeswarm.New[ctrlnet.Addr](n0, keys[0])
	s1 := p2pkeswarm.New[ctrlnet.Addr](n1, keys[1])
	defer s0.Close()
	defer s1.Close()
	var mu sync.Mutex
	var ds []sx.V
	go func() {
		for {
			if err := s1.Receive(context.Background(), func(m p2p.Message[kAddr]) {
				src, key := -1, -1
				for j, id := range ids {
					if id == m.Src.ID {
						src = j
					}
				}
				lctx, cf := context.WithTimeout(context.Background(), time.Second)
				if k, err := s1.LookupPublicKey(lctx, m.Src); err == nil {
					for j, d := range pubData {
						if string(d) == string(k.Data) {
							key = j
						}
					}
				}
				cf()
				mu.Lock()
				ds = append(ds, sx.L(sx.I(1), sxZ(int64(src)), sxZ(int64(key))))
				mu.Unlock()
			}); err != nil {
				return
			}
		}
	}()
	go func() { // node 0 discards what it is told
		for {
			if err := s0.Receive(context.Background(), func(p2p.Message[kAddr]) {}); err != nil {
				return
			}
		}
	}()
	net.Auto = false
	workers := 1 + runtime.GOMAXPROCS(0)
	kind := func(p ctrlnet.Packet) uint32 {
		if len(p.Data) < 4 {
			return 99
		}
		return binary.BigEndian.Uint32(p.Data[:4])
	}
	// deliver everything captured so far except node 0's RespDone (header counter 3)
	pump := func() {
		for round := 0; round < 6; round++ {
			pk := net.Take()
			if len(pk) == 0 {
				time.Sleep(2 * time.Millisecond)
				pk = net.Take()
			}
			for _, p := range pk {
				if p.Src == n0.LocalAddr() && kind(p) == 3 {
					continue // lost
				}
				net.DeliverSync(p, workers)
			}
		}
	}
	gctx, gcf := context.WithTimeout(context.Background(), 300*time.Millisecond)
	go s1.Tell(gctx, kAddr{ID: ids[0], Addr: n0.LocalAddr()}, p2p.IOVec{[]byte("greeting")})
	time.Sleep(3 * time.Millisecond)
	pump()
	res := "ok"
	tctx, tcf := context.WithTimeout(context.Background(), 300*time.Millisecond)
	if err := s0.Tell(tctx, kAddr{ID: ids[1], Addr: n1.LocalAddr()}, p2p.IOVec{[]byte(fmt.Sprintf("overtaking-%d", rep))}); err != nil {
		res = "error"
	}
	tcf()
	pump()
	gcf()
	time.Sleep(10 * time.Millisecond)
	mu.Lock()
	out := append([]sx.V{}, ds...)
	mu.Unlock()
	c.emit(sx.L(sx.S("sec"), sx.S("ke-data-overtakes-respdone"), c04AllAllowed, sx.I(c.n)), sx.L(sx.L(sx.I(0), sx.I(1), sx.I(1), sx.S(res), sx.L(out...))))
	c.count("c04/ke-data-overtakes-respdone")
}

package main

import (
	"context"
	"fmt"
	"runtime"
	"sync"
	"time"

	"go.brendoncarroll.net/p2p"
	"go.brendoncarroll.net/p2p/f/x509"
	"go.brendoncarroll.net/p2p/p/mbapp"
	"go.brendoncarroll.net/p2p/p/p2pmux"
	"go.brendoncarroll.net/p2p/s/fragswarm"
	"go.brendoncarroll.net/p2p/s/multiswarm"
	"go.brendoncarroll.net/p2p/s/p2pkeswarm"
	"go.brendoncarroll.net/p2p/s/wlswarm"

	"verifharness/internal/ctrlnet"
	"verifharness/internal/gen"
	"verifharness/internal/sx"
)

// A stack of real swarm layers over the controllable transport, built
// identically on every participating node.  Layers that keep the address type
// are listed in lower/upper; a P2PKE swarm may sit between them and a
// multiswarm (with a second transport of another MTU) on top.
type layerSpec struct {
	Kind string // smux u16 u32 u64 vmux frag mbapp wl
	Arg  int64
	Name string
}

type stackSpec struct {
	Base  int
	Lower []layerSpec
	Ke    bool
	Upper []layerSpec
	Multi int // 0: none; otherwise base MTU of the second transport
}

func (l layerSpec) sx() sx.V {
	switch l.Kind {
	case "smux":
		return sx.L(sx.S("mux"), sx.S("string"), sx.B([]byte(l.Name)))
	case "u16", "u32", "u64":
		return sx.L(sx.S("mux"), sx.S(l.Kind), sx.N(uint64(l.Arg)))
	case "vmux":
		return sx.L(sx.S("mux"), sx.S("varint"), sx.N(uint64(l.Arg)))
	case "frag":
		return sx.L(sx.S("frag"), sxZ(l.Arg))
	case "mbapp":
		return sx.L(sx.S("mbapp"), sxZ(l.Arg))
	case "wl":
		return sx.L(sx.S("id"))
	}
	panic(l.Kind)
}

func wrapLayer[A p2p.Addr, Pub any](x p2p.SecureSwarm[A, Pub], l layerSpec, closers *[]func()) p2p.SecureSwarm[A, Pub] {
	var y p2p.SecureSwarm[A, Pub]
	switch l.Kind {
	case "smux":
		y = p2pmux.NewStringSecureMux[A, Pub](x).Open(l.Name)
	case "u16":
		y = p2pmux.NewUint16SecureMux[A, Pub](x).Open(uint16(l.Arg))
	case "u32":
		y = p2pmux.NewUint32SecureMux[A, Pub](x).Open(uint32(l.Arg))
	case "u64":
		y = p2pmux.NewUint64SecureMux[A, Pub](x).Open(uint64(l.Arg))
	case "vmux":
		y = p2pmux.NewVarintSecureMux[A, Pub](x).Open(uint64(l.Arg))
	case "frag":
		y = fragswarm.NewSecure[A, Pub](x, int(l.Arg))
	case "mbapp":
		mb := mbapp.New[A, Pub](x, int(l.Arg), mbapp.WithNumWorkers(1))
		mb.VerifHoldPartials()
		y = mb
	case "wl":
		y = wlswarm.WrapSecure[A, Pub](x, func(A) bool { return true })
	default:
		panic(l.Kind)
	}
	*closers = append(*closers, func() { y.Close() })
	return y
}

type stackMsg struct {
	src, dst string
	payload  []byte
}

// one node's top of stack, with the address type erased
type stackEnd struct {
	tellTo  func(ctx context.Context, peer *stackEnd, v p2p.IOVec) error
	mtu     func() int
	addr    any // the top-level address peers use to reach this end (transport "a")
	addrTxt string
	bottom  *ctrlnet.Node
	closers []func()

	mu  sync.Mutex
	got []stackMsg
}

func (e *stackEnd) take() []stackMsg {
	e.mu.Lock()
	defer e.mu.Unlock()
	out := e.got
	e.got = nil
	return out
}

func (e *stackEnd) close() {
	for i := len(e.closers) - 1; i >= 0; i-- {
		e.closers[i]()
	}
}

func textOf(a any) string {
	if m, ok := a.(interface{ MarshalText() ([]byte, error) }); ok {
		t, _ := m.MarshalText()
		return string(t)
	}
	return fmt.Sprint(a)
}

func finishEnd[A p2p.Addr](ctx context.Context, e *stackEnd, sw p2p.Swarm[A], pick func([]A) A) {
	e.mtu = sw.MTU
	a := pick(sw.LocalAddrs())
	e.addr = a
	e.addrTxt = textOf(a)
	e.tellTo = func(ctx context.Context, peer *stackEnd, v p2p.IOVec) error {
		return sw.Tell(ctx, peer.addr.(A), v)
	}
	go func() {
		for {
			if err := sw.Receive(ctx, func(m p2p.Message[A]) {
				if slowCallbacks { // the message belongs to this callback until it returns
					h0 := fnv64(m.Payload)
					for k := 0; k < 3; k++ {
						runtime.Gosched()
						time.Sleep(20 * time.Microsecond)
						if fnv64(m.Payload) != h0 {
							payloadChanged.Add(1)
							break
						}
					}
				}
				e.mu.Lock()
				e.got = append(e.got, stackMsg{textOf(m.Src), textOf(m.Dst), append([]byte{}, m.Payload...)})
				e.mu.Unlock()
			}); err != nil {
				return
			}
		}
	}()
}

type stackWorld struct {
	spec   stackSpec
	net    *ctrlnet.Net
	net2   *ctrlnet.Net
	ends   []*stackEnd
	cancel context.CancelFunc
	ctx    context.Context
}

func firstAddr[A any](as []A) A { return as[0] }

func newStackWorld(spec stackSpec, nNodes int) *stackWorld {
	ctx, cancel := context.WithCancel(context.Background())
	w := &stackWorld{spec: spec, net: ctrlnet.New(spec.Base), cancel: cancel, ctx: ctx}
	w.net.Auto = true
	if spec.Multi > 0 {
		w.net2 = ctrlnet.New(spec.Multi)
		w.net2.Auto = true
	}
	for i := 0; i < nNodes; i++ {
		w.ends = append(w.ends, w.buildEnd(i))
	}
	return w
}

func (w *stackWorld) buildEnd(i int) *stackEnd {
	spec := w.spec
	e := &stackEnd{}
	nd := w.net.NewNode()
	e.bottom = nd
	e.closers = append(e.closers, func() { nd.Close() })
	var s0 p2p.SecureSwarm[cAddr, string] = nd
	for _, l := range spec.Lower {
		s0 = wrapLayer(s0, l, &e.closers)
	}
	pickA := func(as []multiswarm.Addr) multiswarm.Addr {
		for _, a := range as {
			if a.Scheme == "a" {
				return a
			}
		}
		panic("no transport a")
	}
	if !spec.Ke {
		if spec.Multi > 0 {
			n2 := w.net2.NewNode()
			e.closers = append(e.closers, func() { n2.Close() })
			ms := multiswarm.NewSecure[string](map[string]multiswarm.DynSecureSwarm[string]{
				"a": multiswarm.WrapSecureSwarm[cAddr, string](s0),
				"b": multiswarm.WrapSecureSwarm[cAddr, string](n2),
			})
			e.closers = append(e.closers, func() { ms.Close() })
			finishEnd[multiswarm.Addr](w.ctx, e, ms, pickA)
			return e
		}
		finishEnd[cAddr](w.ctx, e, s0, firstAddr[cAddr])
		return e
	}
	type kAddr = p2pkeswarm.Addr[cAddr]
	ks := p2pkeswarm.New[cAddr](s0, testKey(100+i), p2pkeswarm.WithBackground[cAddr](w.ctx))
	e.closers = append(e.closers, func() { ks.Close() })
	var s1 p2p.SecureSwarm[kAddr, x509.PublicKey] = ks
	for _, l := range spec.Upper {
		s1 = wrapLayer(s1, l, &e.closers)
	}
	if spec.Multi > 0 {
		n2 := w.net2.NewNode()
		e.closers = append(e.closers, func() { n2.Close() })
		k2 := p2pkeswarm.New[cAddr](n2, testKey(100+i), p2pkeswarm.WithBackground[cAddr](w.ctx))
		e.closers = append(e.closers, func() { k2.Close() })
		ms := multiswarm.NewSecure[x509.PublicKey](map[string]multiswarm.DynSecureSwarm[x509.PublicKey]{
			"a": multiswarm.WrapSecureSwarm[kAddr, x509.PublicKey](s1),
			"b": multiswarm.WrapSecureSwarm[kAddr, x509.PublicKey](k2),
		})
		e.closers = append(e.closers, func() { ms.Close() })
		finishEnd[multiswarm.Addr](w.ctx, e, ms, pickA)
		return e
	}
	finishEnd[kAddr](w.ctx, e, s1, firstAddr[kAddr])
	return e
}

func (w *stackWorld) close() {
	w.cancel()
	for _, e := range w.ends {
		e.close()
	}
}

// settle waits until the whole world is quiet.  Some layers (mbapp) copy a
// message out of the inner callback and process it afterwards, so idleness of
// the bottom nodes alone is not enough: wait for `want` (if given), then for a
// window in which no packet is sent and nothing is delivered anywhere.
func (w *stackWorld) settle(want func() bool) {
	deadline := time.Now().Add(4 * time.Second)
	if want != nil {
		for !want() && time.Now().Before(deadline) {
			time.Sleep(100 * time.Microsecond)
		}
	}
	snapshot := func() int {
		n := w.net.Sent()
		if w.net2 != nil {
			n += w.net2.Sent()
		}
		for _, e := range w.ends {
			e.mu.Lock()
			n += len(e.got)
			e.mu.Unlock()
		}
		return n
	}
	last, stable := -1, 0
	for stable < 12 && time.Now().Before(deadline) {
		for _, e := range w.ends {
			e.bottom.WaitIdle(1)
		}
		if cur := snapshot(); cur == last {
			stable++
		} else {
			last, stable = cur, 0
		}
		time.Sleep(250 * time.Microsecond)
	}
}

func (e *stackEnd) has(n int) func() bool {
	return func() bool {
		e.mu.Lock()
		defer e.mu.Unlock()
		return len(e.got) >= n
	}
}

// the model's description of the stack, top first; otherMTU is the MTU the
// second multiswarm transport reports
func (spec stackSpec) sx(otherMTU int) sx.V {
	var ls []sx.V
	if spec.Multi > 0 {
		ls = append(ls, sx.L(sx.S("min"), sxZ(int64(otherMTU))))
	}
	for i := len(spec.Upper) - 1; i >= 0; i-- {
		ls = append(ls, spec.Upper[i].sx())
	}
	if spec.Ke {
		ls = append(ls, sx.L(sx.S("ke")))
	}
	for i := len(spec.Lower) - 1; i >= 0; i-- {
		ls = append(ls, spec.Lower[i].sx())
	}
	return sx.L(ls...)
}

func (spec stackSpec) otherMTU() int {
	if spec.Multi == 0 {
		return 0
	}
	if spec.Ke {
		m := spec.Multi - p2pkeswarm.Overhead
		if m > 65515 {
			m = 65515
		}
		return m
	}
	return spec.Multi
}

func genLayer(r *gen.R, smallCfg bool) layerSpec {
	switch r.Intn(9) {
	case 0, 1:
		names := []string{"", "a", "chan", "a-much-longer-channel-name/with/segments", string(make([]byte, 130))}
		return layerSpec{Kind: "smux", Name: gen.Pick(r, names)}
	case 2:
		k := gen.Pick(r, []string{"u16", "u32", "u64"})
		return layerSpec{Kind: k, Arg: int64(r.Intn(60000))}
	case 3:
		return layerSpec{Kind: "vmux", Arg: gen.Pick(r, []int64{0, 1, 127, 128, 300, 16384, 1 << 40})}
	case 4, 5:
		return layerSpec{Kind: "frag", Arg: gen.Pick(r, []int64{1 << 16, 1 << 16, 3000, 20000, 1 << 20})}
	case 6, 7:
		return layerSpec{Kind: "mbapp", Arg: gen.Pick(r, []int64{1 << 16, 1 << 16, 3000, 20000, 1 << 20})}
	default:
		return layerSpec{Kind: "wl"}
	}
}

func genStack(r *gen.R) stackSpec {
	spec := stackSpec{Base: gen.Pick(r, []int{64, 100, 200, 576, 700, 1280, 1280, 4096, 65535, 1 << 16})}
	if r.Intn(5) == 0 {
		spec.Base = 30 + r.Intn(1400)
	}
	for i := r.Intn(3); i > 0; i-- {
		spec.Lower = append(spec.Lower, genLayer(r, true))
	}
	spec.Ke = r.Intn(5) < 2
	if spec.Ke {
		for i := r.Intn(3); i > 0; i-- {
			spec.Upper = append(spec.Upper, genLayer(r, true))
		}
	}
	if r.Intn(5) == 0 {
		spec.Multi = gen.Pick(r, []int{700, 1280, 4096, 65535, 1 << 17})
	}
	return spec
}

// stackTellCase: one Tell of `size` bytes through a fresh pair of identical stacks.
func stackTellCase(c *ctxT, spec stackSpec, seed uint64, sizeOf func(reported int) int) {
	w := newStackWorld(spec, 2)
	defer w.close()
	s, rcv := w.ends[0], w.ends[1]
	// P2PKE needs room for its handshake beneath it; such stacks are not generated
	warmCtx, cf := context.WithTimeout(w.ctx, 5*time.Second)
	reported := s.mtu()
	if reported >= 1 {
		if err := s.tellTo(warmCtx, rcv, p2p.IOVec{[]byte{0xEE}}); err != nil && spec.Ke {
			cf()
			c.count("stack/warmup-failed")
			return
		}
	}
	cf()
	if reported >= 1 {
		w.settle(rcv.has(1))
	}
	w.net.Take()
	rcv.take()
	s.take()

	size := sizeOf(reported)
	if size < 0 {
		size = 0
	}
	payload := patBytes(seed, size)
	plSx := sx.L(sx.S("pat"), sx.N(seed), sx.I(size))
	var obs sx.V
	cls := "ok"
	func() {
		defer func() {
			if e := recover(); e != nil {
				obs = sx.S("panic")
				cls = "panic"
			}
		}()
		ctx, cf := context.WithTimeout(w.ctx, 10*time.Second)
		defer cf()
		err := s.tellTo(ctx, rcv, p2p.IOVec{payload})
		if err == nil && size > 0 {
			w.settle(rcv.has(1))
		} else {
			w.settle(nil)
		}
		var lens []int
		maxOK := 1
		for _, p := range w.net.Take() {
			if p.Src == s.bottom.LocalAddr() && p.Dst == rcv.bottom.LocalAddr() {
				lens = append(lens, len(p.Data))
				if len(p.Data) > spec.Base {
					maxOK = 0
				}
			}
		}
		got := rcv.take()
		intact := 0
		if len(got) == 1 && string(got[0].payload) == string(payload) && got[0].src == s.addrTxt && got[0].dst == rcv.addrTxt {
			intact = 1
		} else if len(got) > 0 {
			intact = 2 // something else was delivered
		}
		switch {
		case err == nil:
		case p2p.IsErrMTUExceeded(err):
			cls = "err"
		default:
			cls = "other-error"
		}
		lensSx := sx.S("big")
		if len(lens) <= 100 {
			sortInts(lens)
			vs := make([]sx.V, len(lens))
			for i, l := range lens {
				vs[i] = sx.I(l)
			}
			lensSx = sx.L(vs...)
		}
		obs = sx.L(sxZ(int64(reported)), sx.S(cls), sx.I(len(lens)), sx.I(maxOK), lensSx, sx.I(intact))
	}()
	c.emit(sx.L(sx.S("stack"), sxZ(int64(spec.Base)), spec.sx(spec.otherMTU()), plSx), obs)
	c.count(fmt.Sprintf("stack/depth%d/ke%v/multi%v/%s", len(spec.Lower)+len(spec.Upper), spec.Ke, spec.Multi > 0, cls))
}

func sortInts(a []int) {
	for i := 1; i < len(a); i++ {
		for j := i; j > 0 && a[j] < a[j-1]; j-- {
			a[j], a[j-1] = a[j-1], a[j]
		}
	}
}

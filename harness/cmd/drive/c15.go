package main

import (
	"context"
	"fmt"
	"math"
	"time"

	"go.brendoncarroll.net/p2p"
	"go.brendoncarroll.net/p2p/p/p2pmux"
	"go.brendoncarroll.net/p2p/s/memswarm"

	"verifharness/internal/gen"
	"verifharness/internal/sx"
)

func init() { drivers["C15"] = runC15 }

type chanID struct {
	isStr bool
	s     string
	n     uint64
}

func (c chanID) sx() sx.V {
	if c.isStr {
		return sx.B([]byte(c.s))
	}
	return sx.N(c.n)
}

type mAddr = memswarm.Addr
type askSwarm = p2p.AskSwarm[mAddr]

type muxKind struct {
	name     string
	bits     int // 0 = string, -1 = varint (64), else width
	newMux   func(sw askSwarm) func(c chanID) askSwarm
	hookMux  func(c chanID, x []byte) []byte
	hookDemu func(x []byte) (chanID, []byte, error)
}

func vec(x []byte) p2p.IOVec { return p2p.IOVec{x} }

var muxKinds = []muxKind{
	{"string", 0,
		func(sw askSwarm) func(chanID) askSwarm {
			m := p2pmux.NewStringAskMux[mAddr](sw)
			return func(c chanID) askSwarm { return m.Open(c.s) }
		},
		func(c chanID, x []byte) []byte { return p2p.VecBytes(nil, p2pmux.VerifStringMux(c.s, vec(x))) },
		func(x []byte) (chanID, []byte, error) {
			c, b, err := p2pmux.VerifStringDemux(x)
			return chanID{isStr: true, s: c}, b, err
		}},
	{"varint", -1,
		func(sw askSwarm) func(chanID) askSwarm {
			m := p2pmux.NewVarintAskMux[mAddr](sw)
			return func(c chanID) askSwarm { return m.Open(c.n) }
		},
		func(c chanID, x []byte) []byte { return p2p.VecBytes(nil, p2pmux.VerifVarintMux(c.n, vec(x))) },
		func(x []byte) (chanID, []byte, error) {
			c, b, err := p2pmux.VerifVarintDemux(x)
			return chanID{n: c}, b, err
		}},
	{"u16", 16,
		func(sw askSwarm) func(chanID) askSwarm {
			m := p2pmux.NewUint16AskMux[mAddr](sw)
			return func(c chanID) askSwarm { return m.Open(uint16(c.n)) }
		},
		func(c chanID, x []byte) []byte { return p2p.VecBytes(nil, p2pmux.VerifUint16Mux(uint16(c.n), vec(x))) },
		func(x []byte) (chanID, []byte, error) {
			c, b, err := p2pmux.VerifUint16Demux(x)
			return chanID{n: uint64(c)}, b, err
		}},
	{"u32", 32,
		func(sw askSwarm) func(chanID) askSwarm {
			m := p2pmux.NewUint32AskMux[mAddr](sw)
			return func(c chanID) askSwarm { return m.Open(uint32(c.n)) }
		},
		func(c chanID, x []byte) []byte { return p2p.VecBytes(nil, p2pmux.VerifUint32Mux(uint32(c.n), vec(x))) },
		func(x []byte) (chanID, []byte, error) {
			c, b, err := p2pmux.VerifUint32Demux(x)
			return chanID{n: uint64(c)}, b, err
		}},
	{"u64", 64,
		func(sw askSwarm) func(chanID) askSwarm {
			m := p2pmux.NewUint64AskMux[mAddr](sw)
			return func(c chanID) askSwarm { return m.Open(c.n) }
		},
		func(c chanID, x []byte) []byte { return p2p.VecBytes(nil, p2pmux.VerifUint64Mux(c.n, vec(x))) },
		func(x []byte) (chanID, []byte, error) {
			c, b, err := p2pmux.VerifUint64Demux(x)
			return chanID{n: c}, b, err
		}},
}

// boundary-biased channel ids for a kind
func genChan(r *gen.R, k muxKind) chanID {
	if k.bits == 0 {
		switch r.Intn(10) {
		case 0:
			return chanID{isStr: true, s: ""}
		case 1:
			return chanID{isStr: true, s: string(r.Bytes(1))}
		case 2:
			return chanID{isStr: true, s: string(r.Bytes(gen.Pick(r, []int{127, 128, 129})))}
		case 3:
			return chanID{isStr: true, s: string(r.Bytes(gen.Pick(r, []int{16383, 16384})))}
		case 4:
			return chanID{isStr: true, s: gen.Pick(r, []string{"\x00", "\xff", "a\x00", "\x00a", "\x01a", "\x80", "\xff\xff"})}
		default:
			return chanID{isStr: true, s: string(r.Bytes(r.Intn(24)))}
		}
	}
	bits := k.bits
	if bits < 0 {
		bits = 64
	}
	var max uint64 = math.MaxUint64
	if bits < 64 {
		max = 1<<uint(bits) - 1
	}
	cands := []uint64{0, 1, 127, 128, 255, 256, 16383, 16384, 1 << 14, 65535, 65536, 1<<32 - 1, 1 << 32, 1<<63 - 1, 1 << 63, math.MaxUint64 - 1, math.MaxUint64}
	if r.Intn(3) == 0 {
		return chanID{n: r.U64() & max}
	}
	return chanID{n: gen.Pick(r, cands) & max}
}

func genPayload(r *gen.R) []byte {
	switch r.Intn(6) {
	case 0:
		return []byte{}
	case 1:
		return r.Bytes(1)
	case 2:
		// payload that itself looks like a header
		return []byte{0x01, 0x61}
	default:
		return r.Bytes(r.Intn(48))
	}
}

func lenClass(n int) string {
	switch {
	case n == 0:
		return "0"
	case n == 1:
		return "1"
	case n < 128:
		return "<128"
	case n < 16384:
		return "<16384"
	default:
		return ">=16384"
	}
}

func chanClass(c chanID) string {
	if c.isStr {
		return "strlen" + lenClass(len(c.s))
	}
	switch {
	case c.n < 128:
		return "int<2^7"
	case c.n < 1<<14:
		return "int<2^14"
	case c.n < 1<<32:
		return "int<2^32"
	case c.n < 1<<63:
		return "int<2^63"
	default:
		return "int>=2^63"
	}
}

func obsClass(o sx.V) string {
	s := string(o)
	if len(s) > 5 {
		s = s[:5]
	}
	return s
}

func safeDemux(k muxKind, x []byte) (obs sx.V, panicked bool) {
	defer func() {
		if e := recover(); e != nil {
			obs, panicked = sx.Panic(), true
		}
	}()
	c, body, err := k.hookDemu(x)
	if err != nil {
		return sx.Err(), false
	}
	return sx.Ok(sx.L(c.sx(), sx.B(body))), false
}

// malformed / adversarial raw inputs for a kind
func genRaw(r *gen.R, k muxKind) []byte {
	switch r.Intn(8) {
	case 0:
		return []byte{}
	case 1:
		return r.Bytes(1 + r.Intn(3))
	case 2: // over-long varint
		b := []byte{0x80, 0x80, 0x80, 0x80, 0x80, 0x80, 0x80, 0x80, 0x80, 0x80, 0x01}
		return append(b[:gen.Pick(r, []int{9, 10, 11})], r.Bytes(r.Intn(4))...)
	case 3: // varint with maximal value / top bit set: length >= 2^63
		b := []byte{0xff, 0xff, 0xff, 0xff, 0xff, 0xff, 0xff, 0xff, 0xff, byte(r.Intn(3))}
		return append(b, r.Bytes(r.Intn(4))...)
	case 4: // varint 2^63 exactly
		b := []byte{0x80, 0x80, 0x80, 0x80, 0x80, 0x80, 0x80, 0x80, 0x80, 0x01}
		return append(b, r.Bytes(r.Intn(4))...)
	case 5: // declared length longer than the rest
		return append([]byte{byte(1 + r.Intn(100))}, r.Bytes(r.Intn(3))...)
	case 6: // non-minimal varint encoding of a small channel
		return append([]byte{0x80 | byte(r.Intn(4)), 0x00}, r.Bytes(r.Intn(4))...)
	default:
		// valid frame with one byte mutated or truncated
		f := k.hookMux(genChan(r, k), genPayload(r))
		if len(f) > 0 && r.Bool() {
			f[r.Intn(len(f))] ^= byte(1 << uint(r.Intn(8)))
		} else if len(f) > 0 {
			f = f[:r.Intn(len(f))]
		}
		return f
	}
}

type recvEvt struct {
	idx     int
	payload []byte
}

func sentinelChan(k muxKind) chanID {
	if k.bits == 0 {
		return chanID{isStr: true, s: "\xfe-verif-sentinel"}
	}
	if k.bits == 16 {
		return chanID{n: 0xfffd}
	}
	if k.bits == 32 {
		return chanID{n: 0xfffffffd}
	}
	return chanID{n: 0xfffffffffffffffd}
}

func runC15(c *ctxT) {
	r := c.rng
	ctx := context.Background()
	nFrame := c.scale(400, 4000)
	nUnframe := c.scale(1500, 30000)
	nE2E := c.scale(60, 1500)

	for _, k := range muxKinds {
		// ---- frame: real mux -> raw endpoint captures the frame bytes ----
		realm := memswarm.NewRealm(memswarm.WithQueueLen(16))
		s1, s2 := realm.NewSwarm(), realm.NewSwarm()
		openA := k.newMux(s1)
		for i := 0; i < nFrame/len(muxKinds); i++ {
			ch := genChan(r, k)
			x := genPayload(r)
			sw := openA(ch)
			if err := sw.Tell(ctx, s2.LocalAddrs()[0], vec(x)); err != nil {
				panic(err)
			}
			var got []byte
			cctx, cf := context.WithTimeout(ctx, 5*time.Second)
			if err := s2.Receive(cctx, func(m p2p.Message[mAddr]) { got = append([]byte{}, m.Payload...) }); err != nil {
				panic(err)
			}
			cf()
			sw.Close()
			if h := k.hookMux(ch, x); string(h) != string(got) {
				panic(fmt.Sprintf("hook mux and wire disagree: %x vs %x", h, got))
			}
			c.emit(sx.L(sx.S("frame"), sx.S(k.name), ch.sx(), sx.B(x)), sx.B(got))
			c.count("frame/" + k.name + "/" + chanClass(ch) + "/payload" + lenClass(len(x)))
		}
		framesHeldTogether(c, k, r.Fork(), nFrame/len(muxKinds)/4+1)
		// ---- unframe: demux function on valid, mutated and adversarial bytes ----
		for i := 0; i < nUnframe/len(muxKinds); i++ {
			var raw []byte
			if r.Intn(4) == 0 {
				raw = k.hookMux(genChan(r, k), genPayload(r))
			} else {
				raw = genRaw(r, k)
			}
			obs, _ := safeDemux(k, raw)
			c.emit(sx.L(sx.S("unframe"), sx.S(k.name), sx.B(raw)), obs)
			c.count("unframe/" + k.name + "/" + obsClass(obs))
		}
		// ---- end to end: mux A tells/asks on c; mux B has a set of channels open ----
		for i := 0; i < nE2E/len(muxKinds); i++ {
			c15EndToEnd(c, k, r.Fork())
		}
	}
}

func c15EndToEnd(c *ctxT, k muxKind, r *gen.R) {
	ctx, cancel := context.WithCancel(context.Background())
	defer cancel()
	realm := memswarm.NewRealm(memswarm.WithQueueLen(16))
	s1, s2, s3 := realm.NewSwarm(), realm.NewSwarm(), realm.NewSwarm()
	openA := k.newMux(s1)
	openB := k.newMux(s3)
	dst := s3.LocalAddrs()[0]
	sent := sentinelChan(k)

	// pool of near-colliding ids; B opens a subset, A may tell on any of them
	pool := []chanID{}
	seen := map[chanID]bool{sent: true}
	for len(pool) < 2+r.Intn(6) {
		ch := genChan(r, k)
		if k.bits == 0 && len(ch.s) > 200 {
			continue
		}
		if !seen[ch] {
			seen[ch] = true
			pool = append(pool, ch)
		}
	}
	nOpen := 1 + r.Intn(len(pool))
	opened := append([]chanID{}, pool[:nOpen]...)
	opened = append(opened, sent)
	openedSx := make([]sx.V, len(opened))
	evts := make(chan recvEvt, 64)
	type askEvt struct {
		idx int
		req []byte
	}
	askSeen := make(chan askEvt, 64)
	for i, ch := range opened {
		openedSx[i] = ch.sx()
		sw := openB(ch)
		i := i
		go func() {
			for {
				if err := sw.Receive(ctx, func(m p2p.Message[mAddr]) {
					evts <- recvEvt{i, append([]byte{}, m.Payload...)}
				}); err != nil {
					return
				}
			}
		}()
		go func() {
			for {
				if err := sw.ServeAsk(ctx, func(_ context.Context, resp []byte, m p2p.Message[mAddr]) int {
					askSeen <- askEvt{i, append([]byte{}, m.Payload...)}
					return copy(resp, []byte{byte(i)})
				}); err != nil {
					return
				}
			}
		}()
	}
	sentA := openA(sent)
	aSwarms := map[chanID]askSwarm{}
	collect := func() sx.V {
		// sentinel after the probe: recvLoop is sequential, so once the sentinel
		// is seen the probe has been handled (delivered or dropped)
		if err := sentA.Tell(ctx, dst, vec([]byte("S"))); err != nil {
			panic(err)
		}
		var got []sx.V
		for {
			select {
			case e := <-evts:
				if e.idx == len(opened)-1 {
					if len(got) == 0 {
						return sx.None()
					}
					if len(got) == 1 {
						return sx.Some(got[0])
					}
					return sx.L(append([]sx.V{sx.S("multi")}, got...)...)
				}
				got = append(got, sx.L(opened[e.idx].sx(), sx.B(e.payload)))
			case <-time.After(10 * time.Second):
				panic("sentinel lost")
			}
		}
	}
	for j := 0; j < 6; j++ {
		ch := gen.Pick(r, pool)
		x := genPayload(r)
		sw, ok := aSwarms[ch]
		if !ok {
			sw = openA(ch)
			aSwarms[ch] = sw
		}
		switch r.Intn(4) {
		case 0, 1: // tell
			if err := sw.Tell(ctx, dst, vec(x)); err != nil {
				panic(err)
			}
			obs := collect()
			c.emit(sx.L(sx.S("tell"), sx.S(k.name), sx.L(openedSx...), ch.sx(), sx.B(x)), obs)
			c.count("tell/" + k.name + "/" + obsClass(obs))
		case 2: // ask: which channel's handler sees the request
			resp := make([]byte, 8)
			actx, cf := context.WithTimeout(ctx, 5*time.Second)
			n, err := sw.Ask(actx, resp, dst, vec(x))
			cf()
			obs := sx.None()
			select {
			case e := <-askSeen:
				obs = sx.Some(sx.L(opened[e.idx].sx(), sx.B(e.req)))
				if err != nil || n != 1 || int(resp[0]) != e.idx {
					obs = sx.L(sx.S("ask-response-mismatch"), obs)
				}
			default:
				if err == nil {
					obs = sx.S("ask-succeeded-without-handler")
				}
			}
			c.emit(sx.L(sx.S("tell"), sx.S(k.name), sx.L(openedSx...), ch.sx(), sx.B(x)), obs)
			c.count("ask/" + k.name + "/" + obsClass(obs))
		case 3: // raw bytes injected below mux B (tell or ask path)
			raw := genRaw(r, k)
			if _, p := safeDemux(k, raw); p {
				c.emit(sx.L(sx.S("raw"), sx.S(k.name), sx.L(openedSx...), sx.B(raw)), sx.Panic())
				c.count("raw/" + k.name + "/panic")
				continue
			}
			var obs sx.V
			if r.Bool() {
				if err := s2.Tell(ctx, dst, vec(raw)); err != nil {
					panic(err)
				}
				obs = collect()
				c.count("rawtell/" + k.name + "/" + obsClass(obs))
			} else {
				resp := make([]byte, 8)
				actx, cf := context.WithTimeout(ctx, 5*time.Second)
				_, err := s2.Ask(actx, resp, dst, vec(raw))
				cf()
				obs = sx.None()
				select {
				case e := <-askSeen:
					obs = sx.Some(sx.L(opened[e.idx].sx(), sx.B(e.req)))
				default:
					if err == nil {
						obs = sx.S("ask-succeeded-without-handler")
					}
				}
				c.count("rawask/" + k.name + "/" + obsClass(obs))
			}
			c.emit(sx.L(sx.S("raw"), sx.S(k.name), sx.L(openedSx...), sx.B(raw)), obs)
		}
	}
}

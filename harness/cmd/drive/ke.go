package main

// Adversary toolkit for P2PKE sessions: executes an adversary schedule on REAL
// sessions (real Noise, real signatures) while recording it in the symbolic
// action language interpreted by coq/Run/RunSession.v.

import (
	"bytes"
	"crypto/rand"
	"encoding/binary"
	"fmt"
	"strconv"
	"time"

	"github.com/flynn/noise"
	"golang.org/x/crypto/blake2b"
	"google.golang.org/protobuf/proto"

	"go.brendoncarroll.net/p2p/f/x509"
	"go.brendoncarroll.net/p2p/p/p2pke"

	"verifharness/internal/gen"
	"verifharness/internal/sx"
)

var keSuite = noise.NewCipherSuite(noise.DH25519, noise.CipherChaChaPoly, noise.HashBLAKE2b)

func preSig(purpose string, msg []byte) []byte {
	h, err := blake2b.NewXOF(64, nil)
	if err != nil {
		panic(err)
	}
	h.Write([]byte{uint8(len(purpose))})
	h.Write([]byte(purpose))
	h.Write(msg)
	out := make([]byte, 64)
	if _, err := h.Read(out); err != nil {
		panic(err)
	}
	return out
}

func keSign(key int, purpose string, msg []byte) []byte {
	priv := testKey(key)
	signer, err := x509.DefaultRegistry().LoadSigner(&priv)
	if err != nil {
		panic(err)
	}
	sig, err := signer.Sign(nil, preSig(purpose, msg))
	if err != nil {
		panic(err)
	}
	return sig
}

func keyBytes(key int) []byte {
	priv := testKey(key)
	pub, err := x509.DefaultRegistry().PublicFromPrivate(&priv)
	if err != nil {
		panic(err)
	}
	return x509.MarshalPublicKey(nil, &pub)
}

// advNoise: one adversary-run Noise handshake (one adversary ephemeral)
type advNoise struct {
	hs       *noise.HandshakeState
	init     bool
	cs1, cs2 *noise.CipherState
}

type keEnv struct {
	r       *gen.R
	now     time.Time
	sess    []*p2pke.Session
	msgs    [][]byte
	adv     map[int]*advNoise
	acts    []sx.V
	obs     []sx.V
	keyIDs  map[string]int
	advUsed bool
}

func newKeEnv(r *gen.R) *keEnv {
	e := &keEnv{r: r, now: time.Now(), adv: map[int]*advNoise{}, keyIDs: map[string]int{}}
	for _, k := range []int{1, 2, 3, 4, 50, 51} {
		e.keyIDs[string(keyBytes(k))] = k
	}
	return e
}

func (e *keEnv) remoteSx(s *p2pke.Session) sx.V {
	rk := s.RemoteKey()
	if rk.IsZero() {
		return sx.None()
	}
	if id, ok := e.keyIDs[string(x509.MarshalPublicKey(nil, &rk))]; ok {
		return sx.I(id)
	}
	return sx.S("unknown-key")
}

func (e *keEnv) sessObs(i int, out sx.V) {
	s := e.sess[i]
	e.obs = append(e.obs, sx.L(sx.I(int(s.VerifHsIndex())), sx.Bool(s.IsReady()), e.remoteSx(s), out))
}

func (e *keEnv) newSession(isInit bool, key int) int {
	ts := uint64(len(e.sess)) + 1
	now := e.now.Add(time.Duration(ts) * time.Millisecond)
	s := p2pke.NewSession(p2pke.SessionConfig{IsInit: isInit, Registry: x509.DefaultRegistry(), PrivateKey: testKey(key),
		Now: now, Logger: nopLogger, RejectAfter: p2pke.RejectAfterTime})
	e.sess = append(e.sess, s)
	if isInit {
		e.msgs = append(e.msgs, s.Handshake(nil))
	}
	// the symbolic timestamp is just a tag that differs per session
	e.acts = append(e.acts, sx.L(sx.S("new"), sx.Bool(isInit), sx.I(key), sx.N(ts)))
	e.sessObs(len(e.sess)-1, sx.S("created"))
	return len(e.sess) - 1
}

func kindOf(b []byte) sx.V {
	if len(b) < 4 {
		return sx.S("junk")
	}
	switch n := binary.BigEndian.Uint32(b[:4]); n {
	case 0:
		return sx.S("ih")
	case 1:
		return sx.S("rh")
	case 2:
		return sx.S("id")
	case 3:
		return sx.S("rd")
	default:
		return sx.L(sx.S("data"), sx.N(uint64(n)))
	}
}

// deliver raw bytes described by spec to session i
func (e *keEnv) deliver(i int, spec sx.V, raw []byte) {
	e.acts = append(e.acts, sx.L(sx.S("dlv"), sx.I(i), spec))
	if raw == nil {
		e.sessObs(i, sx.S("nomsg"))
		return
	}
	var out sx.V
	func() {
		defer func() {
			if r := recover(); r != nil {
				out = sx.S("panic")
			}
		}()
		isApp, reply, err := e.sess[i].Deliver(nil, append([]byte{}, raw...), e.now.Add(time.Second))
		switch {
		case err != nil:
			out = sx.S("err")
		case isApp:
			if tag, perr := strconv.ParseUint(string(reply), 10, 64); perr == nil {
				out = sx.L(sx.S("app"), sx.N(tag))
			} else {
				out = sx.L(sx.S("app"), sx.S("x"))
			}
		case len(reply) > 0:
			e.msgs = append(e.msgs, reply)
			out = sx.L(sx.S("reply"), kindOf(reply))
		default:
			if len(raw) >= 4 && binary.BigEndian.Uint32(raw[:4]) >= 4 {
				out = sx.S("drop")
			} else {
				out = sx.L(sx.S("reply"), sx.S("none"))
			}
		}
	}()
	if string(out) == "panic" {
		e.obs = append(e.obs, out)
		return
	}
	e.sessObs(i, out)
}

func (e *keEnv) deliverMsg(i, j int) { e.deliver(i, sx.L(sx.S("m"), sx.I(j)), e.get(j)) }

func (e *keEnv) get(j int) []byte {
	if j < 0 || j >= len(e.msgs) {
		return nil
	}
	return e.msgs[j]
}

func (e *keEnv) send(i int, tag uint64) {
	e.acts = append(e.acts, sx.L(sx.S("send"), sx.I(i), sx.N(tag)))
	ct, err := e.sess[i].Send(nil, []byte(strconv.FormatUint(tag, 10)), e.now.Add(time.Second))
	if err != nil {
		e.sessObs(i, sx.S("nosend"))
		return
	}
	e.msgs = append(e.msgs, ct)
	e.sessObs(i, sx.L(sx.S("sent"), sx.N(uint64(binary.BigEndian.Uint32(ct[:4])))))
}

func (e *keEnv) setNonce(i int, n uint64) {
	e.acts = append(e.acts, sx.L(sx.S("setnonce"), sx.I(i), sx.N(n)))
	e.sess[i].VerifSetNonce(n)
	e.sessObs(i, sx.S("set"))
}

// ---- corruptions of emitted messages ----
func cloneOrNil(b []byte) []byte {
	if b == nil {
		return nil
	}
	return append([]byte{}, b...)
}

func (e *keEnv) deliverHdr(i, j int, h uint32) {
	raw := cloneOrNil(e.get(j))
	if raw != nil {
		binary.BigEndian.PutUint32(raw[:4], h)
	}
	long := 0 // can the body hold an ephemeral key? (a fresh responder's Noise state then consumes it)
	if raw != nil && len(raw)-4 >= 32 {
		long = 1
	}
	e.deliver(i, sx.L(sx.S("hdr"), sx.I(j), sx.N(uint64(h)), sx.I(long)), raw)
}
func (e *keEnv) deliverBody(i, j int) {
	raw := cloneOrNil(e.get(j))
	if raw != nil {
		switch binary.BigEndian.Uint32(raw[:4]) {
		case 0: // InitHello: corrupt the signature (inside the clear payload, near its end)
			raw[len(raw)-8] ^= 0x40
		default: // corrupt the ciphertext / tag
			raw[len(raw)-1-e.r.Intn(len(raw)-36)] ^= byte(1 << uint(e.r.Intn(8)))
		}
	}
	e.deliver(i, sx.L(sx.S("body"), sx.I(j)), raw)
}
func (e *keEnv) deliverTrunc(i, j int) {
	raw := e.get(j)
	if raw != nil {
		raw = raw[:e.r.Intn(4)]
	}
	e.deliver(i, sx.L(sx.S("trunc"), sx.I(j)), raw)
}

// ---- adversary-run handshakes ----
func (e *keEnv) advState(a int, init bool) *advNoise {
	if st, ok := e.adv[a]; ok {
		return st
	}
	hs, err := noise.NewHandshakeState(noise.Config{CipherSuite: keSuite, Random: rand.Reader, Pattern: noise.HandshakeNN, Initiator: init})
	if err != nil {
		panic(err)
	}
	st := &advNoise{hs: hs, init: init}
	e.adv[a] = st
	e.advUsed = true
	return st
}

// ihSplice: InitHello from adversary ephemeral a carrying the (timestamp, key, sig) claim of InitHello j
func (e *keEnv) ihSplice(i, a, j int) {
	src := e.get(j)
	spec := sx.L(sx.S("ihsplice"), sx.I(a), sx.I(j))
	if src == nil || binary.BigEndian.Uint32(src[:4]) != 0 {
		e.deliver(i, spec, nil)
		return
	}
	st := e.advState(a, true)
	payload := src[4+32:]
	msg, _, _, err := st.hs.WriteMessage([]byte{0, 0, 0, 0}, payload)
	if err != nil {
		panic(err)
	}
	e.deliver(i, spec, msg)
}

func rhPayload(keyX509, sig []byte) []byte {
	b, err := proto.Marshal(&p2pke.RespHello{KeyX509: keyX509, Sig: sig})
	if err != nil {
		panic(err)
	}
	return b
}

func tsSigOf(ih []byte) []byte {
	body := ih[4+32:]
	l := int(binary.BigEndian.Uint16(body[len(body)-2:]))
	var m p2pke.InitHello
	if err := proto.Unmarshal(body[len(body)-2-l:len(body)-2], &m); err != nil {
		panic(err)
	}
	return m.Sig
}

// rhForge: RespHello for InitHello j from adversary ephemeral a, claiming key k
func (e *keEnv) rhForge(i, a, j, k, kind, x int) {
	spec := sx.L(sx.S("rhforge"), sx.I(a), sx.I(j), sx.I(k), sx.I(kind), sx.I(x))
	ih := e.get(j)
	if ih == nil || binary.BigEndian.Uint32(ih[:4]) != 0 {
		e.deliver(i, spec, nil)
		return
	}
	st := e.advState(a, false)
	if _, _, _, err := st.hs.ReadMessage(nil, ih[4:]); err != nil {
		panic(err)
	}
	cb := append([]byte{}, st.hs.ChannelBinding()...)
	var sig []byte
	switch kind {
	case 0:
		sig = keSign(k, "p2pke/channel-binding", cb)
	case 1:
		sig = keSign(x, "p2pke/channel-binding", cb)
	case 2:
		sig = tsSigOf(e.get(x))
	default:
		sig = e.r.Bytes(64)
	}
	msg, cs1, cs2, err := st.hs.WriteMessage([]byte{0, 0, 0, 1}, rhPayload(keyBytes(k), sig))
	if err != nil {
		panic(err)
	}
	st.cs1, st.cs2 = cs1, cs2
	e.deliver(i, spec, msg)
}

// idForge: InitDone answering RespHello j, which answered the adversary's (spliced) InitHello
func (e *keEnv) idForge(i, a, j, ih, kind, key int) {
	spec := sx.L(sx.S("idforge"), sx.I(a), sx.I(j), sx.I(ih), sx.I(kind), sx.I(key))
	st, ok := e.adv[a]
	rh := e.get(j)
	if !ok || !st.init || rh == nil || binary.BigEndian.Uint32(rh[:4]) != 1 {
		e.deliver(i, spec, nil)
		return
	}
	if st.cs1 == nil {
		_, cs1, cs2, err := st.hs.ReadMessage(nil, rh[4:])
		if err != nil {
			e.deliver(i, spec, nil)
			return
		}
		st.cs1, st.cs2 = cs1, cs2
	}
	cb := st.hs.ChannelBinding()
	var sig []byte
	switch kind {
	case 0:
		sig = keSign(key, "p2pke/channel-binding", cb)
	case 2:
		sig = tsSigOf(e.get(ih))
	default:
		sig = e.r.Bytes(64)
	}
	body, err := proto.Marshal(&p2pke.InitDone{Sig: sig})
	if err != nil {
		panic(err)
	}
	hdr := []byte{0, 0, 0, 2}
	msg := st.cs1.Cipher().Encrypt(append([]byte{}, hdr...), 2, hdr, body)
	e.deliver(i, spec, msg)
}

// advRead lets the adversary process the RespHello j answering its InitHello (deriving the traffic keys)
func (e *keEnv) advRead(a, j int) {
	st, ok := e.adv[a]
	rh := e.get(j)
	if !ok || !st.init || st.cs1 != nil || rh == nil || len(rh) < 4 || binary.BigEndian.Uint32(rh[:4]) != 1 {
		return
	}
	if _, cs1, cs2, err := st.hs.ReadMessage(nil, rh[4:]); err == nil {
		st.cs1, st.cs2 = cs1, cs2
	}
}

// dataForge: data under a key the adversary holds: DH(adversary ephemeral a, peer ephemeral of the session it handshook with)
func (e *keEnv) dataForge(i, a, peerEph, dir int, ctr uint64, tag uint64) {
	spec := sx.L(sx.S("dataforge"), sx.I(a), sx.I(peerEph), sx.I(dir), sx.N(ctr), sx.N(tag))
	st, ok := e.adv[a]
	if !ok || st.cs1 == nil {
		e.deliver(i, spec, nil)
		return
	}
	cs := st.cs1
	if dir == 1 {
		cs = st.cs2
	}
	hdr := make([]byte, 4)
	binary.BigEndian.PutUint32(hdr, uint32(ctr))
	msg := cs.Cipher().Encrypt(append([]byte{}, hdr...), ctr, hdr, []byte(strconv.FormatUint(tag, 10)))
	e.deliver(i, spec, msg)
}

func (e *keEnv) emit(c *ctxT, label string) {
	c.emitNT(sx.L(sx.S("ke"), sx.L(e.acts...)), sx.L(e.obs...), true)
	c.count(label)
}

var _ = bytes.Equal
var _ = fmt.Sprint

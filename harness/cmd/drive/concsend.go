package main

import (
	"encoding/binary"
	"sync"
	"time"

	"go.brendoncarroll.net/p2p/p/p2pke"

	"verifharness/internal/sx"
)

// concSendCases: several goroutines Send through ONE established session at once
// (Session keeps its outbound counter in an atomic for exactly this); no header
// counter may be used twice.  case = (conc-send <goroutines> <sends each> <i>)  obs = (<messages> <duplicate counters> <errors>)
func concSendCases(c *ctxT) {
	for i := 0; i < c.scale(6, 60); i++ {
		now := time.Now()
		ini, rsp := newSession(true, 31, now), newSession(false, 32, now)
		step := func(from, to *p2pke.Session) {
			if m := from.Handshake(nil); len(m) > 0 {
				to.Deliver(nil, m, now)
			}
		}
		step(ini, rsp)
		step(rsp, ini)
		step(ini, rsp)
		step(rsp, ini)
		g, k := 4+c.rng.Intn(5), 300+c.rng.Intn(700)
		var mu sync.Mutex
		seen := map[uint32]int{}
		errs := 0
		var wg sync.WaitGroup
		startGate := make(chan struct{})
		for a := 0; a < g; a++ {
			wg.Add(1)
			go func() {
				defer wg.Done()
				<-startGate
				local := make([]uint32, 0, k)
				le := 0
				for j := 0; j < k; j++ {
					m, err := ini.Send(nil, []byte("x"), now)
					if err != nil || len(m) < 4 {
						le++
						continue
					}
					local = append(local, binary.BigEndian.Uint32(m[:4]))
				}
				mu.Lock()
				for _, v := range local {
					seen[v]++
				}
				errs += le
				mu.Unlock()
			}()
		}
		close(startGate)
		wg.Wait()
		total, dups := 0, 0
		for _, n := range seen {
			total += n
			if n > 1 {
				dups += n - 1
			}
		}
		c.emit(sx.L(sx.S("conc-send"), sx.I(g), sx.I(k), sx.I(i)), sx.L(sx.I(total), sx.I(dups), sx.I(errs)))
		c.count("conc-send")
	}
}

package main

import (
	"encoding/binary"

	"go.brendoncarroll.net/p2p/p/p2pke"

	"verifharness/internal/gen"
)

func init() {
	drivers["C03"] = func(c *ctxT) { runKe(c, true) }
	drivers["C02"] = func(c *ctxT) {
		runKe(c, false)
		concSendCases(c)
		// the same property one level up: what a Channel hands to the application comes from the key it is bound to
		runC05n(c, c.scale(60, 1500))
	}
}

// isData reports whether emitted message j is an application ciphertext
func (e *keEnv) isData(j int) bool {
	m := e.get(j)
	return m != nil && len(m) >= 4 && binary.BigEndian.Uint32(m[:4]) >= 4
}

// network adversary over one or two honest pairs
func keNetwork(c *ctxT, r *gen.R, dataHeavy bool) {
	e := newKeEnv(r)
	nPairs := 1 + r.Intn(2)
	for p := 0; p < nPairs; p++ {
		e.newSession(true, 1+2*p)
		e.newSession(false, 2+2*p)
	}
	var tag uint64 = 1000
	steps := 10 + r.Intn(40)
	for s := 0; s < steps; s++ {
		i := r.Intn(len(e.sess))
		j := r.Intn(len(e.msgs) + 1) // sometimes a message that does not exist yet
		sendW := 2
		if dataHeavy {
			sendW = 5
		}
		switch k := r.Intn(14 + sendW); {
		case k < 6:
			// mostly the useful delivery: a message of the peer session
			e.deliverMsg(i, j)
		case k < 8:
			if len(e.msgs) > 0 {
				e.deliverMsg(i, len(e.msgs)-1-r.Intn(min(3, len(e.msgs)))) // recent message
			}
		case k == 8:
			e.deliverHdr(i, j, gen.Pick(r, []uint32{0, 1, 2, 3, 4, 16, 17, 0xffffffff, 0xfffffffe}))
		case k == 9:
			if e.get(j) != nil && len(e.get(j)) > 40 {
				e.deliverBody(i, j)
			}
		case k == 10:
			e.deliverTrunc(i, j)
		case k == 11: // replay some data message
			for t := 0; t < 3; t++ {
				jj := r.Intn(len(e.msgs))
				if e.isData(jj) {
					e.deliverMsg(i, jj)
					break
				}
			}
		default:
			tag++
			e.send(i, tag)
		}
	}
	e.emit(c, "network")
}

func min(a, b int) int {
	if a < b {
		return a
	}
	return b
}

// canonical handshake between sessions i (initiator) and rsp; returns false if it did not complete
func (e *keEnv) canonical(i, rsp int, ihIdx int) bool {
	e.deliverMsg(rsp, ihIdx)
	rh := len(e.msgs) - 1
	e.deliverMsg(i, rh)
	id := len(e.msgs) - 1
	e.deliverMsg(rsp, id)
	rd := len(e.msgs) - 1
	e.deliverMsg(i, rd)
	return e.sess[i].IsReady() && e.sess[rsp].IsReady()
}

// adversary as initiator towards an honest responder, presenting a victim's claim
func keSplice(c *ctxT, r *gen.R) {
	e := newKeEnv(r)
	victim := e.newSession(true, 1) // its InitHello is message 0
	_ = victim
	rsp := e.newSession(false, 2)
	a := 900
	e.ihSplice(rsp, a, 0)
	rh := len(e.msgs) - 1
	e.advRead(a, rh)
	var tag uint64 = 5000
	for k := 0; k < 2+r.Intn(4); k++ {
		switch r.Intn(6) {
		case 0:
			e.idForge(rsp, a, rh, 0, 0, 50) // adversary's own key signs the real channel binding
		case 1:
			e.idForge(rsp, a, rh, 0, 2, 0) // the victim's timestamp signature as channel-binding signature
		case 2:
			e.idForge(rsp, a, rh, 0, 3, 0)
		case 3:
			tag++
			e.dataForge(rsp, a, 100+rsp, 0, uint64(gen.Pick(r, []int{4, 16, 17, 2, 3})), tag)
		case 4:
			tag++
			e.send(rsp, tag)
		default:
			e.deliverMsg(rsp, 0) // the victim's genuine InitHello arrives late
		}
	}
	e.emit(c, "splice-initiator")
}

// adversary as responder towards an honest initiator
func keForgeResp(c *ctxT, r *gen.R) {
	e := newKeEnv(r)
	ini := e.newSession(true, 1)   // message 0
	other := e.newSession(true, 2) // message 1: an InitHello by the victim key 2 (source of its timestamp signature)
	_ = other
	a := 901
	k, kind, x := 2, 1, 50
	switch r.Intn(5) {
	case 0:
		k, kind, x = 50, 0, 0 // legitimate adversary principal
	case 1:
		k, kind, x = 2, 1, 50 // claims the victim's key, signs with its own
	case 2:
		k, kind, x = 2, 2, 1 // the victim's timestamp signature (purpose confusion)
	case 3:
		k, kind, x = 2, 3, 0
	default:
		k, kind, x = 50, 1, 51 // its own key but somebody else's signature
	}
	e.rhForge(ini, a, 0, k, kind, x)
	var tag uint64 = 7000
	for t := 0; t < 1+r.Intn(4); t++ {
		switch r.Intn(4) {
		case 0:
			tag++
			e.dataForge(ini, a, 100+ini, 1, uint64(gen.Pick(r, []int{16, 17, 4, 3})), tag)
		case 1:
			tag++
			e.send(ini, tag)
		case 2:
			if len(e.msgs) > 2 {
				e.deliverMsg(ini, len(e.msgs)-1)
			}
		default:
			// a second forged RespHello after the first (the Noise state may be spent)
			e.rhForge(ini, 902+t, 0, 50, 0, 0)
		}
	}
	e.emit(c, "forge-responder")
}

// an honest pair completes; then replay, reordering, limits and a second unrelated pair's traffic
func keData(c *ctxT, r *gen.R) {
	e := newKeEnv(r)
	i, rs := e.newSession(true, 1), e.newSession(false, 2)
	// sometimes data overtakes RespDone
	e.deliverMsg(rs, 0)
	e.deliverMsg(i, len(e.msgs)-1)
	e.deliverMsg(rs, len(e.msgs)-1)
	rd := len(e.msgs) - 1
	var tag uint64 = 9000
	if r.Bool() {
		e.deliverMsg(i, rd)
	} else {
		tag++
		e.send(rs, tag)
		e.deliverMsg(i, len(e.msgs)-1)
		if r.Bool() {
			e.deliverMsg(i, rd)
		}
	}
	i2, r2 := e.newSession(true, 3), e.newSession(false, 4)
	e.canonical(i2, r2, len(e.msgs)-1)
	if r.Intn(3) == 0 {
		n := uint64(p2pke.VerifMaxNonce) - uint64(r.Intn(3))
		e.setNonce(gen.Pick(r, []int{i, rs}), n)
	}
	for s := 0; s < 15+r.Intn(25); s++ {
		who := gen.Pick(r, []int{i, rs, i, rs, i2, r2})
		switch r.Intn(5) {
		case 0, 1:
			tag++
			e.send(who, tag)
		case 2: // deliver some data message to some session (right or wrong)
			for t := 0; t < 4; t++ {
				j := r.Intn(len(e.msgs))
				if e.isData(j) {
					e.deliverMsg(gen.Pick(r, []int{i, rs, i, rs, i2, r2}), j)
					break
				}
			}
		case 3:
			j := r.Intn(len(e.msgs))
			if e.isData(j) {
				e.deliverBody(who, j)
			}
		default:
			j := r.Intn(len(e.msgs))
			if e.isData(j) {
				e.deliverHdr(who, j, uint32(16+r.Intn(6)))
			}
		}
	}
	e.emit(c, "data")
}

func runKe(c *ctxT, handshakeHeavy bool) {
	r := c.rng
	n := c.scale(300, 10000)
	for i := 0; i < n; i++ {
		rr := r.Fork()
		switch k := i % 6; {
		case k == 0:
			keNetwork(c, rr, !handshakeHeavy)
		case k == 1:
			keSplice(c, rr)
		case k == 2:
			keForgeResp(c, rr)
		case k == 3 && handshakeHeavy:
			keSplice(c, rr)
		case k == 4 && handshakeHeavy:
			keForgeResp(c, rr)
		default:
			keData(c, rr)
		}
	}
}

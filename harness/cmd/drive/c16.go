package main

import (
	"bytes"
	"crypto/ed25519"
	"fmt"
	"net/netip"
	"reflect"
	"strings"

	"go.brendoncarroll.net/p2p"
	"go.brendoncarroll.net/p2p/s/memswarm"
	"go.brendoncarroll.net/p2p/s/multiswarm"
	"go.brendoncarroll.net/p2p/s/p2pkeswarm"
	"go.brendoncarroll.net/p2p/s/quicswarm"
	"go.brendoncarroll.net/p2p/s/sshswarm"
	"go.brendoncarroll.net/p2p/s/udpswarm"
	"golang.org/x/crypto/ssh"

	"verifharness/internal/gen"
	"verifharness/internal/sx"
)

func init() { drivers["C16"] = runC16 }

type gschema struct {
	kind  string // mem udp ssh ke quic multi
	inner *gschema
	subs  []struct {
		name string
		s    *gschema
	}
}

func (s *gschema) sx() sx.V {
	switch s.kind {
	case "ke", "quic":
		return sx.L(sx.S("ke"), s.inner.sx())
	case "multi":
		items := []sx.V{sx.S("multi")}
		for _, e := range s.subs {
			items = append(items, sx.L(sx.B([]byte(e.name)), e.s.sx()))
		}
		return sx.L(items...)
	}
	return sx.S(s.kind)
}

type dynParser = func([]byte) (p2p.Addr, error)

func (s *gschema) parser() dynParser {
	switch s.kind {
	case "mem":
		return func(b []byte) (p2p.Addr, error) { return memswarm.ParseAddr(b) }
	case "udp":
		return func(b []byte) (p2p.Addr, error) { return udpswarm.ParseAddr(b) }
	case "ssh":
		return func(b []byte) (p2p.Addr, error) { return sshswarm.ParseAddr(b) }
	case "ke":
		in := s.inner.parser()
		return func(b []byte) (p2p.Addr, error) { return p2pkeswarm.ParseAddr[p2p.Addr](in, b) }
	case "quic":
		in := s.inner.parser()
		return func(b []byte) (p2p.Addr, error) { return quicswarm.ParseAddr[p2p.Addr](in, b) }
	default:
		m := map[string]multiswarm.DynSwarm{}
		for _, e := range s.subs {
			if _, dup := m[e.name]; !dup {
				m[e.name] = parseOnlySwarm{p: e.s.parser()}
			}
		}
		sch := multiswarm.NewSchemaFromSwarms(m)
		return func(b []byte) (p2p.Addr, error) { return sch.ParseAddr(b) }
	}
}

// parseOnlySwarm provides ParseAddr to multiswarm's schema constructor
type parseOnlySwarm struct {
	p2p.Swarm[p2p.Addr]
	p dynParser
}

func (s parseOnlySwarm) ParseAddr(b []byte) (p2p.Addr, error) { return s.p(b) }

func genIP(r *gen.R, c *ctxT) netip.Addr {
	var ip netip.Addr
	switch r.Intn(10) {
	case 0:
		ip = netip.MustParseAddr(gen.Pick(r, []string{"0.0.0.0", "255.255.255.255", "127.0.0.1", "10.0.0.1"}))
	case 1, 2:
		ip = netip.AddrFrom4([4]byte(r.Bytes(4)))
	case 3:
		ip = netip.MustParseAddr(gen.Pick(r, []string{"::", "::1", "fe80::1", "2001:db8::", "ff02::1"}))
	case 4, 5:
		ip = netip.AddrFrom16([16]byte(r.Bytes(16)))
	case 6: // IPv4-mapped, as seen on dual-stack sockets
		b := [16]byte{10: 0xff, 11: 0xff}
		copy(b[12:], r.Bytes(4))
		ip = netip.AddrFrom16(b)
	case 7: // zone
		ip = netip.AddrFrom16([16]byte(r.Bytes(16))).WithZone(gen.Pick(r, []string{"eth0", "lo", "1"}))
	default:
		b := [16]byte{}
		copy(b[r.Intn(14):], r.Bytes(2))
		ip = netip.AddrFrom16(b)
	}
	// assumption test: netip's text codec round-trips and avoids the separators the model assumes absent
	txt := ip.String()
	back, err := netip.ParseAddr(txt)
	if err != nil || back != ip || strings.ContainsAny(txt, "\n[]") || txt == "" {
		c.count("ASSUMPTION-FAILED/netip-text")
	} else {
		c.count("assumption-ok/netip-text")
	}
	return ip
}

func genPort(r *gen.R) uint16 {
	switch r.Intn(5) {
	case 0:
		return 0
	case 1:
		return 1
	case 2:
		return 65535
	}
	return uint16(r.U64())
}

var goodSchemes = []string{"udp", "quic", "ssh", "mem", "a", "x-y", "p2pke+udp", "s:", "a/b", "UDP", "u_d.p", ":"}
var badSchemes = []string{"", "a://b", "://", "a\nb"}

// builds a random schema of the given depth and an address fitting it
func genSchemaAddr(r *gen.R, c *ctxT, depth int, allowBad bool) (*gschema, p2p.Addr, sx.V, bool) {
	k := r.Intn(6)
	if depth <= 0 && k >= 3 {
		k = r.Intn(3)
	}
	switch k {
	case 0:
		n := r.Intn(1000)
		if r.Intn(4) == 0 {
			n = gen.Pick(r, []int{0, 1, 1 << 31, 1<<62 + 12345})
		}
		return &gschema{kind: "mem"}, memswarm.Addr{N: n}, sx.L(sx.S("mem"), sx.I(n)), false
	case 1:
		ip, p := genIP(r, c), genPort(r)
		return &gschema{kind: "udp"}, udpswarm.Addr{IP: ip, Port: p}, sx.L(sx.S("udp"), sx.B([]byte(ip.String())), sx.I(int(p))), false
	case 2:
		pub, _, _ := ed25519.GenerateKey(bytes.NewReader(r.Bytes(64)))
		spub, _ := ssh.NewPublicKey(pub)
		fp := ssh.FingerprintSHA256(spub)
		ip, p := genIP(r, c), genPort(r)
		if strings.Contains(fp, "+") {
			c.count("ssh-fingerprint-with-plus")
		}
		return &gschema{kind: "ssh"}, sshswarm.Addr{Fingerprint: fp, IP: ip, Port: p},
			sx.L(sx.S("ssh"), sx.B([]byte(fp)), sx.B([]byte(ip.String())), sx.I(int(p))), false
	case 3, 4:
		is, ia, isx, bad := genSchemaAddr(r, c, depth-1, allowBad)
		var id p2p.PeerID
		copy(id[:], r.Bytes(32))
		if k == 3 {
			return &gschema{kind: "ke", inner: is}, p2pkeswarm.Addr[p2p.Addr]{ID: id, Addr: ia}, sx.L(sx.S("ke"), sx.B(id[:]), isx), bad
		}
		return &gschema{kind: "quic", inner: is}, quicswarm.Addr[p2p.Addr]{ID: id, Addr: ia}, sx.L(sx.S("ke"), sx.B(id[:]), isx), bad
	default:
		is, ia, isx, bad := genSchemaAddr(r, c, depth-1, allowBad)
		name := gen.Pick(r, goodSchemes)
		if allowBad && r.Intn(4) == 0 {
			name = gen.Pick(r, badSchemes)
			bad = true
		}
		s := &gschema{kind: "multi"}
		// other transports registered beside the one in use (never shadowing it)
		for j := 0; j < r.Intn(3); j++ {
			os, _, _, _ := genSchemaAddr(r, c, 0, false)
			oname := gen.Pick(r, goodSchemes)
			if oname != name {
				s.subs = append(s.subs, struct {
					name string
					s    *gschema
				}{oname, os})
			}
		}
		s.subs = append(s.subs, struct {
			name string
			s    *gschema
		}{name, is})
		return s, multiswarm.Addr{Scheme: name, Addr: ia}, sx.L(sx.S("multi"), sx.B([]byte(name)), isx), bad
	}
}

func shape(s *gschema) string {
	switch s.kind {
	case "ke", "quic":
		return s.kind + "(" + shape(s.inner) + ")"
	case "multi":
		return "multi(" + shape(s.subs[len(s.subs)-1].s) + ")"
	}
	return s.kind
}

func runC16(c *ctxT) {
	r := c.rng
	n := c.scale(1500, 40000)
	for i := 0; i < n; i++ {
		s, a, asx, bad := genSchemaAddr(r, c, r.Intn(4), i%10 == 0)
		parse := s.parser()
		txt, err := a.MarshalText()
		if err != nil {
			panic(err)
		}
		res := sx.S("err")
		if back, err := parse(txt); err == nil {
			t2, _ := back.MarshalText()
			if reflect.DeepEqual(back, a) && bytes.Equal(t2, txt) {
				res = sx.S("ok")
			}
		}
		c.emit(sx.L(sx.S("rt"), s.sx(), asx), sx.L(sx.B(txt), res))
		c.count(fmt.Sprintf("rt/%s/badscheme=%v", shape(s), bad))
		// arbitrary text: mutate the valid text, or random
		cand := append([]byte{}, txt...)
		switch r.Intn(6) {
		case 5: // another spelling of the last base64 digit of a peer id (spare bits set)
			if at := bytes.IndexByte(cand, '@'); at > 0 {
				cand[at-1] = p2p.Base64Alphabet[r.Intn(64)]
			}
		case 0:
			cand = r.Bytes(r.Intn(30))
		case 1:
			if len(cand) > 0 {
				cand[r.Intn(len(cand))] = gen.Pick(r, []byte{'@', ':', '/', '[', ']', '%', '\n', '0', 'z', '+', ' '})
			}
		case 2:
			if len(cand) > 0 {
				cand = cand[:r.Intn(len(cand))]
			}
		case 3:
			cand = append(cand, gen.Pick(r, []string{"0", ":1", "@", " ", "\n", "x"})...)
		default: // non-canonical spellings of the same address
			cand = bytes.Replace(cand, []byte(":"), []byte(":0"), 1)
		}
		obs := sx.Err()
		if pa, err := parse(cand); err == nil {
			t2, _ := pa.MarshalText()
			again, err2 := parse(t2)
			okAgain := err2 == nil && reflect.DeepEqual(again, pa) && !bytes.Contains(t2, []byte("invalid IP"))
			obs = sx.L(sx.S("ok"), sx.B(t2), sx.Bool(okAgain))
		}
		c.emitNT(sx.L(sx.S("parse"), s.sx(), sx.B(cand)), obs, string(obs) != "(err)")
		c.count("parse/" + obsClass(obs))
	}
	// harvested addresses: real sockets
	for _, laddr := range []string{"127.0.0.1:0", "[::1]:0", ":0"} {
		sw, err := udpswarm.New(laddr)
		if err != nil {
			c.count("harvest-skipped/" + laddr)
			continue
		}
		for _, a := range sw.LocalAddrs() {
			txt, _ := a.MarshalText()
			res := sx.S("err")
			if back, err := sw.ParseAddr(txt); err == nil && back == a {
				res = sx.S("ok")
			}
			c.emit(sx.L(sx.S("rt"), sx.S("udp"), sx.L(sx.S("udp"), sx.B([]byte(a.IP.String())), sx.I(int(a.Port)))), sx.L(sx.B(txt), res))
			c.count("harvested/" + laddr)
		}
		sw.Close()
	}
}

package main

import (
	"bufio"
	"bytes"
	"context"
	"encoding/binary"
	"fmt"
	"os"
	"os/exec"
	"runtime"
	"strings"
	"time"

	"go.brendoncarroll.net/p2p"
	"go.brendoncarroll.net/p2p/f/x509"
	"go.brendoncarroll.net/p2p/p/kademlia"
	"go.brendoncarroll.net/p2p/p/mbapp"
	"go.brendoncarroll.net/p2p/s/fragswarm"
	"go.brendoncarroll.net/p2p/s/memswarm"
	"go.brendoncarroll.net/p2p/s/multiswarm"
	"go.brendoncarroll.net/p2p/s/p2pkeswarm"
	"go.brendoncarroll.net/p2p/s/quicswarm"
	"go.brendoncarroll.net/p2p/s/sshswarm"
	"go.brendoncarroll.net/p2p/s/udpswarm"

	"verifharness/internal/ctrlnet"
	"verifharness/internal/gen"
	"verifharness/internal/sx"
)

func init() { drivers["C08"] = runC08 }

// Batches that feed real layers through their own goroutines run in a child
// process: a panic there kills the process, the parent sees the unfinished case
// line and completes it with the observation "panic".
var c08Children = []string{"frag", "mbapp", "ke"}

func runC08(c *ctxT) {
	if childKind != "" {
		switch childKind {
		case "frag", "mbapp":
			c08FragBatch(c, childKind)
		case "ke":
			c08KeBatch(c)
		default:
			panic(childKind)
		}
		return
	}
	// ---- crash-isolated batches ----
	for _, kind := range c08Children {
		tmp, err := os.CreateTemp("", "c08-"+kind+"-*.cases")
		if err != nil {
			panic(err)
		}
		tmp.Close()
		seed := c.rng.U64()
		cmd := exec.Command(os.Args[0], "-prop", "C08", "-tier", c.tier, "-seed", fmt.Sprint(seed), "-child", kind, "-out", tmp.Name())
		var stderr bytes.Buffer
		cmd.Stderr = &stderr
		runErr := cmd.Run()
		data, _ := os.ReadFile(tmp.Name())
		os.Remove(tmp.Name())
		crashed := false
		if len(data) > 0 && data[len(data)-1] != '\n' {
			data = append(data, []byte("panic\t1\n")...)
			crashed = true
		}
		c.out.Write(data)
		n := bytes.Count(data, []byte("\n"))
		c.n += n
		c.hist["child/"+kind+"/cases"] += n
		if crashed || runErr != nil {
			c.hist["child/"+kind+"/crashed"]++
			msg := stderr.String()
			if i := strings.Index(msg, "panic:"); i >= 0 {
				msg = msg[i:]
			}
			if len(msg) > 1500 {
				msg = msg[:1500]
			}
			c.extra["child-"+kind+"-stderr"] = msg
			if !crashed { // died between cases: still a crash of the batch
				fmt.Fprintf(c.out, "%s\t%s\t%s\t1\n", c.prop, sx.L(sx.S("junk08"), sx.S(kind), sx.S("batch-died-between-cases")), sx.S("panic"))
				c.n++
			}
		}
	}
	// ---- multiplexers: the demultiplexing functions on adversarial bytes (through the hook) ----
	r := c.rng
	for _, k := range muxKinds {
		for i := 0; i < c.scale(300, 6000); i++ {
			var raw []byte
			if r.Intn(5) == 0 {
				raw = k.hookMux(genChan(r, k), genPayload(r))
			} else {
				raw = genRaw(r, k)
			}
			obs, _ := safeDemux(k, raw)
			c.emit(sx.L(sx.S("unframe"), sx.S(k.name), sx.B(raw)), obs)
			c.count("unframe/" + k.name + "/" + obsClass(obs))
		}
	}
	// ---- parsers and handlers called synchronously ----
	c08Parsers(c)
}

// ---------------------------------------------------------------- fragmenting layers

func uvar(x uint64) []byte {
	b := make([]byte, binary.MaxVarintLen64)
	return b[:binary.PutUvarint(b, x)]
}

func forgeFrag(r *gen.R, genuine [][]byte) []byte {
	id := uint64(r.Intn(3))
	switch r.Intn(12) {
	case 0:
		return nil
	case 1:
		return r.Bytes(1 + r.Intn(20))
	case 2: // truncated header
		h := append(uvar(id), uvar(uint64(r.Intn(4)))...)
		return h[:r.Intn(len(h)+1)]
	case 3: // over-long / overflowing varints
		return append([]byte{0xff, 0xff, 0xff, 0xff, 0xff, 0xff, 0xff, 0xff, 0xff, byte(r.Intn(4))}, r.Bytes(r.Intn(6))...)
	case 4: // part >= total
		t := uint64(r.Intn(5))
		return concat(uvar(id), uvar(t+uint64(r.Intn(3))), uvar(t), r.Bytes(r.Intn(8)))
	case 5, 6: // same id as a genuine message, another total, any part below it
		t := uint64(gen.Pick(r, []int{2, 3, 4, 5, 9, 200, 255, 256, 257, 511}))
		p := uint64(r.Intn(int(t%256) + 1))
		return concat(uvar(id), uvar(p), uvar(t), r.Bytes(r.Intn(8)))
	case 7: // fields that only differ beyond the uint8 / uint32 truncation
		return concat(uvar(id+1<<32), uvar(uint64(r.Intn(3))+256), uvar(uint64(2+r.Intn(3))+256*uint64(r.Intn(3))), r.Bytes(r.Intn(8)))
	case 8: // highest part index
		return concat(uvar(id), uvar(254), uvar(255), r.Bytes(r.Intn(8)))
	default: // a genuine fragment, possibly mutated or truncated
		if len(genuine) == 0 {
			return r.Bytes(3)
		}
		f := append([]byte{}, genuine[r.Intn(len(genuine))]...)
		switch r.Intn(4) {
		case 0:
			if len(f) > 0 {
				f[r.Intn(min(len(f), 4))] ^= byte(1 << uint(r.Intn(8)))
			}
		case 1:
			f = f[:r.Intn(len(f)+1)]
		}
		return f
	}
}

func concat(bs ...[]byte) []byte {
	var out []byte
	for _, b := range bs {
		out = append(out, b...)
	}
	return out
}

func mbHeader(w0, origin, counter, total uint32, index, count uint16, timeout uint32) []byte {
	h := make([]byte, 24)
	binary.BigEndian.PutUint32(h[0:], w0)
	binary.BigEndian.PutUint32(h[4:], origin)
	binary.BigEndian.PutUint32(h[8:], counter)
	binary.BigEndian.PutUint32(h[12:], total)
	binary.BigEndian.PutUint16(h[16:], index)
	binary.BigEndian.PutUint16(h[18:], count)
	binary.BigEndian.PutUint32(h[20:], timeout)
	return h
}

func forgeMb(r *gen.R, genuine [][]byte, mtu int) []byte {
	origin, counter := uint32(0), uint32(r.Intn(3))
	if len(genuine) > 0 { // collide with a genuine group when possible
		g := genuine[r.Intn(len(genuine))]
		if len(g) >= 24 {
			origin = binary.BigEndian.Uint32(g[4:])
			if r.Bool() {
				counter = binary.BigEndian.Uint32(g[8:])
			}
		}
	}
	switch r.Intn(12) {
	case 0:
		return nil
	case 1:
		return r.Bytes(1 + r.Intn(40))
	case 2: // shorter than a header
		return mbHeader(0, origin, counter, 5, 0, 2, 0)[:r.Intn(24)]
	case 3: // announced total beyond the MTU, or enormous
		return append(mbHeader(0, origin, counter, gen.Pick(r, []uint32{uint32(mtu) + 1, 1 << 31, 0xffffffff}), uint16(r.Intn(3)), uint16(2+r.Intn(3)), 0), r.Bytes(r.Intn(8))...)
	case 4: // index >= count
		cnt := uint16(2 + r.Intn(4))
		return append(mbHeader(0, origin, counter, uint32(r.Intn(40)), cnt+uint16(r.Intn(3)), cnt, 0), r.Bytes(r.Intn(8))...)
	case 5: // body longer than the announced total (negative offset for the last part)
		cnt := uint16(2 + r.Intn(3))
		return append(mbHeader(0, origin, counter, uint32(r.Intn(4)), cnt-1, cnt, 0), r.Bytes(5+r.Intn(20))...)
	case 6: // offset beyond the buffer
		cnt := uint16(3 + r.Intn(60))
		return append(mbHeader(0, origin, counter, uint32(1+r.Intn(10)), uint16(1+r.Intn(int(cnt)-1)), cnt, 0), r.Bytes(5+r.Intn(20))...)
	case 7: // counts at the ends of the range
		cnt := gen.Pick(r, []uint16{0, 1, 2, 8, 16, 65535})
		idx := uint16(0)
		if cnt > 0 {
			idx = uint16(r.Intn(int(cnt)))
		}
		return append(mbHeader(0, origin, counter, uint32(r.Intn(60)), idx, cnt, 0), r.Bytes(r.Intn(12))...)
	case 8: // ask / reply bits and error codes on unknown groups
		w0 := gen.Pick(r, []uint32{1 << 31, 1<<31 | 1<<30, 1 << 30, 1<<31 | 1<<30 | 0xff, 0x00ffff00})
		return append(mbHeader(w0, origin, counter, uint32(r.Intn(6)), 0, uint16(r.Intn(2)), uint32(r.Intn(50))), r.Bytes(r.Intn(6))...)
	default:
		if len(genuine) == 0 {
			return r.Bytes(30)
		}
		f := append([]byte{}, genuine[r.Intn(len(genuine))]...)
		switch r.Intn(4) {
		case 0: // one header field changed
			if len(f) >= 24 {
				off := gen.Pick(r, []int{12, 13, 14, 15, 16, 17, 18, 19})
				f[off] ^= byte(1 << uint(r.Intn(8)))
			}
		case 1:
			f = f[:r.Intn(len(f)+1)]
		}
		return f
	}
}

func c08FragBatch(c *ctxT, kind string) {
	var k fragLayerKind
	for _, fk := range fragKinds {
		if (kind == "frag" && fk.name == "frag") || (kind == "mbapp" && fk.name == "mbapp") {
			k = fk
		}
	}
	n := c.scale(120, 3000)
	for i := 0; i < n; i++ {
		c08FragCase(c, c.rng.Fork(), k)
	}
}

func c08FragCase(c *ctxT, r *gen.R, k fragLayerKind) {
	ctx, cancel := context.WithCancel(context.Background())
	defer cancel()
	inner := gen.Pick(r, []int{k.hdr + 2, 40, 64, 200})
	cfg := gen.Pick(r, []int{1 << 16, 100, 4000})
	net := ctrlnet.New(inner)
	rn := net.NewNode()
	upper := k.wrap(rn, cfg)
	dr := startDrain(ctx, upper)
	if ms, ok := upper.(*mbapp.Swarm[cAddr, string]); ok { // asks must not block the single worker
		go func() {
			for {
				if err := ms.ServeAsk(ctx, func(ctx context.Context, resp []byte, m p2p.Message[cAddr]) int { return 0 }); err != nil {
					return
				}
			}
		}()
	}
	workers := k.workers()
	rn.WaitIdle(workers)
	// genuine fragments of a few messages from two sources
	var genuine [][]byte
	srcs := []*ctrlnet.Node{net.NewNode(), net.NewNode()}
	part := inner - k.hdr
	for _, sn := range srcs {
		su := k.wrap(sn, cfg)
		for m := 0; m < 1+r.Intn(2); m++ {
			size := gen.Pick(r, []int{1, part, part + 1, 2*part + 1, 3 * part})
			if size > cfg {
				size = cfg
			}
			_ = su.Tell(ctx, rn.LocalAddr(), p2p.IOVec{patBytes(uint64(r.Intn(1000)), size)})
		}
	}
	var pool []ctrlnet.Packet
	for _, p := range net.Take() {
		if p.Dst == rn.LocalAddr() {
			pool = append(pool, p)
			genuine = append(genuine, p.Data)
		}
	}
	// the adversarial sequence: forged packets (from either genuine source address) and genuine ones
	nPk := 4 + r.Intn(30)
	var sched []ctrlnet.Packet
	for j := 0; j < nPk; j++ {
		src := srcs[r.Intn(len(srcs))].LocalAddr()
		if r.Intn(3) == 0 && len(pool) > 0 {
			sched = append(sched, pool[r.Intn(len(pool))])
			continue
		}
		var data []byte
		if k.name == "frag" {
			data = forgeFrag(r, genuine)
		} else {
			data = forgeMb(r, genuine, cfg)
		}
		if len(data) > inner {
			data = data[:inner]
		}
		sched = append(sched, ctrlnet.Packet{Src: src, Dst: rn.LocalAddr(), Data: data})
	}
	// and finally a valid single-part message: the node must still serve
	probe := []byte("still-serving")
	{
		sn := net.NewNode()
		su := k.wrap(sn, cfg)
		if err := su.Tell(ctx, rn.LocalAddr(), p2p.IOVec{probe}); err != nil {
			panic(err)
		}
		sched = append(sched, net.Take()...)
	}
	pkts := make([]sx.V, len(sched))
	for i, p := range sched {
		pkts[i] = sx.L(sx.B(addrText(p.Src)), sx.B(p.Data))
	}
	c.begin(sx.L(sx.S("recv08"), sx.S(k.name), sx.I(cfg), sx.L(pkts...)))
	var obs []sx.V
	for _, p := range sched {
		net.DeliverSync(p, workers)
		got := dr.take()
		switch len(got) {
		case 0:
			obs = append(obs, sx.None())
		case 1:
			obs = append(obs, sx.L(sx.B(addrText(got[0].src)), sx.B(got[0].payload)))
		default:
			obs = append(obs, sx.S("multiple-deliveries-for-one-packet"))
		}
	}
	c.end(sx.L(obs...))
	upper.Close()
}

// ---------------------------------------------------------------- p2pkeswarm

func c08KeBatch(c *ctxT) {
	n := c.scale(40, 800)
	for i := 0; i < n; i++ {
		c08KeCase(c, c.rng.Fork(), i)
	}
}

func c08KeCase(c *ctxT, r *gen.R, i int) {
	ctx, cancel := context.WithCancel(context.Background())
	defer cancel()
	net := ctrlnet.New(1 << 16)
	rn, an, hn := net.NewNode(), net.NewNode(), net.NewNode()
	victim := p2pkeswarm.New[cAddr](rn, testKey(300), p2pkeswarm.WithBackground[cAddr](ctx))
	honest := p2pkeswarm.New[cAddr](hn, testKey(301), p2pkeswarm.WithBackground[cAddr](ctx))
	defer victim.Close()
	defer honest.Close()
	dr := &drain{}
	go func() {
		for {
			if err := victim.Receive(ctx, func(m p2p.Message[p2pkeswarm.Addr[cAddr]]) {
				dr.mu.Lock()
				dr.got = append(dr.got, delivered{payload: append([]byte{}, m.Payload...)})
				dr.mu.Unlock()
			}); err != nil {
				return
			}
		}
	}()
	// genuine handshake material to mutate: an honest peer's InitHello towards the victim
	net.Auto = false
	hctx, hcf := context.WithTimeout(ctx, 50*time.Millisecond)
	go honest.Tell(hctx, p2pkeswarm.Addr[cAddr]{ID: victim.LocalAddrs()[0].ID, Addr: rn.LocalAddr()}, p2p.IOVec{[]byte("x")})
	time.Sleep(2 * time.Millisecond)
	var genuine [][]byte
	for _, p := range net.Take() {
		genuine = append(genuine, p.Data)
	}
	hcf()
	var sched [][]byte
	for j := 0; j < 5+r.Intn(25); j++ {
		var d []byte
		switch r.Intn(9) {
		case 0:
			d = nil
		case 1:
			d = r.Bytes(1 + r.Intn(3))
		case 2: // every header value with junk of varied length
			d = make([]byte, 4+gen.Pick(r, []int{0, 1, 2, 15, 16, 17, 31, 32, 33, 48, 100, 300}))
			copy(d[4:], r.Bytes(len(d)-4))
			binary.BigEndian.PutUint32(d, gen.Pick(r, []uint32{0, 1, 2, 3, 4, 15, 16, 17, 0xfffffffe, 0xffffffff}))
		case 3: // InitHello-shaped: junk with a length suffix that is short, exact, or too long
			body := r.Bytes(gen.Pick(r, []int{0, 1, 2, 32 + r.Intn(80)}))
			// parseInitHello sees body+trailer (n = len(body)+2 bytes): the claim is valid up to n-2
			l := gen.Pick(r, []int{0, 1, len(body) - 34, len(body) - 2, len(body) - 1, len(body), len(body) + 1, len(body) + 2, len(body) + 3, 65535})
			d = concat([]byte{0, 0, 0, 0}, body, []byte{byte(l >> 8), byte(l)})
		case 4, 5, 6: // a genuine message mutated, truncated or extended
			if len(genuine) > 0 {
				d = append([]byte{}, genuine[r.Intn(len(genuine))]...)
				switch r.Intn(4) {
				case 0:
					d[r.Intn(len(d))] ^= byte(1 << uint(r.Intn(8)))
				case 1:
					d = d[:r.Intn(len(d)+1)]
				case 2:
					d = append(d, r.Bytes(1+r.Intn(5))...)
				}
			}
		default:
			d = r.Bytes(4 + r.Intn(200))
		}
		sched = append(sched, d)
	}
	pk := make([]sx.V, len(sched))
	for i, d := range sched {
		pk[i] = sx.B(d)
	}
	c.begin(sx.L(sx.S("junk08"), sx.S("ke"), sx.L(pk...)))
	workers := 1 + runtime.GOMAXPROCS(0)
	for _, d := range sched {
		net.DeliverSync(ctrlnet.Packet{Src: an.LocalAddr(), Dst: rn.LocalAddr(), Data: d}, workers)
	}
	// the node keeps serving: a fresh honest peer completes a handshake and its message arrives
	net.Auto = true
	net.Take()
	sctx, scf := context.WithTimeout(ctx, 5*time.Second)
	err := honest.Tell(sctx, p2pkeswarm.Addr[cAddr]{ID: victim.LocalAddrs()[0].ID, Addr: rn.LocalAddr()}, p2p.IOVec{[]byte("still-serving")})
	scf()
	served := 0
	deadline := time.Now().Add(3 * time.Second)
	for err == nil && time.Now().Before(deadline) {
		dr.mu.Lock()
		for _, g := range dr.got {
			if string(g.payload) == "still-serving" {
				served = 1
			}
		}
		dr.mu.Unlock()
		if served == 1 {
			break
		}
		time.Sleep(200 * time.Microsecond)
	}
	c.end(sx.L(sx.I(1), sx.I(served)))
}

// ---------------------------------------------------------------- synchronous parsers and handlers

func c08Parsers(c *ctxT) {
	r := c.rng
	run := func(kind string, in []byte, f func()) {
		obs := sx.S("ok")
		func() {
			defer func() {
				if e := recover(); e != nil {
					obs = sx.S("panic")
				}
			}()
			f()
		}()
		c.emit(sx.L(sx.S("parse08"), sx.S(kind), sx.B(in)), obs)
		c.count("parse08/" + kind)
	}
	for i := 0; i < c.scale(10, 100); i++ { // a reply completed after Ask gave up must not panic (close of a closed channel)
		buf, reply := r.Bytes(1+r.Intn(20)), r.Bytes(1+r.Intn(30))
		run("mbapp-late-reply", reply, func() { mbapp.VerifLateReply(buf, reply) })
	}
	memParse := func(b []byte) (memswarm.Addr, error) { return memswarm.ParseAddr(b) }
	udpParse := func(b []byte) (udpswarm.Addr, error) { return udpswarm.ParseAddr(b) }
	schema := multiswarm.NewSchemaFromSwarms(map[string]multiswarm.DynSwarm{
		"mem": parseOnlySwarm{p: func(b []byte) (p2p.Addr, error) { return memswarm.ParseAddr(b) }},
		"udp": parseOnlySwarm{p: func(b []byte) (p2p.Addr, error) { return udpswarm.ParseAddr(b) }},
	})
	validAddrs := []string{"0", "12", "127.0.0.1:80", "[::1]:443", "mem://3", "udp://10.0.0.1:9",
		"AAAAAAAAAAAAAAAAAAAAAAAAAAAAAAAAAAAAAAAAAAA@5", "ssh-ed25519+AAAA@1.2.3.4:22"}
	genText := func() []byte {
		switch r.Intn(6) {
		case 0:
			return r.Bytes(r.Intn(40))
		case 1:
			return nil
		case 2, 3:
			b := []byte(gen.Pick(r, validAddrs))
			if len(b) > 0 {
				switch r.Intn(3) {
				case 0:
					b[r.Intn(len(b))] = byte(r.Intn(256))
				case 1:
					b = b[:r.Intn(len(b)+1)]
				}
			}
			return b
		case 4:
			return []byte(strings.Repeat(gen.Pick(r, []string{"@", ":", "/", "[", "]", "a", "://", "\x00"}), 1+r.Intn(70)))
		default:
			return append([]byte(gen.Pick(r, validAddrs)), r.Bytes(r.Intn(5))...)
		}
	}
	pub := x509.MarshalPublicKey(nil, func() *x509.PublicKey {
		k := testKey(7)
		p, err := x509.DefaultRegistry().PublicFromPrivate(&k)
		if err != nil {
			panic(err)
		}
		return &p
	}())
	node := kademlia.NewDHTNode(kademlia.DHTNodeParams{LocalID: p2p.PeerID{1, 2, 3}, PeerCacheSize: 32, DataCacheSize: 8})
	node0 := kademlia.NewDHTNode(kademlia.DHTNodeParams{LocalID: p2p.PeerID{9}, PeerCacheSize: 0, DataCacheSize: 0})
	for _, n := range []int{44, 45, 46, 47, 48, 60, 64, 86, 100, 172, 1000} {
		long := bytes.Repeat([]byte{p2p.Base64Alphabet[r.Intn(64)]}, n)
		withAt := append(append([]byte{}, long...), []byte("@5")...)
		run("peerid", long, func() { var id p2p.PeerID; _ = id.UnmarshalText(long) })
		run("ke-addr", withAt, func() { _, _ = p2pkeswarm.ParseAddr[memswarm.Addr](memParse, withAt) })
		run("quic-addr", withAt, func() { _, _ = quicswarm.ParseAddr[memswarm.Addr](memParse, withAt) })
	}
	for i := 0; i < c.scale(1500, 40000); i++ {
		t := genText()
		switch i % 10 {
		case 0:
			run("peerid", t, func() { var id p2p.PeerID; _ = id.UnmarshalText(t) })
		case 1:
			run("udp", t, func() { _, _ = udpswarm.ParseAddr(t) })
		case 2:
			run("ssh", t, func() { _, _ = sshswarm.ParseAddr(t) })
		case 3:
			run("multi", t, func() { _, _ = schema.ParseAddr(t) })
		case 4:
			run("ke-addr", t, func() { _, _ = p2pkeswarm.ParseAddr[memswarm.Addr](memParse, t) })
		case 5:
			run("quic-addr", t, func() { _, _ = quicswarm.ParseAddr[udpswarm.Addr](udpParse, t) })
		case 6: // public keys: random, mutated, truncated DER
			d := append([]byte{}, pub...)
			switch r.Intn(4) {
			case 0:
				d = r.Bytes(r.Intn(60))
			case 1:
				d[r.Intn(len(d))] = byte(r.Intn(256))
			case 2:
				d = d[:r.Intn(len(d)+1)]
			default:
				d = append(d, r.Bytes(r.Intn(4))...)
			}
			run("pubkey", d, func() {
				pk, err := x509.ParsePublicKey(d)
				if err == nil {
					_, _ = x509.DefaultRegistry().LoadVerifier(&pk)
				}
				_, _ = x509.DefaultRegistry().ParseVerifier(d)
			})
		case 7: // quic frames: length prefix versus what follows and the buffer
			l := gen.Pick(r, []uint32{0, 1, 5, 100, 1 << 20, 1<<20 + 1, 1 << 31, 0xffffffff})
			d := make([]byte, 4)
			binary.BigEndian.PutUint32(d, l)
			d = append(d, r.Bytes(r.Intn(12))...)
			if r.Intn(5) == 0 {
				d = d[:r.Intn(4)]
			}
			run("quic-frame", d, func() {
				buf := make([]byte, gen.Pick(r, []int{0, 4, 64}))
				_, _ = quicswarm.VerifReadFrame(bufio.NewReader(bytes.NewReader(d)), buf, 1<<20)
			})
		default: // DHT handlers with arbitrary keys, TTLs and limits
			key := r.Bytes(gen.Pick(r, []int{0, 1, 2, 31, 32, 33, 64}))
			nd := node
			if r.Intn(4) == 0 {
				nd = node0
			}
			run("dht", key, func() {
				var from, target p2p.PeerID
				copy(target[:], key)
				nd.AddPeer(target, key)
				_, _ = nd.HandlePut(from, kademlia.PutReq{Key: key, Value: t, TTLms: gen.Pick(r, []uint64{0, 1, 1 << 40, 1<<64 - 1})})
				_, _ = nd.HandleGet(from, kademlia.GetReq{Key: key})
				_, _ = nd.HandleFindNode(from, kademlia.FindNodeReq{Target: target, Limit: gen.Pick(r, []int{-1 << 62, -1, 0, 1, 10, 11, 1 << 62})})
			})
		}
	}
}

var _ = fragswarm.Overhead

package main

import (
	"verifharness/internal/ctrlnet"
	"verifharness/internal/gen"
)

func init() { drivers["C09"] = runC09 }

func runC09(c *ctxT) {
	r := c.rng
	quicBaseCases(c, c.rng.Fork())
	// ---- fragmenting layers: reported MTU honest, fragments fit, payload intact ----
	nFrag := c.scale(120, 1500)
	for i := 0; i < nFrag; i++ {
		k := fragKinds[i%2]
		inner := gen.Pick(r, []int{k.hdr - 1, k.hdr, k.hdr + 1, k.hdr + 2, 40, 64, 100, 576, 1280})
		if r.Intn(3) == 0 {
			inner = k.hdr + 1 + r.Intn(60)
		}
		part := inner - k.hdr
		maxParts := 255
		if k.name == "mbapp" {
			maxParts = 65535
		}
		cfg := gen.Pick(r, []int{1 << 16, 1 << 16, 100, 1000, 1 << 20, 1 << 24})
		cap := cfg
		if part > 0 && maxParts*part < cap {
			cap = maxParts * part
		}
		if part <= 0 {
			cap = 0
		}
		sizes := []int{0, 1, cap - 1, cap, cap + 1, part - 1, part, part + 1, 2 * part, 2*part + 1, 254 * part, 255 * part, 255*part + 1, 256 * part}
		size := gen.Pick(r, sizes)
		if r.Intn(4) == 0 && cap > 0 {
			size = r.Intn(cap + 2)
		}
		if size < 0 {
			size = 0
		}
		// keep the very large mbapp cases rare in the quick tier
		// the very large cases (up to 65535 parts) are kept rare in the quick tier
		if size > 20000 && !((c.thorough() && i%8 == 0) || i%60 == 0) {
			size = size % 5000
		}
		if size > 300000 {
			size = 300000
		}
		fragTellCase(c, k, inner, cfg, uint64(i)*13+5, size)
	}
	// the part-count limits themselves: the smallest parts, payloads of exactly the
	// reported MTU and one either side (65535 parts for mbapp, 255 for fragswarm)
	for _, k := range fragKinds {
		for _, extra := range []int{1} {
			inner := k.hdr + extra
			probe := ctrlnet.New(inner)
			pu := k.wrap(probe.NewNode(), 1<<24)
			reported := pu.MTU()
			pu.Close()
			for _, d := range []int{0, 1} {
				if reported+d >= 0 {
					fragTellCase(c, k, inner, 1<<24, uint64(inner*7+d+3), reported+d)
				}
			}
		}
	}
	// ---- whole stacks of real layers: mux, fragmenting, P2PKE, multi-transport ----
	nStack := c.scale(260, 4000)
	for i := 0; i < nStack; i++ {
		rr := r.Fork()
		spec := genStack(rr)
		if spec.Ke {
			probe := newStackWorld(stackSpec{Base: spec.Base, Lower: spec.Lower}, 1)
			room := probe.ends[0].mtu()
			probe.close()
			if room < 600 {
				spec.Ke, spec.Upper = false, nil
			}
		}
		kind := rr.Intn(8)
		stackTellCase(c, spec, uint64(i)*11+3, func(reported int) int {
			sz := reported
			switch kind {
			case 0:
				sz = reported + 1
			case 1:
				sz = reported - 1
			case 2:
				sz = gen.Pick(rr, []int{0, 1, 2, 100})
			case 3:
				if reported > 0 {
					sz = rr.Intn(reported + 1)
				}
			case 4:
				sz = reported + gen.Pick(rr, []int{2, 20, 100, 5000})
			}
			// very large payloads stay rare in the quick tier
			if sz > 70000 && !(c.thorough() || i%40 == 0) {
				sz = sz % 3000
			}
			if sz > 1100000 {
				sz = 1100000
			}
			return sz
		})
	}
}

package main

import (
	"sync/atomic"
	"time"

	"go.brendoncarroll.net/p2p/p/p2pke"

	"verifharness/internal/gen"
	"verifharness/internal/sx"
)

// timerCases drives the real p2pke.Timer (the timer behind handshake
// retransmission and rekey) with scripts; its callback re-arms the timer itself
// while it has budget, the way onHandshake does.
// case = (timer (<op> ...))  op = (arm <budget>) | (stop) | (q);  obs = fires so far, one per (q)
func timerCases(c *ctxT, r *gen.R) {
	n := c.scale(24, 300)
	for i := 0; i < n; i++ {
		var fires, budget atomic.Int64
		var t *p2pke.Timer
		t = p2pke.VerifNewTimer(func() {
			fires.Add(1)
			if budget.Load() > 0 {
				budget.Add(-1)
				t.Reset(time.Millisecond)
			}
		})
		var ops, obs []sx.V
		nOps := 1 + r.Intn(4)
		for j := 0; j < nOps; j++ {
			b := r.Intn(5)
			stop := r.Intn(4) == 0
			ops = append(ops, sx.L(sx.S("arm"), sx.I(b)))
			budget.Store(int64(b))
			if stop {
				t.Reset(150 * time.Millisecond)
				ops = append(ops, sx.L(sx.S("stop")))
				t.Stop()
			} else {
				t.Reset(time.Millisecond)
			}
			ops = append(ops, sx.L(sx.S("q")))
			// quiesce: nothing pending and the count stable
			deadline := time.Now().Add(4 * time.Second)
			settle := 30 * time.Millisecond
			if stop {
				settle = 220 * time.Millisecond // past the armed duration: a stopped timer must stay silent
			}
			for time.Now().Before(deadline) {
				time.Sleep(3 * time.Millisecond)
				if t.IsPending() {
					continue
				}
				f0 := fires.Load()
				time.Sleep(settle)
				if !t.IsPending() && fires.Load() == f0 {
					break
				}
			}
			obs = append(obs, sx.I(int(fires.Load())))
		}
		t.StopSync()
		c.emit(sx.L(sx.S("timer"), sx.L(ops...)), sx.L(obs...))
		c.count("timer")
	}
}

package main

import (
	"context"
	"sync"
	"sync/atomic"
	"time"

	"go.brendoncarroll.net/p2p"

	"verifharness/internal/ctrlnet"
	"verifharness/internal/gen"
	"verifharness/internal/sx"
)

// fragSlowReceiver: the application is slow taking a reassembled message (its Receive
// callback is still running) while the source restarts and the first fragment of its new
// message, numbered like the old one, arrives.  The new fragment must not be combined with
// the fragments of the message being handed up.  Emitted as an ordinary (recv ...) case.
func fragSlowReceiver(c *ctxT, r *gen.R) {
	k := fragKinds[0]
	ctx, cancel := context.WithCancel(context.Background())
	defer cancel()
	part := 4 + r.Intn(12)
	net := ctrlnet.New(k.hdr + part)
	recvNode := net.NewNode()
	cfgMTU := 1 << 16
	upper := k.wrap(recvNode, cfgMTU)
	var mu sync.Mutex
	var got []delivered
	var holdNext atomic.Bool
	release := make(chan struct{})
	go func() {
		for {
			if err := upper.Receive(ctx, func(m p2p.Message[cAddr]) {
				mu.Lock()
				got = append(got, delivered{m.Src, append([]byte{}, m.Payload...)})
				mu.Unlock()
				if holdNext.CompareAndSwap(true, false) {
					<-release // a slow application
				}
			}); err != nil {
				return
			}
		}
	}()
	take := func() []delivered {
		mu.Lock()
		defer mu.Unlock()
		out := got
		got = nil
		return out
	}
	workers := k.workers()
	recvNode.WaitIdle(workers)
	sn := net.NewNode()
	nParts := 2 + r.Intn(3)
	mkMsg := func(tag byte) ([]byte, []ctrlnet.Packet) {
		su := k.wrap(sn, cfgMTU) // a fresh layer: its message ids start from the beginning
		payload := patBytes(uint64(tag)*91+3, nParts*part)
		payload[0] = tag
		if err := su.Tell(ctx, recvNode.LocalAddr(), p2p.IOVec{payload}); err != nil {
			panic(err)
		}
		return payload, net.Take()
	}
	pa, fa := mkMsg(0xA1)
	pb, fb := mkMsg(0xB2)
	if len(fa) != nParts || len(fb) != nParts {
		return
	}
	ledger := []sx.V{sx.L(sx.B(addrText(sn.LocalAddr())), sx.B(pa)), sx.L(sx.B(addrText(sn.LocalAddr())), sx.B(pb))}
	var pkts, obs []sx.V
	one := func(d []delivered, i int) sx.V {
		if i < len(d) {
			return sx.L(sx.B(addrText(d[i].src)), sx.B(d[i].payload))
		}
		return sx.None()
	}
	add := func(p ctrlnet.Packet) { pkts = append(pkts, sx.L(sx.B(addrText(p.Src)), sx.B(p.Data))) }
	for _, p := range fa[:nParts-1] {
		net.DeliverSync(p, workers)
		add(p)
		obs = append(obs, one(take(), 0))
	}
	// the last fragment of A completes it; the application holds the message
	holdNext.Store(true)
	net.Deliver(fa[nParts-1])
	add(fa[nParts-1])
	time.Sleep(4 * time.Millisecond)
	// meanwhile the first fragment of B (same source, same id) arrives
	net.Deliver(fb[0])
	add(fb[0])
	time.Sleep(4 * time.Millisecond)
	close(release)
	recvNode.WaitIdle(workers)
	time.Sleep(2 * time.Millisecond)
	d := take()
	obs = append(obs, one(d, 0), one(d, 1))
	for _, p := range fb[1:] {
		net.DeliverSync(p, workers)
		add(p)
		obs = append(obs, one(take(), 0))
	}
	cs := sx.L(sx.S("recv"), sx.S(k.name), sx.I(cfgMTU), sx.L(ledger...), sx.L(pkts...))
	c.emit(cs, sx.L(obs...))
	c.count("frag/slow-receiver-restarted-sender")
	upper.Close()
}

package main

import (
	"bytes"
	"fmt"
	"sort"
	"time"

	"go.brendoncarroll.net/p2p/p/kademlia"

	"verifharness/internal/gen"
	"verifharness/internal/sx"
)

func init() {
	drivers["C18"] = runC18
	drivers["C19"] = runC19
}

type kcache = kademlia.Cache[[]byte]
type kentry = kademlia.Entry[[]byte]

func tm(k int64) time.Time    { return time.Time{}.Add(time.Duration(k)) }
func tmOff(t time.Time) int64 { return int64(t.Sub(time.Time{})) }

func sxZ(z int64) sx.V {
	if z < 0 {
		return sx.L(sx.S("-"), sx.N(uint64(-z)))
	}
	return sx.N(uint64(z))
}

func sxEntry(e kentry) sx.V {
	return sx.L(sx.B(e.Key), sx.B(e.Value), sxZ(tmOff(e.CreatedAt)), sxZ(tmOff(e.ExpiresAt)))
}

func sxEntryPtr(e *kentry) sx.V {
	if e == nil {
		return sx.None()
	}
	return sx.Some(sxEntry(*e))
}

func sortedEntries(es []kentry) sx.V {
	sort.Slice(es, func(i, j int) bool { return bytes.Compare(es[i].Key, es[j].Key) < 0 })
	out := make([]sx.V, len(es))
	for i, e := range es {
		out[i] = sxEntry(e)
	}
	return sx.L(out...)
}

func keysSx(ks [][]byte, sorted bool) sx.V {
	if sorted {
		sort.Slice(ks, func(i, j int) bool { return bytes.Compare(ks[i], ks[j]) < 0 })
	}
	out := make([]sx.V, len(ks))
	for i, k := range ks {
		out[i] = sx.B(k)
	}
	return sx.L(out...)
}

// canonVisit sorts runs of keys at equal distance from q by key (map order dependent)
func canonVisit(q []byte, ks [][]byte) [][]byte {
	out := [][]byte{}
	i := 0
	for i < len(ks) {
		j := i + 1
		for j < len(ks) && kademlia.DistanceCmp(q, ks[i], ks[j]) == 0 {
			j++
		}
		run := append([][]byte{}, ks[i:j]...)
		sort.Slice(run, func(a, b int) bool { return bytes.Compare(run[a], run[b]) < 0 })
		out = append(out, run...)
		i = j
	}
	return out
}

type cacheRun struct {
	c    *kcache
	ops  []sx.V
	obs  []sx.V
	dead bool
}

func (r *cacheRun) contents() sx.V {
	var es []kentry
	r.c.ForEach(nil, func(e kentry) bool { es = append(es, e); return true })
	return sortedEntries(es)
}

// do runs f (one cache operation) under recover; res is the op's result observation
func (r *cacheRun) do(op func() sx.V, f func() sx.V) {
	if r.dead {
		return
	}
	var res sx.V
	func() {
		defer func() {
			if e := recover(); e != nil {
				r.dead = true
			}
		}()
		res = f()
	}()
	if r.dead {
		r.ops = append(r.ops, op())
		r.obs = append(r.obs, sx.S("panic"))
		return
	}
	r.ops = append(r.ops, op())
	r.obs = append(r.obs, sx.L(res, sxZ(int64(r.c.Count())), r.contents()))
}

func (r *cacheRun) put(keep bool, k, v []byte, now, exp int64) {
	var victim []byte
	tag := "put"
	if keep {
		tag = "keep"
	}
	r.do(func() sx.V { return sx.L(sx.S(tag), sx.B(k), sx.B(v), sxZ(now), sxZ(exp), sx.B(victim)) },
		func() sx.V {
			var ev *kentry
			var added bool
			if keep {
				ev, added = r.c.Update(k, func(e kentry, exists bool) kentry {
					e2 := e
					if !exists {
						e2.Key = k
						e2.CreatedAt = tm(now)
					}
					e2.ExpiresAt = tm(exp)
					e2.Value = append([]byte{}, v...)
					return e2
				})
			} else {
				kb, vb := append([]byte{}, k...), append([]byte{}, v...)
				ev, added = r.c.Put(kb, vb, tm(now), tm(exp))
				if ev != nil { // (read the victim before the caller's buffers are reused)
					victim = append([]byte{}, ev.Key...)
					evc := *ev
					evc.Key = victim
					evc.Value = append([]byte{}, ev.Value...)
					ev = &evc
				}
				for i := range kb { // the caller reuses its key buffer
					kb[i] ^= 0x5a
				}
			}
			if ev != nil {
				victim = ev.Key
			}
			return sx.L(sx.S("put"), sxEntryPtr(ev), sx.Bool(added))
		})
}
func (r *cacheRun) del(k []byte) {
	r.do(func() sx.V { return sx.L(sx.S("del"), sx.B(k)) },
		func() sx.V { return sx.L(sx.S("del"), sxEntryPtr(r.c.Delete(k))) })
}
func (r *cacheRun) expire(now int64) {
	r.do(func() sx.V { return sx.L(sx.S("expire"), sxZ(now)) },
		func() sx.V { return sx.L(sx.S("expired"), sortedEntries(r.c.Expire(nil, tm(now)))) })
}
func (r *cacheRun) get(k []byte) {
	r.do(func() sx.V { return sx.L(sx.S("get"), sx.B(k)) },
		func() sx.V {
			v, ok := r.c.Get(k, tm(0))
			if ok != r.c.Contains(k, tm(0)) {
				return sx.S("get-contains-disagree")
			}
			if !ok {
				return sx.L(sx.S("got"), sx.None())
			}
			return sx.L(sx.S("got"), sx.Some(sx.B(v)))
		})
}
func (r *cacheRun) foreach(q []byte) {
	r.do(func() sx.V { return sx.L(sx.S("foreach"), sx.B(q)) },
		func() sx.V {
			var ks [][]byte
			r.c.ForEach(q, func(e kentry) bool { ks = append(ks, e.Key); return true })
			return sx.L(sx.S("visit"), keysSx(canonVisit(q, ks), false))
		})
}
func (r *cacheRun) closest(q []byte) {
	r.do(func() sx.V { return sx.L(sx.S("closest"), sx.B(q)) },
		func() sx.V {
			e := r.c.Closest(q)
			if e == nil {
				return sx.L(sx.S("closest"), sx.None())
			}
			// among equidistant entries any is a valid answer: report the least key at that distance
			best := e.Key
			r.c.ForEach(q, func(x kentry) bool {
				if kademlia.DistanceCmp(q, x.Key, e.Key) == 0 && bytes.Compare(x.Key, best) < 0 {
					best = x.Key
				}
				return true
			})
			return sx.L(sx.S("closest"), sx.Some(sx.B(best)))
		})
}
func (r *cacheRun) closer(q []byte) {
	r.do(func() sx.V { return sx.L(sx.S("closer"), sx.B(q)) },
		func() sx.V {
			var ks [][]byte
			r.c.ForEachCloser(q, func(e kentry) bool { ks = append(ks, e.Key); return true })
			return sx.L(sx.S("closer"), keysSx(ks, true))
		})
}
func (r *cacheRun) matching(p []byte, nbits int) {
	r.do(func() sx.V { return sx.L(sx.S("matching"), sx.B(p), sx.I(nbits)) },
		func() sx.V {
			var ks [][]byte
			r.c.ForEachMatching(p, nbits, func(e kentry) bool { ks = append(ks, e.Key); return true })
			return sx.L(sx.S("matching"), keysSx(ks, true))
		})
}

func newCacheRun(locus []byte, max, minpb int) (r *cacheRun, ok bool) {
	defer func() {
		if e := recover(); e != nil {
			r, ok = nil, false
		}
	}()
	return &cacheRun{c: kademlia.NewCache[[]byte](locus, max, minpb)}, true
}

func (r *cacheRun) emit(c *ctxT, locus []byte, max, minpb int, nontrivial bool) {
	cs := sx.L(sx.S("cache"), sx.B(locus), sx.I(max), sxZ(int64(minpb)), sx.L(r.ops...))
	c.emitNT(cs, sx.L(r.obs...), nontrivial)
}

// key generator: keys that share a chosen number of leading bits with the locus
func genKeyNear(r *gen.R, locus []byte, klen int) []byte {
	k := r.Bytes(klen)
	nb := 8 * len(locus)
	if klen < len(locus) {
		nb = 8 * klen
	}
	share := r.Intn(nb + 1)
	for i := 0; i < share; i++ {
		bit := byte(0x80 >> uint(i%8))
		k[i/8] = (k[i/8] &^ bit) | (locus[i/8] & bit)
	}
	if share < nb && r.Intn(3) > 0 { // force the differing bit so the bucket index is exactly share
		bit := byte(0x80 >> uint(share%8))
		k[share/8] = (k[share/8] &^ bit) | (^locus[share/8] & bit)
	}
	return k
}

// keyInBucket returns a key whose bucket index is exactly i (i <= 8*len(locus))
func keyInBucket(r *gen.R, locus []byte, klen, i int) []byte {
	k := r.Bytes(klen)
	for j := 0; j < i && j < 8*len(locus); j++ {
		bit := byte(0x80 >> uint(j%8))
		k[j/8] = (k[j/8] &^ bit) | (locus[j/8] & bit)
	}
	if i < 8*len(locus) {
		bit := byte(0x80 >> uint(i%8))
		k[i/8] = (k[i/8] &^ bit) | (^locus[i/8] & bit)
	}
	return k
}

func cacheConfig(r *gen.R) (locus []byte, max, minpb int) {
	switch r.Intn(4) {
	case 0:
		locus = r.Bytes(1)
	case 1:
		locus = r.Bytes(2)
	case 2:
		locus = r.Bytes(32)
	default:
		locus = r.Bytes(gen.Pick(r, []int{0, 1, 1, 3, 4}))
	}
	minpb = gen.Pick(r, []int{0, 0, 1, 1, 2, 3, 0, 1, 2, -1})
	lo := minpb * 8 * len(locus)
	if lo < 0 {
		lo = 0
	}
	switch r.Intn(6) {
	case 0:
		max = lo // boundary the constructor accepts
	case 1:
		max = lo + 1 + r.Intn(3)
	case 2:
		if lo > 0 && r.Intn(3) == 0 {
			max = lo - 1 // rejected
		} else {
			max = lo
		}
	case 3:
		max = r.Intn(4)
	default:
		max = lo + r.Intn(30)
	}
	return
}

func runC18(c *ctxT) {
	r := c.rng
	nHist := c.scale(260, 6000)
	for h := 0; h < nHist; h++ {
		locus, max, minpb := cacheConfig(r)
		run, ok := newCacheRun(locus, max, minpb)
		if !ok {
			c.emitNT(sx.L(sx.S("cache"), sx.B(locus), sx.I(max), sxZ(int64(minpb)), sx.L()), sx.S("ctor-panic"), true)
			c.count("ctor-panic")
			continue
		}
		klen := len(locus)
		if r.Intn(4) == 0 {
			klen = len(locus) + r.Intn(3)
		}
		if klen == 0 {
			klen = 1
		}
		// a small pool of keys makes overwrites, deletes and re-puts hit existing entries
		pool := make([][]byte, 3+r.Intn(40))
		for i := range pool {
			if len(locus) > 0 && r.Intn(5) > 0 {
				pool[i] = genKeyNear(r, locus, klen)
			} else {
				pool[i] = r.Bytes(klen)
			}
		}
		if len(locus) > 0 && r.Intn(3) == 0 {
			pool[0] = append(append([]byte{}, locus...), r.Bytes(klen-len(locus))...) // deepest bucket
		}
		nOps := 5 + r.Intn(c.scale(60, 200))
		now := int64(r.Intn(3)) - 1
		reached := false
		usedDelExp := false
		if len(locus) > 0 && len(locus) <= 4 && r.Intn(3) == 0 {
			// fill every bucket to its minimum first: the state in which nothing is evictable
			for i := 0; i <= 8*len(locus); i++ {
				for j := 0; j < minpb || (minpb == 0 && j < 1); j++ {
					k := keyInBucket(r, locus, klen, i)
					pool = append(pool, k)
					run.put(false, k, r.Bytes(1), int64(r.Intn(3))-1, 0)
				}
			}
			c.count("filled-to-minimum")
		}
		if max > len(pool) && r.Bool() {
			for len(pool) < max+3 {
				pool = append(pool, genKeyNear(r, locus, klen))
			}
			nOps += max
		}
		for i := 0; i < nOps && !run.dead; i++ {
			k := gen.Pick(r, pool)
			if r.Intn(3) > 0 {
				now += int64(r.Intn(3))
			}
			switch r.Intn(12) {
			case 0, 1, 2, 3, 4:
				exp := int64(0)
				if r.Intn(3) > 0 {
					exp = now + int64(r.Intn(6)) - 1
				}
				cr := now
				if r.Intn(4) == 0 {
					cr = int64(r.Intn(3)) - 1 // created at -1, 0, 1: the zero-time corner
				}
				run.put(false, k, r.Bytes(1+r.Intn(3)), cr, exp)
			case 5, 6:
				run.put(true, k, r.Bytes(1+r.Intn(3)), now, now+int64(r.Intn(6)))
			case 7:
				run.del(k)
				usedDelExp = true
			case 8:
				run.expire(now + int64(r.Intn(4)) - 1)
				usedDelExp = true
			case 9, 10:
				run.get(k)
			default:
				run.get(r.Bytes(klen))
			}
			if run.c.Count() >= max && max > 0 {
				reached = true
			}
		}
		run.emit(c, locus, max, minpb, reached || usedDelExp)
		c.count(fmt.Sprintf("locus%d/min%d/%s", len(locus), minpb, map[bool]string{true: "reached-capacity", false: "below-capacity"}[reached]))
		if run.dead {
			c.count("panic")
		}
	}
}

// distCases calls the comparison functions of distance.go directly on keys of
// mixed lengths (reference shorter / longer than the compared keys, shared prefixes, ties)
func distCases(c *ctxT, r *gen.R) {
	n := c.scale(500, 12000)
	for i := 0; i < n; i++ {
		x := r.Bytes(r.Intn(6))
		mk := func() []byte {
			k := r.Bytes(r.Intn(6))
			p := r.Intn(len(x) + 1) // share a prefix of x, possibly all of it
			for j := 0; j < p && j < len(k); j++ {
				k[j] = x[j]
			}
			if len(k) > 0 && r.Intn(3) == 0 {
				k[r.Intn(len(k))] ^= byte(1 << uint(r.Intn(8)))
			}
			return k
		}
		a, b := mk(), mk()
		switch r.Intn(6) {
		case 0:
			b = append([]byte{}, a...)
		case 1: // same distance on the reference's length, different lengths beyond it
			b = append(append([]byte{}, a...), r.Bytes(1+r.Intn(2))...)
		case 2:
			if len(a) > len(x) {
				b = append(append([]byte{}, a[:len(x)]...), r.Bytes(len(a)-len(x))...)
			}
		}
		c.emit(sx.L(sx.S("dist"), sx.B(x), sx.B(a), sx.B(b)),
			sx.L(sx.I(kademlia.DistanceCmp(x, a, b)+1), sx.I(kademlia.DistanceLz(a, b)), sx.I(kademlia.LeadingZeros(x))))
		c.count("dist")
	}
}

func runC19(c *ctxT) {
	r := c.rng
	distCases(c, c.rng.Fork())
	nHist := c.scale(300, 8000)
	for h := 0; h < nHist; h++ {
		var locus []byte
		switch r.Intn(3) {
		case 0:
			locus = r.Bytes(1)
		case 1:
			locus = r.Bytes(2)
		default:
			locus = r.Bytes(32)
		}
		klen := len(locus)
		if r.Intn(5) == 0 {
			klen += 1 + r.Intn(2)
		}
		max := 4 + r.Intn(40)
		minpb := 0
		if 8*len(locus) <= max && r.Bool() {
			minpb = 1
		}
		run, ok := newCacheRun(locus, max, minpb)
		if !ok {
			continue
		}
		nEnt := 1 + r.Intn(12)
		if len(locus) == 1 && r.Bool() {
			nEnt = 1 + r.Intn(4)
		}
		for i := 0; i < nEnt; i++ {
			run.put(false, genKeyNear(r, locus, klen), []byte{byte(i)}, int64(i), 0)
		}
		deepBuckets := 0
		nQ := 3 + r.Intn(6)
		for i := 0; i < nQ && !run.dead; i++ {
			var q []byte
			switch r.Intn(8) {
			case 0:
				q = []byte{}
			case 1: // shorter than the locus
				q = genKeyNear(r, locus, klen)[:r.Intn(len(locus))]
			case 2:
				q = append([]byte{}, locus...)
			case 3: // longer than the keys
				q = append(genKeyNear(r, locus, klen), r.Bytes(1+r.Intn(2))...)
			default:
				q = genKeyNear(r, locus, klen)
			}
			lz := kademlia.DistanceLz(locus, q)
			nDeeper := map[int]bool{}
			run.c.ForEach(nil, func(e kentry) bool {
				if b := kademlia.DistanceLz(locus, e.Key); b > lz {
					nDeeper[b] = true
				}
				return true
			})
			if len(nDeeper) >= 2 || len(q) < len(locus) {
				deepBuckets++
			}
			switch r.Intn(8) {
			case 0, 1, 2:
				run.foreach(q)
			case 3, 4:
				run.closest(q)
			case 5, 6:
				run.closer(q)
			default:
				if len(q) > 0 {
					nbits := r.Intn(8*len(q) + 1)
					l := nbits / 8
					if l%8 > 0 {
						l++
					}
					if l <= len(q) { // stay inside the API's own precondition
						run.matching(q, nbits)
					}
				}
			}
		}
		run.emit(c, locus, max, minpb, deepBuckets > 0)
		c.count(fmt.Sprintf("locus%d/keylen%d/entries%d", len(locus), klen, nEnt/4*4))
	}
}

package main

import (
	"context"
	"crypto/ed25519"
	"sync"
	"time"

	"go.brendoncarroll.net/p2p"
	"go.brendoncarroll.net/p2p/s/sshswarm"

	"verifharness/internal/sx"
)

// sshAskAfterReturn: Asks whose context has already ended return at once; the caller then
// reuses its request buffer.  Whatever the peer's handler is shown must be bytes that were
// passed to Ask (the library must not read the caller's buffers after Ask returned).
// Returns the number of requests the handler saw that were never asked.
func sshAskAfterReturn(rep int) int {
	mk := func(b byte) *sshswarm.Swarm {
		seed := make([]byte, 32)
		seed[0] = b
		signer, err := sshswarm.NewSignerFromSigner(ed25519.NewKeyFromSeed(seed))
		if err != nil {
			panic(err)
		}
		sw, err := sshswarm.New("127.0.0.1:", signer)
		if err != nil {
			panic(err)
		}
		return sw
	}
	srv, cli := mk(120), mk(121)
	defer srv.Close()
	defer cli.Close()
	var mu sync.Mutex
	foreign := 0
	go func() {
		for {
			if err := srv.ServeAsk(context.Background(), func(ctx context.Context, resp []byte, m p2p.Message[sshswarm.Addr]) int {
				okReq := len(m.Payload) > 0
				for _, b := range m.Payload {
					if b != 0x11 {
						okReq = false
					}
				}
				if !okReq {
					mu.Lock()
					foreign++
					mu.Unlock()
				}
				return 0
			}); err != nil {
				return
			}
		}
	}()
	dst := srv.LocalAddrs()[0]
	// one ordinary ask first, so that a connection exists
	wctx, wcf := context.WithTimeout(context.Background(), 3*time.Second)
	warm := []byte{0x11, 0x11, 0x11}
	cli.Ask(wctx, make([]byte, 8), dst, p2p.IOVec{warm})
	wcf()
	for i := 0; i < 25; i++ {
		buf := make([]byte, 16+rep%8)
		for j := range buf {
			buf[j] = 0x11
		}
		ctx, cf := context.WithCancel(context.Background())
		cf()
		cli.Ask(ctx, make([]byte, 8), dst, p2p.IOVec{buf})
		for j := range buf { // the caller reuses its buffer
			buf[j] = 0xEE
		}
	}
	time.Sleep(80 * time.Millisecond)
	mu.Lock()
	defer mu.Unlock()
	return foreign
}

func c14Extras(c *ctxT) {
	for i := 0; i < c.scale(3, 20); i++ {
		n := sshAskAfterReturn(i)
		c.emit(sx.L(sx.S("own"), sx.S("ssh-ask-request-buffer-after-return"), sx.I(i)), sx.L(sx.S("changed"), sx.I(n)))
		c.count("own/ssh-ask-after-return")
	}
	for i := 0; i < c.scale(4, 30); i++ {
		_, bad := udpConcurrentRun(i)
		c.emit(sx.L(sx.S("own"), sx.S("udp-concurrent-receivers"), sx.I(i)), sx.L(sx.S("changed"), sx.I(bad)))
		c.count("own/udp-concurrent")
	}
}

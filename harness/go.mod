module verifharness

go 1.21

require go.brendoncarroll.net/p2p v0.0.0

require (
	github.com/pkg/errors v0.9.1 // indirect
	go.brendoncarroll.net/stdctx v0.0.0-20241118190518-40d09f4d11e7 // indirect
	go.brendoncarroll.net/tai64 v0.0.0-20241118171318-6e12d283d5e4 // indirect
	go.uber.org/atomic v1.7.0 // indirect
	go.uber.org/multierr v1.6.0 // indirect
	go.uber.org/zap v1.24.0 // indirect
	golang.org/x/exp v0.0.0-20230522175609-2e198f4a06a1 // indirect
)

replace go.brendoncarroll.net/p2p => /repo

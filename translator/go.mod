module veriftranslator

go 1.21

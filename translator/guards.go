package main

import (
	"fmt"
	"go/ast"
	"go/constant"
	"go/token"
	"strings"
)

// evalGuard evaluates the single-return boolean method recv.name of package rel
// under an environment for receiver fields.  Supports && || ! comparisons,
// integer constants and calls to other single-return methods of the receiver.
type guardEnv struct {
	p      *pkgInfo
	recv   string
	fields map[string]int64 // receiver field -> value (bools as 0/1)
}

func (g *guardEnv) method(name string) ast.Expr {
	fd := findMethod(g.p, g.recv, name)
	if fd == nil || fd.Body == nil || len(fd.Body.List) != 1 {
		return nil
	}
	rs, ok := fd.Body.List[0].(*ast.ReturnStmt)
	if !ok || len(rs.Results) != 1 {
		return nil
	}
	return rs.Results[0]
}

func (g *guardEnv) eval(e ast.Expr) (int64, bool) {
	switch x := e.(type) {
	case *ast.ParenExpr:
		return g.eval(x.X)
	case *ast.BasicLit:
		if tv, ok := g.p.info.Types[x]; ok && tv.Value != nil {
			if v, ok := constant.Int64Val(tv.Value); ok {
				return v, true
			}
		}
		return 0, false
	case *ast.Ident:
		if tv, ok := g.p.info.Types[x]; ok && tv.Value != nil {
			if v, ok := constant.Int64Val(constant.ToInt(tv.Value)); ok {
				return v, true
			}
		}
		if x.Name == "true" {
			return 1, true
		}
		if x.Name == "false" {
			return 0, true
		}
		return 0, false
	case *ast.SelectorExpr:
		if v, ok := g.fields[x.Sel.Name]; ok {
			return v, true
		}
		return 0, false
	case *ast.UnaryExpr:
		v, ok := g.eval(x.X)
		if !ok {
			return 0, false
		}
		if x.Op == token.NOT {
			return 1 - v, true
		}
		return 0, false
	case *ast.CallExpr:
		if se, ok := x.Fun.(*ast.SelectorExpr); ok && len(x.Args) == 0 {
			if body := g.method(se.Sel.Name); body != nil {
				return g.eval(body)
			}
		}
		return 0, false
	case *ast.BinaryExpr:
		a, ok1 := g.eval(x.X)
		b, ok2 := g.eval(x.Y)
		if !ok1 || !ok2 {
			return 0, false
		}
		bo := func(c bool) (int64, bool) {
			if c {
				return 1, true
			}
			return 0, true
		}
		switch x.Op {
		case token.LAND:
			return bo(a != 0 && b != 0)
		case token.LOR:
			return bo(a != 0 || b != 0)
		case token.GEQ:
			return bo(a >= b)
		case token.LEQ:
			return bo(a <= b)
		case token.GTR:
			return bo(a > b)
		case token.LSS:
			return bo(a < b)
		case token.EQL:
			return bo(a == b)
		case token.NEQ:
			return bo(a != b)
		}
	}
	return 0, false
}

// guardTable emits the truth table of method recv.name over (isInit in {false,true}) x (hsIndex in 0..255)
// as a Coq list of booleans: index = isInit*256 + hsIndex.
func guardTable(rel, recv, name, coqName string) {
	p := load(rel)
	g := &guardEnv{p: p, recv: recv, fields: map[string]int64{}}
	body := g.method(name)
	if body == nil {
		out.Missing = append(out.Missing, rel+"."+recv+"."+name)
		return
	}
	var sb strings.Builder
	sb.WriteString("[")
	for isInit := int64(0); isInit < 2; isInit++ {
		for hs := int64(0); hs < 256; hs++ {
			g.fields["isInit"], g.fields["hsIndex"] = isInit, hs
			v, ok := g.eval(body)
			if !ok {
				out.Missing = append(out.Missing, rel+"."+recv+"."+name+" (unsupported expression)")
				return
			}
			if isInit+hs > 0 {
				sb.WriteString(";")
			}
			if v != 0 {
				sb.WriteString("true")
			} else {
				sb.WriteString("false")
			}
		}
	}
	sb.WriteString("]")
	fmt.Fprintf(&extraCoq, "Definition %s : list bool := %s.\n", coqName, sb.String())
	out.Lists[coqName] = []string{"truth table over isInit x hsIndex(0..255)"}
}

package main

import (
	"bytes"
	"go/ast"
	"go/constant"
	"go/printer"
	"go/types"
	"strings"
)

func exprString(e ast.Expr) string {
	var b bytes.Buffer
	printer.Fprint(&b, fsetAll, e)
	return b.String()
}

func findFunc(p *pkgInfo, name string) *ast.FuncDecl {
	for _, f := range p.files {
		for _, d := range f.Decls {
			if fd, ok := d.(*ast.FuncDecl); ok && fd.Name.Name == name && fd.Recv == nil {
				return fd
			}
		}
	}
	return nil
}

func findMethod(p *pkgInfo, recv, name string) *ast.FuncDecl {
	for _, f := range p.files {
		for _, d := range f.Decls {
			fd, ok := d.(*ast.FuncDecl)
			if !ok || fd.Name.Name != name || fd.Recv == nil || len(fd.Recv.List) == 0 {
				continue
			}
			if recvName(fd.Recv.List[0].Type) == recv {
				return fd
			}
		}
	}
	return nil
}

func recvName(e ast.Expr) string {
	switch t := e.(type) {
	case *ast.StarExpr:
		return recvName(t.X)
	case *ast.Ident:
		return t.Name
	case *ast.IndexExpr:
		return recvName(t.X)
	case *ast.IndexListExpr:
		return recvName(t.X)
	}
	return ""
}

// funcLocalConst records the integer constant `name` declared inside function fn.
func funcLocalConst(rel, fn, name, coqName string) {
	p := load(rel)
	fd := findFunc(p, fn)
	if fd == nil {
		out.Missing = append(out.Missing, rel+"."+fn)
		return
	}
	var val constant.Value
	ast.Inspect(fd.Body, func(n ast.Node) bool {
		if id, ok := n.(*ast.Ident); ok && id.Name == name {
			if c, ok := p.info.Defs[id].(*types.Const); ok {
				val = c.Val()
			}
		}
		return true
	})
	if val == nil || val.Kind() != constant.Int {
		out.Missing = append(out.Missing, rel+"."+fn+"."+name)
		return
	}
	out.Consts[coqName] = val.ExactString()
}

// callArg records argument idx of the first call to callee inside function fn:
// as an integer constant when the type checker evaluates it, else as source text.
func callArg(rel, fn, callee string, idx int, coqName string) {
	p := load(rel)
	fd := findFunc(p, fn)
	if fd == nil {
		out.Missing = append(out.Missing, rel+"."+fn)
		return
	}
	done := false
	ast.Inspect(fd.Body, func(n ast.Node) bool {
		ce, ok := n.(*ast.CallExpr)
		if !ok || done {
			return true
		}
		name := ""
		switch f := ce.Fun.(type) {
		case *ast.Ident:
			name = f.Name
		case *ast.SelectorExpr:
			name = f.Sel.Name
		}
		if name != callee || idx >= len(ce.Args) {
			return true
		}
		done = true
		arg := ce.Args[idx]
		if tv, ok := p.info.Types[arg]; ok && tv.Value != nil && tv.Value.Kind() == constant.Int {
			out.Consts[coqName] = tv.Value.ExactString()
		} else {
			out.Strings[coqName] = strings.ReplaceAll(exprString(arg), " ", "")
		}
		return false
	})
	if !done {
		out.Missing = append(out.Missing, rel+"."+fn+"->"+callee)
	}
}

// constString records a package-level string constant.
func constString(rel, name, coqName string) {
	p := load(rel)
	obj := p.pkg.Scope().Lookup(name)
	c, ok := obj.(*types.Const)
	if !ok || c.Val().Kind() != constant.String {
		out.Missing = append(out.Missing, rel+"."+name)
		return
	}
	out.Strings[coqName] = constant.StringVal(c.Val())
}

// callsWithPrefix records, in order, the selector calls pkg.Fn inside function fn whose package name is prefix.
func callsWithPrefix(rel, fn, prefix, coqName string) {
	p := load(rel)
	fd := findFunc(p, fn)
	if fd == nil {
		out.Missing = append(out.Missing, rel+"."+fn)
		return
	}
	var names []string
	ast.Inspect(fd.Body, func(n ast.Node) bool {
		if ce, ok := n.(*ast.CallExpr); ok {
			if se, ok := ce.Fun.(*ast.SelectorExpr); ok {
				if id, ok := se.X.(*ast.Ident); ok && id.Name == prefix {
					names = append(names, se.Sel.Name)
				}
			}
		}
		return true
	})
	out.Strings[coqName] = strings.Join(names, ",")
}

// regexSource records the pattern literal of  var name = regexp.MustCompile(`...`)
func regexSource(rel, name, coqName string) {
	p := load(rel)
	for _, f := range p.files {
		for _, d := range f.Decls {
			gd, ok := d.(*ast.GenDecl)
			if !ok {
				continue
			}
			for _, sp := range gd.Specs {
				vs, ok := sp.(*ast.ValueSpec)
				if !ok || len(vs.Names) != 1 || vs.Names[0].Name != name || len(vs.Values) != 1 {
					continue
				}
				if ce, ok := vs.Values[0].(*ast.CallExpr); ok && len(ce.Args) == 1 {
					if tv, ok := p.info.Types[ce.Args[0]]; ok && tv.Value != nil && tv.Value.Kind() == constant.String {
						out.Strings[coqName] = constant.StringVal(tv.Value)
						return
					}
				}
			}
		}
	}
	out.Missing = append(out.Missing, rel+"."+name)
}

// methodCallsWithPrefix: like callsWithPrefix for a method of recv.
func methodCallsWithPrefix(rel, recv, fn, prefix, coqName string) {
	p := load(rel)
	fd := findMethod(p, recv, fn)
	if fd == nil {
		out.Missing = append(out.Missing, rel+"."+recv+"."+fn)
		return
	}
	var names []string
	ast.Inspect(fd.Body, func(n ast.Node) bool {
		if ce, ok := n.(*ast.CallExpr); ok {
			if se, ok := ce.Fun.(*ast.SelectorExpr); ok {
				if id, ok := se.X.(*ast.Ident); ok && id.Name == prefix {
					names = append(names, se.Sel.Name)
				}
			}
		}
		return true
	})
	out.Strings[coqName] = strings.Join(names, ",")
}

// methodSource records the whitespace-normalised source text of a method body
// (comments dropped), so that a model can state exactly which code it was written against.
func methodSource(rel, recv, fn, coqName string) {
	p := load(rel)
	fd := findMethod(p, recv, fn)
	if recv == "" {
		fd = findFunc(p, fn)
	}
	if fd == nil || fd.Body == nil {
		out.Missing = append(out.Missing, rel+"."+recv+"."+fn)
		return
	}
	var b bytes.Buffer
	cfg := printer.Config{Mode: printer.RawFormat}
	cfg.Fprint(&b, fsetAll, fd.Body)
	var lines []string
	for _, ln := range strings.Split(b.String(), "\n") {
		if i := strings.Index(ln, "//"); i >= 0 {
			ln = ln[:i]
		}
		lines = append(lines, ln)
	}
	out.Strings[coqName] = strings.Join(strings.Fields(strings.Join(lines, " ")), " ")
}

package main

import (
	"go/ast"
	"go/constant"
	"go/types"
)

func findFunc(p *pkgInfo, name string) *ast.FuncDecl {
	for _, f := range p.files {
		for _, d := range f.Decls {
			if fd, ok := d.(*ast.FuncDecl); ok && fd.Name.Name == name && fd.Recv == nil {
				return fd
			}
		}
	}
	return nil
}

func findMethod(p *pkgInfo, recv, name string) *ast.FuncDecl {
	for _, f := range p.files {
		for _, d := range f.Decls {
			fd, ok := d.(*ast.FuncDecl)
			if !ok || fd.Name.Name != name || fd.Recv == nil || len(fd.Recv.List) == 0 {
				continue
			}
			if recvName(fd.Recv.List[0].Type) == recv {
				return fd
			}
		}
	}
	return nil
}

func recvName(e ast.Expr) string {
	switch t := e.(type) {
	case *ast.StarExpr:
		return recvName(t.X)
	case *ast.Ident:
		return t.Name
	case *ast.IndexExpr:
		return recvName(t.X)
	case *ast.IndexListExpr:
		return recvName(t.X)
	}
	return ""
}

// funcLocalConst records the integer constant `name` declared inside function fn.
func funcLocalConst(rel, fn, name, coqName string) {
	p := load(rel)
	fd := findFunc(p, fn)
	if fd == nil {
		out.Missing = append(out.Missing, rel+"."+fn)
		return
	}
	var val constant.Value
	ast.Inspect(fd.Body, func(n ast.Node) bool {
		if id, ok := n.(*ast.Ident); ok && id.Name == name {
			if c, ok := p.info.Defs[id].(*types.Const); ok {
				val = c.Val()
			}
		}
		return true
	})
	if val == nil || val.Kind() != constant.Int {
		out.Missing = append(out.Missing, rel+"."+fn+"."+name)
		return
	}
	out.Consts[coqName] = val.ExactString()
}

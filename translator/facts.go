package main

// collect lists every fact extracted from the source.
func collect() {
	// C15 / C09: header widths of the fixed-width multiplexers
	funcLocalConst("p/p2pmux", "uint16MuxFunc", "size", "mux_u16_hdr")
	funcLocalConst("p/p2pmux", "uint32MuxFunc", "size", "mux_u32_hdr")
	funcLocalConst("p/p2pmux", "uint64MuxFunc", "size", "mux_u64_hdr")
	funcLocalConst("p/p2pmux", "uint16DemuxFunc", "size", "demux_u16_hdr")
	funcLocalConst("p/p2pmux", "uint32DemuxFunc", "size", "demux_u32_hdr")
	funcLocalConst("p/p2pmux", "uint64DemuxFunc", "size", "demux_u64_hdr")

	// C20: candidate widths handed to dhtIterate, and the find-node answer cap
	callArg("p/kademlia", "DHTFindNode", "dhtIterate", 2, "dht_find_width")
	callArg("p/kademlia", "DHTGet", "dhtIterate", 2, "dht_get_width")
	callArg("p/kademlia", "DHTJoin", "dhtIterate", 2, "dht_join_width_expr")
	callArg("p/kademlia", "DHTPut", "dhtIterate", 2, "dht_put_width_expr")

	// C17: peer-id text alphabet and size; hash used by each layer's DefaultFingerprinter
	constString(".", "Base64Alphabet", "base64_alphabet")
	constInt(".", "PeerIDSize", "peer_id_size")
	callsWithPrefix("s/p2pkeswarm", "DefaultFingerprinter", "sha3", "fp_hash_p2pkeswarm")
	callsWithPrefix("s/quicswarm", "DefaultFingerprinter", "sha3", "fp_hash_quicswarm")
	callsWithPrefix("s/p2pkeswarm", "DefaultFingerprinter", "x509", "fp_input_p2pkeswarm")
	callsWithPrefix("s/quicswarm", "DefaultFingerprinter", "x509", "fp_input_quicswarm")

	// C16: the two address regexps and how udpswarm joins / splits host and port
	regexSource("s/sshswarm", "addrRe", "ssh_addr_re")
	regexSource("s/multiswarm", "addrRe", "multi_addr_re")
	methodCallsWithPrefix("s/udpswarm", "Addr", "String", "net", "udp_string_net_calls")
	methodCallsWithPrefix("s/udpswarm", "Addr", "UnmarshalText", "net", "udp_unmarshal_net_calls")

	// C09: header sizes and the text of every MTU() the Stack model was written against
	constInt("s/fragswarm", "Overhead", "frag_overhead")
	constInt("p/mbapp", "HeaderSize", "mb_header_size")
	methodSource("s/fragswarm", "swarm", "MTU", "src_frag_mtu")
	methodSource("p/mbapp", "Swarm", "MTU", "src_mb_mtu")
	methodSource("p/p2pmux", "muxedSwarm", "MTU", "src_mux_mtu")
	methodSource("s/p2pkeswarm", "Swarm", "MTU", "src_ke_mtu")
	methodSource("s/multiswarm", "multiSwarm", "MTU", "src_multi_mtu")
	methodSource("s/multiswarm", "multiAsker", "Ask", "src_multi_ask")
	methodSource("s/multiswarm", "multiSwarm", "Tell", "src_multi_tell")

	// C08: the guards in front of every index / slice of the fragmenting receivers
	methodSource("s/fragswarm", "aggregator", "addPart", "src_frag_addpart")
	methodSource("s/fragswarm", "", "parseMessage", "src_frag_parse")
	methodSource("p/mbapp", "collector", "addPart", "src_mb_addpart")
	methodSource("p/mbapp", "", "ParseMessage", "src_mb_parse")
	methodSource("p/mbapp", "bitMap", "get", "src_mb_bitget")
	methodSource("p/mbapp", "bitMap", "set", "src_mb_bitset")
	methodSource("p/mbapp", "bitMap", "allSet", "src_mb_allset")
	methodSource("p/mbapp", "collector", "isComplete", "src_mb_iscomplete")
	methodSource("p/mbapp", "Swarm", "getCounter", "src_mb_getcounter")

	// C05 / C07: the channel methods the Channel model was written against
	methodSource("p/p2pke", "Channel", "Deliver", "src_ch_deliver")
	methodSource("p/p2pke", "Channel", "newResp", "src_ch_newresp")
	methodSource("p/p2pke", "Channel", "proposeNewSession", "src_ch_propose")
	methodSource("p/p2pke", "Channel", "onReadySession", "src_ch_onready")
	methodSource("p/p2pke", "Channel", "checkKey", "src_ch_checkkey")
	methodSource("p/p2pke", "Channel", "expireSessions", "src_ch_expire")
	methodSource("p/p2pke", "Channel", "onRekey", "src_ch_onrekey")
	methodSource("p/p2pke", "Channel", "onHandshake", "src_ch_onhandshake")
	methodSource("p/p2pke", "Channel", "getOrInit", "src_ch_getorinit")
	methodSource("p/p2pke", "Session", "readHandshake", "src_sess_readhandshake")

	// C10 / C11: what mbapp files reassembly state and outstanding asks under
	methodSource("p/mbapp", "fragLayer", "handlePart", "src_mb_handlepart")
	methodSource("p/mbapp", "Swarm", "handleAskReply", "src_mb_askreply")
	methodSource("p/mbapp", "ask", "complete", "src_mb_askcomplete")

	// C11 / C12 / C13: the hub and queue methods the Hub transition system was written against
	methodSource("s/swarmutil", "TellHub", "Receive", "src_hub_tell_receive")
	methodSource("s/swarmutil", "TellHub", "Deliver", "src_hub_tell_deliver")
	methodSource("s/swarmutil", "TellHub", "CloseWithError", "src_hub_tell_close")
	methodSource("s/swarmutil", "AskHub", "ServeAsk", "src_hub_ask_serve")
	methodSource("s/swarmutil", "AskHub", "Deliver", "src_hub_ask_deliver")
	methodSource("s/swarmutil", "AskHub", "CloseWithError", "src_hub_ask_close")
	methodSource("s/swarmutil", "Queue", "Receive", "src_queue_receive")
	methodSource("s/swarmutil", "Queue", "Deliver", "src_queue_deliver")
	methodSource("s/swarmutil", "Queue", "Close", "src_queue_close")
	methodSource("s/swarmutil", "Queue", "DeliverVec", "src_queue_delivervec")
	methodSource("s/swarmutil", "Queue", "Purge", "src_queue_purge")
	methodSource("p/p2pke", "", "parseInitHello", "src_ke_parse_ih")
	methodSource("p/p2pke", "", "newTimer", "src_ke_newtimer")
	methodSource("p/p2pke", "Timer", "Reset", "src_ke_timer_reset")
	methodSource("p/p2pke", "Timer", "Stop", "src_ke_timer_stop")
	methodSource("p/mbapp", "ask", "await", "src_mb_askawait")
	methodSource("p/mbapp", "ask", "abort", "src_mb_askabort")
	methodSource("s/wlswarm", "swarm", "Receive", "src_wl_receive")
	methodSource("s/wlswarm", "swarm", "Tell", "src_wl_tell")
	methodSource("s/wlswarm", "asker", "ServeAsk", "src_wl_serveask")
	methodSource("s/wlswarm", "asker", "Ask", "src_wl_ask")
	methodSource("p/kademlia", "", "DistanceCmp", "src_kad_distancecmp")
	methodSource("p/kademlia", "", "DistanceLz", "src_kad_distancelz")
	methodSource("p/kademlia", "", "LeadingZeros", "src_kad_leadingzeros")
	methodSource(".", "PeerID", "UnmarshalText", "src_peerid_unmarshal")
	methodSource(".", "PeerID", "MarshalText", "src_peerid_marshal")
	methodSource("s/p2pkeswarm", "Swarm", "getFullAddr", "src_kes_getfulladdr")
	methodSource("s/p2pkeswarm", "Swarm", "handleMessage", "src_kes_handlemessage")
	methodSource("s/quicswarm", "", "ParseAddr", "src_quic_parseaddr")
	methodSource("s/p2pkeswarm", "", "ParseAddr", "src_ke_parseaddr")
	methodSource("s/sshswarm", "", "ParseAddr", "src_ssh_parseaddr")
	methodSource("s/udpswarm", "", "ParseAddr", "src_udp_parseaddr")
	methodSource("s/multiswarm", "AddrSchema", "ParseAddr", "src_multi_parseaddr")

	// C02 / C03 / C06: P2PKE constants and the readiness guards as truth tables
	constInt("p/p2pke", "MaxNonce", "ke_max_nonce")
	constInt("p/p2pke", "noncePostHandshake", "ke_nonce_post_handshake")
	constInt("p/p2pke", "nonceInitHello", "ke_nonce_init_hello")
	constInt("p/p2pke", "nonceRespHello", "ke_nonce_resp_hello")
	constInt("p/p2pke", "nonceInitDone", "ke_nonce_init_done")
	constInt("p/p2pke", "nonceRespDone", "ke_nonce_resp_done")
	constInt("p/p2pke", "Overhead", "ke_overhead")
	constInt("p/p2pke", "MaxMessageLen", "ke_max_message_len")
	constString("p/p2pke", "purposeChannelBinding", "ke_purpose_cb")
	constString("p/p2pke", "purposeTimestamp", "ke_purpose_ts")
	guardTable("p/p2pke", "Session", "canSend", "ke_can_send_table")
	guardTable("p/p2pke", "Session", "canReceive", "ke_can_receive_table")
	guardTable("p/p2pke", "Session", "IsReady", "ke_is_ready_table")
}

package main

// collect lists every fact extracted from the source.
func collect() {
	// C15 / C09: header widths of the fixed-width multiplexers
	constInt("p/p2pmux", "size", "unused_size") // placeholder replaced below
	delete(out.Consts, "unused_size")
	funcLocalConst("p/p2pmux", "uint16MuxFunc", "size", "mux_u16_hdr")
	funcLocalConst("p/p2pmux", "uint32MuxFunc", "size", "mux_u32_hdr")
	funcLocalConst("p/p2pmux", "uint64MuxFunc", "size", "mux_u64_hdr")
	funcLocalConst("p/p2pmux", "uint16DemuxFunc", "size", "demux_u16_hdr")
	funcLocalConst("p/p2pmux", "uint32DemuxFunc", "size", "demux_u32_hdr")
	funcLocalConst("p/p2pmux", "uint64DemuxFunc", "size", "demux_u64_hdr")
}

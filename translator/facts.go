package main

// collect lists every fact extracted from the source.
func collect() {
	// C15 / C09: header widths of the fixed-width multiplexers
	funcLocalConst("p/p2pmux", "uint16MuxFunc", "size", "mux_u16_hdr")
	funcLocalConst("p/p2pmux", "uint32MuxFunc", "size", "mux_u32_hdr")
	funcLocalConst("p/p2pmux", "uint64MuxFunc", "size", "mux_u64_hdr")
	funcLocalConst("p/p2pmux", "uint16DemuxFunc", "size", "demux_u16_hdr")
	funcLocalConst("p/p2pmux", "uint32DemuxFunc", "size", "demux_u32_hdr")
	funcLocalConst("p/p2pmux", "uint64DemuxFunc", "size", "demux_u64_hdr")

	// C20: candidate widths handed to dhtIterate, and the find-node answer cap
	callArg("p/kademlia", "DHTFindNode", "dhtIterate", 2, "dht_find_width")
	callArg("p/kademlia", "DHTGet", "dhtIterate", 2, "dht_get_width")
	callArg("p/kademlia", "DHTJoin", "dhtIterate", 2, "dht_join_width_expr")
	callArg("p/kademlia", "DHTPut", "dhtIterate", 2, "dht_put_width_expr")
}

(* Extraction of the executable models to OCaml.  ExtrOcamlBasic only:
   N / Z / positive stay the extracted inductive types (values reach 2^64). *)
From Coq Require Import String.
From Coq Require Extraction ExtrOcamlBasic.
From P2PV Require Import Lib.Base Run.RunC15 Run.RunCache Run.RunC20 Run.RunC17 Run.RunC16 Run.RunFrag Run.RunStack Run.RunC01 Run.RunC08 Run.RunChan Run.RunHub Run.RunC06 Run.RunSession.
Open Scope N_scope.

Definition run (prop : list N) (case obs : sx) : sx :=
  if bytes_eqb prop (sym_of_string "C15") then run_C15 case obs
  else if bytes_eqb prop (sym_of_string "C18") then run_cache case obs
  else if bytes_eqb prop (sym_of_string "C19") then run_cache case obs
  else if bytes_eqb prop (sym_of_string "C20") then run_C20 case obs
  else if bytes_eqb prop (sym_of_string "C17") then run_C17 case obs
  else if bytes_eqb prop (sym_of_string "C16") then run_C16 case obs
  else if bytes_eqb prop (sym_of_string "C10") then run_frag case obs
  else if bytes_eqb prop (sym_of_string "C09") then run_C09 case obs
  else if bytes_eqb prop (sym_of_string "C01") then
    match case with SL (t :: _) => if is_sym "recv" t then run_frag case obs else run_C01 case obs | _ => bad_case end
  else if bytes_eqb prop (sym_of_string "C08") then run_C08 case obs
  else if bytes_eqb prop (sym_of_string "C05") then run_C05 case obs
  else if bytes_eqb prop (sym_of_string "C07") then run_C07 case obs
  else if bytes_eqb prop (sym_of_string "C04") then run_C04 case obs
  else if bytes_eqb prop (sym_of_string "C11") then run_C11 case obs
  else if bytes_eqb prop (sym_of_string "C14") then run_C14 case obs
  else if bytes_eqb prop (sym_of_string "C12") then run_hub case obs
  else if bytes_eqb prop (sym_of_string "C13") then run_hub case obs
  else if bytes_eqb prop (sym_of_string "C06") then run_C06 case obs
  else if bytes_eqb prop (sym_of_string "C03") then run_sessions case obs
  else if bytes_eqb prop (sym_of_string "C02") then
    match case with SL (t :: _) => if is_sym "chan" t then run_C05 case obs else run_sessions case obs | _ => bad_case end
  else bad_case.

Extraction Language OCaml.
Extraction "modelrun.ml" run N.add N.mul N.div N.modulo N.eqb N.of_nat.

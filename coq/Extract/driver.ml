(* Hand-written I/O glue around the extracted models (trusted, see DESIGN §5).
   stdin : one case per line   <prop> TAB <case-sx> TAB <impl-obs-sx>
   stdout: one line per case   <result-sx>      (result = (model-obs verdict) | bad-case)
   sx text: decimal numbers, xHEX byte strings, bare symbols, ( ... ) lists. *)
open Modelrun
type string = Stdlib.String.t

let rec pos_of_int (i : int) : positive =
  if i = 1 then XH
  else if i land 1 = 0 then XO (pos_of_int (i lsr 1))
  else XI (pos_of_int (i lsr 1))
let n_of_int (i : int) : n = if i = 0 then N0 else Npos (pos_of_int i)
let rec int_of_pos = function
  | XH -> 1 | XO p -> 2 * int_of_pos p | XI p -> 2 * int_of_pos p + 1
let int_of_n = function N0 -> 0 | Npos p -> int_of_pos p

let ten = n_of_int 10
let n_of_decimal (s : string) : n =
  let acc = ref N0 in
  String.iter (fun c -> acc := N.add (N.mul !acc ten) (n_of_int (Char.code c - 48))) s;
  !acc
let decimal_of_n (x : n) : string =
  if x = N0 then "0" else begin
    let b = Buffer.create 24 in
    let rec go x acc = if x = N0 then acc
      else go (N.div x ten) (Char.chr (48 + int_of_n (N.modulo x ten)) :: acc) in
    List.iter (Buffer.add_char b) (go x []); Buffer.contents b end

let byte_table = Array.init 256 n_of_int
let hexval c = match c with
  | '0'..'9' -> Char.code c - 48 | 'a'..'f' -> Char.code c - 87 | 'A'..'F' -> Char.code c - 55
  | _ -> failwith "bad hex"
let bytes_of_hex (s : string) : n list =
  let l = String.length s in
  if l land 1 = 1 then failwith "odd hex";
  let rec go i acc = if i < 0 then acc
    else go (i - 2) (byte_table.(hexval s.[i] * 16 + hexval s.[i+1]) :: acc) in
  go (l - 2) []

exception Parse of string
let parse (s : string) : sx =
  let len = String.length s in
  let pos = ref 0 in
  let skip () = while !pos < len && s.[!pos] = ' ' do incr pos done in
  let rec item () : sx =
    skip ();
    if !pos >= len then raise (Parse "eof");
    if s.[!pos] = '(' then begin
      incr pos;
      let items = ref [] in
      let fin = ref false in
      while not !fin do
        skip ();
        if !pos >= len then raise (Parse "unclosed");
        if s.[!pos] = ')' then (incr pos; fin := true) else items := item () :: !items
      done;
      SL (List.rev !items)
    end else begin
      let st = !pos in
      while !pos < len && s.[!pos] <> ' ' && s.[!pos] <> '(' && s.[!pos] <> ')' do incr pos done;
      let tok = String.sub s st (!pos - st) in
      if tok = "" then raise (Parse "empty token");
      if tok.[0] >= '0' && tok.[0] <= '9' then SN (n_of_decimal tok)
      else if tok.[0] = 'x' then SB (bytes_of_hex (String.sub tok 1 (String.length tok - 1)))
      else SS (List.init (String.length tok) (fun i -> byte_table.(Char.code tok.[i])))
    end in
  let r = item () in
  skip ();
  if !pos <> len then raise (Parse "trailing");
  r

let rec print (b : Buffer.t) (x : sx) : unit =
  match x with
  | SN n -> Buffer.add_string b (decimal_of_n n)
  | SB bs -> Buffer.add_char b 'x';
      List.iter (fun v -> Buffer.add_string b (Printf.sprintf "%02x" (int_of_n v))) bs
  | SS l -> List.iter (fun v -> Buffer.add_char b (Char.chr (int_of_n v))) l
  | SL l -> Buffer.add_char b '(';
      List.iteri (fun i y -> if i > 0 then Buffer.add_char b ' '; print b y) l;
      Buffer.add_char b ')'

let () =
  let out = Buffer.create 65536 in
  (try
    while true do
      let line = input_line stdin in
      (match String.split_on_char '\t' line with
       | prop :: case :: obs :: _ ->
           let prop_sym = List.init (String.length prop) (fun i -> byte_table.(Char.code prop.[i])) in
           (try
              let r = run prop_sym (parse case) (parse obs) in
              print out r
            with Parse m -> Buffer.add_string out ("(parse-error " ^ m ^ ")")
               | Failure m -> Buffer.add_string out ("(parse-error " ^ m ^ ")"))
       | _ -> Buffer.add_string out "(parse-error fields)");
      Buffer.add_char out '\n';
      if Buffer.length out > 60000 then (print_string (Buffer.contents out); Buffer.clear out)
    done
  with End_of_file -> ());
  print_string (Buffer.contents out)

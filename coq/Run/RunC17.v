(* Runner for C17.
   (spki (arc...) xDATA)             obs (xMARSHAL <roundtrip 0/1>)
   (equal (arc...) xD (arc...) xD)   obs (<EqualPublicKeys 0/1> <encodings equal 0/1>)
   (parse xBYTES)                    obs (ok (arc...) xDATA xREMARSHAL) | (err)
   (idtext xID)                      obs xTEXT
   (idparse xTEXT)                   obs (ok xID) | (err)
   (idorder xA xB)                   obs (<cmp texts 0 1 2> <cmp ids 0 1 2>)
   (fplayers (arc...) xD)            obs (xFP_P2PKE xFP_QUIC xFP_P2PKE_OF_REPARSED) *)
From Coq Require Import String.
From P2PV Require Import Lib.Base Lib.Varint Lib.Der Lib.Base64 Model.Distance.
Open Scope N_scope.

Definition ok : sx := sym "ok".
Definition bad (why : string) : sx := SL [sym "bad"; sym why].

Fixpoint arcs_of (l : list sx) : list N :=
  match l with [] => [] | SN n :: t => n :: arcs_of t | _ :: t => arcs_of t end.
Definition sx_arcs (l : list N) : sx := SL (map SN l).

Definition cmp_code (c : comparison) : N := match c with Lt => 0 | Eq => 1 | Gt => 2 end.

Definition run_C17 (case obs : sx) : sx :=
  match case with
  | SL [t; SL arcs; SB d] =>
      let oid := arcs_of arcs in
      if is_sym "spki" t then
        let m := marshal_spki oid d in
        let rt := match parse_spki m with
                  | Some (o, d') => oid_eqb o oid && bytes_eqb d d' | None => false end in
        let model := SL [SB m; sx_bool rt] in
        SL [model;
            match obs with
            | SL [SB _; SN r] =>
                if encodable_oid oid && (r =? 0) then
                  (if valid_oid oid then bad "spki-roundtrip-fails" else bad "spki-roundtrip-fails-arc-above-int32")
                else ok
            | _ => bad "unreadable-observation"
            end]
      else if is_sym "fplayers" t then
        SL [obs; match obs with
                 | SL [SB a; SB b; SB c] =>
                     if negb (bytes_eqb a c) then bad "fingerprint-depends-on-more-than-the-key"
                     else if negb (bytes_eqb a b) then bad "fingerprint-differs-across-layers" else ok
                 | _ => bad "unreadable-observation" end]
      else bad_case
  | SL [t; SL a1; SB d1; SL a2; SB d2] =>
      if is_sym "equal" t then
        let o1 := arcs_of a1 in let o2 := arcs_of a2 in
        let eq := equal_keys o1 d1 o2 d2 in
        let meq := bytes_eqb (marshal_spki o1 d1) (marshal_spki o2 d2) in
        SL [SL [sx_bool eq; sx_bool meq];
            match obs with
            | SL [SN e; SN m] =>
                if encodable_oid o1 && encodable_oid o2 && negb (Bool.eqb (negb (e =? 0)) (negb (m =? 0)))
                then bad "equal-keys-iff-equal-encodings-violated" else ok
            | _ => bad "unreadable-observation" end]
      else bad_case
  | SL [t; SB b] =>
      if is_sym "parse" t then
        match parse_spki b with
        | Some (o, d) =>
            let model := SL [sym "ok"; sx_arcs o; SB d; SB (marshal_spki o d)] in
            SL [model; if sx_eqb model obs then ok else bad "canonical-encoding-parsed-differently"]
        | None =>
            (* Go's decoder is more lenient than the strict model: then the parsed key
               must re-marshal to the canonical encoding of that key *)
            match obs with
            | SL [_; SL arcs; SB d; SB rem] =>
                SL [obs; if bytes_eqb rem (marshal_spki (arcs_of arcs) d) then ok else bad "remarshal-not-canonical"]
            | _ => SL [SL [sym "err"]; ok]
            end
        end
      else if is_sym "idtext" t then
        SL [SB (peerid_marshal b);
            match obs with
            | SB txt => match peerid_unmarshal txt with
                        | Some id => if bytes_eqb id b then ok else bad "peerid-text-does-not-parse-back"
                        | None => bad "peerid-text-does-not-parse-back" end
            | _ => bad "unreadable-observation" end]
      else if is_sym "idparse" t then
        SL [match peerid_unmarshal b with Some id => SL [sym "ok"; SB id] | None => SL [sym "err"] end;
            match obs with
            | SL [_; SB id] => if bytes_eqb (peerid_marshal id) b then ok else bad "non-canonical-peerid-text-accepted"
            | SL [e] => if is_sym "err-but-receiver-changed" e then bad "rejected-text-overwrote-the-receiving-PeerID"
                        else if is_sym "panic" e then bad "panic" else ok
            | _ => ok end]
      else bad_case
  | SL [t; SB a; SB b] =>
      if is_sym "idorder" t then
        let c := cmp_code (lex_compare a b) in
        SL [SL [SN (cmp_code (lex_compare (peerid_marshal a) (peerid_marshal b))); SN c];
            match obs with
            | SL [SN x; SN y] => if x =? y then ok else bad "peerid-text-order-differs-from-id-order"
            | _ => bad "unreadable-observation" end]
      else bad_case
  | _ => bad_case
  end.

(* Runner for C15: decodes a case, runs the Mux model, and evaluates the
   property predicate P_C15 on the implementation's observation. *)
From Coq Require Import String.
From P2PV Require Import Lib.Base Lib.Varint Model.Mux.
Open Scope N_scope.

Definition kind_of_sx (x : sx) : option kind :=
  if is_sym "string" x then Some KString
  else if is_sym "varint" x then Some KVarint
  else if is_sym "u16" x then Some KU16
  else if is_sym "u32" x then Some KU32
  else if is_sym "u64" x then Some KU64
  else None.

Definition chan_of_sx (x : sx) : option chan :=
  match x with SB b => Some (CStr b) | SN n => Some (CInt n) | _ => None end.
Definition sx_of_chan (c : chan) : sx :=
  match c with CStr b => SB b | CInt n => SN n end.

Fixpoint chans_of_sx (l : list sx) : list chan :=
  match l with
  | [] => []
  | x :: t => match chan_of_sx x with Some c => c :: chans_of_sx t | None => chans_of_sx t end
  end.

Definition sx_pair (p : chan * bytes) : sx := SL [sx_of_chan (fst p); SB (snd p)].

(* errors are compared without their code *)
Definition sx_res_nocode {A} (f : A -> sx) (r : result A) : sx :=
  match r with
  | Ok v => SL [sym "ok"; f v]
  | Err _ => SL [sym "err"]
  | Panic _ => SL [sym "panic"]
  end.

Definition ok : sx := sym "ok".
Definition bad (why : string) : sx := SL [sym "bad"; sym why].

Definition is_panic_obs (o : sx) : bool :=
  match o with SL (t :: _) => is_sym "panic" t | _ => false end.

Definition run_frame (args : list sx) (obs : sx) : sx :=
  match args with
  | [k; c; SB x] =>
      match kind_of_sx k, chan_of_sx c with
      | Some k, Some c =>
          let m := SB (frame k c x) in
          (* P: the implementation's frame unframes to exactly (c, x) *)
          let v := match obs with
                   | SB fb => match unframe k fb with
                              | Ok (c', x') => if chan_eqb c c' && bytes_eqb x x' then ok else bad "frame-does-not-unframe"
                              | _ => bad "frame-does-not-unframe"
                              end
                   | _ => bad "no-frame"
                   end in
          SL [m; v]
      | _, _ => bad_case
      end
  | _ => bad_case
  end.

Definition run_unframe (args : list sx) (obs : sx) : sx :=
  match args with
  | [k; SB b] =>
      match kind_of_sx k with
      | Some k => SL [sx_res_nocode sx_pair (unframe k b); if is_panic_obs obs then bad "panic" else ok]
      | None => bad_case
      end
  | _ => bad_case
  end.

(* end to end: tell x on channel c; which opened channel's swarm sees what *)
Definition run_tell (args : list sx) (obs : sx) : sx :=
  match args with
  | [k; SL opened; c; SB x] =>
      match kind_of_sx k, chan_of_sx c with
      | Some k, Some c =>
          let m := sx_option sx_pair (dispatch k (chans_of_sx opened) (frame k c x)) in
          SL [m; if sx_eqb m obs then ok else bad "delivered-to-wrong-channel-or-changed"]
      | _, _ => bad_case
      end
  | _ => bad_case
  end.

(* raw (possibly malformed) bytes injected below a real mux *)
Definition run_raw (args : list sx) (obs : sx) : sx :=
  match args with
  | [k; SL opened; SB raw] =>
      match kind_of_sx k with
      | Some k =>
          (* a byte string is delivered iff it is the frame of an open channel:
             exactly what dispatch computes *)
          let m := sx_option sx_pair (dispatch k (chans_of_sx opened) raw) in
          SL [m; if is_panic_obs obs then bad "panic"
                 else if sx_eqb m obs then ok else bad "raw-bytes-delivered-to-wrong-channel"]
      | None => bad_case
      end
  | _ => bad_case
  end.

Definition run_C15 (case obs : sx) : sx :=
  match case with
  | SL (tag :: args) =>
      if is_sym "frame" tag then run_frame args obs
      else if is_sym "unframe" tag then run_unframe args obs
      else if is_sym "tell" tag then run_tell args obs
      else if is_sym "raw" tag then run_raw args obs
      else bad_case
  | _ => bad_case
  end.

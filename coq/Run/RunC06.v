(* Runner for C06.
   case : (hs (<action> ...))   action : (tor m) (toi m) (refi m) (refr m) sendi sendr
          m : ih rh id rd (data c)
   obs  : ((<ihs> <iready> <rhs> <rready> <outcome>) ... (final <iready> <rready> <i->r ok> <r->i ok>))
          outcome : app | (reply none|ih|rh|id|rd) | drop | err | noop | (sent c) | nosend *)
From Coq Require Import String.
From P2PV Require Import Lib.Base Model.Handshake.
Open Scope N_scope.

Definition ok : sx := sym "ok".
Definition bad (why : string) : sx := SL [sym "bad"; sym why].

Definition msg_of_sx (x : sx) : option msg :=
  if is_sym "ih" x then Some MIH else if is_sym "rh" x then Some MRH
  else if is_sym "id" x then Some MID else if is_sym "rd" x then Some MRD
  else match x with SL [t; SN c] => if is_sym "data" t then Some (MData c) else None | _ => None end.
Definition sx_of_msg (m : msg) : sx :=
  match m with MIH => sym "ih" | MRH => sym "rh" | MID => sym "id" | MRD => sym "rd"
             | MData c => SL [sym "data"; SN c] end.

Definition action_of_sx (x : sx) : option action :=
  if is_sym "sendi" x then Some SendI else if is_sym "sendr" x then Some SendR else
  match x with
  | SL [t; m] =>
      match msg_of_sx m with
      | Some m => if is_sym "tor" t then Some (ToR m) else if is_sym "toi" t then Some (ToI m)
                  else if is_sym "refi" t then Some (ReflectI m) else if is_sym "refr" t then Some (ReflectR m) else None
      | None => None
      end
  | _ => None
  end.

Definition sx_outcome (o : outcome) : sx :=
  match o with
  | OApp => sym "app"
  | OReply r => SL [sym "reply"; match r with Some m => sx_of_msg m | None => sym "none" end]
  | ODrop => sym "drop"
  | OErr => sym "err"
  end.

(* the outcome of the delivery an action performs (step itself discards it) *)
Definition action_outcome (p : pair) (a : action) : sx :=
  let dl s m := match deliver s m with Ok (_, o) => sx_outcome o | _ => sym "panic" end in
  match a with
  | ToR m => if emitted_by_i p m then dl (p_r p) m else sym "noop"
  | ToI m => if emitted_by_r p m then dl (p_i p) m else sym "noop"
  | ReflectI m => if emitted_by_i p m then match m with MData _ => sym "err" | _ => dl (p_i p) m end else sym "noop"
  | ReflectR m => if emitted_by_r p m then match m with MData _ => sym "err" | _ => dl (p_r p) m end else sym "noop"
  | SendI => match send (p_i p) with Some (_, c) => SL [sym "sent"; SN c] | None => sym "nosend" end
  | SendR => match send (p_r p) with Some (_, c) => SL [sym "sent"; SN c] | None => sym "nosend" end
  end.

Definition sx_state (p : pair) (o : sx) : sx :=
  SL [SN (s_hs (p_i p)); sx_bool (is_ready (p_i p)); SN (s_hs (p_r p)); sx_bool (is_ready (p_r p)); o].

Fixpoint replay (p : pair) (acts : list sx) (acc : list sx) : list sx * option pair :=
  match acts with
  | [] => (rev acc, Some p)
  | x :: t =>
      match action_of_sx x with
      | None => (rev (sym "bad-action" :: acc), None)
      | Some a =>
          let o := action_outcome p a in
          match step p a with
          | Ok p' => replay p' t (sx_state p' o :: acc)
          | _ => (rev (sym "panic" :: acc), None)
          end
      end
  end.

(* after the schedule: the fair suffix, then one Send each way *)
Definition final_obs (p : pair) : sx :=
  match fair_suffix p with
  | Ok p1 =>
      let i_to_r := match send (p_i p1) with
                    | Some (si, c) => match deliver (p_r p1) (MData c) with Ok (_, OApp) => true | _ => false end
                    | None => false end in
      let r_to_i := match send (p_r p1) with
                    | Some (sr, c) => match deliver (p_i p1) (MData c) with Ok (_, OApp) => true | _ => false end
                    | None => false end in
      SL [sym "final"; sx_bool (is_ready (p_i p1)); sx_bool (is_ready (p_r p1)); sx_bool i_to_r; sx_bool r_to_i]
  | _ => sym "panic"
  end.

(* P_C06 on the implementation's observations *)
Fixpoint monotone (prev_i prev_r : N) (obs : list sx) : bool :=
  match obs with
  | SL [SN i; _; SN r; _; _] :: t => (prev_i <=? i) && (prev_r <=? r) && monotone i r t
  | _ :: t => monotone prev_i prev_r t
  | [] => true
  end.

Definition p06 (obs : sx) : sx :=
  match obs with
  | SL l =>
      if existsb (is_sym "panic") l then bad "panic"
      else if existsb (is_sym "handshake-not-idempotent") l then bad "handshake-message-changed-without-state-change"
      else if negb (monotone 0 0 l) then bad "session-regressed"
      else if existsb (fun o => match o with
                                | SL [_; _; _; _; SL [t; SN c]] => is_sym "sent" t && (c <? NONCE_POST_HANDSHAKE)
                                | _ => false end) l
      then bad "data-sent-under-a-handshake-counter"
      else match last l (sym "none") with
           | SL [_; SN a; SN b; SN c; SN d] =>
               if (a =? 0) || (b =? 0) then bad "not-ready-after-fair-suffix"
               else if (c =? 0) || (d =? 0) then bad "data-does-not-flow-after-recovery" else ok
           | _ => bad "unreadable-observation"
           end
  | _ => bad "unreadable-observation"
  end.

Definition run_C06 (case obs : sx) : sx :=
  match case with
  | SL [t; SL acts] =>
      if is_sym "hs" t then
        let '(steps, fin) := replay init_pair acts [] in
        SL [SL (steps ++ match fin with Some p => [final_obs p] | None => [] end); p06 obs]
      else bad_case
  | _ => bad_case
  end.

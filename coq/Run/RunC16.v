(* Runner for C16.  The IP text codec is instantiated by the identity on texts:
   netip's own round trip is an assumption test of the harness.
   (rt <schema> <addr>)    obs (xTEXT ok|err)
   (parse <schema> xTEXT)  obs (ok xREMARSHAL <reparse equal 0/1>) | (err)
   addr   : (mem n) | (udp xIP port) | (ssh xFP xIP port) | (ke xID addr) | (multi xSCHEME addr)
   schema : mem | udp | ssh | (ke schema) | (multi (xNAME schema) ...) *)
From Coq Require Import String.
From P2PV Require Import Lib.Base Lib.Base64 Model.Addr.
Open Scope N_scope.

Definition ok : sx := sym "ok".
Definition bad (why : string) : sx := SL [sym "bad"; sym why].

Definition ip := bytes.
Definition show_ip (i : ip) : bytes := i.
Definition read_ip (t : bytes) : option ip := Some t.

Fixpoint addr_of_sx (fuel : nat) (x : sx) : option (addr ip) :=
  match fuel with O => None | S f =>
  match x with
  | SL [t; SN n] => if is_sym "mem" t then Some (AMem n) else None
  | SL [t; SB i; SN p] => if is_sym "udp" t then Some (AUdp i p) else None
  | SL [t; SB fp; SB i; SN p] => if is_sym "ssh" t then Some (ASsh fp i p) else None
  | SL [t; SB k; inner] =>
      match addr_of_sx f inner with
      | Some a => if is_sym "ke" t then Some (AKe k a) else if is_sym "multi" t then Some (AMulti k a) else None
      | None => None
      end
  | _ => None
  end end.

Fixpoint schema_of_sx (fuel : nat) (x : sx) : option schema :=
  match fuel with O => None | S f =>
  if is_sym "mem" x then Some SMem else if is_sym "udp" x then Some SUdp else if is_sym "ssh" x then Some SSsh else
  match x with
  | SL (t :: entries) =>
      if is_sym "ke" t then
        match entries with [inner] => option_map SKe (schema_of_sx f inner) | _ => None end
      else if is_sym "multi" t then
        Some (SMulti (flat_map (fun e => match e with
                                         | SL [SB name; sub] => match schema_of_sx f sub with Some s => [(name, s)] | None => [] end
                                         | _ => [] end) entries))
      else None
  | _ => None
  end end.

Fixpoint addr_eqb (a b : addr ip) : bool :=
  match a, b with
  | AMem x, AMem y => x =? y
  | AUdp i p, AUdp j q => bytes_eqb i j && (p =? q)
  | ASsh f i p, ASsh g j q => bytes_eqb f g && bytes_eqb i j && (p =? q)
  | AKe k a', AKe l b' => bytes_eqb k l && addr_eqb a' b'
  | AMulti s a', AMulti t b' => bytes_eqb s t && addr_eqb a' b'
  | _, _ => false
  end.

(* scheme names that cannot round-trip by construction of the text form *)
Fixpoint has_sep (l : bytes) : bool :=
  match l with
  | 58 :: ((47 :: 47 :: _) as t) => true
  | _ :: t => has_sep t
  | [] => false
  end.
Definition unusable_scheme (s : bytes) : bool := (lenN s =? 0) || has 10 s || has_sep s.
Fixpoint has_unusable_scheme (a : addr ip) : bool :=
  match a with
  | AKe _ inner => has_unusable_scheme inner
  | AMulti s inner => unusable_scheme s || has_unusable_scheme inner
  | _ => false
  end.

(* helpers for the verdict on parsed texts *)
Fixpoint before_at (l : bytes) : bytes := match l with [] => [] | c :: t => if c =? 64 then [] else c :: before_at t end.
Definition has_at (l : bytes) : bool := existsb (fun c => c =? 64) l.
Fixpoint lead_digits (l : bytes) : bytes :=
  match l with c :: t => if (48 <=? c) && (c <=? 57) then c :: lead_digits t else [] | [] => [] end.
Definition trailing_number (l : bytes) : option N :=
  match rev (lead_digits (rev l)) with
  | [] => None
  | ds => Some (fold_left (fun acc c => 10 * acc + (c - 48)) ds 0)
  end.

Definition run_C16 (case obs : sx) : sx :=
  match case with
  | SL [t; sch; x] =>
      if is_sym "rt" t then
        match schema_of_sx 50 sch, addr_of_sx 50 x with
        | Some s, Some a =>
            let txt := marshal ip show_ip a in
            let back := match parse ip read_ip s txt with Some a' => addr_eqb a a' | None => false end in
            SL [SL [SB txt; if back then ok else sym "err"];
                match obs with
                | SL [_; r] => if is_sym "ok" r then ok
                               else if has_unusable_scheme a then bad "multiswarm-scheme-name-cannot-round-trip"
                               else bad "address-does-not-survive-marshal-and-parse"
                | _ => bad "unreadable-observation" end]
        | _, _ => bad_case
        end
      else if is_sym "parse" t then
        SL [obs; match obs, case with
                 | SL [_; SB t2; SN r], SL [_; _; SB cand] =>
                     if r =? 0 then bad "parsed-address-does-not-marshal-back"
                     (* what was accepted must be the address the text spells: the identity / fingerprint
                        part (everything before the first '@') is kept verbatim, and the final number
                        (port, or in-memory address) keeps its value *)
                     else if has_at cand && has_at t2 && negb (bytes_eqb (before_at cand) (before_at t2))
                     then bad "accepted-text-names-another-identity-than-the-parsed-address"
                     else match trailing_number cand, trailing_number t2 with
                          | Some a, Some b => if a =? b then ok else bad "accepted-text-has-another-final-number-than-the-parsed-address"
                          | _, _ => ok
                          end
                 | SL [_; _; SN r], _ => if r =? 0 then bad "parsed-address-does-not-marshal-back" else ok
                 | _, _ => ok end]
      else bad_case
  | _ => bad_case
  end.

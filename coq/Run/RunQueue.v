From Coq Require Import String.
(* Runner for the sequential swarmutil.Queue cases of C12 / C13.
   case = (hub qseq <cap> <mtu> (<op> ...))   op = (d <src> <dst> xPAYLOAD) | (r) | (rc <taken>) | (p) | (c) | (l)
   obs  = (<result> ...)   result = (acc) | (ref) | (got <src> <dst> xPAYLOAD) | (closed) | (block) | (ctx) | (n <k>) | (done)
   (rc t): a Receive whose context was cancelled before the call; Go's select may take a queued message
   (t = 1) or return the context error (t = 0): the harness records which, the model follows.
   The model output is the result list of Model.Queue; the verdict checks on the
   implementation's results alone that every accepted message leaves exactly once,
   oldest first, and that nothing is accepted or handed out after Close. *)
From P2PV Require Import Lib.Base Model.Queue Run.RunFrag.
Open Scope N_scope.

Definition quop_of_sx (x : sx) : option qop :=
  match x with
  | SL [t; SN s; SN d; SB p] => if is_sym "d" t then Some (QDeliver (s, d, p)) else None
  | SL [t; SN k] => if is_sym "rc" t then Some (QRecvCancelled (negb (k =? 0))) else None
  | SL [t] => if is_sym "r" t then Some QReceive else if is_sym "p" t then Some QPurge
              else if is_sym "c" t then Some QClose else if is_sym "l" t then Some QLen else None
  | _ => None
  end.
Fixpoint quops_of_sx (l : list sx) : list qop :=
  match l with [] => [] | x :: t => match quop_of_sx x with Some o => o :: quops_of_sx t | None => quops_of_sx t end end.

Definition sx_of_qout (o : qout) : sx :=
  match o with
  | QAccepted => SL [sym "acc"] | QRefused => SL [sym "ref"]
  | QGot (s, d, p) => SL [sym "got"; SN s; SN d; SB p]
  | QErrClosed => SL [sym "closed"] | QWouldBlock => SL [sym "block"] | QCtxErr => SL [sym "ctx"]
  | QCount n => SL [sym "n"; SN (N.of_nat n)]
  | QDone => SL [sym "done"]
  end.

Definition qmsg_eqb (a b : qmsg) : bool :=
  let '(s1, d1, p1) := a in let '(s2, d2, p2) := b in (s1 =? s2) && (d1 =? d2) && bytes_eqb p1 p2.

(* pending = accepted and not yet out, oldest first *)
Fixpoint p_qseq (cap mtu : nat) (closed : bool) (pending : list qmsg) (ops : list qop) (obs : list sx) : sx :=
  match ops, obs with
  | [], [] => ok
  | o :: ot, r :: rt =>
      match o, r with
      | QDeliver m, SL [t] =>
          if is_sym "acc" t then
            if closed then bad "accepted-after-close"
            else if Nat.ltb mtu (length (q_payload m)) then bad "accepted-above-mtu"
            else if Nat.leb cap (length pending) then bad "queue-holds-more-than-its-capacity"
            else p_qseq cap mtu closed (pending ++ [m]) ot rt
          else if is_sym "ref" t then
            if negb closed && Nat.leb (length (q_payload m)) mtu && Nat.ltb (length pending) cap
            then bad "refused-with-room-to-spare" else p_qseq cap mtu closed pending ot rt
          else bad "unexpected-result"
      | QReceive, SL [t; SN s; SN d; SB p] =>
          if negb (is_sym "got" t) then bad "unexpected-result" else
          match pending with
          | [] => bad "received-a-message-nobody-is-owed"
          | m :: pt => if qmsg_eqb m (s, d, p) then p_qseq cap mtu closed pt ot rt
                       else if existsb (fun x => qmsg_eqb x (s, d, p)) pt then bad "received-out-of-order"
                       else bad "received-message-differs-from-what-was-accepted"
          end
      | QReceive, SL [t] =>
          if is_sym "closed" t then (if closed then p_qseq cap mtu closed pending ot rt else bad "closed-error-from-an-open-queue")
          else if is_sym "block" t then
            (match pending with [] => if closed then bad "receive-blocks-on-a-closed-queue" else p_qseq cap mtu closed pending ot rt
                           | _ => bad "accepted-message-never-handed-to-a-callback" end)
          else bad "unexpected-result"
      | QRecvCancelled _, SL [t; SN s; SN d; SB p] =>
          if negb (is_sym "got" t) then bad "unexpected-result" else
          match pending with
          | [] => bad "received-a-message-nobody-is-owed"
          | m :: pt => if qmsg_eqb m (s, d, p) then p_qseq cap mtu closed pt ot rt
                       else if existsb (fun x => qmsg_eqb x (s, d, p)) pt then bad "received-out-of-order"
                       else bad "received-message-differs-from-what-was-accepted"
          end
      | QRecvCancelled _, SL [t] =>
          (* the context error: nothing may have been consumed (a later Len / Receive shows it) *)
          if is_sym "ctx" t then p_qseq cap mtu closed pending ot rt else bad "unexpected-result"
      | QPurge, SL [t; SN n] =>
          if N.of_nat (length pending) =? n then p_qseq cap mtu closed [] ot rt else bad "purge-count-wrong"
      | QLen, SL [t; SN n] =>
          if N.of_nat (length pending) =? n then p_qseq cap mtu closed pending ot rt else bad "queue-length-differs-from-accepted-minus-handed-out"
      | QClose, SL [t] => if is_sym "close-stuck" t then bad "close-did-not-return" else p_qseq cap mtu true [] ot rt
      | _, _ => bad "unexpected-result"
      end
  | _, _ => bad "result-count-differs"
  end.

Definition run_qseq (case obs : sx) : sx :=
  match case, obs with
  | SL [_; _; SN cap; SN mtu; SL ops], SL rs =>
      let ops := quops_of_sx ops in
      let model := SL (map sx_of_qout (snd (qrun (new_queue (N.to_nat cap) (N.to_nat mtu)) ops))) in
      SL [model; p_qseq (N.to_nat cap) (N.to_nat mtu) false [] ops rs]
  | _, _ => bad_case
  end.

From Coq Require Import String.
(* Runner for the channel model (C05, C07, C04 reuse it).
   case = (chan <nchans> <accept rows ((0/1 ...) ...)> <actions>)
     actions: (rekey x rank) (hs x) (dlv x j) (send x) (age x minutes)
   obs  = one entry per action: (<result> <emitted kinds> (<slot> <slot> <slot>) <remote>) *)
From P2PV Require Import Lib.Base Model.Handshake Model.Channel Run.RunFrag Model.Timer.
Open Scope N_scope.

Record world := mkWd { wd_chans : list chan; wd_msgs : list wire; wd_tag : N; wd_clock : N }.

Definition get_chan (w : world) (x : nat) : chan := nth x (wd_chans w) (new_chan 0).
Definition put_chan (w : world) (x : nat) (c : chan) : world :=
  mkWd (set_nth (wd_chans w) x c) (wd_msgs w) (wd_tag w) (wd_clock w).
Definition add_msgs (w : world) (ms : list wire) : world :=
  mkWd (wd_chans w) (wd_msgs w ++ ms) (wd_tag w) (wd_clock w).

Inductive act :=
| ARekey (x : nat) (rank : N)
| AHandshake (x : nat)
| ADeliver (x : nat) (j : nat)
| ASend (x : nat)
| AAge (x : nat) (d : Z)
| ARestart (x : nat).

Definition kind_sx (k : msg) : sx :=
  match k with MIH => SN 0 | MRH => SN 1 | MID => SN 2 | MRD => SN 3 | MData c => SL [sym "data"; SN c] end.

Definition slot_sx (x : option csess) : sx :=
  match x with
  | None => SN 0
  | Some se => SL [SN (if s_init (cs se) then 1 else 0); SN (s_hs (cs se));
                  match c_rkey se with Some k => SN k | None => sym "none" end]
  end.
Definition chan_sx (c : chan) : list sx :=
  [SL (map slot_sx (ch_slots c)); match ch_remote c with Some k => SN k | None => sym "none" end; SN (ch_key c)].

Definition accept_of (rows : list (list bool)) (x : nat) (k : N) : bool :=
  nth (N.to_nat k) (nth x rows []) false.

(* one action: the new world and the observation *)
Definition wstep (rows : list (list bool)) (w : world) (a : act) : result (world * sx) :=
  match a with
  | ARekey x rank =>
      let '(c, ms) := chan_rekey (wd_tag w) rank (wd_clock w) (get_chan w x) in
      let w1 := add_msgs (put_chan w x c) ms in
      let w2 := match ms with [] => w1 | _ => mkWd (wd_chans w1) (wd_msgs w1) (wd_tag w1 + 1) (wd_clock w1 + 1) end in
      Ok (w2, SL (sym "rekey" :: SL (map (fun m => kind_sx (w_kind m)) ms) :: chan_sx c))
  | AHandshake x =>
      let '(c, ms) := chan_handshake (get_chan w x) in
      Ok (add_msgs (put_chan w x c) ms, SL (sym "hs" :: SL (map (fun m => kind_sx (w_kind m)) ms) :: chan_sx c))
  | ADeliver x j =>
      match nth_error (wd_msgs w) j with
      | None => Ok (w, SL (sym "nomsg" :: SL [] :: chan_sx (get_chan w x)))
      | Some m =>
          match chan_deliver (accept_of rows x) (wd_tag w) (get_chan w x) m with
          | Panic p => Panic p | Err e => Err e
          | Ok (c, r) =>
              let created := match r, w_kind m with
                             | DSend s, MIH => w_from s =? wd_tag w
                             | _, _ => false end in
              let w1 := put_chan w x c in
              let w2 := match r with DSend s => add_msgs w1 [s] | _ => w1 end in
              let w3 := if created then mkWd (wd_chans w2) (wd_msgs w2) (wd_tag w2 + 1) (wd_clock w2) else w2 in
              let rs := match r with
                        | DApp _ _ => SL [sym "app"; SN (N.of_nat j)]
                        | DSend s => sym "reply"
                        | DNone => sym "none"
                        | DErr => sym "none" end in   (* Channel.Deliver hides its errors: both are (nil, nil) *)
              Ok (w3, SL (rs :: SL (match r with DSend s => [kind_sx (w_kind s)] | _ => [] end) :: chan_sx c))
          end
      end
  | ASend x =>
      let '(c, m) := chan_send (get_chan w x) in
      let w1 := put_chan w x c in
      match m with
      | Some s => Ok (add_msgs w1 [s], SL (sym "sent" :: SL [kind_sx (w_kind s)] :: chan_sx c))
      | None => Ok (w1, SL (sym "blocked" :: SL [] :: chan_sx c))
      end
  | AAge x d => let c := chan_age d (get_chan w x) in Ok (put_chan w x c, SL (sym "aged" :: SL [] :: chan_sx c))
  | ARestart x => let c := new_chan (ch_key (get_chan w x)) in Ok (put_chan w x c, SL (sym "restarted" :: SL [] :: chan_sx c))
  end.

Fixpoint wrun (rows : list (list bool)) (w : world) (acts : list act) : list sx :=
  match acts with
  | [] => []
  | a :: t => match wstep rows w a with
              | Ok (w', o) => o :: wrun rows w' t
              | Err _ => [sym "model-error"]
              | Panic _ => [sym "panic"]
              end
  end.

Definition nat_of (x : sx) : nat := match x with SN n => N.to_nat n | _ => 0%nat end.
Definition n_of (x : sx) : N := match x with SN n => n | _ => 0 end.

Definition act_of_sx (x : sx) : option act :=
  match x with
  | SL [t; a; b] =>
      if is_sym "rekey" t then Some (ARekey (nat_of a) (n_of b))
      else if is_sym "dlv" t || is_sym "mdlv" t then Some (ADeliver (nat_of a) (nat_of b))
      else if is_sym "age" t then Some (AAge (nat_of a) (Z.of_N (n_of b)))
      else None
  | SL [t; a] =>
      if is_sym "hs" t then Some (AHandshake (nat_of a))
      else if is_sym "send" t || is_sym "msend" t then Some (ASend (nat_of a))
      else if is_sym "restart" t then Some (ARestart (nat_of a))
      else None
  | _ => None
  end.
Fixpoint acts_of_sx (l : list sx) : list act :=
  match l with [] => [] | x :: t => match act_of_sx x with Some a => a :: acts_of_sx t | None => acts_of_sx t end end.

Definition row_of_sx (x : sx) : list bool :=
  match x with SL l => map (fun b => match b with SN 0 => false | _ => true end) l | _ => [] end.

Fixpoint init_chans (n : nat) (k : N) : list chan :=
  match n with O => [] | S n' => new_chan k :: init_chans n' (k + 1) end.

(* ---- predicates over the implementation's observation ---- *)
(* an observation entry: (res emitted (s0 s1 s2) remote) *)
Definition entry_parts (e : sx) : option (sx * list sx * sx) :=
  match e with SL [r; _; SL slots; rem; _] => Some (r, slots, rem) | _ => None end.
Definition entry_chan (e : sx) : nat := match e with SL [_; _; _; _; SN x] => N.to_nat x | _ => 0%nat end.

Definition slot_rkey (s : sx) : option sx := match s with SL [_; _; k] => Some k | _ => None end.
Definition sx_eqb_n (a : sx) (b : sx) : bool :=
  match a, b with SN x, SN y => x =? y | _, _ => false end.

(* P_C05 on one channel's history *)
Definition p05_entry (accept_row : list bool) (prev_remote : sx) (e : sx) : sx :=
  match entry_parts e with
  | None => if is_sym "panic" e then bad "panic" else bad "unreadable-observation"
  | Some (r, slots, rem) =>
      (* bound key never changes once set *)
      if (match prev_remote with SN _ => negb (sx_eqb_n prev_remote rem) | _ => false end)
      then bad "bound-remote-key-changed"
      else
        (* the bound key was accepted *)
        if (match rem with SN k => negb (nth (N.to_nat k) accept_row false) | _ => false end)
        then bad "channel-bound-to-a-rejected-key"
        else
          (* previous and current sessions are with the bound key *)
          if negb (forallb (fun s => match slot_rkey s with
                                     | Some k => sx_eqb_n k rem
                                     | None => true end) (firstn 2 slots))
          then bad "established-session-with-another-key"
          else
            (* application data only with a bound, accepted key *)
            match r with
            | SL [t; _] => if is_sym "app" t then
                             (match rem with SN _ => ok | _ => bad "application-data-without-accepted-key" end)
                           else ok
            | _ => ok
            end
  end.

(* fold P_C05 over the whole history, remembering each channel's bound key *)
Fixpoint p05_all (rows : list (list bool)) (prev : list sx) (es : list sx) : sx :=
  match es with
  | [] => ok
  | e :: t =>
      if is_sym "panic" e then bad "panic" else
      let x := entry_chan e in
      (* a restarted channel is a new channel: nothing is bound yet *)
      let restarted := match e with SL (r :: _) => is_sym "restarted" r | _ => false end in
      let prev := if restarted then set_nth prev x (sym "none") else prev in
      let v := p05_entry (nth x rows []) (nth x prev (sym "none")) e in
      if is_sym "ok" v then
        p05_all rows (set_nth prev x (match entry_parts e with Some (_, _, rem) => rem | None => sym "none" end)) t
      else v
  end.

(* P_C07: the marked final send goes out; the data of a completed Send is
   handed up by the peer unless the peer was replaced by a fresh channel after
   the session was established (the sender cannot know: nothing tells it) *)
Fixpoint p07_all (restarted : bool) (acts es : list sx) : sx :=
  match acts, es with
  | a :: ta, e :: te =>
      let r := match e with SL (r :: _) => r | _ => e end in
      match a with
      | SL (t :: _) =>
          if is_sym "msend" t && negb (is_sym "sent" r) then
            (* name the state the sender is stuck in *)
            match entry_parts e with
            | Some (_, [_; _; SL [SN 0; SN 1; _]], _) => bad "send-blocked-behind-unanswered-prospective-responder-session"
            | _ => bad "send-still-blocked-after-reliable-network"
            end
          else if is_sym "mdlv" t && negb restarted && negb (match r with SL [u; _] => is_sym "app" u | _ => false end)
          then
            (* name the state: the receiver holds no session at all (its side of the handshake expired
               while the sender's completed: half-open) or something else *)
            match entry_parts e with
            | Some (_, [SN 0; SN 0; SN 0], _) => bad "data-sent-through-a-session-the-peer-no-longer-has"
            | _ => bad "data-not-delivered-after-reliable-network"
            end
          else p07_all (restarted || is_sym "restart" t) ta te
      | _ => p07_all restarted ta te
      end
  | _, _ => ok
  end.

Definition run_chan (which : N) (case obs : sx) : sx :=
  match case with
  | SL [t; SN n; SL rows; SL acts] =>
      if negb (is_sym "chan" t) then bad_case else
      let rws := map row_of_sx rows in
      let w0 := mkWd (init_chans (N.to_nat n) 0) [] 0 1 in
      let model := wrun rws w0 (acts_of_sx acts) in
      let es := match obs with SL es => es | _ => [obs] end in
      let v5 := p05_all rws (repeat (sym "none") (N.to_nat n)) es in
      let v := if which =? 5 then v5
               else if is_sym "ok" v5 then p07_all false acts es else v5 in
      SL [SL model; v]
  | _ => bad_case
  end.
Definition run_C05 := run_chan 5.

(* ---- the real p2pke.Timer driven by scripts: case = (timer (<op> ...))  op = (arm <budget>) | (stop) | (q)
   obs = (<fires so far> ...) one number per (q).  The callback re-arms the timer itself while it has budget. ---- *)
Definition top_of_sx (x : sx) : option top :=
  match x with
  | SL [t; SN b] => if is_sym "arm" t then Some (OArm (N.to_nat b)) else None
  | SL [t] => if is_sym "stop" t then Some OStop else if is_sym "q" t then Some OQuiesce else None
  | _ => None
  end.
Fixpoint tops_of_sx (l : list sx) : list top :=
  match l with [] => [] | x :: t => match top_of_sx x with Some o => o :: tops_of_sx t | None => tops_of_sx t end end.
Fixpoint sx_eq_list (a b : list sx) : bool :=
  match a, b with [], [] => true | x :: a', y :: b' => sx_eqb x y && sx_eq_list a' b' | _, _ => false end.
Definition run_timer (ops : list sx) (obs : sx) : sx :=
  let model := map (fun n => SN (N.of_nat n)) (tscript timer0 (tops_of_sx ops)) in
  SL [SL model;
      match obs with
      | SL es => if sx_eq_list es model then ok
                 else if existsb (fun p => match p with (SN a, SN b) => a <? b | _ => false end) (combine es model)
                 then bad "timer-stopped-firing-although-its-callback-re-armed-it"
                 else bad "timer-fired-although-stopped-or-more-often-than-armed"
      | _ => bad "unexpected-result"
      end].

Definition run_C07 (case obs : sx) : sx :=
  match case with
  | SL [t; SL ops] => if is_sym "timer" t then run_timer ops obs else run_chan 7 case obs
  | _ => run_chan 7 case obs
  end.

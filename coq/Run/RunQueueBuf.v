From Coq Require Import String.
(* Runner for the buffer-ownership cases of C14 on a real swarmutil.Queue.
   case = (qbuf <cap> <mtu> (<op> ...))
     op = (d <src> <dst> xP)        Deliver
        | (r)                       Receive; the callback only looks
        | (rd <src> <dst> xP)       Receive whose callback calls Deliver(<src> <dst> xP) on the same queue before it returns
        | (p) | (c)                 Purge, Close
   obs = (<result> ...)
     d -> (acc) | (ref)      r -> (got <src> <dst> xP <buf>) | (none)
     rd -> (got <src> <dst> xP <buf> <inner: acc|ref> <same|changed>) | (none)      p, c -> (done)
   <buf> identifies the buffer the callback was given, numbered by first appearance.
   The model output is computed with Model.QueueBuf (the callback's Deliver happens
   between the two halves of the Receive); the verdict only asks that no callback
   saw its message change while it ran. *)
From P2PV Require Import Lib.Base Model.Queue Model.QueueBuf Run.RunFrag.
Open Scope N_scope.

Inductive bop := OD (m : qmsg) | OR | ORD (m : qmsg) | OP | OC.

Definition bop_of_sx (x : sx) : option bop :=
  match x with
  | SL [t; SN s; SN d; SB p] => if is_sym "d" t then Some (OD (s, d, p)) else if is_sym "rd" t then Some (ORD (s, d, p)) else None
  | SL [t] => if is_sym "r" t then Some OR else if is_sym "p" t then Some OP else if is_sym "c" t then Some OC else None
  | _ => None
  end.
Fixpoint bops_of_sx (l : list sx) : list bop :=
  match l with [] => [] | x :: t => match bop_of_sx x with Some o => o :: bops_of_sx t | None => bops_of_sx t end end.

Fixpoint index_of (b : nat) (l : list nat) (i : nat) : option nat :=
  match l with [] => None | x :: t => if Nat.eqb x b then Some i else index_of b t (S i) end.
(* number buffers by first appearance *)
Definition renum (seen : list nat) (b : nat) : list nat * nat :=
  match index_of b seen 0 with Some i => (seen, i) | None => (seen ++ [b], length seen) end.

Definition accref (o : bout) : sx := match o with BWrote _ => sym "acc" | _ => sym "ref" end.

Fixpoint bq_ops (fuel : nat) (s : bq) (seen : list nat) (ops : list bop) : list sx :=
  match ops with
  | [] => []
  | o :: t =>
      match o with
      | OD m => match bstep s (BDeliver m) with
                | Some (s1, r) => SL [accref r] :: bq_ops fuel s1 seen t
                | None => [sym "stuck"] end
      | OR => match bstep s BRecvBegin with
              | Some (s1, BGot b (sr, ds, p)) =>
                  let '(seen1, i) := renum seen b in
                  match bstep s1 (BRecvEnd b) with
                  | Some (s2, _) => SL [sym "got"; SN sr; SN ds; SB p; SN (N.of_nat i)] :: bq_ops fuel s2 seen1 t
                  | None => [sym "stuck"] end
              | Some (s1, _) => SL [sym "none"] :: bq_ops fuel s1 seen t
              | None => [sym "stuck"] end
      | ORD m2 => match bstep s BRecvBegin with
              | Some (s1, BGot b (sr, ds, p)) =>
                  let '(seen1, i) := renum seen b in
                  match bstep s1 (BDeliver m2) with
                  | Some (s2, r) =>
                      match bstep s2 (BRecvEnd b) with
                      | Some (s3, _) => SL [sym "got"; SN sr; SN ds; SB p; SN (N.of_nat i); accref r; sym "same"] :: bq_ops fuel s3 seen1 t
                      | None => [sym "stuck"] end
                  | None => [sym "stuck"] end
              | Some (s1, _) => SL [sym "none"] :: bq_ops fuel s1 seen t
              | None => [sym "stuck"] end
      | OP => match bstep s BPurge with Some (s1, _) => SL [sym "done"] :: bq_ops fuel s1 seen t | None => [sym "stuck"] end
      | OC => match bstep s BClose with Some (s1, _) => SL [sym "done"] :: bq_ops fuel s1 seen t | None => [sym "stuck"] end
      end
  end.

Fixpoint p_qbuf (obs : list sx) : sx :=
  match obs with
  | [] => ok
  | SL [_; _; _; _; _; _; w] :: t => if is_sym "changed" w then bad "message-changed-while-its-callback-ran" else p_qbuf t
  | _ :: t => p_qbuf t
  end.

Definition run_qbuf (case obs : sx) : sx :=
  match case, obs with
  | SL [_; SN cap; SN mtu; SL ops], SL rs =>
      SL [SL (bq_ops 0 (new_bq (N.to_nat cap) (N.to_nat mtu)) [] (bops_of_sx ops)); p_qbuf rs]
  | _, _ => bad_case
  end.

(* Runner for C02 / C03: adversary schedules over symbolic sessions.
   case : (ke (<action> ...))
   action : (new <init 0/1> <key> <ts>)          create honest session #next with ephemeral 100+idx
            (dlv <sess> <msgspec>)               deliver a message; a non-empty reply is emitted
            (send <sess> <tag>)                  Session.Send of plaintext <tag>; the ciphertext is emitted
            (setnonce <sess> <n>)                verif hook: set the outbound counter
   msgspec: (m j) | (hdr j h) | (body j) | (trunc j)
            (ihsplice a j)          InitHello with adversary ephemeral a and the claim of emitted InitHello j
            (rhforge a j k kind x)  RespHello for InitHello j from adversary ephemeral a claiming key k;
                                    kind 0: signature by k over cb1 (k adversary-owned), 1: signature by key x over cb1,
                                    2: k's TIMESTAMP signature copied from InitHello x, 3: garbage
            (idforge a j ih kind key)  InitDone answering RespHello j (sent to adversary ephemeral a, whose InitHello carried the claim of message ih):
                                    kind 0: adversary key signs cb2, 2: the timestamp signature of InitHello ih, 3: garbage
            (dataforge a e dir ctr tag)  data under the key of DH(a, e) the adversary knows
   obs per action : (<hs> <ready> <remote|none> <outcome>)   outcome: (app tag|x) | (reply kind|none) | drop | err | (sent hdr) | nosend | created
   emitted messages are numbered in order of emission (initiator's InitHello at creation). *)
From Coq Require Import String.
From P2PV Require Import Lib.Base Model.Handshake Model.Session.
Open Scope N_scope.

Definition ok : sx := sym "ok".
Definition bad (why : string) : sx := SL [sym "bad"; sym why].

Record world := mkW { w_sess : list ssess; w_msgs : list wire; w_cb : list (N * term) }.
(* w_cb: for adversary-run handshakes, cb1 keyed by the InitHello's message index *)

Definition nthw {A} (l : list A) (i : N) : option A := nth_error l (N.to_nat i).
Fixpoint set_nthw {A} (l : list A) (i : nat) (x : A) : list A :=
  match l, i with [], _ => [] | _ :: t, O => x :: t | h :: t, S i' => h :: set_nthw t i' x end.

Definition ih_parts (w : wire) : option (N * term * term * term) :=
  match w with W0 e ts kc sg => Some (e, ts, kc, sg) | _ => None end.

Definition msg_of_spec (W : world) (spec : sx) : option wire :=
  match spec with
  | SL [t; SN j] =>
      match nthw (w_msgs W) j with
      | Some w =>
          if is_sym "m" t then Some w
          else if is_sym "trunc" t then Some WJunk
          else if is_sym "body" t then
            Some (match w with
                  | W0 e ts kc sg => W0 e ts kc (TAtom 999)
                  | W1 e c => W1 e (TAtom 999)
                  | WC h c => WC h (TAtom 999)
                  | WJunk => WJunk end)
          else None
      | None => None
      end
  | SL [t; SN j; SN h; SN long] =>
      (* (hdr j h long): message j with its header counter rewritten to h; long = its body
         can hold an ephemeral key (32 bytes), which decides whether a fresh responder's
         Noise state consumes it when h = 0 *)
      if is_sym "hdr" t then
        let junk := TAtom (if long =? 0 then 996 else 998) in
        match nthw (w_msgs W) j with
        | Some (WC _ c) => if h =? 0 then Some (WC 0 junk) else Some (WC h c)
        | Some (W0 e ts kc sg) => if h =? 0 then Some (W0 e ts kc sg) else Some (WC h junk)
        | Some (W1 e c) => if h =? 1 then Some (W1 e c) else Some (WC h junk)
        | _ => None end
      else None
  | SL [t; SN j; SN h] =>
      if is_sym "ihsplice" t then
        match nthw (w_msgs W) h with
        | Some (W0 _ ts kc sg) => Some (W0 j ts kc sg)
        | _ => None end
      else None
  | SL [t; SN a; SN j; SN k; SN kind; SN x] =>
      if is_sym "rhforge" t then
        match nthw (w_msgs W) j with
        | Some (W0 ei ts kc sg) =>
            let cb1 := cb1_of ei ts kc sg in
            let sig := if kind =? 0 then TSig k P_CB cb1
                       else if kind =? 1 then TSig x P_CB cb1
                       else if kind =? 2 then
                         match nthw (w_msgs W) x with Some (W0 _ _ _ s) => s | _ => TAtom 997 end
                       else TAtom 997 in
            Some (W1 a (TAead (mk_key ei a 2) 0 (TPair (TPub k) sig)))
        | _ => None end
      else if is_sym "dataforge" t then
        (* (dataforge a e dir ctr tag) *)
        Some (WC (kind mod 2 ^ 32) (TAead (mk_key a j k) kind (TAtom x)))
      else if is_sym "idforge" t then
        (* (idforge a j ih kind key): a = adversary ephemeral, j = RespHello, k = the InitHello whose claim was sent *)
        match nthw (w_msgs W) j, nthw (w_msgs W) k with
        | Some (W1 er c), Some (W0 _ ts kc sg) =>
            let cb2 := cb2_of (cb1_of a ts kc sg) er c in
            let sig := if kind =? 0 then TSig x P_CB cb2
                       else if kind =? 2 then sg
                       else TAtom 997 in
            Some (WC 2 (TAead (mk_key a er 0) 2 sig))
        | _, _ => None end
      else None
  | _ => None
  end.

Definition kind_of_wire (w : wire) : sx :=
  match w with
  | W0 _ _ _ _ => sym "ih" | W1 _ _ => sym "rh"
  | WC h _ => if h =? 2 then sym "id" else if h =? 3 then sym "rd" else SL [sym "data"; SN h]
  | WJunk => sym "junk" end.

Definition sx_pt (t : term) : sx := match t with TAtom n => SN n | _ => sym "x" end.

Definition sx_xoutcome (o : xoutcome) : sx :=
  match o with
  | XApp pt => SL [sym "app"; sx_pt pt]
  | XReply (Some w) => SL [sym "reply"; kind_of_wire w]
  | XReply None => SL [sym "reply"; sym "none"]
  | XDrop => sym "drop"
  | XErr => sym "err"
  end.

Definition sx_sess (s : ssess) (o : sx) : sx :=
  SL [SN (x_hs s); sx_bool (xis_ready s);
      match x_remote s with Some k => SN k | None => sym "none" end; o].

Definition do_action (W : world) (a : sx) : option (world * sx) :=
  match a with
  | SL [t; SN isinit; SN key; SN ts] =>
      if is_sym "new" t then
        let idx := lenN (w_sess W) in
        let s := new_ssess (negb (isinit =? 0)) key (100 + idx) ts in
        let msgs := match xcached s 0 with Some w => w_msgs W ++ [w] | None => w_msgs W end in
        Some (mkW (w_sess W ++ [s]) msgs (w_cb W), sx_sess s (sym "created"))
      else None
  | SL [t; SN i; spec] =>
      if is_sym "dlv" t then
        match nthw (w_sess W) i, msg_of_spec W spec with
        | Some s, Some w =>
            match xdeliver s w with
            | Ok (s', o) =>
                let msgs := match o with XReply (Some r) => w_msgs W ++ [r] | _ => w_msgs W end in
                Some (mkW (set_nthw (w_sess W) (N.to_nat i) s') msgs (w_cb W), sx_sess s' (sx_xoutcome o))
            | _ => Some (W, sym "panic")
            end
        | Some s, None => Some (W, sx_sess s (sym "nomsg"))
        | _, _ => None
        end
      else if is_sym "send" t then
        match nthw (w_sess W) i, spec with
        | Some s, SN tag =>
            match xsend s (TAtom tag) with
            | Some (s', w) =>
                Some (mkW (set_nthw (w_sess W) (N.to_nat i) s') (w_msgs W ++ [w]) (w_cb W),
                      sx_sess s' (SL [sym "sent"; match w with WC h _ => SN h | _ => SN 0 end]))
            | None => Some (W, sx_sess s (sym "nosend"))
            end
        | _, _ => None
        end
      else if is_sym "setnonce" t then
        match nthw (w_sess W) i, spec with
        | Some s, SN n =>
            let s' := mkSS (x_init s) (x_me s) (x_eph s) (x_hs s) (x_noise s) (x_peer s) (x_remote s) (x_cb1 s) (x_cb2 s)
                           (x_cache s) n (x_last s) (x_seen s) (x_verified s) in
            Some (mkW (set_nthw (w_sess W) (N.to_nat i) s') (w_msgs W) (w_cb W), sx_sess s' (sym "set"))
        | _, _ => None
        end
      else None
  | _ => None
  end.

Fixpoint run_actions (W : world) (acts : list sx) (acc : list sx) : list sx * world :=
  match acts with
  | [] => (rev acc, W)
  | a :: t => match do_action W a with
              | Some (W', o) => run_actions W' t (o :: acc)
              | None => (rev (sym "bad-action" :: acc), W)
              end
  end.

(* ---- property predicates on the IMPLEMENTATION's observations ----
   The case lists which principals are honest: keys < 50 are honest, >= 50 adversary-owned.
   P_C03: a session never reports ready with remote key k honest unless ... is decided by the model
   run (the model's own verdict is proved); on the implementation we check the consequences that need
   no model: (1) no panic; (2) every delivered application plaintext tag was sent (tags are unique
   per send) — authenticity; (3) no tag delivered twice to the same session — at most once. *)
Fixpoint sent_tags (acts : list sx) : list N :=
  match acts with
  | [] => []
  | SL [t; SN _; SN tag] :: r => if is_sym "send" t then tag :: sent_tags r else sent_tags r
  | _ :: r => sent_tags r
  end.

Fixpoint forged_tags (acts : list sx) : list N :=
  match acts with
  | [] => []
  | SL [t; SN _; SL [f; SN _; SN _; SN _; SN _; SN tag]] :: r =>
      if is_sym "dlv" t && is_sym "dataforge" f then tag :: forged_tags r else forged_tags r
  | _ :: r => forged_tags r
  end.

(* (session, tag) of every application delivery in the observations, aligned with the actions *)
Fixpoint app_deliveries (acts obs : list sx) : list (N * N) :=
  match acts, obs with
  | SL [t; SN i; _] :: ar, SL [_; _; _; SL [a; SN tag]] :: orr =>
      if is_sym "dlv" t && is_sym "app" a then (i, tag) :: app_deliveries ar orr else app_deliveries ar orr
  | _ :: ar, _ :: orr => app_deliveries ar orr
  | _, _ => []
  end.

Fixpoint nodup_pairs (l : list (N * N)) : bool :=
  match l with
  | [] => true
  | (a, b) :: t => negb (existsb (fun q => (fst q =? a) && (snd q =? b)) t) && nodup_pairs t
  end.

(* (session, header counter) of every Send in the observations *)
Fixpoint sent_counters (acts obs : list sx) : list (N * N) :=
  match acts, obs with
  | SL [t; SN i; _] :: ar, SL [_; _; _; SL [a; SN h]] :: orr =>
      if is_sym "send" t && is_sym "sent" a then (i, h) :: sent_counters ar orr else sent_counters ar orr
  | _ :: ar, _ :: orr => sent_counters ar orr
  | _, _ => []
  end.

(* P_C03 on the observations alone: a handshake message forged by the adversary that does
   not carry a signature of the key it claims (an InitDone, whose InitHello claimed an honest
   key, signed by an adversary key or not at all; a RespHello signed by another key than the
   one it claims, or carrying a signature made for another purpose, or garbage) must leave the
   session where it was: neither its handshake index nor its readiness may change. *)
Definition forged_unsigned (spec : sx) : bool :=
  match spec with
  | SL [f; _; _; _; _; _] =>
      if is_sym "idforge" f then true
      else if is_sym "rhforge" f then
        match spec with
        | SL [_; _; _; SN k; SN kind; SN x] => negb ((kind =? 0) || ((kind =? 1) && (x =? k)))
        | _ => false end
      else false
  | _ => false
  end.

Definition hs_ready (o : sx) : option (N * N) := match o with SL (SN h :: SN r :: _) => Some (h, r) | _ => None end.

Fixpoint p_forged (prev : list (N * N)) (acts obs : list sx) : sx :=
  match acts, obs with
  | a :: ar, o :: orr =>
      match a with
      | SL [t; SN i; spec] =>
          if is_sym "new" t then p_forged (prev ++ [(0, 0)]) ar orr
          else
            let before := nth_error prev (N.to_nat i) in
            let after := hs_ready o in
            if is_sym "dlv" t && forged_unsigned spec &&
               match before, after with Some (h0, r0), Some (h1, r1) => negb ((h0 =? h1) && (r0 =? r1)) | _, _ => false end
            then bad "handshake-advanced-on-a-message-the-claimed-key-never-signed"
            else p_forged (match after with Some hr => set_nthw prev (N.to_nat i) hr | None => prev end) ar orr
      | SL (t :: _) => if is_sym "new" t then p_forged (prev ++ [(0, 0)]) ar orr else p_forged prev ar orr
      | _ => p_forged prev ar orr
      end
  | _, _ => ok
  end.

Definition p_sessions (acts obs : list sx) : sx :=
  if existsb (is_sym "panic") obs then bad "panic"
  else
    let apps := app_deliveries acts obs in
    let legit := sent_tags acts ++ forged_tags acts in
    if negb (forallb (fun q => memN (snd q) legit) apps) then bad "plaintext-delivered-that-was-never-sent"
    else if negb (nodup_pairs apps) then bad "plaintext-delivered-twice"
    else if negb (nodup_pairs (sent_counters acts obs)) then bad "counter-reused-under-one-key"
    else if existsb (fun q => snd q <? 4) (sent_counters acts obs) then bad "data-counter-in-handshake-range"
    else p_forged [] acts obs.

Definition run_sessions (case obs : sx) : sx :=
  match case, obs with
  | SL [t; SN g; SN k; _], SL [SN total; SN dups; SN errs] =>
      if is_sym "conc-send" t then
        SL [SL [SN (g * k); SN 0; SN 0];
            if negb (dups =? 0) then bad "header-counter-used-twice" else ok]
      else bad_case
  | SL [t; SL acts], SL obsl =>
      if is_sym "ke" t then
        let '(model, _) := run_actions (mkW [] [] []) acts [] in
        SL [SL model; p_sessions acts obsl]
      else bad_case
  | SL [t; SL acts], _ =>
      let '(model, _) := run_actions (mkW [] [] []) acts [] in SL [SL model; bad "unreadable-observation"]
  | _, _ => bad_case
  end.

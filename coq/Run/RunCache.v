(* Runner for C18 and C19: replays an operation history on the Cache model and
   evaluates the property predicates on the implementation's observations.

   case : (cache <locus> <max> <minpb> (<op> ...))
   op   : (put k v now exp victim) | (keep k v now exp victim) | (del k) | (expire now)
        | (get k) | (foreach q) | (closest q) | (closer q) | (matching prefix nbits)
   obs  : (<per-op obs> ...), per-op obs = (<result> <count> <contents sorted by key>)
   times: n | (- n) *)
From Coq Require Import String.
From P2PV Require Import Lib.Base Model.Distance Model.Cache.
Open Scope Z_scope.

Definition ok : sx := sym "ok".
Definition bad (why : string) : sx := SL [sym "bad"; sym why].

Definition z_of_sx (x : sx) : option Z :=
  match x with
  | SN n => Some (Z.of_N n)
  | SL [m; SN n] => if is_sym "-" m then Some (- Z.of_N n) else None
  | _ => None
  end.
Definition sx_of_z (z : Z) : sx :=
  if z <? 0 then SL [sym "-"; SN (Z.to_N (- z))] else SN (Z.to_N z).

Definition sx_entry (e : entry) : sx :=
  SL [SB (e_key e); SB (e_val e); sx_of_z (e_created e); sx_of_z (e_exp e)].
Definition entry_of_sx (x : sx) : option entry :=
  match x with
  | SL [SB k; SB v; c; e] =>
      match z_of_sx c, z_of_sx e with
      | Some c, Some e => Some (mkE k v c e)
      | _, _ => None
      end
  | _ => None
  end.
Fixpoint entries_of_sx (l : list sx) : list entry :=
  match l with
  | [] => []
  | x :: t => match entry_of_sx x with Some e => e :: entries_of_sx t | None => entries_of_sx t end
  end.

(* sort entries by key (bytes.Compare) for set-like comparison *)
Fixpoint ins_key (e : entry) (l : list entry) : list entry :=
  match l with
  | [] => [e]
  | h :: t => match lex_compare (e_key e) (e_key h) with
              | Gt => h :: ins_key e t
              | _ => e :: l
              end
  end.
Definition sort_key (l : list entry) : list entry := fold_right ins_key [] l.

Definition sx_entries (l : list entry) : sx := SL (map sx_entry l).
Definition sx_keys (l : list entry) : sx := SL (map (fun e => SB (e_key e)) l).

Inductive qop :=
| QMod (o : op) (orc : bytes)
| QForEach (q : bytes) | QClosest (q : bytes) | QCloser (q : bytes) | QMatching (p : bytes) (nbits : N).

Definition qop_of_sx (x : sx) : option qop :=
  match x with
  | SL [t; SB k; SB v; now; exp; SB orc] =>
      match z_of_sx now, z_of_sx exp with
      | Some now, Some exp =>
          if is_sym "put" t then Some (QMod (OPut k v now exp) orc)
          else if is_sym "keep" t then Some (QMod (OKeep k v now exp) orc)
          else None
      | _, _ => None
      end
  | SL [t; SB k; SN n] => if is_sym "matching" t then Some (QMatching k n) else None
  | SL [t; SB k] =>
      if is_sym "del" t then Some (QMod (ODel k) [])
      else if is_sym "get" t then Some (QMod (OGet k) [])
      else if is_sym "foreach" t then Some (QForEach k)
      else if is_sym "closest" t then Some (QClosest k)
      else if is_sym "closer" t then Some (QCloser k)
      else None
  | SL [t; now] =>
      if is_sym "expire" t then option_map (fun n => QMod (OExpire n) []) (z_of_sx now) else None
  | _ => None
  end.

Definition sx_out (o : out) : sx :=
  match o with
  | RPut ev added => SL [sym "put"; sx_option sx_entry ev; sx_bool added]
  | RDel e => SL [sym "del"; sx_option sx_entry e]
  | RExpire es => SL [sym "expired"; sx_entries (sort_key es)]
  | RGet v => SL [sym "got"; sx_option SB v]
  | RCount n => SL [sym "count"; sx_of_z n]
  end.

(* canonical form of a visit sequence: runs of entries at equal distance from k
   are sorted by key (their relative order depends on map iteration order) *)
Fixpoint canon_runs (k : bytes) (cur : list entry) (l : list entry) : list entry :=
  match l with
  | [] => sort_key cur
  | e :: t =>
      match cur with
      | [] => canon_runs k [e] t
      | c :: _ => match distance_cmp k (e_key c) (e_key e) with
                  | Eq => canon_runs k (e :: cur) t
                  | _ => sort_key cur ++ canon_runs k [e] t
                  end
      end
  end.
Definition canon (k : bytes) (l : list entry) : list entry := canon_runs k [] l.

Definition matching_model (c : cache) (p : bytes) (nbits : N) : result (list entry) :=
  if (8 * lenN p <? nbits)%N then Panic P_HASPREFIX
  else Ok (filter (fun e => match has_prefix (e_key e) p nbits with Ok true => true | _ => false end)
                  (contents c)).

(* model observation of one op (state after it) *)
Definition obs_after (c : cache) (r : sx) : sx :=
  SL [r; sx_of_z (c_count c); sx_entries (sort_key (contents c))].

Definition model_step (c : cache) (q : qop) : result (cache * sx) :=
  match q with
  | QMod o orc => do (c', r) <- step c o orc; Ok (c', sx_out r)
  | QForEach k => Ok (c, SL [sym "visit"; sx_keys (canon k (for_each_code c k))])
  | QClosest k => Ok (c, SL [sym "closest"; sx_option (fun e => SB (e_key e)) (hd_error (canon k (for_each_code c k)))])
  | QCloser k => Ok (c, SL [sym "closer"; sx_keys (sort_key (for_each_closer c k))])
  | QMatching p n => do l <- matching_model c p n; Ok (c, SL [sym "matching"; sx_keys (sort_key l)])
  end.

(* ---- property predicates on the IMPLEMENTATION's observations ---- *)
Definition keys_of (l : list entry) : list bytes := map e_key l.
Definition mem_key (k : bytes) (l : list bytes) : bool := existsb (bytes_eqb k) l.
Fixpoint find_entry (l : list entry) (k : bytes) : option entry :=
  match l with [] => None | e :: t => if bytes_eqb (e_key e) k then Some e else find_entry t k end.
Definition entry_eqb (a b : entry) : bool :=
  bytes_eqb (e_key a) (e_key b) && bytes_eqb (e_val a) (e_val b)
  && (e_created a =? e_created b) && (e_exp a =? e_exp b).

Fixpoint sorted_by (k : bytes) (l : list bytes) : bool :=
  match l with
  | a :: ((b :: _) as t) => match distance_cmp k a b with Gt => false | _ => sorted_by k t end
  | _ => true
  end.
Fixpoint nodup_keys (l : list bytes) : bool :=
  match l with [] => true | a :: t => negb (mem_key a t) && nodup_keys t end.
Definition same_keys (a b : list bytes) : bool :=
  (lenN a =? lenN b)%N && nodup_keys a && forallb (fun k => mem_key k b) a.

Definition impl_parts (o : sx) : option (sx * Z * list entry) :=
  match o with
  | SL [r; cnt; SL ents] => match z_of_sx cnt with Some n => Some (r, n, entries_of_sx ents) | None => None end
  | _ => None
  end.

(* bucket index bookkeeping on a flat contents list *)
Definition count_in_bucket (locus : bytes) (l : list entry) (i : N) : Z :=
  lenZ (filter (fun e => (bucket_index locus (e_key e) =? i)%N) l).

(* P_C18 for one step: prev = implementation contents before, cur = after *)
Definition p18 (locus : bytes) (maxn minpb : Z) (q : qop) (prev : list entry) (o : sx) : sx :=
  match impl_parts o with
  | None => bad "unreadable-observation"
  | Some (r, cnt, cur) =>
      if negb (cnt =? lenZ cur) then bad "count-differs-from-entries-held"
      else if maxn <? cnt then bad "count-exceeds-capacity"
      else if negb (nodup_keys (keys_of cur)) then bad "duplicate-key"
      else
        let lost := filter (fun e => negb (mem_key (e_key e) (keys_of cur))) prev in
        match q with
        | QMod (OPut k v now exp) _ | QMod (OKeep k v now exp) _ =>
            let victim := match r with
                          | SL [_; SL [_; ve]; _] => entry_of_sx ve
                          | _ => None end in
            let vk := match victim with Some e => [e_key e] | None => [] end in
            if negb (forallb (fun e => mem_key (e_key e) vk) lost) then bad "entry-lost-silently"
            else if (maxn =? 0) then ok
            else
              (* latest value readable unless it was the victim *)
              let stored := find_entry cur k in
              match stored, mem_key k vk with
              | None, false => bad "put-not-stored"
              | Some e, _ => if bytes_eqb (e_val e) v then
                  (* victim rule *)
                  match victim with
                  | None => ok
                  | Some ve =>
                      let all := match find_entry prev k with
                                 | Some _ => prev | None => mkE k v now exp :: prev end in
                      let vi := bucket_index locus (e_key ve) in
                      (* no bucket farther than the victim's holds more than minpb (before eviction) *)
                      let farther_over := existsb (fun e => (bucket_index locus (e_key e) <? vi)%N
                                              && (minpb <? count_in_bucket locus all (bucket_index locus (e_key e)))) all in
                      if farther_over then bad "victim-not-from-farthest-unprotected-bucket"
                      else ok
                  end
                  else bad "lookup-not-latest"
              | None, true => ok
              end
        | QMod (ODel k) _ =>
            if negb (forallb (fun e => bytes_eqb (e_key e) k) lost) then bad "entry-lost-silently"
            else if mem_key k (keys_of cur) then bad "deleted-key-still-present"
            else
              let reported := match r with SL [_; SL [_; _]] => true | _ => false end in
              if Bool.eqb reported (mem_key k (keys_of prev)) then ok else bad "delete-result-wrong"
        | QMod (OExpire now) _ =>
            let should := filter (is_expired now) prev in
            if negb (same_keys (keys_of lost) (keys_of should)) then bad "expire-not-exact"
            else ok
        | QMod (OGet k) _ =>
            if negb (lenN lost =? 0)%N then bad "entry-lost-silently"
            else
              let want := sx_option SB (option_map e_val (find_entry cur k)) in
              match r with SL [_; g] => if sx_eqb g want then ok else bad "lookup-not-latest" | _ => bad "unreadable-observation" end
        | _ => if (lenN lost =? 0)%N then ok else bad "entry-lost-silently"
        end
  end.

Definition keys_of_sx (x : sx) : list bytes :=
  match x with SL l => flat_map (fun y => match y with SB b => [b] | _ => [] end) l | _ => [] end.

(* P_C19 for one query against the implementation's own contents *)
Definition p19 (locus : bytes) (q : qop) (o : sx) : sx :=
  match impl_parts o with
  | None => bad "unreadable-observation"
  | Some (r, _, cur) =>
      match q, r with
      | QForEach k, SL [_; ks] =>
          let seq := keys_of_sx ks in
          if negb (same_keys seq (keys_of cur)) then bad "enumeration-not-a-permutation-of-contents"
          else if negb (sorted_by k seq) then bad "enumeration-not-nearest-first"
          else ok
      | QClosest k, SL [_; SL [_; SB best]] =>
          if negb (mem_key best (keys_of cur)) then bad "closest-not-an-entry"
          else if existsb (fun e => match distance_cmp k (e_key e) best with Lt => true | _ => false end) cur
          then bad "closest-not-minimum" else ok
      | QClosest k, _ => if (lenN cur =? 0)%N then ok else bad "closest-missing"
      | QCloser k, SL [_; ks] =>
          let want := filter (fun e => distance_lt k (e_key e) locus) cur in
          if same_keys (keys_of_sx ks) (keys_of want) then ok else bad "closer-set-wrong"
      | QMatching p n, SL [_; ks] =>
          let want := filter (fun e => match has_prefix (e_key e) p n with Ok true => true | _ => false end) cur in
          if same_keys (keys_of_sx ks) (keys_of want) then ok else bad "matching-set-wrong"
      | _, _ => ok
      end
  end.

Fixpoint qops_of_sx (l : list sx) : option (list qop) :=
  match l with
  | [] => Some []
  | x :: t => match qop_of_sx x, qops_of_sx t with
              | Some q, Some qs => Some (q :: qs)
              | _, _ => None
              end
  end.

Definition first_bad (a b : sx) : sx := if is_sym "ok" a then b else a.

(* replay: returns (model observations, first failing predicate) *)
Fixpoint replay (c : result cache) (locus : bytes) (maxn minpb : Z) (qs : list qop)
         (obs : list sx) (prev : list entry) (acc : list sx) (verdict : sx) : sx :=
  match qs with
  | [] => SL [SL (rev acc); verdict]
  | q :: qt =>
      let o := match obs with x :: _ => x | [] => sym "missing" end in
      let v := first_bad (p18 locus maxn minpb q prev o) (p19 locus q o) in
      let v := if is_sym "panic" o then bad "panic" else v in
      let cur := match impl_parts o with Some (_, _, cur) => cur | None => prev end in
      match c with
      | Ok cm =>
          match model_step cm q with
          | Ok (cm', r) => replay (Ok cm') locus maxn minpb qt (tl obs) cur (obs_after cm' r :: acc) (first_bad verdict v)
          | Err e => replay (Err e) locus maxn minpb qt (tl obs) cur (SL [sym "err"; SN e] :: acc) (first_bad verdict v)
          | Panic s => replay (Panic s) locus maxn minpb qt (tl obs) cur (sym "panic" :: acc) (first_bad verdict v)
          end
      | _ => replay c locus maxn minpb qt (tl obs) cur (sym "dead" :: acc) (first_bad verdict v)
      end
  end.

(* the comparison functions of distance.go called directly:
   case = (dist xX xA xB)   obs = (<DistanceCmp(x,a,b)+1> <DistanceLz(a,b)> <LeadingZeros(x)>) *)
Definition cmp_code (c : comparison) : N := match c with Lt => 0%N | Eq => 1%N | Gt => 2%N end.
Definition run_dist (x a b : bytes) (obs : sx) : sx :=
  let model := SL [SN (cmp_code (distance_cmp x a b)); SN (distance_lz a b); SN (leading_zeros x)] in
  SL [model;
      match obs with
      | SL [SN c; SN lz; SN lzx] =>
          if negb (N.eqb c (cmp_code (lex_compare (distance x a) (distance x b)))) then bad "DistanceCmp-disagrees-with-comparing-the-xor-distances"
          else if negb (N.eqb lz (leading_zeros (distance a b))) then bad "DistanceLz-is-not-the-leading-zeros-of-the-distance"
          else ok
      | _ => bad "unexpected-result"
      end].

Definition run_cache (case obs : sx) : sx :=
  match case, obs with
  | SL [t; SB x; SB a; SB b], _ => if is_sym "dist" t then run_dist x a b obs else bad_case
  | SL [t; SB locus; mx; mn; SL ops], SL obsl =>
      match z_of_sx mx, z_of_sx mn, qops_of_sx ops with
      | Some mx, Some mn, Some qs =>
          if is_sym "cache" t then
            match new_cache locus mx mn with
            | Ok c0 => replay (Ok c0) locus mx mn qs obsl [] [] ok
            | _ => SL [sym "ctor-panic"; if is_sym "ctor-panic" obs then ok else bad "constructor-acceptance-differs"]
            end
          else bad_case
      | _, _, _ => bad_case
      end
  | SL [t; SB locus; mx; mn; SL ops], _ =>
      match z_of_sx mx, z_of_sx mn with
      | Some mx, Some mn =>
          match new_cache locus mx mn with
          | Ok _ => SL [sym "ctor-ok"; bad "constructor-acceptance-differs"]
          | _ => SL [sym "ctor-panic"; if is_sym "ctor-panic" obs then ok else bad "constructor-acceptance-differs"]
          end
      | _, _ => bad_case
      end
  | _, _ => bad_case
  end.

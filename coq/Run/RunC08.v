From Coq Require Import String.
(* Runner for C08: adversarial byte sequences into the receive paths.
   The fragmenting layers run the checked models (Model/Chk.v), the
   multiplexers their unframe models; junk08 / parse08 cases are survival
   observations of code that is exercised but not modelled. *)
From P2PV Require Import Lib.Base Lib.Varint Model.Mux Model.Frag Model.Mbapp Model.Chk
  Run.RunC15 Run.RunFrag.
Open Scope N_scope.

Fixpoint run_frag_chk (st : frag_state) (pkts : list (bytes * bytes)) : list sx :=
  match pkts with
  | [] => []
  | (src, pkt) :: t =>
      match frag_recv_chk st src pkt with
      | Ok (st', d) => sx_delivery src d :: run_frag_chk st' t
      | Err _ => sym "none" :: run_frag_chk st t
      | Panic _ => [sym "panic"]
      end
  end.

Fixpoint run_mb_chk (mtu : Z) (st : mb_state) (pkts : list (bytes * bytes)) : list sx :=
  match pkts with
  | [] => []
  | (src, pkt) :: t =>
      match mb_recv_chk mtu st src pkt with
      | Ok (st', Some (h, body)) =>
          (if h_ask h then sym "none" else sx_delivery src (Some body)) :: run_mb_chk mtu st' t
      | Ok (st', None) => sym "none" :: run_mb_chk mtu st' t
      | Err _ => sym "none" :: run_mb_chk mtu st t
      | Panic _ => [sym "panic"]
      end
  end.

Definition probe : bytes := [115; 116; 105; 108; 108; 45; 115; 101; 114; 118; 105; 110; 103].  (* "still-serving" *)

(* P_C08: the process survived (no panic observation) and the final valid
   message was still delivered *)
Definition p08_recv (obs : sx) : sx :=
  match obs with
  | SL ds =>
      if existsb (is_sym "panic") ds then bad "panic"
      else match last ds (sym "none") with
           | SL [_; SB p] => if bytes_eqb p probe then ok else bad "valid-message-after-junk-not-served"
           | _ => bad "valid-message-after-junk-not-served"
           end
  | _ => if is_sym "panic" obs then bad "panic" else bad "unreadable-observation"
  end.

Definition run_C08 (case obs : sx) : sx :=
  match case with
  | SL [t; k; mtu; SL pkts] =>
      if is_sym "recv08" t then
        let pk := pairs_of_sx pkts in
        let model := if is_sym "frag" k then run_frag_chk [] pk else run_mb_chk (z_of mtu) [] pk in
        SL [SL model; p08_recv obs]
      else bad_case
  | SL [t; k; _] =>
      if is_sym "junk08" t then
        SL [SL [SN 1; SN 1];
            match obs with
            | SL [SN 1; SN 1] => ok
            | SL [SN 1; SN 0] => bad "valid-peer-after-junk-not-served"
            | _ => bad "panic"
            end]
      else if is_sym "parse08" t then SL [sym "ok"; if is_sym "ok" obs then ok else bad "panic"]
      else if is_sym "unframe" t then run_C15 case obs
      else bad_case
  | _ => bad_case
  end.

(* Runner shared by C09 (sender half of the fragmenting layers) and C10 (receivers).
   payload : xHEX | (pat seed len)
   (tell frag <inner> <cfg> <id> <payload>)
   (tell mbapp <inner> <cfg> (<origin> <counter> <timeout>) <payload>)
        obs (<reported mtu> err) | (<reported mtu> ok <count> <digest> <max packet len> <intact 0/1> (pkt...)|big)
   (recv frag|mbapp <receiver mtu> ((xSRC xPAYLOAD)...) ((xSRC xPKT)...))
        obs (none | (xSRC xPAYLOAD) ...)   one per delivered packet *)
From Coq Require Import String.
From P2PV Require Import Lib.Base Lib.Varint Model.Frag Model.Mbapp Model.Distance.
Open Scope N_scope.

Definition ok : sx := sym "ok".
Definition bad (why : string) : sx := SL [sym "bad"; sym why].

(* deterministic pattern payloads keep case files small *)
Fixpoint pat_bytes (fuel : nat) (seed i : N) : bytes :=
  match fuel with O => [] | S f => (seed + i * 7 + i / 256) mod 256 :: pat_bytes f seed (N.succ i) end.
Definition payload_of_sx (x : sx) : option bytes :=
  match x with
  | SB b => Some b
  | SL [t; SN seed; SN len] => if is_sym "pat" t then Some (pat_bytes (N.to_nat len) seed 0) else None
  | SL [t; SN len] => if is_sym "zeros" t then Some (repeat 0 (N.to_nat len)) else None   (* only its length matters *)
  | _ => None
  end.

(* order-independent digest of a packet list: sum of FNV-1a 64 *)
Definition fnv_step (h b : N) : N := (N.lxor h b * 1099511628211) mod 2 ^ 64.
Definition fnv64 (p : bytes) : N := fold_left fnv_step p 14695981039346656037.
Definition digest (ps : list bytes) : N := fold_left (fun acc p => (acc + fnv64 p) mod 2 ^ 64) ps 0.

Fixpoint ins_bytes (x : bytes) (l : list bytes) : list bytes :=
  match l with
  | [] => [x]
  | h :: t => match lex_compare x h with Gt => h :: ins_bytes x t | _ => x :: l end
  end.
Definition sort_bytes (l : list bytes) : list bytes := fold_right ins_bytes [] l.

Definition z_of (x : sx) : Z := match x with SN n => Z.of_N n | SL [_; SN n] => (- Z.of_N n)%Z | _ => 0%Z end.
Definition sx_z (z : Z) : sx := if (z <? 0)%Z then SL [sym "-"; SN (Z.to_N (- z))] else SN (Z.to_N z).
Definition maxlen (ps : list bytes) : N := fold_left (fun m p => N.max m (lenN p)) ps 0.

Definition tell_obs (mtu : Z) (r : result (list bytes)) : sx :=
  match r with
  | Ok ps => SL [sx_z mtu; sym "ok"; SN (lenN ps); SN (if lenN ps <=? 2000 then digest ps else 0); SN (maxlen ps); SN 1;
                 if lenN ps <=? 32 then SL (map SB (sort_bytes ps)) else sym "big"]
  | Err _ => SL [sx_z mtu; sym "err"]
  | Panic _ => sym "panic"
  end.

(* P_C09 on one sender observation: honest MTU *)
Definition p09 (hdr inner : Z) (plen : N) (obs : sx) : sx :=
  (* an inner MTU that leaves no room for the header cannot carry anything: outside wf_cfg *)
  if (inner <=? hdr)%Z then (if is_sym "panic" obs then bad "panic" else ok) else
  match obs with
  | SL [m; r] => if (Z.of_N plen <=? z_of m)%Z then bad "payload-within-MTU-rejected" else
                 if is_sym "err" r then ok else bad "unreadable-observation"
  | SL [m; _; _; _; SN mx; SN intact; _] =>
      if (z_of m <? Z.of_N plen)%Z then bad "payload-above-MTU-accepted"
      else if (inner <? Z.of_N mx)%Z then bad "fragment-larger-than-inner-MTU"
      else if intact =? 0 then bad "payload-not-delivered-intact" else ok
  | _ => if is_sym "panic" obs then bad "panic" else bad "unreadable-observation"
  end.

Definition run_tell (args : list sx) (obs : sx) : sx :=
  match args with
  | [k; inner; cfg; ident; pl] =>
      match payload_of_sx pl with
      | None => bad_case
      | Some p =>
          let inner := z_of inner in let cfg := z_of cfg in
          if is_sym "frag" k then
            let id := match ident with SN n => n | _ => 0 end in
            SL [tell_obs (frag_mtu inner cfg) (frag_tell inner cfg id p); p09 OVERHEAD inner (lenN p) obs]
          else if is_sym "mbapp" k then
            match ident with
            | SL [SN origin; SN counter; SN timeout] =>
                let h := mkHdr false false 0 origin counter 0 0 0 timeout in
                SL [tell_obs (mb_mtu inner cfg) (mb_tell inner cfg h p); p09 HEADER_SIZE inner (lenN p) obs]
            | _ => bad_case
            end
          else bad_case
      end
  | _ => bad_case
  end.

(* ---- receivers ---- *)
Definition pair_of_sx (x : sx) : option (bytes * bytes) :=
  match x with SL [SB a; SB b] => Some (a, b) | _ => None end.
Fixpoint pairs_of_sx (l : list sx) : list (bytes * bytes) :=
  match l with [] => [] | x :: t => match pair_of_sx x with Some p => p :: pairs_of_sx t | None => pairs_of_sx t end end.

Definition sx_delivery (src : bytes) (d : option bytes) : sx :=
  match d with Some p => SL [SB src; SB p] | None => sym "none" end.

Fixpoint run_frag_recv (st : frag_state) (pkts : list (bytes * bytes)) : list sx :=
  match pkts with
  | [] => []
  | (src, pkt) :: t =>
      match frag_recv st src pkt with
      | Ok (st', d) => sx_delivery src d :: run_frag_recv st' t
      | Err _ => sym "none" :: run_frag_recv st t
      | Panic _ => [sym "panic"]
      end
  end.

Fixpoint run_mb_recv (mtu : Z) (st : mb_state) (pkts : list (bytes * bytes)) : list sx :=
  match pkts with
  | [] => []
  | (src, pkt) :: t =>
      match mb_recv mtu st src pkt with
      | Ok (st', Some (h, body)) =>
          (if h_ask h then sym "none" else sx_delivery src (Some body)) :: run_mb_recv mtu st' t
      | Ok (st', None) => sym "none" :: run_mb_recv mtu st' t
      | Err _ => sym "none" :: run_mb_recv mtu st t
      | Panic _ => [sym "panic"]
      end
  end.

(* P_C10: every delivered (src, payload) is a ledger entry of that source *)
Definition in_ledger (ledger : list (bytes * bytes)) (d : sx) : bool :=
  match d with
  | SL [SB src; SB p] => existsb (fun e => bytes_eqb (fst e) src && bytes_eqb (snd e) p) ledger
  | _ => true
  end.

Definition run_recv (args : list sx) (obs : sx) : sx :=
  match args with
  | [k; mtu; SL ledger; SL pkts] =>
      let pk := pairs_of_sx pkts in
      let model := if is_sym "frag" k then run_frag_recv [] pk else run_mb_recv (z_of mtu) [] pk in
      let verdict :=
        match obs with
        | SL ds => if existsb (is_sym "panic") ds then bad "panic"
                   else if forallb (in_ledger (pairs_of_sx ledger)) ds then ok
                   else bad "delivered-payload-not-sent-by-that-source"
        | _ => bad "unreadable-observation"
        end in
      SL [SL model; verdict]
  | _ => bad_case
  end.

Definition run_frag (case obs : sx) : sx :=
  match case with
  | SL (t :: args) =>
      if is_sym "tell" t then run_tell args obs
      else if is_sym "recv" t then run_recv args obs
      else bad_case
  | _ => bad_case
  end.

(* Runner for C20.
   case : (find target <rule> (node...) (answer...)) | (join target <rule> (node...) (answer...))
        | (get key <rule> (node...) (answer...))     | (put key minAccepted (node...) (answer...))
   node : (id info)        answer : (ok|err (node...) value|none accept)
   rule : 0 = accept everything, 1 = reject info/value starting with 0xEE / AddPeer true iff last id byte even
   obs  : (find (asked...) closest|none contacted err) | (join (asked...) added)
        | (get (asked...) value from closest contacted responded err)
        | (put (asked...) closest accepted contacted responded err) | panic *)
From Coq Require Import String.
From P2PV Require Import Lib.Base Model.Distance Model.Dht.
Open Scope N_scope.

Definition ok : sx := sym "ok".
Definition bad (why : string) : sx := SL [sym "bad"; sym why].

Definition node_of_sx (x : sx) : option node :=
  match x with SL [SB i; SB info] => Some (mkNode i info) | _ => None end.
Fixpoint nodes_of_sx (l : list sx) : list node :=
  match l with [] => [] | x :: t => match node_of_sx x with Some n => n :: nodes_of_sx t | None => nodes_of_sx t end end.

Definition answer_of_sx (x : sx) : answer :=
  match x with
  | SL [t; SL ns; v; SN acc] =>
      mkAns (is_sym "ok" t) (nodes_of_sx ns) (match v with SB b => Some b | _ => None end) (negb (acc =? 0))
  | _ => mkAns false [] None false
  end.

Definition resp_of (answers : list answer) : responder :=
  fun i _ => nth (N.to_nat i) answers (mkAns false [] None false).

Definition starts_ee (b : bytes) : bool := match b with x :: _ => x =? 238 | [] => false end.
Definition node_rule (r : N) (n : node) : bool := if r =? 0 then true else negb (starts_ee (n_info n)).
Definition value_rule (r : N) (v : bytes) : bool := if r =? 0 then true else negb (starts_ee v).
Definition addpeer_rule (r : N) (n : node) : bool :=
  if r =? 0 then true else match rev (n_id n) with x :: _ => (x mod 2 =? 0) | [] => true end.

Definition FUEL : nat := N.to_nat 20000.

Definition sx_ids (l : list bytes) : sx := SL (map SB l).
Definition asked (log : asklog) : list bytes := map (fun p => n_id (fst p)) log.
Definition sx_oid (o : option bytes) : sx := match o with Some b => SB b | None => sym "none" end.

Definition z_of_sx (x : sx) : Z :=
  match x with
  | SN n => Z.of_N n
  | SL [_; SN n] => (- Z.of_N n)%Z
  | _ => 0%Z
  end.

Definition model_obs (tag : sx) (key : bytes) (rule : sx) (initial : list node) (answers : list answer) : sx :=
  let resp := resp_of answers in
  let r := match rule with SN r => r | _ => 0 end in
  let fin {S} (x : option (result (S * list bytes))) (f : S -> sx) : sx :=
    match x with
    | None => sym "out-of-fuel"
    | Some (Ok (st, _)) => f st
    | Some (Err _) => sym "err"
    | Some (Panic _) => sym "panic"
    end in
  if is_sym "find" tag then
    fin (dht_find FUEL resp initial key (node_rule r))
        (fun st => SL [sym "find"; sx_ids (asked (f_log st));
                       match f_closest st with Some c => SL [SB (n_id c); SB (n_info c)] | None => sym "none" end;
                       SN (f_contacted st); sx_bool (find_err key st)])
  else if is_sym "join" tag then
    fin (dht_join FUEL resp initial key (addpeer_rule r))
        (fun st => SL [sym "join"; sx_ids (asked (j_log st)); SN (j_added st)])
  else if is_sym "get" tag then
    fin (dht_get FUEL resp initial key (value_rule r))
        (fun st => SL [sym "get"; sx_ids (asked (g_log st)); sx_oid (g_value st); sx_oid (g_from st);
                       sx_oid (g_closest st); SN (g_contacted st); SN (g_responded st); sx_bool (get_err st)])
  else if is_sym "put" tag then
    fin (dht_put FUEL resp initial key)
        (fun st => SL [sym "put"; sx_ids (asked (p_log st)); sx_oid (p_closest st); SN (p_accepted st);
                       SN (p_contacted st); SN (p_responded st); sx_bool (put_err (z_of_sx rule) st)])
  else bad_case.

(* ---------- the property predicate on the implementation's observation ---------- *)
Fixpoint nodup_ids (l : list bytes) : bool :=
  match l with [] => true | h :: t => negb (mem_id h t) && nodup_ids t end.
Definition ids_of_sx (x : sx) : list bytes :=
  match x with SL l => flat_map (fun y => match y with SB b => [b] | _ => [] end) l | _ => [] end.
Definition is_min (key : bytes) (c : bytes) (among : list bytes) : bool :=
  mem_id c among && forallb (fun x => negb (distance_lt key x c)) among.

Fixpoint zip {A B} (a : list A) (b : list B) : list (A * B) :=
  match a, b with x :: a', y :: b' => (x, y) :: zip a' b' | _, _ => [] end.

Definition p20 (tag : sx) (key : bytes) (rule : sx) (initial : list node) (answers : list answer) (obs : sx) : sx :=
  if is_sym "panic" obs then bad "panic" else
  let r := match rule with SN r => r | _ => 0 end in
  match obs with
  | SL (_ :: ids :: rest) =>
      let asked := ids_of_sx ids in
      let pairs := zip asked answers in
      let responders := map fst (filter (fun p => a_ok (snd p)) pairs) in
      (* find-node: a peer learnt from an answer is contacted only if it passed validation *)
      let learnt_invalid := flat_map (fun a => map n_id (filter (fun n => negb (node_rule r n)) (a_nodes a))) answers in
      let learnt_valid := flat_map (fun a => map n_id (filter (node_rule r) (a_nodes a))) answers in
      if negb (nodup_ids asked) then bad "node-contacted-more-than-once"
      else if is_sym "find" tag &&
              existsb (fun x => mem_id x learnt_invalid && negb (mem_id x learnt_valid) && negb (mem_id x (map n_id initial))) asked
      then bad "contacted-a-peer-that-failed-validation"
      else if is_sym "find" tag then
        match rest with
        | [SL [SB c; _]; SN contacted; _] =>
            if negb (is_min key c (if mem_id key asked then asked else c :: asked)) && negb (bytes_eqb c key)
            then bad "closest-not-nearest-contacted"
            else if negb (contacted =? lenN responders) then bad "contacted-count-wrong" else ok
        | _ => ok
        end
      else if is_sym "get" tag then
        match rest with
        | [v; from; closest; SN contacted; SN responded; SN err] =>
            if negb (contacted =? lenN asked) || negb (responded =? lenN responders) then bad "count-wrong"
            else
              let verdict := match closest with
                 | SB c => if is_min key c responders then ok else bad "closest-not-nearest-contacted"
                 | _ => if (lenN responders =? 0) then ok else bad "closest-missing"
                 end in
              if negb (is_sym "ok" verdict) then verdict else
                 match v, from with
                 | SB vb, SB f =>
                     if existsb (fun p => bytes_eqb (fst p) f && a_ok (snd p) &&
                                          match a_value (snd p) with Some x => bytes_eqb x vb && value_rule r x | None => false end) pairs
                     then (if err =? 0 then ok else bad "error-despite-value")
                     else bad "value-not-from-a-contacted-node-or-not-validated"
                 | _, _ => if err =? 0 then bad "success-without-value" else ok
                 end
        | _ => ok
        end
      else if is_sym "put" tag then
        match rest with
        | [closest; SN accepted; SN contacted; SN responded; SN err] =>
            let acc := map fst (filter (fun p => a_ok (snd p) && a_accept (snd p)) pairs) in
            if negb (accepted =? lenN acc) then bad "accepted-count-not-distinct-accepting-nodes"
            else if negb (Bool.eqb (negb (err =? 0)) (Z.of_N accepted <? eff_min (z_of_sx rule))%Z) then bad "error-iff-below-minimum-violated"
            else if negb (contacted =? lenN asked) || negb (responded =? lenN responders) then bad "count-wrong"
            else match closest with
                 | SB c => if is_min key c acc then ok else bad "closest-not-nearest-contacted"
                 | _ => if (lenN acc =? 0) then ok else bad "closest-missing"
                 end
        | _ => ok
        end
      else ok
  | _ => bad "unreadable-observation"
  end.

Definition run_C20 (case obs : sx) : sx :=
  match case with
  | SL [tag; SB key; rule; SL initial; SL answers] =>
      let ans := map answer_of_sx answers in
      SL [model_obs tag key rule (nodes_of_sx initial) ans; p20 tag key rule (nodes_of_sx initial) ans obs]
  | _ => bad_case
  end.

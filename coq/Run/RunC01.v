From Coq Require Import String.
(* Runner for C01: concurrent senders Tell through real stacks to one receiver.
   case = (c01 <layers top first> <receiver address> <ledger ((src payload) ...)> <wires ((src wire) ...) | opaque>)
   obs  = (<stray deliveries at other nodes> ((src dst payload) ...))  sorted *)
From P2PV Require Import Lib.Base Lib.Varint Model.Distance Model.Mux Model.Frag Model.Mbapp Model.Stack Model.Layers
  Run.RunC15 Run.RunFrag Run.RunStack.
Open Scope N_scope.

Fixpoint rlayers_of (st : list layer) : option (list rlayer) :=
  match st with
  | [] => Some []
  | l :: t =>
      match (match l with
             | LMux k c => Some (mux_rlayer k c)
             | LFrag _ _ => Some frag_rlayer
             | LMbapp cfg _ => Some (mb_rlayer cfg)
             | LMin _ | LId => Some id_rlayer
             | LKe => None
             end), rlayers_of t with
      | Some a, Some b => Some (a :: b)
      | _, _ => None
      end
  end.

Fixpoint ins_pair (x : bytes * bytes) (l : list (bytes * bytes)) : list (bytes * bytes) :=
  match l with
  | [] => [x]
  | h :: t => match lex_compare (fst x) (fst h) with
              | Lt => x :: l
              | Gt => h :: ins_pair x t
              | Eq => match lex_compare (snd x) (snd h) with Gt => h :: ins_pair x t | _ => x :: l end
              end
  end.
Definition sort_pairs (l : list (bytes * bytes)) : list (bytes * bytes) := fold_right ins_pair [] l.

Definition sx_deliv (dst : bytes) (d : bytes * bytes) : sx := SL [SB (fst d); SB dst; SB (snd d)].

(* P_C01: nothing delivered anywhere else; every delivery names the receiver as
   destination and is (source, payload) of a ledger entry *)
Definition p01 (dst : bytes) (ledger : list (bytes * bytes)) (obs : sx) : sx :=
  match obs with
  | SL [SN stray; SL ds] =>
      if negb (stray =? 0) then bad "delivered-to-a-node-it-was-not-addressed-to"
      else if forallb (fun d => match d with
                                | SL [SB s; SB t; SB p] =>
                                    bytes_eqb t dst && existsb (fun e => bytes_eqb (fst e) s && bytes_eqb (snd e) p) ledger
                                | _ => false end) ds
           then ok else bad "delivered-message-was-not-told-by-that-source-to-that-receiver"
  | _ => if is_sym "panic" obs then bad "panic" else bad "unreadable-observation"
  end.

Definition run_C01 (case obs : sx) : sx :=
  match case with
  | SL [t; SN _; SN _] =>
      (* Tells that run into their deadline while writing: obs = (failed deliveries foreign) *)
      if is_sym "quic-deadline" t then
        match obs with
        | SL [SN f; SN d; SN foreign] => SL [SL [SN f; SN d; SN 0]; if foreign =? 0 then ok else bad "truncated-payload-delivered"]
        | _ => SL [obs; bad "unreadable-observation"]
        end
      else bad_case
  | SL [t; SN _; SN _; SN _] =>
      (* concurrent receivers on one UDP swarm: obs = (received changed-or-mixed) *)
      if is_sym "udp-concurrent" t then
        match obs with
        | SL [SN rcv; SN badn] => SL [SL [SN rcv; SN 0]; if badn =? 0 then ok else bad "message-changed-or-mixed-while-its-callback-ran"]
        | _ => SL [obs; bad "unreadable-observation"]
        end
      else bad_case
  | SL [t; SL ls; SB dst; SL ledger; wires] =>
      if negb (is_sym "c01" t) then bad_case else
      match layers_of_sx ls with
      | None => bad_case
      | Some st =>
          let led := pairs_of_sx ledger in
          (* lossless network, everything within MTU: every told message arrives
             once (an empty payload reaching P2PKE unframed is swallowed) *)
          let expected := filter (fun e => negb (swallowed st (snd e))) led in
          let predicted :=
            match wires, rlayers_of st with
            | SL ws, Some rl => deliveries (stack_rlayer rl) (pairs_of_sx ws)
            | _, _ => expected
            end in
          SL [SL [SN 0; SL (map (sx_deliv dst) (sort_pairs predicted))]; p01 dst led obs]
      end
  | _ => bad_case
  end.

From Coq Require Import String.
(* Runner for whole stacks of layers (C09): reported MTU, the wire messages one
   Tell produces at the base transport, and the MTU-honesty predicate. *)
From P2PV Require Import Lib.Base Lib.Varint Model.Mux Model.Frag Model.Mbapp Model.Stack Run.RunC15 Run.RunFrag.
Open Scope N_scope.

Definition hdr0 : mb_header := mkHdr false false 0 0 0 0 0 0 0.

Definition layer_of_sx (x : sx) : option layer :=
  match x with
  | SL [t; k; c] =>
      if is_sym "mux" t then
        match kind_of_sx k, chan_of_sx c with Some k, Some c => Some (LMux k c) | _, _ => None end
      else None
  | SL [t; a] =>
      if is_sym "frag" t then Some (LFrag (z_of a) 0)
      else if is_sym "mbapp" t then Some (LMbapp (z_of a) hdr0)
      else if is_sym "min" t then Some (LMin (z_of a))
      else None
  | SL [t] => if is_sym "ke" t then Some LKe else if is_sym "id" t then Some LId else None
  | _ => None
  end.

Fixpoint layers_of_sx (l : list sx) : option (list layer) :=
  match l with
  | [] => Some []
  | x :: t => match layer_of_sx x, layers_of_sx t with Some a, Some b => Some (a :: b) | _, _ => None end
  end.

Definition sort_lens (ws : list bytes) : list N :=
  fold_right (fun n acc => let fix ins (l : list N) := match l with [] => [n] | h :: t => if n <=? h then n :: l else h :: ins t end in ins acc)
             [] (map (@lenN N) ws).

Definition stack_obs (mtu : Z) (swal : bool) (r : result (list bytes)) : sx :=
  match r with
  | Ok ws => SL [sx_z mtu; sym "ok"; SN (lenN ws); SN 1;
                 if lenN ws <=? 100 then SL (map SN (sort_lens ws)) else sym "big"; SN (if swal then 0 else 1)]
  | Err _ => SL [sx_z mtu; sym "err"; SN 0; SN 1; SL []; SN 0]
  | Panic _ => sym "panic"
  end.

(* a P2PKE layer needs its handshake messages to fit beneath it: stacks whose
   P2PKE layer sits on fewer than KE_HS_MIN bytes are outside the property's
   configurations (the handshake is not part of this lengths model) *)
Definition KE_HS_MIN : Z := 600.
Fixpoint ke_room (st : list layer) (base : Z) : bool :=
  match st with
  | [] => true
  | l :: below => (match l with LKe => (KE_HS_MIN <=? stack_mtu below base)%Z | _ => true end) && ke_room below base
  end.

(* P_C09 for one Tell through a stack; obs = (reported class npkts all-wire-messages-fit lens intact) *)
Definition p09_stack (st : list layer) (base : Z) (plen : N) (obs : sx) : sx :=
  if negb (wf_stackb st base && ke_room st base) then (if is_sym "panic" obs then bad "panic" else ok) else
  match obs with
  | SL [m; cls; SN n; SN mx; _; SN intact] =>
      if is_sym "ok" cls then
        if (z_of m <? Z.of_N plen)%Z then bad "payload-above-MTU-accepted"
        else if mx =? 0 then bad "wire-message-larger-than-base-MTU"
        (* an empty payload may be swallowed (p2pkeswarm hands up only non-empty plaintexts) *)
        else if (intact =? 0) && (plen =? 0) then ok
        else if negb (intact =? 1) then bad "payload-not-delivered-intact" else ok
      else if is_sym "err" cls then
        if (Z.of_N plen <=? z_of m)%Z then bad "payload-within-MTU-rejected"
        else if negb (n =? 0) then bad "rejected-but-partly-sent"
        else if negb (intact =? 0) then bad "rejected-but-delivered" else ok
      else bad "other-error"
  | _ => if is_sym "panic" obs then bad "panic" else bad "unreadable-observation"
  end.

Definition run_stack (args : list sx) (obs : sx) : sx :=
  match args with
  | [b; SL ls; pl] =>
      match layers_of_sx ls, payload_of_sx pl with
      | Some st, Some p =>
          let base := z_of b in
          SL [stack_obs (stack_mtu st base) (swallowed st p) (stack_send st base p); p09_stack st base (lenN p) obs]
      | _, _ => bad_case
      end
  | _ => bad_case
  end.

Definition run_C09 (case obs : sx) : sx :=
  match case with
  | SL (t :: args) => if is_sym "stack" t then run_stack args obs else run_frag case obs
  | _ => bad_case
  end.

From Coq Require Import String.
(* Runner for C12 / C13 (and the hub part of C11): event logs of real hubs.
   case = (hub <kind> <n receivers> <n deliverers>)   obs = (<event> ...)
   The model output is the log itself when the hub transition system accepts it,
   (rejected <index>) otherwise; the verdict is computed from the log alone. *)
From P2PV Require Import Lib.Base Model.Hub Run.RunFrag Run.RunQueue Run.RunQueueBuf.
Open Scope N_scope.

Definition nat_of_sx (x : sx) : nat := match x with SN n => N.to_nat n | _ => 0%nat end.

Definition hev_of_sx (x : sx) : option hev :=
  match x with
  | SL [t] => if is_sym "cb" t then Some HCloseBegin else if is_sym "ce" t then Some HCloseEnd else None
  | SL [t; a] =>
      if is_sym "rc" t then Some (HRecvCall (nat_of_sx a))
      else if is_sym "cbe" t then Some (HCbEnd (nat_of_sx a))
      else if is_sym "dc" t then Some (HDlvCall (nat_of_sx a))
      else if is_sym "dok" t then Some (HDlvRetOk (nat_of_sx a))
      else if is_sym "cr" t then Some (HCancelR (nat_of_sx a))
      else if is_sym "cd" t then Some (HCancelD (nat_of_sx a))
      else None
  | SL [t; a; b] =>
      if is_sym "meet" t then Some (HMeet (nat_of_sx a) (nat_of_sx b))
      else if is_sym "rre" t then Some (HRecvRetErr (nat_of_sx a) (is_sym "closed" b))
      else if is_sym "dre" t then Some (HDlvRetErr (nat_of_sx a) (is_sym "closed" b))
      else if is_sym "cbe" t then Some (HCbEnd (nat_of_sx a))
      else if is_sym "dok" t then Some (HDlvRetOk (nat_of_sx a))
      else None
  | _ => None
  end.
Fixpoint hevs_of_sx (l : list sx) : list hev :=
  match l with [] => [] | x :: t => match hev_of_sx x with Some e => e :: hevs_of_sx t | None => hevs_of_sx t end end.

(* ---- the properties, on the log alone ---- *)
Definition tag_is (s : string) (x : sx) : bool := match x with SL (t :: _) => is_sym s t | _ => false end.
Definition arg1 (x : sx) : N := match x with SL (_ :: SN a :: _) => a | _ => 0 end.
Definition arg2 (x : sx) : N := match x with SL (_ :: _ :: SN b :: _) => b | _ => 0 end.
Definition has_arg2 (x : sx) : bool := match x with SL [_; _; SN _] => true | _ => false end.

Fixpoint countb (f : sx -> bool) (l : list sx) : N := match l with [] => 0 | x :: t => (if f x then 1 else 0) + countb f t end.

(* events before / after the first occurrence of a tag *)
Fixpoint after_tag (s : string) (l : list sx) : list sx :=
  match l with [] => [] | x :: t => if tag_is s x then t else after_tag s t end.

Fixpoint p_hub (seen : list sx) (rest : list sx) : sx :=
  match rest with
  | [] => ok
  | e :: t =>
      let v :=
        if tag_is "stuck-r" e then bad "receive-still-blocked-after-close-or-cancel"
        else if tag_is "stuck-d" e then bad "deliver-still-blocked-after-close-or-cancel"
        else if tag_is "stuck-close" e then bad "close-did-not-return"
        else if tag_is "nilret" e then bad "receive-returned-success-without-a-message"
        else if tag_is "panic" e then bad "panic"
        else if tag_is "leak" e then bad "goroutines-left-running-after-close"
        else if tag_is "lost" e then bad "accepted-message-never-handed-to-a-callback"
        else if tag_is "meet" e then
          (* exactly one callback per message and per call *)
          if existsb (fun x => tag_is "meet" x && (arg2 x =? arg2 e)) seen then bad "message-handed-to-two-callbacks"
          else if existsb (fun x => tag_is "meet" x && (arg1 x =? arg1 e)) seen then bad "one-receive-call-got-two-messages"
          (* nothing is handed to a callback of a call made after Close had returned *)
          else if existsb (fun x => tag_is "rc" x && (arg1 x =? arg1 e)) (after_tag "ce" seen) then bad "callback-for-a-call-made-after-close-returned"
          else if existsb (fun x => tag_is "dc" x && (arg1 x =? arg2 e)) (after_tag "ce" seen) then bad "message-delivered-after-close-returned"
          else ok
        else if tag_is "dok" e then
          (* success only after the chosen callback has finished, with that callback's answer *)
          match find (fun x => tag_is "meet" x && (arg2 x =? arg1 e)) seen with
          | None => bad "deliver-succeeded-but-no-callback-saw-the-message"
          | Some m =>
              match find (fun x => tag_is "cbe" x && (arg1 x =? arg1 m)) seen with
              | None => bad "deliver-returned-before-the-callback-finished"
              | Some c => if has_arg2 e && has_arg2 c && negb (arg2 e =? arg2 c) then bad "answer-of-another-request" else ok
              end
          end
        else if tag_is "dre" e then
          if existsb (fun x => tag_is "meet" x && (arg2 x =? arg1 e)) (seen ++ t) then bad "deliver-failed-but-a-callback-saw-the-message" else ok
        else ok in
      if is_sym "ok" v then p_hub (seen ++ [e]) t else v
  end.

Definition run_hub (case obs : sx) : sx :=
  match case, obs with
  | SL (t :: k :: _), SL evs =>
      if negb (is_sym "hub" t) then bad_case else
      if is_sym "qseq" k then run_qseq case obs else
      let model := if is_sym "queue" k then obs
                   else match hrun_diag hub0 (hevs_of_sx evs) 0 with None => obs | Some i => SL [sym "rejected"; SN i] end in
      SL [model; p_hub [] evs]
  | _, _ => bad_case
  end.

(* ---- C11: one record per Ask:  (id want buf flags result detail late victim) ---- *)
Definition p11_rec (x : sx) : sx :=
  match x with
  | SL [SN id; SN want; SN buf; SN flags; res; SN detail; SN late; SN victim] =>
      if negb (late =? 0) then bad "ask-returned-long-after-its-deadline"
      else if N.testbit flags 3 then
        (if is_sym "ok" res then bad "ask-by-or-to-a-peer-the-whitelist-rejects-succeeded" else ok)
      else if is_sym "ok" res then
        if N.testbit detail 0 then bad "ask-returned-bytes-its-handler-did-not-produce"
        else if N.testbit detail 1 then bad "handler-saw-another-request-or-asker"
        else if N.testbit flags 0 then bad "success-although-the-handler-signalled-failure"
        else if buf <? want then bad "success-although-the-response-does-not-fit"
        else ok
      else
        (* an error is always allowed when something went wrong; on a healthy
           pair of nodes with a fitting buffer and a fast, successful handler it is not *)
        if (flags =? 0) && (want <=? buf) && (victim =? 0) then bad "error-although-nothing-went-wrong" else ok
  | _ => bad "unreadable-observation"
  end.

Fixpoint p11_all (l : list sx) : sx :=
  match l with [] => ok | x :: t => let v := p11_rec x in if is_sym "ok" v then p11_all t else v end.

Definition run_C11 (case obs : sx) : sx :=
  match case, obs with
  | SL (t :: _), SL recs => if is_sym "ask" t then SL [obs; p11_all recs] else run_hub case obs
  | _, _ => bad_case
  end.

(* ---- C04: one record per Tell/Ask: (from ident loc result ((node srcOwner keyOwner) ...)) ---- *)
Definition allow_of (rows : list sx) (i j : N) : bool :=
  match nth (N.to_nat i) rows (SL []) with
  | SL r => match nth (N.to_nat j) r (SN 0) with SN 0 => false | _ => true end
  | _ => false end.

Definition p04_rec (rows : list sx) (x : sx) : sx :=
  match x with
  | SL [SN from; SN ident; SN loc; _; SL ds] =>
      let chk (d : sx) : sx :=
        match d with
        | SL [SN node; so; ko] =>
            if negb (node =? loc) then bad "payload-handed-to-a-node-it-was-not-sent-to"
            else if negb (ident =? loc) then bad "payload-handed-to-a-node-without-the-addressed-identity"
            else if negb (match so with SN s => s =? from | _ => false end) then bad "source-identity-is-not-the-senders"
            else if negb (match ko with SN k => k =? from | _ => false end) then bad "looked-up-key-is-not-the-senders"
            else if negb (allow_of rows node from) then bad "delivered-although-the-whitelist-rejects-the-sender"
            else ok
        | _ => bad "unreadable-observation"
        end in
      fold_left (fun acc d => if is_sym "ok" acc then chk d else acc) ds ok
  | _ => bad "unreadable-observation"
  end.

Definition run_C04 (case obs : sx) : sx :=
  match case, obs with
  | SL [t; _; SL rows; _], SL recs =>
      if is_sym "sec" t then SL [obs; fold_left (fun acc x => if is_sym "ok" acc then p04_rec rows x else acc) recs ok]
      else bad_case
  | _, _ => bad_case
  end.

(* ---- C14: race-detector children and buffer-ownership scenarios ---- *)
Definition run_C14 (case obs : sx) : sx :=
  match case, obs with
  | SL [t; _; _; _], _ => if is_sym "qbuf" t then run_qbuf case obs else bad_case
  | SL (t :: _), SL [st; SN n] =>
      if is_sym "race" t then
        SL [SL [sym "clean"; SN 0];
            if is_sym "clean" st then ok else if is_sym "race" st then bad "data-race-reported" else bad "race-child-failed"]
      else if is_sym "own" t then
        SL [SL [sym "changed"; SN 0]; if n =? 0 then ok else bad "message-changed-while-its-callback-ran"]
      else if is_sym "late" t then
        SL [SL [sym "error"; SN 0];
            if negb (is_sym "error" st) then bad "ask-with-an-ended-context-reported-success"
            else if n =? 0 then ok else bad "response-buffer-written-after-ask-returned-an-error"]
      else bad_case
  | SL (t :: _), _ => if is_sym "race" t then SL [SL [sym "clean"; SN 0]; bad "race-build-missing"] else bad_case
  | _, _ => bad_case
  end.

(* Receive side of a stack of layers as composable transducers: each layer turns
   (source, wire message) into at most one (source, message) for the layer above. *)
From P2PV Require Import Lib.Base Lib.Varint Model.Mux Model.Frag Model.Mbapp.
Open Scope N_scope.

Record rlayer := mkRLayer {
  rst : Type;
  rinit : rst;
  rrecv : rst -> bytes -> bytes -> rst * option bytes }.   (* state -> source -> wire -> state * delivery *)

(* everything a layer hands up for a sequence of (source, wire) inputs, in order *)
Fixpoint deliveries_from (R : rlayer) (s : rst R) (inp : list (bytes * bytes)) : list (bytes * bytes) :=
  match inp with
  | [] => []
  | (src, w) :: t =>
      match rrecv R s src w with
      | (s', Some p) => (src, p) :: deliveries_from R s' t
      | (s', None) => deliveries_from R s' t
      end
  end.
Definition deliveries (R : rlayer) := deliveries_from R (rinit R).

(* up sits on lo: what lo delivers is up's input *)
Definition compose (up lo : rlayer) : rlayer :=
  mkRLayer (rst up * rst lo) (rinit up, rinit lo)
    (fun s src w =>
       match rrecv lo (snd s) src w with
       | (l', Some m) => match rrecv up (fst s) src m with (u', d) => ((u', l'), d) end
       | (l', None) => ((fst s, l'), None)
       end).

(* ---- instances: the receive paths of the layer models ---- *)

(* one opened channel c of a multiplexer of kind k: other channels' frames and
   undecodable frames are not for this receiver *)
Definition mux_rlayer (k : kind) (c : chan) : rlayer :=
  mkRLayer unit tt
    (fun _ _ w => match unframe k w with
                  | Ok (c', x) => (tt, if chan_eqb c c' then Some x else None)
                  | _ => (tt, None)
                  end).

(* s/fragswarm: errors leave the state unchanged and deliver nothing *)
Definition frag_rlayer : rlayer :=
  mkRLayer frag_state []
    (fun st src w => match frag_recv st src w with
                     | Ok (st', d) => (st', d)
                     | _ => (st, None)
                     end).

(* p/mbapp Tell traffic (asks are not handed to Receive); mtu = configured MTU *)
Definition mb_rlayer (mtu : Z) : rlayer :=
  mkRLayer mb_state []
    (fun st src w => match mb_recv mtu st src w with
                     | Ok (st', Some (h, body)) => (st', if h_ask h then None else Some body)
                     | Ok (st', None) => (st', None)
                     | _ => (st, None)
                     end).

(* pass-through wrappers (wlswarm with an accepting predicate, address-typed wrappers) *)
Definition id_rlayer : rlayer := mkRLayer unit tt (fun _ _ w => (tt, Some w)).

(* a stack listed top first over the base transport *)
Fixpoint stack_rlayer (ls : list rlayer) : rlayer :=
  match ls with
  | [] => id_rlayer
  | l :: below => compose l (stack_rlayer below)
  end.

(* p/kademlia/dht.go: dhtIterate and the four iterative operations (repaired code).
   The network is a responder: call index and contacted node |-> answer, so
   adaptive, cyclic, self-referential, enormous or fabricated peer lists are
   simply values of a quantified variable. *)
From P2PV Require Import Lib.Base Model.Distance.
Open Scope N_scope.

Record node := mkNode { n_id : bytes; n_info : bytes }.

Record answer := mkAns {
  a_ok : bool;                 (* false: Ask returned an error *)
  a_nodes : list node;         (* FindNodeRes.Nodes / GetRes.Closer / PutRes.Closer *)
  a_value : option bytes;      (* GetRes.Value (None = nil) *)
  a_accept : bool }.           (* PutRes.Accepted *)

Definition responder := N -> node -> answer.

Definition P_ITER_N : N := 301.
Definition FIND_WIDTH : Z := 10.   (* dhtIterate width used by DHTFindNode *)
Definition GET_WIDTH : Z := 3.     (* ... by DHTGet *)     (* dhtIterate: panic(n) when n < 1 *)

Fixpoint mem_id (x : bytes) (l : list bytes) : bool :=
  match l with [] => false | h :: t => bytes_eqb x h || mem_id x t end.

Fixpoint insert_node (key : bytes) (x : node) (l : list node) : list node :=
  match l with
  | [] => [x]
  | h :: t => if distance_lt key (n_id x) (n_id h) then x :: l else h :: insert_node key x t
  end.
Definition sort_nodes (key : bytes) (l : list node) : list node := fold_right (insert_node key) [] l.

(* admission of a responder's peers: strictly closer than the node just
   contacted, not visited, not already queued *)
Fixpoint admit_peers (key : bytes) (cur : node) (visited : list bytes) (queue news : list node) : list node :=
  match news with
  | [] => queue
  | x :: t =>
      if negb (distance_lt key (n_id x) (n_id cur)) then admit_peers key cur visited queue t
      else if mem_id (n_id x) visited then admit_peers key cur visited queue t
      else if mem_id (n_id x) (map n_id queue) then admit_peers key cur visited queue t
      else admit_peers key cur visited (queue ++ [x]) t
  end.

Section Iterate.
  Context {S : Type}.
  (* the callback: new state and Some newPeers (continue) or None (stop) *)
  Variable fn : S -> node -> S * option (list node).

  (* None = out of fuel *)
  Fixpoint iterate (fuel : nat) (key : bytes) (n : nat) (queue : list node) (visited : list bytes) (st : S)
    : option (S * list bytes) :=
    match fuel with
    | O => None
    | Datatypes.S f =>
        match firstn n (sort_nodes key queue) with
        | [] => Some (st, visited)
        | nd :: rest =>
            if mem_id (n_id nd) visited then iterate f key n rest visited st
            else
              let visited' := n_id nd :: visited in
              let '(st', r) := fn st nd in
              match r with
              | None => Some (st', visited')
              | Some news => iterate f key n (admit_peers key nd visited' rest news) visited' st'
              end
        end
    end.

  (* dhtIterate; result None = out of fuel *)
  Definition dht_iterate (fuel : nat) (initial : list node) (key : bytes) (n : Z) (st : S)
    : option (result (S * list bytes)) :=
    match initial with
    | [] => Some (Ok (st, []))
    | _ => if (n <? 1)%Z then Some (Panic P_ITER_N)
           else option_map Ok (iterate fuel key (Z.to_nat n) initial [] st)
    end.
End Iterate.

(* ---- ghost log shared by the wrappers: every Ask performed, with its answer ---- *)
Definition asklog := list (node * answer).
Definition ask (resp : responder) (log : asklog) (nd : node) : answer * asklog :=
  let a := resp (lenN log) nd in (a, log ++ [(nd, a)]).

(* ---- DHTFindNode ---- *)
Record find_st := mkFind { f_closest : option node; f_contacted : N; f_log : asklog }.
Definition find_fn (resp : responder) (target : bytes) (validate : node -> bool)
  (st : find_st) (nd : node) : find_st * option (list node) :=
  let closest := match f_closest st with
                 | None => nd
                 | Some c => if distance_lt target (n_id nd) (n_id c) then nd else c
                 end in
  if bytes_eqb (n_id closest) target then (mkFind (Some closest) (f_contacted st) (f_log st), None)
  else
    let '(a, log) := ask resp (f_log st) nd in
    if a_ok a then (mkFind (Some closest) (f_contacted st + 1) log, Some (filter validate (a_nodes a)))
    else (mkFind (Some closest) (f_contacted st) log, Some []).

Definition find_err (target : bytes) (st : find_st) : bool :=
  match f_closest st with Some c => negb (bytes_eqb (n_id c) target) | None => true end.

Definition dht_find (fuel : nat) (resp : responder) (initial : list node) (target : bytes) (validate : node -> bool) :=
  dht_iterate (find_fn resp target validate) fuel initial target FIND_WIDTH (mkFind None 0 []).

(* ---- DHTJoin ---- *)
Record join_st := mkJoin { j_added : N; j_log : asklog }.
Definition join_fn (resp : responder) (addpeer : node -> bool) (st : join_st) (nd : node)
  : join_st * option (list node) :=
  let added := if addpeer nd then j_added st + 1 else j_added st in
  let '(a, log) := ask resp (j_log st) nd in
  if a_ok a then (mkJoin added log, Some (a_nodes a)) else (mkJoin added log, Some []).

Definition dht_join (fuel : nat) (resp : responder) (initial : list node) (target : bytes) (addpeer : node -> bool) :=
  dht_iterate (join_fn resp addpeer) fuel initial target (Z.of_N (lenN initial)) (mkJoin 0 []).

(* ---- DHTGet ---- *)
Record get_st := mkGet {
  g_value : option bytes; g_from : option bytes; g_closest : option bytes;
  g_contacted : N; g_responded : N; g_log : asklog }.
Definition get_fn (resp : responder) (key : bytes) (validate : bytes -> bool)
  (st : get_st) (nd : node) : get_st * option (list node) :=
  let further := match g_from st with
                 | Some f => distance_lt key f (n_id nd)
                 | None => false end in
  if further then (st, None)
  else
    let '(a, log) := ask resp (g_log st) nd in
    if negb (a_ok a) then
      (mkGet (g_value st) (g_from st) (g_closest st) (g_contacted st + 1) (g_responded st) log, Some [])
    else
      let closest := match g_closest st with
                     | None => Some (n_id nd)
                     | Some c => if distance_lt key (n_id nd) c then Some (n_id nd) else Some c
                     end in
      let hit := match a_value a with Some v => validate v | None => false end in
      (mkGet (if hit then a_value a else g_value st) (if hit then Some (n_id nd) else g_from st)
             closest (g_contacted st + 1) (g_responded st + 1) log,
       Some (a_nodes a)).

Definition get_err (st : get_st) : bool := match g_from st with Some _ => false | None => true end.

Definition dht_get (fuel : nat) (resp : responder) (initial : list node) (key : bytes) (validate : bytes -> bool) :=
  dht_iterate (get_fn resp key validate) fuel initial key GET_WIDTH (mkGet None None None 0 0 []).

(* ---- DHTPut ---- *)
Record put_st := mkPut {
  p_closest : option bytes; p_accepted : N; p_contacted : N; p_responded : N; p_log : asklog }.
Definition put_fn (resp : responder) (key : bytes) (st : put_st) (nd : node) : put_st * option (list node) :=
  let '(a, log) := ask resp (p_log st) nd in
  if negb (a_ok a) then
    (mkPut (p_closest st) (p_accepted st) (p_contacted st + 1) (p_responded st) log, Some [])
  else if a_accept a then
    let closest := match p_closest st with
                   | None => Some (n_id nd)
                   | Some c => if distance_lt key (n_id nd) c then Some (n_id nd) else Some c
                   end in
    (mkPut closest (p_accepted st + 1) (p_contacted st + 1) (p_responded st + 1) log, Some (a_nodes a))
  else
    (mkPut (p_closest st) (p_accepted st) (p_contacted st + 1) (p_responded st + 1) log, Some (a_nodes a)).

Definition eff_min (min_accepted : Z) : Z := if (min_accepted <? 1)%Z then 2%Z else min_accepted.
Definition put_err (min_accepted : Z) (st : put_st) : bool := (Z.of_N (p_accepted st) <? eff_min min_accepted)%Z.

Definition dht_put (fuel : nat) (resp : responder) (initial : list node) (key : bytes) :=
  dht_iterate (put_fn resp key) fuel initial key (Z.of_N (lenN initial) * 3 / 2) (mkPut None 0 0 0 []).

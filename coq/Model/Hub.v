(* s/swarmutil hubs (TellHub, AskHub) as a labelled transition system over the
   events a test harness can log: any number of Receive/ServeAsk calls and
   Deliver calls, cancellation of their contexts, Close.  Close and Cancel are
   two events each (begin: the call was made; end: it returned), because the
   moment the signal becomes visible to the other goroutines lies in between.
   An accepted event list is a possible behaviour; the properties of C11-C13 are
   theorems about every accepted list. *)
From P2PV Require Import Lib.Base.
Open Scope N_scope.

Inductive phase := Open | Closing | Closed.

Inductive rstate :=
| RIdle                 (* not called yet *)
| RWait                 (* parked in the select (or about to be) *)
| RDead                 (* called after Close had returned: may only return the close error *)
| RCb (d : nat)         (* its callback is running with deliverer d's message *)
| RRet (ok : bool) (met : option nat).   (* returned; which deliverer it served, if any *)

Inductive dstate :=
| DIdle
| DOffer                (* parked in the select *)
| DDead                 (* called after Close had returned *)
| DCommit (r : nat)     (* handed to receiver r, waiting for its callback *)
| DDone (r : nat)       (* the callback has finished *)
| DRet (ok : bool) (met : option nat).

Record hub := mkHub {
  h_phase : phase;
  h_r : nat -> rstate;
  h_d : nat -> dstate;
  h_rc : nat -> bool;     (* receiver call r: cancellation of its context has begun *)
  h_dc : nat -> bool }.

Definition hub0 : hub := mkHub Open (fun _ => RIdle) (fun _ => DIdle) (fun _ => false) (fun _ => false).

Definition upd {A} (f : nat -> A) (i : nat) (v : A) : nat -> A := fun j => if Nat.eqb i j then v else f j.

Inductive hev :=
| HRecvCall (r : nat)
| HRecvRetErr (r : nat) (closed_err : bool)   (* true: the close error; false: the context's error *)
| HMeet (r d : nat)                           (* r's callback starts with d's message *)
| HCbEnd (r : nat)                            (* r's callback returns and r returns nil *)
| HDlvCall (d : nat)
| HDlvRetOk (d : nat)
| HDlvRetErr (d : nat) (closed_err : bool)
| HCancelR (r : nat) | HCancelD (d : nat)     (* cancel() called on that call's context *)
| HCloseBegin | HCloseEnd.

Definition set_r (h : hub) (r : nat) (v : rstate) : hub := mkHub (h_phase h) (upd (h_r h) r v) (h_d h) (h_rc h) (h_dc h).
Definition set_d (h : hub) (d : nat) (v : dstate) : hub := mkHub (h_phase h) (h_r h) (upd (h_d h) d v) (h_rc h) (h_dc h).
Definition set_phase (h : hub) (p : phase) : hub := mkHub p (h_r h) (h_d h) (h_rc h) (h_dc h).

Definition closing (h : hub) : bool := match h_phase h with Open => false | _ => true end.
Definition is_closed (h : hub) : bool := match h_phase h with Closed => true | _ => false end.

(* None: the event cannot happen here *)
Definition hstep (h : hub) (e : hev) : option hub :=
  match e with
  | HRecvCall r =>
      match h_r h r with
      | RIdle => Some (set_r h r (if is_closed h then RDead else RWait))
      | _ => None end
  | HDlvCall d =>
      match h_d h d with
      | DIdle => Some (set_d h d (if is_closed h then DDead else DOffer))
      | _ => None end
  | HMeet r d =>
      match h_r h r, h_d h d with
      | RWait, DOffer => Some (set_d (set_r h r (RCb d)) d (DCommit r))
      | _, _ => None end
  | HCbEnd r =>
      match h_r h r with
      | RCb d => match h_d h d with
                 | DCommit r' => if Nat.eqb r r' then Some (set_d (set_r h r (RRet true (Some d))) d (DDone r)) else None
                 | _ => None end
      | _ => None end
  | HDlvRetOk d =>
      match h_d h d with DDone r => Some (set_d h d (DRet true (Some r))) | _ => None end
  | HRecvRetErr r ce =>
      match h_r h r with
      | RWait => if (if ce then closing h else h_rc h r) then Some (set_r h r (RRet false None)) else None
      | RDead => if ce then Some (set_r h r (RRet false None)) else None
      | _ => None end
  | HDlvRetErr d ce =>
      match h_d h d with
      | DOffer => if (if ce then closing h else h_dc h d) then Some (set_d h d (DRet false None)) else None
      | DDead => if ce then Some (set_d h d (DRet false None)) else None
      | _ => None end
  | HCancelR r => Some (mkHub (h_phase h) (h_r h) (h_d h) (upd (h_rc h) r true) (h_dc h))
  | HCancelD d => Some (mkHub (h_phase h) (h_r h) (h_d h) (h_rc h) (upd (h_dc h) d true))
  | HCloseBegin => Some (match h_phase h with Open => set_phase h Closing | _ => h end)
  | HCloseEnd => match h_phase h with Open => None | _ => Some (set_phase h Closed) end
  end.

Fixpoint hrun (h : hub) (evs : list hev) : option hub :=
  match evs with
  | [] => Some h
  | e :: t => match hstep h e with Some h' => hrun h' t | None => None end
  end.

(* index of the first event the system cannot perform, for diagnostics *)
Fixpoint hrun_diag (h : hub) (evs : list hev) (i : N) : option N :=
  match evs with
  | [] => None
  | e :: t => match hstep h e with Some h' => hrun_diag h' t (i + 1) | None => Some i end
  end.

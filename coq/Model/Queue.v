(* swarmutil.Queue: the bounded buffer between a swarm's network side and its
   Receive calls (vswarm's tells).  Sequential semantics: what each call returns
   and what the queue holds afterwards.  A message is (src, dst, payload). *)
From P2PV Require Import Lib.Base.
Open Scope N_scope.

Definition qmsg := (N * N * list N)%type.
Definition q_payload (m : qmsg) : list N := snd m.

Record queue := mkQ { q_cap : nat; q_mtu : nat; q_items : list qmsg (* oldest first *); q_closed : bool }.

Definition new_queue (cap mtu : nat) : queue := mkQ cap mtu [] false.

Inductive qop :=
| QDeliver (m : qmsg)      (* Deliver / DeliverVec: never blocks *)
| QReceive                 (* Receive with a context that gives up at once when nothing is there *)
| QRecvCancelled (taken : bool)  (* Receive whose context is already cancelled: Go's select may take a queued
                                    message or return the context error; which one happened is part of the history *)
| QPurge
| QClose
| QLen.

Inductive qout :=
| QAccepted | QRefused
| QGot (m : qmsg) | QErrClosed | QWouldBlock | QCtxErr
| QCount (n : nat)
| QDone.

Definition qstep (q : queue) (o : qop) : queue * qout :=
  match o with
  | QDeliver m =>
      if Nat.ltb (q_mtu q) (length (q_payload m)) then (q, QRefused)
      else if q_closed q then (q, QRefused)
      else if Nat.ltb (length (q_items q)) (q_cap q)
           then (mkQ (q_cap q) (q_mtu q) (q_items q ++ [m]) false, QAccepted)
           else (q, QRefused)
  | QReceive =>
      match q_items q with
      | m :: t => (mkQ (q_cap q) (q_mtu q) t (q_closed q), QGot m)
      | [] => (q, if q_closed q then QErrClosed else QWouldBlock)
      end
  | QRecvCancelled taken =>
      match taken, q_items q with
      | true, m :: t => (mkQ (q_cap q) (q_mtu q) t (q_closed q), QGot m)
      | _, _ => (q, QCtxErr)           (* the call returned the context error: nothing was consumed *)
      end
  | QPurge => (mkQ (q_cap q) (q_mtu q) [] (q_closed q), QCount (length (q_items q)))
  | QClose => (mkQ (q_cap q) (q_mtu q) [] true, QDone)
  | QLen => (q, QCount (length (q_items q)))
  end.

Fixpoint qrun (q : queue) (ops : list qop) : queue * list qout :=
  match ops with
  | [] => (q, [])
  | o :: t => let '(q1, r) := qstep q o in let '(q2, rs) := qrun q1 t in (q2, r :: rs)
  end.

(* ---- the history a run leaves behind ---- *)
(* accepted: messages Deliver said true for, in order;  left: messages that left
   the queue, in order, each with how: handed to a callback, purged, or dropped by Close *)
Inductive qexit := XReceived | XPurged | XClosed.
Record qhist := mkH { h_accepted : list qmsg; h_left : list (qmsg * qexit) }.

Definition qhstep (q : queue) (h : qhist) (o : qop) : qhist :=
  match o, snd (qstep q o) with
  | QDeliver m, QAccepted => mkH (h_accepted h ++ [m]) (h_left h)
  | QReceive, QGot m => mkH (h_accepted h) (h_left h ++ [(m, XReceived)])
  | QRecvCancelled _, QGot m => mkH (h_accepted h) (h_left h ++ [(m, XReceived)])
  | QPurge, _ => mkH (h_accepted h) (h_left h ++ map (fun m => (m, XPurged)) (q_items q))
  | QClose, _ => mkH (h_accepted h) (h_left h ++ map (fun m => (m, XClosed)) (q_items q))
  | _, _ => h
  end.

Fixpoint qhrun (q : queue) (h : qhist) (ops : list qop) : queue * qhist :=
  match ops with
  | [] => (q, h)
  | o :: t => qhrun (fst (qstep q o)) (qhstep q h o) t
  end.

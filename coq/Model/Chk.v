(* Receive paths with Go's run-time checks made explicit: indexing or slicing
   out of range, and the explicit panic() calls, are Panic results.  The guards
   are the ones written in the code; the accesses panic exactly when Go would. *)
From P2PV Require Import Lib.Base Lib.Varint Model.Frag Model.Mbapp.
Open Scope N_scope.

Definition P_FRAG_SLICE : N := 300.   (* x[n:] in parseMessage *)
Definition P_FRAG_INDEX : N := 301.   (* a.parts[int(part)] in addPart *)
Definition P_MB_BIT : N := 402.       (* bitMap.get / set: index out of bounds *)
Definition P_MB_SLICE : N := 403.     (* c.buf[offset:] in collector.addPart *)
Definition P_MB_HDR : N := 404.       (* data[:HeaderSize] in ParseMessage *)

(* x[n:] *)
Definition slice_from (x : bytes) (n : Z) (site : N) : result bytes :=
  if (n <? 0)%Z || (Z.of_N (lenN x) <? n)%Z then Panic site else Ok (dropN (Z.to_N n) x).

(* ---------------- s/fragswarm ---------------- *)
Definition parse_message_chk (x : bytes) : result (N * N * N * bytes) :=
  let '(f0, n0) := uvarint x in
  if (n0 <? 1)%Z then Err E_PARSE else
  match slice_from x n0 P_FRAG_SLICE with
  | Panic s => Panic s | Err e => Err e
  | Ok x1 =>
      let '(f1, n1) := uvarint x1 in
      if (n1 <? 1)%Z then Err E_PARSE else
      match slice_from x (n0 + n1) P_FRAG_SLICE with
      | Panic s => Panic s | Err e => Err e
      | Ok x2 =>
          let '(f2, n2) := uvarint x2 in
          if (n2 <? 1)%Z then Err E_PARSE else
          let id := f0 mod 2 ^ 32 in
          let part := f1 mod 256 in
          let total := f2 mod 256 in
          if total <=? part then Err E_PARSE else
          match slice_from x (n0 + n1 + n2) P_FRAG_SLICE with
          | Panic s => Panic s | Err e => Err e
          | Ok data => Ok (id, part, total, data)
          end
      end
  end.

(* a.parts[part] = data *)
Definition parts_set (a : agg) (part : N) (d : bytes) : result agg :=
  if lenN a <=? part then Panic P_FRAG_INDEX else Ok (set_part a (N.to_nat part) d).

Definition frag_recv_chk (st : frag_state) (src : bytes) (pkt : bytes) : result (frag_state * option bytes) :=
  match parse_message_chk pkt with
  | Err e => Err e
  | Panic s => Panic s
  | Ok (id, part, total, data) =>
      if total =? 1 then Ok (st, Some data)
      else
        let k := (src, id) in
        let a := match st_get st k with Some a => a | None => repeat None (N.to_nat total) end in
        (* if int(total) != len(a.parts) || int(part) >= len(a.parts) { return false } *)
        if negb (total =? lenN a) || (lenN a <=? part) then Ok (st_put st k a, None)
        else
          match parts_set a part data with
          | Panic s => Panic s | Err e => Err e
          | Ok a' =>
              match all_present a' with
              | Some ps => Ok (st_del st k, Some (concat ps))
              | None => Ok (st_put st k a', None)
              end
          end
  end.

(* ---------------- p/mbapp ---------------- *)
Definition bit_get (l : list bool) (i : N) : result bool :=
  if lenN l <=? i then Panic P_MB_BIT else Ok (nth (N.to_nat i) l false).
Definition bit_set (l : list bool) (i : N) : result (list bool) :=
  if lenN l <=? i then Panic P_MB_BIT else Ok (set_bit l (N.to_nat i)).

(* collector.addPart; an error return leaves the collector unchanged (the caller ignores it) *)
Definition add_part_chk (c : collector) (idx : N) (data : bytes) : result collector :=
  if c_count c <=? idx then Ok c                                  (* partIndex >= c.partCount: error *)
  else
    match bit_get (c_bits c) idx with
    | Panic s => Panic s | Err e => Err e
    | Ok true => Ok c
    | Ok false =>
        let offset : Z := if idx =? c_count c - 1 then (Z.of_N (lenN (c_buf c)) - Z.of_N (lenN data))%Z
                          else (Z.of_N (lenN data) * Z.of_N idx)%Z in
        (* if offset < 0 || offset >= len(c.buf) { return error } *)
        if (offset <? 0)%Z || (Z.of_N (lenN (c_buf c)) <=? offset)%Z then Ok c
        else
          match slice_from (c_buf c) offset P_MB_SLICE with       (* c.buf[offset:] *)
          | Panic s => Panic s | Err e => Err e
          | Ok _ =>
              match bit_set (c_bits c) idx with
              | Panic s => Panic s | Err e => Err e
              | Ok bits' => Ok (mkCol (c_count c) bits' (copy_at (c_buf c) (Z.to_nat offset) data))
              end
          end
    end.

Definition parse_mb_chk (x : bytes) : result (mb_header * bytes) :=
  if lenN x <? 24 then Err E_PARSE
  else match slice_from x 24 P_MB_HDR with
       | Panic s => Panic s | Err e => Err e
       | Ok _ => parse_mb x
       end.

Definition mb_recv_chk (mtu : Z) (st : mb_state) (src : bytes) (pkt : bytes)
  : result (mb_state * option (mb_header * bytes)) :=
  match parse_mb_chk pkt with
  | Err e => Err e
  | Panic s => Panic s
  | Ok (h, body) =>
      if (mtu <? Z.of_N (h_total h))%Z then Err E_MTU
      else if h_count h <? 2 then Ok (st, Some (h, body))
      else
        let k := (src, h_origin h, 4 * h_counter h + (if h_ask h then 2 else 0) + (if h_reply h then 1 else 0)) in
        let c := match col_get st k with
                 | Some c => c
                 | None => mkCol (h_count h) (repeat false (N.to_nat (h_count h))) (repeat 0 (N.to_nat (h_total h)))
                 end in
        match add_part_chk c (h_index h) body with
        | Panic s => Panic s | Err e => Err e
        | Ok c' =>
            if forallb (fun b => b) (c_bits c') then Ok (col_del st k, Some (h, c_buf c'))
            else Ok (col_put st k c', None)
        end
  end.

(* reachable collector states: the bitmap has one bit per announced part *)
Definition col_wf (c : collector) : Prop := lenN (c_bits c) = c_count c.
Definition mb_wf (st : mb_state) : Prop := forall k c, In (k, c) st -> col_wf c.

(* ---- p/p2pke/messages.go parseInitHello: the claim is the last l bytes before a
   2-byte big-endian length trailer.  Go's checks made explicit: the slice
   body[len-2:] and the slice body[start : len-2]. ---- *)
Definition P_KE_IH_TAIL : N := 500.    (* body[len(body)-2:] *)
Definition P_KE_IH_DATA : N := 501.    (* body[start : len(body)-2] *)

Definition be16 (hi lo : N) : Z := Z.of_N (256 * hi + lo).

(* returns the bytes handed to the protobuf decoder *)
Definition parse_init_hello_chk (body : bytes) : result bytes :=
  let n := Z.of_nat (length body) in
  if (n <? 2)%Z then Err 1
  else match slice_from body (n - 2) P_KE_IH_TAIL with
       | Ok [hi; lo] =>
           let l := be16 hi lo in
           let start := (n - 2 - l)%Z in
           if (start <? 0)%Z then Err 2
           else if ((start <? 0) || (n - 2 <? start) || (n <? n - 2))%Z then Panic P_KE_IH_DATA   (* slice bounds *)
           else Ok (firstn (Z.to_nat (n - 2 - start)) (skipn (Z.to_nat start) body))
       | Ok _ => Panic P_KE_IH_TAIL
       | Err e => Err e | Panic p => Panic p
       end.

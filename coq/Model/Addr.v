(* Address text codecs of every swarm (repaired code) and their nesting.
   The IP text codec (netip.Addr.String / netip.ParseAddr) is a parameter. *)
From P2PV Require Import Lib.Base Lib.Base64.
Open Scope N_scope.

(* ---- decimal ---- *)
Fixpoint dec_fuel (fuel : nat) (n : N) : bytes :=
  match fuel with
  | O => [48 + n mod 10]
  | S f => if n <? 10 then [48 + n] else dec_fuel f (n / 10) ++ [48 + n mod 10]
  end.
Definition dec (n : N) : bytes := dec_fuel (N.size_nat n) n.     (* strconv.Itoa / %d *)

Definition is_digit (c : N) : bool := (48 <=? c) && (c <=? 57).
Fixpoint dec_value_acc (t : bytes) (acc : N) : N :=
  match t with [] => acc | c :: r => dec_value_acc r (acc * 10 + (c - 48)) end.
(* canonical decimal: digits only, no leading zero unless the number is 0 *)
Definition undec (t : bytes) : option N :=
  match t with
  | [] => None
  | c :: r => if forallb is_digit t && negb ((c =? 48) && negb (lenN r =? 0))
              then Some (dec_value_acc t 0) else None
  end.

(* ---- splitting ---- *)
Fixpoint split_first (c : N) (l : bytes) : option (bytes * bytes) :=
  match l with
  | [] => None
  | x :: t => if x =? c then Some ([], t)
              else match split_first c t with Some (a, b) => Some (x :: a, b) | None => None end
  end.
Fixpoint split_last (c : N) (l : bytes) : option (bytes * bytes) :=
  match l with
  | [] => None
  | x :: t => match split_last c t with
              | Some (a, b) => Some (x :: a, b)
              | None => if x =? c then Some ([], t) else None
              end
  end.
Fixpoint has (c : N) (l : bytes) : bool :=
  match l with [] => false | x :: t => (x =? c) || has c t end.

(* multiswarm regexp ^(.+?)://(.+)$ : shortest non-empty scheme before "://", non-empty rest, no newline *)
Fixpoint split_scheme (l : bytes) : option (bytes * bytes) :=
  match l with
  | [] => None
  | x :: t =>
      match t with
      | 58 :: 47 :: 47 :: (_ :: _) as rest => Some ([x], rest)
      | _ => match split_scheme t with Some (a, b) => Some (x :: a, b) | None => None end
      end
  end.

Section WithIP.
  Variable ipaddr : Type.
  Variable show : ipaddr -> bytes.             (* netip.Addr.String *)
  Variable readip : bytes -> option ipaddr.    (* netip.ParseAddr *)

  Inductive addr :=
  | AMem (n : N)
  | AUdp (ip : ipaddr) (port : N)
  | ASsh (fp : bytes) (ip : ipaddr) (port : N)
  | AKe (id : bytes) (a : addr)          (* p2pkeswarm and quicswarm share this text form *)
  | AMulti (scheme : bytes) (a : addr).

  (* net.JoinHostPort *)
  Definition join_host_port (host port : bytes) : bytes :=
    if has 58 host || has 37 host then [91] ++ host ++ [93; 58] ++ port else host ++ [58] ++ port.

  (* net.SplitHostPort on the two shapes JoinHostPort produces *)
  Definition split_host_port (t : bytes) : option (bytes * bytes) :=
    match t with
    | 91 :: r =>
        match split_first 93 r with
        | Some (host, 58 :: port) => if has 91 host || has 93 port || has 91 port then None else Some (host, port)
        | _ => None
        end
    | _ => match split_last 58 t with
           | Some (host, port) => if has 58 host || has 91 host || has 93 host then None else Some (host, port)
           | None => None
           end
    end.

  Fixpoint marshal (a : addr) : bytes :=
    match a with
    | AMem n => dec n
    | AUdp ip port => join_host_port (show ip) (dec port)
    | ASsh fp ip port => fp ++ [64] ++ show ip ++ [58] ++ dec port
    | AKe id inner => peerid_marshal id ++ [64] ++ marshal inner
    | AMulti scheme inner => scheme ++ [58; 47; 47] ++ marshal inner
    end.

  Inductive schema :=
  | SMem | SUdp | SSsh
  | SKe (inner : schema)
  | SMulti (m : list (bytes * schema)).

  (* sshswarm regexp class [A-z0-9+\-_/:] (with '+' after the repair) *)
  Definition ssh_fp_char (c : N) : bool :=
    ((65 <=? c) && (c <=? 122)) || is_digit c || (c =? 43) || (c =? 45) || (c =? 95) || (c =? 47) || (c =? 58).

  Definition port16 (t : bytes) : option N :=
    match undec t with Some p => if p <? 65536 then Some p else None | None => None end.

  Fixpoint parse (s : schema) (t : bytes) {struct s} : option addr :=
    match s with
    | SMem => option_map AMem (undec t)
    | SUdp =>
        match split_host_port t with
        | Some (host, port) =>
            match port16 port, readip host with
            | Some p, Some ip => Some (AUdp ip p)
            | _, _ => None
            end
        | None => None
        end
    | SSsh =>
        if has 10 t then None else
        match split_first 64 t with
        | Some (fp, rest) =>
            if negb (forallb ssh_fp_char fp) || (lenN fp =? 0) then None else
            match split_last 58 rest with
            | Some (host, port) =>
                if lenN host =? 0 then None else
                match port16 port, readip host with
                | Some p, Some ip => Some (ASsh fp ip p)
                | _, _ => None
                end
            | None => None
            end
        | None => None
        end
    | SKe inner =>
        match split_first 64 t with
        | Some (idt, rest) =>
            match peerid_unmarshal idt, parse inner rest with
            | Some id, Some a => Some (AKe id a)
            | _, _ => None
            end
        | None => None
        end
    | SMulti m =>
        if has 10 t then None else
        match split_scheme t with
        | Some (scheme, rest) =>
            (fix lookup (m : list (bytes * schema)) : option addr :=
               match m with
               | [] => None
               | (name, sub) :: m' =>
                   if bytes_eqb name scheme then option_map (AMulti scheme) (parse sub rest) else lookup m'
               end) m
        | None => None
        end
    end.
End WithIP.

Arguments AMem {ipaddr}.
Arguments AUdp {ipaddr}.
Arguments ASsh {ipaddr}.
Arguments AKe {ipaddr}.
Arguments AMulti {ipaddr}.

(* p/p2pke/channel.go over the session state machine of Model/Handshake.v.
   Cryptography is abstracted by session tags: a message authenticates at a
   session exactly when it was produced by that session's handshake peer for it
   (C02/C03 are the session-level statements behind this abstraction).
   Time is in minutes: KeepAliveTimeout = 60, RejectAfterTime = 180 (the harness
   configures the real channel with these values and ages it with the hook). *)
From P2PV Require Import Lib.Base Model.Handshake.
Open Scope N_scope.

Definition KEEPALIVE : Z := 60.
Definition REJECT : Z := 180.
Definition P_CH_PROMOTE : N := 601.      (* panic(i): a session outside slot 2 became ready *)

(* a message on the wire *)
Record wire := mkW {
  w_chan : N;            (* emitting channel (its key) *)
  w_from : N;            (* emitting session *)
  w_to : option N;       (* the session it is keyed for (None: an InitHello) *)
  w_kind : msg;
  w_rank : N;            (* InitHello: rank of its hash (session id) *)
  w_ts : N }.            (* InitHello: its timestamp *)

Record csess := mkCS {
  cs : sess;
  c_tag : N;
  c_peer : option N;     (* handshake peer session, once known *)
  c_rkey : option N;     (* remote key (the peer channel's key), once known *)
  c_rank : N;            (* session id rank *)
  c_ts : N;              (* InitHello time of this handshake *)
  c_age : Z }.           (* minutes since creation *)

Record chan := mkCh {
  ch_key : N;
  ch_s0 : option csess;                 (* previous *)
  ch_s1 : option csess;                 (* current *)
  ch_s2 : option csess;                 (* next (prospective) *)
  ch_remote : option N;
  ch_rts : N;                           (* remoteTimestamp *)
  ch_lr : Z }.                          (* minutes since lastReceived *)

Definition new_chan (key : N) : chan := mkCh key None None None None 0 1000000.

Definition ch_slots (ch : chan) : list (option csess) := [ch_s0 ch; ch_s1 ch; ch_s2 ch].
Definition slot (ch : chan) (i : nat) : option csess :=
  match i with 0%nat => ch_s0 ch | 1%nat => ch_s1 ch | 2%nat => ch_s2 ch | _ => None end.
Definition set_slot (ch : chan) (i : nat) (x : option csess) : chan :=
  match i with
  | 0%nat => mkCh (ch_key ch) x (ch_s1 ch) (ch_s2 ch) (ch_remote ch) (ch_rts ch) (ch_lr ch)
  | 1%nat => mkCh (ch_key ch) (ch_s0 ch) x (ch_s2 ch) (ch_remote ch) (ch_rts ch) (ch_lr ch)
  | 2%nat => mkCh (ch_key ch) (ch_s0 ch) (ch_s1 ch) x (ch_remote ch) (ch_rts ch) (ch_lr ch)
  | _ => ch
  end.
Definition set_bound (ch : chan) (rk ts : N) : chan :=      (* remoteKey, remoteTimestamp, lastReceived = now *)
  mkCh (ch_key ch) (ch_s0 ch) (ch_s1 ch) (ch_s2 ch) (Some rk) ts 0.
Definition set_lr (ch : chan) (z : Z) : chan :=
  mkCh (ch_key ch) (ch_s0 ch) (ch_s1 ch) (ch_s2 ch) (ch_remote ch) (ch_rts ch) z.
Fixpoint set_nth {A} (l : list A) (i : nat) (x : A) : list A :=
  match l, i with [], _ => [] | _ :: t, O => x :: t | h :: t, S i' => h :: set_nth t i' x end.

Definition expired (se : csess) : bool := (REJECT <? c_age se)%Z.
Definition c_ready (se : csess) : bool := is_ready (cs se).

Definition opt_eqb (a b : option N) : bool :=
  match a, b with Some x, Some y => x =? y | None, None => true | _, _ => false end.

(* would the message authenticate at se *)
Definition auth (se : csess) (w : wire) : bool :=
  opt_eqb (w_to w) (Some (c_tag se)) &&
  match c_peer se with None => true | Some p => p =? w_from w end.

Inductive sres :=
| SErr
| SOk (se : csess) (is_app : bool) (out : option msg).

Definition upd (se : csess) (s : sess) : csess :=
  mkCS s (c_tag se) (c_peer se) (c_rkey se) (c_rank se) (c_ts se) (c_age se).

(* Session.Deliver *)
Definition sess_deliver (se : csess) (w : wire) : result sres :=
  let s := cs se in
  if expired se || (MAX_NONCE <=? s_nonce s) then Ok SErr
  else
    let reply (se' : csess) := match write_handshake (cs se') with
                              | Ok r => Ok (SOk se' false r) | Err e => Err e | Panic p => Panic p end in
    match w_kind w with
    | MData c =>
        if c <? 4 then Ok SErr
        else if negb (can_receive s) then Ok SErr
        else if negb (auth se w && match c_peer se with Some _ => true | None => false end) then Ok SErr
        else match validate_counter s c with
             | None => Ok (SOk se false None)
             | Some s1 =>
                 let nonce := if s_init s1 && (s_hs s1 =? 2) then NONCE_POST_HANDSHAKE else s_nonce s1 in
                 Ok (SOk (upd se (mkS (s_init s1) 8 (s_cache s1) nonce (s_last s1) (s_seen s1))) true None)
             end
    | k =>
        let n := msg_nonce k in
        if s_init s && (s_hs s =? 0) && (n =? 1) then
          if auth se w then
            reply (mkCS (with_hs s 2 (Some 2%nat) (s_nonce s)) (c_tag se) (Some (w_from w)) (Some (w_chan w))
                        (c_rank se) (c_ts se) (c_age se))
          else Ok SErr
        else if negb (s_init s) && (s_hs s =? 1) && (n =? 2) then
          if auth se w then reply (upd se (with_hs s 3 (Some 3%nat) NONCE_POST_HANDSHAKE)) else Ok SErr
        else if s_init s && (s_hs s =? 2) && (n =? 3) then
          if auth se w then reply (upd se (with_hs s 4 None NONCE_POST_HANDSHAKE)) else Ok SErr
        else if (s_init s && (n mod 2 =? 1)) || (negb (s_init s) && (n mod 2 =? 0)) then reply se
        else Ok SErr
    end.

(* the wire message a session emits *)
Definition emit (ch : chan) (se : csess) (k : msg) : wire :=
  mkW (ch_key ch) (c_tag se) (match k with MIH => None | _ => c_peer se end) k (c_rank se) (c_ts se).

Definition set_current (ch : chan) (x : option csess) : chan :=
  set_slot (set_slot ch 0 (slot ch 1)) 1 x.

(* onReadySession: Some ch' = promoted; None ch' = refused (next slot cleared) *)
Definition on_ready (accept : N -> bool) (ch : chan) : chan * bool :=
  match slot ch 2 with
  | None => (ch, false)
  | Some se =>
      let rk := match c_rkey se with Some k => k | None => 0 end in
      match ch_remote ch with
      | Some k => if k =? rk then
                    let ch1 := set_bound ch rk (c_ts se) in
                    (set_slot (set_current ch1 (Some se)) 2 None, true)
                  else (set_slot ch 2 None, false)
      | None => if accept rk then
                  let ch1 := set_bound ch rk (c_ts se) in
                  (set_slot (set_current ch1 (Some se)) 2 None, true)
                else (set_slot ch 2 None, false)
      end
  end.

Inductive dres :=
| DApp (from c : N)      (* application data: emitting session and counter *)
| DSend (w : wire)       (* a handshake message to send *)
| DNone
| DErr.

Definition has_tag (t : N) (x : option csess) : bool := match x with Some se => c_tag se =? t | None => false end.
Definition find_tag (ch : chan) (t : N) : option nat :=
  if has_tag t (slot ch 0) then Some 0%nat else if has_tag t (slot ch 1) then Some 1%nat
  else if has_tag t (slot ch 2) then Some 2%nat else None.

Definition check_key (accept : N -> bool) (ch : chan) (k : N) : bool :=
  match ch_remote ch with Some r => r =? k | None => accept k end.

(* Channel.Deliver.  fresh = tag for a session created here. The loop ranges
   over a copy of the slot array taken on entry. *)
Definition deliver_order (w : wire) : list nat :=
  (* handshake messages are offered to the prospective session first *)
  if msg_nonce (w_kind w) <? NONCE_POST_HANDSHAKE then [2; 1; 0]%nat else [0; 1; 2]%nat.

Fixpoint deliver_loop (accept : N -> bool) (snapshot : list (option csess)) (w : wire)
    (ord : list nat) (ch : chan) : result (chan * dres) + chan :=
    match ord with
    | [] => inr ch
    | i :: t =>
      match nth i snapshot None with
      | None => deliver_loop accept snapshot w t ch
      | Some se0 =>
        (* an InitHello may only be answered by the session created from it *)
        if (match w_kind w with MIH => negb (c_rank se0 =? w_rank w) | _ => false end) then deliver_loop accept snapshot w t ch else
        (* the session object may have moved; its state is read where it is now *)
        match find_tag ch (c_tag se0) with
        | None => deliver_loop accept snapshot w t ch
        | Some j =>
            match slot ch j with
            | None => deliver_loop accept snapshot w t ch
            | Some se =>
                match sess_deliver se w with
                | Panic p => inl (Panic p) | Err e => inl (Err e)
                | Ok SErr => deliver_loop accept snapshot w t ch
                | Ok (SOk se' is_app out) =>
                    let ch1 := set_slot ch j (Some se') in
                    let became := negb (c_ready se) && c_ready se' in
                    if became && negb (Nat.eqb i 2) then inl (Panic P_CH_PROMOTE)
                    else
                      let '(ch2, okp) := if became then on_ready accept ch1 else (ch1, true) in
                      if negb okp then inl (Ok (ch2, DErr))
                      else if is_app then
                        let ch3 := if has_tag (c_tag se') (slot ch2 1)
                                   then set_lr ch2 0 else ch2 in
                        inl (Ok (ch3, DApp (w_from w) (msg_nonce (w_kind w))))
                      else match out with
                           | None => deliver_loop accept snapshot w t ch2
                           | Some k => inl (Ok (ch2, DSend (emit ch2 se' k)))
                           end
                end
            end
        end
      end
    end.

(* Channel.Deliver.  fresh = tag for a session created here. The loop ranges
   over a copy of the slot array taken on entry. *)
Definition chan_deliver (accept : N -> bool) (fresh : N) (ch : chan) (w : wire) : result (chan * dres) :=
  match deliver_loop accept (ch_slots ch) w (deliver_order w) ch with
  | inl r => r
  | inr ch =>
      match w_kind w with
      | MIH =>
          if existsb (fun x => match x with Some se => c_rank se =? w_rank w | None => false end) (ch_slots ch)
          then Ok (ch, DNone)                                       (* repeated InitHello *)
          else if w_ts w <? ch_rts ch then Ok (ch, DErr)            (* older than the established handshake *)
          else if negb (check_key accept ch (w_chan w)) then Ok (ch, DErr)
          else
            let R := mkCS (with_hs (new_sess false) 1 (Some 1%nat) 0) fresh (Some (w_from w)) (Some (w_chan w))
                          (w_rank w) (w_ts w) 0 in
            match slot ch 2 with
            | Some X => if (if s_init (cs X) then c_rank X <? w_rank w      (* simultaneous open: the ids decide *)
                            else negb (c_ts X <? w_ts w))                (* the peer's later InitHello wins *)
                        then match write_handshake (cs X) with
                             | Ok (Some k) => Ok (ch, DSend (emit ch X k))
                             | Ok None => Ok (ch, DNone)
                             | Err e => Err e | Panic p => Panic p
                             end
                        else Ok (set_slot ch 2 (Some R), DSend (emit ch R MRH))
            | None => Ok (set_slot ch 2 (Some R), DSend (emit ch R MRH))
            end
      | _ => Ok (ch, DErr)
      end
  end.

(* expireSessions: the previous session if expired; the current one if expired or
   nothing was received through it recently (it becomes the previous one); the
   prospective one if expired *)
Definition expire0 (ch : chan) : chan :=
  match ch_s0 ch with Some se => if expired se then set_slot ch 0 None else ch | None => ch end.
Definition expire1 (ch : chan) : chan :=
  match ch_s1 ch with
  | Some se => if expired se || (KEEPALIVE <? ch_lr ch)%Z
               then set_slot (set_slot ch 0 (Some se)) 1 None else ch
  | None => ch end.
Definition expire2 (ch : chan) : chan :=
  match ch_s2 ch with Some se => if expired se then set_slot ch 2 None else ch | None => ch end.
Definition expire (ch : chan) : chan := expire2 (expire1 (expire0 ch)).

(* onHandshake: the current handshake message of every session that is not ready *)
Definition chan_handshake (ch : chan) : chan * list wire :=
  let ch := expire ch in
  (ch, flat_map (fun x => match x with
                     | Some se => if c_ready se then []
                                 else match write_handshake (cs se) with Ok (Some k) => [emit ch se k] | _ => [] end
                     | None => [] end) (ch_slots ch)).

(* onRekey (followed by the handshake timer it arms): rank/ts/tag of a session
   created here are given *)
Definition chan_rekey (fresh rank ts : N) (ch : chan) : chan * list wire :=
  let ch := expire ch in
  match slot ch 2 with
  | Some _ => (ch, [])
  | None =>
      let I := mkCS (new_sess true) fresh None None rank ts 0 in
      chan_handshake (set_slot ch 2 (Some I))
  end.

(* Channel.Send when a current session exists after expiry (otherwise it blocks) *)
Definition chan_send (ch : chan) : chan * option wire :=
  let ch := expire ch in
  match slot ch 1 with
  | None => (ch, None)
  | Some se =>
      if expired se then (ch, None)
      else match send (cs se) with
           | Some (s', c) => (set_slot ch 1 (Some (upd se s')), Some (emit ch se (MData c)))
           | None => (ch, None)
           end
  end.

Definition age_sess (d : Z) (x : option csess) : option csess :=
  match x with Some se => Some (mkCS (cs se) (c_tag se) (c_peer se) (c_rkey se) (c_rank se) (c_ts se) (c_age se + d)%Z) | None => None end.
Definition chan_age (d : Z) (ch : chan) : chan :=
  mkCh (ch_key ch) (age_sess d (ch_s0 ch)) (age_sess d (ch_s1 ch)) (age_sess d (ch_s2 ch))
       (ch_remote ch) (ch_rts ch) (ch_lr ch + d)%Z.

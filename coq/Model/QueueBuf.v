(* swarmutil.Queue with its buffers made explicit: the freelist and the queue are
   two FIFO channels of message buffers; a buffer is written by Deliver, read by
   the Receive callback, and goes back to the freelist when the callback returns.
   Concurrent semantics: a Receive is two events (callback begins / callback has
   returned), and anything may happen in between. *)
From P2PV Require Import Lib.Base Model.Queue.
Open Scope nat_scope.

Record bq := mkBQ {
  b_cap : nat; b_mtu : nat;
  b_free : list nat;              (* freelist channel, oldest first *)
  b_queue : list (nat * qmsg);    (* queue channel: buffer and what was written into it *)
  b_busy : list nat;              (* buffers a Receive callback is looking at *)
  b_closed : bool }.

Definition new_bq (cap mtu : nat) : bq := mkBQ cap mtu (seq 0 cap) [] [] false.

Inductive bev :=
| BDeliver (m : qmsg)
| BRecvBegin            (* a Receive takes the oldest queued message and calls fn *)
| BRecvEnd (b : nat)    (* fn has returned: the buffer is zeroed and put back *)
| BPurge
| BClose.

Inductive bout :=
| BWrote (b : nat)      (* Deliver accepted: it wrote into buffer b *)
| BRefused
| BGot (b : nat) (m : qmsg)
| BNothing              (* nothing queued (the call blocks, or returns ErrClosed) *)
| BDone.

Fixpoint remove_nat (b : nat) (l : list nat) : list nat :=
  match l with [] => [] | x :: t => if Nat.eqb x b then t else x :: remove_nat b t end.

Definition bstep (s : bq) (e : bev) : option (bq * bout) :=
  match e with
  | BDeliver m =>
      if Nat.ltb (b_mtu s) (length (q_payload m)) then Some (s, BRefused)
      else if b_closed s then Some (s, BRefused)
      else match b_free s with
           | b :: t => Some (mkBQ (b_cap s) (b_mtu s) t (b_queue s ++ [(b, m)]) (b_busy s) false, BWrote b)
           | [] => Some (s, BRefused)
           end
  | BRecvBegin =>
      match b_queue s with
      | (b, m) :: t => Some (mkBQ (b_cap s) (b_mtu s) (b_free s) t (b :: b_busy s) (b_closed s), BGot b m)
      | [] => Some (s, BNothing)
      end
  | BRecvEnd b =>
      if existsb (Nat.eqb b) (b_busy s)
      then Some (mkBQ (b_cap s) (b_mtu s) (b_free s ++ [b]) (b_queue s) (remove_nat b (b_busy s)) (b_closed s), BDone)
      else None                                  (* only a callback that is running can return *)
  | BPurge => Some (mkBQ (b_cap s) (b_mtu s) (b_free s ++ map fst (b_queue s)) [] (b_busy s) (b_closed s), BDone)
  | BClose =>                                    (* the closed signal; Close then collects every buffer as it becomes available *)
      Some (mkBQ (b_cap s) (b_mtu s) (b_free s ++ map fst (b_queue s)) [] (b_busy s) true, BDone)
  end.

Fixpoint brun (s : bq) (evs : list bev) : option (bq * list bout) :=
  match evs with
  | [] => Some (s, [])
  | e :: t => match bstep s e with
              | None => None
              | Some (s1, o) => match brun s1 t with None => None | Some (s2, os) => Some (s2, o :: os) end
              end
  end.

(* the single-threaded use: every Receive's callback returns before the next call *)
Fixpoint bevs_of_ops (s : bq) (ops : list qop) : list bev :=
  match ops with
  | [] => []
  | QDeliver m :: t => BDeliver m :: match bstep s (BDeliver m) with Some (s1, _) => bevs_of_ops s1 t | None => [] end
  | QReceive :: t =>
      match bstep s BRecvBegin with
      | Some (s1, BGot b _) => BRecvBegin :: BRecvEnd b ::
          match bstep s1 (BRecvEnd b) with Some (s2, _) => bevs_of_ops s2 t | None => [] end
      | Some (s1, _) => BRecvBegin :: bevs_of_ops s1 t
      | None => []
      end
  | QRecvCancelled taken :: t =>
      if taken then
        match bstep s BRecvBegin with
        | Some (s1, BGot b _) => BRecvBegin :: BRecvEnd b ::
            match bstep s1 (BRecvEnd b) with Some (s2, _) => bevs_of_ops s2 t | None => [] end
        | Some (s1, _) => BRecvBegin :: bevs_of_ops s1 t
        | None => []
        end
      else bevs_of_ops s t
  | QPurge :: t => BPurge :: match bstep s BPurge with Some (s1, _) => bevs_of_ops s1 t | None => [] end
  | QClose :: t => BClose :: match bstep s BClose with Some (s1, _) => bevs_of_ops s1 t | None => [] end
  | QLen :: t => bevs_of_ops s t
  end.

(* the buffers the callbacks of a single-threaded history are given, in order *)
Definition got_buffers (cap mtu : nat) (ops : list qop) : list nat :=
  match brun (new_bq cap mtu) (bevs_of_ops (new_bq cap mtu) ops) with
  | Some (_, os) => flat_map (fun o => match o with BGot b _ => [b] | _ => [] end) os
  | None => []
  end.

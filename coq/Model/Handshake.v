(* p/p2pke/session.go as a state machine over the GENUINE messages of one session
   pair (no cryptography: every message considered here was produced by the peer
   session of the same handshake, so it authenticates whenever the state machine
   lets it be read).  Used for C06 (and as the skeleton of the symbolic model). *)
From P2PV Require Import Lib.Base.
Open Scope N_scope.

Definition MAX_NONCE : N := 4294967294.           (* math.MaxUint32 - 1 *)
Definition NONCE_POST_HANDSHAKE : N := 16.
Definition WINDOW : N := 8128.                    (* wireguard/replay windowSize *)
Definition P_WRITE_HS : N := 501.                 (* writeHandshake: cache missing *)

Inductive msg := MIH | MRH | MID | MRD | MData (c : N).
Definition msg_nonce (m : msg) : N :=
  match m with MIH => 0 | MRH => 1 | MID => 2 | MRD => 3 | MData c => c end.

Record sess := mkS {
  s_init : bool; s_hs : N;
  s_cache : list bool;           (* msgCache[i] != nil *)
  s_nonce : N;                   (* outbound counter *)
  s_last : N; s_seen : list N }. (* replay filter: highest accepted, accepted set *)

Definition new_sess (is_init : bool) : sess :=
  mkS is_init 0 [is_init; false; false; false] 0 0 [].

Definition can_send (s : sess) : bool := if s_init s then 3 <=? s_hs s else 2 <=? s_hs s.
Definition can_receive (s : sess) : bool := 2 <=? s_hs s.
Definition is_ready (s : sess) : bool := can_send s && can_receive s.

Definition cached (s : sess) (i : nat) : bool := nth i (s_cache s) false.
Fixpoint set_true (l : list bool) (i : nat) : list bool :=
  match l, i with [], _ => [] | _ :: t, O => true :: t | h :: t, S i' => h :: set_true t i' end.

(* writeHandshake: the current handshake message, if any *)
Definition write_handshake (s : sess) : result (option msg) :=
  if 4 <=? s_hs s then Ok None
  else if s_init s && (s_hs s =? 0) then (if cached s 0 then Ok (Some MIH) else Panic P_WRITE_HS)
  else if negb (s_init s) && (s_hs s =? 1) then (if cached s 1 then Ok (Some MRH) else Panic P_WRITE_HS)
  else if s_init s && (s_hs s =? 2) then (if cached s 2 then Ok (Some MID) else Panic P_WRITE_HS)
  else if negb (s_init s) && (s_hs s =? 3) then (if cached s 3 then Ok (Some MRD) else Panic P_WRITE_HS)
  else Ok None.

Definition with_hs (s : sess) (hs : N) (cache_i : option nat) (nonce : N) : sess :=
  mkS (s_init s) hs (match cache_i with Some i => set_true (s_cache s) i | None => s_cache s end)
      nonce (s_last s) (s_seen s).

(* readHandshake on a genuine message: Some s' = accepted (possibly unchanged), None = "not for this session" *)
Definition read_handshake (s : sess) (m : msg) : option sess :=
  let n := msg_nonce m in
  if negb (s_init s) && (s_hs s =? 0) && (n =? 0) then Some (with_hs s 1 (Some 1%nat) (s_nonce s))
  else if s_init s && (s_hs s =? 0) && (n =? 1) then Some (with_hs s 2 (Some 2%nat) (s_nonce s))
  else if negb (s_init s) && (s_hs s =? 1) && (n =? 2) then Some (with_hs s 3 (Some 3%nat) NONCE_POST_HANDSHAKE)
  else if s_init s && (s_hs s =? 2) && (n =? 3) then Some (with_hs s 4 None NONCE_POST_HANDSHAKE)
  else if (s_init s && (n mod 2 =? 1)) || (negb (s_init s) && (n mod 2 =? 0)) then Some s
  else None.

(* replay.Filter.ValidateCounter *)
Fixpoint memN (x : N) (l : list N) : bool := match l with [] => false | h :: t => (x =? h) || memN x t end.
Definition validate_counter (s : sess) (c : N) : option sess :=
  if MAX_NONCE <=? c then None
  else if s_last s <? c then Some (mkS (s_init s) (s_hs s) (s_cache s) (s_nonce s) c (c :: s_seen s))
  else if WINDOW <? s_last s - c then None
  else if memN c (s_seen s) then None
  else Some (mkS (s_init s) (s_hs s) (s_cache s) (s_nonce s) (s_last s) (c :: s_seen s)).

Inductive outcome :=
| OApp                     (* application data accepted *)
| OReply (m : option msg)  (* handshake message processed; the reply to send, if any *)
| ODrop                    (* replayed / too old: (false, nil, nil) *)
| OErr.                    (* error: early data, not for this session, limit *)

(* Session.Deliver on a genuine message of this pair (expiry is modelled by the channel) *)
Definition deliver (s : sess) (m : msg) : result (sess * outcome) :=
  if MAX_NONCE <=? s_nonce s then Ok (s, OErr)                 (* checkExpired: message limit *)
  else match m with
  | MData c =>
      if c <? 4 then
        (* a data ciphertext whose header counter is below 4 is read as a handshake message
           and fails to authenticate as one *)
        Ok (s, OErr)
      else if negb (can_receive s) then Ok (s, OErr)
      else match validate_counter s c with
           | None => Ok (s, ODrop)
           | Some s1 =>
               let nonce := if s_init s1 && (s_hs s1 =? 2) then NONCE_POST_HANDSHAKE else s_nonce s1 in
               Ok (mkS (s_init s1) 8 (s_cache s1) nonce (s_last s1) (s_seen s1), OApp)
           end
  | _ =>
      match read_handshake s m with
      | None => Ok (s, OErr)
      | Some s' => match write_handshake s' with
                   | Ok r => Ok (s', OReply r)
                   | Err e => Err e
                   | Panic p => Panic p
                   end
      end
  end.

(* Session.Send: Some (s', counter used) *)
Definition send (s : sess) : option (sess * N) :=
  if MAX_NONCE <=? s_nonce s then None
  else if negb (can_send s) then None
  else Some (mkS (s_init s) (s_hs s) (s_cache s) (s_nonce s + 1) (s_last s) (s_seen s), s_nonce s).

(* ---- a pair of sessions and an adversary that only re-delivers genuine messages ---- *)
Record pair := mkP { p_i : sess; p_r : sess; p_from_i : list N; p_from_r : list N }.   (* data counters emitted *)
Definition init_pair : pair := mkP (new_sess true) (new_sess false) [] [].

Inductive action :=
| ToR (m : msg)          (* deliver a message of the initiator to the responder *)
| ToI (m : msg)
| ReflectI (m : msg)     (* reflect one of the initiator's own messages back to it *)
| ReflectR (m : msg)
| SendI | SendR.         (* application Send *)

(* has the side emitted this message yet? (the adversary can only deliver what exists) *)
Definition emitted_by_i (p : pair) (m : msg) : bool :=
  match m with
  | MIH => true | MID => cached (p_i p) 2 | MData c => memN c (p_from_i p) | _ => false end.
Definition emitted_by_r (p : pair) (m : msg) : bool :=
  match m with
  | MRH => cached (p_r p) 1 | MRD => cached (p_r p) 3 | MData c => memN c (p_from_r p) | _ => false end.

Definition step (p : pair) (a : action) : result pair :=
  match a with
  | ToR m => if emitted_by_i p m then
               do (s, _) <- deliver (p_r p) m; Ok (mkP (p_i p) s (p_from_i p) (p_from_r p)) else Ok p
  | ToI m => if emitted_by_r p m then
               do (s, _) <- deliver (p_i p) m; Ok (mkP s (p_r p) (p_from_i p) (p_from_r p)) else Ok p
  | ReflectI m =>
      (* own messages come back: handshake ones are refused or ignored by the role/parity rule,
         own data does not decrypt (it is keyed for the other direction) *)
      if emitted_by_i p m then
        match m with MData _ => Ok p
        | _ => do (s, _) <- deliver (p_i p) m; Ok (mkP s (p_r p) (p_from_i p) (p_from_r p)) end
      else Ok p
  | ReflectR m =>
      if emitted_by_r p m then
        match m with MData _ => Ok p
        | _ => do (s, _) <- deliver (p_r p) m; Ok (mkP (p_i p) s (p_from_i p) (p_from_r p)) end
      else Ok p
  | SendI => match send (p_i p) with
             | Some (s, c) => Ok (mkP s (p_r p) (c :: p_from_i p) (p_from_r p)) | None => Ok p end
  | SendR => match send (p_r p) with
             | Some (s, c) => Ok (mkP (p_i p) s (p_from_i p) (c :: p_from_r p)) | None => Ok p end
  end.

Fixpoint run (p : pair) (acts : list action) : result pair :=
  match acts with [] => Ok p | a :: t => do p' <- step p a; run p' t end.

(* the fair suffix: each side's current handshake message delivered once more, in sequence *)
Definition current_msg (s : sess) : option msg := match write_handshake s with Ok r => r | _ => None end.
Definition fair_round (p : pair) : result pair :=
  do p1 <- match current_msg (p_i p) with Some m => step p (ToR m) | None => Ok p end;
  do p2 <- match current_msg (p_r p1) with Some m => step p1 (ToI m) | None => Ok p1 end;
  Ok p2.
Definition fair_suffix (p : pair) : result pair := do p1 <- fair_round p; fair_round p1.

(* p/p2pmux: the five mux/demux function pairs and the dispatch of muxCore.
   frame   = muxFunc  (header ++ payload; IOVec concatenation)
   unframe = demuxFunc
   dispatch = handleRecv/serveLoop: demux, then sync.Map lookup of the channel *)
From P2PV Require Import Lib.Base Lib.Varint.
Open Scope N_scope.

Inductive kind := KString | KVarint | KU16 | KU32 | KU64.
Inductive chan := CStr (s : bytes) | CInt (n : N).

Definition kind_width (k : kind) : nat :=
  match k with KU16 => 2 | KU32 => 4 | KU64 => 8 | _ => 0 end%nat.

(* a channel id the Go type of the mux can hold *)
Definition valid_chan (k : kind) (c : chan) : bool :=
  match k, c with
  | KString, CStr s => wf_bytes s && (lenN s <? 2 ^ 63)
  | KVarint, CInt n => n <? 2 ^ 64
  | KU16, CInt n => n <? 2 ^ 16
  | KU32, CInt n => n <? 2 ^ 32
  | KU64, CInt n => n <? 2 ^ 64
  | _, _ => false
  end.

Definition header (k : kind) (c : chan) : bytes :=
  match k, c with
  | KString, CStr s => put_uvarint (lenN s) ++ s
  | KVarint, CInt n => put_uvarint n
  | KU16, CInt n => be_encode 2 n
  | KU32, CInt n => be_encode 4 n
  | KU64, CInt n => be_encode 8 n
  | _, _ => []
  end.

Definition frame (k : kind) (c : chan) (x : bytes) : bytes := header k c ++ x.

(* error codes *)
Definition E_SHORT : N := 1.      (* could not read header *)
Definition E_LEN : N := 2.        (* stringmux: length smaller than message *)

Definition unframe (k : kind) (b : bytes) : result (chan * bytes) :=
  match k with
  | KString =>
      let '(clen, n) := uvarint b in
      if (n <? 1)%Z then Err E_SHORT
      else
        let x := dropN (Z.to_N n) b in
        (* fixed code: uint64(len(x)) < chanLength *)
        if lenN x <? clen then Err E_LEN
        else Ok (CStr (takeN clen x), dropN clen x)
  | KVarint =>
      let '(c, n) := uvarint b in
      if (n <? 1)%Z then Err E_SHORT
      else Ok (CInt c, dropN (Z.to_N n) b)
  | KU16 | KU32 | KU64 =>
      let w := N.of_nat (kind_width k) in
      if lenN b <? w then Err E_SHORT
      else Ok (CInt (be_decode (takeN w b)), dropN w b)
  end.

Definition chan_eqb (a b : chan) : bool :=
  match a, b with
  | CStr x, CStr y => bytes_eqb x y
  | CInt x, CInt y => x =? y
  | _, _ => false
  end.

(* handleRecv: Some (c, body) = handed to the hub of the swarm opened on c *)
Definition dispatch (k : kind) (opened : list chan) (b : bytes) : option (chan * bytes) :=
  match unframe k b with
  | Ok (c, body) => if existsb (chan_eqb c) opened then Some (c, body) else None
  | _ => None
  end.

(* muxedSwarm.MTU: inner - len(PutVarint(int64(inner)))  (as the code computes it) *)
Definition mux_mtu_reported (inner : N) : N := inner - lenN (put_varint_nonneg inner).

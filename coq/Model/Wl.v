(* s/wlswarm: a whitelist wrapped around a secure swarm.  What the wrapper hands
   up is what the inner swarm hands up, filtered by the allow function applied
   to the SOURCE address; what it sends is what it is asked to send, provided the
   allow function accepts the DESTINATION. *)
From P2PV Require Import Lib.Base.
Open Scope N_scope.

Definition wmsg := (N * N * bytes)%type.      (* source, destination, payload *)
Definition w_src (m : wmsg) : N := fst (fst m).
Definition w_dst (m : wmsg) : N := snd (fst m).

(* Receive / ServeAsk: inner deliveries that pass the whitelist, in order *)
Definition wl_receive (allow : N -> bool) (inner : list wmsg) : list wmsg := filter (fun m => allow (w_src m)) inner.

(* Tell / Ask: Some = passed down to the inner swarm, None = "address unreachable" *)
Definition wl_send (allow : N -> bool) (m : wmsg) : option wmsg := if allow (w_dst m) then Some m else None.

(* s/fragswarm (repaired code): splitting a Tell into fragments and reassembling. *)
From P2PV Require Import Lib.Base Lib.Varint.
Open Scope N_scope.

Definition OVERHEAD : Z := 15.          (* 3 * binary.MaxVarintLen32 *)
Definition E_MTU : N := 10.             (* p2p.ErrMTUExceeded *)
Definition E_PARSE : N := 11.

(* ---- generic chunking: consecutive pieces of sz bytes, the last one shorter ---- *)
Fixpoint chunks_fuel (fuel : nat) (sz : nat) (l : bytes) : list bytes :=
  match fuel with
  | O => []
  | S f => match l with
           | [] => []
           | _ => firstn sz l :: chunks_fuel f sz (skipn sz l)
           end
  end.
Definition chunks (sz : nat) (l : bytes) : list bytes := chunks_fuel (length l) sz l.

(* ---- sender ---- *)
Definition under_mtu (inner : Z) : Z := (inner - OVERHEAD)%Z.

(* swarm.MTU(): the configured mtu, capped at 255 fragments' worth *)
Definition frag_mtu (inner cfg : Z) : Z :=
  let mx := (255 * under_mtu inner)%Z in
  if (mx <? cfg)%Z then (if (mx <? 0)%Z then 0 else mx)%Z else cfg.

Definition frag_header (id part total : N) : bytes :=
  put_uvarint id ++ put_uvarint part ++ put_uvarint total.

Definition new_message (id part total : N) (data : bytes) : bytes := frag_header id part total ++ data.

Fixpoint number_from {A} (i : N) (l : list A) : list (N * A) :=
  match l with [] => [] | x :: t => (i, x) :: number_from (N.succ i) t end.

(* the inner Tells performed by Tell(payload) with message id `id` *)
Definition frag_tell (inner cfg : Z) (id : N) (payload : bytes) : result (list bytes) :=
  if (under_mtu inner <? 1)%Z || (frag_mtu inner cfg <? Z.of_N (lenN payload))%Z then Err E_MTU
  else
    let cs := chunks (Z.to_nat (under_mtu inner)) payload in
    match cs with
    | [] | [_] => Ok [new_message id 0 1 payload]
    | _ => let total := lenN cs in
           Ok (map (fun p => new_message id (fst p) total (snd p)) (number_from 0 cs))
    end.

(* ---- receiver ---- *)
(* parseMessage: three uvarints, truncated to uint32 / uint8 / uint8; part < total *)
Definition parse_message (x : bytes) : result (N * N * N * bytes) :=
  let '(f0, n0) := uvarint x in
  if (n0 <? 1)%Z then Err E_PARSE else
  let x1 := dropN (Z.to_N n0) x in
  let '(f1, n1) := uvarint x1 in
  if (n1 <? 1)%Z then Err E_PARSE else
  let x2 := dropN (Z.to_N n1) x1 in
  let '(f2, n2) := uvarint x2 in
  if (n2 <? 1)%Z then Err E_PARSE else
  let id := f0 mod 2 ^ 32 in
  let part := f1 mod 256 in
  let total := f2 mod 256 in
  if total <=? part then Err E_PARSE else Ok (id, part, total, dropN (Z.to_N n2) x2).

(* an aggregator: the parts slice, sized by the first fragment seen *)
Definition agg := list (option bytes).
Definition agg_key := (bytes * N)%type.        (* (source address text, message id) *)
Definition frag_state := list (agg_key * agg).

Definition key_eqb (a b : agg_key) : bool := bytes_eqb (fst a) (fst b) && (snd a =? snd b).

Fixpoint st_get (st : frag_state) (k : agg_key) : option agg :=
  match st with
  | [] => None
  | (k', a) :: t => if key_eqb k' k then Some a else st_get t k
  end.
Fixpoint st_del (st : frag_state) (k : agg_key) : frag_state :=
  match st with
  | [] => []
  | (k', a) :: t => if key_eqb k' k then st_del t k else (k', a) :: st_del t k
  end.
Definition st_put (st : frag_state) (k : agg_key) (a : agg) : frag_state := (k, a) :: st_del st k.

Fixpoint set_part (a : agg) (i : nat) (d : bytes) : agg :=
  match a, i with
  | [], _ => []
  | _ :: t, O => Some d :: t
  | h :: t, S i' => h :: set_part t i' d
  end.
Fixpoint all_present (a : agg) : option (list bytes) :=
  match a with
  | [] => Some []
  | Some d :: t => option_map (cons d) (all_present t)
  | None :: _ => None
  end.

(* handleTell: returns the new state and the payload handed to the hub, if any *)
Definition frag_recv (st : frag_state) (src : bytes) (pkt : bytes) : result (frag_state * option bytes) :=
  match parse_message pkt with
  | Err e => Err e
  | Panic s => Panic s
  | Ok (id, part, total, data) =>
      if total =? 1 then Ok (st, Some data)
      else
        let k := (src, id) in
        let a := match st_get st k with Some a => a | None => repeat None (N.to_nat total) end in
        if negb (lenN a =? total) || (lenN a <=? part) then Ok (st_put st k a, None)   (* inconsistent: dropped *)
        else
          let a' := set_part a (N.to_nat part) data in
          match all_present a' with
          | Some ps => Ok (st_del st k, Some (concat ps))
          | None => Ok (st_put st k a', None)
          end
  end.

(* cleanup: the cleanup loop may drop any partial state *)
Definition frag_cleanup (st : frag_state) (drop : agg_key -> bool) : frag_state :=
  filter (fun e => negb (drop (fst e))) st.

(* p/kademlia/distance.go, byte for byte. *)
From P2PV Require Import Lib.Base.
Open Scope N_scope.

(* bits.LeadingZeros8 *)
Definition lz8 (b : N) : N := if b =? 0 then 8 else 7 - N.log2 b.

(* LeadingZeros: sum of lz8 until a byte with lz8 < 8 *)
Fixpoint leading_zeros (x : bytes) : N :=
  match x with
  | [] => 0
  | b :: t => let lz := lz8 b in if lz <? 8 then lz else 8 + leading_zeros t
  end.

(* XORBytes into a fresh buffer of length min(len a, len b) = Distance *)
Fixpoint xor_bytes (a b : bytes) : bytes :=
  match a, b with
  | x :: a', y :: b' => N.lxor x y :: xor_bytes a' b'
  | _, _ => []
  end.
Definition distance (a b : bytes) : bytes := xor_bytes a b.

Fixpoint zerosN (n : nat) : bytes := match n with O => [] | S n' => 0 :: zerosN n' end.

(* XORBytes(dst, a, b) where dst = make([]byte, n): xor on the common part, zero elsewhere *)
Definition xor_into (n : nat) (a b : bytes) : bytes :=
  let x := firstn n (xor_bytes a b) in x ++ zerosN (n - length x).

(* Cache.bucketIndex *)
Definition bucket_index (locus key : bytes) : N :=
  leading_zeros (xor_into (length locus) locus key).

(* DistanceCmp(x, a, b) : the byte loop, then the length rules *)
Fixpoint distance_cmp (x a b : bytes) : comparison :=
  match x, a, b with
  | xi :: x', ai :: a', bi :: b' =>
      let xa := N.lxor xi ai in
      let xb := N.lxor xi bi in
      if xa <? xb then Lt else if xb <? xa then Gt else distance_cmp x' a' b'
  | [], _, _ => Eq                         (* len(x) == l *)
  | _ :: _, [], [] => Eq
  | _ :: _, [], _ :: _ => Lt               (* len(a) < len(b) *)
  | _ :: _, _ :: _, [] => Gt               (* len(b) < len(a) *)
  end.

Definition distance_lt (x a b : bytes) : bool :=
  match distance_cmp x a b with Lt => true | _ => false end.

(* bytes.Compare *)
Fixpoint lex_compare (a b : bytes) : comparison :=
  match a, b with
  | [], [] => Eq
  | [], _ :: _ => Lt
  | _ :: _, [] => Gt
  | x :: a', y :: b' => if x <? y then Lt else if y <? x then Gt else lex_compare a' b'
  end.

(* DistanceLz *)
Fixpoint distance_lz (a b : bytes) : N :=
  match a, b with
  | x :: a', y :: b' => let lz := lz8 (N.lxor x y) in if lz <? 8 then lz else 8 + distance_lz a' b'
  | _, _ => 0
  end.

(* bit i (MSB first) of a byte string; false beyond its end *)
Definition bit_at (d : bytes) (i : N) : bool :=
  match nth_error d (N.to_nat (i / 8)) with
  | Some b => N.testbit b (7 - i mod 8)
  | None => false
  end.

(* HasPrefix(x, prefix, nbits); Panic when nbits > 8*len(prefix) *)
Definition P_HASPREFIX : N := 101.
Definition has_prefix (x prefix : bytes) (nbits : N) : result bool :=
  if 8 * lenN prefix <? nbits then Panic P_HASPREFIX
  else if 8 * lenN x <? nbits then Ok false
  else Ok (nbits <=? leading_zeros (xor_into (length x) x prefix)).

Definition all_zero (x : bytes) : bool := forallb (fun b => b =? 0) x.

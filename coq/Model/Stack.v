(* Stacks of swarm layers: what each layer reports as MTU and which inner Tells
   it performs for one Tell.  Layers are listed top first; the base transport
   accepts payloads up to `base` bytes. *)
From P2PV Require Import Lib.Base Lib.Varint Model.Mux Model.Frag Model.Mbapp.
Open Scope N_scope.

Definition KE_OVERHEAD : Z := 20.           (* p2pke.Overhead = 4 + 16 *)
Definition KE_MAX_MESSAGE_LEN : Z := 65515. (* noise.MaxMsgLen - Overhead *)

Inductive layer :=
| LMux (k : kind) (c : chan)       (* p2pmux: one opened channel *)
| LFrag (cfg : Z) (id : N)         (* s/fragswarm, configured MTU, id of this message *)
| LMbapp (cfg : Z) (h : mb_header) (* p/mbapp *)
| LKe                              (* s/p2pkeswarm, established session *)
| LMin (other : Z)                 (* s/multiswarm: reports the minimum over its transports and checks it *)
| LId.                             (* s/wlswarm and other pass-through wrappers *)

Definition layer_mtu (l : layer) (inner : Z) : Z :=
  match l with
  | LMux k c => (inner - Z.of_N (lenN (header k c)))%Z
  | LFrag cfg _ => frag_mtu inner cfg
  | LMbapp cfg _ => mb_mtu inner cfg
  | LKe => Z.min (inner - KE_OVERHEAD) KE_MAX_MESSAGE_LEN
  | LMin other => Z.min inner other
  | LId => inner
  end.

Fixpoint stack_mtu (st : list layer) (base : Z) : Z :=
  match st with
  | [] => base
  | l :: below => layer_mtu l (stack_mtu below base)
  end.

(* the stand-in for a P2PKE data message: 4-byte counter, ciphertext, 16-byte tag *)
Definition ke_frame (p : bytes) : bytes := repeat 0 4 ++ p ++ repeat 0 16.

(* the Tells a layer performs on the swarm beneath it *)
Definition layer_send (l : layer) (inner : Z) (p : bytes) : result (list bytes) :=
  match l with
  | LMux k c => Ok [frame k c p]
  | LFrag cfg id => frag_tell inner cfg id p
  | LMbapp cfg h => mb_tell inner cfg h p
  | LKe => if (Z.min (inner - KE_OVERHEAD) KE_MAX_MESSAGE_LEN <? Z.of_N (lenN p))%Z then Err E_MTU else Ok [ke_frame p]
  | LMin other => if (Z.min inner other <? Z.of_N (lenN p))%Z then Err E_MTU else Ok [p]
  | LId => Ok [p]
  end.

Fixpoint sends (f : bytes -> result (list bytes)) (ms : list bytes) : result (list bytes) :=
  match ms with
  | [] => Ok []
  | m :: t => match f m with
              | Ok a => match sends f t with Ok b => Ok (a ++ b) | Err e => Err e | Panic s => Panic s end
              | Err e => Err e
              | Panic s => Panic s
              end
  end.

(* the messages that reach the base transport for one Tell at the top *)
Fixpoint stack_send (st : list layer) (base : Z) (p : bytes) : result (list bytes) :=
  match st with
  | [] => if (base <? Z.of_N (lenN p))%Z then Err E_MTU else Ok [p]
  | l :: below =>
      match layer_send l (stack_mtu below base) p with
      | Ok ms => sends (stack_send below base) ms
      | Err e => Err e
      | Panic s => Panic s
      end
  end.

(* p2pkeswarm hands only non-empty plaintexts to its receiver: an empty payload
   that reaches a P2PKE layer unframed is sent, authenticated and then dropped *)
Fixpoint swallowed (st : list layer) (p : bytes) : bool :=
  match st with
  | [] => false
  | LKe :: _ => match p with [] => true | _ => false end
  | (LMin _ | LId) :: below => swallowed below p
  | _ => false
  end.

(* configurations the theorem speaks about: a fragmenting layer needs room for
   at least one payload byte beside its header *)
Definition wf_layer (l : layer) (inner : Z) : Prop :=
  match l with
  | LFrag _ id => (1 <= under_mtu inner)%Z /\ id < 2 ^ 32
  | LMbapp _ _ => (1 <= part_size inner)%Z
  | _ => True
  end.

Fixpoint wf_stack (st : list layer) (base : Z) : Prop :=
  match st with
  | [] => True
  | l :: below => wf_layer l (stack_mtu below base) /\ wf_stack below base
  end.

Definition wf_layerb (l : layer) (inner : Z) : bool :=
  match l with
  | LFrag _ id => (1 <=? under_mtu inner)%Z && (id <? 2 ^ 32)
  | LMbapp _ _ => (1 <=? part_size inner)%Z
  | _ => true
  end.
Fixpoint wf_stackb (st : list layer) (base : Z) : bool :=
  match st with
  | [] => true
  | l :: below => wf_layerb l (stack_mtu below base) && wf_stackb below base
  end.

(* s/p2pkeswarm/swarm.go: the glue between transport addresses, identities and
   channels.  Keys are N (as in Model/Channel.v); fp is the fingerprinter. *)
From P2PV Require Import Lib.Base Model.Handshake Model.Channel.
Open Scope N_scope.

Section KeSwarm.
Variable fp : N -> N.                 (* public key -> peer id *)
Variable whitelist : N -> bool.       (* on the peer id (the transport address part is the channel's own) *)

(* AcceptKey of a channel opened by Tell(Addr{ID: want, ...}) *)
Definition accept_out (want : N) (k : N) : bool := fp k =? want.
(* AcceptKey of a channel opened by a peer's message *)
Definition accept_in (k : N) : bool := whitelist (fp k).

(* getFullAddr: the channel is used for a Tell to identity `want` only if its
   bound key has that identity (otherwise the channel is discarded and the loop
   goes round) *)
Definition tell_uses (want : N) (ch : chan) : bool :=
  match ch_remote ch with Some k => fp k =? want | None => false end.

(* handleMessage after Channel.Deliver returned application data: the source
   identity attached to the message, or None if the message is dropped *)
Definition handle_app (ch : chan) : option N :=
  match ch_remote ch with
  | Some k => if whitelist (fp k) then Some (fp k) else None
  | None => None
  end.
End KeSwarm.

(* p/p2pke/session.go over symbolic (Dolev-Yao style) terms.
   Every cryptographic check is an explicit pattern match: an AEAD opens only
   under the same key and counter, a signature verifies only if it was built
   with that key, purpose and message; hashes are free constructors. *)
From P2PV Require Import Lib.Base Model.Handshake.
Open Scope N_scope.

(* purposes *)
Definition P_TS : N := 1.     (* "p2pke/timestamp" *)
Definition P_CB : N := 2.     (* "p2pke/channel-binding" *)

Inductive term :=
| TAtom (n : N)                              (* opaque bytes (timestamps, garbage) *)
| TEph (e : N)                               (* public half of ephemeral DH secret e *)
| TPub (k : N)                               (* encoding of the public key of principal k *)
| TSig (k : N) (purpose : N) (m : term)      (* signature by principal k *)
| THash (l : list term)                      (* transcript hash *)
| TKey (a b : N) (dir : N)                   (* key derived from DH(a, b); dir 0: init->resp, 1: resp->init, 2: handshake payload *)
| TAead (key : term) (ctr : N) (pt : term)   (* AEAD ciphertext (associated data = header, folded into ctr) *)
| TPair (a b : term)
| TNil.

(* DH is commutative: keys are built from the unordered pair of secrets *)
Definition mk_key (a b dir : N) : term := if a <=? b then TKey a b dir else TKey b a dir.

Fixpoint term_eqb (x y : term) {struct x} : bool :=
  match x, y with
  | TAtom a, TAtom b => a =? b
  | TEph a, TEph b => a =? b
  | TPub a, TPub b => a =? b
  | TSig k p m, TSig k' p' m' => (k =? k') && (p =? p') && term_eqb m m'
  | THash l, THash l' =>
      (fix go (a b : list term) : bool :=
         match a, b with
         | [], [] => true
         | x :: a', y :: b' => term_eqb x y && go a' b'
         | _, _ => false
         end) l l'
  | TKey a b d, TKey a' b' d' => (a =? a') && (b =? b') && (d =? d')
  | TAead k c p, TAead k' c' p' => term_eqb k k' && (c =? c') && term_eqb p p'
  | TPair a b, TPair a' b' => term_eqb a a' && term_eqb b b'
  | TNil, TNil => true
  | _, _ => false
  end.

(* wire messages, by header nonce *)
Inductive wire :=
| W0 (e : N) (ts : term) (kc : term) (sg : term)   (* InitHello: ephemeral, then (timestamp, key, sig) in clear *)
| W1 (e : N) (c : term)                            (* RespHello: ephemeral, encrypted (key, sig) *)
| WC (hdr : N) (c : term)                          (* InitDone (2), RespDone (3), data (>= 4) *)
| WJunk.                                           (* too short / unparseable *)

Definition wire_nonce (w : wire) : option N :=
  match w with W0 _ _ _ _ => Some 0 | W1 _ _ => Some 1 | WC h _ => Some h | WJunk => None end.

Record ssess := mkSS {
  x_init : bool; x_me : N; x_eph : N;          (* role, long-term principal, own ephemeral secret *)
  x_hs : N;
  x_noise : N;                                 (* messages the Noise state has consumed/produced *)
  x_peer : option N;                           (* peer ephemeral *)
  x_remote : option N;                         (* remote key (principal) *)
  x_cb1 : term; x_cb2 : term;                  (* channel bindings after message 1 / message 2 *)
  x_cache : list (option wire);                (* msgCache *)
  x_nonce : N; x_last : N; x_seen : list N;
  x_verified : option (N * term) }.            (* ghost: (key, channel binding) whose signature was verified *)

Definition cb1_of (e : N) (ts kc sg : term) : term := THash [TEph e; ts; kc; sg].
Definition cb2_of (cb1 : term) (er : N) (c : term) : term := THash [cb1; TEph er; c].

(* NewSession *)
Definition new_ssess (is_init : bool) (me eph : N) (ts : N) : ssess :=
  let claim_ts := TAtom ts in
  let ih := W0 eph claim_ts (TPub me) (TSig me P_TS claim_ts) in
  mkSS is_init me eph 0 (if is_init then 1 else 0) None None
       (if is_init then cb1_of eph claim_ts (TPub me) (TSig me P_TS claim_ts) else TNil) TNil
       [if is_init then Some ih else None; None; None; None] 0 0 [] None.

Definition kin (s : ssess) : term :=
  match x_peer s with
  | Some p => mk_key (x_eph s) p (if x_init s then 1 else 0)
  | None => TNil end.
Definition kout (s : ssess) : term :=
  match x_peer s with
  | Some p => mk_key (x_eph s) p (if x_init s then 0 else 1)
  | None => TNil end.

Definition xcan_send (s : ssess) : bool := if x_init s then 3 <=? x_hs s else 2 <=? x_hs s.
Definition xcan_receive (s : ssess) : bool := 2 <=? x_hs s.
Definition xis_ready (s : ssess) : bool := xcan_send s && xcan_receive s.

Definition xcached (s : ssess) (i : nat) : option wire := nth i (x_cache s) None.
Fixpoint set_cache (l : list (option wire)) (i : nat) (w : wire) : list (option wire) :=
  match l, i with [], _ => [] | _ :: t, O => Some w :: t | h :: t, S i' => h :: set_cache t i' w end.

Definition xwrite_handshake (s : ssess) : result (option wire) :=
  let get i := match xcached s i with Some w => Ok (Some w) | None => Panic P_WRITE_HS end in
  if 4 <=? x_hs s then Ok None
  else if x_init s && (x_hs s =? 0) then get 0%nat
  else if negb (x_init s) && (x_hs s =? 1) then get 1%nat
  else if x_init s && (x_hs s =? 2) then get 2%nat
  else if negb (x_init s) && (x_hs s =? 3) then get 3%nat
  else Ok None.

Definition upd (s : ssess) hs noise peer remote cb1 cb2 cache nonce verified : ssess :=
  mkSS (x_init s) (x_me s) (x_eph s) hs noise peer remote cb1 cb2 cache nonce (x_last s) (x_seen s) verified.

(* decoders: each cryptographic / parsing check is one of these *)
Definition as_aead (t : term) : option (term * N * term) := match t with TAead k c p => Some (k, c, p) | _ => None end.
Definition as_pair (t : term) : option (term * term) := match t with TPair a b => Some (a, b) | _ => None end.
Definition as_pub (t : term) : option N := match t with TPub k => Some k | _ => None end.
Definition as_sig (t : term) : option (N * N * term) := match t with TSig k p m => Some (k, p, m) | _ => None end.

(* verifyAuthClaim: the claimed key verifies the signature for this purpose and message *)
Definition verify_claim (purpose : N) (kc sg msg : term) : option N :=
  match as_pub kc, as_sig sg with
  | Some k, Some (k', p, m) => if (k =? k') && (p =? purpose) && term_eqb m msg then Some k else None
  | _, _ => None
  end.

(* the Noise state has advanced but a later check failed: the session cannot read that message again *)
Definition spent (s : ssess) (noise : N) : ssess :=
  upd s (x_hs s) noise (x_peer s) (x_remote s) (x_cb1 s) (x_cb2 s) (x_cache s) (x_nonce s) (x_verified s).

(* readInitHello (responder, hsIndex 0) *)
Definition read_init_hello (s : ssess) (e : N) (ts kc sg : term) : ssess * bool :=
  if negb (x_noise s =? 0) then (s, false)                 (* Noise: not our turn to read *)
  else match verify_claim P_TS kc sg ts with
       | Some k =>
           let cb1 := cb1_of e ts kc sg in
           let c := TAead (mk_key (x_eph s) e 2) 0 (TPair (TPub (x_me s)) (TSig (x_me s) P_CB cb1)) in
           (upd s 1 2 (Some e) (Some k) cb1 (cb2_of cb1 (x_eph s) c)
                (set_cache (x_cache s) 1 (W1 (x_eph s) c)) (x_nonce s) (x_verified s), true)
       | None => (spent s 1, false)
       end.

(* readRespHello (initiator, hsIndex 0) *)
Definition read_resp_hello (s : ssess) (e : N) (c : term) : ssess * bool :=
  if negb (x_noise s =? 1) then (s, false)
  else match as_aead c with
       | Some (key, ctr, pt) =>
           if negb (term_eqb key (mk_key (x_eph s) e 2) && (ctr =? 0)) then (s, false)   (* decrypt fails: Noise rolls back *)
           else match as_pair pt with
                | Some (kc, sg) =>
                    match verify_claim P_CB kc sg (x_cb1 s) with
                    | Some k =>
                        let cb2 := cb2_of (x_cb1 s) e c in
                        let id := WC 2 (TAead (mk_key (x_eph s) e 0) 2 (TSig (x_me s) P_CB cb2)) in
                        (upd s 2 2 (Some e) (Some k) (x_cb1 s) cb2 (set_cache (x_cache s) 2 id) (x_nonce s)
                             (Some (k, x_cb1 s)), true)
                    | None => (spent s 2, false)
                    end
                | None => (spent s 2, false)
                end
       | None => (s, false)
       end.

(* readInitDone (responder, hsIndex 1) *)
Definition read_init_done (s : ssess) (c : term) : ssess * bool :=
  match as_aead c, x_remote s with
  | Some (key, ctr, pt), Some r =>
      if term_eqb key (kin s) && (ctr =? 2) then
        match verify_claim P_CB (TPub r) pt (x_cb2 s) with
        | Some _ =>
            let rd := WC 3 (TAead (kout s) 3 TNil) in
            (upd s 3 (x_noise s) (x_peer s) (x_remote s) (x_cb1 s) (x_cb2 s) (set_cache (x_cache s) 3 rd)
                 NONCE_POST_HANDSHAKE (Some (r, x_cb2 s)), true)
        | None => (s, false)
        end
      else (s, false)
  | _, _ => (s, false)
  end.

(* readRespDone (initiator, hsIndex 2) *)
Definition read_resp_done (s : ssess) (c : term) : ssess * bool :=
  match as_aead c with
  | Some (key, ctr, _) =>
      if term_eqb key (kin s) && (ctr =? 3) then
        (upd s 4 (x_noise s) (x_peer s) (x_remote s) (x_cb1 s) (x_cb2 s) (x_cache s) NONCE_POST_HANDSHAKE (x_verified s), true)
      else (s, false)
  | None => (s, false)
  end.

(* a message body shorter than an ephemeral key (the runner marks it so) *)
Definition short_junk (c : term) : bool := match c with TAtom 996 => true | _ => false end.

(* readHandshake: (new state, no error?). The state may change even on error
   (the Noise state advances when a message is read before a later check fails). *)
Definition xread_handshake (s : ssess) (w : wire) : ssess * bool :=
  match wire_nonce w with
  | None => (s, false)
  | Some n =>
    if negb (x_init s) && (x_hs s =? 0) && (n =? 0) then
      match w with
      | W0 e ts kc sg => read_init_hello s e ts kc sg
      (* anything long enough to hold an ephemeral key is consumed by the Noise state
         (the first pattern has no key yet, so nothing fails before the payload is
         parsed): the session cannot read an InitHello again *)
      | WC _ c => if short_junk c then (s, false) else (spent s 1, false)
      | _ => (s, false)
      end
    else if x_init s && (x_hs s =? 0) && (n =? 1) then
      match w with W1 e c => read_resp_hello s e c | _ => (s, false) end
    else if negb (x_init s) && (x_hs s =? 1) && (n =? 2) then
      match w with WC _ c => read_init_done s c | _ => (s, false) end
    else if x_init s && (x_hs s =? 2) && (n =? 3) then
      match w with WC _ c => read_resp_done s c | _ => (s, false) end
    else if (x_init s && (n mod 2 =? 1)) || (negb (x_init s) && (n mod 2 =? 0)) then (s, true)
    else (s, false)
  end.

Inductive xoutcome :=
| XApp (pt : term)
| XReply (w : option wire)
| XDrop
| XErr.

Definition xvalidate (s : ssess) (c : N) : option ssess :=
  if MAX_NONCE <=? c then None
  else if x_last s <? c then
    Some (mkSS (x_init s) (x_me s) (x_eph s) (x_hs s) (x_noise s) (x_peer s) (x_remote s) (x_cb1 s) (x_cb2 s)
               (x_cache s) (x_nonce s) c (c :: x_seen s) (x_verified s))
  else if WINDOW <? x_last s - c then None
  else if memN c (x_seen s) then None
  else Some (mkSS (x_init s) (x_me s) (x_eph s) (x_hs s) (x_noise s) (x_peer s) (x_remote s) (x_cb1 s) (x_cb2 s)
                  (x_cache s) (x_nonce s) (x_last s) (c :: x_seen s) (x_verified s)).

(* Session.Deliver *)
Definition xdeliver (s : ssess) (w : wire) : result (ssess * xoutcome) :=
  if MAX_NONCE <=? x_nonce s then Ok (s, XErr)
  else match wire_nonce w with
  | None => Ok (s, XErr)
  | Some n =>
      if n <? 4 then
        let '(s', okb) := xread_handshake s w in
        if okb then
          match xwrite_handshake s' with
          | Ok r => Ok (s', XReply r) | Err e => Err e | Panic p => Panic p end
        else Ok (s', XErr)
      else if negb (xcan_receive s) then Ok (s, XErr)
      else match w with
           | WC _ c =>
               match as_aead c with
               | Some (key, ctr, pt) =>
                   if term_eqb key (kin s) && (ctr =? n) then
                     match xvalidate s n with
                     | None => Ok (s, XDrop)
                     | Some s1 =>
                         let nonce := if x_init s1 && (x_hs s1 =? 2) then NONCE_POST_HANDSHAKE else x_nonce s1 in
                         Ok (mkSS (x_init s1) (x_me s1) (x_eph s1) 8 (x_noise s1) (x_peer s1) (x_remote s1) (x_cb1 s1) (x_cb2 s1)
                                  (x_cache s1) nonce (x_last s1) (x_seen s1) (x_verified s1), XApp pt)
                     end
                   else Ok (s, XErr)
               | None => Ok (s, XErr)
               end
           | _ => Ok (s, XErr)
           end
  end.

(* Session.Send *)
Definition xsend (s : ssess) (pt : term) : option (ssess * wire) :=
  if MAX_NONCE <=? x_nonce s then None
  else if negb (xcan_send s) then None
  else
    let c := x_nonce s in
    Some (mkSS (x_init s) (x_me s) (x_eph s) (x_hs s) (x_noise s) (x_peer s) (x_remote s) (x_cb1 s) (x_cb2 s)
               (x_cache s) (c + 1) (x_last s) (x_seen s) (x_verified s),
          WC (c mod 2 ^ 32) (TAead (kout s) c pt)).

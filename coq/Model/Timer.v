(* p/p2pke/timer.go: the one-shot timer behind handshake retransmission and rekey.
   A timer is pending or not; Reset arms it, Stop disarms it, and when its time
   comes it runs its callback once iff it is still pending, clearing the flag
   BEFORE the callback runs, so that a Reset made by the callback itself (which
   is how onHandshake keeps retransmitting) arms the next round. *)
From P2PV Require Import Lib.Base.
Open Scope nat_scope.

(* the callback of the model: re-arms the timer while it has budget left *)
Record timer := mkT { t_pending : bool; t_budget : nat; t_fires : nat }.

Definition timer0 : timer := mkT false 0 0.

Inductive tev :=
| TArm (budget : nat)   (* Reset from outside; the callback will re-arm itself budget times *)
| TStop
| TElapse.              (* the armed duration passes *)

Definition tstep (t : timer) (e : tev) : timer :=
  match e with
  | TArm b => mkT true b (t_fires t)
  | TStop => mkT false (t_budget t) (t_fires t)
  | TElapse =>
      if t_pending t then
        (* isPending = false; fn() ; fn may Reset *)
        match t_budget t with
        | O => mkT false 0 (S (t_fires t))
        | S b => mkT true b (S (t_fires t))
        end
      else t
  end.

Definition trun (t : timer) (evs : list tev) : timer := fold_left tstep evs t.

(* time passes until nothing is pending any more *)
Fixpoint quiesce (fuel : nat) (t : timer) : timer :=
  match fuel with O => t | S f => if t_pending t then quiesce f (tstep t TElapse) else t end.

(* harness scripts: (arm b) (stop) (quiesce) *)
Inductive top := OArm (b : nat) | OStop | OQuiesce.
Fixpoint tscript (t : timer) (ops : list top) : list nat :=
  match ops with
  | [] => []
  | OArm b :: r => tscript (tstep t (TArm b)) r
  | OStop :: r => tscript (tstep t TStop) r
  | OQuiesce :: r => let t' := quiesce (S (t_budget t)) t in t_fires t' :: tscript t' r
  end.

(* p/kademlia/cache.go.  Values are byte strings; time.Time is a Z offset from
   Go's zero time (0 = time.Time{}).  Go map iteration order is an oracle. *)
From P2PV Require Import Lib.Base Model.Distance.
Open Scope Z_scope.

Record entry := mkE { e_key : bytes; e_val : bytes; e_created : Z; e_exp : Z }.
Record bucket := mkB { b_ents : list entry; b_minexp : Z }.
Record cache := mkC {
  c_locus : bytes; c_minpb : Z; c_max : Z;
  c_count : Z; c_buckets : list bucket }.

Definition P_NEWCACHE : N := 201.     (* NewCache precondition panic *)
Definition P_NILVICTIM : N := 202.    (* evicted.Key on a nil victim *)
Definition P_EVICTEMPTY : N := 203.   (* "evict from bucket with len=0" *)
Definition E_ORACLE : N := 900.       (* the oracle value is not one the code could produce *)

Definition lenZ {A} (l : list A) : Z := Z.of_N (lenN l).

Definition new_cache (locus : bytes) (max minpb : Z) : result cache :=
  if max <? 0 then Panic P_NEWCACHE
  else if minpb <? 0 then Panic P_NEWCACHE
  else if max <? minpb * 8 * lenZ locus then Panic P_NEWCACHE
  else Ok (mkC locus minpb max 0 []).

Definition empty_bucket : bucket := mkB [] 0.

(* ---- bucket ---- *)
Fixpoint b_find (es : list entry) (k : bytes) : option entry :=
  match es with
  | [] => None
  | e :: t => if bytes_eqb (e_key e) k then Some e else b_find t k
  end.

Fixpoint b_replace (es : list entry) (n : entry) : list entry :=
  match es with
  | [] => [n]
  | e :: t => if bytes_eqb (e_key e) (e_key n) then n :: t else e :: b_replace t n
  end.

Fixpoint b_remove (es : list entry) (k : bytes) : list entry :=
  match es with
  | [] => []
  | e :: t => if bytes_eqb (e_key e) k then t else e :: b_remove t k
  end.

Definition upd_minexp (m x : Z) : Z :=
  if x =? 0 then m else if (m =? 0) || (x <? m) then x else m.

(* bucket.update with fn; returns (bucket, added) *)
Definition b_update (b : bucket) (k : bytes) (fn : option entry -> entry) : bucket * bool :=
  let prev := b_find (b_ents b) k in
  let next := fn prev in
  (mkB (b_replace (b_ents b) next) (upd_minexp (b_minexp b) (e_exp next)),
   match prev with None => true | Some _ => false end).

Definition b_delete (b : bucket) (k : bytes) : bucket * option entry :=
  match b_find (b_ents b) k with
  | None => (b, None)
  | Some e =>
      let es := b_remove (b_ents b) k in
      (mkB es (fold_left (fun m e => upd_minexp m (e_exp e)) es 0), Some e)
  end.

(* bucket.evict: an entry of maximal CreatedAt; which one among ties depends on
   map iteration order, so the victim key is an oracle input that is checked *)
Definition max_created (es : list entry) : Z :=
  match es with
  | [] => 0
  | e :: t => fold_left (fun m e => Z.max m (e_created e)) t (e_created e)
  end.

Definition b_evict (b : bucket) (victim : bytes) : result (bucket * entry) :=
  match b_ents b with
  | [] => Panic P_EVICTEMPTY
  | _ =>
      match b_find (b_ents b) victim with
      | Some e =>
          if e_created e =? max_created (b_ents b)
          then Ok (mkB (b_remove (b_ents b) victim) (b_minexp b), e)
          else Err E_ORACLE
      | None => Err E_ORACLE
      end
  end.

Definition is_expired (now : Z) (e : entry) : bool :=
  negb (e_exp e =? 0) && (e_exp e <? now).

Definition b_expire (b : bucket) (now : Z) : bucket * list entry :=
  (mkB (filter (fun e => negb (is_expired now e)) (b_ents b)) (b_minexp b),
   filter (is_expired now) (b_ents b)).

(* ---- cache ---- *)
Definition bidx (c : cache) (k : bytes) : nat := N.to_nat (bucket_index (c_locus c) k).

Definition get_bucket (c : cache) (k : bytes) : option bucket := nth_error (c_buckets c) (bidx c k).

Definition lookup (c : cache) (k : bytes) : option entry :=
  match get_bucket c k with
  | Some b => b_find (b_ents b) k
  | None => None
  end.

Definition get (c : cache) (k : bytes) : option bytes := option_map e_val (lookup c k).

Fixpoint set_nth {A} (l : list A) (n : nat) (x : A) : list A :=
  match l, n with
  | [], _ => []
  | _ :: t, O => x :: t
  | h :: t, S n' => h :: set_nth t n' x
  end.

Definition extend (bs : list bucket) (n : nat) : list bucket :=
  bs ++ repeat empty_bucket (S n - length bs).

(* index of the bucket evict takes its victim from *)
Fixpoint first_over (bs : list bucket) (minpb : Z) (i : nat) : option nat :=
  match bs with
  | [] => None
  | b :: t => if minpb <? lenZ (b_ents b) then Some i else first_over t minpb (S i)
  end.

Definition evict_index (c : cache) : option nat :=
  match first_over (c_buckets c) (c_minpb c) 0 with
  | Some n => Some n
  | None => first_over (c_buckets c) 0 0      (* farthest non-empty bucket *)
  end.

Definition evict (c : cache) (victim : bytes) : result (cache * entry) :=
  match evict_index c with
  | None => Panic P_NILVICTIM
  | Some n =>
      match nth_error (c_buckets c) n with
      | None => Panic P_NILVICTIM
      | Some b =>
          do (b', e) <- b_evict b victim;
          Ok (mkC (c_locus c) (c_minpb c) (c_max c) (c_count c - 1) (set_nth (c_buckets c) n b'), e)
      end
  end.

(* Cache.Update; orc = key of the eviction victim reported by the implementation
   (ignored when no eviction happens) *)
Definition update (c : cache) (k : bytes) (fn : option entry -> entry) (orc : bytes)
  : result (cache * (option entry * bool)) :=
  if c_max c =? 0 then Ok (c, (None, false))
  else
    let lz := bidx c k in
    let bs := extend (c_buckets c) lz in
    match nth_error bs lz with
    | None => Panic P_NILVICTIM   (* unreachable: extend guarantees the index *)
    | Some b =>
        let '(b', added) := b_update b k fn in
        let c1 := mkC (c_locus c) (c_minpb c) (c_max c)
                      (if added then c_count c + 1 else c_count c) (set_nth bs lz b') in
        if c_max c1 <? c_count c1 then
          do (c2, ev) <- evict c1 orc;
          Ok (c2, (Some ev, negb (bytes_eqb k (e_key ev))))
        else Ok (c1, (None, added))
    end.

Definition put_fn (k v : bytes) (now exp : Z) : option entry -> entry :=
  fun _ => mkE k v now exp.

(* DHTNode.AddPeer's update function: keep CreatedAt of an existing entry *)
Definition keep_fn (k v : bytes) (now exp : Z) : option entry -> entry :=
  fun prev => match prev with
              | Some e => mkE (e_key e) v (e_created e) exp
              | None => mkE k v now exp
              end.

Definition delete (c : cache) (k : bytes) : cache * option entry :=
  match get_bucket c k with
  | None => (c, None)
  | Some b =>
      match b_delete b k with
      | (_, None) => (c, None)
      | (b', Some e) =>
          (mkC (c_locus c) (c_minpb c) (c_max c) (c_count c - 1) (set_nth (c_buckets c) (bidx c k) b'), Some e)
      end
  end.

Fixpoint expire_buckets (bs : list bucket) (now : Z) : list bucket * list entry :=
  match bs with
  | [] => ([], [])
  | b :: t =>
      let '(t', out) := expire_buckets t now in
      if b_minexp b <? now then
        let '(b', o) := b_expire b now in (b' :: t', o ++ out)
      else (b :: t', out)
  end.

Definition expire (c : cache) (now : Z) : cache * list entry :=
  let '(bs, out) := expire_buckets (c_buckets c) now in
  (mkC (c_locus c) (c_minpb c) (c_max c) (c_count c - lenZ out) bs, out).

Definition contents (c : cache) : list entry := flat_map b_ents (c_buckets c).

(* ---- enumeration ---- *)
Fixpoint insert_sorted (k : bytes) (e : entry) (l : list entry) : list entry :=
  match l with
  | [] => [e]
  | h :: t => if distance_lt k (e_key e) (e_key h) then e :: l else h :: insert_sorted k e t
  end.
Definition sort_bucket (k : bytes) (es : list entry) : list entry :=
  fold_right (insert_sorted k) [] es.

(* ForEach (repaired loop): buckets whose bit is set in locus^k ascending, then
   the others descending.  Written recursively: a set bit puts the bucket before
   all deeper ones, a clear bit after them. *)
Fixpoint visit (d k : bytes) (bs : list bucket) (i : N) : list entry :=
  match bs with
  | [] => []
  | b :: t =>
      if bit_at d i then sort_bucket k (b_ents b) ++ visit d k t (N.succ i)
      else visit d k t (N.succ i) ++ sort_bucket k (b_ents b)
  end.

Definition for_each (c : cache) (k : bytes) : list entry :=
  visit (distance (c_locus c) k) k (c_buckets c) 0.

(* the loop as written in the code: two passes with a deferred list *)
Fixpoint pass_set (d k : bytes) (bs : list bucket) (i : N) : list entry * list (list entry) :=
  match bs with
  | [] => ([], [])
  | b :: t =>
      let '(now_, deferred) := pass_set d k t (N.succ i) in
      if bit_at d i then (sort_bucket k (b_ents b) ++ now_, deferred)
      else (now_, sort_bucket k (b_ents b) :: deferred)
  end.
Definition for_each_code (c : cache) (k : bytes) : list entry :=
  let '(first, deferred) := pass_set (distance (c_locus c) k) k (c_buckets c) 0 in
  first ++ concat (rev deferred).

Definition closest (c : cache) (k : bytes) : option entry := hd_error (for_each c k).

(* ForEachCloser: stop at the first entry not strictly closer to x than the locus *)
Fixpoint take_while {A} (f : A -> bool) (l : list A) : list A :=
  match l with [] => [] | h :: t => if f h then h :: take_while f t else [] end.
Definition for_each_closer (c : cache) (x : bytes) : list entry :=
  take_while (fun e => distance_lt x (e_key e) (c_locus c)) (for_each c x).

(* ---- operations and outputs ---- *)
Inductive op :=
| OPut (k v : bytes) (now exp : Z)
| OKeep (k v : bytes) (now exp : Z)      (* Update with AddPeer's function *)
| ODel (k : bytes)
| OExpire (now : Z)
| OGet (k : bytes)
| OCount.

Inductive out :=
| RPut (evicted : option entry) (added : bool)
| RDel (e : option entry)
| RExpire (es : list entry)
| RGet (v : option bytes)
| RCount (n : Z).

Definition step (c : cache) (o : op) (orc : bytes) : result (cache * out) :=
  match o with
  | OPut k v now exp =>
      do (c', (ev, added)) <- update c k (put_fn k v now exp) orc; Ok (c', RPut ev added)
  | OKeep k v now exp =>
      do (c', (ev, added)) <- update c k (keep_fn k v now exp) orc; Ok (c', RPut ev added)
  | ODel k => let '(c', e) := delete c k in Ok (c', RDel e)
  | OExpire now => let '(c', es) := expire c now in Ok (c', RExpire es)
  | OGet k => Ok (c, RGet (get c k))
  | OCount => Ok (c, RCount (c_count c))
  end.

Fixpoint run (c : cache) (ops : list (op * bytes)) : result cache :=
  match ops with
  | [] => Ok c
  | (o, orc) :: t => do (c', _) <- step c o orc; run c' t
  end.

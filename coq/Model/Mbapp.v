(* p/mbapp (repaired code): header, splitting into parts, the collector. *)
From P2PV Require Import Lib.Base Lib.Varint Model.Frag.
Open Scope N_scope.

Definition HEADER_SIZE : Z := 24.
Definition P_MB_OFFSET : N := 401.     (* negative offset slice (unreachable after the repair) *)

Record mb_header := mkHdr {
  h_ask : bool; h_reply : bool; h_err : N;        (* word 0 *)
  h_origin : N;                                   (* word 1 *)
  h_counter : N;                                  (* word 2 *)
  h_total : N;                                    (* word 3: total size *)
  h_index : N; h_count : N;                       (* word 4 *)
  h_timeout : N }.                                (* word 5 *)

Definition word0 (h : mb_header) : N :=
  (if h_ask h then 2 ^ 31 else 0) + (if h_reply h then 2 ^ 30 else 0) + h_err h mod 256.

Definition encode_header (h : mb_header) : bytes :=
  be_encode 4 (word0 h) ++ be_encode 4 (h_origin h mod 2 ^ 32) ++ be_encode 4 (h_counter h mod 2 ^ 32) ++
  be_encode 4 (h_total h mod 2 ^ 32) ++ be_encode 2 (h_index h mod 2 ^ 16) ++ be_encode 2 (h_count h mod 2 ^ 16) ++
  be_encode 4 (h_timeout h mod 2 ^ 32).

(* ParseMessage + the getters *)
Definition parse_mb (x : bytes) : result (mb_header * bytes) :=
  if lenN x <? 24 then Err E_PARSE
  else
    let w n := be_decode (takeN 4 (dropN (4 * n) x)) in
    let w0 := w 0 in
    Ok (mkHdr (N.testbit w0 31) (N.testbit w0 30) (w0 mod 256) (w 1) (w 2) (w 3)
              (w 4 / 2 ^ 16) (w 4 mod 2 ^ 16) (w 5),
        dropN 24 x).

(* ---- sender ---- *)
Definition part_size (inner : Z) : Z := (inner - HEADER_SIZE)%Z.
Definition mb_mtu (inner cfg : Z) : Z :=
  let mx := (65535 * part_size inner)%Z in
  if (mx <? cfg)%Z then (if (mx <? 0)%Z then 0 else mx)%Z else cfg.

(* Tell / the request half of Ask: the inner Tells performed *)
Definition mb_send (inner : Z) (h : mb_header) (payload : bytes) : result (list bytes) :=
  if (part_size inner <? 1)%Z then Err E_MTU
  else
    let cs := chunks (Z.to_nat (part_size inner)) payload in
    let total := lenN payload in
    match cs with
    | [] | [_] =>
        Ok [encode_header (mkHdr (h_ask h) (h_reply h) (h_err h) (h_origin h) (h_counter h) total 0 (lenN cs) (h_timeout h))
            ++ payload]
    | _ =>
        Ok (map (fun p => encode_header (mkHdr (h_ask h) (h_reply h) (h_err h) (h_origin h) (h_counter h) total
                                               (fst p) (lenN cs) (h_timeout h)) ++ snd p)
                (number_from 0 cs))
    end.

Definition mb_tell (inner cfg : Z) (h : mb_header) (payload : bytes) : result (list bytes) :=
  if (mb_mtu inner cfg <? Z.of_N (lenN payload))%Z then Err E_MTU else mb_send inner h payload.

(* ---- receiver: collectors keyed by (source text, origin time, counter) ---- *)
Record collector := mkCol { c_count : N; c_bits : list bool; c_buf : bytes }.
(* (source text, origin time, 4 * counter + ask/reply bits): a reply echoes the
   asker's origin time and counter, so the bits are part of the key *)
Definition col_key := (bytes * N * N)%type.
Definition mb_state := list (col_key * collector).

Definition ck_eqb (a b : col_key) : bool :=
  bytes_eqb (fst (fst a)) (fst (fst b)) && (snd (fst a) =? snd (fst b)) && (snd a =? snd b).
Fixpoint col_get (st : mb_state) (k : col_key) : option collector :=
  match st with [] => None | (k', c) :: t => if ck_eqb k' k then Some c else col_get t k end.
Fixpoint col_del (st : mb_state) (k : col_key) : mb_state :=
  match st with [] => [] | (k', c) :: t => if ck_eqb k' k then col_del t k else (k', c) :: col_del t k end.
Definition col_put (st : mb_state) (k : col_key) (c : collector) : mb_state := (k, c) :: col_del st k.

(* copy(buf[offset:], data) *)
Definition copy_at (buf : bytes) (offset : nat) (data : bytes) : bytes :=
  firstn offset buf ++ firstn (length buf - offset) data ++ skipn (offset + length data) buf.

Fixpoint set_bit (l : list bool) (i : nat) : list bool :=
  match l, i with
  | [], _ => []
  | _ :: t, O => true :: t
  | h :: t, S i' => h :: set_bit t i'
  end.

(* collector.addPart (errors are ignored by the caller: the collector is unchanged) *)
Definition add_part (c : collector) (idx : N) (data : bytes) : collector :=
  if c_count c <=? idx then c
  else if nth (N.to_nat idx) (c_bits c) false then c
  else
    let offset : Z := if idx =? c_count c - 1 then (Z.of_N (lenN (c_buf c)) - Z.of_N (lenN data))%Z
                      else (Z.of_N (lenN data) * Z.of_N idx)%Z in
    if (offset <? 0)%Z || (Z.of_N (lenN (c_buf c)) <=? offset)%Z then c
    else mkCol (c_count c) (set_bit (c_bits c) (N.to_nat idx)) (copy_at (c_buf c) (Z.to_nat offset) data).

(* handleMessage + fragLayer.handlePart: the reassembled message handed on, if any.
   mtu = the receiving swarm's configured mtu (messages announcing more are refused). *)
Definition mb_recv (mtu : Z) (st : mb_state) (src : bytes) (pkt : bytes)
  : result (mb_state * option (mb_header * bytes)) :=
  match parse_mb pkt with
  | Err e => Err e
  | Panic s => Panic s
  | Ok (h, body) =>
      if (mtu <? Z.of_N (h_total h))%Z then Err E_MTU
      else if h_count h <? 2 then Ok (st, Some (h, body))
      else
        let k := (src, h_origin h, 4 * h_counter h + (if h_ask h then 2 else 0) + (if h_reply h then 1 else 0)) in
        let c := match col_get st k with
                 | Some c => c
                 | None => mkCol (h_count h) (repeat false (N.to_nat (h_count h))) (repeat 0 (N.to_nat (h_total h)))
                 end in
        let c' := add_part c (h_index h) body in
        if forallb (fun b => b) (c_bits c') then Ok (col_del st k, Some (h, c_buf c'))
        else Ok (col_put st k c', None)
  end.

Definition mb_cleanup (st : mb_state) (drop : col_key -> bool) : mb_state :=
  filter (fun e => negb (drop (fst e))) st.

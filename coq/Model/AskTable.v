(* p/mbapp/asker.go: the table of outstanding asks.  An ask is filed under
   (destination address text, origin time, counter); a reply is looked up under
   (source address text, origin time, counter) of its header, completes that ask
   once and removes it. *)
From P2PV Require Import Lib.Base.
Open Scope N_scope.

Definition ask_id := (bytes * N * N)%type.
Definition aid_eqb (a b : ask_id) : bool :=
  bytes_eqb (fst (fst a)) (fst (fst b)) && (snd (fst a) =? snd (fst b)) && (snd a =? snd b).

Inductive astate := Pending | Completed (resp : bytes) (err : N) | Aborted.
Record ask := mkAsk { a_id : ask_id; a_req : N (* which Ask call *) ; a_state : astate }.
Definition table := list ask.

Fixpoint t_get (t : table) (id : ask_id) : option ask :=
  match t with [] => None | a :: r => if aid_eqb (a_id a) id then Some a else t_get r id end.
Fixpoint t_del (t : table) (id : ask_id) : table :=
  match t with [] => [] | a :: r => if aid_eqb (a_id a) id then t_del r id else a :: t_del r id end.

(* createAsk: a later ask with the same id replaces the earlier entry (Go map assignment) *)
Definition t_create (t : table) (id : ask_id) (req : N) : table := mkAsk id req Pending :: t_del t id.

(* handleAskReply: getAndRemoveAsk then complete *)
Definition t_reply (t : table) (id : ask_id) (resp : bytes) (err : N) : table * option (N * bytes * N) :=
  match t_get t id with
  | Some a => (t_del t id, match a_state a with Pending => Some (a_req a, resp, err) | _ => None end)
  | None => (t, None)
  end.

(* what the caller of Ask number req, with a buffer of cap bytes, is told *)
Inductive outcome := OAnswer (resp : bytes) | OShortBuffer | OAppError (code : N) | OContextError.
Definition ask_result (cap : N) (resp : bytes) (err : N) : outcome :=
  if cap <? lenN resp then OShortBuffer else if 0 <? err then OAppError err else OAnswer resp.

(* Tie obligations for mbapp reassembly and ask matching (C10, C11). *)
From Coq Require Import String.
From P2PV Require Import Lib.Base Gen.Generated.

Lemma T_Mb_src_mb_handlepart : src_mb_handlepart =
  "{ cid := collectorID{Remote: remote.String(), GroupID: gid, IsAsk: isAsk, IsReply: isReply} if partCount < 2 && !disableFastPath { return fn(body) } col, err := fl.getCollector(cid, partCount, totalSize) if err != nil { return err } col.addPart(int(partIndex), body) if !col.isComplete() { return nil } defer fl.dropCollector(cid) return col.withBuffer(fn) }"%string.
Proof. reflexivity. Qed.

Lemma T_Mb_src_mb_askreply : src_mb_askreply =
  "{ ask := s.asker.getAndRemoveAsk(askID{ GroupID: id, Addr: src.String(), }) if ask == nil { return errors.Errorf(""got reply for non existent ask %v"", id) } ask.complete(body, errCode) return nil }"%string.
Proof. reflexivity. Qed.

Lemma T_Mb_src_mb_askcomplete : src_mb_askcomplete =
  "{ a.once.Do(func() { a.errCode = errCode a.tooLong = len(resp) > len(a.respBuf) a.n = copy(a.respBuf, resp) close(a.done) }) }"%string.
Proof. reflexivity. Qed.

(* completion test of the collector and the outbound message counter *)
Lemma T_Mb_src_mb_allset : src_mb_allset =
  "{ l := bm.len() for i := 0; i < l; i++ { if !bm.get(i) { return false } } return true }"%string.
Proof. reflexivity. Qed.

Lemma T_Mb_src_mb_iscomplete : src_mb_iscomplete =
  "{ c.mu.Lock() defer c.mu.Unlock() return c.bitMap.allSet() }"%string.
Proof. reflexivity. Qed.

Lemma T_Mb_src_mb_getcounter : src_mb_getcounter =
  "{ return atomic.AddUint32(&s.counter, 1) }"%string.
Proof. reflexivity. Qed.

(* Tie obligations for the text form of a PeerID (peer.go): strict base64 decoding of exactly 43 characters is what makes the text canonical (C17) and nested address text unambiguous (C16). *)
From Coq Require Import String.
From P2PV Require Import Lib.Base Gen.Generated.

Lemma T_Peer_src_peerid_unmarshal : src_peerid_unmarshal =
  "{ if len(data) != enc.EncodedLen(len(pid)) { return errors.New(""data is wrong length"") } var buf [PeerIDSize]byte n, err := enc.Strict().Decode(buf[:], data) if err != nil { return err } if n != len(buf) { return errors.New(""data is wrong length"") } *pid = buf return nil }"%string.
Proof. reflexivity. Qed.

Lemma T_Peer_src_peerid_marshal : src_peerid_marshal =
  "{ data := make([]byte, enc.EncodedLen(len(pid))) enc.Encode(data, pid[:]) return data, nil }"%string.
Proof. reflexivity. Qed.

(* Tie obligations for the ParseAddr functions (Model/Addr.v parse): every error of an inner parser is returned, numeric fields are range-checked. *)
From Coq Require Import String.
From P2PV Require Import Lib.Base Gen.Generated.

Lemma T_Parse_src_quic_parseaddr : src_quic_parseaddr =
  "{ parts := bytes.SplitN(data, []byte(""@""), 2) if len(parts) < 2 { return Addr[T]{}, errors.Errorf(""address must contain @"") } a := Addr[T]{} if err := a.ID.UnmarshalText(parts[0]); err != nil { return Addr[T]{}, err } innerAddr, err := inner(parts[1]) if err != nil { return Addr[T]{}, err } a.Addr = innerAddr return a, nil }"%string.
Proof. reflexivity. Qed.

Lemma T_Parse_src_ke_parseaddr : src_ke_parseaddr =
  "{ parts := bytes.SplitN(data, []byte(""@""), 2) if len(parts) < 2 { return Addr[T]{}, errors.Errorf(""no @ in addr"") } id := p2p.PeerID{} if err := id.UnmarshalText(parts[0]); err != nil { return Addr[T]{}, err } addr, err := inner(parts[1]) if err != nil { return Addr[T]{}, err } return Addr[T]{ ID: id, Addr: addr, }, nil }"%string.
Proof. reflexivity. Qed.

Lemma T_Parse_src_ssh_parseaddr : src_ssh_parseaddr =
  "{ a := Addr{} matches := addrRe.FindSubmatch(data) if len(matches) < 4 { log.Println(matches) return Addr{}, errors.New(""could not parse addr"") } a.Fingerprint = string(matches[1]) ip, err := netip.ParseAddr(string(matches[2])) if err != nil { return Addr{}, errors.Wrapf(err, ""parsing ip"") } a.IP = ip port, err := strconv.ParseUint(string(matches[3]), 10, 16) if err != nil { return Addr{}, errors.Wrapf(err, ""sshswarm: parsing addr"") } a.Port = uint16(port) return a, nil }"%string.
Proof. reflexivity. Qed.

Lemma T_Parse_src_udp_parseaddr : src_udp_parseaddr =
  "{ var addr Addr err := addr.UnmarshalText(x) return addr, err }"%string.
Proof. reflexivity. Qed.

Lemma T_Parse_src_multi_parseaddr : src_multi_parseaddr =
  "{ groups := addrRe.FindSubmatch(x) if len(groups) != 3 { return Addr{}, errors.New(""could not unmarshal"") } scheme := string(groups[1]) parser, exists := as.parsers[scheme] if !exists { return Addr{}, errors.Errorf(""%v does not exist in muiltiswarm.Schema"", scheme) } innerAddr, err := parser(groups[2]) if err != nil { return Addr{}, err } return Addr{ Scheme: scheme, Addr: innerAddr, }, nil }"%string.
Proof. reflexivity. Qed.

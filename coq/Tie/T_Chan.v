(* Tie obligations for the channel model (C05, C07): the source text of the
   Channel methods and of Session.readHandshake that Model/Channel.v mirrors. *)
From Coq Require Import String.
From P2PV Require Import Lib.Base Gen.Generated.

Lemma T_Chan_src_ch_deliver : src_ch_deliver =
  "{ now := time.Now() var appData []byte if err := c.doThenSend(func() ([]byte, error) { isHello := IsInitHello(x) var helloID [32]byte if isHello { helloID = blake2b.Sum256(x) } sessions := c.sessions order := [3]int{0, 1, 2} if msg, err := ParseMessage(x); err == nil && msg.GetNonce() < noncePostHandshake { order = [3]int{2, 1, 0} } for _, i := range order { se := sessions[i] s := se.Session if s == nil || (isHello && se.ID != helloID) { continue } readyBefore := s.IsReady() isApp, out, err := s.Deliver(out, x, now) if err != nil { continue } if !readyBefore && s.IsReady() { if i != 2 { panic(i) } if err := c.onReadySession(now); err != nil { return nil, err } } if isApp { if c.sessions[1].Session == s { c.lastReceived = now } appData = out return nil, nil } if len(out) == 0 { continue } return out, nil } if !IsInitHello(x) { return nil, errors.New(""message did not match a session"") } sid := blake2b.Sum256(x) for _, se := range c.sessions { if se.ID == sid { return nil, nil } } newS, err := c.newResp(x, c.remoteTimestamp) if err != nil { return nil, err } s := c.proposeNewSession(sid, newS) return s.Handshake(nil), nil }); err != nil { if c.isFatal(err) { return nil, err } return nil, nil } return appData, nil }"%string.
Proof. reflexivity. Qed.

Lemma T_Chan_src_ch_newresp : src_ch_newresp =
  "{ msg, err := ParseMessage(m0) if err != nil { return nil, err } initHello, err := msg.GetInitHello() if err != nil { return nil, err } helloTime, err := tai64.ParseN(initHello.TimestampTai64N) if err != nil { return nil, err } if helloTime.Before(minTime) { return nil, errors.New(""timestamp too early to consider session"") } pubKey, err := verifyAuthClaim(c.params.Registry, purposeTimestamp, initHello.KeyX509, initHello.TimestampTai64N, initHello.Sig) if err != nil { return nil, err } if err := c.checkKey(&pubKey.Key); err != nil { return nil, err } now := time.Now() s := NewSession(SessionConfig{ Registry: c.params.Registry, PrivateKey: c.params.PrivateKey, IsInit: false, Logger: c.log, Now: now, RejectAfter: c.params.RejectAfterTime, }) _, _, err = s.Deliver(nil, m0, now) if err != nil { return nil, err } return s, nil }"%string.
Proof. reflexivity. Qed.

Lemma T_Chan_src_ch_propose : src_ch_propose =
  "{ if s := c.sessions[2].Session; s != nil && !s.IsInit() && !newS.IsInit() { if !newS.InitHelloTime().After(s.InitHelloTime()) { c.log.Debug(""not replacing prospective session"") return s } c.log.Debug(""replacing prospective session"", zap.Any(""old"", s), zap.Any(""new"", newS)) ret = newS } else if s != nil && bytes.Compare(c.sessions[2].ID[:], sid[:]) < 0 { c.log.Debug(""not replacing prospective session"") return s } else if s != nil { c.log.Debug(""replacing prospective session"", zap.Any(""old"", s), zap.Any(""new"", newS)) ret = newS } else { c.log.Debug(""creating new session"", zap.Any(""new"", newS)) ret = newS } c.setNext(sessionEntry{ ID: sid, Session: newS, }) if ret.IsInit() { c.rekeyTimer.Reset(c.params.RekeyAfterTime) } return ret }"%string.
Proof. reflexivity. Qed.

Lemma T_Chan_src_ch_onready : src_ch_onready =
  "{ se := c.sessions[2] sessRemote := se.Session.RemoteKey() if !c.remoteKey.IsZero() && !x509.EqualPublicKeys(&c.remoteKey, &sessRemote) { c.setNext(sessionEntry{}) return errors.New(""session negotiated with wrong peer"") } if c.remoteKey.IsZero() && !c.params.AcceptKey(&sessRemote) { c.setNext(sessionEntry{}) return errors.New(""key rejected"") } c.remoteKey = se.Session.RemoteKey() c.lastReceived = now c.remoteTimestamp = se.Session.InitHelloTime() c.setCurrent(se) c.setNext(sessionEntry{}) if se.Session.isInit { c.rekeyTimer.Reset(c.params.RekeyAfterTime) } select { case <-c.ready: default: close(c.ready) } return nil }"%string.
Proof. reflexivity. Qed.

Lemma T_Chan_src_ch_checkkey : src_ch_checkkey =
  "{ if !c.remoteKey.IsZero() && x509.EqualPublicKeys(&c.remoteKey, pubKey) { return nil } else if c.remoteKey.IsZero() && c.params.AcceptKey(pubKey) { return nil } return errors.New(""key rejected"") }"%string.
Proof. reflexivity. Qed.

Lemma T_Chan_src_ch_expire : src_ch_expire =
  "{ if s := c.sessions[0].Session; s != nil && s.ExpiresAt().Before(now) { c.log.Debug(""expiring previous session"") c.sessions[0] = sessionEntry{} } if s := c.sessions[1].Session; s != nil && (s.ExpiresAt().Before(now) || now.Sub(c.lastReceived) > c.params.KeepAliveTimeout) { c.log.Debug(""expiring current session"") c.sessions[0] = c.sessions[1] c.sessions[1] = sessionEntry{} select { case <-c.ready: default: close(c.ready) } c.ready = make(chan struct{}) } if s := c.sessions[2].Session; s != nil && s.ExpiresAt().Before(now) { c.log.Debug(""expiring prospective session"") c.sessions[2] = sessionEntry{} } }"%string.
Proof. reflexivity. Qed.

Lemma T_Chan_src_ch_onrekey : src_ch_onrekey =
  "{ c.doThenSend(func() ([]byte, error) { now := time.Now() c.expireSessions(now) if c.sessions[2].Session == nil { id, s := c.newInit(now) c.proposeNewSession(id, s) c.handshakeTimer.Reset(0) } return nil, nil }) }"%string.
Proof. reflexivity. Qed.

Lemma T_Chan_src_ch_onhandshake : src_ch_onhandshake =
  "{ var toSend [][]byte func() { c.mu.Lock() defer c.mu.Unlock() c.expireSessions(time.Now()) for _, se := range c.sessions { if se.Session != nil && !se.Session.IsReady() { out := se.Session.Handshake(nil) if len(out) > 0 { toSend = append(toSend, out) } } } }() for _, data := range toSend { c.params.Send(data) } if len(toSend) > 0 { c.handshakeTimer.Reset(c.params.HandshakeBackoff) } }"%string.
Proof. reflexivity. Qed.

Lemma T_Chan_src_ch_getorinit : src_ch_getorinit =
  "{ for { c.mu.Lock() now := time.Now() c.expireSessions(now) if s := c.sessions[1].Session; s != nil { c.mu.Unlock() return s, nil } if s := c.sessions[2].Session; s == nil { c.rekeyTimer.Reset(0) } ready := c.ready c.mu.Unlock() select { case <-ctx.Done(): return nil, ctx.Err() case <-ready: c.mu.Lock() se := c.sessions[1] if se.Session != nil && se.Session.IsReady() { c.mu.Unlock() return se.Session, nil } c.mu.Unlock() } } }"%string.
Proof. reflexivity. Qed.

Lemma T_Chan_src_sess_readhandshake : src_sess_readhandshake =
  "{ nonce := msg.GetNonce() switch { case !s.isInit && s.hsIndex == 0 && nonce == nonceInitHello: res, err := readInitHello(s.registry, s.hs, &s.privateKey, msg) if err != nil { return err } s.remoteKey = res.RemoteKey s.initHelloTime = res.Timestamp s.msgCache[1] = res.RespHello s.cipherOut, s.cipherIn = res.CipherOut, res.CipherIn s.hsIndex = 1 case s.isInit && s.hsIndex == 0 && nonce == nonceRespHello: res, err := readRespHello(s.registry, s.hs, &s.privateKey, msg) if err != nil { return err } s.msgCache[2] = res.InitDone s.cipherOut, s.cipherIn = res.CipherOut, res.CipherIn s.remoteKey = res.RemoteKey s.hsIndex = 2 case !s.isInit && s.hsIndex == 1 && nonce == nonceInitDone: res, err := readInitDone(s.hs, &s.remoteKey, s.cipherIn, s.cipherOut, msg) if err != nil { return err } s.msgCache[3] = res.RespDone s.nonce = noncePostHandshake s.hsIndex = 3 case s.isInit && s.hsIndex == 2 && nonce == nonceRespDone: if err := readRespDone(s.cipherIn, msg); err != nil { return err } s.hsIndex = 4 s.nonce = noncePostHandshake case (s.isInit && nonce%2 == 1) || (!s.isInit && nonce%2 == 0): return nil default: return errors.New(""message not for this session"") } return nil }"%string.
Proof. reflexivity. Qed.

(* p2pke Timer (Model/Timer.v): the pending flag is cleared before the callback runs *)
Lemma T_Chan_src_ke_newtimer : src_ke_newtimer =
  "{ t := &Timer{} t.timer = time.AfterFunc(time.Hour, func() { t.runMu.Lock() defer t.runMu.Unlock() t.mu.Lock() if !t.isPending { t.mu.Unlock() return } t.isPending = false t.mu.Unlock() fn() }) t.Stop() return t }"%string.
Proof. reflexivity. Qed.

Lemma T_Chan_src_ke_timer_reset : src_ke_timer_reset =
  "{ t.mu.Lock() defer t.mu.Unlock() t.isPending = true t.timer.Reset(d) }"%string.
Proof. reflexivity. Qed.

Lemma T_Chan_src_ke_timer_stop : src_ke_timer_stop =
  "{ t.mu.Lock() defer t.mu.Unlock() t.isPending = false t.timer.Stop() }"%string.
Proof. reflexivity. Qed.

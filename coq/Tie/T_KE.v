(* Tie obligations shared by C02 / C03 / C06: P2PKE constants and the readiness
   guards of the source, as truth tables over (isInit, hsIndex in 0..255), equal the model's. *)
From Coq Require Import String.
From P2PV Require Import Lib.Base Model.Handshake Model.Session Gen.Generated.
Open Scope N_scope.

Definition guard_domain : list (bool * N) :=
  flat_map (fun i => map (fun h => (i, N.of_nat h)) (seq 0 256)) [false; true].

Definition probe (i : bool) (h : N) : ssess :=
  mkSS i 0 0 h 0 None None TNil TNil [] 0 0 [] None.

Lemma T_KE_can_send : map (fun q => xcan_send (probe (fst q) (snd q))) guard_domain = ke_can_send_table.
Proof. vm_compute. reflexivity. Qed.
Lemma T_KE_can_receive : map (fun q => xcan_receive (probe (fst q) (snd q))) guard_domain = ke_can_receive_table.
Proof. vm_compute. reflexivity. Qed.
Lemma T_KE_is_ready : map (fun q => xis_ready (probe (fst q) (snd q))) guard_domain = ke_is_ready_table.
Proof. vm_compute. reflexivity. Qed.
(* the abstract handshake machine of C06 uses the same guards *)
Lemma T_KE_c06_guards :
  map (fun q => can_send (mkS (fst q) (snd q) [] 0 0 [])) guard_domain = ke_can_send_table /\
  map (fun q => can_receive (mkS (fst q) (snd q) [] 0 0 [])) guard_domain = ke_can_receive_table.
Proof. vm_compute. split; reflexivity. Qed.

Lemma T_KE_constants :
  ke_max_nonce = MAX_NONCE /\ ke_nonce_post_handshake = NONCE_POST_HANDSHAKE /\
  ke_nonce_init_hello = 0 /\ ke_nonce_resp_hello = 1 /\ ke_nonce_init_done = 2 /\ ke_nonce_resp_done = 3.
Proof. repeat split; reflexivity. Qed.

(* the two signature purposes are different strings (P_TS <> P_CB in the model) *)
Lemma T_KE_purposes : ke_purpose_cb <> ke_purpose_ts /\ P_CB <> P_TS.
Proof. split; discriminate. Qed.

(* Tie obligations for p/kademlia/distance.go (Model/Distance.v is a transcription of these loops). *)
From Coq Require Import String.
From P2PV Require Import Lib.Base Gen.Generated.

Lemma T_Kad_src_kad_distancecmp : src_kad_distancecmp =
  "{ l := min(len(x), len(a), len(b)) for i := 0; i < l; i++ { xa := x[i] ^ a[i] xb := x[i] ^ b[i] if xa < xb { return -1 } else if xb < xa { return 1 } } if len(x) == l { return 0 } if len(a) < len(b) { return -1 } if len(b) < len(a) { return 1 } return 0 }"%string.
Proof. reflexivity. Qed.

Lemma T_Kad_src_kad_distancelz : src_kad_distancelz =
  "{ l := min(len(a), len(b)) for i := 0; i < l; i++ { lz := bits.LeadingZeros8(a[i] ^ b[i]) ret += lz if lz < 8 { break } } return ret }"%string.
Proof. reflexivity. Qed.

Lemma T_Kad_src_kad_leadingzeros : src_kad_leadingzeros =
  "{ total := 0 for i := range x { lz := bits.LeadingZeros8(x[i]) total += lz if lz < 8 { break } } return total }"%string.
Proof. reflexivity. Qed.

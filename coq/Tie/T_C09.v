(* Tie obligations for C09: header sizes, and the source text of every MTU()
   method the Stack model (Model/Stack.v layer_mtu) was written against. *)
From Coq Require Import String.
From P2PV Require Import Lib.Base Model.Frag Model.Mbapp Model.Stack Gen.Generated.

Lemma T_C09_frag_overhead : Z.of_N frag_overhead = OVERHEAD.
Proof. reflexivity. Qed.
Lemma T_C09_mb_header : Z.of_N mb_header_size = HEADER_SIZE.
Proof. reflexivity. Qed.
Lemma T_C09_ke_overhead : Z.of_N ke_overhead = KE_OVERHEAD.
Proof. reflexivity. Qed.
Lemma T_C09_ke_max : Z.of_N ke_max_message_len = KE_MAX_MESSAGE_LEN.
Proof. reflexivity. Qed.
Lemma T_C09_mux_hdrs : (mux_u16_hdr, mux_u32_hdr, mux_u64_hdr) = (2, 4, 8)%N.
Proof. reflexivity. Qed.

(* frag_mtu: the configured MTU capped at 255 parts' worth, never negative *)
Lemma T_C09_src_frag_mtu : src_frag_mtu =
  "{ if max := math.MaxUint8 * (s.Swarm.MTU() - Overhead); max < s.mtu { if max < 0 { return 0 } return max } return s.mtu }"%string.
Proof. reflexivity. Qed.
(* mb_mtu: the configured MTU capped at 65535 parts' worth, never negative *)
Lemma T_C09_src_mb_mtu : src_mb_mtu =
  "{ if max := math.MaxUint16 * (s.inner.MTU() - HeaderSize); max < s.mtu { if max < 0 { return 0 } return max } return s.mtu }"%string.
Proof. reflexivity. Qed.
(* LMux: inner MTU minus the channel header *)
Lemma T_C09_src_mux_mtu : src_mux_mtu =
  "{ return ms.m.swarm.MTU() - p2p.VecSize(ms.m.muxFunc(ms.cid, nil)) }"%string.
Proof. reflexivity. Qed.
(* LKe: min(inner - Overhead, MaxMessageLen) *)
Lemma T_C09_src_ke_mtu : src_ke_mtu =
  "{ n := s.inner.MTU() - Overhead return min(n, p2pke.MaxMessageLen) }"%string.
Proof. reflexivity. Qed.
(* LMin: the minimum over the transports *)
Lemma T_C09_src_multi_mtu : src_multi_mtu =
  "{ ret := math.MaxInt for _, s := range mt.swarms { if m := s.MTU(); m < ret { ret = m } } return ret }"%string.
Proof. reflexivity. Qed.

(* multiswarm checks a Tell and an Ask against the MTU it reports (the minimum over its transports) *)
Lemma T_C09_src_multi_ask : src_multi_ask =
  "{ t, ok := ma.swarms[dst.Scheme] if !ok { return 0, ErrTransportNotExist } for _, s := range ma.swarms { if p2p.VecSize(data) > s.MTU() { return 0, p2p.ErrMTUExceeded } } return t.Ask(ctx, resp, dst.Addr, data) }"%string.
Proof. reflexivity. Qed.

Lemma T_C09_src_multi_tell : src_multi_tell =
  "{ t, ok := mt.swarms[dst.Scheme] if !ok { return ErrTransportNotExist } if p2p.VecSize(data) > mt.MTU() { return p2p.ErrMTUExceeded } return t.Tell(ctx, dst.Addr, data) }"%string.
Proof. reflexivity. Qed.

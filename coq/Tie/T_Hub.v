(* Tie obligations for the hub transition system (C11, C12, C13): the source text of
   the TellHub / AskHub / Queue methods that Model/Hub.v abstracts. *)
From Coq Require Import String.
From P2PV Require Import Lib.Base Gen.Generated.

Lemma T_Hub_src_hub_tell_receive : src_hub_tell_receive =
  "{ if err := q.checkClosed(); err != nil { return err } select { case <-q.closed: return q.err case req := <-q.delivers: defer close(req.done) fn(req.msg) return nil default: select { case <-ctx.Done(): return ctx.Err() case <-q.closed: return q.err case req, ok := <-q.delivers: if !ok { return q.err } defer close(req.done) fn(req.msg) return nil } } }"%string.
Proof. reflexivity. Qed.

Lemma T_Hub_src_hub_tell_deliver : src_hub_tell_deliver =
  "{ if err := q.checkClosed(); err != nil { return err } req := &deliverReq[A]{ msg: m, done: make(chan struct{}), } select { case <-q.closed: return q.err case <-ctx.Done(): return ctx.Err() case q.delivers <- req: <-req.done return nil } }"%string.
Proof. reflexivity. Qed.

Lemma T_Hub_src_hub_tell_close : src_hub_tell_close =
  "{ if err == nil { err = p2p.ErrClosed } q.closeOnce.Do(func() { q.err = err close(q.closed) }) }"%string.
Proof. reflexivity. Qed.

Lemma T_Hub_src_hub_ask_serve : src_hub_ask_serve =
  "{ if err := q.checkClosed(); err != nil { return err } select { case <-ctx.Done(): return ctx.Err() case <-q.closed: return q.err case req := <-q.reqs: hctx, cf := context.WithCancel(ctx) stop := context.AfterFunc(req.ctx, cf) req.n = fn(hctx, req.resp, req.msg) stop() cf() close(req.done) return nil } }"%string.
Proof. reflexivity. Qed.

Lemma T_Hub_src_hub_ask_deliver : src_hub_ask_deliver =
  "{ if err := q.checkClosed(); err != nil { return 0, err } req := &serveReq[A]{ ctx: ctx, msg: msg, resp: respData, done: make(chan struct{}), } select { case <-ctx.Done(): return 0, ctx.Err() case <-q.closed: return 0, q.err case q.reqs <- req: <-req.done return req.n, nil } }"%string.
Proof. reflexivity. Qed.

Lemma T_Hub_src_hub_ask_close : src_hub_ask_close =
  "{ if err == nil { err = p2p.ErrClosed } q.closeOnce.Do(func() { q.err = err close(q.closed) }) }"%string.
Proof. reflexivity. Qed.

Lemma T_Hub_src_queue_receive : src_queue_receive =
  "{ select { case <-ctx.Done(): return ctx.Err() case <-q.closed: return p2p.ErrClosed case msg := <-q.queue: fn(msg) zeroMessage(&msg) q.freelist <- msg return nil } }"%string.
Proof. reflexivity. Qed.

Lemma T_Hub_src_queue_deliver : src_queue_deliver =
  "{ if len(m.Payload) > q.mtu { return false } select { case <-q.closed: return false case m2 := <-q.freelist: copyMessage(&m2, &m) select { case q.queue <- m2: return true default: panic(""queue is full, but freelist gave us a message"") } default: return false } }"%string.
Proof. reflexivity. Qed.

Lemma T_Hub_src_queue_close : src_queue_close =
  "{ q.closeOnce.Do(func() { close(q.closed) for i := 0; i < cap(q.freelist); i++ { select { case <-q.freelist: case <-q.queue: } } if len(q.queue) != 0 { panic(""there are still items in the queue after emptying freelist"") } }) return nil }"%string.
Proof. reflexivity. Qed.

(* the remaining Queue methods (Model/Queue.v, Model/QueueBuf.v) *)
Lemma T_Hub_src_queue_delivervec : src_queue_delivervec =
  "{ select { case <-q.closed: return false case m2 := <-q.freelist: m2.Src = src m2.Dst = dst m2.Payload = p2p.VecBytes(m2.Payload[:0], v) select { case q.queue <- m2: return true default: panic(""queue is full, but freelist gave us a message"") } default: return false } }"%string.
Proof. reflexivity. Qed.

Lemma T_Hub_src_queue_purge : src_queue_purge =
  "{ for len(q.queue) > 0 { m := <-q.queue zeroMessage[A](&m) q.freelist <- m count++ } return count }"%string.
Proof. reflexivity. Qed.

(* Tie obligations for C16: the patterns the model's hand-compiled matchers implement. *)
From Coq Require Import String.
From P2PV Require Import Gen.Generated.

(* Model.Addr.parse SSsh: class prefix up to the first '@', split at the last ':' followed by digits *)
Lemma T_C16_ssh_re : ssh_addr_re = "^([A-z0-9+\-_/:]+)@(.+):([0-9]+)$"%string.
Proof. reflexivity. Qed.
(* Model.Addr.split_scheme: shortest non-empty prefix before "://", non-empty rest, no newline *)
Lemma T_C16_multi_re : multi_addr_re = "^(.+?)://(.+)$"%string.
Proof. reflexivity. Qed.
(* Model.Addr.join_host_port / split_host_port *)
Lemma T_C16_udp : udp_string_net_calls = "JoinHostPort"%string /\ udp_unmarshal_net_calls = "SplitHostPort"%string.
Proof. split; reflexivity. Qed.

(* Tie obligations for wlswarm: the whitelist is applied to the SOURCE of what is received / served and to the DESTINATION of what is sent / asked. *)
From Coq Require Import String.
From P2PV Require Import Lib.Base Gen.Generated.

Lemma T_Wl_src_wl_receive : src_wl_receive =
  "{ for called := false; !called; { if err := s.SecureSwarm.Receive(ctx, func(m p2p.Message[A]) { if checkAddr[A, Pub](s, s.log, s.af, m.Src, false) { called = true fn(m) } }); err != nil { return err } } return nil }"%string.
Proof. reflexivity. Qed.

Lemma T_Wl_src_wl_tell : src_wl_tell =
  "{ if checkAddr[A, Pub](s, s.log, s.af, addr, true) { return s.SecureSwarm.Tell(ctx, addr, data) } return errors.New(""address unreachable"") }"%string.
Proof. reflexivity. Qed.

Lemma T_Wl_src_wl_serveask : src_wl_serveask =
  "{ var done bool for !done { err := s.SecureAskSwarm.ServeAsk(ctx, func(ctx context.Context, resp []byte, m p2p.Message[A]) int { if !checkAddr[A, Pub](s, s.log, s.af, m.Src, false) { return -1 } done = true return fn(ctx, resp, m) }) if err != nil { return err } } return nil }"%string.
Proof. reflexivity. Qed.

Lemma T_Wl_src_wl_ask : src_wl_ask =
  "{ if checkAddr[A, Pub](s, s.log, s.af, dst, true) { return s.SecureAskSwarm.Ask(ctx, resp, dst, data) } return 0, errors.New(""address unreachable"") }"%string.
Proof. reflexivity. Qed.

(* Tie obligations for the p2pkeswarm glue that Model/KeSwarm.v abstracts: a Tell goes only through a channel bound to the identity asked for; a delivered message carries the key the channel is bound to after Deliver. *)
From Coq Require Import String.
From P2PV Require Import Lib.Base Gen.Generated.

Lemma T_KeSwarm_src_kes_getfulladdr : src_kes_getfulladdr =
  "{ for { c := s.store.getOrCreate(s.keyForAddr(addr.Addr), func() *channelState { return &channelState{ CreatedAt: time.Now(), Channel: p2pke.NewChannel(p2pke.ChannelConfig{ PrivateKey: s.privateKey, AcceptKey: func(pubKey *x509.PublicKey) bool { id := s.config.fingerprinter(pubKey) return id == addr.ID }, Send: s.getSender(addr.Addr), }), } }) if err := c.Channel.WaitReady(ctx); err != nil { return nil, err } remoteKey := c.Channel.RemoteKey() remoteID := s.config.fingerprinter(&remoteKey) if remoteID == addr.ID { return c.Channel, nil } s.store.deleteMatching(s.keyForAddr(addr.Addr), func(v *channelState) bool { return v.Channel == c.Channel }) } }"%string.
Proof. reflexivity. Qed.

Lemma T_KeSwarm_src_kes_handlemessage : src_kes_handlemessage =
  "{ cs := s.store.getOrCreate(s.keyForAddr(msg.Src), func() *channelState { return &channelState{ CreatedAt: time.Now(), Channel: p2pke.NewChannel(p2pke.ChannelConfig{ PrivateKey: s.privateKey, AcceptKey: func(pubKey *x509.PublicKey) bool { id := s.config.fingerprinter(pubKey) return s.config.whitelist(Addr[T]{ID: id, Addr: msg.Src}) }, Send: s.getSender(msg.Src), }), } }) out, err := cs.Channel.Deliver(nil, msg.Payload) if err != nil { return err } if out != nil { remoteKey := cs.Channel.RemoteKey() srcID := s.config.fingerprinter(&remoteKey) if !s.config.whitelist(Addr[T]{ID: srcID, Addr: msg.Src}) { return nil } return s.hub.Deliver(ctx, p2p.Message[Addr[T]]{ Src: Addr[T]{ID: srcID, Addr: msg.Src}, Dst: Addr[T]{ID: s.localID, Addr: msg.Dst}, Payload: out, }) } return nil }"%string.
Proof. reflexivity. Qed.

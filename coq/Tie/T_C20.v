(* Tie obligations for C20: the candidate widths in the source are the model's. *)
From Coq Require Import String.
From P2PV Require Import Lib.Base Model.Dht Gen.Generated.

Lemma T_C20_find_width : Z.of_N dht_find_width = FIND_WIDTH.
Proof. reflexivity. Qed.
Lemma T_C20_get_width : Z.of_N dht_get_width = GET_WIDTH.
Proof. reflexivity. Qed.
(* DHTJoin iterates with width len(Initial), DHTPut with len(Initial)*3/2 (as the model's dht_join / dht_put) *)
Lemma T_C20_join_width : dht_join_width_expr = "len(params.Initial)"%string.
Proof. reflexivity. Qed.
Lemma T_C20_put_width : dht_put_width_expr = "len(params.Initial)*3/2"%string.
Proof. reflexivity. Qed.

(* Tie obligations for the life cycle of an mbapp ask (Model/AskTable.v: Pending / Completed / Aborted):
   an Ask whose context ends seals the ask before returning, so a late reply is not copied into the caller's buffer. *)
From Coq Require Import String.
From P2PV Require Import Lib.Base Gen.Generated.

Lemma T_Ask_src_mb_askawait : src_mb_askawait =
  "{ select { case <-ctx.Done(): a.abort() return ctx.Err() case <-a.done: return nil } }"%string.
Proof. reflexivity. Qed.

Lemma T_Ask_src_mb_askabort : src_mb_askabort =
  "{ a.once.Do(func() { close(a.done) }) }"%string.
Proof. reflexivity. Qed.

Lemma T_Ask_src_mb_askcomplete : src_mb_askcomplete =
  "{ a.once.Do(func() { a.errCode = errCode a.tooLong = len(resp) > len(a.respBuf) a.n = copy(a.respBuf, resp) close(a.done) }) }"%string.
Proof. reflexivity. Qed.

(* Tie obligations for C17 *)
From Coq Require Import String.
From P2PV Require Import Lib.Base Lib.Base64 Gen.Generated.
Open Scope N_scope.

(* the alphabet in the source is the one the theorems are about *)
Lemma T_C17_alphabet : sym_of_string base64_alphabet = alphabet.
Proof. vm_compute. reflexivity. Qed.
Lemma T_C17_peer_id_size : peer_id_size = PEER_ID_SIZE.
Proof. reflexivity. Qed.
(* both fingerprinters hash MarshalPublicKey(k) and nothing else *)
Lemma T_C17_fp_input : fp_input_p2pkeswarm = "MarshalPublicKey"%string /\ fp_input_quicswarm = "MarshalPublicKey"%string.
Proof. split; reflexivity. Qed.

(* Tie obligations for C15: facts regenerated from the source equal the model's. *)
From P2PV Require Import Lib.Base Model.Mux Gen.Generated.
Open Scope N_scope.

Lemma T_C15_u16_hdr : mux_u16_hdr = N.of_nat (kind_width KU16) /\ demux_u16_hdr = mux_u16_hdr.
Proof. split; reflexivity. Qed.
Lemma T_C15_u32_hdr : mux_u32_hdr = N.of_nat (kind_width KU32) /\ demux_u32_hdr = mux_u32_hdr.
Proof. split; reflexivity. Qed.
Lemma T_C15_u64_hdr : mux_u64_hdr = N.of_nat (kind_width KU64) /\ demux_u64_hdr = mux_u64_hdr.
Proof. split; reflexivity. Qed.

(* Tie obligations for C08: the source text of the guards in front of every index
   and slice of the fragmenting receivers, as the checked models (Model/Chk.v)
   were written against them. *)
From Coq Require Import String.
From P2PV Require Import Lib.Base Gen.Generated.

Lemma T_C08_src_frag_addpart : src_frag_addpart =
  "{ a.mu.Lock() defer a.mu.Unlock() if a.parts == nil { a.parts = make([][]byte, total) } if int(total) != len(a.parts) || int(part) >= len(a.parts) { return false } a.parts[int(part)] = append([]byte{}, data...) for i := range a.parts { if a.parts[i] == nil { return false } } return true }"%string.
Proof. reflexivity. Qed.

Lemma T_C08_src_frag_parse : src_frag_parse =
  "{ fields := [3]uint64{} var n int if err := func() error { for i := range fields { field, n2 := binary.Uvarint(x[n:]) if n2 < 1 { return errors.Errorf(""invalid message"") } fields[i] = field n += n2 } id = uint32(fields[0]) part = uint8(fields[1]) total = uint8(fields[2]) if part >= total { return errors.Errorf(""part >= total"") } return nil }(); err != nil { return 0, 0, 0, nil, err } return id, part, total, x[n:], nil }"%string.
Proof. reflexivity. Qed.

Lemma T_C08_src_mb_addpart : src_mb_addpart =
  "{ if partIndex >= c.partCount { return errors.Errorf(""partIndex %d >= partCount %d"", partIndex, c.partCount) } c.mu.Lock() defer c.mu.Unlock() if c.bitMap.get(partIndex) { return nil } var offset int if partIndex == (c.partCount - 1) { offset = len(c.buf) - len(data) } else { offset = len(data) * partIndex } if offset < 0 || offset >= len(c.buf) { return errors.Errorf(""invalid offset len=%d for buf of len=%d"", offset, len(c.buf)) } copy(c.buf[offset:], data) c.bitMap.set(partIndex, true) return nil }"%string.
Proof. reflexivity. Qed.

Lemma T_C08_src_mb_parse : src_mb_parse =
  "{ if len(data) < HeaderSize { return nil, nil, errors.Errorf(""too short to be header"") } return data[:HeaderSize], data[HeaderSize:], nil }"%string.
Proof. reflexivity. Qed.

Lemma T_C08_src_mb_bitget : src_mb_bitget =
  "{ if i >= bm.len() { panic(""bitMap: index out of bounds"") } return bm.buf[i/8]&mask(i) > 0 }"%string.
Proof. reflexivity. Qed.

Lemma T_C08_src_mb_bitset : src_mb_bitset =
  "{ if i >= bm.len() { panic(""bitMap: index out of bounds"") } if v { bm.buf[i/8] |= mask(i) } else { bm.buf[i/8] &= maskInverse(i) } }"%string.
Proof. reflexivity. Qed.

(* p2pke parseInitHello (Chk.parse_init_hello_chk) *)
Lemma T_C08_src_ke_parse_ih : src_ke_parse_ih =
  "{ if len(body) < 2 { return nil, errors.New(""InitHello missing length"") } l := int(binary.BigEndian.Uint16(body[len(body)-2:])) start := len(body) - 2 - l if start < 0 { return nil, errors.New(""InitHello has invalid length"") } data := body[start : len(body)-2] x := &InitHello{} if err := unmarshal(data, x); err != nil { return nil, err } return x, nil }"%string.
Proof. reflexivity. Qed.

(* Witnesses for the known findings of C17 (not obligations of the check). *)
From P2PV Require Import Lib.Base Lib.Varint Lib.Der.
Open Scope N_scope.

(* encoding/asn1 marshals arcs above MaxInt32 but refuses to parse them back:
   MarshalPublicKey emits an encoding ParsePublicKey rejects *)
Lemma spki_roundtrip_refuted_large_arc :
  exists oid data, encodable_oid oid = true /\ marshal_spki oid data <> [] /\
                   parse_spki (marshal_spki oid data) = None.
Proof. exists [2; 23; 2147483648], [1]. vm_compute. repeat split; discriminate. Qed.

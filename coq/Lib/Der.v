(* DER for exactly  SEQUENCE { SEQUENCE { OBJECT IDENTIFIER }, BIT STRING }
   (f/x509 MarshalPublicKey / ParsePublicKey through encoding/asn1, modelled). *)
From P2PV Require Import Lib.Base Lib.Varint.
Open Scope N_scope.

(* number of base-b digits (b = 2^k) needed for n, at least 1 *)
Definition digits_needed (k : N) (n : N) : nat := N.to_nat (N.max 1 ((N.size n + (k - 1)) / k)).

(* ---- definite lengths ---- *)
Definition der_len (n : N) : bytes :=
  if n <? 128 then [n]
  else let w := digits_needed 8 n in (128 + N.of_nat w) :: be_encode w n.

Definition tlv (tag : N) (content : bytes) : bytes := tag :: der_len (lenN content) ++ content.

(* strict TLV reader: tag, canonical definite length, content, rest *)
Definition read_tlv (b : bytes) : option (N * bytes * bytes) :=
  match b with
  | tag :: l0 :: r =>
      if l0 <? 128 then
        if lenN r <? l0 then None else Some (tag, takeN l0 r, dropN l0 r)
      else
        let w := l0 - 128 in
        if (w =? 0) || (lenN r <? w) then None
        else
          let n := be_decode (takeN w r) in
          let body := dropN w r in
          (* canonical: re-encoding the length gives the bytes that were read *)
          if negb (bytes_eqb (der_len n) (l0 :: takeN w r)) then None
          else if lenN body <? n then None
          else Some (tag, takeN n body, dropN n body)
  | _ => None
  end.

(* ---- base-128 integers of OBJECT IDENTIFIER arcs ---- *)
Fixpoint b128_digits (w : nat) (n : N) : bytes :=
  match w with
  | O => []
  | S w' => (n / 128 ^ N.of_nat w') mod 128 + (match w' with O => 0 | _ => 128 end) :: b128_digits w' n
  end.
Definition base128 (n : N) : bytes := b128_digits (digits_needed 7 n) n.

Definition MAX_ARC : N := 2147483647.   (* parseBase128Int rejects values above MaxInt32 *)

Fixpoint b128_read (b : bytes) (acc : N) (first : bool) : option (N * bytes) :=
  match b with
  | [] => None
  | x :: t =>
      if first && (x =? 128) then None                  (* not minimally encoded *)
      else if x <? 128 then
        let v := acc * 128 + x in if MAX_ARC <? v then None else Some (v, t)
      else b128_read t (acc * 128 + (x - 128)) false
  end.

Fixpoint b128_read_all (fuel : nat) (b : bytes) : option (list N) :=
  match b with
  | [] => Some []
  | _ => match fuel with
         | O => None
         | S f => match b128_read b 0 true with
                  | Some (v, r) => option_map (cons v) (b128_read_all f r)
                  | None => None
                  end
         end
  end.

(* ---- the key record ---- *)
Definition valid_oid (oid : list N) : bool :=
  match oid with
  | a0 :: a1 :: rest =>
      (a0 <=? 2) && ((2 <=? a0) || (a1 <? 40)) &&
      (40 * a0 + a1 <=? MAX_ARC) && forallb (fun a => a <=? MAX_ARC) rest
  | _ => false
  end.

Definition oid_content (oid : list N) : bytes :=
  match oid with
  | a0 :: a1 :: rest => base128 (40 * a0 + a1) ++ flat_map base128 rest
  | _ => []
  end.

Definition TAG_SEQ : N := 48.   (* 0x30 *)
Definition TAG_OID : N := 6.
Definition TAG_BITS : N := 3.

(* what encoding/asn1 agrees to marshal (it parses back only arcs <= MAX_ARC: valid_oid) *)
Definition encodable_oid (oid : list N) : bool :=
  match oid with
  | a0 :: a1 :: _ => (a0 <=? 2) && ((2 <=? a0) || (a1 <? 40))
  | _ => false
  end.

(* MarshalPublicKey(nil, k): empty when the OID cannot be encoded *)
Definition marshal_spki (oid : list N) (data : bytes) : bytes :=
  if encodable_oid oid then
    tlv TAG_SEQ (tlv TAG_SEQ (tlv TAG_OID (oid_content oid)) ++ tlv TAG_BITS (0 :: data))
  else [].

Definition parse_oid (c : bytes) : option (list N) :=
  match b128_read_all (S (length c)) c with
  | Some (v :: rest) =>
      Some (if v <? 80 then v / 40 :: v mod 40 :: rest else 2 :: v - 80 :: rest)
  | _ => None
  end.

(* strict parser: exactly the canonical form (no algorithm parameters, no unused bits) *)
Definition parse_spki (b : bytes) : option (list N * bytes) :=
  match read_tlv b with
  | Some (t0, c0, []) =>
      if negb (t0 =? TAG_SEQ) then None else
      match read_tlv c0 with
      | Some (t1, alg, r1) =>
          if negb (t1 =? TAG_SEQ) then None else
          match read_tlv alg, read_tlv r1 with
          | Some (t2, oidc, []), Some (t3, 0 :: data, []) =>
              if negb (t2 =? TAG_OID) || negb (t3 =? TAG_BITS) then None
              else match parse_oid oidc with
                   | Some oid => Some (oid, data)
                   | None => None
                   end
          | _, _ => None
          end
      | None => None
      end
  | _ => None
  end.

(* EqualPublicKeys *)
Fixpoint oid_eqb (a b : list N) : bool :=
  match a, b with
  | [], [] => true
  | x :: a', y :: b' => (x =? y) && oid_eqb a' b'
  | _, _ => false
  end.
Definition equal_keys (o1 : list N) (d1 : bytes) (o2 : list N) (d2 : bytes) : bool :=
  oid_eqb o1 o2 && bytes_eqb d1 d2.

(* encoding/base64 with a custom alphabet, no padding — as used by p2p.PeerID. *)
From P2PV Require Import Lib.Base.
Open Scope N_scope.

(* p2p.Base64Alphabet: "-0123456789" "A-Z" "_" "a-z" as ASCII codes *)
Definition alphabet : list N :=
  [45; 48; 49; 50; 51; 52; 53; 54; 55; 56; 57;
   65; 66; 67; 68; 69; 70; 71; 72; 73; 74; 75; 76; 77; 78; 79; 80; 81; 82; 83; 84; 85; 86; 87; 88; 89; 90;
   95;
   97; 98; 99; 100; 101; 102; 103; 104; 105; 106; 107; 108; 109; 110; 111; 112; 113; 114; 115; 116; 117;
   118; 119; 120; 121; 122].

Definition alpha (s : N) : N := nth (N.to_nat s) alphabet 0.

Fixpoint index_in (c : N) (l : list N) (i : N) : option N :=
  match l with
  | [] => None
  | h :: t => if h =? c then Some i else index_in c t (N.succ i)
  end.
Definition index_of (c : N) : option N := index_in c alphabet 0.

(* bytes -> 6-bit groups, most significant bits first, zero padded at the end *)
Fixpoint enc_sextets (b : bytes) : list N :=
  match b with
  | b0 :: b1 :: b2 :: t =>
      b0 / 4 :: (b0 mod 4) * 16 + b1 / 16 :: (b1 mod 16) * 4 + b2 / 64 :: b2 mod 64 :: enc_sextets t
  | [b0; b1] => [b0 / 4; (b0 mod 4) * 16 + b1 / 16; (b1 mod 16) * 4]
  | [b0] => [b0 / 4; (b0 mod 4) * 16]
  | [] => []
  end.

Definition encode (b : bytes) : bytes := map alpha (enc_sextets b).

(* strict decoding of 6-bit groups: trailing bits must be zero *)
Fixpoint dec_sextets (s : list N) : option bytes :=
  match s with
  | s0 :: s1 :: s2 :: s3 :: t =>
      match dec_sextets t with
      | Some r => Some (s0 * 4 + s1 / 16 :: (s1 mod 16) * 16 + s2 / 4 :: (s2 mod 4) * 64 + s3 :: r)
      | None => None
      end
  | [s0; s1; s2] => if s2 mod 4 =? 0 then Some [s0 * 4 + s1 / 16; (s1 mod 16) * 16 + s2 / 4] else None
  | [s0; s1] => if s1 mod 16 =? 0 then Some [s0 * 4 + s1 / 16] else None
  | [_] => None
  | [] => Some []
  end.

Fixpoint to_sextets (t : bytes) : option (list N) :=
  match t with
  | [] => Some []
  | c :: r => match index_of c, to_sextets r with
              | Some s, Some l => Some (s :: l)
              | _, _ => None
              end
  end.

Definition decode (t : bytes) : option bytes :=
  match to_sextets t with Some s => dec_sextets s | None => None end.

(* PeerID.MarshalText / UnmarshalText (repaired: strict, error and length checked) *)
Definition PEER_ID_SIZE : N := 32.
Definition PEER_ID_TEXT : N := 43.
Definition peerid_marshal (id : bytes) : bytes := encode id.
Definition peerid_unmarshal (t : bytes) : option bytes :=
  if lenN t =? PEER_ID_TEXT then
    match decode t with
    | Some b => if lenN b =? PEER_ID_SIZE then Some b else None
    | None => None
    end
  else None.

(* Base definitions shared by every model: bytes, the three-outcome result type,
   and the s-expression type used to exchange cases with the Go harness.
   No proofs here (models must stay runnable when proofs break). *)
From Coq Require Import String Ascii.
From Coq Require Export List NArith ZArith Bool.
Export ListNotations.
Open Scope N_scope.

Definition byte := N.
Definition bytes := list N.

Definition wf_byte (b : N) : bool := b <? 256.
Definition wf_bytes (x : bytes) : bool := forallb wf_byte x.

(* length of a list as N, tail recursive on the accumulator *)
Fixpoint lenN_acc {A} (l : list A) (acc : N) : N :=
  match l with [] => acc | _ :: t => lenN_acc t (N.succ acc) end.
Definition lenN {A} (l : list A) : N := lenN_acc l 0.

(* take/drop indexed by N, structurally recursive on the list *)
Fixpoint takeN {A} (n : N) (l : list A) : list A :=
  match l with
  | [] => []
  | x :: t => if n =? 0 then [] else x :: takeN (N.pred n) t
  end.
Fixpoint dropN {A} (n : N) (l : list A) : list A :=
  match l with
  | [] => []
  | x :: t => if n =? 0 then l else dropN (N.pred n) t
  end.

Fixpoint bytes_eqb (a b : bytes) : bool :=
  match a, b with
  | [], [] => true
  | x :: a', y :: b' => (x =? y) && bytes_eqb a' b'
  | _, _ => false
  end.

(* Outcome of a modelled Go function: normal value, Go error, or a Go panic
   (index/slice out of range, nil dereference, explicit panic) with its site. *)
Inductive result (A : Type) : Type :=
| Ok (v : A)
| Err (e : N)
| Panic (site : N).
Arguments Ok {A} v.
Arguments Err {A} e.
Arguments Panic {A} site.

Definition bind {A B} (r : result A) (f : A -> result B) : result B :=
  match r with Ok v => f v | Err e => Err e | Panic s => Panic s end.
Notation "'do' x <- r ; k" := (bind r (fun x => k))
  (at level 200, x pattern, r at level 100, k at level 200, right associativity).

Definition is_panic {A} (r : result A) : bool :=
  match r with Panic _ => true | _ => false end.

(* ---- s-expressions: the case/observation exchange format ---- *)
Inductive sx : Type :=
| SN (n : N)               (* decimal number *)
| SB (b : bytes)           (* xHEX byte string *)
| SS (s : list N)          (* bare symbol, as ASCII codes *)
| SL (l : list sx).        (* ( ... ) *)

Fixpoint sym_of_string (s : string) : list N :=
  match s with
  | EmptyString => []
  | String a t => N_of_ascii a :: sym_of_string t
  end.
Definition sym (s : string) : sx := SS (sym_of_string s).
Arguments sym s%string.
Definition is_sym (s : string) (x : sx) : bool :=
  match x with SS l => bytes_eqb l (sym_of_string s) | _ => false end.
Arguments is_sym s%string x.

Definition sx_bool (b : bool) : sx := SN (if b then 1 else 0).

Fixpoint sx_eqb (a b : sx) {struct a} : bool :=
  match a, b with
  | SN x, SN y => x =? y
  | SB x, SB y => bytes_eqb x y
  | SS x, SS y => bytes_eqb x y
  | SL x, SL y =>
      (fix go (l1 l2 : list sx) : bool :=
         match l1, l2 with
         | [], [] => true
         | p :: l1', q :: l2' => sx_eqb p q && go l1' l2'
         | _, _ => false
         end) x y
  | _, _ => false
  end.

Definition sx_result {A} (f : A -> sx) (r : result A) : sx :=
  match r with
  | Ok v => SL [sym "ok"; f v]
  | Err e => SL [sym "err"; SN e]
  | Panic s => SL [sym "panic"; SN s]
  end.

Definition sx_option {A} (f : A -> sx) (o : option A) : sx :=
  match o with Some v => SL [sym "some"; f v] | None => sym "none" end.

(* what a runner returns: the model's observables and the verdict of the
   property predicate evaluated on the IMPLEMENTATION's observables *)
Definition bad_case : sx := sym "bad-case".

(* encoding/binary: PutUvarint / Uvarint, PutVarint length, big-endian fixed ints.
   Bit operations are written arithmetically; the operands' bits are disjoint
   at every use so `|` is `+` and `<<` is `* 2^s` (checked by correspondence). *)
From P2PV Require Import Lib.Base.
Open Scope N_scope.

(* PutUvarint: emits x's 7-bit groups, little-endian, continuation bit 0x80 *)
Fixpoint put_uvarint_fuel (fuel : nat) (x : N) : bytes :=
  match fuel with
  | O => [x mod 128]   (* unreachable with adequate fuel *)
  | S f => if x <? 128 then [x] else (x mod 128 + 128) :: put_uvarint_fuel f (x / 128)
  end.
Definition put_uvarint (x : N) : bytes := put_uvarint_fuel (N.size_nat x) x.

(* Uvarint: returns (value, n) with Go's conventions:
   n = 0 : buffer too small ; n < 0 : overflow ; n > 0 : bytes read *)
Fixpoint uvarint_go (buf : bytes) (i x s : N) : N * Z :=
  match buf with
  | [] => (0, 0%Z)
  | b :: t =>
      if i =? 10 then (0, Z.opp (Z.of_N i + 1))
      else if b <? 128 then
        if (i =? 9) && (1 <? b) then (0, Z.opp (Z.of_N i + 1))
        else (x + b * 2 ^ s, (Z.of_N i + 1)%Z)
      else uvarint_go t (i + 1) (x + (b mod 128) * 2 ^ s) (s + 7)
  end.
Definition uvarint (buf : bytes) : N * Z := uvarint_go buf 0 0 0.

(* PutVarint(int64 x) for x >= 0 is PutUvarint(2x) (zig-zag) *)
Definition put_varint_nonneg (x : N) : bytes := put_uvarint (2 * x).

(* big-endian fixed width: w bytes, most significant first *)
Fixpoint be_encode (w : nat) (x : N) : bytes :=
  match w with
  | O => []
  | S w' => (x / 256 ^ N.of_nat w') mod 256 :: be_encode w' x
  end.
Fixpoint be_decode_acc (b : bytes) (acc : N) : N :=
  match b with [] => acc | x :: t => be_decode_acc t (acc * 256 + x) end.
Definition be_decode (b : bytes) : N := be_decode_acc b 0.

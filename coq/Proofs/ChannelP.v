(* C05: a channel only ever establishes sessions with one accepted key. *)
From P2PV Require Import Lib.Base Model.Handshake Model.Channel.
From Coq Require Import Lia ZifyBool ZifyN.
Open Scope N_scope.

Arguments write_handshake : simpl never.
Arguments with_hs : simpl never.
Arguments auth : simpl never.
Arguments validate_counter : simpl never.
Arguments upd : simpl never.

Section WithAccept.
Variable accept : N -> bool.

(* every session that has got as far as knowing keys knows its remote key *)
Definition swf (se : csess) : Prop :=
  (s_init (cs se) = false \/ 2 <= s_hs (cs se)) -> c_rkey se <> None.
Definition owf (x : option csess) : Prop := match x with Some se => swf se | None => True end.

(* an established session: ready, and with the channel's bound key *)
Definition est (ch : chan) (x : option csess) : Prop :=
  match x with
  | None => True
  | Some se => c_ready se = true /\ c_rkey se = ch_remote ch /\ ch_remote ch <> None
  end.

Definition onr (x : option csess) : Prop := match x with Some se => c_ready se = false | None => True end.

Definition Inv (ch : chan) : Prop :=
  est ch (ch_s0 ch) /\ est ch (ch_s1 ch) /\ (owf (ch_s2 ch) /\ onr (ch_s2 ch)) /\
  (forall k, ch_remote ch = Some k -> accept k = true).

Lemma inv_new key : Inv (new_chan key).
Proof. unfold Inv. cbn. repeat split; auto; discriminate. Qed.

(* ---- sessions ---- *)
Lemma ready_hs s : is_ready s = true -> 2 <= s_hs s.
Proof. unfold is_ready, can_send, can_receive. destruct (s_init s); lia. Qed.

Lemma ready_init_hs s : is_ready s = true -> s_init s = true -> 3 <= s_hs s.
Proof. unfold is_ready, can_send, can_receive. intros H Hi. rewrite Hi in H. lia. Qed.

Lemma est_swf ch se : est ch (Some se) -> swf se.
Proof. intros (_ & E & Hn) _. congruence. Qed.

Lemma write_handshake_reply (se' : csess) r :
  match write_handshake (cs se') with
  | Ok r0 => Ok (SOk se' false r0) | Err e => Err e | Panic p => Panic p end = Ok r ->
  exists o, r = SOk se' false o.
Proof. destruct (write_handshake (cs se')); intros H; inversion H; eauto. Qed.

Lemma validate_counter_fields s c s1 : validate_counter s c = Some s1 ->
  s_init s1 = s_init s /\ s_hs s1 = s_hs s.
Proof.
  unfold validate_counter. destruct (MAX_NONCE <=? c); [discriminate|].
  destruct (s_last s <? c); [intros [= <-]; auto|].
  destruct (WINDOW <? s_last s - c); [discriminate|]. destruct (memN c (s_seen s)); [discriminate|].
  intros [= <-]; auto.
Qed.

Definition keeps (se se' : csess) : Prop :=
  swf se' /\ c_tag se' = c_tag se /\ s_init (cs se') = s_init (cs se) /\
  (c_ready se = true -> c_ready se' = true /\ c_rkey se' = c_rkey se).

Lemma keeps_refl se : swf se -> keeps se se.
Proof. intros H. repeat split; auto. Qed.

Lemma ready8 (b : bool) : (if b then 3 <=? 8 else 2 <=? 8) && (2 <=? 8) = true.
Proof. destruct b; reflexivity. Qed.

(* what one Session.Deliver can do to a session *)
Lemma sess_deliver_spec se w se' a o :
  sess_deliver se w = Ok (SOk se' a o) -> swf se ->
  keeps se se' /\ (a = true -> c_ready se' = true /\ c_rkey se' = c_rkey se).
Proof.
  unfold sess_deliver. intros H Hwf.
  destruct (expired se || (MAX_NONCE <=? s_nonce (cs se))); [discriminate|].
  assert (Hreply : forall se2, keeps se se2 ->
     match write_handshake (cs se2) with
     | Ok r0 => Ok (SOk se2 false r0) | Err e => Err e | Panic p => Panic p end = Ok (SOk se' a o) ->
     keeps se se' /\ (a = true -> c_ready se' = true /\ c_rkey se' = c_rkey se)).
  { intros se2 K E. destruct (write_handshake (cs se2)); inversion E; subst. split; [exact K|discriminate]. }
  assert (Hhs : forall hs ci nn pr rk, 2 <= hs -> rk <> None -> is_ready (cs se) = false ->
     keeps se (mkCS (with_hs (cs se) hs ci nn) (c_tag se) pr rk (c_rank se) (c_ts se) (c_age se))).
  { intros hs ci nn pr rk Hh Hr Hnr. unfold keeps, swf, c_ready. cbn. repeat split; auto; congruence. }
  destruct (w_kind w) as [| | | |c] eqn:Ek; cbn [msg_nonce] in H.
  1-4: destruct (s_init (cs se)) eqn:Ei; cbn in H; rewrite ?Bool.andb_false_r, ?Bool.andb_true_r in H; cbn in H;
       try discriminate; try (apply (Hreply se (keeps_refl se Hwf) H)).
  - (* RespHello at an initiator *)
    destruct (N.eqb_spec (s_hs (cs se)) 0) as [E0|N0]; [|apply (Hreply se (keeps_refl se Hwf) H)].
    destruct (auth se w); [|discriminate].
    refine (Hreply _ _ H). apply Hhs; [lia|discriminate|].
    unfold is_ready, can_send. rewrite Ei, E0. reflexivity.
  - (* InitDone at a responder *)
    destruct (N.eqb_spec (s_hs (cs se)) 1) as [E1|N1]; [|apply (Hreply se (keeps_refl se Hwf) H)].
    destruct (auth se w); [|discriminate].
    refine (Hreply _ _ H). unfold upd. apply Hhs; [lia| |].
    + apply Hwf. now left.
    + unfold is_ready, can_receive. rewrite E1. apply Bool.andb_false_r.
  - (* RespDone at an initiator *)
    destruct (N.eqb_spec (s_hs (cs se)) 2) as [E2|N2]; [|apply (Hreply se (keeps_refl se Hwf) H)].
    destruct (auth se w); [|discriminate].
    apply (Hreply (upd se (with_hs (cs se) 4 None NONCE_POST_HANDSHAKE))); [|exact H]. unfold upd. apply Hhs; [lia| |].
    + apply Hwf. right. lia.
    + unfold is_ready, can_send. rewrite Ei, E2. reflexivity.
  - (* data *)
    destruct (c <? 4); [discriminate|].
    destruct (can_receive (cs se)) eqn:Ecr; [|discriminate]. cbn [negb] in H.
    destruct (auth se w && _); [|discriminate]. cbn [negb] in H.
    destruct (validate_counter (cs se) c) as [s1|] eqn:Ev.
    + destruct (validate_counter_fields _ _ _ Ev) as [Hi Hh].
      inversion H; subst. clear H.
      assert (Hrk : c_rkey se <> None).
      { apply Hwf. right. unfold can_receive in Ecr. lia. }
      unfold keeps, swf, c_ready, is_ready, can_send, can_receive, upd. cbn. rewrite Hi, ready8.
      repeat split; auto.
    + inversion H; subst. split; [apply keeps_refl; exact Hwf|discriminate].
Qed.

(* ---- the channel ---- *)
Lemma est_set_lr ch z x : est ch x -> est (set_lr ch z) x.
Proof. destruct x; auto. Qed.

Lemma inv_set_lr ch z : Inv ch -> Inv (set_lr ch z).
Proof. intros (A & B & (C & Cn) & D). unfold Inv. cbn. repeat split; auto. Qed.

Lemma inv_set2 ch x : Inv ch -> owf x -> onr x -> Inv (set_slot ch 2 x).
Proof. intros (A & B & C & D) Hx Hn. unfold Inv. cbn. repeat split; auto. Qed.

Definition Inv2 (ch : chan) : Prop :=      (* Inv except that the prospective session may just have become ready *)
  est ch (ch_s0 ch) /\ est ch (ch_s1 ch) /\ owf (ch_s2 ch) /\
  (forall k, ch_remote ch = Some k -> accept k = true).

Definition mono (ch ch' : chan) : Prop := forall k, ch_remote ch = Some k -> ch_remote ch' = Some k.

(* onReadySession on a ready, well-formed prospective session *)
Lemma on_ready_inv ch ch' b se : Inv2 ch -> ch_s2 ch = Some se -> c_ready se = true ->
  on_ready accept ch = (ch', b) ->
  Inv ch' /\ mono ch ch' /\
  (b = true -> ch_remote ch' = c_rkey se /\ ch_remote ch' <> None) /\
  (b = false -> ch_s0 ch' = ch_s0 ch /\ ch_s1 ch' = ch_s1 ch /\ ch_remote ch' = ch_remote ch).
Proof.
  intros (A & B & C & D) E2 Hr. unfold on_ready. cbn [slot]. rewrite E2.
  assert (Hrk : c_rkey se <> None).
  { rewrite E2 in C. apply C. right. now apply ready_hs. }
  destruct (c_rkey se) as [rk|] eqn:Erk; [|congruence].
  assert (Promote : forall ch1, ch1 = set_bound ch rk (c_ts se) -> accept rk = true ->
            (forall k, ch_remote ch = Some k -> k = rk) ->
            Inv (set_slot (set_current ch1 (Some se)) 2 None)).
  { intros ch1 -> Hacc Hsame. unfold set_current, set_bound, Inv, est. cbn.
    repeat split; auto; try discriminate.
    - destruct (ch_s1 ch) as [s1|]; [|exact I]. destruct B as (R1 & K1 & N1).
      repeat split; auto; try discriminate. rewrite K1. destruct (ch_remote ch) as [k|]; [|congruence].
      now rewrite (Hsame k eq_refl).
    - intros k [= <-]. exact Hacc. }
  assert (Refuse : Inv (set_slot ch 2 None)).
  { unfold Inv. cbn. repeat split; auto. }
  unfold mono.
  destruct (ch_remote ch) as [k|] eqn:Erem.
  - destruct (N.eqb_spec k rk) as [->|Hne]; intros [= <- <-].
    + split; [|split; [|split]].
      * apply (Promote _ eq_refl); [apply D; reflexivity|]. now intros k [= <-].
      * intros k [= <-]. reflexivity.
      * intros _. cbn. split; [reflexivity|discriminate].
      * discriminate.
    + split; [|split; [|split]].
      * exact Refuse.
      * intros k0 [= <-]. cbn. exact Erem.
      * discriminate.
      * intros _. cbn. auto.
  - destruct (accept rk) eqn:Eacc; intros [= <- <-].
    + split; [|split; [|split]].
      * apply (Promote _ eq_refl eq_refl). discriminate.
      * discriminate.
      * intros _. cbn. split; [reflexivity|discriminate].
      * discriminate.
    + split; [|split; [|split]].
      * exact Refuse.
      * discriminate.
      * discriminate.
      * intros _. cbn. auto.
Qed.

Lemma mono_refl ch : mono ch ch.
Proof. intros k H; exact H. Qed.
Lemma mono_trans a b c : mono a b -> mono b c -> mono a c.
Proof. intros H1 H2 k H. apply H2, H1, H. Qed.

(* a delivery result that hands application data up *)
Definition app_ok (ch' : chan) (r : dres) : Prop :=
  match r with DApp _ _ => exists k, ch_remote ch' = Some k /\ accept k = true | _ => True end.

Definition good (ch : chan) (x : result (chan * dres)) : Prop :=
  match x with
  | Ok (ch', r) => Inv ch' /\ mono ch ch' /\ app_ok ch' r
  | _ => True
  end.

Lemma find_tag_slot ch t j : find_tag ch t = Some j -> (j = 0 \/ j = 1 \/ j = 2)%nat.
Proof.
  unfold find_tag. destruct (has_tag t (slot ch 0)); [intros [= <-]; auto|].
  destruct (has_tag t (slot ch 1)); [intros [= <-]; auto|].
  destruct (has_tag t (slot ch 2)); [intros [= <-]; auto|discriminate].
Qed.

Lemma est_swf' ch se : est ch (Some se) -> swf se.
Proof. intros (_ & E & Hn) _. congruence. Qed.

Lemma inv_bound_accept ch : Inv ch -> ch_remote ch <> None -> exists k, ch_remote ch = Some k /\ accept k = true.
Proof. intros (_ & _ & _ & D) H. destruct (ch_remote ch) as [k|]; [|congruence]. exists k. auto. Qed.

(* the session loop of Channel.Deliver *)
Lemma loop_good snapshot w : forall ord ch, Inv ch ->
  match deliver_loop accept snapshot w ord ch with
  | inl x => good ch x
  | inr ch' => Inv ch' /\ mono ch ch'
  end.
Proof.
  induction ord as [|i t IH]; intros ch HI; cbn [deliver_loop]; [split; [exact HI|apply mono_refl]|].
  assert (Hskip : match deliver_loop accept snapshot w t ch with
                  | inl x => good ch x | inr ch' => Inv ch' /\ mono ch ch' end) by (apply IH; exact HI).
  destruct (nth i snapshot None) as [se0|]; [|exact Hskip].
  destruct (match w_kind w with MIH => negb (c_rank se0 =? w_rank w) | _ => false end); [exact Hskip|].
  destruct (find_tag ch (c_tag se0)) as [j|] eqn:Ef; [|exact Hskip].
  destruct (slot ch j) as [se|] eqn:Es; [|exact Hskip].
  destruct (sess_deliver se w) as [[|se' a o]| |] eqn:Ed; try exact I; [exact Hskip|].
  pose proof HI as (A & B & (C & Cn) & D).
  (* continuing with a later channel state *)
  assert (Hcont : forall ch2, Inv ch2 -> mono ch ch2 ->
            match deliver_loop accept snapshot w t ch2 with
            | inl x => good ch x | inr ch' => Inv ch' /\ mono ch ch' end).
  { intros ch2 I2 M2. specialize (IH ch2 I2). destruct (deliver_loop accept snapshot w t ch2) as [x|ch'].
    - destruct x as [[ch3 r]| |]; try exact I. destruct IH as (I3 & M3 & A3). split; [exact I3|split; [exact (mono_trans _ _ _ M2 M3)|exact A3]].
    - destruct IH as (I3 & M3). split; [exact I3|exact (mono_trans _ _ _ M2 M3)]. }
  destruct (find_tag_slot _ _ _ Ef) as [-> | [-> | ->]]; cbn [slot] in Es.
  - (* previous session: established *)
    rewrite Es in A. destruct (sess_deliver_spec _ _ _ _ _ Ed (est_swf' _ _ A)) as ((W' & _ & _ & K) & Happ).
    destruct A as (R & E & Nn). destruct (K R) as (R' & E').
    rewrite R, R'. cbn [negb andb].
    assert (I1 : Inv (set_slot ch 0 (Some se'))).
    { unfold Inv, est. cbn. repeat split; auto; congruence. }
    destruct a.
    + cbn [good app_ok]. destruct (has_tag (c_tag se') (slot (set_slot ch 0 (Some se')) 1)).
      * split; [apply inv_set_lr; exact I1|split; [intros k Hk; exact Hk|]].
        apply (inv_bound_accept _ (inv_set_lr _ 0%Z I1)). exact Nn.
      * split; [exact I1|split; [intros k Hk; exact Hk|]]. apply (inv_bound_accept _ I1). exact Nn.
    + destruct o as [k|]; [split; [exact I1|split; [intros k0 Hk; exact Hk|exact I]]|].
      apply Hcont; [exact I1|intros k Hk; exact Hk].
  - (* current session: established *)
    rewrite Es in B. destruct (sess_deliver_spec _ _ _ _ _ Ed (est_swf' _ _ B)) as ((W' & _ & _ & K) & Happ).
    destruct B as (R & E & Nn). destruct (K R) as (R' & E').
    rewrite R, R'. cbn [negb andb].
    assert (I1 : Inv (set_slot ch 1 (Some se'))).
    { unfold Inv, est. cbn. repeat split; auto; congruence. }
    destruct a.
    + cbn [good app_ok]. destruct (has_tag (c_tag se') (slot (set_slot ch 1 (Some se')) 1)).
      * split; [apply inv_set_lr; exact I1|split; [intros k Hk; exact Hk|]].
        apply (inv_bound_accept _ (inv_set_lr _ 0%Z I1)). exact Nn.
      * split; [exact I1|split; [intros k Hk; exact Hk|]]. apply (inv_bound_accept _ I1). exact Nn.
    + destruct o as [k|]; [split; [exact I1|split; [intros k0 Hk; exact Hk|exact I]]|].
      apply Hcont; [exact I1|intros k Hk; exact Hk].
  - (* prospective session *)
    rewrite Es in C, Cn. cbn in C, Cn.
    destruct (sess_deliver_spec _ _ _ _ _ Ed C) as ((W' & _ & _ & _) & Happ).
    rewrite Cn. cbn [negb andb].
    destruct (c_ready se') eqn:R'.
    + (* it became ready *)
      destruct (Nat.eqb i 2); cbn [negb andb]; [|exact I].
      assert (I1 : Inv2 (set_slot ch 2 (Some se'))) by (unfold Inv2; cbn; repeat split; auto).
      destruct (on_ready accept (set_slot ch 2 (Some se'))) as [ch2 okp] eqn:Eo.
      destruct (on_ready_inv _ _ _ se' I1 eq_refl R' Eo) as (I2 & M2 & Ht & Hf).
      assert (M2' : mono ch ch2) by exact M2.
      destruct okp; cbn [negb].
      * destruct (Ht eq_refl) as (Erem & Nn).
        destruct a.
        -- cbn [good app_ok]. destruct (has_tag (c_tag se') (slot ch2 1)).
           ++ split; [apply inv_set_lr; exact I2|split; [exact M2'|]]. apply (inv_bound_accept _ (inv_set_lr _ 0%Z I2)). exact Nn.
           ++ split; [exact I2|split; [exact M2'|]]. apply (inv_bound_accept _ I2 Nn).
        -- destruct o as [k|]; [split; [exact I2|split; [exact M2'|exact I]]|]. apply Hcont; assumption.
      * split; [exact I2|split; [exact M2'|exact I]].
    + (* still not ready: no application data can have come out of it *)
      assert (I1 : Inv (set_slot ch 2 (Some se'))) by (apply inv_set2; auto).
      destruct a; [destruct (Happ eq_refl) as [Hx _]; congruence|].
      destruct o as [k|]; [split; [exact I1|split; [intros k0 Hk; exact Hk|exact I]]|].
      apply Hcont; [exact I1|intros k Hk; exact Hk].
Qed.


(* Channel.Deliver as a whole *)
Theorem chan_deliver_good fresh ch w : Inv ch -> good ch (chan_deliver accept fresh ch w).
Proof.
  intros HI. unfold chan_deliver.
  pose proof (loop_good (ch_slots ch) w (deliver_order w) ch HI) as HL.
  destruct (deliver_loop accept (ch_slots ch) w (deliver_order w) ch) as [x|ch1]; [exact HL|].
  destruct HL as (I1 & M1).
  assert (Same : good ch (Ok (ch1, DNone)) /\ good ch (Ok (ch1, DErr))) by (split; (split; [exact I1|split; [exact M1|exact I]])).
  destruct (w_kind w); try apply Same.
  destruct (existsb _ _); [apply Same|]. destruct (w_ts w <? ch_rts ch1); [apply Same|].
  destruct (negb _); [apply Same|].
  set (R := mkCS _ fresh _ _ _ _ 0).
  assert (WR : owf (Some R) /\ onr (Some R)).
  { split; [intros _; discriminate|reflexivity]. }
  assert (I2 : Inv (set_slot ch1 2 (Some R))) by (apply inv_set2; [exact I1|apply WR|apply WR]).
  assert (G2 : forall k, good ch (Ok (set_slot ch1 2 (Some R), DSend k))).
  { intros k. split; [exact I2|split; [exact M1|exact I]]. }
  destruct (slot ch1 2) as [X|]; [|apply G2].
  destruct (if s_init (cs X) then c_rank X <? w_rank w else negb (c_ts X <? w_ts w)); [|apply G2].
  destruct (write_handshake (cs X)) as [[k|]| |]; try exact I; [split; [exact I1|split; [exact M1|exact I]]|apply Same].
Qed.

Lemma est_same_remote ch ch' x : ch_remote ch' = ch_remote ch -> est ch x -> est ch' x.
Proof. intros E. destruct x as [se|]; [|auto]. intros (A & B & C). repeat split; congruence. Qed.

Definition keepsr (f : chan -> chan) : Prop := forall ch, Inv ch -> Inv (f ch) /\ ch_remote (f ch) = ch_remote ch.

Lemma expire0_inv : keepsr expire0.
Proof.
  intros ch H. pose proof H as (A & B & (C & Cn) & D). unfold expire0.
  destruct (ch_s0 ch) as [se|]; [destruct (expired se)|]; try (split; [exact H|reflexivity]).
  split; [|reflexivity]. unfold Inv. cbn. repeat split; auto.
Qed.

Lemma expire1_inv : keepsr expire1.
Proof.
  intros ch H. pose proof H as (A & B & (C & Cn) & D). unfold expire1.
  destruct (ch_s1 ch) as [se|]; [destruct (expired se || _)|]; try (split; [exact H|reflexivity]).
  split; [|reflexivity]. unfold Inv. cbn. split; [exact B|]. repeat split; auto.
Qed.

Lemma expire2_inv : keepsr expire2.
Proof.
  intros ch H. pose proof H as (A & B & (C & Cn) & D). unfold expire2.
  destruct (ch_s2 ch) as [se|]; [destruct (expired se)|]; try (split; [exact H|reflexivity]).
  split; [|reflexivity]. unfold Inv. cbn. repeat split; auto.
Qed.

Lemma expire_inv ch : Inv ch -> Inv (expire ch) /\ ch_remote (expire ch) = ch_remote ch.
Proof.
  intros H. unfold expire.
  destruct (expire0_inv ch H) as (I0 & R0). destruct (expire1_inv _ I0) as (I1 & R1).
  destruct (expire2_inv _ I1) as (I2 & R2). split; [exact I2|congruence].
Qed.

Lemma handshake_inv ch : Inv ch -> Inv (fst (chan_handshake ch)) /\ ch_remote (fst (chan_handshake ch)) = ch_remote ch.
Proof. intros H. unfold chan_handshake. cbn [fst]. now apply expire_inv. Qed.

Lemma rekey_inv fresh rank ts ch : Inv ch ->
  Inv (fst (chan_rekey fresh rank ts ch)) /\ ch_remote (fst (chan_rekey fresh rank ts ch)) = ch_remote ch.
Proof.
  intros H. unfold chan_rekey. destruct (expire_inv ch H) as (I1 & R1).
  destruct (slot (expire ch) 2); [cbn [fst]; auto|].
  set (I := mkCS (new_sess true) fresh None None rank ts 0).
  assert (I2 : Inv (set_slot (expire ch) 2 (Some I))).
  { apply inv_set2; [exact I1| |reflexivity]. intros [Hx|Hx]; [discriminate|]. cbn in Hx. lia. }
  destruct (handshake_inv _ I2) as (I3 & R3). split; [exact I3|]. rewrite R3. exact R1.
Qed.

Lemma send_inv ch : Inv ch -> Inv (fst (chan_send ch)) /\ ch_remote (fst (chan_send ch)) = ch_remote ch.
Proof.
  intros H. unfold chan_send. destruct (expire_inv ch H) as (I1 & R1).
  destruct (slot (expire ch) 1) as [se|] eqn:E1; [|cbn [fst]; auto]. cbn [slot] in E1.
  destruct (expired se); [cbn [fst]; auto|].
  destruct (send (cs se)) as [[s' c]|] eqn:Es; [|cbn [fst]; auto].
  cbn [fst]. split; [|exact R1].
  destruct I1 as (A & B & C & D). rewrite E1 in B. destruct B as (Rd & K & Nn).
  unfold send in Es. destruct (MAX_NONCE <=? _); [discriminate|]. destruct (negb _); [discriminate|].
  injection Es as <- _. unfold Inv. cbn. repeat split; auto; apply C.
Qed.

Lemma age_inv d ch : Inv ch -> Inv (chan_age d ch) /\ ch_remote (chan_age d ch) = ch_remote ch.
Proof.
  intros (A & B & (C & Cn) & D). split; [|reflexivity]. unfold Inv, chan_age. cbn.
  assert (E : forall x, est ch x -> est ch (age_sess d x)) by (intros [se|]; auto).
  assert (W : forall x, owf x -> owf (age_sess d x)) by (intros [se|]; auto).
  assert (O : forall x, onr x -> onr (age_sess d x)) by (intros [se|]; auto).
  repeat split; auto.
  - destruct (ch_s0 ch); [|exact I]. apply (E (Some c) A).
  - destruct (ch_s1 ch); [|exact I]. apply (E (Some c) B).
Qed.

(* ---- every history of one channel ---- *)
Inductive cop :=
| ODeliver (fresh : N) (w : wire)
| ORekey (fresh rank ts : N)
| OHandshake
| OSend
| OAge (d : Z).

(* one operation; the delivery result, if the operation was a Deliver *)
Definition cstep (ch : chan) (o : cop) : result (chan * option dres) :=
  match o with
  | ODeliver fresh w => match chan_deliver accept fresh ch w with
                        | Ok (ch', r) => Ok (ch', Some r) | Err e => Err e | Panic p => Panic p end
  | ORekey fresh rank ts => Ok (fst (chan_rekey fresh rank ts ch), None)
  | OHandshake => Ok (fst (chan_handshake ch), None)
  | OSend => Ok (fst (chan_send ch), None)
  | OAge d => Ok (chan_age d ch, None)
  end.

Lemma cstep_good ch o ch' r : Inv ch -> cstep ch o = Ok (ch', r) ->
  Inv ch' /\ mono ch ch' /\ match r with Some r => app_ok ch' r | None => True end.
Proof.
  intros HI. destruct o as [fresh w|fresh rank ts| | |d]; cbn [cstep].
  - pose proof (chan_deliver_good fresh ch w HI) as G. destruct (chan_deliver accept fresh ch w) as [[c r0]| |]; try discriminate.
    intros [= <- <-]. exact G.
  - intros [= <- <-]. destruct (rekey_inv fresh rank ts ch HI) as (I1 & R). split; [exact I1|split; [|exact I]]. intros k Hk. rewrite <- Hk. exact R.
  - intros [= <- <-]. destruct (handshake_inv ch HI) as (I1 & R). split; [exact I1|split; [|exact I]]. intros k Hk. rewrite <- Hk. exact R.
  - intros [= <- <-]. destruct (send_inv ch HI) as (I1 & R). split; [exact I1|split; [|exact I]]. intros k Hk. rewrite <- Hk. exact R.
  - intros [= <- <-]. destruct (age_inv d ch HI) as (I1 & R). split; [exact I1|split; [|exact I]]. intros k Hk. rewrite <- Hk. exact R.
Qed.

(* the states and delivery results along a history *)
Fixpoint ctrace (ch : chan) (ops : list cop) : list (chan * option dres) :=
  match ops with
  | [] => []
  | o :: t => match cstep ch o with
              | Ok (ch', r) => (ch', r) :: ctrace ch' t
              | _ => []
              end
  end.

Theorem ctrace_good : forall ops ch, Inv ch ->
  forall ch' r, In (ch', r) (ctrace ch ops) ->
    Inv ch' /\ mono ch ch' /\ match r with Some r => app_ok ch' r | None => True end.
Proof.
  induction ops as [|o t IH]; intros ch HI ch' r Hin; [contradiction|]. cbn [ctrace] in Hin.
  destruct (cstep ch o) as [[c1 r1]| |] eqn:E; try contradiction.
  destruct (cstep_good _ _ _ _ HI E) as (I1 & M1 & A1).
  destruct Hin as [[= <- <-]|Hin]; [auto|].
  destruct (IH c1 I1 ch' r Hin) as (I2 & M2 & A2). split; [exact I2|split; [exact (mono_trans _ _ _ M1 M2)|exact A2]].
Qed.

Lemma C05_send_bound ch ch' w : Inv ch -> chan_send ch = (ch', Some w) ->
  exists se k, ch_s1 (expire ch) = Some se /\ c_rkey se = Some k /\ ch_remote ch = Some k /\ accept k = true.
Proof.
  intros HI. unfold chan_send.
  destruct (expire_inv ch HI) as ((A & B & C & D) & R).
  cbn [slot]. destruct (ch_s1 (expire ch)) as [se|] eqn:E1; [|discriminate].
  destruct B as (Rd & K & Nn). destruct (ch_remote (expire ch)) as [k|] eqn:Ek; [|congruence].
  intros _. exists se, k. repeat split; auto; congruence.
Qed.

End WithAccept.

From P2PV Require Import Lib.Base Lib.Varint Model.Mux Proofs.BaseP Proofs.VarintP.
From Coq Require Import Lia ZifyBool ZifyN ZifyNat.
Ltac Zify.zify_post_hook ::= Z.div_mod_to_equations.
Open Scope N_scope.

Lemma unframe_header k c r :
  valid_chan k c = true -> unframe k (header k c ++ r) = Ok (c, r).
Proof.
  intros Hv. destruct k, c as [s|n]; cbn [valid_chan] in Hv; try discriminate;
    cbn [unframe header kind_width].
  - (* string *)
    apply andb_prop in Hv as [_ Hlen].
    assert (Hl : lenN s < 2 ^ 64).
    { assert (2 ^ 63 < 2 ^ 64) by (apply N.pow_lt_mono_r; lia). lia. }
    rewrite <- app_assoc, (uvarint_put (lenN s) (s ++ r) Hl).
    pose proof (put_uvarint_len_pos (lenN s)) as Hp.
    destruct (Z.ltb_spec (Z.of_N (lenN (put_uvarint (lenN s)))) 1); [lia|].
    rewrite N2Z.id, dropN_app_len.
    destruct (N.ltb_spec (lenN (s ++ r)) (lenN s)) as [Hc|Hc]; [rewrite lenN_app in Hc; lia|].
    now rewrite takeN_app_len, dropN_app_len.
  - (* varint *)
    assert (Hl : n < 2 ^ 64) by lia.
    rewrite (uvarint_put n r Hl).
    pose proof (put_uvarint_len_pos n) as Hp.
    destruct (Z.ltb_spec (Z.of_N (lenN (put_uvarint n))) 1); [lia|].
    now rewrite N2Z.id, dropN_app_len.
  - (* u16 *)
    destruct (N.ltb_spec (lenN (be_encode 2 n ++ r)) (N.of_nat 2)) as [Hc|Hc];
      [rewrite lenN_app, be_encode_len in Hc; lia|].
    rewrite <- (be_encode_len 2 n), takeN_app_len, dropN_app_len, be_decode_encode; [reflexivity|].
    change (256 ^ N.of_nat 2) with (2 ^ 16). lia.
  - destruct (N.ltb_spec (lenN (be_encode 4 n ++ r)) (N.of_nat 4)) as [Hc|Hc];
      [rewrite lenN_app, be_encode_len in Hc; lia|].
    rewrite <- (be_encode_len 4 n), takeN_app_len, dropN_app_len, be_decode_encode; [reflexivity|].
    change (256 ^ N.of_nat 4) with (2 ^ 32). lia.
  - destruct (N.ltb_spec (lenN (be_encode 8 n ++ r)) (N.of_nat 8)) as [Hc|Hc];
      [rewrite lenN_app, be_encode_len in Hc; lia|].
    rewrite <- (be_encode_len 8 n), takeN_app_len, dropN_app_len, be_decode_encode; [reflexivity|].
    change (256 ^ N.of_nat 8) with (2 ^ 64). lia.
Qed.

Lemma roundtrip k c x : valid_chan k c = true -> unframe k (frame k c x) = Ok (c, x).
Proof. apply unframe_header. Qed.

Lemma prefix_free k c c' r r' :
  valid_chan k c = true -> valid_chan k c' = true ->
  header k c ++ r = header k c' ++ r' -> c = c' /\ r = r'.
Proof.
  intros Hc Hc' Heq.
  pose proof (unframe_header k c r Hc) as H1.
  pose proof (unframe_header k c' r' Hc') as H2.
  rewrite Heq in H1. rewrite H1 in H2. inversion H2; auto.
Qed.

Lemma injective k c c' x x' :
  valid_chan k c = true -> valid_chan k c' = true ->
  frame k c x = frame k c' x' -> c = c' /\ x = x'.
Proof. apply prefix_free. Qed.

Lemma chan_eqb_spec a b : reflect (a = b) (chan_eqb a b).
Proof.
  destruct a as [x|x], b as [y|y]; cbn [chan_eqb]; try (constructor; congruence).
  - destruct (bytes_eqb_spec x y); constructor; congruence.
  - destruct (N.eqb_spec x y); constructor; congruence.
Qed.

Lemma isolation k opened c x :
  valid_chan k c = true ->
  dispatch k opened (frame k c x) = if existsb (chan_eqb c) opened then Some (c, x) else None.
Proof. intros Hv. unfold dispatch. now rewrite roundtrip. Qed.

(* a frame made on c is never handed to a different channel c' *)
Lemma never_cross k opened c x c' y :
  valid_chan k c = true -> dispatch k opened (frame k c x) = Some (c', y) -> c' = c /\ y = x /\ In c opened.
Proof.
  intros Hv. rewrite isolation by exact Hv.
  destruct (existsb (chan_eqb c) opened) eqn:He; [|discriminate].
  intros H; inversion H; subst. repeat split.
  apply existsb_exists in He as [c0 [Hin Heq]].
  destruct (chan_eqb_spec c' c0); [subst; assumption|discriminate].
Qed.

Lemma unframe_no_panic k b site : unframe k b <> Panic site.
Proof.
  destruct k; cbn [unframe].
  - destruct (uvarint b) as [clen n]. destruct (n <? 1)%Z; [discriminate|].
    destruct (lenN (dropN (Z.to_N n) b) <? clen); discriminate.
  - destruct (uvarint b) as [c n]. destruct (n <? 1)%Z; discriminate.
  - destruct (lenN b <? N.of_nat (kind_width KU16)); discriminate.
  - destruct (lenN b <? N.of_nat (kind_width KU32)); discriminate.
  - destruct (lenN b <? N.of_nat (kind_width KU64)); discriminate.
Qed.

(* unframe splits its input: whatever it returns is a suffix, so nothing is invented *)
Lemma unframe_suffix k b c body : unframe k b = Ok (c, body) -> exists h, b = h ++ body.
Proof.
  destruct k; cbn [unframe].
  - destruct (uvarint b) as [clen n]. destruct (n <? 1)%Z; [discriminate|].
    destruct (lenN (dropN (Z.to_N n) b) <? clen); [discriminate|].
    intros H; inversion H; subst.
    exists (takeN (Z.to_N n) b ++ takeN clen (dropN (Z.to_N n) b)).
    now rewrite <- app_assoc, !takeN_dropN.
  - destruct (uvarint b) as [c0 n]. destruct (n <? 1)%Z; [discriminate|].
    intros H; inversion H; subst. exists (takeN (Z.to_N n) b). now rewrite takeN_dropN.
  - destruct (lenN b <? _); [discriminate|]. intros H; inversion H; subst.
    eexists; symmetry; apply takeN_dropN.
  - destruct (lenN b <? _); [discriminate|]. intros H; inversion H; subst.
    eexists; symmetry; apply takeN_dropN.
  - destruct (lenN b <? _); [discriminate|]. intros H; inversion H; subst.
    eexists; symmetry; apply takeN_dropN.
Qed.

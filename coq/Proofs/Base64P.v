From P2PV Require Import Lib.Base Lib.Base64 Model.Distance Proofs.BaseP Proofs.DistanceP.
From Coq Require Import Lia ZifyBool ZifyN ZifyNat.
Ltac Zify.zify_post_hook ::= Z.div_mod_to_equations.
Open Scope N_scope.

Arguments N.div : simpl never.
Arguments N.modulo : simpl never.
Arguments N.mul : simpl never.
Arguments N.add : simpl never.

(* induction three elements at a time *)
Lemma list_ind3 {A} (P : list A -> Prop) :
  P [] -> (forall a, P [a]) -> (forall a b, P [a; b]) ->
  (forall a b c t, P t -> P (a :: b :: c :: t)) -> forall l, P l.
Proof.
  intros H0 H1 H2 H3.
  assert (G : forall l, P l /\ (forall a, P (a :: l)) /\ (forall a b, P (a :: b :: l))).
  { induction l as [|x l (IH0 & IH1 & IH2)]; [auto|]. split; [apply IH1|]. split; [intros a; apply IH2|].
    intros a b. apply H3. exact IH0. }
  intros l. apply G.
Qed.

Lemma list_ind4 {A} (P : list A -> Prop) :
  P [] -> (forall a, P [a]) -> (forall a b, P [a; b]) -> (forall a b c, P [a; b; c]) ->
  (forall a b c d t, P t -> P (a :: b :: c :: d :: t)) -> forall l, P l.
Proof.
  intros H0 H1 H2 H3 H4.
  assert (G : forall l, P l /\ (forall a, P (a :: l)) /\ (forall a b, P (a :: b :: l)) /\ (forall a b c, P (a :: b :: c :: l))).
  { induction l as [|x l (IH0 & IH1 & IH2 & IH3)]; [auto|]. split; [apply IH1|]. split; [intros a; apply IH2|].
    split; [intros a b; apply IH3|]. intros a b c. apply H4. exact IH0. }
  intros l. apply G.
Qed.

(* ---------- the alphabet ---------- *)
Definition sextets64 : list N := map N.of_nat (seq 0 64).
Definition bytes256 : list N := map N.of_nat (seq 0 256).

Lemma in_sextets64 s : s < 64 -> In s sextets64.
Proof. intros H. apply in_map_iff. exists (N.to_nat s). split; [lia|]. apply in_seq. lia. Qed.
Lemma in_bytes256 c : c < 256 -> In c bytes256.
Proof. intros H. apply in_map_iff. exists (N.to_nat c). split; [lia|]. apply in_seq. lia. Qed.

Lemma index_alpha s : s < 64 -> index_of (alpha s) = Some s.
Proof.
  intros H. assert (G : forallb (fun s => match index_of (alpha s) with Some x => x =? s | None => false end) sextets64 = true)
    by (vm_compute; reflexivity).
  rewrite forallb_forall in G. specialize (G s (in_sextets64 s H)).
  destruct (index_of (alpha s)); [|discriminate]. f_equal. lia.
Qed.

Lemma alpha_index c s : c < 256 -> index_of c = Some s -> alpha s = c /\ s < 64.
Proof.
  intros H. assert (G : forallb (fun c => match index_of c with Some x => (alpha x =? c) && (x <? 64) | None => true end) bytes256 = true)
    by (vm_compute; reflexivity).
  rewrite forallb_forall in G. specialize (G c (in_bytes256 c H)). intros E. rewrite E in G. lia.
Qed.

Lemma index_of_lt256 c s : index_of c = Some s -> c < 256.
Proof.
  unfold index_of. assert (G : forall l i, index_in c l i = Some s -> In c l).
  { induction l as [|h t IH]; intros i; cbn [index_in]; [discriminate|].
    destruct (N.eqb_spec h c); [intros _; now left|intros Hx; right; eapply IH; eauto]. }
  intros Hx. apply G in Hx.
  assert (A : forallb (fun x => x <? 256) alphabet = true) by (vm_compute; reflexivity).
  rewrite forallb_forall in A. specialize (A c Hx). lia.
Qed.

Lemma alpha_lt256 s : alpha s < 256.
Proof.
  unfold alpha. destruct (Nat.lt_ge_cases (N.to_nat s) (length alphabet)) as [Hl|Hl].
  - assert (A : forallb (fun x => x <? 256) alphabet = true) by (vm_compute; reflexivity).
    rewrite forallb_forall in A. specialize (A _ (nth_In alphabet 0 Hl)). lia.
  - rewrite nth_overflow by assumption. lia.
Qed.

(* the alphabet is strictly increasing in ASCII *)
Lemma alpha_mono s t : s < 64 -> t < 64 -> (alpha s <? alpha t) = (s <? t).
Proof.
  intros Hs Ht.
  assert (G : forallb (fun s => forallb (fun t => Bool.eqb (alpha s <? alpha t) (s <? t)) sextets64) sextets64 = true)
    by (vm_compute; reflexivity).
  rewrite forallb_forall in G. specialize (G s (in_sextets64 s Hs)).
  rewrite forallb_forall in G. specialize (G t (in_sextets64 t Ht)).
  now apply Bool.eqb_prop in G.
Qed.

(* ---------- sextets ---------- *)
Definition all_lt (n : N) (l : list N) : Prop := Forall (fun x => x < n) l.

Lemma wf_all_lt b : wf_bytes b = true <-> all_lt 256 b.
Proof. apply wf_bytes_forall. Qed.

Lemma enc_sextets_lt64 b : all_lt 256 b -> all_lt 64 (enc_sextets b).
Proof.
  unfold all_lt. induction b as [| a | a b' | a b' c t IH] using list_ind3; intros H; cbn [enc_sextets].
  - constructor.
  - inversion H; subst. repeat constructor; lia.
  - inversion H as [|? ? Ha H']; subst. inversion H'; subst. repeat constructor; lia.
  - inversion H as [|? ? Ha H1]; subst. inversion H1 as [|? ? Hb H2]; subst. inversion H2 as [|? ? Hc H3]; subst.
    repeat constructor; try lia. now apply IH.
Qed.

Lemma dec_enc_sextets b : all_lt 256 b -> dec_sextets (enc_sextets b) = Some b.
Proof.
  unfold all_lt. induction b as [| a | a b' | a b' c t IH] using list_ind3; intros H.
  - reflexivity.
  - inversion H; subst. cbn [enc_sextets dec_sextets].
    destruct (N.eqb_spec (((a mod 4) * 16) mod 16) 0); [|lia]. f_equal. f_equal. lia.
  - inversion H as [|? ? Ha H']; subst. inversion H'; subst. cbn [enc_sextets dec_sextets].
    destruct (N.eqb_spec (((b' mod 16) * 4) mod 4) 0); [|lia]. f_equal. f_equal; [lia|]. f_equal. lia.
  - inversion H as [|? ? Ha H1]; subst. inversion H1 as [|? ? Hb H2]; subst. inversion H2 as [|? ? Hc H3]; subst.
    cbn [enc_sextets dec_sextets]. rewrite (IH H3). f_equal. f_equal; [lia|]. f_equal; [lia|]. f_equal. lia.
Qed.

Lemma to_sextets_encode s : all_lt 64 s -> to_sextets (map alpha s) = Some s.
Proof.
  unfold all_lt. induction s as [|x s IH]; intros H; cbn [map to_sextets]; [reflexivity|].
  inversion H; subst. rewrite index_alpha by assumption. now rewrite IH.
Qed.

Theorem decode_encode b : wf_bytes b = true -> decode (encode b) = Some b.
Proof.
  intros H. apply wf_all_lt in H. unfold decode, encode.
  rewrite to_sextets_encode by now apply enc_sextets_lt64. now apply dec_enc_sextets.
Qed.

(* decoding is canonical: whatever decodes is the encoding of its result *)
Lemma enc_dec_sextets s : all_lt 64 s -> forall b, dec_sextets s = Some b -> enc_sextets b = s /\ all_lt 256 b.
Proof.
  unfold all_lt. induction s as [| s0 | s0 s1 | s0 s1 s2 | s0 s1 s2 s3 t IH] using list_ind4; intros H b; cbn [dec_sextets].
  - intros E; injection E as <-. split; [reflexivity|constructor].
  - discriminate.
  - inversion H as [|? ? H0 H']; subst. inversion H' as [|? ? H1 _]; subst.
    destruct (N.eqb_spec (s1 mod 16) 0); [|discriminate]. intros E; injection E as <-.
    split; [cbn [enc_sextets]; f_equal; [lia|]; f_equal; lia|repeat constructor; lia].
  - inversion H as [|? ? H0 H']; subst. inversion H' as [|? ? H1 H'']; subst. inversion H'' as [|? ? H2 _]; subst.
    destruct (N.eqb_spec (s2 mod 4) 0); [|discriminate]. intros E; injection E as <-.
    split; [cbn [enc_sextets]; f_equal; [lia|]; f_equal; [lia|]; f_equal; lia|repeat constructor; lia].
  - inversion H as [|? ? H0 H']; subst. inversion H' as [|? ? H1 H'']; subst.
    inversion H'' as [|? ? H2 H3']; subst. inversion H3' as [|? ? H3 Ht]; subst.
    destruct (dec_sextets t) as [r|] eqn:Er; [|discriminate]. intros E; injection E as <-.
    destruct (IH Ht r eq_refl) as [Henc Hwf]. split.
    + cbn [enc_sextets]. rewrite Henc. f_equal; [lia|]. f_equal; [lia|]. f_equal; [lia|]. f_equal. lia.
    + repeat constructor; try lia. exact Hwf.
Qed.

Lemma to_sextets_inv t : forall s, to_sextets t = Some s -> map alpha s = t /\ all_lt 64 s.
Proof.
  induction t as [|c t IH]; intros s; cbn [to_sextets].
  - intros E; injection E as <-. split; [reflexivity|constructor].
  - destruct (index_of c) as [x|] eqn:Ex; [|discriminate].
    destruct (to_sextets t) as [l|]; [|discriminate]. intros E; injection E as <-.
    destruct (IH l eq_refl) as [Hm Hl]. pose proof (index_of_lt256 c x Ex) as Hc.
    destruct (alpha_index c x Hc Ex) as [Ha Hx]. split; [cbn [map]; now rewrite Ha, Hm|now constructor].
Qed.

Theorem decode_canonical t b : decode t = Some b -> t = encode b /\ wf_bytes b = true.
Proof.
  unfold decode, encode. destruct (to_sextets t) as [s|] eqn:Es; [|discriminate]. intros Hd.
  destruct (to_sextets_inv t s Es) as [Hm Hl]. destruct (enc_dec_sextets s Hl b Hd) as [He Hw].
  split; [now rewrite He|now apply wf_all_lt].
Qed.

(* ---------- order ---------- *)
Lemma lex_map_alpha a : forall b, all_lt 64 a -> all_lt 64 b ->
  lex_compare (map alpha a) (map alpha b) = lex_compare a b.
Proof.
  unfold all_lt. induction a as [|x a IH]; intros [|y b] Ha Hb; cbn [map lex_compare]; try reflexivity.
  inversion Ha; subst. inversion Hb; subst. rewrite !alpha_mono by assumption.
  destruct (x <? y); [reflexivity|]. destruct (y <? x); [reflexivity|]. now apply IH.
Qed.

Lemma lex_enc_sextets a : forall b, length a = length b -> all_lt 256 a -> all_lt 256 b ->
  lex_compare (enc_sextets a) (enc_sextets b) = lex_compare a b.
Proof.
  unfold all_lt. induction a as [| a0 | a0 a1 | a0 a1 a2 t IH] using list_ind3; intros b Hl Ha Hb.
  - destruct b; [reflexivity|discriminate].
  - destruct b as [|b0 [|? ?]]; try discriminate. inversion Ha; subst. inversion Hb; subst.
    cbn [enc_sextets lex_compare].
    destruct (N.ltb_spec (a0 / 4) (b0 / 4)), (N.ltb_spec (b0 / 4) (a0 / 4)),
             (N.ltb_spec (a0 mod 4 * 16) (b0 mod 4 * 16)), (N.ltb_spec (b0 mod 4 * 16) (a0 mod 4 * 16)),
             (N.ltb_spec a0 b0), (N.ltb_spec b0 a0); try reflexivity; lia.
  - destruct b as [|b0 [|b1 [|? ?]]]; try discriminate.
    inversion Ha as [|? ? Ha0 Ha']; subst. inversion Ha' as [|? ? Ha1 _]; subst.
    inversion Hb as [|? ? Hb0 Hb']; subst. inversion Hb' as [|? ? Hb1 _]; subst.
    cbn [enc_sextets lex_compare].
    destruct (N.ltb_spec a0 b0), (N.ltb_spec b0 a0), (N.ltb_spec a1 b1), (N.ltb_spec b1 a1);
    destruct (N.ltb_spec (a0 / 4) (b0 / 4)), (N.ltb_spec (b0 / 4) (a0 / 4)); try reflexivity; try lia;
    destruct (N.ltb_spec (a0 mod 4 * 16 + a1 / 16) (b0 mod 4 * 16 + b1 / 16)),
             (N.ltb_spec (b0 mod 4 * 16 + b1 / 16) (a0 mod 4 * 16 + a1 / 16)); try reflexivity; try lia;
    destruct (N.ltb_spec (a1 mod 16 * 4) (b1 mod 16 * 4)), (N.ltb_spec (b1 mod 16 * 4) (a1 mod 16 * 4)); try reflexivity; lia.
  - destruct b as [|b0 [|b1 [|b2 u]]]; try discriminate.
    inversion Ha as [|? ? Ha0 Ha']; subst. inversion Ha' as [|? ? Ha1 Ha'']; subst. inversion Ha'' as [|? ? Ha2 Hat]; subst.
    inversion Hb as [|? ? Hb0 Hb']; subst. inversion Hb' as [|? ? Hb1 Hb'']; subst. inversion Hb'' as [|? ? Hb2 Hbt]; subst.
    cbn [length] in Hl. assert (Hl' : length t = length u) by lia.
    specialize (IH u Hl' Hat Hbt).
    cbn [enc_sextets lex_compare]. rewrite IH.
    destruct (N.ltb_spec a0 b0), (N.ltb_spec b0 a0), (N.ltb_spec a1 b1), (N.ltb_spec b1 a1), (N.ltb_spec a2 b2), (N.ltb_spec b2 a2);
    destruct (N.ltb_spec (a0 / 4) (b0 / 4)), (N.ltb_spec (b0 / 4) (a0 / 4)); try reflexivity; try lia;
    destruct (N.ltb_spec (a0 mod 4 * 16 + a1 / 16) (b0 mod 4 * 16 + b1 / 16)),
             (N.ltb_spec (b0 mod 4 * 16 + b1 / 16) (a0 mod 4 * 16 + a1 / 16)); try reflexivity; try lia;
    destruct (N.ltb_spec (a1 mod 16 * 4 + a2 / 64) (b1 mod 16 * 4 + b2 / 64)),
             (N.ltb_spec (b1 mod 16 * 4 + b2 / 64) (a1 mod 16 * 4 + a2 / 64)); try reflexivity; try lia;
    destruct (N.ltb_spec (a2 mod 64) (b2 mod 64)), (N.ltb_spec (b2 mod 64) (a2 mod 64)); try reflexivity; lia.
Qed.

Theorem encode_order a b : length a = length b -> wf_bytes a = true -> wf_bytes b = true ->
  lex_compare (encode a) (encode b) = lex_compare a b.
Proof.
  intros Hl Ha Hb. apply wf_all_lt in Ha, Hb. unfold encode.
  rewrite lex_map_alpha by now apply enc_sextets_lt64. now apply lex_enc_sextets.
Qed.

(* ---------- PeerID text ---------- *)
Lemma enc_sextets_len b : lenN (enc_sextets b) = (lenN b * 4 + 2) / 3.
Proof.
  induction b as [| a | a b' | a b' c t IH] using list_ind3; cbn [enc_sextets]; rewrite ?lenN_cons, ?lenN_nil; try reflexivity.
  - rewrite IH. lia.
Qed.

Theorem peerid_roundtrip id : wf_bytes id = true -> lenN id = PEER_ID_SIZE ->
  peerid_unmarshal (peerid_marshal id) = Some id.
Proof.
  intros Hw Hl. unfold peerid_unmarshal, peerid_marshal.
  assert (Ht : lenN (encode id) = PEER_ID_TEXT).
  { unfold encode. rewrite lenN_spec, map_length, <- lenN_spec, enc_sextets_len, Hl. reflexivity. }
  rewrite Ht, N.eqb_refl, decode_encode by assumption. now rewrite Hl, N.eqb_refl.
Qed.

Theorem peerid_rejects t id : peerid_unmarshal t = Some id ->
  t = peerid_marshal id /\ wf_bytes id = true /\ lenN id = PEER_ID_SIZE.
Proof.
  unfold peerid_unmarshal, peerid_marshal. destruct (lenN t =? PEER_ID_TEXT); [|discriminate].
  destruct (decode t) as [b|] eqn:Ed; [|discriminate].
  destruct (N.eqb_spec (lenN b) PEER_ID_SIZE) as [Hl|]; [|discriminate]. intros E; injection E as <-.
  destruct (decode_canonical t b Ed) as [Ht Hw]. auto.
Qed.

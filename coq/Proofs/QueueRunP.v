(* The verdict the C12/C13 runner computes on a queue's results is sound for the
   model: results produced by Model.Queue always pass it.  (So an implementation
   that agrees with the model is never blamed by the predicate.) *)
From Coq Require Import String.
From P2PV Require Import Lib.Base Model.Queue Run.RunFrag Run.RunQueue Proofs.BaseP.
From Coq Require Import Lia.
Close Scope N_scope. Open Scope nat_scope.

Lemma qmsg_eqb_refl m : qmsg_eqb m m = true.
Proof. destruct m as [[s d] p]. unfold qmsg_eqb. now rewrite !N.eqb_refl, bytes_eqb_refl. Qed.

Theorem model_results_pass ops : forall q,
  length (q_items q) <= q_cap q -> (q_closed q = true -> q_items q = []) ->
  p_qseq (q_cap q) (q_mtu q) (q_closed q) (q_items q) ops (map sx_of_qout (snd (qrun q ops))) = ok.
Proof.
  induction ops as [|o t IH]; intros q Hc Hcl; [reflexivity|].
  cbn [qrun]. destruct (qstep q o) as [q1 r] eqn:E1. destruct (qrun q1 t) as [q2 rs] eqn:E2.
  cbn [snd map]. assert (R : rs = snd (qrun q1 t)) by now rewrite E2. subst rs.
  destruct o as [m| |taken| | |]; unfold qstep in E1.
  - destruct (Nat.ltb (q_mtu q) (length (q_payload m))) eqn:Lm.
    { inversion E1; subst. cbn [sx_of_qout p_qseq]. change (is_sym "acc" (sym "ref")) with false. change (is_sym "ref" (sym "ref")) with true. cbv iota.
      assert (G : Nat.leb (length (q_payload m)) (q_mtu q1) = false) by (apply Nat.leb_gt; now apply Nat.ltb_lt).
      rewrite G, andb_false_r. cbn [andb]. apply IH; auto. }
    pose proof (IH q Hc Hcl) as IHq.
    destruct (q_closed q) eqn:Ecl.
    { inversion E1; subst. cbn [sx_of_qout p_qseq]. change (is_sym "acc" (sym "ref")) with false. change (is_sym "ref" (sym "ref")) with true. cbv iota.
      cbn [negb andb]. rewrite ?Ecl in IHq. exact IHq. }
    destruct (Nat.ltb (length (q_items q)) (q_cap q)) eqn:Lc.
    + inversion E1; subst. cbn [sx_of_qout p_qseq]. change (is_sym "acc" (sym "acc")) with true. cbv iota. rewrite Lm.
      assert (G : Nat.leb (q_cap q) (length (q_items q)) = false) by (apply Nat.leb_gt; now apply Nat.ltb_lt). rewrite G.
      apply (IH (mkQ (q_cap q) (q_mtu q) (q_items q ++ [m]) false)); cbn; [|discriminate].
      rewrite app_length. cbn. apply Nat.ltb_lt in Lc. lia.
    + inversion E1; subst. cbn [sx_of_qout p_qseq]. change (is_sym "acc" (sym "ref")) with false. change (is_sym "ref" (sym "ref")) with true. cbv iota.
      rewrite Lc, andb_false_r. rewrite ?Ecl in IHq. exact IHq.
  - pose proof (IH q Hc Hcl) as IHq. destruct (q_items q) as [|m pt] eqn:Ei.
    + destruct (q_closed q) eqn:Ecl; inversion E1; subst; cbn [sx_of_qout p_qseq].
      * change (is_sym "closed" (sym "closed")) with true. cbv iota. rewrite ?Ecl, ?Ei in IHq. exact IHq.
      * change (is_sym "closed" (sym "block")) with false. change (is_sym "block" (sym "block")) with true. cbv iota.
        rewrite ?Ecl, ?Ei in IHq. exact IHq.
    + inversion E1; subst. destruct m as [[s d] p]. cbn [sx_of_qout p_qseq]. change (is_sym "got" (sym "got")) with true. cbn [negb].
      rewrite qmsg_eqb_refl. apply (IH (mkQ (q_cap q) (q_mtu q) pt (q_closed q))); cbn.
      * cbn in Hc. lia.
      * intros E. specialize (Hcl E). discriminate.
  - pose proof (IH q Hc Hcl) as IHq. destruct taken.
    + destruct (q_items q) as [|m pt] eqn:Ei.
      * inversion E1; subst. cbn [sx_of_qout p_qseq]. change (is_sym "ctx" (sym "ctx")) with true. cbv iota. rewrite ?Ei in IHq. exact IHq.
      * inversion E1; subst. destruct m as [[s d] p]. cbn [sx_of_qout p_qseq]. change (is_sym "got" (sym "got")) with true. cbn [negb].
        rewrite qmsg_eqb_refl. apply (IH (mkQ (q_cap q) (q_mtu q) pt (q_closed q))); cbn.
        -- cbn in Hc. lia.
        -- intros E. specialize (Hcl E). discriminate.
    + assert (E1' : (q, QCtxErr) = (q1, r)) by (destruct (q_items q); exact E1).
      inversion E1'; subst. cbn [sx_of_qout p_qseq]. change (is_sym "ctx" (sym "ctx")) with true. cbv iota. exact IHq.
  - inversion E1; subst. cbn [sx_of_qout p_qseq]. rewrite N.eqb_refl.
    apply (IH (mkQ (q_cap q) (q_mtu q) [] (q_closed q))); cbn; auto. lia.
  - inversion E1; subst. cbn [sx_of_qout p_qseq]. change (is_sym "close-stuck" (sym "done")) with false. cbv iota.
    apply (IH (mkQ (q_cap q) (q_mtu q) [] true)); cbn; auto. lia.
  - inversion E1; subst. cbn [sx_of_qout p_qseq]. rewrite N.eqb_refl. apply IH; auto.
Qed.

Print Assumptions model_results_pass.

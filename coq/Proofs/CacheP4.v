(* C18/C19: statements derived for reachable caches. *)
From P2PV Require Import Lib.Base Model.Distance Model.Cache Proofs.BaseP Proofs.DistanceP
  Proofs.CacheP Proofs.CacheP2 Proofs.CacheP3 Proofs.ForEachP.
From Coq Require Import Lia ZifyBool ZifyN ZifyNat Sorting.Permutation Sorting.Sorted.
Open Scope Z_scope.

Definition keys_fit (c : cache) : Prop :=
  forall e, In e (contents c) -> wf_bytes (e_key e) = true /\ (length (c_locus c) <= length (e_key e))%nat.

Lemma inv_placed c : inv c -> keys_fit c -> cache_placed c.
Proof.
  intros (_ & _ & _ & _ & Hbs) Hfit n b e Hn He.
  assert (Hin : In e (contents c)).
  { unfold contents. apply in_flat_map. exists b. split; [eapply nth_error_In; eauto|assumption]. }
  destruct (Hfit e Hin) as [Hw Hl]. split; [assumption|]. split; [assumption|].
  destruct (Hbs n b Hn) as (_ & Hidx & _). specialize (Hidx e He).
  rewrite bucket_index_lzx in Hidx by assumption. lia.
Qed.

Lemma no_silent_loss c o orc c' r k e :
  inv c -> step c o orc = Ok (c', r) -> lookup c k = Some e -> lookup c' k = None ->
  o = ODel k \/
  (exists now, o = OExpire now /\ is_expired now e = true /\ r = RExpire (filter (is_expired now) (contents c))
               /\ In e (filter (is_expired now) (contents c))) \/
  (exists ev added, r = RPut (Some ev) added /\ e_key ev = k).
Proof.
  intros Hi Hs Hl Hn. destruct (step_correct c o orc Hi) as [_ H].
  destruct (H c' r Hs) as (_ & _ & Hspec & Hres). specialize (Hspec k). rewrite Hn in Hspec.
  destruct o as [k0 v now exp|k0 v now exp|k0|now|k0|]; destruct r as [ev added|e0|es|v0|n0];
    cbn [spec_after] in Hspec; try contradiction; try congruence.
  - right; right. unfold update_spec in Hspec. destruct (c_max c =? 0); [congruence|].
    destruct ev as [ev|].
    + destruct (bytes_eqb_spec (e_key ev) k) as [Hk|Hk]; [eauto|].
      destruct (bytes_eqb k0 k); congruence.
    + destruct (bytes_eqb k0 k); congruence.
  - right; right. unfold update_spec in Hspec. destruct (c_max c =? 0); [congruence|].
    destruct ev as [ev|].
    + destruct (bytes_eqb_spec (e_key ev) k) as [Hk|Hk]; [eauto|].
      destruct (bytes_eqb k0 k); congruence.
    + destruct (bytes_eqb k0 k); congruence.
  - left. destruct (bytes_eqb_spec k0 k) as [->|]; [reflexivity|congruence].
  - right; left. exists now. rewrite Hl in Hspec. destruct (is_expired now e) eqn:Ex; [|congruence].
    subst es. repeat split; auto. apply filter_In. split; [|assumption].
    now destruct (lookup_in _ _ _ Hi Hl).
Qed.

(* C07, channel level: from ANY pair of channel states in which no handshake is
   in progress (whatever sessions they hold from the past), the handshake that a
   pending Send starts completes over a reliable in-order network in one round
   trip and a half, both sides end up with current sessions bound to each other's
   keys, and the data of the Send is handed up by the peer. *)
From P2PV Require Import Lib.Base Model.Handshake Model.Channel Proofs.ChannelP Proofs.ChannelNP.
From Coq Require Import Lia ZifyBool ZifyN.
Open Scope N_scope.

Arguments write_handshake : simpl never.
Arguments validate_counter : simpl never.

Definition otag_ne (x : option csess) (t : N) : Prop := match x with Some se => c_tag se <> t | None => True end.
Definition orank_ne (x : option csess) (r : N) : Prop := match x with Some se => c_rank se <> r | None => True end.

(* ---------- step 1: the responder side receives a new InitHello ---------- *)
Lemma step_ih accept fresh B ih :
  ch_s2 B = None -> w_kind ih = MIH ->
  orank_ne (ch_s0 B) (w_rank ih) -> orank_ne (ch_s1 B) (w_rank ih) ->
  w_ts ih <? ch_rts B = false -> check_key accept B (w_chan ih) = true ->
  let R := mkCS (with_hs (new_sess false) 1 (Some 1%nat) 0) fresh (Some (w_from ih)) (Some (w_chan ih)) (w_rank ih) (w_ts ih) 0 in
  chan_deliver accept fresh B ih = Ok (set_slot B 2 (Some R), DSend (emit B R MRH)).
Proof.
  intros E2 Ek R0 R1 Hts Hck R. destruct B as [k s0 s1 s2 r rts lr]. cbn in E2, R0, R1, Hts, Hck. subst s2.
  unfold chan_deliver, deliver_order. rewrite Ek. cbn [msg_nonce].
  change (0 <? NONCE_POST_HANDSHAKE) with true. cbn [deliver_loop ch_slots nth ch_s0 ch_s1 ch_s2]. rewrite ?Ek.
  destruct s1 as [b|], s0 as [a|]; cbn in R0, R1;
    repeat match goal with H : c_rank _ <> _ |- _ => apply N.eqb_neq in H end;
    rewrite ?R0, ?R1; cbn [negb existsb orb ch_rts ch_slots ch_s0 ch_s1 ch_s2];
    rewrite ?R0, ?R1; cbn [orb]; rewrite Hts; unfold check_key in *; cbn [ch_remote] in *; rewrite Hck; cbn [negb slot ch_s2]; reflexivity.
Qed.

(* ---------- one iteration of the delivery loop ---------- *)
Definition ih_filter (w : wire) (se0 : csess) : bool :=
  match w_kind w with MIH => negb (c_rank se0 =? w_rank w) | _ => false end.

Lemma loop_none accept snap w i t ch : nth i snap None = None ->
  deliver_loop accept snap w (i :: t) ch = deliver_loop accept snap w t ch.
Proof. intros E. cbn [deliver_loop]. now rewrite E. Qed.

Lemma loop_serr accept snap w i t ch se0 j se :
  nth i snap None = Some se0 -> ih_filter w se0 = false ->
  find_tag ch (c_tag se0) = Some j -> slot ch j = Some se -> sess_deliver se w = Ok SErr ->
  deliver_loop accept snap w (i :: t) ch = deliver_loop accept snap w t ch.
Proof. intros E F T S D. cbn [deliver_loop]. rewrite E. unfold ih_filter in F. rewrite F, T, S, D. reflexivity. Qed.

Lemma loop_same accept snap w i t ch se0 j se :
  nth i snap None = Some se0 -> ih_filter w se0 = false ->
  find_tag ch (c_tag se0) = Some j -> slot ch j = Some se -> sess_deliver se w = Ok (SOk se false None) ->
  deliver_loop accept snap w (i :: t) ch = deliver_loop accept snap w t ch.
Proof.
  intros E F T S D. cbn [deliver_loop]. rewrite E. unfold ih_filter in F. rewrite F, T, S, D.
  cbv zeta. destruct (c_ready se); cbn [negb andb].
  all: assert (Q : set_slot ch j (Some se) = ch) by
    (destruct ch; unfold slot in S; unfold set_slot; destruct j as [|[|[|j]]]; cbn in *; congruence).
  all: now rewrite Q.
Qed.

Lemma loop_send accept snap w i t ch se0 j se se' k :
  nth i snap None = Some se0 -> ih_filter w se0 = false ->
  find_tag ch (c_tag se0) = Some j -> slot ch j = Some se -> sess_deliver se w = Ok (SOk se' false (Some k)) ->
  negb (c_ready se) && c_ready se' = false ->
  deliver_loop accept snap w (i :: t) ch =
  inl (Ok (set_slot ch j (Some se'), DSend (emit (set_slot ch j (Some se')) se' k))).
Proof. intros E F T S D B. cbn [deliver_loop]. rewrite E. unfold ih_filter in F. rewrite F, T, S, D. cbv zeta. rewrite B. reflexivity. Qed.

Lemma loop_ready accept snap w t ch se0 j se se' is_app out ch2 :
  nth 2 snap None = Some se0 -> ih_filter w se0 = false ->
  find_tag ch (c_tag se0) = Some j -> slot ch j = Some se -> sess_deliver se w = Ok (SOk se' is_app out) ->
  negb (c_ready se) && c_ready se' = true -> on_ready accept (set_slot ch j (Some se')) = (ch2, true) ->
  deliver_loop accept snap w (2%nat :: t) ch =
  if is_app then inl (Ok (if has_tag (c_tag se') (slot ch2 1) then set_lr ch2 0 else ch2, DApp (w_from w) (msg_nonce (w_kind w))))
  else match out with None => deliver_loop accept snap w t ch2 | Some k => inl (Ok (ch2, DSend (emit ch2 se' k))) end.
Proof. intros E F T S D B O. cbn [deliver_loop]. rewrite E. unfold ih_filter in F. rewrite F, T, S, D. cbv zeta. rewrite B. cbn [Nat.eqb negb andb]. rewrite O. reflexivity. Qed.

Lemma loop_app accept snap w i t ch se0 j se se' out :
  nth i snap None = Some se0 -> ih_filter w se0 = false ->
  find_tag ch (c_tag se0) = Some j -> slot ch j = Some se -> sess_deliver se w = Ok (SOk se' true out) ->
  negb (c_ready se) && c_ready se' = false ->
  deliver_loop accept snap w (i :: t) ch =
  inl (Ok (if has_tag (c_tag se') (slot (set_slot ch j (Some se')) 1) then set_lr (set_slot ch j (Some se')) 0 else set_slot ch j (Some se'),
           DApp (w_from w) (msg_nonce (w_kind w)))).
Proof. intros E F T S D B. cbn [deliver_loop]. rewrite E. unfold ih_filter in F. rewrite F, T, S, D. cbv zeta. rewrite B. reflexivity. Qed.

(* ---------- step 2: the initiator reads the RespHello ---------- *)
Definition init0 (fA rank ts : N) : csess := mkCS (new_sess true) fA None None rank ts 0.
Definition init2 (fA fB kB rank ts : N) : csess :=
  mkCS (with_hs (new_sess true) 2 (Some 2%nat) 0) fA (Some fB) (Some kB) rank ts 0.

Lemma find_tag_2 ch t : otag_ne (ch_s0 ch) t -> otag_ne (ch_s1 ch) t -> has_tag t (ch_s2 ch) = true -> find_tag ch t = Some 2%nat.
Proof.
  intros H0 H1 H2. unfold find_tag. cbn [slot].
  assert (G : forall x, otag_ne x t -> has_tag t x = false).
  { intros [se|] H; [|reflexivity]. cbn in *. now apply N.eqb_neq. }
  now rewrite (G _ H0), (G _ H1), H2.
Qed.

Lemma step_rh accept fresh A fA fB kB rank ts rk' ts' :
  ch_s2 A = Some (init0 fA rank ts) -> otag_ne (ch_s0 A) fA -> otag_ne (ch_s1 A) fA ->
  let rh := mkW kB fB (Some fA) MRH rk' ts' in
  let I2 := init2 fA fB kB rank ts in
  chan_deliver accept fresh A rh = Ok (set_slot A 2 (Some I2), DSend (emit (set_slot A 2 (Some I2)) I2 MID)).
Proof.
  intros E2 T0 T1 rh I2. unfold chan_deliver, deliver_order. cbn [w_kind rh msg_nonce].
  change (1 <? NONCE_POST_HANDSHAKE) with true. cbv iota.
  rewrite (loop_send accept _ rh 2 _ A (init0 fA rank ts) 2 (init0 fA rank ts) I2 MID); [reflexivity|..].
  - cbn [ch_slots nth]. exact E2.
  - reflexivity.
  - apply find_tag_2; auto. rewrite E2. cbn. apply N.eqb_refl.
  - exact E2.
  - unfold sess_deliver, init0, rh. cbn. unfold auth, write_handshake. cbn. rewrite ?N.eqb_refl. reflexivity.
  - reflexivity.
Qed.

(* ---------- promotion ---------- *)
Definition bound_ok (accept : N -> bool) (ch : chan) (k : N) : Prop :=
  match ch_remote ch with Some r => r = k | None => accept k = true end.
Definition promoted (ch : chan) (se : csess) (k : N) : chan :=
  set_slot (set_current (set_bound ch k (c_ts se)) (Some se)) 2 None.

Lemma on_ready_ok accept ch se k :
  slot ch 2 = Some se -> c_rkey se = Some k -> bound_ok accept ch k ->
  on_ready accept ch = (promoted ch se k, true).
Proof.
  intros S K Bd. unfold on_ready, bound_ok in *. rewrite S, K.
  destruct (ch_remote ch) as [r|]; [subst r; rewrite N.eqb_refl|rewrite Bd]; reflexivity.
Qed.

(* ---------- step 3: the responder reads the InitDone ---------- *)
Definition resp1 (fB fA kA rank ts : N) : csess :=
  mkCS (with_hs (new_sess false) 1 (Some 1%nat) 0) fB (Some fA) (Some kA) rank ts 0.
Definition resp3 (fB fA kA rank ts : N) : csess :=
  mkCS (with_hs (with_hs (new_sess false) 1 (Some 1%nat) 0) 3 (Some 3%nat) NONCE_POST_HANDSHAKE) fB (Some fA) (Some kA) rank ts 0.

Lemma step_id accept fresh B fA fB kA rank ts rk' ts' :
  ch_s2 B = Some (resp1 fB fA kA rank ts) -> otag_ne (ch_s0 B) fB -> otag_ne (ch_s1 B) fB ->
  bound_ok accept B kA ->
  let id := mkW kA fA (Some fB) MID rk' ts' in
  let R3 := resp3 fB fA kA rank ts in
  let B3 := promoted (set_slot B 2 (Some R3)) R3 kA in
  chan_deliver accept fresh B id = Ok (B3, DSend (emit B3 R3 MRD)).
Proof.
  intros E2 T0 T1 Bd id R3 B3. unfold chan_deliver, deliver_order. cbn [w_kind id msg_nonce].
  change (2 <? NONCE_POST_HANDSHAKE) with true. cbv iota.
  rewrite (loop_ready accept _ id _ B (resp1 fB fA kA rank ts) 2 (resp1 fB fA kA rank ts) R3 false (Some MRD) B3); [reflexivity|..].
  - cbn [ch_slots nth]. exact E2.
  - reflexivity.
  - apply find_tag_2; auto. rewrite E2. cbn. apply N.eqb_refl.
  - exact E2.
  - unfold sess_deliver, resp1, id, auth, opt_eqb. cbn [w_to w_from c_tag c_peer w_kind]. rewrite ?N.eqb_refl. vm_compute. reflexivity.
  - reflexivity.
  - apply on_ready_ok; [reflexivity|reflexivity|]. unfold bound_ok in *. destruct B; exact Bd.
Qed.

(* ---------- established sessions ignore the other handshake's RespDone ---------- *)
Lemma est_noop x w : c_ready x = true -> w_kind w = MRD ->
  sess_deliver x w = Ok SErr \/ sess_deliver x w = Ok (SOk x false None).
Proof.
  intros R K. unfold sess_deliver. rewrite K. cbn [msg_nonce].
  destruct (expired x || (MAX_NONCE <=? s_nonce (cs x))); [now left|].
  unfold c_ready, is_ready, can_send, can_receive in R.
  destruct x as [s t p rk r ts ag]; destruct s as [ini hs ca no la se]. cbn [cs s_init s_hs] in *.
  change (3 =? 1) with false. change (3 =? 2) with false. change (3 mod 2 =? 1) with true. change (3 mod 2 =? 0) with false.
  rewrite !andb_false_r. cbn [andb orb negb].
  destruct ini; cbn [andb orb negb] in *.
  - assert (E : (hs =? 2) = false) by lia. rewrite E. right.
    unfold write_handshake. cbn [s_hs s_init andb negb].
    destruct (4 <=? hs) eqn:E4; [reflexivity|].
    assert (E0 : (hs =? 0) = false) by lia. rewrite E0, E. reflexivity.
  - now left.
Qed.

Definition oready (x : option csess) : Prop := match x with Some se => c_ready se = true | None => True end.

(* ---------- step 4: the initiator reads the RespDone ---------- *)
Definition init4 (fA fB kB rank ts : N) : csess :=
  mkCS (with_hs (with_hs (new_sess true) 2 (Some 2%nat) 0) 4 None NONCE_POST_HANDSHAKE) fA (Some fB) (Some kB) rank ts 0.

Lemma step_rd accept fresh A fA fB kB rank ts rk' ts' :
  ch_s2 A = Some (init2 fA fB kB rank ts) -> otag_ne (ch_s0 A) fA -> otag_ne (ch_s1 A) fA ->
  oready (ch_s0 A) -> oready (ch_s1 A) -> bound_ok accept A kB ->
  let rd := mkW kB fB (Some fA) MRD rk' ts' in
  let I4 := init4 fA fB kB rank ts in
  let A4 := promoted (set_slot A 2 (Some I4)) I4 kB in
  chan_deliver accept fresh A rd = Ok (A4, DErr).
Proof.
  intros E2 T0 T1 R0 R1 Bd rd I4 A4. unfold chan_deliver, deliver_order. cbn [w_kind rd msg_nonce].
  change (3 <? NONCE_POST_HANDSHAKE) with true. cbv iota.
  rewrite (loop_ready accept _ rd _ A (init2 fA fB kB rank ts) 2 (init2 fA fB kB rank ts) I4 false None A4).
  2:{ cbn [ch_slots nth]. exact E2. }
  2:{ reflexivity. }
  2:{ apply find_tag_2; auto. rewrite E2. cbn. apply N.eqb_refl. }
  2:{ exact E2. }
  2:{ unfold sess_deliver, init2, rd, auth, opt_eqb. cbn [w_to w_from c_tag c_peer w_kind]. rewrite ?N.eqb_refl. vm_compute. reflexivity. }
  2:{ reflexivity. }
  2:{ apply on_ready_ok; [reflexivity|reflexivity|]. unfold bound_ok in *. destruct A; exact Bd. }
  cbv iota.
  assert (S0 : slot A4 0 = ch_s1 A) by (destruct A; reflexivity).
  assert (S1 : slot A4 1 = Some I4) by (destruct A; reflexivity).
  assert (S2 : slot A4 2 = None) by (destruct A; reflexivity).
  (* the former current session, now the previous one *)
  assert (L1 : deliver_loop accept (ch_slots A) rd [1%nat; 0%nat] A4 = deliver_loop accept (ch_slots A) rd [0%nat] A4).
  { destruct (ch_s1 A) as [b|] eqn:Eb.
    - assert (Fb : find_tag A4 (c_tag b) = Some 0%nat) by (unfold find_tag; rewrite S0; cbn; now rewrite N.eqb_refl).
      destruct (est_noop b rd R1 eq_refl) as [D|D].
      + eapply loop_serr; eauto; cbn [ch_slots nth]; exact Eb.
      + eapply loop_same; eauto; cbn [ch_slots nth]; exact Eb.
    - apply loop_none. cbn [ch_slots nth]. exact Eb. }
  rewrite L1.
  assert (L0 : deliver_loop accept (ch_slots A) rd [0%nat] A4 = inr A4).
  { destruct (ch_s0 A) as [a|] eqn:Ea.
    - cbn in T0. unfold deliver_loop. cbn [ch_slots nth]. rewrite Ea. cbn [w_kind rd].
      unfold find_tag. rewrite S0, S1, S2. cbn [has_tag]. change (c_tag I4) with fA.
      assert (Efa : (fA =? c_tag a) = false) by (apply N.eqb_neq; congruence). rewrite Efa.
      destruct (ch_s1 A) as [b|] eqn:Eb; cbn [has_tag]; [|reflexivity].
      destruct (c_tag b =? c_tag a) eqn:Et; [|reflexivity].
      rewrite S0. destruct (est_noop b rd R1 eq_refl) as [D|D]; rewrite D; [reflexivity|].
      cbv zeta. destruct (c_ready b); cbn [negb andb].
      all: assert (Q : set_slot A4 0 (Some b) = A4) by (destruct A; cbn in Eb; subst; reflexivity).
      all: now rewrite Q.
    - rewrite loop_none by (cbn [ch_slots nth]; exact Ea). reflexivity. }
  rewrite L0. reflexivity.
Qed.

(* ---------- step 5: the pending Send goes out through the new session ---------- *)
Lemma expire_s1 ch se : ch_s1 ch = Some se -> expired se = false -> (KEEPALIVE <? ch_lr ch)%Z = false ->
  ch_s1 (expire ch) = Some se /\ ch_key (expire ch) = ch_key ch.
Proof.
  intros E1 Ex El. destruct ch as [k s0 s1 s2 r rts lr]. cbn in E1, El. subst s1.
  unfold expire.
  assert (A0 : exists s0', expire0 (mkCh k s0 (Some se) s2 r rts lr) = mkCh k s0' (Some se) s2 r rts lr).
  { unfold expire0. cbn [ch_s0]. destruct s0 as [a|]; [destruct (expired a)|]; cbn; eauto. }
  destruct A0 as [s0' ->].
  assert (A1 : expire1 (mkCh k s0' (Some se) s2 r rts lr) = mkCh k s0' (Some se) s2 r rts lr).
  { unfold expire1. cbn [ch_s1 ch_lr]. now rewrite Ex, El. }
  rewrite A1. unfold expire2. cbn [ch_s2]. destruct s2 as [c|]; [destruct (expired c)|]; cbn; auto.
Qed.

Lemma step_send ch fA fB kB rank ts :
  ch_s1 ch = Some (init4 fA fB kB rank ts) -> ch_lr ch = 0%Z ->
  exists ch', chan_send ch = (ch', Some (mkW (ch_key ch) fA (Some fB) (MData NONCE_POST_HANDSHAKE) rank ts)).
Proof.
  intros E1 Elr. destruct (expire_s1 ch _ E1 eq_refl) as [S1 K]; [now rewrite Elr|].
  unfold chan_send. cbn [slot]. rewrite S1.
  change (expired (init4 fA fB kB rank ts)) with false. cbv iota.
  change (send (cs (init4 fA fB kB rank ts))) with
    (Some (mkS true 4 [true; false; true; false] (NONCE_POST_HANDSHAKE + 1) 0 [], NONCE_POST_HANDSHAKE)).
  cbv iota beta. unfold emit. rewrite K. eexists. reflexivity.
Qed.

(* ---------- step 6: the responder hands the data up ---------- *)
Lemma data_wrong_tag x w t c : w_to w = Some t -> c_tag x <> t -> w_kind w = MData c -> sess_deliver x w = Ok SErr.
Proof.
  intros T Ne K. unfold sess_deliver. rewrite K.
  destruct (expired x || _); [reflexivity|]. destruct (c <? 4); [reflexivity|].
  destruct (negb (can_receive (cs x))); [reflexivity|].
  unfold auth. rewrite T. cbn [opt_eqb]. assert (E : (t =? c_tag x) = false) by (apply N.eqb_neq; congruence).
  rewrite E. reflexivity.
Qed.

Definition resp3d (fB fA kA rank ts : N) : csess :=
  mkCS (mkS false 8 [false; true; false; true] NONCE_POST_HANDSHAKE NONCE_POST_HANDSHAKE [NONCE_POST_HANDSHAKE]) fB (Some fA) (Some kA) rank ts 0.

Lemma step_data accept fresh B fA fB kA rank ts rk' ts' :
  ch_s1 B = Some (resp3 fB fA kA rank ts) -> otag_ne (ch_s0 B) fB ->
  let data := mkW kA fA (Some fB) (MData NONCE_POST_HANDSHAKE) rk' ts' in
  chan_deliver accept fresh B data =
  Ok (set_lr (set_slot B 1 (Some (resp3d fB fA kA rank ts))) 0, DApp fA NONCE_POST_HANDSHAKE).
Proof.
  intros E1 T0 data. unfold chan_deliver, deliver_order. cbn [w_kind data msg_nonce].
  change (NONCE_POST_HANDSHAKE <? NONCE_POST_HANDSHAKE) with false. cbv iota.
  assert (L0 : deliver_loop accept (ch_slots B) data [0%nat; 1%nat; 2%nat] B = deliver_loop accept (ch_slots B) data [1%nat; 2%nat] B).
  { destruct (ch_s0 B) as [b|] eqn:Eb.
    - cbn in T0. eapply (loop_serr _ _ _ _ _ _ b 0 b); eauto.
      + unfold find_tag. cbn [slot]. rewrite Eb. cbn. now rewrite N.eqb_refl.
      + eapply (data_wrong_tag b data fB NONCE_POST_HANDSHAKE); auto.
    - apply loop_none. exact Eb. }
  rewrite L0.
  rewrite (loop_app accept _ data 1 _ B (resp3 fB fA kA rank ts) 1 (resp3 fB fA kA rank ts) (resp3d fB fA kA rank ts) None).
  - cbn [slot set_slot ch_s1 has_tag resp3d c_tag]. rewrite N.eqb_refl. reflexivity.
  - exact E1.
  - reflexivity.
  - unfold find_tag. cbn [slot]. rewrite E1.
    assert (G : has_tag fB (ch_s0 B) = false) by (destruct (ch_s0 B); [cbn in *; now apply N.eqb_neq|reflexivity]).
    change (c_tag (resp3 fB fA kA rank ts)) with fB. rewrite G. cbn. now rewrite N.eqb_refl.
  - exact E1.
  - unfold sess_deliver, resp3, data, auth, opt_eqb. cbn [w_to w_from c_tag c_peer w_kind]. rewrite ?N.eqb_refl. vm_compute. reflexivity.
  - reflexivity.
Qed.

(* ---------- the rekey timer starts the handshake ---------- *)
Lemma expire_s2 ch I : ch_s2 ch = Some I -> expired I = false -> ch_s2 (expire ch) = Some I.
Proof.
  intros E2 Ex. destruct ch as [k s0 s1 s2 r rts lr]. cbn in E2. subst s2. unfold expire.
  assert (A0 : exists s0', expire0 (mkCh k s0 s1 (Some I) r rts lr) = mkCh k s0' s1 (Some I) r rts lr).
  { unfold expire0. cbn [ch_s0]. destruct s0 as [a|]; [destruct (expired a)|]; cbn; eauto. }
  destruct A0 as [s0' ->].
  assert (A1 : exists s0'' s1', expire1 (mkCh k s0' s1 (Some I) r rts lr) = mkCh k s0'' s1' (Some I) r rts lr).
  { unfold expire1. cbn [ch_s1 ch_lr]. destruct s1 as [b|]; [destruct (expired b || _)|]; cbn; eauto. }
  destruct A1 as [s0'' [s1' ->]]. unfold expire2. cbn [ch_s2]. now rewrite Ex.
Qed.

Lemma rekey_starts fA rank ts A :
  ch_s2 (expire A) = None ->
  ch_s2 (fst (chan_rekey fA rank ts A)) = Some (init0 fA rank ts) /\
  In (emit (fst (chan_rekey fA rank ts A)) (init0 fA rank ts) MIH) (snd (chan_rekey fA rank ts A)).
Proof.
  intros E. unfold chan_rekey. cbn [slot]. rewrite E. fold (init0 fA rank ts).
  unfold chan_handshake. cbn [fst snd].
  set (ch' := expire (set_slot (expire A) 2 (Some (init0 fA rank ts)))).
  assert (S2 : ch_s2 ch' = Some (init0 fA rank ts)).
  { apply expire_s2; [|reflexivity]. destruct (expire A); reflexivity. }
  split; [exact S2|]. apply in_flat_map. exists (Some (init0 fA rank ts)). split.
  - unfold ch_slots. rewrite S2. cbn. auto.
  - cbn. left. reflexivity.
Qed.

(* ---------- steps 2..6: from the moment the peer holds the responder session ---------- *)
Definition established (accept : N -> bool) (A B1 : chan) (fA fB f1 f2 f3 f4 rank ts : N) : Prop :=
  exists rh A2 id B3 rd A4 A5 data B4,
    rh = emit B1 (resp1 fB fA (ch_key A) rank ts) MRH /\
    chan_deliver accept f1 A rh = Ok (A2, DSend id) /\
    chan_deliver accept f2 B1 id = Ok (B3, DSend rd) /\
    chan_deliver accept f3 A2 rd = Ok (A4, DErr) /\
    chan_send A4 = (A5, Some data) /\
    chan_deliver accept f4 B3 data = Ok (B4, DApp fA NONCE_POST_HANDSHAKE) /\
    ch_s1 A4 = Some (init4 fA fB (ch_key B1) rank ts) /\ ch_remote A4 = Some (ch_key B1) /\ ch_s2 A4 = None /\
    ch_s1 B4 = Some (resp3d fB fA (ch_key A) rank ts) /\ ch_remote B4 = Some (ch_key A) /\ ch_s2 B4 = None.

Theorem establish_tail accept A B1 fA fB f1 f2 f3 f4 rank ts :
  ch_s2 A = Some (init0 fA rank ts) -> otag_ne (ch_s0 A) fA -> otag_ne (ch_s1 A) fA ->
  oready (ch_s0 A) -> oready (ch_s1 A) -> bound_ok accept A (ch_key B1) ->
  ch_s2 B1 = Some (resp1 fB fA (ch_key A) rank ts) ->
  otag_ne (ch_s0 B1) fB -> otag_ne (ch_s1 B1) fB -> bound_ok accept B1 (ch_key A) ->
  established accept A B1 fA fB f1 f2 f3 f4 rank ts.
Proof.
  intros EA TA0 TA1 RA0 RA1 BdA EB TB0 TB1 BdB.
  destruct A as [kA a0 a1 a2 ra rtsa lra], B1 as [kB b0 b1 b2 rb rtsb lrb].
  cbn [ch_s0 ch_s1 ch_s2 ch_key ch_rts] in *. subst a2 b2.
  set (A := mkCh kA a0 a1 (Some (init0 fA rank ts)) ra rtsa lra).
  set (B1 := mkCh kB b0 b1 (Some (resp1 fB fA kA rank ts)) rb rtsb lrb).
  pose proof (step_rh accept f1 A fA fB kB rank ts rank ts eq_refl TA0 TA1) as S2. cbv zeta in S2.
  set (A2 := set_slot A 2 (Some (init2 fA fB kB rank ts))) in *.
  pose proof (step_id accept f2 B1 fA fB kA rank ts rank ts eq_refl TB0 TB1 BdB) as S3. cbv zeta in S3.
  set (B3 := promoted (set_slot B1 2 (Some (resp3 fB fA kA rank ts))) (resp3 fB fA kA rank ts) kA) in *.
  pose proof (step_rd accept f3 A2 fA fB kB rank ts rank ts eq_refl TA0 TA1 RA0 RA1 BdA) as S4. cbv zeta in S4.
  set (A4 := promoted (set_slot A2 2 (Some (init4 fA fB kB rank ts))) (init4 fA fB kB rank ts) kB) in *.
  destruct (step_send A4 fA fB kB rank ts eq_refl eq_refl) as [A5 S5].
  pose proof (step_data accept f4 B3 fA fB kA rank ts rank ts eq_refl TB1) as S6. cbv zeta in S6.
  unfold established. do 9 eexists.
  split; [reflexivity|]. split; [exact S2|]. split; [exact S3|]. split; [exact S4|]. split; [exact S5|]. split; [exact S6|].
  repeat split; reflexivity.
Qed.

Lemma bound_check accept B k : bound_ok accept B k -> check_key accept B k = true.
Proof. unfold check_key, bound_ok. destruct (ch_remote B) as [r|]; [intros ->; apply N.eqb_refl|auto]. Qed.

(* ---------- the whole establishment, from any pair of settled channel states ---------- *)
Theorem establish accept A B fA fB f1 f2 f3 f4 rank ts :
  (* the side with the pending Send: its rekey timer has created the initiator session *)
  ch_s2 A = Some (init0 fA rank ts) -> otag_ne (ch_s0 A) fA -> otag_ne (ch_s1 A) fA ->
  oready (ch_s0 A) -> oready (ch_s1 A) -> bound_ok accept A (ch_key B) ->
  (* the peer: no handshake in progress, whatever it remembers of earlier sessions *)
  ch_s2 B = None -> orank_ne (ch_s0 B) rank -> orank_ne (ch_s1 B) rank ->
  otag_ne (ch_s0 B) fB -> otag_ne (ch_s1 B) fB -> ts <? ch_rts B = false -> bound_ok accept B (ch_key A) ->
  exists B1, chan_deliver accept fB B (emit A (init0 fA rank ts) MIH) =
               Ok (B1, DSend (emit B1 (resp1 fB fA (ch_key A) rank ts) MRH)) /\
             established accept A B1 fA fB f1 f2 f3 f4 rank ts.
Proof.
  intros EA TA0 TA1 RA0 RA1 BdA EB RB0 RB1 TB0 TB1 Hts BdB.
  set (ih := emit A (init0 fA rank ts) MIH).
  pose proof (step_ih accept fB B ih EB eq_refl RB0 RB1 Hts (bound_check _ _ _ BdB)) as S1. cbv zeta in S1.
  exists (set_slot B 2 (Some (resp1 fB fA (ch_key A) rank ts))). split.
  - rewrite S1. destruct B; reflexivity.
  - apply establish_tail; auto; destruct B; auto.
Qed.

(* ---------- simultaneous open: both sides hold an initiator session ---------- *)
(* the side whose session id ranks higher gives way ... *)
Lemma step_ih_yield accept fresh B fX rB tsB ih :
  ch_s2 B = Some (init0 fX rB tsB) -> w_kind ih = MIH -> w_rank ih < rB ->
  orank_ne (ch_s0 B) (w_rank ih) -> orank_ne (ch_s1 B) (w_rank ih) ->
  w_ts ih <? ch_rts B = false -> check_key accept B (w_chan ih) = true ->
  let R := mkCS (with_hs (new_sess false) 1 (Some 1%nat) 0) fresh (Some (w_from ih)) (Some (w_chan ih)) (w_rank ih) (w_ts ih) 0 in
  chan_deliver accept fresh B ih = Ok (set_slot B 2 (Some R), DSend (emit B R MRH)).
Proof.
  intros E2 Ek Lt R0 R1 Hts Hck R. destruct B as [k s0 s1 s2 r rts lr]. cbn in E2, R0, R1, Hts, Hck. subst s2.
  assert (Ne : (rB =? w_rank ih) = false) by lia. assert (Nl : (rB <? w_rank ih) = false) by lia.
  unfold chan_deliver, deliver_order. rewrite Ek. cbn [msg_nonce].
  change (0 <? NONCE_POST_HANDSHAKE) with true. cbn [deliver_loop ch_slots nth ch_s0 ch_s1 ch_s2 init0 c_rank]. rewrite ?Ek, Ne. cbn [negb].
  destruct s1 as [b|], s0 as [a|]; cbn in R0, R1;
    repeat match goal with H : c_rank _ <> _ |- _ => apply N.eqb_neq in H end;
    rewrite ?R0, ?R1; cbn [negb existsb orb ch_rts ch_slots ch_s0 ch_s1 ch_s2 c_rank];
    rewrite ?R0, ?R1, ?Ne; cbn [orb]; rewrite Hts; unfold check_key in *; cbn [ch_remote] in *; rewrite Hck;
    cbn [negb slot ch_s2 cs s_init new_sess c_rank init0 orb]; rewrite ?Ne; cbn [orb]; rewrite Nl; reflexivity.
Qed.

(* ... and the other one keeps its own initiator session and repeats its InitHello *)
Lemma step_ih_keep accept fresh A fA rA tsA ih :
  ch_s2 A = Some (init0 fA rA tsA) -> w_kind ih = MIH -> rA < w_rank ih ->
  orank_ne (ch_s0 A) (w_rank ih) -> orank_ne (ch_s1 A) (w_rank ih) ->
  w_ts ih <? ch_rts A = false -> check_key accept A (w_chan ih) = true ->
  chan_deliver accept fresh A ih = Ok (A, DSend (emit A (init0 fA rA tsA) MIH)).
Proof.
  intros E2 Ek Lt R0 R1 Hts Hck. destruct A as [k s0 s1 s2 r rts lr]. cbn in E2, R0, R1, Hts, Hck. subst s2.
  assert (Ne : (rA =? w_rank ih) = false) by lia. assert (Nl : (rA <? w_rank ih) = true) by lia.
  unfold chan_deliver, deliver_order. rewrite Ek. cbn [msg_nonce].
  change (0 <? NONCE_POST_HANDSHAKE) with true. cbn [deliver_loop ch_slots nth ch_s0 ch_s1 ch_s2 init0 c_rank]. rewrite ?Ek, Ne. cbn [negb].
  destruct s1 as [b|], s0 as [a|]; cbn in R0, R1;
    repeat match goal with H : c_rank _ <> _ |- _ => apply N.eqb_neq in H end;
    rewrite ?R0, ?R1; cbn [negb existsb orb ch_rts ch_slots ch_s0 ch_s1 ch_s2 c_rank];
    rewrite ?R0, ?R1, ?Ne; cbn [orb]; rewrite Hts; unfold check_key in *; cbn [ch_remote] in *; rewrite Hck;
    cbn [negb slot ch_s2 cs s_init new_sess c_rank init0 orb]; rewrite ?Ne; cbn [orb]; rewrite Nl; reflexivity.
Qed.

(* Both sides started a handshake at once; the InitHellos cross.  Exactly one
   initiator session survives (the one whose id ranks lower), the other side
   turns responder, and from there the handshake completes as above. *)
Theorem simultaneous_open_converges accept A B fA fX fB f0 f1 f2 f3 f4 rA tsA rB tsB :
  rA < rB ->
  ch_s2 A = Some (init0 fA rA tsA) -> otag_ne (ch_s0 A) fA -> otag_ne (ch_s1 A) fA ->
  oready (ch_s0 A) -> oready (ch_s1 A) -> bound_ok accept A (ch_key B) ->
  orank_ne (ch_s0 A) rB -> orank_ne (ch_s1 A) rB -> tsB <? ch_rts A = false ->
  ch_s2 B = Some (init0 fX rB tsB) -> orank_ne (ch_s0 B) rA -> orank_ne (ch_s1 B) rA ->
  otag_ne (ch_s0 B) fB -> otag_ne (ch_s1 B) fB -> tsA <? ch_rts B = false -> bound_ok accept B (ch_key A) ->
  (* A keeps its initiator and answers B's hello with its own *)
  chan_deliver accept f0 A (emit B (init0 fX rB tsB) MIH) = Ok (A, DSend (emit A (init0 fA rA tsA) MIH)) /\
  (* B gives up its initiator for a responder session, and the handshake completes *)
  exists B1, chan_deliver accept fB B (emit A (init0 fA rA tsA) MIH) =
               Ok (B1, DSend (emit B1 (resp1 fB fA (ch_key A) rA tsA) MRH)) /\
             established accept A B1 fA fB f1 f2 f3 f4 rA tsA.
Proof.
  intros Lt EA TA0 TA1 RA0 RA1 BdA QA0 QA1 HtsA EB RB0 RB1 TB0 TB1 HtsB BdB. split.
  - apply step_ih_keep; auto. apply bound_check. exact BdA.
  - pose proof (step_ih_yield accept fB B fX rB tsB (emit A (init0 fA rA tsA) MIH) EB eq_refl Lt RB0 RB1 HtsB
                  (bound_check _ _ _ BdB)) as S1. cbv zeta in S1.
    exists (set_slot B 2 (Some (resp1 fB fA (ch_key A) rA tsA))). split.
    + rewrite S1. destruct B; reflexivity.
    + apply establish_tail; auto; destruct B; auto.
Qed.

(* the same from the channel invariant every reachable state satisfies (ChannelNP.never_panics) *)
Corollary establish_inv accept A B fA fB f1 f2 f3 f4 rank ts :
  InvP accept A -> InvP accept B ->
  ch_s2 A = Some (init0 fA rank ts) -> bound_ok accept A (ch_key B) ->
  ch_s2 B = None -> fresh_tag B fB -> orank_ne (ch_s0 B) rank -> orank_ne (ch_s1 B) rank ->
  ts <? ch_rts B = false -> bound_ok accept B (ch_key A) ->
  exists B1, chan_deliver accept fB B (emit A (init0 fA rank ts) MIH) =
               Ok (B1, DSend (emit B1 (resp1 fB fA (ch_key A) rank ts) MRH)) /\
             established accept A B1 fA fB f1 f2 f3 f4 rank ts.
Proof.
  intros [[EA0 [EA1 _]] [_ [DA0 [DA1 DA2]]]] _ EA BdA EB [FB0 [FB1 _]] RB0 RB1 Hts BdB.
  assert (G : forall x t, has_tag t x = false -> otag_ne x t).
  { intros [se|] t H; [|exact I]. cbn in *. now apply N.eqb_neq. }
  assert (R : forall ch x, est ch x -> oready x).
  { intros ch [se|] H; [|exact I]. cbn in *. tauto. }
  apply establish; auto.
  - rewrite EA in DA1. destruct (ch_s0 A); [exact DA1|exact I].
  - rewrite EA in DA2. destruct (ch_s1 A); [exact DA2|exact I].
  - eapply R; eauto.
  - eapply R; eauto.
Qed.

(* ---- from the pending Send itself: the rekey timer it arms, then the handshake ---- *)
Lemma expire_meta ch : ch_remote (expire ch) = ch_remote ch /\ ch_key (expire ch) = ch_key ch /\ ch_rts (expire ch) = ch_rts ch.
Proof.
  destruct ch as [k s0 s1 s2 r rts lr]. unfold expire, expire2, expire1, expire0. cbn [ch_s0].
  destruct s0 as [a|]; [destruct (expired a)|]; cbn [set_slot ch_s1 ch_key ch_s0 ch_s2 ch_remote ch_rts ch_lr];
  (destruct s1 as [b|]; [destruct (expired b || _)|]); cbn [set_slot ch_s1 ch_key ch_s0 ch_s2 ch_remote ch_rts ch_lr];
  (destruct s2 as [c|]; [destruct (expired c)|]); cbn; auto.
Qed.

Lemma rekey_meta fA rank ts A : ch_s2 (expire A) = None ->
  ch_remote (fst (chan_rekey fA rank ts A)) = ch_remote A /\ ch_key (fst (chan_rekey fA rank ts A)) = ch_key A.
Proof.
  intros E. unfold chan_rekey. cbn [slot]. rewrite E. unfold chan_handshake. cbn [fst].
  destruct (expire_meta (set_slot (expire A) 2 (Some (mkCS (new_sess true) fA None None rank ts 0)))) as [R [K _]].
  destruct (expire_meta A) as [R0 [K0 _]]. rewrite R, K.
  destruct (expire A); cbn in *. auto.
Qed.

(* A Send is pending on A (no current session survives the expiry step, no handshake
   in progress): the rekey timer it arms creates the initiator session and emits an
   InitHello; delivered to a peer with no handshake in progress, the handshake
   completes, both sides are bound to each other and the data is handed up. *)
Theorem pending_send_completes accept A B fA fB f1 f2 f3 f4 rank ts :
  InvP accept A -> InvP accept B -> fresh_tag A fA -> ch_s2 (expire A) = None ->
  bound_ok accept A (ch_key B) ->
  ch_s2 B = None -> fresh_tag B fB -> orank_ne (ch_s0 B) rank -> orank_ne (ch_s1 B) rank ->
  ts <? ch_rts B = false -> bound_ok accept B (ch_key A) ->
  let A1 := fst (chan_rekey fA rank ts A) in
  In (emit A1 (init0 fA rank ts) MIH) (snd (chan_rekey fA rank ts A)) /\
  exists B1, chan_deliver accept fB B (emit A1 (init0 fA rank ts) MIH) =
               Ok (B1, DSend (emit B1 (resp1 fB fA (ch_key A1) rank ts) MRH)) /\
             established accept A1 B1 fA fB f1 f2 f3 f4 rank ts.
Proof.
  intros IA IB FA E BdA EB FB RB0 RB1 Hts BdB A1.
  destruct (rekey_starts fA rank ts A E) as [S2 Hin]. destruct (rekey_meta fA rank ts A E) as [R K].
  split; [exact Hin|]. apply establish_inv; auto.
  - apply rekey_np; auto.
  - unfold bound_ok in *. fold A1. unfold A1. rewrite R. exact BdA.
  - unfold A1. rewrite K. exact BdB.
Qed.

(* ---- retransmission: every firing of the handshake timer re-sends the message the
   prospective session is waiting to have answered, for as long as that session lives ---- *)
Definition awaiting (se : csess) : Prop :=
  (s_init (cs se) = true /\ (s_hs (cs se) = 0 \/ s_hs (cs se) = 2)) \/ (s_init (cs se) = false /\ s_hs (cs se) = 1).

Theorem handshake_timer_retransmits accept ch se :
  InvP accept ch -> ch_s2 ch = Some se -> expired se = false -> awaiting se ->
  exists k, write_handshake (cs se) = Ok (Some k) /\
            ch_s2 (fst (chan_handshake ch)) = Some se /\
            In (emit (fst (chan_handshake ch)) se k) (snd (chan_handshake ch)).
Proof.
  intros [_ [[_ [_ C2]] _]] E2 Ex Aw. rewrite E2 in C2. cbn in C2. destruct C2 as (_ & C0 & C1 & C2' & _).
  assert (W : exists k, write_handshake (cs se) = Ok (Some k)).
  { unfold write_handshake. destruct Aw as [[Ei [E0|E2']]|[Ei E1]]; rewrite Ei.
    - rewrite E0. cbn. rewrite (C0 Ei E0). eauto.
    - rewrite E2'. cbn. rewrite (C2' Ei E2'). eauto.
    - rewrite E1. cbn. rewrite (C1 Ei E1). eauto. }
  destruct W as [k W]. exists k. split; [exact W|].
  assert (NR : c_ready se = false).
  { unfold c_ready, is_ready, can_send, can_receive. destruct Aw as [[Ei [E0|E2']]|[Ei E1]]; rewrite Ei, ?E0, ?E2', ?E1; reflexivity. }
  unfold chan_handshake. cbn [fst snd]. pose proof (expire_s2 ch se E2 Ex) as S2. split; [exact S2|].
  apply in_flat_map. exists (Some se). split.
  - unfold ch_slots. rewrite S2. cbn. auto.
  - rewrite NR, W. cbn. auto.
Qed.

(* the hypotheses are satisfiable by states that carry sessions from the past *)
Example establish_not_vacuous :
  let old (t : N) (ini : bool) (k : N) := mkCS (with_hs (new_sess ini) 4 None 40) t (Some (t + 100)) (Some k) t 5 30 in
  let A := mkCh 1 (Some (old 10 true 2)) (Some (old 11 false 2)) (Some (init0 12 77 9)) (Some 2) 5 100 in
  let B := mkCh 2 (Some (old 20 true 1)) (Some (old 21 false 1)) None (Some 1) 5 100 in
  InvP (fun _ => true) A /\ InvP (fun _ => true) B /\
  bound_ok (fun _ => true) A 2 /\ bound_ok (fun _ => true) B 1 /\ fresh_tag B 22 /\
  orank_ne (ch_s0 B) 77 /\ orank_ne (ch_s1 B) 77 /\ (9 <? ch_rts B) = false.
Proof.
  cbv zeta. unfold InvP, Inv, est, owf, onr, swf, ocache, tags_distinct, odiff, bound_ok, fresh_tag, orank_ne, cache_ok.
  cbn. repeat split; try discriminate; try reflexivity; try lia; auto; try (intros; discriminate).
Qed.

Print Assumptions establish.
Print Assumptions establish_inv.
Print Assumptions simultaneous_open_converges.
Print Assumptions pending_send_completes.
Print Assumptions handshake_timer_retransmits.

(* C18, part 3: Delete, Expire, the step/run level theorems. *)
From P2PV Require Import Lib.Base Model.Distance Model.Cache Proofs.BaseP Proofs.CacheP Proofs.CacheP2.
From Coq Require Import Lia ZifyBool ZifyN ZifyNat Sorting.Permutation.
Open Scope Z_scope.

(* ---------------- Delete ---------------- *)
Theorem delete_correct c k c' r :
  inv c -> delete c k = (c', r) ->
  inv c' /\ same_cfg c c' /\ r = lookup c k /\
  (forall k', lookup c' k' = if bytes_eqb k k' then None else lookup c k') /\
  c_count c' = match lookup c k with Some _ => c_count c - 1 | None => c_count c end.
Proof.
  intros Hi. pose proof Hi as (Hmn & Hmx & Hcnt & Hle & Hbs). unfold delete, get_bucket.
  destruct (nth_error (c_buckets c) (bidx c k)) as [b|] eqn:En.
  2:{ assert (Hlk : lookup c k = None) by (unfold lookup, get_bucket; now rewrite En).
      intros H; injection H as <- <-. rewrite Hlk.
      split; [assumption|]. split; [unfold same_cfg; auto|]. split; [reflexivity|]. split; [|reflexivity].
      intros k'. destruct (bytes_eqb_spec k k') as [<-|_]; [now rewrite Hlk|reflexivity]. }
  destruct (Hbs _ _ En) as (Hnd & Hidx & Hme).
  assert (Hlk : lookup c k = b_find (b_ents b) k) by (unfold lookup, get_bucket; now rewrite En).
  unfold b_delete. destruct (b_find (b_ents b) k) as [e|] eqn:Ef.
  2:{ intros H; injection H as <- <-. rewrite Hlk.
      split; [assumption|]. split; [unfold same_cfg; auto|]. split; [reflexivity|]. split; [|reflexivity].
      intros k'. destruct (bytes_eqb_spec k k') as [<-|_]; [|reflexivity]. now rewrite Hlk. }
  intros H; injection H as <- <-. rewrite Hlk.
  assert (Hlt : (bidx c k < length (c_buckets c))%nat) by (apply nth_error_Some; congruence).
  split; [|split; [|split; [|split]]].
  - apply inv_inv0. split.
    + unfold inv0, contents. cbn [c_minpb c_max c_count c_buckets c_locus].
      split; [assumption|]. split; [assumption|]. split.
      * rewrite (contents_set_nth _ _ b _ En). cbn [b_ents]. rewrite b_remove_len, Ef. fold (contents c). lia.
      * apply buckets_ok_set; [assumption|]. split; [|split]; cbn [b_ents b_minexp].
        -- now apply b_remove_keys_nodup.
        -- intros x Hx. apply Hidx. eapply b_remove_in; eauto.
        -- pose proof (fold_minexp_ok (b_remove (b_ents b) k) 0 []) as F. cbn zeta in F. cbn [app] in F.
           apply F. split; [intros _ x []|intros Hne; contradiction].
    + cbn [c_count c_max]. lia.
  - unfold same_cfg. cbn. auto.
  - reflexivity.
  - intros k'. rewrite lookup_set by assumption. fold (bidx c k').
    destruct (Nat.eqb_spec (bidx c k') (bidx c k)) as [He|Hne].
    + cbn [b_ents]. rewrite b_remove_find by assumption. destruct (bytes_eqb k k'); [reflexivity|].
      unfold lookup, get_bucket. now rewrite He, En.
    + destruct (bytes_eqb_spec k k') as [->|_]; [congruence|]. reflexivity.
  - reflexivity.
Qed.

(* ---------------- Expire ---------------- *)
Definition live (now : Z) (e : entry) : bool := negb (is_expired now e).
Definition expire_bucket (now : Z) (b : bucket) : bucket := mkB (filter (live now) (b_ents b)) (b_minexp b).

Lemma filter_all {A} (f : A -> bool) l : (forall x, In x l -> f x = true) -> filter f l = l.
Proof.
  induction l as [|h t IH]; intros H; cbn [filter]; [reflexivity|].
  rewrite (H h (or_introl eq_refl)). f_equal. apply IH. intros x Hx. apply H. now right.
Qed.
Lemma filter_none {A} (f : A -> bool) l : (forall x, In x l -> f x = false) -> filter f l = [].
Proof.
  induction l as [|h t IH]; intros H; cbn [filter]; [reflexivity|].
  rewrite (H h (or_introl eq_refl)). apply IH. intros x Hx. apply H. now right.
Qed.

(* the minExpiresAt shortcut is sound: a skipped bucket holds nothing expired *)
Lemma skip_sound now b : minexp_ok b -> (b_minexp b <? now) = false ->
  forall e, In e (b_ents b) -> is_expired now e = false.
Proof.
  intros [H0 H1] Hs e He. unfold is_expired.
  destruct (Z.eqb_spec (e_exp e) 0) as [Hz|Hnz]; [reflexivity|]. cbn [negb andb].
  destruct (Z.eqb_spec (b_minexp b) 0) as [Hm|Hm].
  - specialize (H0 Hm e He). contradiction.
  - specialize (H1 Hm e He Hnz). lia.
Qed.

Lemma expire_buckets_spec now bs :
  (forall b, In b bs -> minexp_ok b) ->
  expire_buckets bs now = (map (expire_bucket now) bs, flat_map (fun b => filter (is_expired now) (b_ents b)) bs).
Proof.
  induction bs as [|b t IH]; intros H; cbn [expire_buckets map flat_map]; [reflexivity|].
  rewrite IH by (intros x Hx; apply H; now right).
  destruct (b_minexp b <? now) eqn:Es.
  - reflexivity.
  - pose proof (skip_sound now b (H b (or_introl eq_refl)) Es) as Hno.
    rewrite (filter_none _ _ Hno). cbn [app]. f_equal. f_equal.
    unfold expire_bucket. rewrite filter_all; [destruct b; reflexivity|].
    intros x Hx. unfold live. now rewrite Hno.
Qed.

Lemma filter_flat_map {A B} (f : B -> bool) (g : A -> list B) l :
  filter f (flat_map g l) = flat_map (fun x => filter f (g x)) l.
Proof.
  induction l as [|h t IH]; cbn [flat_map]; [reflexivity|]. now rewrite filter_app, IH.
Qed.

Lemma flat_map_map {A B C} (f : A -> B) (g : B -> list C) l :
  flat_map g (map f l) = flat_map (fun x => g (f x)) l.
Proof. induction l as [|h t IH]; cbn [map flat_map]; [reflexivity|]. now rewrite IH. Qed.

Lemma lenZ_filter_split {A} (f : A -> bool) l :
  lenZ l = lenZ (filter f l) + lenZ (filter (fun x => negb (f x)) l).
Proof.
  induction l as [|h t IH]; cbn [filter]; [reflexivity|].
  destruct (f h); cbn [negb]; rewrite !lenZ_cons; lia.
Qed.

Theorem expire_correct c now c' out :
  inv c -> expire c now = (c', out) ->
  inv c' /\ same_cfg c c' /\
  out = filter (is_expired now) (contents c) /\
  contents c' = filter (live now) (contents c) /\
  (forall k', lookup c' k' = match lookup c k' with
                             | Some e => if is_expired now e then None else Some e
                             | None => None end).
Proof.
  intros Hi. pose proof Hi as (Hmn & Hmx & Hcnt & Hle & Hbs). unfold expire.
  rewrite expire_buckets_spec.
  2:{ intros b Hb. apply In_nth_error in Hb as (n & Hn). now destruct (Hbs n b Hn) as (_ & _ & ?). }
  intros H; injection H as <- <-.
  assert (Hout : flat_map (fun b => filter (is_expired now) (b_ents b)) (c_buckets c)
                 = filter (is_expired now) (contents c)).
  { unfold contents. now rewrite filter_flat_map. }
  assert (Hcont : flat_map b_ents (map (expire_bucket now) (c_buckets c)) = filter (live now) (contents c)).
  { unfold contents. rewrite flat_map_map, filter_flat_map. reflexivity. }
  split; [|split; [|split; [|split]]].
  - unfold inv, contents. cbn [c_minpb c_max c_count c_buckets c_locus].
    split; [assumption|]. split; [assumption|].
    rewrite Hcont, Hout.
    pose proof (lenZ_filter_split (is_expired now) (contents c)) as Hs. fold (live now) in Hs.
    pose proof (lenZ_nonneg (filter (is_expired now) (contents c))).
    split; [lia|]. split; [lia|].
    intros n b Hn. rewrite nth_error_map in Hn.
    destruct (nth_error (c_buckets c) n) as [b0|] eqn:E; [|discriminate]. injection Hn as <-.
    destruct (Hbs n b0 E) as (Hnd & Hidx & Hme). split; [|split]; cbn [expire_bucket b_ents b_minexp].
    + now apply filter_keys_nodup.
    + intros e He. apply filter_In in He as [He _]. now apply Hidx.
    + apply minexp_ok_subset; [assumption|]. intros e He. now apply filter_In in He as [He _].
  - unfold same_cfg. cbn. auto.
  - exact Hout.
  - exact Hcont.
  - intros k'. unfold lookup, get_bucket, bidx. cbn [c_locus c_buckets]. rewrite nth_error_map.
    destruct (nth_error (c_buckets c) (N.to_nat (bucket_index (c_locus c) k'))) as [b|] eqn:E; cbn [option_map]; [|reflexivity].
    destruct (Hbs _ _ E) as (Hnd & _ & _). cbn [expire_bucket b_ents].
    rewrite filter_find by assumption. unfold live. destruct (b_find (b_ents b) k') as [e|]; [|reflexivity].
    destruct (is_expired now e); reflexivity.
Qed.

(* ---------------- one step ---------------- *)
(* the abstract map after an operation, as a function of the map before it and
   of the operation's reported result *)
Definition spec_after (c : cache) (o : op) (r : out) (k' : bytes) : option entry :=
  match o, r with
  | OPut k v now exp, RPut ev _ => update_spec c k (put_fn k v now exp) ev k'
  | OKeep k v now exp, RPut ev _ => update_spec c k (keep_fn k v now exp) ev k'
  | ODel k, _ => if bytes_eqb k k' then None else lookup c k'
  | OExpire now, _ => match lookup c k' with
                      | Some e => if is_expired now e then None else Some e
                      | None => None end
  | _, _ => lookup c k'
  end.

Theorem step_correct c o orc :
  inv c ->
  (forall s, step c o orc <> Panic s) /\
  forall c' r, step c o orc = Ok (c', r) ->
    inv c' /\ same_cfg c c' /\ (forall k', lookup c' k' = spec_after c o r k') /\
    match o, r with
    | ODel k, RDel e => e = lookup c k
    | OExpire now, RExpire es => es = filter (is_expired now) (contents c)
    | OGet k, RGet v => v = option_map e_val (lookup c k)
    | OCount, RCount n => n = lenZ (contents c)
    | (OPut _ _ _ _ | OKeep _ _ _ _), RPut _ _ => True
    | _, _ => False
    end.
Proof.
  intros Hi. destruct o as [k v now exp|k v now exp|k|now|k|]; cbn [step].
  - destruct (update_correct c k (put_fn k v now exp) orc Hi (put_fn_key _ _ _ _ _)) as [Hp Hu].
    destruct (update c k (put_fn k v now exp) orc) as [[c1 [ev added]]|e|s] eqn:E; cbn [bind].
    + split; [discriminate|]. intros c' r H; injection H as <- <-.
      destruct (Hu c1 ev added eq_refl) as (A & B & C & _). split; [exact A|]. split; [exact B|]. split; [exact C|exact I].
    + split; [discriminate|]. intros ? ? H; discriminate.
    + exfalso. now apply (Hp s).
  - destruct (update_correct c k (keep_fn k v now exp) orc Hi (keep_fn_key _ _ _ _ _ Hi)) as [Hp Hu].
    destruct (update c k (keep_fn k v now exp) orc) as [[c1 [ev added]]|e|s] eqn:E; cbn [bind].
    + split; [discriminate|]. intros c' r H; injection H as <- <-.
      destruct (Hu c1 ev added eq_refl) as (A & B & C & _). split; [exact A|]. split; [exact B|]. split; [exact C|exact I].
    + split; [discriminate|]. intros ? ? H; discriminate.
    + exfalso. now apply (Hp s).
  - destruct (delete c k) as [c1 e] eqn:E. split; [discriminate|].
    intros c' r H; injection H as <- <-.
    destruct (delete_correct c k c1 e Hi E) as (A & B & C & D & _). split; [exact A|]. split; [exact B|]. split; [exact D|exact C].
  - destruct (expire c now) as [c1 es] eqn:E. split; [discriminate|].
    intros c' r H; injection H as <- <-.
    destruct (expire_correct c now c1 es Hi E) as (A & B & C & _ & D). split; [exact A|]. split; [exact B|]. split; [exact D|exact C].
  - split; [discriminate|]. intros c' r H; injection H as <- <-.
    split; [exact Hi|]. split; [unfold same_cfg; auto|]. split; [reflexivity|reflexivity].
  - split; [discriminate|]. intros c' r H; injection H as <- <-.
    split; [exact Hi|]. split; [unfold same_cfg; auto|]. split; [reflexivity|].
    now destruct Hi as (_ & _ & ? & _).
Qed.

(* ---------------- whole histories ---------------- *)
Lemma run_inv ops : forall c, inv c ->
  (forall s, run c ops <> Panic s) /\ forall c', run c ops = Ok c' -> inv c'.
Proof.
  induction ops as [|[o orc] t IH]; intros c Hi; cbn [run].
  - split; [discriminate|]. intros c' H; injection H as <-. assumption.
  - destruct (step_correct c o orc Hi) as [Hp Hs].
    destruct (step c o orc) as [[c1 r]|e|s] eqn:E; cbn [bind].
    + destruct (Hs c1 r eq_refl) as (Hi1 & _). apply IH. exact Hi1.
    + split; [discriminate|]. intros ? H; discriminate.
    + exfalso. now apply (Hp s).
Qed.

Definition reachable (L : bytes) (mx mn : Z) (c : cache) : Prop :=
  exists c0 ops, new_cache L mx mn = Ok c0 /\ run c0 ops = Ok c.

Lemma reachable_inv L mx mn c : reachable L mx mn c -> inv c.
Proof.
  intros (c0 & ops & H0 & Hr). apply new_cache_inv in H0.
  destruct (run_inv ops c0 H0) as [_ H]. now apply H.
Qed.

From P2PV Require Import Lib.Base Model.Distance Proofs.BaseP.
From Coq Require Import Lia ZifyBool ZifyN ZifyNat Sorting.Sorted Sorting.Permutation.
Ltac Zify.zify_post_hook ::= Z.div_mod_to_equations.
Open Scope N_scope.

Arguments N.pow : simpl never.
Arguments N.lxor : simpl never.
Arguments N.log2 : simpl never.
Arguments N.testbit : simpl never.
Arguments N.div : simpl never.
Arguments N.modulo : simpl never.
Arguments N.sub : simpl never.
Arguments N.add : simpl never.
Arguments N.mul : simpl never.

(* ---------- lex_compare is a total order on byte strings ---------- *)
Lemma lex_refl a : lex_compare a a = Eq.
Proof. induction a as [|x a IH]; cbn [lex_compare]; [reflexivity|]. rewrite N.ltb_irrefl. exact IH. Qed.

Lemma lex_antisym a b : lex_compare b a = CompOpp (lex_compare a b).
Proof.
  revert b; induction a as [|x a IH]; intros [|y b]; cbn [lex_compare CompOpp]; try reflexivity.
  destruct (N.ltb_spec x y), (N.ltb_spec y x); cbn [CompOpp]; try reflexivity; try lia. apply IH.
Qed.

Lemma lex_eq a b : lex_compare a b = Eq -> a = b.
Proof.
  revert b; induction a as [|x a IH]; intros [|y b]; cbn [lex_compare]; try discriminate; [reflexivity|].
  destruct (N.ltb_spec x y); [discriminate|]. destruct (N.ltb_spec y x); [discriminate|].
  intros Heq. f_equal; [lia|]. now apply IH.
Qed.

(* a "<=" that is transitive in all the mixed forms we need *)
Lemma lex_trans a : forall b c,
  lex_compare a b <> Gt -> lex_compare b c <> Gt -> lex_compare a c <> Gt.
Proof.
  induction a as [|x a IH]; intros [|y b] [|z c]; cbn [lex_compare]; try congruence.
  destruct (N.ltb_spec x y), (N.ltb_spec y x), (N.ltb_spec y z), (N.ltb_spec z y),
           (N.ltb_spec x z), (N.ltb_spec z x); try congruence; try lia.
  apply IH.
Qed.

Lemma lex_trans_lt_r a : forall b c,
  lex_compare a b <> Gt -> lex_compare b c = Lt -> lex_compare a c = Lt.
Proof.
  induction a as [|x a IH]; intros [|y b] [|z c]; cbn [lex_compare]; try congruence.
  destruct (N.ltb_spec x y), (N.ltb_spec y x), (N.ltb_spec y z), (N.ltb_spec z y),
           (N.ltb_spec x z), (N.ltb_spec z x); try congruence; try lia.
  apply IH.
Qed.

(* ---------- DistanceCmp = bytes.Compare of the distances ---------- *)
Lemma cmp_spec x : forall a b,
  distance_cmp x a b = lex_compare (distance x a) (distance x b).
Proof.
  unfold distance. induction x as [|xi x IH]; intros a b.
  - destruct a, b; reflexivity.
  - destruct a as [|ai a], b as [|bi b]; cbn [distance_cmp xor_bytes lex_compare]; try reflexivity.
    destruct (N.lxor xi ai <? N.lxor xi bi); [reflexivity|].
    destruct (N.lxor xi bi <? N.lxor xi ai); [reflexivity|]. apply IH.
Qed.

Definition dle (x a b : bytes) : Prop := distance_cmp x a b <> Gt.

Lemma dle_refl x a : dle x a a.
Proof. unfold dle. rewrite cmp_spec, lex_refl. discriminate. Qed.

Lemma dle_trans x a b c : dle x a b -> dle x b c -> dle x a c.
Proof. unfold dle. rewrite !cmp_spec. apply lex_trans. Qed.

Lemma dle_total x a b : dle x a b \/ dle x b a.
Proof.
  unfold dle. rewrite !cmp_spec, (lex_antisym (distance x a) (distance x b)).
  destruct (lex_compare (distance x a) (distance x b)); cbn; [left|left|right]; discriminate.
Qed.

Lemma cmp_antisym x a b : distance_cmp x b a = CompOpp (distance_cmp x a b).
Proof. rewrite !cmp_spec. apply lex_antisym. Qed.

Lemma not_lt_dle x a b : distance_cmp x a b <> Lt -> dle x b a.
Proof. unfold dle. rewrite (cmp_antisym x a b). destruct (distance_cmp x a b); cbn; congruence. Qed.

Lemma dle_lt_trans x a b c : dle x a b -> distance_cmp x b c = Lt -> distance_cmp x a c = Lt.
Proof. unfold dle. rewrite !cmp_spec. apply lex_trans_lt_r. Qed.

(* ---------- symmetry, identity ---------- *)
Lemma distance_sym a : forall b, distance a b = distance b a.
Proof.
  unfold distance. induction a as [|x a IH]; intros [|y b]; cbn [xor_bytes]; try reflexivity.
  now rewrite N.lxor_comm, IH.
Qed.

Lemma distance_zero_iff a : forall b, length a = length b ->
  (all_zero (distance a b) = true <-> a = b).
Proof.
  unfold distance, all_zero. induction a as [|x a IH]; intros [|y b] Hl; cbn in Hl; try discriminate.
  - split; reflexivity.
  - cbn [xor_bytes forallb]. injection Hl as Hl. specialize (IH b Hl).
    rewrite Bool.andb_true_iff, N.eqb_eq, N.lxor_eq_0_iff. split.
    + intros [-> H]. f_equal. now apply IH.
    + intros H. injection H as -> ->. split; [reflexivity|]. now apply IH.
Qed.

(* unequal lengths: zero distance does not imply equality (stated counterexample) *)
Lemma distance_zero_unequal_lengths :
  all_zero (distance [1] [1; 2]) = true /\ [1] <> [1; 2].
Proof. split; [reflexivity|discriminate]. Qed.

Lemma distance_length a : forall b, length (distance a b) = Nat.min (length a) (length b).
Proof.
  unfold distance. induction a as [|x a IH]; intros [|y b]; cbn [xor_bytes length Nat.min]; try reflexivity.
  now rewrite IH.
Qed.

(* ---------- bytes and bits ---------- *)
Lemma log2_lt8 a : a < 256 -> N.log2 a < 8.
Proof.
  intros Ha. destruct (N.eq_dec a 0) as [->|Hn]; [vm_compute; reflexivity|].
  apply N.log2_lt_pow2; lia.
Qed.

Lemma lxor_lt_256 a b : a < 256 -> b < 256 -> N.lxor a b < 256.
Proof.
  intros Ha Hb. destruct (N.eq_dec (N.lxor a b) 0) as [->|Hn]; [lia|].
  apply N.log2_lt_pow2 with (b := 8); [lia|].
  eapply N.le_lt_trans; [apply N.log2_lxor|].
  apply N.max_lub_lt; apply log2_lt8; assumption.
Qed.

(* comparing two numbers by their highest differing bit *)
Lemma lt_by_bit m n t :
  m / 2 ^ (t + 1) = n / 2 ^ (t + 1) -> N.testbit m t = false -> N.testbit n t = true -> m < n.
Proof.
  intros Hh Hm Hn.
  rewrite N.testbit_eqb in Hm, Hn.
  assert (Hp : 2 ^ t <> 0) by (apply N.pow_nonzero; lia).
  replace (2 ^ (t + 1)) with (2 ^ t * 2) in Hh by (rewrite N.pow_add_r; reflexivity).
  rewrite <- !N.div_div in Hh by lia.
  set (P := 2 ^ t) in *. set (A := m / P) in *. set (B := n / P) in *.
  pose proof (N.div_mod m P Hp) as Em. pose proof (N.div_mod n P Hp) as En.
  pose proof (N.mod_lt m P Hp). pose proof (N.mod_lt n P Hp).
  fold A in Em. fold B in En.
  assert (HA : A mod 2 = 0) by (destruct (N.eqb_spec (A mod 2) 1); [discriminate|];
                                 pose proof (N.mod_lt A 2); lia).
  assert (HB : B mod 2 = 1) by (destruct (N.eqb_spec (B mod 2) 1); [assumption|discriminate]).
  assert (B = A + 1) by lia. subst B. nia.
Qed.

Lemma lxor_high a b s : N.lxor a b / 2 ^ s = N.lxor (a / 2 ^ s) (b / 2 ^ s).
Proof. rewrite <- !N.shiftr_div_pow2. apply N.shiftr_lxor. Qed.

(* the byte-level heart of the bucket ordering argument *)
Lemma byte_order w p q t :
  p / 2 ^ (t + 1) = 0 -> N.testbit p t = true -> q / 2 ^ t = 0 ->
  (N.testbit w t = true -> N.lxor w p < N.lxor w q) /\
  (N.testbit w t = false -> N.lxor w q < N.lxor w p).
Proof.
  intros Hp Hpt Hq.
  assert (Hq1 : q / 2 ^ (t + 1) = 0).
  { rewrite N.pow_add_r, <- N.div_div by (try apply N.pow_nonzero; lia). rewrite Hq. reflexivity. }
  assert (Hqt : N.testbit q t = false).
  { rewrite N.testbit_eqb, Hq. reflexivity. }
  split; intros Hw.
  - apply lt_by_bit with t.
    + rewrite !lxor_high, Hp, Hq1. reflexivity.
    + rewrite N.lxor_spec, Hw, Hpt. reflexivity.
    + rewrite N.lxor_spec, Hw, Hqt. reflexivity.
  - apply lt_by_bit with t.
    + rewrite !lxor_high, Hp, Hq1. reflexivity.
    + rewrite N.lxor_spec, Hw, Hqt. reflexivity.
    + rewrite N.lxor_spec, Hw, Hpt. reflexivity.
Qed.

Lemma lz8_le b : lz8 b <= 8.
Proof. unfold lz8. destruct (b =? 0); lia. Qed.

Lemma lz8_8 b : lz8 b = 8 <-> b = 0.
Proof. unfold lz8. destruct (N.eqb_spec b 0); split; intros; try lia. Qed.

(* p < 256 with lz8 p = u < 8: top bit at t = 7 - u *)
Lemma lz8_top p u : p < 256 -> lz8 p = u -> u < 8 ->
  p / 2 ^ (7 - u + 1) = 0 /\ N.testbit p (7 - u) = true.
Proof.
  unfold lz8. intros Hp Hu Hu8. destruct (N.eqb_spec p 0) as [->|Hn]; [lia|].
  assert (Hl : N.log2 p < 8) by (apply N.log2_lt_pow2; lia).
  replace (7 - u) with (N.log2 p) by lia. split.
  - apply N.div_small. rewrite N.add_1_r. apply N.log2_spec. lia.
  - apply N.bit_log2. exact Hn.
Qed.

(* q < 256 with lz8 q > u: all bits from t = 7 - u upward are clear *)
Lemma lz8_below q u : q < 256 -> u < lz8 q -> u < 8 -> q / 2 ^ (7 - u) = 0.
Proof.
  unfold lz8. intros Hq Hu Hu8. destruct (N.eqb_spec q 0) as [->|Hn].
  - apply N.div_0_l. apply N.pow_nonzero. lia.
  - assert (Hl : N.log2 q < 8) by (apply N.log2_lt_pow2; lia).
    apply N.div_small.
    eapply N.lt_le_trans; [apply N.log2_spec; lia|].
    apply N.pow_le_mono_r; lia.
Qed.

(* ---------- leading zeros of locus ^ key, for keys at least as long as the locus ---------- *)
Fixpoint lzx (L a : bytes) : N :=
  match L, a with
  | l0 :: L', a0 :: a' => let z := lz8 (N.lxor l0 a0) in if z <? 8 then z else 8 + lzx L' a'
  | _, _ => 0
  end.

Lemma zerosN_nil n : zerosN n = [] -> n = O.
Proof. destruct n; [reflexivity|discriminate]. Qed.

Lemma xor_bytes_length_le L : forall a, (length L <= length a)%nat -> length (xor_bytes L a) = length L.
Proof.
  induction L as [|l0 L IH]; intros [|a0 a] H; cbn in *; try reflexivity; try lia.
  rewrite IH; [reflexivity|lia].
Qed.

Lemma leading_zeros_xor L : forall a, leading_zeros (xor_bytes L a) = lzx L a.
Proof.
  induction L as [|l0 L IH]; intros [|a0 a]; cbn [xor_bytes leading_zeros lzx]; try reflexivity.
  destruct (lz8 (N.lxor l0 a0) <? 8); [reflexivity|]. now rewrite IH.
Qed.

Lemma bucket_index_lzx L a : (length L <= length a)%nat -> bucket_index L a = lzx L a.
Proof.
  intros H. unfold bucket_index, xor_into.
  rewrite firstn_all2 by (rewrite xor_bytes_length_le; lia).
  rewrite xor_bytes_length_le by lia. rewrite Nat.sub_diag. cbn [zerosN].
  rewrite app_nil_r. apply leading_zeros_xor.
Qed.

Lemma bit_at_cons b d i : 8 <= i -> bit_at (b :: d) i = bit_at d (i - 8).
Proof.
  intros Hi. unfold bit_at.
  replace (N.to_nat (i / 8)) with (S (N.to_nat ((i - 8) / 8))) by lia.
  cbn [nth_error]. replace ((i - 8) mod 8) with (i mod 8) by lia. reflexivity.
Qed.

Lemma bit_at_head b d i : i < 8 -> bit_at (b :: d) i = N.testbit b (7 - i).
Proof.
  intros Hi. unfold bit_at. replace (i / 8) with 0 by lia. cbn [N.to_nat nth_error].
  replace (i mod 8) with i by lia. reflexivity.
Qed.

Lemma bit_at_nil i : bit_at [] i = false.
Proof. unfold bit_at. destruct (N.to_nat (i / 8)); reflexivity. Qed.

(* Cross-bucket ordering. a sits in bucket i, b in a deeper bucket j.  If k differs
   from the locus at bit i, a is strictly nearer to k than b; otherwise b is at
   least as near as a. *)
Lemma cross_bucket L : forall a b k i j,
  wf_bytes L = true -> wf_bytes a = true -> wf_bytes b = true -> wf_bytes k = true ->
  (length L <= length a)%nat -> (length L <= length b)%nat ->
  lzx L a = i -> lzx L b = j -> i < j ->
  (bit_at (xor_bytes L k) i = true -> distance_cmp k a b = Lt) /\
  (bit_at (xor_bytes L k) i = false -> distance_cmp k b a <> Gt).
Proof.
  induction L as [|l0 L IH]; intros a b k i j HL Ha Hb Hk Hla Hlb Hi Hj Hij.
  - destruct a, b; cbn in Hi, Hj; lia.
  - destruct a as [|a0 a]; [cbn in Hla; lia|]. destruct b as [|b0 b]; [cbn in Hlb; lia|].
    cbn [wf_bytes forallb] in HL, Ha, Hb.
    apply andb_prop in HL as [Hl0 HL]. apply andb_prop in Ha as [Ha0 Ha]. apply andb_prop in Hb as [Hb0 Hb].
    unfold wf_byte in Hl0, Ha0, Hb0.
    destruct k as [|k0 k].
    { cbn [xor_bytes]. rewrite bit_at_nil. split; [discriminate|]. cbn. discriminate. }
    cbn [wf_bytes forallb] in Hk. apply andb_prop in Hk as [Hk0 Hk]. unfold wf_byte in Hk0.
    cbn [lzx] in Hi, Hj. cbn [xor_bytes distance_cmp].
    set (p := N.lxor l0 a0) in *. set (q := N.lxor l0 b0) in *.
    assert (Hp256 : p < 256) by (apply lxor_lt_256; lia).
    assert (Hq256 : q < 256) by (apply lxor_lt_256; lia).
    pose proof (lz8_le p) as Hpl. pose proof (lz8_le q) as Hql.
    assert (Eka : N.lxor k0 a0 = N.lxor (N.lxor l0 k0) p).
    { unfold p. rewrite (N.lxor_comm l0 k0), N.lxor_assoc, <- (N.lxor_assoc l0 l0 a0), N.lxor_nilpotent, N.lxor_0_l. reflexivity. }
    assert (Ekb : N.lxor k0 b0 = N.lxor (N.lxor l0 k0) q).
    { unfold q. rewrite (N.lxor_comm l0 k0), N.lxor_assoc, <- (N.lxor_assoc l0 l0 b0), N.lxor_nilpotent, N.lxor_0_l. reflexivity. }
    destruct (N.ltb_spec (lz8 p) 8) as [Hp8|Hp8].
    + (* the first difference of a is inside this byte *)
      subst i. rewrite bit_at_head by lia.
      assert (Hq' : lz8 p < lz8 q) by (destruct (N.ltb_spec (lz8 q) 8); lia).
      destruct (lz8_top p (lz8 p) Hp256 eq_refl Hp8) as [Hp1 Hp2].
      pose proof (lz8_below q (lz8 p) Hq256 Hq' Hp8) as Hq1.
      destruct (byte_order (N.lxor l0 k0) p q (7 - lz8 p) Hp1 Hp2 Hq1) as [B1 B2].
      rewrite Eka, Ekb. split; intros Hw.
      * specialize (B1 Hw). destruct (N.ltb_spec (N.lxor (N.lxor l0 k0) p) (N.lxor (N.lxor l0 k0) q)); [reflexivity|lia].
      * specialize (B2 Hw). destruct (N.ltb_spec (N.lxor (N.lxor l0 k0) q) (N.lxor (N.lxor l0 k0) p)); [discriminate|lia].
    + (* a agrees with the locus on this byte; so does b *)
      assert (Hzp : lz8 p = 8) by lia.
      assert (Hzq : lz8 q = 8) by (destruct (N.ltb_spec (lz8 q) 8); lia).
      assert (Hp0 : p = 0) by (now apply lz8_8). assert (Hq0 : q = 0) by (now apply lz8_8).
      destruct (N.ltb_spec (lz8 q) 8); [lia|].
      assert (Hab : a0 = b0).
      { unfold p in Hp0. unfold q in Hq0. apply N.lxor_eq in Hp0. apply N.lxor_eq in Hq0. congruence. }
      subst b0. rewrite N.ltb_irrefl.
      rewrite bit_at_cons by lia.
      cbn in Hla, Hlb.
      destruct (IH a b k (i - 8) (j - 8) HL Ha Hb Hk ltac:(lia) ltac:(lia) ltac:(lia) ltac:(lia) ltac:(lia)) as [I1 I2].
      split; assumption.
Qed.

(* ---------- insertion sort by distance ---------- *)
Section Sorting.
  Context {E : Type} (key : E -> bytes).

  Fixpoint insert_by (k : bytes) (e : E) (l : list E) : list E :=
    match l with
    | [] => [e]
    | h :: t => if distance_lt k (key e) (key h) then e :: l else h :: insert_by k e t
    end.

  Definition le_k (k : bytes) (x y : E) : Prop := dle k (key x) (key y).

  Lemma insert_by_perm k e l : Permutation (insert_by k e l) (e :: l).
  Proof.
    induction l as [|h t IH]; cbn [insert_by]; [reflexivity|].
    destruct (distance_lt k (key e) (key h)); [reflexivity|].
    rewrite IH. apply perm_swap.
  Qed.

  Lemma insert_by_sorted k e l :
    StronglySorted (le_k k) l -> StronglySorted (le_k k) (insert_by k e l).
  Proof.
    induction l as [|h t IH]; intros Hs; cbn [insert_by].
    - constructor; constructor.
    - inversion Hs as [|? ? Hst Hall]; subst.
      unfold distance_lt. destruct (distance_cmp k (key e) (key h)) eqn:Hc.
      + constructor; [now apply IH|].
        eapply Permutation_Forall; [symmetry; apply insert_by_perm|].
        constructor; [|assumption].
        unfold le_k. apply not_lt_dle. congruence.
      + constructor; [assumption|]. constructor.
        * unfold le_k, dle. congruence.
        * eapply Forall_impl; [|exact Hall]. intros y Hy. unfold le_k in *.
          eapply dle_trans; [|exact Hy]. unfold dle. congruence.
      + constructor; [now apply IH|].
        eapply Permutation_Forall; [symmetry; apply insert_by_perm|].
        constructor; [|assumption].
        unfold le_k. apply not_lt_dle. congruence.
  Qed.
End Sorting.

Lemma StronglySorted_app {A} (R : A -> A -> Prop) l1 l2 :
  StronglySorted R l1 -> StronglySorted R l2 ->
  (forall x y, In x l1 -> In y l2 -> R x y) -> StronglySorted R (l1 ++ l2).
Proof.
  induction l1 as [|h t IH]; intros H1 H2 Hx; cbn [app]; [assumption|].
  inversion H1 as [|? ? Ht Hall]; subst. constructor.
  - apply IH; auto. intros x y Hi Hy. apply Hx; [now right|assumption].
  - apply Forall_app. split; [assumption|].
    apply Forall_forall. intros y Hy. apply Hx; [now left|assumption].
Qed.

(* DistanceLz(a, b) == LeadingZeros(Distance(a, b)) (the doc comment of DistanceLz), all lengths *)
Lemma distance_lz_spec a : forall b, distance_lz a b = leading_zeros (distance a b).
Proof.
  induction a as [|x a IH]; intros [|y b]; cbn [distance_lz distance xor_bytes leading_zeros]; try reflexivity.
  destruct (lz8 (N.lxor x y) <? 8); [reflexivity|]. f_equal. apply IH.
Qed.

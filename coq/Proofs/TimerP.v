From P2PV Require Import Lib.Base Model.Timer.
From Coq Require Import Lia.
Open Scope nat_scope.

(* a Reset made by the callback is not lost: the timer is pending again after it fired *)
Lemma rearm_survives t b : t_pending t = true -> t_budget t = S b ->
  t_pending (tstep t TElapse) = true /\ t_fires (tstep t TElapse) = S (t_fires t) /\ t_budget (tstep t TElapse) = b.
Proof. intros P B. unfold tstep. rewrite P, B. cbn. auto. Qed.

(* retransmission goes on for as long as the callback re-arms: an armed timer whose
   callback re-arms b more times fires exactly b+1 times and is then idle *)
Theorem fires_until_budget_spent b : forall t fuel, t_pending t = true -> t_budget t = b -> b < fuel ->
  let t' := quiesce fuel t in t_fires t' = t_fires t + S b /\ t_pending t' = false.
Proof.
  induction b as [|b IH]; intros t fuel P B F; (destruct fuel as [|f]; [exfalso; lia|]); cbv zeta; cbn [quiesce]; rewrite P.
  - unfold tstep. rewrite P, B. destruct f; cbn; split; auto; lia.
  - destruct (rearm_survives t b P B) as [P' [Fi B']].
    destruct (IH (tstep t TElapse) f P' B' ltac:(lia)) as [E1 E2]. cbv zeta in E1, E2. split; [|exact E2]. rewrite E1, Fi. lia.
Qed.

(* a stopped timer never fires, however much time passes *)
Theorem stopped_never_fires t evs : t_pending t = false -> (forall e, In e evs -> e = TElapse \/ e = TStop) ->
  t_fires (trun t evs) = t_fires t /\ t_pending (trun t evs) = false.
Proof.
  revert t. induction evs as [|e r IH]; intros t P H; [auto|]. cbn [trun fold_left].
  assert (He : e = TElapse \/ e = TStop) by (apply H; left; auto).
  assert (St : t_fires (tstep t e) = t_fires t /\ t_pending (tstep t e) = false).
  { destruct He as [-> | ->]; unfold tstep; rewrite ?P; auto. }
  destruct St as [F P']. destruct (IH (tstep t e) P') as [F2 P2]; [intros e' He'; apply H; right; auto|].
  unfold trun in *. rewrite F2, F. auto.
Qed.

(* fires only when pending: without an Arm in between, at most one firing per arming round *)
Theorem fires_at_most_budget t : t_fires (tstep t TElapse) <= S (t_fires t).
Proof. unfold tstep. destruct (t_pending t); [destruct (t_budget t)|]; cbn; lia. Qed.

Example timer_script_example :
  tscript timer0 [OArm 3; OQuiesce; OArm 0; OStop; OQuiesce; OArm 1; OQuiesce] = [4; 4; 6].
Proof. reflexivity. Qed.

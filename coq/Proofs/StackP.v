(* MTU honesty of arbitrary stacks of layers (C09). *)
From P2PV Require Import Lib.Base Lib.Varint Model.Mux Model.Frag Model.Mbapp Model.Stack
  Proofs.BaseP Proofs.VarintP Proofs.FragP.
From Coq Require Import Lia ZifyBool ZifyN ZifyNat.
Arguments N.pow : simpl never.
Arguments N.mul : simpl never.
Open Scope N_scope.

Lemma encode_header_len h : lenN (encode_header h) = 24.
Proof. unfold encode_header. rewrite !lenN_app, !be_encode_len. reflexivity. Qed.

(* ---- mbapp sender ---- *)
Lemma mb_tell_err inner cfg h p :
  (mb_mtu inner cfg < Z.of_N (lenN p))%Z -> mb_tell inner cfg h p = Err E_MTU.
Proof. intros H. unfold mb_tell. destruct (Z.ltb_spec (mb_mtu inner cfg) (Z.of_N (lenN p))); [reflexivity|lia]. Qed.

Lemma mb_tell_ok inner cfg h p :
  (1 <= part_size inner)%Z -> (Z.of_N (lenN p) <= mb_mtu inner cfg)%Z ->
  exists ps, mb_tell inner cfg h p = Ok ps /\ Forall (fun w => (Z.of_N (lenN w) <= inner)%Z) ps.
Proof.
  intros Hp Hm. unfold mb_tell, mb_send.
  destruct (Z.ltb_spec (mb_mtu inner cfg) (Z.of_N (lenN p))); [lia|].
  destruct (Z.ltb_spec (part_size inner) 1); [lia|].
  set (sz := Z.to_nat (part_size inner)). assert (Hsz : (0 < sz)%nat) by lia.
  destruct (chunks_bound sz p Hsz) as (Hall & _ & _).
  pose proof (chunks_concat sz p Hsz) as Hc.
  assert (G : forall hd c, (length c <= sz)%nat -> (Z.of_N (lenN (encode_header hd ++ c)) <= inner)%Z).
  { intros hd c Hl. rewrite lenN_app, encode_header_len, lenN_spec. unfold part_size, HEADER_SIZE in *. lia. }
  destruct (chunks sz p) as [|c [|c2 t]] eqn:E.
  - eexists; split; [reflexivity|]. constructor; [|constructor].
    rewrite (chunks_nil sz p Hsz E). apply G. cbn. lia.
  - eexists; split; [reflexivity|]. constructor; [|constructor].
    rewrite <- (chunks_single sz p c Hsz E). apply G. rewrite Forall_forall in Hall. apply (Hall c). now left.
  - eexists; split; [reflexivity|]. apply Forall_forall. intros w Hin.
    apply in_map_iff in Hin as ([i c'] & <- & Hin). cbn [fst snd]. apply G.
    apply In_nth_error in Hin as (j & Hj). apply number_from_spec in Hj as (y & Hy & E2). injection E2 as _ ->.
    rewrite Forall_forall in Hall. apply (Hall y). eapply nth_error_In; eauto.
Qed.

(* ---- fragswarm sender, packaged the same way ---- *)
Lemma frag_tell_fits inner cfg id p :
  (1 <= under_mtu inner)%Z -> id < 2 ^ 32 -> (Z.of_N (lenN p) <= frag_mtu inner cfg)%Z ->
  exists ps, frag_tell inner cfg id p = Ok ps /\ Forall (fun w => (Z.of_N (lenN w) <= inner)%Z) ps.
Proof.
  intros Hu Hid Hm. destruct (frag_tell_ok inner cfg id p Hu Hm) as (E & _ & Hn & Hall).
  eexists; split; [exact E|]. apply Forall_forall. intros w Hin.
  eapply fragment_fits; eauto.
Qed.

(* ---- one layer ---- *)
Lemma layer_accepts l inner p :
  wf_layer l inner -> (Z.of_N (lenN p) <= layer_mtu l inner)%Z ->
  exists ms, layer_send l inner p = Ok ms /\ Forall (fun m => (Z.of_N (lenN m) <= inner)%Z) ms.
Proof.
  intros Hwf Hle. destruct l as [k c|cfg id|cfg h| |other|]; cbn [layer_send layer_mtu wf_layer] in *.
  - eexists; split; [reflexivity|]. constructor; [|constructor]. unfold frame. rewrite lenN_app. lia.
  - destruct Hwf. now apply frag_tell_fits.
  - now apply mb_tell_ok.
  - destruct (Z.ltb_spec (Z.min (inner - KE_OVERHEAD) KE_MAX_MESSAGE_LEN) (Z.of_N (lenN p))); [lia|].
    eexists; split; [reflexivity|]. constructor; [|constructor].
    unfold ke_frame. rewrite !lenN_app. change (lenN (repeat 0 4)) with 4. change (lenN (repeat 0 16)) with 16.
    unfold KE_OVERHEAD in *. lia.
  - destruct (Z.ltb_spec (Z.min inner other) (Z.of_N (lenN p))); [lia|].
    eexists; split; [reflexivity|]. constructor; [lia|constructor].
  - eexists; split; [reflexivity|]. constructor; [lia|constructor].
Qed.

(* a layer either refuses an oversized payload itself or hands down exactly one
   message that is oversized for the swarm beneath *)
Lemma layer_refuses l inner p :
  (layer_mtu l inner < Z.of_N (lenN p))%Z ->
  layer_send l inner p = Err E_MTU \/
  exists m, layer_send l inner p = Ok [m] /\ (inner < Z.of_N (lenN m))%Z.
Proof.
  intros Hgt. destruct l as [k c|cfg id|cfg h| |other|]; cbn [layer_send layer_mtu] in *.
  - right. eexists; split; [reflexivity|]. unfold frame. rewrite lenN_app. lia.
  - left. now apply frag_tell_err.
  - left. now apply mb_tell_err.
  - left. destruct (Z.ltb_spec (Z.min (inner - KE_OVERHEAD) KE_MAX_MESSAGE_LEN) (Z.of_N (lenN p))); [reflexivity|lia].
  - left. destruct (Z.ltb_spec (Z.min inner other) (Z.of_N (lenN p))); [reflexivity|lia].
  - right. eexists; split; [reflexivity|]. lia.
Qed.

Lemma sends_ok (f : bytes -> result (list bytes)) (P : bytes -> Prop) ms :
  Forall (fun m => exists ws, f m = Ok ws /\ Forall P ws) ms ->
  exists ws, sends f ms = Ok ws /\ Forall P ws.
Proof.
  induction ms as [|m t IH]; intros H.
  - exists []. split; [reflexivity|constructor].
  - inversion H as [|? ? (a & Ea & Pa) Ht]; subst. destruct (IH Ht) as (b & Eb & Pb).
    exists (a ++ b). cbn [sends]. rewrite Ea, Eb. split; [reflexivity|]. apply Forall_app; now split.
Qed.

(* the whole stack *)
Theorem stack_honest st : forall base p, wf_stack st base ->
  ((Z.of_N (lenN p) <= stack_mtu st base)%Z ->
     exists ws, stack_send st base p = Ok ws /\ Forall (fun w => (Z.of_N (lenN w) <= base)%Z) ws) /\
  ((stack_mtu st base < Z.of_N (lenN p))%Z -> stack_send st base p = Err E_MTU).
Proof.
  induction st as [|l below IH]; intros base p Hwf; cbn [stack_send stack_mtu].
  - split; intros H.
    + destruct (Z.ltb_spec base (Z.of_N (lenN p))); [lia|]. eexists; split; [reflexivity|]. constructor; [lia|constructor].
    + destruct (Z.ltb_spec base (Z.of_N (lenN p))); [reflexivity|lia].
  - destruct Hwf as [Hl Hb]. split; intros H.
    + destruct (layer_accepts l _ p Hl H) as (ms & E & Hall). rewrite E.
      apply sends_ok. apply Forall_forall. intros m Hin. rewrite Forall_forall in Hall.
      exact (proj1 (IH base m Hb) (Hall m Hin)).
    + destruct (layer_refuses l _ p H) as [E|(m & E & Hm)]; rewrite E; [reflexivity|].
      cbn [sends]. now rewrite (proj2 (IH base m Hb) Hm).
Qed.

(* nothing is emitted on refusal is immediate (the result is an error, not a
   list); and the accepted case never produces the empty list of wire messages *)
Lemma sends_nonempty f ms ws : ms <> [] -> (forall m a, f m = Ok a -> a <> []) -> sends f ms = Ok ws -> ws <> [].
Proof.
  intros Hne Hf. destruct ms as [|m t]; [congruence|]. cbn [sends].
  destruct (f m) as [a| |] eqn:Ea; try discriminate. destruct (sends f t) as [b| |]; try discriminate.
  intros [= <-]. specialize (Hf m a Ea). destruct a; [congruence|discriminate].
Qed.

From P2PV Require Import Lib.Base.
From Coq Require Import Lia ZifyBool ZifyN ZifyNat.
Ltac Zify.zify_post_hook ::= Z.div_mod_to_equations.
Open Scope N_scope.

Lemma lenN_acc_spec {A} (l : list A) acc : lenN_acc l acc = acc + N.of_nat (length l).
Proof. revert acc; induction l as [|x l IH]; intros acc; cbn [lenN_acc length]; [lia|]. rewrite IH; lia. Qed.

Lemma lenN_spec {A} (l : list A) : lenN l = N.of_nat (length l).
Proof. unfold lenN; rewrite lenN_acc_spec; lia. Qed.

Lemma lenN_nil {A} : lenN (@nil A) = 0.
Proof. reflexivity. Qed.

Lemma lenN_cons {A} (x : A) l : lenN (x :: l) = N.succ (lenN l).
Proof. rewrite !lenN_spec; cbn [length]; lia. Qed.

Lemma lenN_app {A} (a b : list A) : lenN (a ++ b) = lenN a + lenN b.
Proof. rewrite !lenN_spec, app_length; lia. Qed.

Lemma takeN_firstn {A} n (l : list A) : takeN n l = firstn (N.to_nat n) l.
Proof.
  revert n; induction l as [|x l IH]; intros n; cbn [takeN].
  - now rewrite firstn_nil.
  - destruct (N.eqb_spec n 0) as [->|Hn]; [reflexivity|].
    replace (N.to_nat n) with (S (N.to_nat (N.pred n))) by lia.
    cbn [firstn]; now rewrite IH.
Qed.

Lemma dropN_skipn {A} n (l : list A) : dropN n l = skipn (N.to_nat n) l.
Proof.
  revert n; induction l as [|x l IH]; intros n; cbn [dropN].
  - now rewrite skipn_nil.
  - destruct (N.eqb_spec n 0) as [->|Hn]; [reflexivity|].
    replace (N.to_nat n) with (S (N.to_nat (N.pred n))) by lia.
    cbn [skipn]; now rewrite IH.
Qed.

Lemma takeN_app_len {A} (a b : list A) : takeN (lenN a) (a ++ b) = a.
Proof.
  rewrite takeN_firstn, lenN_spec, Nat2N.id.
  rewrite firstn_app, Nat.sub_diag, firstn_all; cbn [firstn]; now rewrite app_nil_r.
Qed.

Lemma dropN_app_len {A} (a b : list A) : dropN (lenN a) (a ++ b) = b.
Proof.
  rewrite dropN_skipn, lenN_spec, Nat2N.id.
  rewrite skipn_app, Nat.sub_diag, skipn_all; reflexivity.
Qed.

Lemma takeN_dropN {A} n (l : list A) : takeN n l ++ dropN n l = l.
Proof. rewrite takeN_firstn, dropN_skipn; apply firstn_skipn. Qed.

Lemma lenN_takeN {A} n (l : list A) : lenN (takeN n l) = N.min n (lenN l).
Proof. rewrite takeN_firstn, !lenN_spec, firstn_length; lia. Qed.

Lemma lenN_dropN {A} n (l : list A) : lenN (dropN n l) = lenN l - n.
Proof. rewrite dropN_skipn, !lenN_spec, skipn_length; lia. Qed.

Lemma bytes_eqb_spec a b : reflect (a = b) (bytes_eqb a b).
Proof.
  revert b; induction a as [|x a IH]; intros [|y b]; cbn [bytes_eqb]; try (constructor; congruence).
  destruct (N.eqb_spec x y) as [->|Hxy]; cbn [andb].
  - destruct (IH b) as [->|Hab]; constructor; congruence.
  - constructor; congruence.
Qed.

Lemma bytes_eqb_refl a : bytes_eqb a a = true.
Proof. destruct (bytes_eqb_spec a a); congruence. Qed.

Lemma wf_bytes_app a b : wf_bytes (a ++ b) = wf_bytes a && wf_bytes b.
Proof. unfold wf_bytes; apply forallb_app. Qed.

Lemma wf_bytes_forall x : wf_bytes x = true <-> Forall (fun b => b < 256) x.
Proof.
  unfold wf_bytes; rewrite forallb_forall, Forall_forall.
  split; intros H b Hb; specialize (H b Hb); unfold wf_byte in *; lia.
Qed.

Lemma In_takeN {A} n (l : list A) x : In x (takeN n l) -> In x l.
Proof. intros H; rewrite <- (takeN_dropN n l); apply in_or_app; now left. Qed.

Lemma In_dropN {A} n (l : list A) x : In x (dropN n l) -> In x l.
Proof. intros H; rewrite <- (takeN_dropN n l); apply in_or_app; now right. Qed.

Lemma wf_bytes_takeN n x : wf_bytes x = true -> wf_bytes (takeN n x) = true.
Proof.
  rewrite !wf_bytes_forall, !Forall_forall; intros H b Hb; apply H; eapply In_takeN; eauto.
Qed.

Lemma wf_bytes_dropN n x : wf_bytes x = true -> wf_bytes (dropN n x) = true.
Proof.
  rewrite !wf_bytes_forall, !Forall_forall; intros H b Hb; apply H; eapply In_dropN; eauto.
Qed.

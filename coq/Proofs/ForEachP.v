(* C19: the enumeration order of the (repaired) ForEach is nearest-first and complete. *)
From P2PV Require Import Lib.Base Model.Distance Model.Cache Proofs.BaseP Proofs.DistanceP.
From Coq Require Import Lia ZifyBool ZifyN ZifyNat Sorting.Sorted Sorting.Permutation.
Open Scope N_scope.

Definition ele (k : bytes) : entry -> entry -> Prop := le_k e_key k.

Lemma insert_sorted_eq k e l : insert_sorted k e l = insert_by e_key k e l.
Proof. induction l as [|h t IH]; cbn; [reflexivity|]. now rewrite IH. Qed.

Lemma sort_bucket_perm k es : Permutation (sort_bucket k es) es.
Proof.
  unfold sort_bucket. induction es as [|e es IH]; cbn [fold_right]; [reflexivity|].
  rewrite insert_sorted_eq, insert_by_perm. now constructor.
Qed.

Lemma sort_bucket_sorted k es : StronglySorted (ele k) (sort_bucket k es).
Proof.
  unfold sort_bucket. induction es as [|e es IH]; cbn [fold_right]; [constructor|].
  rewrite insert_sorted_eq. now apply insert_by_sorted.
Qed.

(* what the theorem needs to know about the buckets: entry keys are well-formed,
   at least as long as the locus, and sit in the bucket of their index *)
Definition placed (L : bytes) (bs : list bucket) (start : N) : Prop :=
  forall n b e, nth_error bs n = Some b -> In e (b_ents b) ->
    wf_bytes (e_key e) = true /\ (length L <= length (e_key e))%nat /\
    lzx L (e_key e) = start + N.of_nat n.

Lemma placed_tail L b t i : placed L (b :: t) i -> placed L t (N.succ i).
Proof.
  intros H n b' e Hn He. destruct (H (S n) b' e Hn He) as (? & ? & ?). repeat split; auto. lia.
Qed.

Lemma visit_perm d k bs : forall i, Permutation (visit d k bs i) (flat_map b_ents bs).
Proof.
  induction bs as [|b t IH]; intros i; cbn [visit flat_map]; [reflexivity|].
  destruct (bit_at d i).
  - apply Permutation_app; [apply sort_bucket_perm|apply IH].
  - rewrite Permutation_app_comm. apply Permutation_app; [apply sort_bucket_perm|apply IH].
Qed.

Lemma in_flat_map_nth (bs : list bucket) e :
  In e (flat_map b_ents bs) -> exists n b, nth_error bs n = Some b /\ In e (b_ents b).
Proof.
  induction bs as [|b t IH]; cbn [flat_map]; [contradiction|].
  intros H. apply in_app_or in H as [H|H].
  - exists O, b. split; [reflexivity|assumption].
  - destruct (IH H) as (n & b' & Hn & He). exists (S n), b'. split; assumption.
Qed.

Lemma visit_sorted L k : wf_bytes L = true -> wf_bytes k = true ->
  forall bs i, placed L bs i -> StronglySorted (ele k) (visit (xor_bytes L k) k bs i).
Proof.
  intros HL Hk. induction bs as [|b t IH]; intros i Hp; cbn [visit]; [constructor|].
  pose proof (placed_tail _ _ _ _ Hp) as Hpt. specialize (IH (N.succ i) Hpt).
  assert (Hcross : forall x y, In x (b_ents b) -> In y (visit (xor_bytes L k) k t (N.succ i)) ->
     (bit_at (xor_bytes L k) i = true -> distance_cmp k (e_key x) (e_key y) = Lt) /\
     (bit_at (xor_bytes L k) i = false -> distance_cmp k (e_key y) (e_key x) <> Gt)).
  { intros x y Hx Hy.
    destruct (Hp O b x eq_refl Hx) as (Hwx & Hlx & Hix).
    apply (Permutation_in _ (visit_perm _ _ _ _)) in Hy.
    destruct (in_flat_map_nth _ _ Hy) as (n & b' & Hn & Hyb).
    destruct (Hpt n b' y Hn Hyb) as (Hwy & Hly & Hiy).
    apply (cross_bucket L (e_key x) (e_key y) k i (N.succ i + N.of_nat n)); auto; lia. }
  destruct (bit_at (xor_bytes L k) i) eqn:Hb.
  - apply StronglySorted_app; [apply sort_bucket_sorted|exact IH|].
    intros x y Hx Hy. apply (Permutation_in _ (sort_bucket_perm _ _)) in Hx.
    destruct (Hcross x y Hx Hy) as [C _]. unfold ele, le_k, dle. rewrite C by reflexivity. discriminate.
  - apply StronglySorted_app; [exact IH|apply sort_bucket_sorted|].
    intros y x Hy Hx. apply (Permutation_in _ (sort_bucket_perm _ _)) in Hx.
    destruct (Hcross x y Hx Hy) as [_ C]. unfold ele, le_k, dle. now apply C.
Qed.

(* the two-pass loop of the code computes the same sequence *)
Lemma pass_set_visit d k bs : forall i,
  visit d k bs i = fst (pass_set d k bs i) ++ concat (rev (snd (pass_set d k bs i))).
Proof.
  induction bs as [|b t IH]; intros i; cbn [visit pass_set]; [reflexivity|].
  specialize (IH (N.succ i)). destruct (pass_set d k t (N.succ i)) as [first deferred].
  cbn [fst snd] in IH. destruct (bit_at d i); cbn [fst snd].
  - now rewrite IH, app_assoc.
  - cbn [rev]. rewrite concat_app. cbn [concat]. rewrite app_nil_r, IH, app_assoc. reflexivity.
Qed.

Lemma for_each_code_eq c k : for_each_code c k = for_each c k.
Proof.
  unfold for_each_code, for_each. rewrite pass_set_visit.
  destruct (pass_set _ _ _ _). reflexivity.
Qed.

Definition cache_placed (c : cache) : Prop := placed (c_locus c) (c_buckets c) 0.

Theorem foreach_sorted_complete c k :
  wf_bytes (c_locus c) = true -> wf_bytes k = true -> cache_placed c ->
  Permutation (for_each c k) (contents c) /\ StronglySorted (ele k) (for_each c k).
Proof.
  intros HL Hk Hp. split.
  - apply visit_perm.
  - unfold for_each, distance. now apply visit_sorted.
Qed.

(* ---- corollaries ---- *)
Lemma sorted_head_min {A} (R : A -> A -> Prop) (Hr : forall x, R x x) l x :
  StronglySorted R l -> hd_error l = Some x -> forall y, In y l -> R x y.
Proof.
  intros Hs Hh y Hy. destruct l as [|h t]; [discriminate|]. injection Hh as ->.
  inversion Hs as [|? ? _ Hall]; subst. destruct Hy as [->|Hy]; [apply Hr|].
  rewrite Forall_forall in Hall. now apply Hall.
Qed.

Theorem closest_is_min c k e :
  wf_bytes (c_locus c) = true -> wf_bytes k = true -> cache_placed c ->
  closest c k = Some e ->
  In e (contents c) /\ forall e', In e' (contents c) -> distance_cmp k (e_key e) (e_key e') <> Gt.
Proof.
  intros HL Hk Hp Hc. destruct (foreach_sorted_complete c k HL Hk Hp) as [Hperm Hs].
  unfold closest in Hc. split.
  - apply (Permutation_in _ Hperm). destruct (for_each c k); [discriminate|]. injection Hc as ->. now left.
  - intros e' He'. apply (sorted_head_min (ele k) (fun x => dle_refl k (e_key x)) _ _ Hs Hc).
    apply (Permutation_in _ (Permutation_sym Hperm)). exact He'.
Qed.

Theorem closest_none_iff_empty c k : closest c k = None <-> contents c = [].
Proof.
  unfold closest. pose proof (visit_perm (distance (c_locus c) k) k (c_buckets c) 0) as Hperm.
  fold (for_each c k) in Hperm. fold (contents c) in Hperm. split; intros H.
  - destruct (for_each c k) eqn:E; [|discriminate]. apply Permutation_nil. now symmetry in Hperm.
  - rewrite H in Hperm. apply Permutation_sym, Permutation_nil in Hperm. rewrite Hperm. reflexivity.
Qed.

(* take_while over a sorted list with a downward-closed predicate is a filter *)
Lemma take_while_sorted {A} (R : A -> A -> Prop) (f : A -> bool) l :
  StronglySorted R l -> (forall x y, R x y -> f y = true -> f x = true) ->
  forall x, In x (take_while f l) <-> In x l /\ f x = true.
Proof.
  intros Hs Hd. induction l as [|h t IH]; intros x; cbn [take_while]; [cbn; tauto|].
  inversion Hs as [|? ? Ht Hall]; subst. specialize (IH Ht).
  destruct (f h) eqn:Hf.
  - cbn [In]. rewrite IH. split; [intros [->|[? ?]]|intros [[->|?] ?]]; auto.
  - cbn [In]. split; [contradiction|]. intros [[->|Hin] Hfx]; [congruence|].
    rewrite Forall_forall in Hall. specialize (Hall x Hin).
    rewrite (Hd h x Hall Hfx) in Hf. discriminate.
Qed.

Theorem closer_exact c x :
  wf_bytes (c_locus c) = true -> wf_bytes x = true -> cache_placed c ->
  forall e, In e (for_each_closer c x) <->
            In e (contents c) /\ distance_cmp x (e_key e) (c_locus c) = Lt.
Proof.
  intros HL Hx Hp e. destruct (foreach_sorted_complete c x HL Hx Hp) as [Hperm Hs].
  unfold for_each_closer.
  rewrite (take_while_sorted (ele x) _ _ Hs).
  - unfold distance_lt. split; intros [Hin Hlt].
    + split; [now apply (Permutation_in _ Hperm)|]. destruct (distance_cmp x (e_key e) (c_locus c)); congruence.
    + split; [now apply (Permutation_in _ (Permutation_sym Hperm))|]. now rewrite Hlt.
  - intros a b Hab Hb. unfold distance_lt in *.
    destruct (distance_cmp x (e_key b) (c_locus c)) eqn:E; try discriminate.
    now rewrite (dle_lt_trans x _ _ _ Hab E).
Qed.

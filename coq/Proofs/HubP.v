(* C12 / C13 (and the hub part of C11) over every accepted event list of the hub
   transition system: any number of concurrent receivers and deliverers, any
   interleaving with cancellations and Close. *)
From P2PV Require Import Lib.Base Model.Hub.
From Coq Require Import Lia.
Close Scope N_scope.
Open Scope nat_scope.

Lemma upd_same {A} (f : nat -> A) i v : upd f i v i = v.
Proof. unfold upd. now rewrite Nat.eqb_refl. Qed.
Lemma upd_other {A} (f : nat -> A) i j v : i <> j -> upd f i v j = f j.
Proof. unfold upd. intros H. destruct (Nat.eqb_spec i j); [contradiction|reflexivity]. Qed.

Lemma hrun_app h a b : hrun h (a ++ b) = match hrun h a with Some h' => hrun h' b | None => None end.
Proof. revert h; induction a as [|e t IH]; intros h; [reflexivity|]. cbn [hrun app]. destruct (hstep h e); auto. Qed.

(* has deliverer call d / receiver call r been handed over *)
Definition met_d (s : dstate) : nat :=
  match s with DCommit _ | DDone _ | DRet true _ | DRet false (Some _) => 1 | _ => 0 end.
Definition met_r (s : rstate) : nat :=
  match s with RCb _ | RRet true _ | RRet false (Some _) => 1 | _ => 0 end.

Definition is_meet_d (d : nat) (e : hev) : nat := match e with HMeet _ d' => if Nat.eqb d d' then 1 else 0 | _ => 0 end.
Definition is_meet_r (r : nat) (e : hev) : nat := match e with HMeet r' _ => if Nat.eqb r r' then 1 else 0 | _ => 0 end.
Fixpoint count (f : hev -> nat) (evs : list hev) : nat := match evs with [] => 0 | e :: t => f e + count f t end.

Ltac upd_cases i j := destruct (Nat.eq_dec i j) as [->|?]; [rewrite ?upd_same|rewrite ?upd_other by assumption].

Lemma step_met_d h e h' d : hstep h e = Some h' -> met_d (h_d h' d) = met_d (h_d h d) + is_meet_d d e.
Proof.
  destruct e as [r|r ce|r d0|r|d0|d0|d0 ce|r|d0| |]; cbn [hstep is_meet_d]; intros H.
  - destruct (h_r h r); inversion H; subst; cbn; lia.
  - destruct (h_r h r); try discriminate; [destruct (if ce then _ else _)|destruct ce]; inversion H; subst; cbn; lia.
  - destruct (h_r h r) eqn:Er; try discriminate. destruct (h_d h d0) eqn:Ed; try discriminate. inversion H; subst. cbn [h_d set_d set_r].
    destruct (Nat.eqb_spec d d0) as [->|Hne].
    + rewrite upd_same, Ed. reflexivity.
    + rewrite upd_other by congruence. lia.
  - destruct (h_r h r) as [| | |d0|] eqn:Er; try discriminate. destruct (h_d h d0) as [| | |r'|r'|] eqn:Ed; try discriminate.
    destruct (Nat.eqb r r'); inversion H; subst. cbn [h_d set_d set_r].
    upd_cases d0 d; [rewrite Ed; cbn; lia|lia].
  - destruct (h_d h d0) eqn:Ed; inversion H; subst. cbn [h_d set_d]. upd_cases d0 d; [rewrite Ed; destruct (is_closed h); cbn; lia|lia].
  - destruct (h_d h d0) eqn:Ed; inversion H; subst. cbn [h_d set_d]. upd_cases d0 d; [rewrite Ed; cbn; lia|lia].
  - destruct (h_d h d0) eqn:Ed; try discriminate; [destruct (if ce then _ else _)|destruct ce]; inversion H; subst; cbn [h_d set_d];
      (upd_cases d0 d; [rewrite Ed; cbn; lia|lia]).
  - inversion H; subst; cbn; lia.
  - inversion H; subst; cbn; lia.
  - inversion H; subst. destruct (h_phase h); cbn; lia.
  - destruct (h_phase h); inversion H; subst; cbn; lia.
Qed.

Lemma step_met_r h e h' r : hstep h e = Some h' -> met_r (h_r h' r) = met_r (h_r h r) + is_meet_r r e.
Proof.
  destruct e as [r0|r0 ce|r0 d0|r0|d0|d0|d0 ce|r0|d0| |]; cbn [hstep is_meet_r]; intros H.
  - destruct (h_r h r0) eqn:Er; inversion H; subst. cbn [h_r set_r]. upd_cases r0 r; [rewrite Er; destruct (is_closed h); cbn; lia|lia].
  - destruct (h_r h r0) eqn:Er; try discriminate; [destruct (if ce then _ else _)|destruct ce]; inversion H; subst; cbn [h_r set_r];
      (upd_cases r0 r; [rewrite Er; cbn; lia|lia]).
  - destruct (h_r h r0) eqn:Er; try discriminate. destruct (h_d h d0) eqn:Ed; try discriminate. inversion H; subst. cbn [h_r set_d set_r].
    destruct (Nat.eqb_spec r r0) as [->|Hne].
    + rewrite upd_same, Er. reflexivity.
    + rewrite upd_other by congruence. lia.
  - destruct (h_r h r0) as [| | |d0|] eqn:Er; try discriminate. destruct (h_d h d0) as [| | |r'|r'|] eqn:Ed; try discriminate.
    destruct (Nat.eqb r0 r'); inversion H; subst. cbn [h_r set_d set_r].
    upd_cases r0 r; [rewrite Er; cbn; lia|lia].
  - destruct (h_d h d0); inversion H; subst; cbn; lia.
  - destruct (h_d h d0); inversion H; subst; cbn; lia.
  - destruct (h_d h d0); try discriminate; [destruct (if ce then _ else _)|destruct ce]; inversion H; subst; cbn; lia.
  - inversion H; subst; cbn; lia.
  - inversion H; subst; cbn; lia.
  - inversion H; subst. destruct (h_phase h); cbn; lia.
  - destruct (h_phase h); inversion H; subst; cbn; lia.
Qed.

Lemma run_met_d evs : forall h h' d, hrun h evs = Some h' -> met_d (h_d h' d) = met_d (h_d h d) + count (is_meet_d d) evs.
Proof.
  induction evs as [|e t IH]; intros h h' d H; cbn [hrun count] in *; [inversion H; lia|].
  destruct (hstep h e) as [h1|] eqn:E; [|discriminate]. rewrite (IH _ _ d H), (step_met_d _ _ _ d E). lia.
Qed.
Lemma run_met_r evs : forall h h' r, hrun h evs = Some h' -> met_r (h_r h' r) = met_r (h_r h r) + count (is_meet_r r) evs.
Proof.
  induction evs as [|e t IH]; intros h h' r H; cbn [hrun count] in *; [inversion H; lia|].
  destruct (hstep h e) as [h1|] eqn:E; [|discriminate]. rewrite (IH _ _ r H), (step_met_r _ _ _ r E). lia.
Qed.

Lemma met_d_le s : met_d s <= 1. Proof. destruct s as [| | | | |[|] [|]]; cbn; lia. Qed.
Lemma met_r_le s : met_r s <= 1. Proof. destruct s as [| | | |[|] [|]]; cbn; lia. Qed.

(* C13: a message is handed to at most one receiver callback, and a Receive call gets at most one message *)
Theorem at_most_one_meet evs h : hrun hub0 evs = Some h ->
  (forall d, count (is_meet_d d) evs <= 1) /\ (forall r, count (is_meet_r r) evs <= 1).
Proof.
  intros H. split; intros x.
  - pose proof (run_met_d evs hub0 h x H) as E. pose proof (met_d_le (h_d h x)). cbn in E. lia.
  - pose proof (run_met_r evs hub0 h x H) as E. pose proof (met_r_le (h_r h x)). cbn in E. lia.
Qed.

(* a returned call stays returned *)
Lemma dret_stable evs : forall h h' d ok m, hrun h evs = Some h' -> h_d h d = DRet ok m -> h_d h' d = DRet ok m.
Proof.
  induction evs as [|e t IH]; intros h h' d ok m H Hd; cbn [hrun] in H; [inversion H; subst; exact Hd|].
  destruct (hstep h e) as [h1|] eqn:E; [|discriminate]. apply (IH h1 h' d ok m H).
  destruct e as [r|r ce|r d0|r|d0|d0|d0 ce|r|d0| |]; cbn [hstep] in E.
  - destruct (h_r h r); inversion E; subst; exact Hd.
  - destruct (h_r h r); try discriminate; [destruct (if ce then _ else _)|destruct ce]; inversion E; subst; exact Hd.
  - destruct (h_r h r); try discriminate. destruct (h_d h d0) eqn:Ed; try discriminate. inversion E; subst. cbn [h_d set_d set_r].
    upd_cases d0 d; [congruence|exact Hd].
  - destruct (h_r h r) as [| | |d1|]; try discriminate. destruct (h_d h d1) as [| | |r'|r'|] eqn:Ed; try discriminate.
    destruct (Nat.eqb r r'); inversion E; subst. cbn [h_d set_d set_r]. upd_cases d1 d; [congruence|exact Hd].
  - destruct (h_d h d0) eqn:Ed; inversion E; subst. cbn [h_d set_d]. upd_cases d0 d; [congruence|exact Hd].
  - destruct (h_d h d0) eqn:Ed; inversion E; subst. cbn [h_d set_d]. upd_cases d0 d; [congruence|exact Hd].
  - destruct (h_d h d0) eqn:Ed; try discriminate; [destruct (if ce then _ else _)|destruct ce]; inversion E; subst; cbn [h_d set_d];
      (upd_cases d0 d; [congruence|exact Hd]).
  - inversion E; subst; exact Hd.
  - inversion E; subst; exact Hd.
  - inversion E; subst. destruct (h_phase h); exact Hd.
  - destruct (h_phase h); inversion E; subst; exact Hd.
Qed.

(* C13: Deliver returns an error only if no callback ever saw the message (before or after) *)
Theorem err_never_met pre post d ce h : hrun hub0 (pre ++ HDlvRetErr d ce :: post) = Some h ->
  count (is_meet_d d) (pre ++ HDlvRetErr d ce :: post) = 0.
Proof.
  rewrite hrun_app. destruct (hrun hub0 pre) as [h1|] eqn:E1; [|discriminate]. cbn [hrun].
  destruct (hstep h1 (HDlvRetErr d ce)) as [h2|] eqn:E2; [|discriminate]. intros E3.
  pose proof (run_met_d pre hub0 h1 d E1) as M1. cbn in M1.
  assert (S1 : met_d (h_d h1 d) = 0 /\ h_d h2 d = DRet false None).
  { cbn [hstep] in E2. destruct (h_d h1 d) eqn:Ed; try discriminate; [destruct (if ce then _ else _)|destruct ce]; inversion E2; subst;
      cbn [h_d set_d]; rewrite upd_same; auto. }
  destruct S1 as [Z1 R2]. pose proof (run_met_d post h2 h d E3) as M3. rewrite (dret_stable post h2 h d false None E3 R2), R2 in M3. cbn in M3.
  assert (C : forall a b, count (is_meet_d d) (a ++ b) = count (is_meet_d d) a + count (is_meet_d d) b).
  { induction a as [|x a IH]; intros b; cbn [count app]; [reflexivity|rewrite IH; lia]. }
  rewrite C. cbn [count is_meet_d]. lia.
Qed.


(* how the state of one Deliver call can change in one step *)
Lemma step_d_inv h e h' d : hstep h e = Some h' ->
  h_d h' d = h_d h d \/
  match h_d h' d with
  | DOffer | DDead => e = HDlvCall d /\ h_d h d = DIdle
  | DCommit r => e = HMeet r d /\ h_d h d = DOffer
  | DDone r => e = HCbEnd r /\ h_d h d = DCommit r
  | DRet true (Some r) => e = HDlvRetOk d /\ h_d h d = DDone r
  | DRet false None => exists ce, e = HDlvRetErr d ce
  | _ => False
  end.
Proof.
  destruct e as [r|r ce|r d0|r|d0|d0|d0 ce|r|d0| |]; cbn [hstep]; intros H.
  - destruct (h_r h r); inversion H; subst; now left.
  - destruct (h_r h r); try discriminate; [destruct (if ce then _ else _)|destruct ce]; inversion H; subst; now left.
  - destruct (h_r h r) eqn:Er; try discriminate. destruct (h_d h d0) eqn:Ed; try discriminate. inversion H; subst. cbn [h_d set_d set_r].
    upd_cases d0 d; [right; auto|now left].
  - destruct (h_r h r) as [| | |d1|] eqn:Er; try discriminate. destruct (h_d h d1) as [| | |r'|r'|] eqn:Ed; try discriminate.
    destruct (Nat.eqb_spec r r') as [<-|]; inversion H; subst. cbn [h_d set_d set_r].
    upd_cases d1 d; [right; auto|now left].
  - destruct (h_d h d0) eqn:Ed; inversion H; subst. cbn [h_d set_d].
    upd_cases d0 d; [right; destruct (is_closed h); auto|now left].
  - destruct (h_d h d0) eqn:Ed; inversion H; subst. cbn [h_d set_d]. upd_cases d0 d; [right; auto|now left].
  - destruct (h_d h d0) eqn:Ed; try discriminate; [destruct (if ce then _ else _)|destruct ce]; inversion H; subst; cbn [h_d set_d];
      (upd_cases d0 d; [right; eauto|now left]).
  - inversion H; subst; now left.
  - inversion H; subst; now left.
  - inversion H; subst. destruct (h_phase h); now left.
  - destruct (h_phase h); inversion H; subst; now left.
Qed.

(* C13: Deliver returns success only after the chosen callback has finished *)
Lemma done_history evs : forall h h' d r, hrun h evs = Some h' -> h_d h' d = DDone r ->
  h_d h d = DDone r \/
  (In (HCbEnd r) evs /\ (h_d h d = DCommit r \/ In (HMeet r d) evs)).
Proof.
  induction evs as [|e t IH]; intros h h' d r H Hd; cbn [hrun] in H; [inversion H; subst; now left|].
  destruct (hstep h e) as [h1|] eqn:E; [|discriminate].
  destruct (IH h1 h' d r H Hd) as [D1|(C1 & M1)].
  - destruct (step_d_inv h e h1 d E) as [Same|Chg]; [left; congruence|]. rewrite D1 in Chg. destruct Chg as [-> Hc].
    right. split; [now left|now left].
  - right. split; [now right|]. destruct M1 as [M1|M1]; [|right; now right].
    destruct (step_d_inv h e h1 d E) as [Same|Chg]; [left; congruence|]. rewrite M1 in Chg. destruct Chg as [-> _]. right. now left.
Qed.

Theorem ok_after_callback pre d h : hrun hub0 (pre ++ [HDlvRetOk d]) = Some h ->
  exists r, In (HMeet r d) pre /\ In (HCbEnd r) pre.
Proof.
  rewrite hrun_app. destruct (hrun hub0 pre) as [h1|] eqn:E1; [|discriminate]. cbn [hrun hstep].
  destruct (h_d h1 d) as [| | | |r|] eqn:Ed; try discriminate. intros _. exists r.
  destruct (done_history pre hub0 h1 d r E1 Ed) as [X|(C & [X|M])]; try (cbn in X; discriminate). auto.
Qed.

(* C12: a call made after Close has returned never gets (or gives) a message and can only return the close error *)
Lemma dead_r_stays evs : forall h h' r, hrun h evs = Some h' -> h_r h r = RDead -> count (is_meet_r r) evs = 0.
Proof.
  intros h h' r H Hr. pose proof (run_met_r evs h h' r H) as M. rewrite Hr in M. cbn in M.
  pose proof (met_r_le (h_r h' r)) as Hle.
  (* once dead, never in a callback: RDead only moves to RRet false None *)
  assert (G : forall evs h h', hrun h evs = Some h' -> (h_r h r = RDead \/ h_r h r = RRet false None) ->
              (h_r h' r = RDead \/ h_r h' r = RRet false None)).
  { induction evs0 as [|e t IH]; intros h0 h0' Hrun Hs; cbn [hrun] in Hrun; [inversion Hrun; subst; exact Hs|].
    destruct (hstep h0 e) as [h1|] eqn:E; [|discriminate]. apply (IH h1 h0' Hrun).
    destruct e as [r0|r0 ce|r0 d0|r0|d0|d0|d0 ce|r0|d0| |]; cbn [hstep] in E.
    - destruct (h_r h0 r0) eqn:Er; inversion E; subst. cbn [h_r set_r]. upd_cases r0 r; [destruct Hs; congruence|exact Hs].
    - destruct (h_r h0 r0) eqn:Er; try discriminate; [destruct (if ce then _ else _)|destruct ce]; inversion E; subst; cbn [h_r set_r];
        (upd_cases r0 r; [now right|exact Hs]).
    - destruct (h_r h0 r0) eqn:Er; try discriminate. destruct (h_d h0 d0); try discriminate. inversion E; subst. cbn [h_r set_d set_r].
      upd_cases r0 r; [destruct Hs; congruence|exact Hs].
    - destruct (h_r h0 r0) as [| | |d1|] eqn:Er; try discriminate. destruct (h_d h0 d1) as [| | |r'|r'|]; try discriminate.
      destruct (Nat.eqb r0 r'); inversion E; subst. cbn [h_r set_d set_r]. upd_cases r0 r; [destruct Hs; congruence|exact Hs].
    - destruct (h_d h0 d0); inversion E; subst; exact Hs.
    - destruct (h_d h0 d0); inversion E; subst; exact Hs.
    - destruct (h_d h0 d0); try discriminate; [destruct (if ce then _ else _)|destruct ce]; inversion E; subst; exact Hs.
    - inversion E; subst; exact Hs.
    - inversion E; subst; exact Hs.
    - inversion E; subst. destruct (h_phase h0); exact Hs.
    - destruct (h_phase h0); inversion E; subst; exact Hs. }
  destruct (G evs h h' H (or_introl Hr)) as [E|E]; rewrite E in M; cbn in M; lia.
Qed.

Theorem call_after_close_never_served pre r post h h1 :
  hrun hub0 pre = Some h1 -> h_phase h1 = Closed ->
  hrun hub0 (pre ++ HRecvCall r :: post) = Some h ->
  count (is_meet_r r) post = 0 /\ (forall ok m, h_r h r = RRet ok m -> ok = false).
Proof.
  intros E1 Hc. rewrite hrun_app, E1. cbn [hrun hstep]. destruct (h_r h1 r) eqn:Er; try discriminate.
  unfold is_closed. rewrite Hc. intros E3.
  set (h2 := set_r h1 r RDead) in *. assert (Hd : h_r h2 r = RDead) by (cbn; apply upd_same).
  split; [exact (dead_r_stays post h2 h r E3 Hd)|].
  intros ok m Hret. pose proof (run_met_r post h2 h r E3) as M. rewrite Hd, (dead_r_stays post h2 h r E3 Hd), Hret in M. cbn in M.
  destruct ok; [destruct m; cbn in M; lia|reflexivity].
Qed.

(* C12 / C13 progress: whoever is parked when the hub closes, or when its context is cancelled, can return *)
Theorem parked_receiver_can_leave h r : h_r h r = RWait ->
  (closing h = true -> hstep h (HRecvRetErr r true) <> None) /\
  (h_rc h r = true -> hstep h (HRecvRetErr r false) <> None).
Proof. intros E. cbn [hstep]. rewrite E. split; intros ->; discriminate. Qed.

Theorem parked_deliverer_can_leave h d : h_d h d = DOffer ->
  (closing h = true -> hstep h (HDlvRetErr d true) <> None) /\
  (h_dc h d = true -> hstep h (HDlvRetErr d false) <> None).
Proof. intros E. cbn [hstep]. rewrite E. split; intros ->; discriminate. Qed.

(* nobody returns a close error before Close was called, nor a context error without cancellation *)
Theorem no_spurious_errors h r ce h' : hstep h (HRecvRetErr r ce) = Some h' ->
  if ce then closing h = true \/ h_r h r = RDead else h_rc h r = true.
Proof.
  cbn [hstep]. destruct (h_r h r); try discriminate; destruct ce; try discriminate; intros H.
  - left. destruct (closing h); [reflexivity|discriminate].
  - destruct (h_rc h r); [reflexivity|discriminate].
  - now right.
Qed.

(* C08 for the fragmenting layers: the checked receive paths never panic, on any
   byte string, in any state reachable by any sequence of byte strings, and they
   compute exactly what the unchecked models (used by C09/C10) compute. *)
From P2PV Require Import Lib.Base Lib.Varint Model.Frag Model.Mbapp Model.Chk
  Proofs.BaseP Proofs.VarintP Proofs.FragP.
From Coq Require Import Lia ZifyBool ZifyN ZifyNat.
Open Scope N_scope.

Lemma slice_from_ok x n site : (0 <= n <= Z.of_N (lenN x))%Z -> slice_from x n site = Ok (dropN (Z.to_N n) x).
Proof.
  intros H. unfold slice_from.
  destruct (Z.ltb_spec n 0); [lia|]. destruct (Z.ltb_spec (Z.of_N (lenN x)) n); [lia|]. reflexivity.
Qed.

Lemma dropN_dropN {A} a b (l : list A) : dropN b (dropN a l) = dropN (a + b) l.
Proof.
  rewrite !dropN_skipn. replace (N.to_nat (a + b)) with (N.to_nat b + N.to_nat a)%nat by lia.
  revert l. induction (N.to_nat a) as [|n IH]; intros l.
  - now rewrite Nat.add_0_r.
  - destruct l as [|x t]; [now rewrite !skipn_nil|]. rewrite Nat.add_succ_r. cbn [skipn]. apply IH.
Qed.

(* ---------------- fragswarm ---------------- *)
Theorem parse_message_chk_eq x : parse_message_chk x = parse_message x.
Proof.
  unfold parse_message_chk, parse_message.
  destruct (uvarint x) as [f0 n0] eqn:E0. destruct (Z.ltb_spec n0 1) as [|G0]; [reflexivity|].
  pose proof (uvarint_n_le _ _ _ E0) as L0.
  rewrite slice_from_ok by lia.
  set (x1 := dropN (Z.to_N n0) x).
  destruct (uvarint x1) as [f1 n1] eqn:E1. destruct (Z.ltb_spec n1 1) as [|G1]; [reflexivity|].
  pose proof (uvarint_n_le _ _ _ E1) as L1. unfold x1 in L1. rewrite lenN_dropN in L1.
  rewrite slice_from_ok by lia.
  replace (dropN (Z.to_N (n0 + n1)) x) with (dropN (Z.to_N n1) x1)
    by (unfold x1; rewrite dropN_dropN; f_equal; lia).
  set (x2 := dropN (Z.to_N n1) x1).
  destruct (uvarint x2) as [f2 n2] eqn:E2. destruct (Z.ltb_spec n2 1) as [|G2]; [reflexivity|].
  destruct (f2 mod 256 <=? f1 mod 256); [reflexivity|].
  pose proof (uvarint_n_le _ _ _ E2) as L2. unfold x2, x1 in L2. rewrite !lenN_dropN in L2.
  rewrite slice_from_ok by lia.
  replace (dropN (Z.to_N (n0 + n1 + n2)) x) with (dropN (Z.to_N n2) x2)
    by (unfold x2, x1; rewrite !dropN_dropN; f_equal; lia).
  reflexivity.
Qed.

Theorem frag_recv_chk_eq st src pkt : frag_recv_chk st src pkt = frag_recv st src pkt.
Proof.
  unfold frag_recv_chk, frag_recv. rewrite parse_message_chk_eq.
  destruct (parse_message pkt) as [[[[id part] total] data]| |]; try reflexivity.
  destruct (total =? 1); [reflexivity|].
  set (a := match st_get st (src, id) with Some a => a | None => repeat None (N.to_nat total) end).
  rewrite (N.eqb_sym total (lenN a)).
  destruct (negb (lenN a =? total)) eqn:E1; cbn [orb]; [reflexivity|].
  destruct (N.leb_spec (lenN a) part) as [Hle|Hlt]; [reflexivity|].
  unfold parts_set. destruct (N.leb_spec (lenN a) part); [lia|]. reflexivity.
Qed.

Lemma frag_recv_no_panic st src pkt site : frag_recv st src pkt <> Panic site.
Proof.
  unfold frag_recv, parse_message.
  destruct (uvarint pkt) as [f0 n0]. destruct (n0 <? 1)%Z; [discriminate|].
  destruct (uvarint _) as [f1 n1]. destruct (n1 <? 1)%Z; [discriminate|].
  destruct (uvarint _) as [f2 n2]. destruct (n2 <? 1)%Z; [discriminate|].
  destruct (_ <=? _); [discriminate|]. destruct (_ =? 1); [discriminate|].
  destruct (_ || _); [discriminate|]. destruct (all_present _); discriminate.
Qed.

(* every byte string, every state (hence every sequence of byte strings) *)
Theorem frag_recv_chk_no_panic st src pkt site : frag_recv_chk st src pkt <> Panic site.
Proof. rewrite frag_recv_chk_eq. apply frag_recv_no_panic. Qed.

(* ---------------- mbapp ---------------- *)
Lemma set_bit_length l i : length (set_bit l i) = length l.
Proof. revert i; induction l as [|b t IH]; intros [|i]; cbn; auto. Qed.

Lemma add_part_chk_eq c idx data : col_wf c -> add_part_chk c idx data = Ok (add_part c idx data).
Proof.
  intros Hwf. unfold add_part_chk, add_part, col_wf in *.
  destruct (N.leb_spec (c_count c) idx); [reflexivity|].
  unfold bit_get. destruct (N.leb_spec (lenN (c_bits c)) idx); [lia|].
  destruct (nth (N.to_nat idx) (c_bits c) false); [reflexivity|].
  set (offset := if idx =? c_count c - 1 then _ else _).
  destruct (Z.ltb_spec offset 0); cbn [orb]; [reflexivity|].
  destruct (Z.leb_spec (Z.of_N (lenN (c_buf c))) offset); [reflexivity|].
  rewrite slice_from_ok by lia.
  unfold bit_set. destruct (N.leb_spec (lenN (c_bits c)) idx); [lia|]. reflexivity.
Qed.

Lemma add_part_wf c idx data : col_wf c -> col_wf (add_part c idx data).
Proof.
  intros Hwf. unfold add_part, col_wf in *.
  destruct (_ <=? _); [assumption|]. destruct (nth _ _ _); [assumption|].
  destruct (_ || _); [assumption|]. cbn [c_bits c_count]. rewrite lenN_spec, set_bit_length, <- lenN_spec. assumption.
Qed.

Lemma parse_mb_chk_eq x : parse_mb_chk x = parse_mb x.
Proof.
  unfold parse_mb_chk, parse_mb. destruct (N.ltb_spec (lenN x) 24); [reflexivity|].
  rewrite slice_from_ok by lia. destruct (N.ltb_spec (lenN x) 24); [lia|]. reflexivity.
Qed.

Lemma col_get_in st k c : col_get st k = Some c -> exists k', In (k', c) st.
Proof.
  induction st as [|[k' c'] t IH]; cbn [col_get]; [discriminate|].
  destruct (ck_eqb k' k); [intros [= <-]; exists k'; now left|].
  intros H. destruct (IH H) as (k2 & Hin). exists k2. now right.
Qed.

Lemma in_col_del st k k' c : In (k', c) (col_del st k) -> In (k', c) st.
Proof.
  induction st as [|[k2 c2] t IH]; cbn [col_del]; [tauto|].
  destruct (ck_eqb k2 k); [intros H; right; auto|]. intros [E|H]; [now left|right; auto].
Qed.

(* in every well-formed state the checked path equals the unchecked model and
   the next state is well-formed: an invariant of every packet sequence *)
Theorem mb_recv_chk_step mtu st src pkt : mb_wf st ->
  mb_recv_chk mtu st src pkt = mb_recv mtu st src pkt /\
  (forall st' d, mb_recv mtu st src pkt = Ok (st', d) -> mb_wf st').
Proof.
  intros Hwf. unfold mb_recv_chk, mb_recv. rewrite parse_mb_chk_eq.
  destruct (parse_mb pkt) as [[h body]| |]; [|split; [reflexivity|discriminate]..].
  destruct (_ <? _)%Z; [split; [reflexivity|discriminate]|].
  destruct (h_count h <? 2); [split; [reflexivity|intros ? ? [= <- _]; exact Hwf]|].
  set (k := (src, h_origin h, _)).
  set (c := match col_get st k with Some c => c | None => _ end).
  assert (Hc : col_wf c).
  { unfold c. destruct (col_get st k) as [c0|] eqn:E.
    - destruct (col_get_in _ _ _ E) as (k' & Hin). exact (Hwf _ _ Hin).
    - unfold col_wf. cbn [c_bits c_count]. rewrite lenN_spec, repeat_length. lia. }
  rewrite (add_part_chk_eq c _ _ Hc). split; [reflexivity|].
  pose proof (add_part_wf c (h_index h) body Hc) as Hc'.
  intros st' d. destruct (forallb _ _); intros [= <- _].
  - intros k' c' Hin. apply in_col_del in Hin. exact (Hwf _ _ Hin).
  - intros k' c' [E|Hin]; [injection E as _ <-; exact Hc'|]. apply in_col_del in Hin. exact (Hwf _ _ Hin).
Qed.

Lemma mb_recv_no_panic mtu st src pkt site : mb_recv mtu st src pkt <> Panic site.
Proof.
  unfold mb_recv, parse_mb. destruct (_ <? 24); [discriminate|].
  destruct (_ <? _)%Z; [discriminate|]. destruct (_ <? 2); [discriminate|]. destruct (forallb _ _); discriminate.
Qed.

(* a whole adversarial packet sequence: states along it *)
Fixpoint mb_run (mtu : Z) (st : mb_state) (pkts : list (bytes * bytes)) : result mb_state :=
  match pkts with
  | [] => Ok st
  | (src, pkt) :: t =>
      match mb_recv_chk mtu st src pkt with
      | Ok (st', _) => mb_run mtu st' t
      | Err _ => mb_run mtu st t           (* the packet is dropped, the node keeps serving *)
      | Panic s => Panic s
      end
  end.

Theorem mb_run_no_panic mtu : forall pkts st site, mb_wf st -> mb_run mtu st pkts <> Panic site.
Proof.
  induction pkts as [|[src pkt] t IH]; intros st site Hwf; cbn [mb_run]; [discriminate|].
  destruct (mb_recv_chk_step mtu st src pkt Hwf) as [E Hnext]. rewrite E.
  destruct (mb_recv mtu st src pkt) as [[st' d]| |] eqn:Er.
  - apply IH. eapply Hnext; eauto.
  - now apply IH.
  - exfalso. eapply mb_recv_no_panic; eauto.
Qed.

Lemma mb_wf_init : mb_wf [].
Proof. intros k c []. Qed.

Fixpoint frag_run (st : frag_state) (pkts : list (bytes * bytes)) : result frag_state :=
  match pkts with
  | [] => Ok st
  | (src, pkt) :: t =>
      match frag_recv_chk st src pkt with
      | Ok (st', _) => frag_run st' t
      | Err _ => frag_run st t
      | Panic s => Panic s
      end
  end.

Theorem frag_run_no_panic : forall pkts st site, frag_run st pkts <> Panic site.
Proof.
  induction pkts as [|[src pkt] t IH]; intros st site; cbn [frag_run]; [discriminate|].
  destruct (frag_recv_chk st src pkt) as [[st' d]| |] eqn:Er; [apply IH|apply IH|].
  exfalso. eapply frag_recv_chk_no_panic; eauto.
Qed.

(* ---- parseInitHello never panics: every byte string ---- *)
Lemma two_left (x : bytes) (k : nat) : length x = (k + 2)%nat -> exists hi lo, skipn k x = [hi; lo].
Proof.
  intros H. assert (L : length (skipn k x) = 2%nat) by (rewrite skipn_length; lia).
  destruct (skipn k x) as [|hi [|lo [|z t]]]; cbn in L; try lia. eauto.
Qed.

Theorem parse_init_hello_no_panic body site : parse_init_hello_chk body <> Panic site.
Proof.
  unfold parse_init_hello_chk. destruct (Z.ltb_spec (Z.of_nat (length body)) 2) as [L|L]; [discriminate|].
  unfold slice_from. rewrite lenN_spec.
  destruct ((Z.of_nat (length body) - 2 <? 0)%Z || (Z.of_N (N.of_nat (length body)) <? Z.of_nat (length body) - 2)%Z) eqn:E; [lia|].
  rewrite dropN_skipn.
  destruct (two_left body (length body - 2)) as [hi [lo Hs]]; [lia|].
  replace (N.to_nat (Z.to_N (Z.of_nat (length body) - 2))) with (length body - 2)%nat by lia.
  rewrite Hs. unfold be16.
  destruct (Z.ltb_spec (Z.of_nat (length body) - 2 - Z.of_N (256 * hi + lo)) 0) as [S|S]; [discriminate|].
  match goal with |- context [if ?b then _ else _] => destruct b eqn:E2 end; [lia|discriminate].
Qed.

(* swarmutil.Queue, buffer ownership: every buffer is in exactly one place (the
   freelist, the queue, or in the hands of one running callback); Deliver writes
   only into a buffer it took from the freelist, so never into one a callback is
   reading or one that is queued; no buffer is ever lost. *)
From P2PV Require Import Lib.Base Model.Queue Model.QueueBuf.
From Coq Require Import Lia Permutation.
Open Scope nat_scope.

Definition all_bufs (s : bq) : list nat := b_free s ++ map fst (b_queue s) ++ b_busy s.

Definition BInv (s : bq) : Prop := NoDup (all_bufs s) /\ length (all_bufs s) = b_cap s.

Lemma binv_new cap mtu : BInv (new_bq cap mtu).
Proof. unfold BInv, all_bufs. cbn. rewrite app_nil_r. split; [apply seq_NoDup|apply seq_length]. Qed.

Lemma remove_nat_perm b l : In b l -> Permutation l (b :: remove_nat b l).
Proof.
  induction l as [|x t IH]; [intros []|]. intros H. cbn [remove_nat].
  destruct (Nat.eqb_spec x b) as [->|Ne]; [reflexivity|].
  destruct H as [->|H]; [congruence|]. rewrite perm_swap. constructor. now apply IH.
Qed.

Lemma existsb_eqb_in b l : existsb (Nat.eqb b) l = true -> In b l.
Proof. intros H. apply existsb_exists in H as [x [Hx E]]. apply Nat.eqb_eq in E. now subst. Qed.

Lemma nodup_app_disj (l1 l2 : list nat) x : NoDup (l1 ++ l2) -> In x l1 -> ~ In x l2.
Proof.
  induction l1 as [|a t IH]; [intros _ []|]. cbn. intros Nd [->|H] H2.
  - apply NoDup_cons_iff in Nd as [Ni _]. apply Ni. apply in_or_app. auto.
  - apply NoDup_cons_iff in Nd as [_ Nd]. exact (IH Nd H H2).
Qed.
Lemma nodup_app_r (l1 l2 : list nat) : NoDup (l1 ++ l2) -> NoDup l2.
Proof. induction l1 as [|a t IH]; [auto|]. cbn. intros Nd. apply NoDup_cons_iff in Nd as [_ Nd]. auto. Qed.

Lemma bstep_perm s e s' o : bstep s e = Some (s', o) -> Permutation (all_bufs s) (all_bufs s') /\ b_cap s' = b_cap s.
Proof.
  unfold bstep, all_bufs. destruct e as [m| |b| |].
  - destruct (Nat.ltb _ _); [intros [= <- <-]; auto|]. destruct (b_closed s); [intros [= <- <-]; auto|].
    destruct (b_free s) as [|b t] eqn:Ef; intros [= <- <-]; [rewrite Ef; auto|]. cbn [b_free b_queue b_busy b_cap]. split; [|reflexivity].
    rewrite map_app. cbn [map fst]. rewrite <- !app_assoc. cbn [app].
    rewrite !app_assoc. apply Permutation_middle.
  - destruct (b_queue s) as [|[b m] t] eqn:Eq; intros [= <- <-]; [rewrite Eq; auto|]. cbn [b_free b_queue b_busy b_cap map fst]. split; [|reflexivity].
    apply Permutation_app_head. cbn [app]. apply Permutation_middle.
  - destruct (existsb (Nat.eqb b) (b_busy s)) eqn:Eb; [|discriminate]. intros [= <- <-]. cbn [b_free b_queue b_busy b_cap]. split; [|reflexivity].
    apply existsb_eqb_in in Eb. rewrite (remove_nat_perm b _ Eb) at 1.
    rewrite <- !app_assoc. apply Permutation_app_head. cbn [app]. symmetry. apply Permutation_middle.
  - intros [= <- <-]. cbn [b_free b_queue b_busy b_cap map app]. split; [|reflexivity]. now rewrite <- app_assoc.
  - intros [= <- <-]. cbn [b_free b_queue b_busy b_cap map app]. split; [|reflexivity]. now rewrite <- app_assoc.
Qed.

Lemma bstep_inv s e s' o : BInv s -> bstep s e = Some (s', o) -> BInv s'.
Proof.
  intros [Nd Len] H. destruct (bstep_perm _ _ _ _ H) as [P C]. split.
  - eapply Permutation_NoDup; eauto.
  - rewrite C, <- Len. symmetry. now apply Permutation_length.
Qed.

Theorem brun_inv evs : forall s s' os, BInv s -> brun s evs = Some (s', os) -> BInv s'.
Proof.
  induction evs as [|e t IH]; intros s s' os Hi; cbn [brun]; [intros [= <- _]; exact Hi|].
  destruct (bstep s e) as [[s1 o]|] eqn:E1; [|discriminate].
  destruct (brun s1 t) as [[s2 os2]|] eqn:E2; [|discriminate]. intros [= <- _].
  eapply IH; [|exact E2]. eapply bstep_inv; eauto.
Qed.

(* in every reachable state: whatever Deliver writes into is neither queued nor in
   the hands of a callback *)
Theorem deliver_writes_only_free cap mtu evs s os m s' b :
  brun (new_bq cap mtu) evs = Some (s, os) -> bstep s (BDeliver m) = Some (s', BWrote b) ->
  ~ In b (b_busy s) /\ ~ In b (map fst (b_queue s)).
Proof.
  intros Hr Hs. pose proof (brun_inv evs _ _ _ (binv_new cap mtu) Hr) as [Nd _].
  unfold bstep in Hs. destruct (Nat.ltb _ _); [discriminate|]. destruct (b_closed s); [discriminate|].
  destruct (b_free s) as [|b0 t] eqn:Ef; [discriminate|]. injection Hs as _ <-.
  unfold all_bufs in Nd. rewrite Ef in Nd. cbn [app] in Nd. apply NoDup_cons_iff in Nd as [Ni _].
  split; intro H; apply Ni; apply in_or_app; right; apply in_or_app; auto.
Qed.

(* a buffer handed to a callback stays out of the freelist and of the queue until
   that callback returns: no other event moves it *)
Theorem busy_until_returned s e s' o b : BInv s -> In b (b_busy s) -> bstep s e = Some (s', o) ->
  e <> BRecvEnd b -> In b (b_busy s') /\ ~ In b (b_free s') /\ ~ In b (map fst (b_queue s')).
Proof.
  intros Hi Hb Hs Ne. pose proof (bstep_inv _ _ _ _ Hi Hs) as [Nd' _].
  assert (Hb' : In b (b_busy s')).
  { unfold bstep in Hs. destruct e as [m| |b1| |].
    - destruct (Nat.ltb _ _); [injection Hs as <- _; auto|]. destruct (b_closed s); [injection Hs as <- _; auto|].
      destruct (b_free s); injection Hs as <- _; auto.
    - destruct (b_queue s) as [|[b1 m] t]; injection Hs as <- _; cbn; auto.
    - destruct (existsb _ _); [|discriminate]. injection Hs as <- _. cbn.
      assert (Nb : b1 <> b) by congruence. clear - Hb Nb. induction (b_busy s) as [|x t IH]; [destruct Hb|].
      cbn. destruct (Nat.eqb_spec x b1) as [->|Nx]; [destruct Hb; [congruence|auto]|]. destruct Hb as [->|H]; [left; auto|right; auto].
    - injection Hs as <- _. auto.
    - injection Hs as <- _. auto. }
  split; [exact Hb'|]. unfold all_bufs in Nd'.
  split; intro H.
  - exact (nodup_app_disj _ _ b Nd' H (in_or_app _ _ _ (or_intror Hb'))).
  - apply nodup_app_r in Nd'. exact (nodup_app_disj _ _ b Nd' H Hb').
Qed.

(* no buffer is lost: whenever no callback is running, the free and the queued buffers are all there *)
Theorem no_slot_leak cap mtu evs s os :
  brun (new_bq cap mtu) evs = Some (s, os) -> b_busy s = [] ->
  length (b_free s) + length (b_queue s) = cap.
Proof.
  intros Hr Hb. pose proof (brun_inv evs _ _ _ (binv_new cap mtu) Hr) as [_ Len].
  unfold all_bufs in Len. rewrite Hb, app_nil_r, app_length, map_length in Len.
  assert (C : forall evs s0 s1 os1, brun s0 evs = Some (s1, os1) -> b_cap s1 = b_cap s0).
  { clear. induction evs as [|e t IH]; intros s0 s1 os1; cbn [brun]; [intros [= <- _]; reflexivity|].
    destruct (bstep s0 e) as [[sa o]|] eqn:E; [|discriminate]. destruct (brun sa t) as [[sb ob]|] eqn:E2; [|discriminate].
    intros [= <- _]. rewrite (IH _ _ _ E2). apply (bstep_perm _ _ _ _ E). }
  rewrite (C _ _ _ _ Hr) in Len. exact Len.
Qed.

Example bq_nontrivial :
  exists s os, brun (new_bq 2 4) [BDeliver (1, 2, [7])%N; BDeliver (1, 2, [8])%N; BRecvBegin; BDeliver (1, 2, [9])%N; BRecvEnd 0; BDeliver (1, 2, [9])%N; BRecvBegin]
               = Some (s, os) /\ os = [BWrote 0; BWrote 1; BGot 0 (1, 2, [7])%N; BRefused; BDone; BWrote 0; BGot 1 (1, 2, [8])%N].
Proof. eexists. eexists. split; vm_compute; reflexivity. Qed.

(* ---- Close is final, under any interleaving ---- *)
Definition ClosedEmpty (s : bq) : Prop := b_closed s = true -> b_queue s = [].

Lemma closed_empty_new cap mtu : ClosedEmpty (new_bq cap mtu).
Proof. unfold ClosedEmpty. cbn. discriminate. Qed.

Lemma bstep_closed_empty s e s' o : ClosedEmpty s -> bstep s e = Some (s', o) -> ClosedEmpty s'.
Proof.
  unfold ClosedEmpty, bstep. intros H. destruct e as [m| |b| |].
  - destruct (Nat.ltb _ _); [intros [= <- _]; exact H|]. destruct (b_closed s) eqn:Ec; [intros [= <- _]; rewrite Ec; exact H|].
    destruct (b_free s); intros [= <- _]; cbn; [rewrite Ec|]; discriminate.
  - destruct (b_queue s) as [|[b m] t] eqn:Eq; intros [= <- _]; [rewrite Eq; exact H|]. cbn. intros E. specialize (H E). discriminate.
  - destruct (existsb _ _); [|discriminate]. intros [= <- _]. cbn. exact H.
  - intros [= <- _]. cbn. auto.
  - intros [= <- _]. cbn. auto.
Qed.

Lemma bstep_stays_closed s e s' o : b_closed s = true -> bstep s e = Some (s', o) -> b_closed s' = true.
Proof.
  unfold bstep. intros Ec. destruct e as [m| |b| |].
  - destruct (Nat.ltb _ _); [intros [= <- _]; exact Ec|]. rewrite Ec. intros [= <- _]. exact Ec.
  - destruct (b_queue s) as [|[b m] t]; intros [= <- _]; cbn; exact Ec.
  - destruct (existsb _ _); [|discriminate]. intros [= <- _]. exact Ec.
  - intros [= <- _]. exact Ec.
  - intros [= <- _]. reflexivity.
Qed.

(* after Close: whatever is called, in whatever interleaving with callbacks still running,
   nothing is accepted and no callback is handed a message *)
Theorem nothing_after_close evs : forall s s' os, ClosedEmpty s -> b_closed s = true ->
  brun s evs = Some (s', os) -> forall o, In o os -> match o with BWrote _ | BGot _ _ => False | _ => True end.
Proof.
  induction evs as [|e t IH]; intros s s' os Hce Ec; cbn [brun]; [intros [= _ <-] o []|].
  destruct (bstep s e) as [[s1 o1]|] eqn:E1; [|discriminate].
  destruct (brun s1 t) as [[s2 os2]|] eqn:E2; [|discriminate]. intros [= _ <-] o [<-|Hin].
  - unfold bstep in E1. destruct e as [m| |b| |].
    + destruct (Nat.ltb _ _); [injection E1 as _ <-; exact I|]. rewrite Ec in E1. injection E1 as _ <-. exact I.
    + rewrite (Hce Ec) in E1. injection E1 as _ <-. exact I.
    + destruct (existsb _ _); [|discriminate]. injection E1 as _ <-. exact I.
    + injection E1 as _ <-. exact I.
    + injection E1 as _ <-. exact I.
  - eapply (IH s1 s2 os2); eauto.
    + eapply bstep_closed_empty; eauto.
    + eapply bstep_stays_closed; eauto.
Qed.

(* C20: top-level statements about the four iterative operations. *)
From P2PV Require Import Lib.Base Model.Distance Model.Dht Proofs.BaseP Proofs.DistanceP Proofs.DhtP.
From Coq Require Import Lia ZifyBool ZifyN ZifyNat.
Open Scope N_scope.

(* every id a responder ever names lies in U *)
Definition resp_in (U : list bytes) (resp : responder) : Prop :=
  forall i nd x, In x (a_nodes (resp i nd)) -> In (n_id x) U.

Lemma dht_iterate_result {S} (fn : S -> node -> S * option (list node)) (P : S -> list bytes -> Prop)
      fuel initial key n st0 st vis :
  (forall st nd visited st' r, P st visited -> ~ In (n_id nd) visited ->
      fn st nd = (st', r) -> P st' (n_id nd :: visited)) ->
  P st0 [] -> dht_iterate fn fuel initial key n st0 = Some (Ok (st, vis)) -> P st vis /\ NoDup vis.
Proof.
  intros Hstep H0. unfold dht_iterate. destruct initial as [|i0 it].
  - intros H; injection H as <- <-. split; [assumption|constructor].
  - destruct (n <? 1)%Z; [discriminate|].
    destruct (iterate fn fuel key (Z.to_nat n) (i0 :: it) [] st0) as [[s v]|] eqn:E; [|discriminate].
    cbn [option_map]. intros H; injection H as <- <-. split.
    + eapply iterate_inv; eauto.
    + eapply iterate_visited_nodup; eauto. constructor.
Qed.

Lemma dht_iterate_terminates {S} (fn : S -> node -> S * option (list node)) U initial key n st0 :
  answers_in fn U -> (forall x, In x initial -> In (n_id x) U) ->
  exists fuel, dht_iterate fn fuel initial key n st0 <> None.
Proof.
  intros HU Hi. unfold dht_iterate. destruct initial as [|i0 it]; [exists O; discriminate|].
  destruct (n <? 1)%Z; [exists O; discriminate|].
  destruct (iterate_terminates fn U key (Z.to_nat n) HU (unvisited U []) (length (i0 :: it)) (i0 :: it) [] st0
              (le_n _) (le_n _) Hi) as [f Hf].
  exists f. destruct (iterate fn f key (Z.to_nat n) (i0 :: it) [] st0); [discriminate|contradiction].
Qed.

Lemma in_filter_In {A} (f : A -> bool) l x : In x (filter f l) -> In x l.
Proof. intros H. now apply filter_In in H as [? _]. Qed.

(* ---- answers_in for each wrapper ---- *)
Lemma find_answers_in U resp target validate : resp_in U resp -> answers_in (find_fn resp target validate) U.
Proof.
  intros HU st nd st' news. unfold find_fn.
  destruct (bytes_eqb _ target); [discriminate|]. unfold ask.
  destruct (a_ok (resp (lenN (f_log st)) nd)); intros H; injection H as <- <-; intros x Hx; [|contradiction].
  eapply HU. eapply in_filter_In; eauto.
Qed.
Lemma join_answers_in U resp addpeer : resp_in U resp -> answers_in (join_fn resp addpeer) U.
Proof.
  intros HU st nd st' news. unfold join_fn, ask.
  destruct (a_ok (resp (lenN (j_log st)) nd)); intros H; injection H as <- <-; intros x Hx; [|contradiction].
  eapply HU; eauto.
Qed.
Lemma get_answers_in U resp key validate : resp_in U resp -> answers_in (get_fn resp key validate) U.
Proof.
  intros HU st nd st' news. unfold get_fn, ask.
  destruct (match g_from st with Some f => distance_lt key f (n_id nd) | None => false end); [discriminate|].
  destruct (a_ok (resp (lenN (g_log st)) nd)); cbn [negb]; intros H; injection H as <- <-; intros x Hx; [|contradiction].
  eapply HU; eauto.
Qed.
Lemma put_answers_in U resp key : resp_in U resp -> answers_in (put_fn resp key) U.
Proof.
  intros HU st nd st' news. unfold put_fn, ask.
  destruct (a_ok (resp (lenN (p_log st)) nd)); cbn [negb]; [|intros H; injection H as <- <-; intros x []].
  destruct (a_accept (resp (lenN (p_log st)) nd)); intros H; injection H as <- <-; intros x Hx; eapply HU; eauto.
Qed.

(* ---- the finite universe of real peer ids: all byte strings of a fixed length ---- *)
Definition all_bytes : list N := map N.of_nat (seq 0 256).
Fixpoint strings (n : nat) : list bytes :=
  match n with
  | O => [[]]
  | Datatypes.S n' => flat_map (fun b => map (cons b) (strings n')) all_bytes
  end.

Lemma all_bytes_in b : b < 256 -> In b all_bytes.
Proof.
  intros H. unfold all_bytes. apply in_map_iff. exists (N.to_nat b). split; [lia|]. apply in_seq. lia.
Qed.

Lemma strings_in n : forall b, wf_bytes b = true -> length b = n -> In b (strings n).
Proof.
  induction n as [|n IH]; intros b Hw Hl.
  - destruct b; [now left|discriminate].
  - destruct b as [|x b]; [discriminate|]. cbn [wf_bytes forallb] in Hw. apply andb_prop in Hw as [Hx Hw].
    cbn [strings]. apply in_flat_map. exists x. split; [apply all_bytes_in; unfold wf_byte in Hx; lia|].
    apply in_map. apply IH; [exact Hw|]. now injection Hl.
Qed.

(* responders and initial peers carry well-formed ids of the peer-id size *)
Definition resp_wf (len : nat) (resp : responder) : Prop :=
  forall i nd x, In x (a_nodes (resp i nd)) -> wf_bytes (n_id x) = true /\ length (n_id x) = len.
Definition nodes_wf (len : nat) (l : list node) : Prop :=
  forall x, In x l -> wf_bytes (n_id x) = true /\ length (n_id x) = len.

Lemma resp_wf_in len resp : resp_wf len resp -> resp_in (strings len) resp.
Proof. intros H i nd x Hx. destruct (H i nd x Hx). now apply strings_in. Qed.

(* ---- terminates: for EVERY responder over peer ids ---- *)
Theorem find_terminates len resp initial target validate :
  resp_wf len resp -> nodes_wf len initial -> exists fuel, dht_find fuel resp initial target validate <> None.
Proof.
  intros Hr Hi. apply dht_iterate_terminates with (U := strings len).
  - apply find_answers_in, resp_wf_in, Hr.
  - intros x Hx. destruct (Hi x Hx). now apply strings_in.
Qed.
Theorem join_terminates len resp initial target addpeer :
  resp_wf len resp -> nodes_wf len initial -> exists fuel, dht_join fuel resp initial target addpeer <> None.
Proof.
  intros Hr Hi. apply dht_iterate_terminates with (U := strings len).
  - apply join_answers_in, resp_wf_in, Hr.
  - intros x Hx. destruct (Hi x Hx). now apply strings_in.
Qed.
Theorem get_terminates len resp initial key validate :
  resp_wf len resp -> nodes_wf len initial -> exists fuel, dht_get fuel resp initial key validate <> None.
Proof.
  intros Hr Hi. apply dht_iterate_terminates with (U := strings len).
  - apply get_answers_in, resp_wf_in, Hr.
  - intros x Hx. destruct (Hi x Hx). now apply strings_in.
Qed.
Theorem put_terminates len resp initial key :
  resp_wf len resp -> nodes_wf len initial -> exists fuel, dht_put fuel resp initial key <> None.
Proof.
  intros Hr Hi. apply dht_iterate_terminates with (U := strings len).
  - apply put_answers_in, resp_wf_in, Hr.
  - intros x Hx. destruct (Hi x Hx). now apply strings_in.
Qed.

(* ---- results ---- *)
Theorem find_result fuel resp initial target validate st vis :
  dht_find fuel resp initial target validate = Some (Ok (st, vis)) ->
  find_inv resp target st vis /\ NoDup vis.
Proof.
  apply dht_iterate_result.
  - intros; eapply find_step; eauto.
  - apply find_inv_init.
Qed.

Lemma log_ok_init resp : log_ok resp [] [].
Proof. split; [intros i nd a H; destruct i; discriminate|]. split; [constructor|intros x []]. Qed.

Theorem join_result fuel resp initial target addpeer st vis :
  dht_join fuel resp initial target addpeer = Some (Ok (st, vis)) ->
  join_inv resp addpeer st vis /\ NoDup vis.
Proof.
  apply dht_iterate_result.
  - intros; eapply join_step; eauto.
  - split; [apply log_ok_init|]. split; reflexivity.
Qed.

Theorem get_result fuel resp initial key validate st vis :
  dht_get fuel resp initial key validate = Some (Ok (st, vis)) ->
  get_inv resp key validate st vis /\ NoDup vis.
Proof.
  apply dht_iterate_result.
  - intros; eapply get_step; eauto.
  - split; [apply log_ok_init|]. cbn. repeat split; auto; discriminate.
Qed.

Theorem put_result fuel resp initial key st vis :
  dht_put fuel resp initial key = Some (Ok (st, vis)) ->
  put_inv resp key st vis /\ NoDup vis.
Proof.
  apply dht_iterate_result.
  - intros; eapply put_step; eauto.
  - split; [apply log_ok_init|]. cbn. repeat split; auto; discriminate.
Qed.

(* ---- no panic, whatever the size of Initial (empty included) ---- *)
Lemma dht_iterate_no_panic {S} (fn : S -> node -> S * option (list node)) fuel initial key n st0 s :
  (initial <> [] -> (1 <= n)%Z) -> dht_iterate fn fuel initial key n st0 <> Some (Panic s).
Proof.
  intros Hn. unfold dht_iterate. destruct initial as [|i0 it]; [discriminate|].
  destruct (Z.ltb_spec n 1); [specialize (Hn ltac:(discriminate)); lia|].
  destruct (iterate _ _ _ _ _ _ _); discriminate.
Qed.

Theorem no_panic fuel resp initial key s :
  (forall validate, dht_find fuel resp initial key validate <> Some (Panic s)) /\
  (forall addpeer, dht_join fuel resp initial key addpeer <> Some (Panic s)) /\
  (forall validate, dht_get fuel resp initial key validate <> Some (Panic s)) /\
  dht_put fuel resp initial key <> Some (Panic s).
Proof.
  repeat split; intros; apply dht_iterate_no_panic; intros Hne; unfold FIND_WIDTH, GET_WIDTH; try lia.
  - destruct initial; [contradiction|]. rewrite lenN_cons. lia.
  - destruct initial; [contradiction|]. rewrite lenN_cons. lia.
Qed.

(* ---- unpacked, user-facing forms ---- *)
Lemma accepters_nodup log : NoDup (asked log) -> NoDup (accepters log).
Proof.
  unfold accepters, asked. induction log as [|h t IH]; cbn [map filter]; intros H; [constructor|].
  inversion H as [|? ? Hn Hd]; subst. destruct (_ && _); [|now apply IH].
  cbn [map]. constructor; [|now apply IH]. intros Hin. apply Hn.
  apply in_map_iff in Hin as (p & Hp & Hin). apply in_map_iff. exists p. split; [assumption|].
  now apply filter_In in Hin as [? _].
Qed.

Theorem find_truthful fuel resp initial target validate st vis :
  dht_find fuel resp initial target validate = Some (Ok (st, vis)) ->
  genuine resp (f_log st) /\ NoDup (asked (f_log st)) /\
  (forall c, f_closest st = Some c -> is_nearest target (n_id c) vis) /\
  (forall x, In x (asked (f_log st)) -> In x vis) /\
  f_contacted st = lenN (filter (fun p => a_ok (snd p)) (f_log st)) /\
  (find_err target st = false <-> exists c, f_closest st = Some c /\ n_id c = target).
Proof.
  intros H. destruct (find_result _ _ _ _ _ _ _ H) as [((Hg & Hnd & Hsub) & _ & Hc & Hcnt) _].
  split; [exact Hg|]. split; [exact Hnd|]. split; [exact Hc|]. split; [exact Hsub|]. split; [exact Hcnt|]. split.
  - unfold find_err. destruct (f_closest st) as [c0|]; [|discriminate]. intros He. exists c0. split; [reflexivity|].
    destruct (bytes_eqb_spec (n_id c0) target); [assumption|discriminate].
  - intros (c0 & Hc' & Ht). unfold find_err. rewrite Hc', Ht, bytes_eqb_refl. reflexivity.
Qed.

Theorem join_truthful fuel resp initial target addpeer st vis :
  dht_join fuel resp initial target addpeer = Some (Ok (st, vis)) ->
  genuine resp (j_log st) /\ NoDup (asked (j_log st)) /\ asked (j_log st) = rev vis /\
  j_added st = lenN (filter addpeer (map fst (j_log st))).
Proof.
  intros H. destruct (join_result _ _ _ _ _ _ _ H) as [((Hg & Hnd & _) & Hall & Hadd) _]. auto.
Qed.

Theorem get_truthful fuel resp initial key validate st vis :
  dht_get fuel resp initial key validate = Some (Ok (st, vis)) ->
  genuine resp (g_log st) /\ NoDup (asked (g_log st)) /\
  g_contacted st = lenN (g_log st) /\ g_responded st = lenN (responders (g_log st)) /\
  (forall c, g_closest st = Some c -> is_nearest key c (responders (g_log st))) /\
  (g_closest st = None -> responders (g_log st) = []) /\
  (get_err st = true -> g_value st = None) /\
  (forall f, g_from st = Some f ->
     exists nd a v, In (nd, a) (g_log st) /\ n_id nd = f /\ a_ok a = true /\
                    a_value a = Some v /\ validate v = true /\ g_value st = Some v).
Proof.
  intros H. destruct (get_result _ _ _ _ _ _ _ H) as [((Hg & Hnd & _) & Hc & Hr & Hcn & Hcs & Hfn & Hfs) _].
  split; [exact Hg|]. split; [exact Hnd|]. split; [exact Hc|]. split; [exact Hr|]. split; [exact Hcs|]. split; [exact Hcn|].
  split; [|exact Hfs]. unfold get_err. destruct (g_from st); [discriminate|]. intros _. now apply Hfn.
Qed.

Theorem put_truthful fuel resp initial key st vis :
  dht_put fuel resp initial key = Some (Ok (st, vis)) ->
  genuine resp (p_log st) /\ NoDup (asked (p_log st)) /\
  p_contacted st = lenN (p_log st) /\ p_responded st = lenN (responders (p_log st)) /\
  p_accepted st = lenN (accepters (p_log st)) /\ NoDup (accepters (p_log st)) /\
  (forall c, p_closest st = Some c -> is_nearest key c (accepters (p_log st))) /\
  (forall min, put_err min st = true <-> (Z.of_N (lenN (accepters (p_log st))) < eff_min min)%Z).
Proof.
  intros H. destruct (put_result _ _ _ _ _ _ H) as [((Hg & Hnd & _) & Hc & Hr & Ha & Hcn & Hcs) _].
  split; [exact Hg|]. split; [exact Hnd|]. split; [exact Hc|]. split; [exact Hr|]. split; [exact Ha|].
  split; [now apply accepters_nodup|]. split; [exact Hcs|].
  intros mn. unfold put_err. rewrite Ha. split; intros Hlt; lia.
Qed.

From P2PV Require Import Lib.Base Model.AskTable Proofs.BaseP.
From Coq Require Import Lia ZifyBool ZifyN.
Open Scope N_scope.

Lemma aid_eqb_spec a b : reflect (a = b) (aid_eqb a b).
Proof.
  destruct a as [[a1 a2] a3], b as [[b1 b2] b3]. unfold aid_eqb. cbn [fst snd].
  destruct (bytes_eqb_spec a1 b1) as [->|N1]; [|constructor; congruence].
  destruct (N.eqb_spec a2 b2) as [->|N2]; [|constructor; congruence].
  destruct (N.eqb_spec a3 b3) as [->|N3]; constructor; congruence.
Qed.

Lemma t_get_del t id id' : t_get (t_del t id) id' = if aid_eqb id id' then None else t_get t id'.
Proof.
  induction t as [|a r IH]; cbn [t_del t_get]; [destruct (aid_eqb id id'); reflexivity|].
  destruct (aid_eqb_spec (a_id a) id) as [E|N].
  - rewrite IH. destruct (aid_eqb_spec id id') as [E2|N2]; [reflexivity|].
    destruct (aid_eqb_spec (a_id a) id'); [congruence|reflexivity].
  - cbn [t_get]. rewrite IH. destruct (aid_eqb_spec (a_id a) id') as [E3|N3]; [|reflexivity].
    destruct (aid_eqb_spec id id'); [congruence|reflexivity].
Qed.

(* a reply completes exactly the ask filed under its (address, origin time,
   counter), hands it the reply's bytes, and completes nothing else; it can do so once *)
Theorem reply_completes_own_ask t id resp err t' req resp' err' :
  t_reply t id resp err = (t', Some (req, resp', err')) ->
  (exists a, t_get t id = Some a /\ a_req a = req /\ a_state a = Pending) /\ resp' = resp /\ err' = err /\
  t_get t' id = None /\ (forall id2, id2 <> id -> t_get t' id2 = t_get t id2).
Proof.
  unfold t_reply. destruct (t_get t id) as [a|] eqn:E; [|discriminate].
  destruct (a_state a) eqn:Es; try discriminate. intros [= <- <- <- <-].
  split; [exists a; auto|]. split; [reflexivity|]. split; [reflexivity|]. split.
  - rewrite t_get_del. destruct (aid_eqb_spec id id); congruence.
  - intros id2 Hne. rewrite t_get_del. destruct (aid_eqb_spec id id2); congruence.
Qed.

(* a reply under an id nobody is waiting on changes nothing *)
Theorem stray_reply_ignored t id resp err : t_get t id = None -> t_reply t id resp err = (t, None).
Proof. unfold t_reply. now intros ->. Qed.

(* asks filed under different ids do not disturb each other *)
Theorem create_keeps_others t id req id2 : id2 <> id -> t_get (t_create t id req) id2 = t_get t id2.
Proof.
  intros Hne. unfold t_create. cbn [t_get a_id]. destruct (aid_eqb_spec id id2); [congruence|].
  rewrite t_get_del. destruct (aid_eqb_spec id id2); congruence.
Qed.

(* the caller is never given a truncated or an error answer as a success *)
Theorem ask_result_success cap resp err r : ask_result cap resp err = OAnswer r ->
  r = resp /\ lenN resp <= cap /\ err = 0.
Proof.
  unfold ask_result. destruct (N.ltb_spec cap (lenN resp)); [discriminate|].
  destruct (N.ltb_spec 0 err); [discriminate|]. intros [= <-]. repeat split; lia.
Qed.

(* C10 for p/mbapp: the collector never invents or mixes messages. *)
From P2PV Require Import Lib.Base Lib.Varint Model.Frag Model.Mbapp Proofs.BaseP Proofs.VarintP Proofs.FragP.
From Coq Require Import Lia ZifyBool ZifyN ZifyNat.
Ltac Zify.zify_post_hook ::= Z.div_mod_to_equations.
Open Scope nat_scope.

Lemma skipn_add {A} a b (l : list A) : skipn a (skipn b l) = skipn (b + a) l.
Proof.
  revert l. induction b as [|b IH]; intros l; [reflexivity|].
  destruct l as [|x t]; [now rewrite !skipn_nil|]. cbn [skipn Nat.add]. apply IH.
Qed.

Lemma nth_skipn' {A} (l : list A) n j x : nth j (skipn n l) x = nth (n + j) l x.
Proof.
  revert l. induction n as [|n IH]; intros l; [reflexivity|].
  destruct l as [|y t]; [destruct j; reflexivity|]. cbn [skipn Nat.add nth]. apply IH.
Qed.

Lemma nth_firstn' {A} (l : list A) n j x : j < n -> nth j (firstn n l) x = nth j l x.
Proof.
  revert l j. induction n as [|n IH]; intros l j H; [lia|].
  destruct l as [|y t]; [destruct j; reflexivity|]. destruct j as [|j]; [reflexivity|].
  cbn [firstn nth]. apply IH. lia.
Qed.

(* ---------- chunks, positionally ---------- *)
Lemma chunks_fuel_nth sz : 0 < sz -> forall fuel l i c, length l <= fuel ->
  nth_error (chunks_fuel fuel sz l) i = Some c ->
  c = firstn sz (skipn (i * sz) l) /\ i * sz < length l.
Proof.
  intros Hsz. induction fuel as [|f IH]; intros l i c Hl H.
  - destruct i; discriminate.
  - cbn [chunks_fuel] in H. destruct l as [|x t]; [destruct i; discriminate|].
    destruct i as [|i]; cbn [nth_error] in H.
    + injection H as <-. cbn [length]. split; [reflexivity|lia].
    + assert (Hs : length (skipn sz (x :: t)) <= f) by (rewrite skipn_length; cbn [length] in *; lia).
      destruct (IH _ i c Hs H) as [E B]. rewrite skipn_length in B. split.
      * rewrite E. f_equal. rewrite skipn_add. f_equal; lia.
      * lia.
Qed.

Lemma chunks_nth sz l i c : 0 < sz -> nth_error (chunks sz l) i = Some c ->
  c = firstn sz (skipn (i * sz) l) /\ i * sz < length l.
Proof. intros H. apply chunks_fuel_nth; [assumption|lia]. Qed.

(* ---------- copy(buf[off:], d) ---------- *)
Lemma copy_at_length buf off d : off + length d <= length buf -> length (copy_at buf off d) = length buf.
Proof.
  intros H. unfold copy_at. rewrite !app_length, !firstn_length, skipn_length. lia.
Qed.

Lemma copy_at_nth buf off d j (x : N) : off + length d <= length buf ->
  nth j (copy_at buf off d) x = if (off <=? j) && (j <? off + length d) then nth (j - off) d x else nth j buf x.
Proof.
  intros H. unfold copy_at.
  assert (E : firstn (length buf - off) d = d) by (apply firstn_all2; lia). rewrite E.
  destruct (Nat.leb_spec off j) as [Hle|Hlt]; cbn [andb].
  - rewrite app_nth2 by (rewrite firstn_length; lia). rewrite firstn_length.
    replace (Nat.min off (length buf)) with off by lia.
    destruct (Nat.ltb_spec j (off + length d)) as [Hin|Hout].
    + now rewrite app_nth1 by lia.
    + rewrite app_nth2 by lia. rewrite nth_skipn'. f_equal. lia.
  - rewrite app_nth1 by (rewrite firstn_length; lia). now rewrite nth_firstn' by lia.
Qed.

Lemma set_bit_nth l i k : nth k (set_bit l i) false = if (k =? i) && (i <? length l) then true else nth k l false.
Proof.
  revert i k. induction l as [|b t IH]; intros i k; cbn [set_bit length].
  - destruct i, k; cbn; rewrite ?Bool.andb_false_r; reflexivity.
  - destruct i as [|i], k as [|k]; cbn [set_bit nth]; try reflexivity.
    rewrite IH. cbn [Nat.eqb]. destruct (k =? i); [|reflexivity]. cbn [andb].
    destruct (Nat.ltb_spec i (length t)), (Nat.ltb_spec (S i) (S (length t))); try lia; reflexivity.
Qed.

Lemma set_bit_len l i : length (set_bit l i) = length l.
Proof. revert i; induction l as [|b t IH]; intros [|i]; cbn; auto. Qed.

(* ---------- the collector invariant, position by position ---------- *)
(* every position whose part has been recorded holds the payload's byte *)
Definition agree (bits : list bool) (buf pl : bytes) (p : nat) : Prop :=
  length buf = length pl /\
  forall j, j < length pl -> nth (j / p) bits false = true -> nth j buf 0%N = nth j pl 0%N.

Lemma agree_fresh n pl p : agree (repeat false n) (repeat 0%N (length pl)) pl p.
Proof.
  split; [apply repeat_length|]. intros j _ H. exfalso.
  assert (G : forall k, nth k (repeat false n) false = false).
  { intros k. destruct (Nat.lt_ge_cases k n); [apply nth_repeat|apply nth_overflow; rewrite repeat_length; lia]. }
  rewrite G in H. discriminate.
Qed.

Lemma agree_add bits buf pl p i : 0 < p -> agree bits buf pl p -> i < length bits -> i * p < length pl ->
  agree (set_bit bits i) (copy_at buf (i * p) (firstn p (skipn (i * p) pl))) pl p.
Proof.
  intros Hp [Hlen Hag] Hi Hoff.
  set (d := firstn p (skipn (i * p) pl)).
  assert (Hd : length d = Nat.min p (length pl - i * p)) by (unfold d; rewrite firstn_length, skipn_length; reflexivity).
  assert (Hfit : i * p + length d <= length buf) by lia.
  split; [rewrite copy_at_length; assumption|].
  intros j Hj Hb. rewrite copy_at_nth by assumption. rewrite set_bit_nth in Hb.
  destruct (Nat.eqb_spec (j / p) i) as [E|N]; cbn [andb] in Hb.
  - (* position j belongs to part i *)
    assert (R : i * p <= j < i * p + p) by (subst i; split; nia).
    destruct (Nat.leb_spec (i * p) j); [|lia]. destruct (Nat.ltb_spec j (i * p + length d)); [|lia]. cbn [andb].
    unfold d. rewrite nth_firstn' by lia. rewrite nth_skipn'. f_equal. lia.
  - assert (R : ~ (i * p <= j < i * p + p)).
    { intros [A B]. apply N. symmetry. apply Nat.div_unique with (r := j - i * p); lia. }
    destruct (Nat.leb_spec (i * p) j); cbn [andb]; [|now apply Hag].
    destruct (Nat.ltb_spec j (i * p + length d)); [lia|]. now apply Hag.
Qed.

Lemma agree_complete bits buf pl p : 0 < p -> agree bits buf pl p ->
  forallb (fun b => b) bits = true -> length pl <= length bits * p -> buf = pl.
Proof.
  intros Hp [Hlen Hag] Hall Hcov. apply nth_ext with (d := 0%N) (d' := 0%N); [assumption|].
  intros j Hj. rewrite Hlen in Hj. apply Hag; [assumption|].
  rewrite forallb_forall in Hall. apply Hall. apply nth_In.
  apply Nat.div_lt_upper_bound; lia.
Qed.

(* ====================== the receiver ====================== *)
Open Scope N_scope.

Record msent := mkMs {
  ms_src : bytes; ms_origin : N; ms_counter : N; ms_ask : bool; ms_reply : bool;
  ms_psize : nat;            (* the sender's part size *)
  ms_payload : bytes }.

Definition ms_key (m : msent) : col_key :=
  (ms_src m, ms_origin m, 4 * ms_counter m + (if ms_ask m then 2 else 0) + (if ms_reply m then 1 else 0)).
Definition ms_chunks (m : msent) : list bytes := chunks (ms_psize m) (ms_payload m).
Definition wf_ms (m : msent) : Prop := (0 < ms_psize m)%nat.

(* a genuine packet of a ledger message, from that message's source: it parses
   to the message's identification and either the whole payload (fewer than two
   parts) or part i of n with the i-th chunk as body *)
Definition genuine_mb (L : list msent) (src pkt : bytes) : Prop :=
  exists m h body, In m L /\ wf_ms m /\ ms_src m = src /\ parse_mb pkt = Ok (h, body) /\
    h_origin h = ms_origin m /\ h_counter h = ms_counter m /\ h_ask h = ms_ask m /\ h_reply h = ms_reply m /\
    h_total h = lenN (ms_payload m) /\ h_count h = lenN (ms_chunks m) /\
    ((h_count h < 2 /\ body = ms_payload m) \/
     (2 <= h_count h /\ nth_error (ms_chunks m) (N.to_nat (h_index h)) = Some body)).

Definition col_ok (L : list msent) (k : col_key) (c : collector) : Prop :=
  exists m, In m L /\ wf_ms m /\ ms_key m = k /\
    c_count c = lenN (ms_chunks m) /\ length (c_bits c) = length (ms_chunks m) /\
    agree (c_bits c) (c_buf c) (ms_payload m) (ms_psize m).
Definition mb_inv (L : list msent) (st : mb_state) : Prop := forall k c, In (k, c) st -> col_ok L k c.

Lemma ck_eqb_spec a b : reflect (a = b) (ck_eqb a b).
Proof.
  destruct a as [[a1 a2] a3], b as [[b1 b2] b3]. unfold ck_eqb. cbn [fst snd].
  destruct (bytes_eqb_spec a1 b1) as [->|N1]; [|constructor; congruence].
  destruct (N.eqb_spec a2 b2) as [->|N2]; [|constructor; congruence].
  destruct (N.eqb_spec a3 b3) as [->|N3]; constructor; congruence.
Qed.

Lemma col_get_in' st k c : col_get st k = Some c -> In (k, c) st.
Proof.
  induction st as [|[k' c'] t IH]; cbn [col_get]; [discriminate|].
  destruct (ck_eqb_spec k' k) as [->|N]; [intros [= <-]; now left|intros H; right; auto].
Qed.

Lemma in_col_del' st k k' c : In (k', c) (col_del st k) -> In (k', c) st.
Proof.
  induction st as [|[k2 c2] t IH]; cbn [col_del]; [tauto|].
  destruct (ck_eqb k2 k); [intros H; right; auto|]. intros [E|H]; [now left|right; auto].
Qed.

Lemma key_unique (L : list msent) m m' : NoDup (map ms_key L) -> In m L -> In m' L -> ms_key m = ms_key m' -> m = m'.
Proof.
  induction L as [|x t IH]; intros Hnd Hm Hm' E; [contradiction|].
  inversion Hnd as [|? ? Hnot Hnd']; subst. destruct Hm as [->|Hm], Hm' as [->|Hm']; auto.
  - exfalso. apply Hnot. rewrite E. now apply in_map.
  - exfalso. apply Hnot. rewrite <- E. now apply in_map.
Qed.

(* adding a genuine part to a collector that agrees with its message *)
Lemma add_part_genuine m c i body :
  wf_ms m -> c_count c = lenN (ms_chunks m) -> length (c_bits c) = length (ms_chunks m) ->
  agree (c_bits c) (c_buf c) (ms_payload m) (ms_psize m) ->
  nth_error (ms_chunks m) i = Some body ->
  let c' := add_part c (N.of_nat i) body in
  c_count c' = c_count c /\ length (c_bits c') = length (c_bits c) /\
  agree (c_bits c') (c_buf c') (ms_payload m) (ms_psize m).
Proof.
  intros Hwf Hcnt Hbits Hag Hnth. unfold wf_ms in Hwf. set (p := ms_psize m) in *. set (pl := ms_payload m) in *.
  destruct (chunks_nth p pl i body Hwf Hnth) as [Ebody Hoff].
  assert (Hi : (i < length (ms_chunks m))%nat) by (apply nth_error_Some; congruence).
  destruct (chunks_bound p pl Hwf) as (_ & Hup & Hlo). fold (ms_chunks m) in Hup, Hlo.
  set (n := length (ms_chunks m)) in *.
  assert (En : length (chunks p pl) = n) by reflexivity. rewrite En in Hup, Hlo.
  assert (Hlb : length body = Nat.min p (length pl - i * p)) by (rewrite Ebody, firstn_length, skipn_length; reflexivity).
  assert (Ecnt : c_count c = N.of_nat n) by (rewrite Hcnt, lenN_spec; reflexivity).
  cbn zeta. unfold add_part.
  destruct (N.leb_spec (c_count c) (N.of_nat i)); [lia|].
  rewrite Nat2N.id.
  destruct (nth i (c_bits c) false) eqn:Ebit; [split; [reflexivity|split; [reflexivity|exact Hag]]|].
  destruct Hag as [Hlen Hag0].
  set (offset := if N.of_nat i =? c_count c - 1 then _ else _).
  assert (Eo : offset = Z.of_nat (i * p)).
  { unfold offset. rewrite !lenN_spec, Ecnt. destruct (N.eqb_spec (N.of_nat i) (N.of_nat n - 1)) as [E|Ne].
    - assert (i = n - 1)%nat by lia. assert (length body = length pl - i * p)%nat by nia. lia.
    - assert (i + 1 < n)%nat by lia. assert (length body = p) by nia. nia. }
  rewrite Eo. rewrite lenN_spec.
  destruct (Z.ltb_spec (Z.of_nat (i * p)) 0); [lia|]. cbn [orb].
  destruct (Z.leb_spec (Z.of_N (N.of_nat (length (c_buf c)))) (Z.of_nat (i * p))); [lia|].
  cbn [c_count c_bits c_buf]. rewrite Nat2Z.id, set_bit_len. split; [reflexivity|split; [reflexivity|]].
  rewrite Ebody. apply agree_add; [assumption|split; assumption|lia|assumption].
Qed.

(* one genuine packet *)
Lemma mb_recv_genuine L mtu st src pkt :
  NoDup (map ms_key L) -> mb_inv L st -> genuine_mb L src pkt ->
  forall st' d, mb_recv mtu st src pkt = Ok (st', d) ->
  mb_inv L st' /\
  forall h body, d = Some (h, body) -> exists m, In m L /\ ms_src m = src /\ body = ms_payload m.
Proof.
  intros Hnd Hinv (m & h & body & Hin & Hwf & Hsrc & Hparse & Ho & Hc & Ha & Hr & Ht & Hn & Hcase) st' d.
  unfold mb_recv. rewrite Hparse.
  destruct (_ <? _)%Z; [discriminate|].
  destruct (N.ltb_spec (h_count h) 2) as [Hlt|Hge].
  - intros [= <- <-]. split; [exact Hinv|]. intros h0 b0 [= <- <-].
    destruct Hcase as [[_ ->]|[Hx _]]; [|lia]. exists m. auto.
  - destruct Hcase as [[Hx _]|[_ Hnth]]; [lia|].
    set (k := (src, h_origin h, _)).
    assert (Ek : ms_key m = k).
    { unfold ms_key, k. now rewrite Hsrc, Ho, Hc, Ha, Hr. }
    set (c := match col_get st k with Some c => c | None => _ end).
    assert (Hc0 : c_count c = lenN (ms_chunks m) /\ length (c_bits c) = length (ms_chunks m) /\
                  agree (c_bits c) (c_buf c) (ms_payload m) (ms_psize m)).
    { unfold c. destruct (col_get st k) as [c0|] eqn:Eg.
      - destruct (Hinv k c0 (col_get_in' _ _ _ Eg)) as (m' & Hin' & _ & Ek' & A & B & C).
        assert (m' = m) by (apply (key_unique L); auto; congruence). subst m'. auto.
      - cbn [c_count c_bits c_buf]. rewrite Hn, Ht, !lenN_spec, !Nat2N.id, repeat_length.
        split; [reflexivity|split; [reflexivity|apply agree_fresh]]. }
    destruct Hc0 as (A & B & C).
    pose proof (add_part_genuine m c (N.to_nat (h_index h)) body Hwf A B C Hnth) as G.
    rewrite N2Nat.id in G. cbn zeta in G. destruct G as (A' & B' & C').
    set (c' := add_part c (h_index h) body) in *.
    destruct (forallb (fun b => b) (c_bits c')) eqn:Eall; intros [= <- <-].
    + split.
      * intros k0 c0 Hin0. apply in_col_del' in Hin0. now apply Hinv.
      * intros h0 b0 [= <- <-]. exists m. split; [assumption|split; [assumption|]].
        unfold wf_ms in Hwf. destruct (chunks_bound (ms_psize m) (ms_payload m) Hwf) as (_ & _ & Hlo).
        apply (agree_complete (c_bits c') (c_buf c') (ms_payload m) (ms_psize m) Hwf C' Eall).
        rewrite B', B. exact Hlo.
    + split; [|discriminate].
      intros k0 c0 [E|Hin0].
      * injection E as <- <-. exists m. split; [assumption|split; [assumption|split; [exact Ek|split; [congruence|split; [congruence|exact C']]]]].
      * apply in_col_del' in Hin0. now apply Hinv.
Qed.

(* ---- whole schedules: genuine packets in any order / multiplicity / omission, and cleanups ---- *)
Inductive mb_action := MDeliver (src pkt : bytes) | MCleanup (drop : col_key -> bool).

Definition mb_ok_action (L : list msent) (a : mb_action) : Prop :=
  match a with MDeliver src pkt => genuine_mb L src pkt | MCleanup _ => True end.

Fixpoint mb_run_sched (mtu : Z) (st : mb_state) (acts : list mb_action) : list (bytes * bytes) :=
  match acts with
  | [] => []
  | MDeliver src pkt :: t =>
      match mb_recv mtu st src pkt with
      | Ok (st', Some (h, body)) => (src, body) :: mb_run_sched mtu st' t
      | Ok (st', None) => mb_run_sched mtu st' t
      | _ => mb_run_sched mtu st t
      end
  | MCleanup drop :: t => mb_run_sched mtu (mb_cleanup st drop) t
  end.

Theorem mb_reassembly_sound L mtu : NoDup (map ms_key L) ->
  forall acts st, mb_inv L st -> Forall (mb_ok_action L) acts ->
  forall src p, In (src, p) (mb_run_sched mtu st acts) ->
    exists m, In m L /\ ms_src m = src /\ ms_payload m = p.
Proof.
  intros Hnd. induction acts as [|a t IH]; intros st Hinv Hall src p Hin; [contradiction|].
  inversion Hall as [|? ? Ha Ht]; subst. destruct a as [s pkt|drop]; cbn [mb_run_sched] in Hin.
  - cbn [mb_ok_action] in Ha.
    destruct (mb_recv mtu st s pkt) as [[st' [[h body]|]]| |] eqn:Er; try (eapply IH; eauto; fail).
    + destruct (mb_recv_genuine L mtu st s pkt Hnd Hinv Ha st' _ Er) as (I' & D).
      destruct Hin as [E|Hin]; [|eapply IH; eauto].
      injection E as <- <-. destruct (D h body eq_refl) as (m & A & B & C). exists m. auto.
    + destruct (mb_recv_genuine L mtu st s pkt Hnd Hinv Ha st' _ Er) as (I' & _). eapply IH; eauto.
  - eapply IH; [|exact Ht|exact Hin]. intros k c Hk. unfold mb_cleanup in Hk. apply filter_In in Hk as [Hk _]. now apply Hinv.
Qed.

Lemma mb_inv_init L : mb_inv L [].
Proof. intros k c []. Qed.

(* ====================== the sender emits genuine packets ====================== *)
Lemma be_decode_app a b : be_decode (a ++ b) = be_decode_acc b (be_decode a).
Proof. unfold be_decode. apply be_decode_acc_app. Qed.

Lemma be_decode_acc_shift b : forall acc, be_decode_acc b acc = acc * 256 ^ lenN b + be_decode b.
Proof.
  unfold be_decode. induction b as [|x t IH]; intros acc; cbn [be_decode_acc].
  - rewrite lenN_nil. cbn. lia.
  - rewrite IH, (IH (0 * 256 + x)), lenN_cons, N.pow_succ_r'. lia.
Qed.

Lemma word_at (pre e post : bytes) (k : N) : lenN pre = 4 * k -> lenN e = 4 ->
  takeN 4 (dropN (4 * k) (pre ++ e ++ post)) = e.
Proof.
  intros Hp He. rewrite <- Hp, dropN_app_len. rewrite <- He. apply takeN_app_len.
Qed.

(* the flag word: all 4 * 256 combinations *)
Definition flag_word (a r : bool) (e : N) : N := (if a then 2 ^ 31 else 0) + (if r then 2 ^ 30 else 0) + e.
Lemma flag_word_sweep :
  forallb (fun a => forallb (fun r => forallb (fun e =>
      Bool.eqb (N.testbit (flag_word a r e) 31) a && Bool.eqb (N.testbit (flag_word a r e) 30) r &&
      (flag_word a r e mod 256 =? e) && (flag_word a r e <? 2 ^ 32))
    (map N.of_nat (seq 0 256))) [true; false]) [true; false] = true.
Proof. vm_compute. reflexivity. Qed.

Lemma flag_word_spec a r e : e < 256 ->
  N.testbit (flag_word a r e) 31 = a /\ N.testbit (flag_word a r e) 30 = r /\
  flag_word a r e mod 256 = e /\ flag_word a r e < 2 ^ 32.
Proof.
  intros He. pose proof flag_word_sweep as S.
  rewrite forallb_forall in S. assert (Ia : In a [true; false]) by (destruct a; cbn; auto).
  specialize (S a Ia). rewrite forallb_forall in S. assert (Ir : In r [true; false]) by (destruct r; cbn; auto).
  specialize (S r Ir). rewrite forallb_forall in S.
  assert (Ie : In e (map N.of_nat (seq 0 256))).
  { apply in_map_iff. exists (N.to_nat e). split; [lia|]. apply in_seq. lia. }
  specialize (S e Ie). apply Bool.andb_true_iff in S as [S S4]. apply Bool.andb_true_iff in S as [S S3].
  apply Bool.andb_true_iff in S as [S1 S2].
  apply Bool.eqb_prop in S1, S2. apply N.eqb_eq in S3. apply N.ltb_lt in S4. auto.
Qed.

Definition hdr_in_range (h : mb_header) : Prop :=
  h_origin h < 2 ^ 32 /\ h_counter h < 2 ^ 32 /\ h_total h < 2 ^ 32 /\
  h_index h < 2 ^ 16 /\ h_count h < 2 ^ 16 /\ h_timeout h < 2 ^ 32 /\ h_err h < 256.

Theorem parse_encode h body : hdr_in_range h -> parse_mb (encode_header h ++ body) = Ok (h, body).
Proof.
  intros (Ho & Hc & Ht & Hi & Hn & Hm & He). destruct h as [a r e o c t i n tm]. cbn [h_origin h_counter h_total h_index h_count h_timeout h_err] in *.
  unfold parse_mb, encode_header, word0. cbn [h_ask h_reply h_err h_origin h_counter h_total h_index h_count h_timeout].
  rewrite !N.mod_small by assumption.
  change ((if a then 2 ^ 31 else 0) + (if r then 2 ^ 30 else 0) + e) with (flag_word a r e).
  destruct (flag_word_spec a r e He) as (F31 & F30 & Fm & Fl).
  set (e0 := be_encode 4 (flag_word a r e)). set (e1 := be_encode 4 o). set (e2 := be_encode 4 c).
  set (e3 := be_encode 4 t). set (e4a := be_encode 2 i). set (e4b := be_encode 2 n). set (e5 := be_encode 4 tm).
  assert (L0 : lenN e0 = 4) by apply be_encode_len. assert (L1 : lenN e1 = 4) by apply be_encode_len.
  assert (L2 : lenN e2 = 4) by apply be_encode_len. assert (L3 : lenN e3 = 4) by apply be_encode_len.
  assert (L4a : lenN e4a = 2) by apply be_encode_len. assert (L4b : lenN e4b = 2) by apply be_encode_len.
  assert (L5 : lenN e5 = 4) by apply be_encode_len.
  set (x := (e0 ++ e1 ++ e2 ++ e3 ++ e4a ++ e4b ++ e5) ++ body).
  assert (Lx : lenN x = 24 + lenN body) by (unfold x; rewrite !lenN_app; lia).
  destruct (N.ltb_spec (lenN x) 24); [lia|].
  assert (W0 : takeN 4 (dropN (4 * 0) x) = e0).
  { unfold x. rewrite <- !app_assoc. apply (word_at [] e0 _ 0); [reflexivity|assumption]. }
  assert (W1 : takeN 4 (dropN (4 * 1) x) = e1).
  { unfold x. rewrite <- !app_assoc. apply (word_at e0 e1 _ 1); [lia|assumption]. }
  assert (W2 : takeN 4 (dropN (4 * 2) x) = e2).
  { unfold x. rewrite <- !app_assoc. rewrite (app_assoc e0 e1). apply (word_at (e0 ++ e1) e2 _ 2); [rewrite lenN_app; lia|assumption]. }
  assert (W3 : takeN 4 (dropN (4 * 3) x) = e3).
  { unfold x. rewrite <- !app_assoc. rewrite (app_assoc e0 e1), (app_assoc (e0 ++ e1) e2).
    apply (word_at ((e0 ++ e1) ++ e2) e3 _ 3); [rewrite !lenN_app; lia|assumption]. }
  assert (W4 : takeN 4 (dropN (4 * 4) x) = e4a ++ e4b).
  { unfold x. rewrite <- !app_assoc. rewrite (app_assoc e0 e1), (app_assoc (e0 ++ e1) e2), (app_assoc ((e0 ++ e1) ++ e2) e3).
    rewrite (app_assoc e4a e4b). apply (word_at (((e0 ++ e1) ++ e2) ++ e3) (e4a ++ e4b) _ 4); rewrite !lenN_app; lia. }
  assert (W5 : takeN 4 (dropN (4 * 5) x) = e5).
  { unfold x. rewrite <- !app_assoc. rewrite (app_assoc e0 e1), (app_assoc (e0 ++ e1) e2), (app_assoc ((e0 ++ e1) ++ e2) e3),
      (app_assoc (((e0 ++ e1) ++ e2) ++ e3) e4a), (app_assoc ((((e0 ++ e1) ++ e2) ++ e3) ++ e4a) e4b).
    replace (e5 ++ body) with (e5 ++ body ++ []) by now rewrite app_nil_r.
    rewrite <- (app_nil_r body) at 1. apply (word_at _ e5 _ 5); [rewrite !lenN_app; lia|assumption]. }
  rewrite W0, W1, W2, W3, W4, W5.
  assert (Db : dropN 24 x = body).
  { unfold x. replace 24 with (lenN (e0 ++ e1 ++ e2 ++ e3 ++ e4a ++ e4b ++ e5)) by (rewrite !lenN_app; lia). apply dropN_app_len. }
  rewrite Db.
  assert (D0 : be_decode e0 = flag_word a r e) by (apply be_decode_encode; exact Fl).
  assert (D1 : be_decode e1 = o) by (apply be_decode_encode; exact Ho).
  assert (D2 : be_decode e2 = c) by (apply be_decode_encode; exact Hc).
  assert (D3 : be_decode e3 = t) by (apply be_decode_encode; exact Ht).
  assert (D5 : be_decode e5 = tm) by (apply be_decode_encode; exact Hm).
  assert (D4 : be_decode (e4a ++ e4b) = i * 2 ^ 16 + n).
  { rewrite be_decode_app, be_decode_acc_shift, L4b. unfold e4a, e4b. rewrite !be_decode_encode by assumption. reflexivity. }
  rewrite D0, D1, D2, D3, D4, D5, F31, F30, Fm.
  change (2 ^ 16) with 65536 in *.
  assert (Q : (i * 65536 + n) / 65536 = i) by (symmetry; apply (N.div_unique _ 65536 i n); lia).
  assert (R : (i * 65536 + n) mod 65536 = n) by (symmetry; apply (N.mod_unique _ 65536 i n); lia).
  rewrite Q, R. reflexivity.
Qed.

(* what mb_send emits for a message is genuine for that message *)
Theorem mb_send_genuine inner (h0 : mb_header) src payload pkts :
  (1 <= part_size inner)%Z ->
  h_origin h0 < 2 ^ 32 -> h_counter h0 < 2 ^ 32 -> h_timeout h0 < 2 ^ 32 -> h_err h0 < 256 ->
  lenN payload < 2 ^ 32 -> lenN (chunks (Z.to_nat (part_size inner)) payload) < 2 ^ 16 ->
  mb_send inner h0 payload = Ok pkts ->
  let m := mkMs src (h_origin h0) (h_counter h0) (h_ask h0) (h_reply h0) (Z.to_nat (part_size inner)) payload in
  wf_ms m /\ forall pkt, In pkt pkts -> genuine_mb [m] src pkt.
Proof.
  intros Hp Ho Hc Hm He Ht Hn. unfold mb_send. destruct (Z.ltb_spec (part_size inner) 1); [lia|].
  set (p := Z.to_nat (part_size inner)). set (cs := chunks p payload). intros Hs.
  set (m := mkMs src (h_origin h0) (h_counter h0) (h_ask h0) (h_reply h0) p payload).
  assert (Hwf : wf_ms m) by (unfold wf_ms, m; cbn; lia).
  split; [exact Hwf|]. intros pkt Hin.
  assert (Ecs : ms_chunks m = cs) by reflexivity.
  assert (G : forall idx body,
    ((lenN cs < 2 /\ body = payload) \/ (2 <= lenN cs /\ nth_error cs (N.to_nat idx) = Some body)) -> idx < 2 ^ 16 ->
    genuine_mb [m] src (encode_header (mkHdr (h_ask h0) (h_reply h0) (h_err h0) (h_origin h0) (h_counter h0)
                                            (lenN payload) idx (lenN cs) (h_timeout h0)) ++ body)).
  { intros idx body Hcase Hidx.
    exists m, (mkHdr (h_ask h0) (h_reply h0) (h_err h0) (h_origin h0) (h_counter h0) (lenN payload) idx (lenN cs) (h_timeout h0)), body.
    split; [now left|]. split; [exact Hwf|]. split; [reflexivity|]. split.
    - apply parse_encode. unfold hdr_in_range. cbn. repeat split; assumption.
    - cbn [h_origin h_counter h_ask h_reply h_total h_count h_index]. rewrite Ecs. repeat split; try reflexivity. exact Hcase. }
  fold cs in Hn. destruct cs as [|c [|c2 t]] eqn:E.
  - injection Hs as <-. destruct Hin as [<-|[]]. apply (G 0 payload); [left; split; [rewrite lenN_nil; lia|reflexivity]|lia].
  - injection Hs as <-. destruct Hin as [<-|[]]. apply (G 0 payload); [left; split; [cbn; lia|reflexivity]|lia].
  - assert (H2 : 2 <= lenN (c :: c2 :: t)) by (rewrite lenN_spec; cbn [length]; lia).
    remember (c :: c2 :: t) as cs' eqn:Ecs'. clear Ecs'.
    injection Hs as <-. apply in_map_iff in Hin as ([i b] & <- & Hin). cbn [fst snd].
    apply In_nth_error in Hin as (j & Hj). apply number_from_spec in Hj as (y & Hy & Ey). injection Ey as -> ->.
    assert (Hlt : (j < length cs')%nat) by (apply nth_error_Some; unfold bytes in *; rewrite Hy; discriminate).
    rewrite lenN_spec in Hn. replace (0 + N.of_nat j) with (N.of_nat j) by lia.
    apply G; [right; split; [exact H2|rewrite Nat2N.id; exact Hy]|]. change (2 ^ 16) with 65536 in *.
    assert (Hn' : N.of_nat (length cs') < 65536) by (rewrite <- Ecs; exact Hn). lia.
Qed.

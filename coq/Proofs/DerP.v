From P2PV Require Import Lib.Base Lib.Varint Lib.Der Proofs.BaseP Proofs.VarintP.
From Coq Require Import Lia ZifyBool ZifyN ZifyNat.
Ltac Zify.zify_post_hook ::= Z.div_mod_to_equations.
Open Scope N_scope.

Arguments N.pow : simpl never.
Arguments N.div : simpl never.
Arguments N.modulo : simpl never.
Arguments N.mul : simpl never.
Arguments N.add : simpl never.
Arguments N.sub : simpl never.
Arguments N.size : simpl never.

(* ---------- digits_needed ---------- *)
Lemma size_bound n : n < 2 ^ N.size n.
Proof.
  destruct n as [|p]; [cbn; lia|]. apply N.size_gt.
Qed.

Lemma size_lower n : n <> 0 -> 2 ^ (N.size n - 1) <= n.
Proof.
  intros Hn. rewrite N.size_log2 by assumption. replace (N.succ (N.log2 n) - 1) with (N.log2 n) by lia.
  apply N.log2_spec. lia.
Qed.

Lemma digits_needed_pos k n : (1 <= digits_needed k n)%nat.
Proof. unfold digits_needed. lia. Qed.

Lemma digits_needed_upper k n : 0 < k -> n < (2 ^ k) ^ N.of_nat (digits_needed k n).
Proof.
  intros Hk. rewrite <- N.pow_mul_r. eapply N.lt_le_trans; [apply size_bound|].
  apply N.pow_le_mono_r; [lia|]. unfold digits_needed. rewrite N2Nat.id.
  assert (N.size n <= k * ((N.size n + (k - 1)) / k)).
  { pose proof (N.div_mod (N.size n + (k - 1)) k ltac:(lia)). pose proof (N.mod_lt (N.size n + (k - 1)) k ltac:(lia)). lia. }
  eapply N.le_trans; [eassumption|]. apply N.mul_le_mono_l. lia.
Qed.

Lemma digits_needed_lower k n : 0 < k -> (1 < digits_needed k n)%nat ->
  (2 ^ k) ^ (N.of_nat (digits_needed k n) - 1) <= n.
Proof.
  intros Hk Hw. unfold digits_needed in *. rewrite N2Nat.id in *.
  set (q := (N.size n + (k - 1)) / k) in *.
  assert (Hq : 1 < q) by lia. rewrite N.max_r by lia.
  assert (Hn : n <> 0). { intros ->. unfold q in Hq. change (N.size 0) with 0 in Hq. rewrite N.add_0_l in Hq.
                          rewrite N.div_small in Hq by lia. lia. }
  rewrite <- N.pow_mul_r. eapply N.le_trans; [|apply size_lower; assumption].
  apply N.pow_le_mono_r; [lia|].
  pose proof (N.div_mod (N.size n + (k - 1)) k ltac:(lia)). pose proof (N.mod_lt (N.size n + (k - 1)) k ltac:(lia)).
  fold q in H. nia.
Qed.

(* ---------- TLV ---------- *)
Lemma takeN_app_n {A} n (a b : list A) : lenN a = n -> takeN n (a ++ b) = a.
Proof. intros <-. apply takeN_app_len. Qed.
Lemma dropN_app_n {A} n (a b : list A) : lenN a = n -> dropN n (a ++ b) = b.
Proof. intros <-. apply dropN_app_len. Qed.

Lemma read_tlv_tlv tag c r : read_tlv (tlv tag c ++ r) = Some (tag, c, r).
Proof.
  unfold tlv, der_len. set (n := lenN c).
  destruct (N.ltb_spec n 128) as [Hs|Hl]; cbn [app read_tlv].
  - destruct (N.ltb_spec n 128); [|lia].
    destruct (N.ltb_spec (lenN (c ++ r)) n) as [Hc|Hc]; [rewrite lenN_app in Hc; lia|].
    now rewrite (takeN_app_n n), (dropN_app_n n) by reflexivity.
  - set (w := digits_needed 8 n).
    pose proof (digits_needed_pos 8 n) as Hw. fold w in Hw.
    destruct (N.ltb_spec (128 + N.of_nat w) 128); [lia|].
    replace (128 + N.of_nat w - 128) with (N.of_nat w) by lia.
    destruct (N.eqb_spec (N.of_nat w) 0); [lia|]. cbn [orb].
    rewrite <- !app_assoc.
    destruct (N.ltb_spec (lenN (be_encode w n ++ c ++ r)) (N.of_nat w)) as [Hc|Hc];
      [rewrite lenN_app, be_encode_len in Hc; lia|].
    rewrite (takeN_app_n (N.of_nat w)) by apply be_encode_len.
    rewrite (dropN_app_n (N.of_nat w)) by apply be_encode_len.
    rewrite be_decode_encode.
    2:{ pose proof (digits_needed_upper 8 n ltac:(lia)) as Hu. fold w in Hu. exact Hu. }
    assert (Hd : der_len n = 128 + N.of_nat w :: be_encode w n).
    { unfold der_len. destruct (N.ltb_spec n 128); [lia|]. reflexivity. }
    rewrite Hd, bytes_eqb_refl. cbn [negb].
    destruct (N.ltb_spec (lenN (c ++ r)) n) as [Hc'|Hc']; [rewrite lenN_app in Hc'; lia|].
    now rewrite (takeN_app_n n), (dropN_app_n n) by reflexivity.
Qed.

(* ---------- base 128 ---------- *)
Lemma b128_digits_mod w : forall n, b128_digits w n = b128_digits w (n mod 128 ^ N.of_nat w).
Proof.
  induction w as [|w IH]; intros n; cbn [b128_digits]; [reflexivity|].
  rewrite Nat2N.inj_succ, N.pow_succ_r'. set (p := 128 ^ N.of_nat w).
  assert (Hp : 0 < p) by (apply N.neq_0_lt_0, N.pow_nonzero; lia).
  f_equal.
  - f_equal. rewrite (N.mul_comm 128 p), N.mod_mul_r by lia.
    rewrite N.mul_comm, N.div_add by lia.
    rewrite (N.div_small (n mod p) p) by (apply N.mod_lt; lia).
    rewrite N.add_0_l, N.mod_mod by lia. reflexivity.
  - rewrite (IH n), (IH (n mod (128 * p))). f_equal.
    rewrite (N.mul_comm 128 p), N.mod_mul_r by lia.
    rewrite N.mul_comm, N.mod_add by lia. now rewrite N.mod_mod by lia.
Qed.

Lemma b128_digits_nonempty w n : (1 <= w)%nat -> b128_digits w n <> [].
Proof. destruct w; [lia|]. cbn [b128_digits]. discriminate. Qed.

(* reading the digits back, once past the first byte *)
Lemma b128_digits_S w n :
  b128_digits (S w) n = (n / 128 ^ N.of_nat w) mod 128 + (match w with O => 0 | _ => 128 end) :: b128_digits w n.
Proof. reflexivity. Qed.

Lemma b128_read_digits w : forall n acc r, (1 <= w)%nat -> n < 128 ^ N.of_nat w ->
  b128_read (b128_digits w n ++ r) acc false =
    (let v := acc * 128 ^ N.of_nat w + n in if MAX_ARC <? v then None else Some (v, r)).
Proof.
  induction w as [|w IH]; intros n acc r Hw Hn; [lia|].
  destruct w as [|w'].
  - (* a single, last digit *)
    cbn [b128_digits app b128_read andb]. change (128 ^ N.of_nat 0) with 1. rewrite N.div_1_r.
    change (128 ^ N.of_nat 1) with 128 in *. rewrite N.mod_small by lia. rewrite N.add_0_r.
    destruct (N.ltb_spec n 128); [|lia]. reflexivity.
  - rewrite b128_digits_S. cbn [app b128_read andb]. rewrite (Nat2N.inj_succ (S w')), N.pow_succ_r' in *.
    set (p := 128 ^ N.of_nat (S w')) in *.
    assert (Hp : 0 < p) by (apply N.neq_0_lt_0, N.pow_nonzero; lia).
    assert (Hq : n / p < 128) by (apply N.div_lt_upper_bound; lia).
    rewrite (N.mod_small (n / p) 128 Hq).
    pose proof (N.div_mod n p ltac:(lia)) as Hdm. pose proof (N.mod_lt n p ltac:(lia)) as Hml.
    set (q := n / p) in *. set (m := n mod p) in *.
    destruct (N.ltb_spec (q + 128) 128); [lia|].
    replace (q + 128 - 128) with q by lia.
    rewrite (b128_digits_mod (S w') n). fold p. fold m.
    rewrite IH; [|lia|exact Hml]. fold p. cbn zeta.
    replace ((acc * 128 + q) * p + m) with (acc * (128 * p) + n) by nia. reflexivity.
Qed.

Lemma b128_read_base128 n r : n <= MAX_ARC -> b128_read (base128 n ++ r) 0 true = Some (n, r).
Proof.
  intros Hn. unfold base128. set (w := digits_needed 7 n).
  pose proof (digits_needed_pos 7 n) as Hw. fold w in Hw.
  pose proof (digits_needed_upper 7 n ltac:(lia)) as Hu. fold w in Hu. change (2 ^ 7) with 128 in Hu.
  destruct w as [|w'] eqn:Ew; [lia|].
  cbn [b128_digits app b128_read]. rewrite Nat2N.inj_succ, N.pow_succ_r' in Hu.
  set (p := 128 ^ N.of_nat w') in *.
  assert (Hp : 0 < p) by (apply N.neq_0_lt_0, N.pow_nonzero; lia).
  assert (Hq : n / p < 128) by (apply N.div_lt_upper_bound; lia).
  rewrite (N.mod_small (n / p) 128 Hq).
  pose proof (N.div_mod n p ltac:(lia)) as Hdm. pose proof (N.mod_lt n p ltac:(lia)) as Hml.
  destruct w' as [|w''].
  - cbn in p. subst p. rewrite N.div_1_r in *. rewrite N.add_0_r.
    destruct (N.eqb_spec n 128); [lia|]. cbn [andb]. destruct (N.ltb_spec n 128); [|lia].
    replace (0 * 128 + n) with n by lia. destruct (N.ltb_spec MAX_ARC n); [lia|reflexivity].
  - (* minimal: the top digit is non-zero *)
    pose proof (digits_needed_lower 7 n ltac:(lia)) as Hlow. fold w in Hlow. rewrite Ew in Hlow.
    specialize (Hlow ltac:(lia)). change (2 ^ 7) with 128 in Hlow.
    replace (N.of_nat (S (S w'')) - 1) with (N.of_nat (S w'')) in Hlow by lia. fold p in Hlow.
    assert (Htop : 1 <= n / p) by (apply N.div_le_lower_bound; lia).
    set (q := n / p) in *. set (m := n mod p) in *.
    destruct (N.eqb_spec (q + 128) 128); [lia|]. cbn [andb].
    destruct (N.ltb_spec (q + 128) 128); [lia|].
    replace (q + 128 - 128) with q by lia.
    rewrite (b128_digits_mod (S w'') n). fold p. fold m.
    rewrite b128_read_digits; [|lia|exact Hml]. fold p. cbn zeta.
    replace ((0 * 128 + q) * p + m) with n by nia.
    destruct (N.ltb_spec MAX_ARC n); [lia|reflexivity].
Qed.

Lemma base128_nonempty n : base128 n <> [].
Proof. apply b128_digits_nonempty, digits_needed_pos. Qed.

Lemma b128_read_all_step f b : b <> [] ->
  b128_read_all (S f) b = match b128_read b 0 true with
                          | Some (v, r) => option_map (cons v) (b128_read_all f r)
                          | None => None end.
Proof. destruct b; [contradiction|reflexivity]. Qed.

Lemma b128_read_all_spec l : forall fuel,
  Forall (fun a => a <= MAX_ARC) l -> (length (flat_map base128 l) < fuel)%nat ->
  b128_read_all fuel (flat_map base128 l) = Some l.
Proof.
  induction l as [|a l IH]; intros fuel Hall Hf; cbn [flat_map].
  - destruct fuel; reflexivity.
  - inversion Hall as [|? ? Ha Hl]; subst. cbn [flat_map] in Hf. rewrite app_length in Hf.
    pose proof (base128_nonempty a) as Hne.
    destruct fuel as [|f]; [lia|].
    rewrite b128_read_all_step.
    2:{ intros E. apply app_eq_nil in E as [E _]. contradiction. }
    rewrite b128_read_base128 by assumption.
    rewrite IH; [reflexivity|assumption|].
    destruct (base128 a); [contradiction|]. cbn [length] in Hf. lia.
Qed.

(* ---------- object identifiers ---------- *)
Lemma parse_oid_content oid : valid_oid oid = true -> parse_oid (oid_content oid) = Some oid.
Proof.
  destruct oid as [|a0 [|a1 rest]]; try discriminate. cbn [valid_oid oid_content].
  intros H. apply andb_prop in H as [H Hrest]. apply andb_prop in H as [H Hmax]. apply andb_prop in H as [H0 H1].
  unfold parse_oid.
  change (base128 (40 * a0 + a1) ++ flat_map base128 rest) with (flat_map base128 ((40 * a0 + a1) :: rest)).
  pose proof (b128_read_all_spec ((40 * a0 + a1) :: rest) (S (length (flat_map base128 ((40 * a0 + a1) :: rest))))) as R.
  rewrite R; [| |lia].
  - destruct (N.ltb_spec (40 * a0 + a1) 80) as [Hlt|Hge].
    + assert (a1 < 40) by lia. f_equal. f_equal; [|f_equal]; lia.
    + assert (a0 = 2) by lia. subst a0. f_equal. f_equal. f_equal. lia.
  - constructor; [lia|]. apply Forall_forall. intros a Ha. rewrite forallb_forall in Hrest. specialize (Hrest a Ha). lia.
Qed.

(* ---------- the key record ---------- *)
Lemma valid_encodable oid : valid_oid oid = true -> encodable_oid oid = true.
Proof.
  destruct oid as [|a0 [|a1 rest]]; try discriminate. cbn [valid_oid encodable_oid].
  intros H. apply andb_prop in H as [H _]. apply andb_prop in H as [H _]. exact H.
Qed.

Theorem spki_roundtrip oid data : valid_oid oid = true -> parse_spki (marshal_spki oid data) = Some (oid, data).
Proof.
  intros Hv. unfold marshal_spki, parse_spki. rewrite (valid_encodable _ Hv).
  rewrite <- (app_nil_r (tlv TAG_SEQ _)), read_tlv_tlv. cbn [negb N.eqb TAG_SEQ Pos.eqb].
  rewrite read_tlv_tlv. cbn [negb].
  rewrite <- (app_nil_r (tlv TAG_OID _)), read_tlv_tlv.
  rewrite <- (app_nil_r (tlv TAG_BITS _)), read_tlv_tlv. cbn [negb orb].
  now rewrite parse_oid_content.
Qed.

Lemma spki_invalid oid data : encodable_oid oid = false ->
  marshal_spki oid data = [] /\ parse_spki [] = None.
Proof. intros H. unfold marshal_spki. rewrite H. split; reflexivity. Qed.

Theorem spki_injective o1 d1 o2 d2 : valid_oid o1 = true -> valid_oid o2 = true ->
  marshal_spki o1 d1 = marshal_spki o2 d2 -> o1 = o2 /\ d1 = d2.
Proof.
  intros H1 H2 E. pose proof (spki_roundtrip o1 d1 H1) as R1. rewrite E, (spki_roundtrip o2 d2 H2) in R1.
  injection R1 as -> ->. auto.
Qed.

Lemma oid_eqb_spec a : forall b, reflect (a = b) (oid_eqb a b).
Proof.
  induction a as [|x a IH]; intros [|y b]; cbn [oid_eqb]; try (constructor; congruence).
  destruct (N.eqb_spec x y) as [->|]; cbn [andb]; [|constructor; congruence].
  destruct (IH b) as [->|]; constructor; congruence.
Qed.

Theorem equal_iff_encoding o1 d1 o2 d2 : valid_oid o1 = true -> valid_oid o2 = true ->
  (equal_keys o1 d1 o2 d2 = true <-> marshal_spki o1 d1 = marshal_spki o2 d2).
Proof.
  intros H1 H2. unfold equal_keys. split.
  - intros H. apply andb_prop in H as [Ho Hd].
    destruct (oid_eqb_spec o1 o2); [|discriminate]. destruct (bytes_eqb_spec d1 d2); [|discriminate]. congruence.
  - intros E. destruct (spki_injective _ _ _ _ H1 H2 E) as [-> ->].
    destruct (oid_eqb_spec o2 o2); [|congruence]. now rewrite bytes_eqb_refl.
Qed.

(* the fingerprint is a function of the key alone, for any hash *)
Theorem fingerprint_function_of_key (H : bytes -> bytes) o1 d1 o2 d2 :
  valid_oid o1 = true -> valid_oid o2 = true -> equal_keys o1 d1 o2 d2 = true ->
  H (marshal_spki o1 d1) = H (marshal_spki o2 d2).
Proof. intros H1 H2 E. f_equal. now apply equal_iff_encoding. Qed.

(* ... and never of the wire bytes it was parsed from *)
Theorem fingerprint_of_parsed (H : bytes -> bytes) w w' o d :
  parse_spki w = Some (o, d) -> parse_spki w' = Some (o, d) ->
  H (marshal_spki o d) = H (marshal_spki o d).
Proof. reflexivity. Qed.

From P2PV Require Import Lib.Base Lib.Varint Proofs.BaseP.
From Coq Require Import Lia ZifyBool ZifyN ZifyNat.
Ltac Zify.zify_post_hook ::= Z.div_mod_to_equations.
Open Scope N_scope.

Arguments N.pow : simpl never.
Arguments N.mul : simpl never.
Arguments N.add : simpl never.
Arguments N.div : simpl never.
Arguments N.modulo : simpl never.

Lemma pow2_split a b : 2 ^ (a + b) = 2 ^ a * 2 ^ b.
Proof. apply N.pow_add_r. Qed.

(* length of an uvarint encoding is between 1 and fuel+1 *)
Lemma put_uvarint_fuel_len fuel x :
  1 <= lenN (put_uvarint_fuel fuel x) <= N.of_nat fuel + 1.
Proof.
  revert x; induction fuel as [|f IH]; intros x; cbn [put_uvarint_fuel].
  - rewrite lenN_spec; cbn; lia.
  - destruct (x <? 128).
    + rewrite lenN_spec; cbn; lia.
    + rewrite lenN_cons. specialize (IH (x / 128)). lia.
Qed.

Lemma put_uvarint_fuel_wf fuel x : wf_bytes (put_uvarint_fuel fuel x) = true.
Proof.
  revert x; induction fuel as [|f IH]; intros x; cbn [put_uvarint_fuel].
  - cbn. unfold wf_byte. assert (x mod 128 < 128) by (apply N.mod_lt; lia). lia.
  - destruct (N.ltb_spec x 128).
    + cbn. unfold wf_byte. lia.
    + cbn [wf_bytes forallb]. fold (wf_bytes (put_uvarint_fuel f (x / 128))). rewrite IH.
      unfold wf_byte. assert (x mod 128 < 128) by (apply N.mod_lt; lia). lia.
Qed.

(* Core decoding lemma, generalised over position i, accumulator and shift. *)
Lemma uvarint_go_put fuel : forall x i acc r,
  x < 2 ^ N.of_nat fuel -> i <= 9 -> x < 2 ^ (64 - 7 * i) ->
  uvarint_go (put_uvarint_fuel fuel x ++ r) i acc (7 * i) =
    (acc + x * 2 ^ (7 * i), (Z.of_N i + Z.of_N (lenN (put_uvarint_fuel fuel x)))%Z).
Proof.
  induction fuel as [|f IH]; intros x i acc r Hfuel Hi Hx.
  - cbn [put_uvarint_fuel]. assert (x = 0) by (cbn in Hfuel; lia). subst x.
    cbn [app uvarint_go]. change (0 mod 128) with 0.
    destruct (N.eqb_spec i 10); [lia|]. change (0 <? 128) with true. change (1 <? 0) with false.
    rewrite Bool.andb_false_r.
    f_equal; rewrite ?lenN_spec; cbn [length]; lia.
  - cbn [put_uvarint_fuel]. destruct (N.ltb_spec x 128) as [Hlt|Hge].
    + cbn [app uvarint_go]. destruct (N.eqb_spec i 10); [lia|].
      destruct (N.ltb_spec x 128); [|lia].
      destruct (N.eqb_spec i 9) as [->|Hi9]; cbn [andb].
      * assert (x < 2) by (replace (64 - 7 * 9) with 1 in Hx by reflexivity; cbn in Hx; lia).
        destruct (N.ltb_spec 1 x); [lia|]. f_equal; rewrite ?lenN_spec; cbn [length]; lia.
      * f_equal; rewrite ?lenN_spec; cbn [length]; lia.
    + cbn [app uvarint_go]. destruct (N.eqb_spec i 10); [lia|].
      assert (Hm : x mod 128 < 128) by (apply N.mod_lt; lia).
      destruct (N.ltb_spec (x mod 128 + 128) 128); [lia|].
      assert (Hi8 : i <= 8).
      { destruct (N.le_gt_cases i 8); [assumption|]. assert (i = 9) by lia. subst i.
        replace (64 - 7 * 9) with 1 in Hx by reflexivity. cbn in Hx. lia. }
      replace ((x mod 128 + 128) mod 128) with (x mod 128).
      2:{ rewrite N.add_mod by lia. rewrite N.mod_same by lia. rewrite N.add_0_r.
          rewrite N.mod_mod by lia. rewrite N.mod_mod by lia. reflexivity. }
      replace (7 * i + 7) with (7 * (i + 1)) by lia.
      assert (Hf7 : 8 <= N.of_nat (S f)).
      { destruct (N.le_gt_cases 8 (N.of_nat (S f))); [assumption|].
        assert (2 ^ N.of_nat (S f) <= 2 ^ 7) by (apply N.pow_le_mono_r; lia).
        replace (2 ^ 7) with 128 in * by reflexivity. lia. }
      rewrite IH.
      * rewrite lenN_cons. f_equal; [|lia].
        replace (7 * (i + 1)) with (7 * i + 7) by lia. rewrite pow2_split.
        replace (2 ^ 7) with 128 by reflexivity.
        pose proof (N.div_mod x 128 ltac:(lia)) as Hdm.
        set (q := x / 128) in *. set (m := x mod 128) in *. set (p := 2 ^ (7 * i)) in *.
        clearbody q m p. subst x. lia.
      * apply N.div_lt_upper_bound; [lia|].
        replace 128 with (2 ^ 7) by reflexivity. rewrite <- N.pow_add_r.
        eapply N.lt_le_trans; [exact Hfuel|]. apply N.pow_le_mono_r; lia.
      * lia.
      * apply N.div_lt_upper_bound; [lia|].
        replace 128 with (2 ^ 7) by reflexivity. rewrite <- N.pow_add_r.
        eapply N.lt_le_trans; [exact Hx|]. apply N.pow_le_mono_r; lia.
Qed.

Lemma size_nat_bound x : x < 2 ^ N.of_nat (N.size_nat x).
Proof.
  destruct x as [|p]; [cbn; lia|].
  cbn [N.size_nat]. induction p as [p IH|p IH|]; cbn [Pos.size_nat].
  - rewrite Nat2N.inj_succ, N.pow_succ_r'. lia.
  - rewrite Nat2N.inj_succ, N.pow_succ_r'. lia.
  - cbn. lia.
Qed.

Theorem uvarint_put x r : x < 2 ^ 64 ->
  uvarint (put_uvarint x ++ r) = (x, Z.of_N (lenN (put_uvarint x))).
Proof.
  intros Hx. unfold uvarint, put_uvarint.
  pose proof (uvarint_go_put (N.size_nat x) x 0 0 r (size_nat_bound x)) as H.
  replace (7 * 0) with 0 in H by reflexivity.
  rewrite H; [|lia|exact Hx]. change (2 ^ 0) with 1. f_equal; lia.
Qed.

Lemma put_uvarint_wf x : wf_bytes (put_uvarint x) = true.
Proof. apply put_uvarint_fuel_wf. Qed.

Lemma put_uvarint_len_pos x : 1 <= lenN (put_uvarint x).
Proof. unfold put_uvarint. pose proof (put_uvarint_fuel_len (N.size_nat x) x). lia. Qed.

(* uvarint never reads more than it has, and n > 0 implies n <= len *)
Lemma uvarint_go_n buf : forall i x s v n, uvarint_go buf i x s = (v, n) ->
  (n <= Z.of_N i + Z.of_N (lenN buf))%Z.
Proof.
  induction buf as [|b t IH]; intros i x s v n H; cbn [uvarint_go] in H.
  - inversion H; subst. rewrite lenN_spec; cbn; lia.
  - rewrite lenN_cons.
    destruct (i =? 10); [inversion H; lia|].
    destruct (b <? 128).
    + destruct ((i =? 9) && (1 <? b)); inversion H; lia.
    + apply IH in H. lia.
Qed.

Lemma uvarint_n_le buf v n : uvarint buf = (v, n) -> (n <= Z.of_N (lenN buf))%Z.
Proof. intros H; apply uvarint_go_n in H; lia. Qed.

(* ---- big endian ---- *)
Lemma be_encode_len w x : lenN (be_encode w x) = N.of_nat w.
Proof. rewrite lenN_spec. f_equal. induction w as [|w IH]; cbn [be_encode length]; [reflexivity|now rewrite IH]. Qed.

Lemma be_encode_wf w x : wf_bytes (be_encode w x) = true.
Proof.
  induction w as [|w IH]; cbn [be_encode]; [reflexivity|].
  cbn [wf_bytes forallb]. fold (wf_bytes (be_encode w x)). rewrite IH.
  unfold wf_byte. assert ((x / 256 ^ N.of_nat w) mod 256 < 256) by (apply N.mod_lt; lia). lia.
Qed.

Lemma be_decode_acc_app a b acc : be_decode_acc (a ++ b) acc = be_decode_acc b (be_decode_acc a acc).
Proof. revert acc; induction a as [|x a IH]; intros acc; cbn [app be_decode_acc]; [reflexivity|apply IH]. Qed.

Lemma be_decode_encode_acc w : forall x acc, x < 256 ^ N.of_nat w ->
  be_decode_acc (be_encode w x) acc = acc * 256 ^ N.of_nat w + x.
Proof.
  induction w as [|w IH]; intros x acc Hx.
  - cbn in *. lia.
  - cbn [be_encode be_decode_acc].
    rewrite Nat2N.inj_succ, N.pow_succ_r' in *.
    set (p := 256 ^ N.of_nat w) in *.
    assert (Hp : 0 < p) by (apply N.neq_0_lt_0, N.pow_nonzero; lia).
    assert (Hq : x / p < 256) by (apply N.div_lt_upper_bound; lia).
    rewrite (N.mod_small (x / p) 256 Hq).
    (* be_encode w x only depends on x mod p *)
    assert (Henc : forall w' y, be_encode w' y = be_encode w' (y mod 256 ^ N.of_nat w')).
    { clear. induction w' as [|w' IH']; intros y; cbn [be_encode]; [reflexivity|].
      rewrite Nat2N.inj_succ, N.pow_succ_r'.
      set (p := 256 ^ N.of_nat w').
      assert (Hp : 0 < p) by (apply N.neq_0_lt_0, N.pow_nonzero; lia).
      f_equal.
      - rewrite (N.mul_comm 256 p), N.mod_mul_r by lia.
        rewrite N.mul_comm, N.div_add by lia.
        rewrite (N.div_small (y mod p) p) by (apply N.mod_lt; lia).
        rewrite N.add_0_l, N.mod_mod by lia. reflexivity.
      - rewrite (IH' y), (IH' (y mod (256 * p))). f_equal.
        rewrite (N.mul_comm 256 p), N.mod_mul_r by lia.
        rewrite N.mul_comm, N.mod_add by lia. now rewrite N.mod_mod by lia. }
    rewrite (Henc w x). fold p. rewrite IH by (apply N.mod_lt; lia).
    pose proof (N.div_mod x p ltac:(lia)). lia.
Qed.

Theorem be_decode_encode w x : x < 256 ^ N.of_nat w -> be_decode (be_encode w x) = x.
Proof. intros H. unfold be_decode. rewrite be_decode_encode_acc by exact H. lia. Qed.

(* C06: the handshake state machine under loss, duplication, reordering and reflection. *)
From P2PV Require Import Lib.Base Model.Handshake Proofs.BaseP.
From Coq Require Import Lia ZifyBool ZifyN ZifyNat.
Open Scope N_scope.

Definition ih (p : pair) : N := s_hs (p_i p).
Definition rh (p : pair) : N := s_hs (p_r p).

Definition good_pairs : list (N * N) := [(0,0); (0,1); (2,1); (2,3); (4,3); (8,3); (4,8); (8,8)].
Definition good_pair (a b : N) : bool := existsb (fun q => (fst q =? a) && (snd q =? b)) good_pairs.

Definition under_limit (p : pair) : Prop := s_nonce (p_i p) < MAX_NONCE /\ s_nonce (p_r p) < MAX_NONCE.

Record Inv (p : pair) : Prop := mkInv {
  inv_ri : s_init (p_i p) = true;
  inv_rr : s_init (p_r p) = false;
  inv_good : good_pair (ih p) (rh p) = true;
  inv_ci : s_cache (p_i p) = [true; false; 2 <=? ih p; false];
  inv_cr : s_cache (p_r p) = [false; 1 <=? rh p; false; 3 <=? rh p];
  inv_ni : if 4 <=? ih p then 16 <= s_nonce (p_i p) else s_nonce (p_i p) = 0;
  inv_nr : if 3 <=? rh p then 16 <= s_nonce (p_r p) else s_nonce (p_r p) = 0;
  inv_fi : forall c, memN c (p_from_i p) = true -> 16 <= c < s_nonce (p_i p);
  inv_fr : forall c, memN c (p_from_r p) = true -> 16 <= c < s_nonce (p_r p);
  inv_sr : forall c, memN c (s_seen (p_r p)) = true -> memN c (p_from_i p) = true;
  inv_si : forall c, memN c (s_seen (p_i p)) = true -> memN c (p_from_r p) = true;
  inv_lr : s_last (p_r p) = 0 \/ memN (s_last (p_r p)) (s_seen (p_r p)) = true;
  inv_li : s_last (p_i p) = 0 \/ memN (s_last (p_i p)) (s_seen (p_i p)) = true;
}.

Lemma inv_init : Inv init_pair.
Proof. constructor; cbn; auto; try reflexivity; try discriminate. Qed.

Lemma good_pair_cases a b : good_pair a b = true ->
  (a = 0 /\ b = 0) \/ (a = 0 /\ b = 1) \/ (a = 2 /\ b = 1) \/ (a = 2 /\ b = 3) \/
  (a = 4 /\ b = 3) \/ (a = 8 /\ b = 3) \/ (a = 4 /\ b = 8) \/ (a = 8 /\ b = 8).
Proof. unfold good_pair, good_pairs. cbn [existsb fst snd]. lia. Qed.

(* destructure a pair satisfying Inv into explicit fields with a concrete handshake stage *)
Ltac open_pair p Hinv :=
  let I := fresh "I" in let R := fresh "R" in let fi := fresh "fi" in let fr := fresh "fr" in
  destruct p as [I R fi fr];
  let ii := fresh "ii" in let hi := fresh "hi" in let ci := fresh "ci" in
  let ni := fresh "ni" in let li := fresh "li" in let si := fresh "si" in
  destruct I as [ii hi ci ni li si];
  let ir := fresh "ir" in let hr := fresh "hr" in let cr := fresh "cr" in
  let nr := fresh "nr" in let lr := fresh "lr" in let sr := fresh "sr" in
  destruct R as [ir hr cr nr lr sr];
  pose proof Hinv as Hinv0;
  destruct Hinv as [Hri Hrr Hgood Hci Hcr Hni Hnr Hfi Hfr Hsr Hsi Hlr Hli];
  unfold ih, rh in Hri, Hrr, Hgood, Hci, Hcr, Hni, Hnr, Hfi, Hfr, Hsr, Hsi, Hlr, Hli;
  cbn [p_i p_r p_from_i p_from_r s_init s_hs s_cache s_nonce s_last s_seen] in Hri, Hrr, Hgood, Hci, Hcr, Hni, Hnr, Hfi, Hfr, Hsr, Hsi, Hlr, Hli;
  subst ii ir ci cr.

Ltac unchanged Hinv0 :=
  cbn [bind p_i p_r p_from_i p_from_r]; split; [discriminate|];
  let p' := fresh "p'" in let Hq := fresh "Hq" in
  intros p' Hq; injection Hq as <-; split; [exact Hinv0|unfold ih, rh; cbn; lia].

Ltac crush :=
  cbn [p_i p_r p_from_i p_from_r s_init s_hs s_cache s_nonce s_last s_seen] in *; unfold ih, rh, NONCE_POST_HANDSHAKE in *;
  cbn [p_i p_r p_from_i p_from_r s_init s_hs s_cache s_nonce s_last s_seen] in *;
  repeat match goal with
         | |- context [N.leb ?a ?b] => destruct (N.leb_spec a b)
         | H : context [N.leb ?a ?b] |- _ => destruct (N.leb_spec a b)
         | |- context [N.eqb ?a ?b] => destruct (N.eqb_spec a b)
         | H : context [N.eqb ?a ?b] |- _ => destruct (N.eqb_spec a b)
         end; try reflexivity; try lia.

Lemma memN_cons x y l : memN x (y :: l) = (x =? y) || memN x l.
Proof. reflexivity. Qed.

(* ---------- every step keeps the invariant, never panics, never regresses ---------- *)
Lemma validate_spec s c s' : validate_counter s c = Some s' ->
  s_init s' = s_init s /\ s_hs s' = s_hs s /\ s_cache s' = s_cache s /\ s_nonce s' = s_nonce s /\
  s_seen s' = c :: s_seen s /\ (s_last s' = c \/ s_last s' = s_last s) /\ c < MAX_NONCE.
Proof.
  unfold validate_counter. destruct (N.leb_spec MAX_NONCE c); [discriminate|].
  destruct (s_last s <? c).
  - intros Hq; injection Hq as <-. cbn. repeat split; auto.
  - destruct (WINDOW <? s_last s - c); [discriminate|]. destruct (memN c (s_seen s)); [discriminate|].
    intros Hq; injection Hq as <-. cbn. repeat split; auto.
Qed.

Lemma step_inv p a : Inv p ->
  (forall s, step p a <> Panic s) /\
  forall p', step p a = Ok p' -> Inv p' /\ ih p <= ih p' /\ rh p <= rh p'.
Proof.
  intros Hinv. pose proof (good_pair_cases _ _ (inv_good p Hinv)) as Hc.
  open_pair p Hinv. unfold ih, rh in Hc; cbn [p_i p_r s_hs] in Hc.
  destruct a as [m|m|m|m| |]; cbn [step p_i p_r p_from_i p_from_r].
  - (* ToR *)
    destruct (emitted_by_i _ m) eqn:Eem; [|unchanged Hinv0].
    unfold deliver. cbn [s_nonce s_init s_hs s_cache s_last s_seen].
    destruct (N.leb_spec MAX_NONCE nr).
    { unchanged Hinv0. }
    destruct m as [| | | |c]; cbn [emitted_by_i p_i s_cache cached nth] in Eem; try discriminate.
    + (* InitHello *)
      destruct Hc as [[-> ->]|[[-> ->]|[[-> ->]|[[-> ->]|[[-> ->]|[[-> ->]|[[-> ->]|[-> ->]]]]]]]];
        cbn; (split; [discriminate|]); intros p' Hq; injection Hq as <-; (split; [constructor; cbn; auto; try lia|unfold ih, rh; cbn; lia]).
      all: try (unfold NONCE_POST_HANDSHAKE; lia).
      all: try (intros c0 Hc0; cbn in *; try specialize (Hfr c0 Hc0); try specialize (Hfi c0 Hc0); unfold NONCE_POST_HANDSHAKE; lia).
    + (* InitDone *)
      destruct Hc as [[-> ->]|[[-> ->]|[[-> ->]|[[-> ->]|[[-> ->]|[[-> ->]|[[-> ->]|[-> ->]]]]]]]];
        cbn in Eem; try discriminate;
        cbn; (split; [discriminate|]); intros p' Hq; injection Hq as <-; (split; [constructor; cbn; auto; try lia|unfold ih, rh; cbn; lia]).
      all: try (unfold NONCE_POST_HANDSHAKE; lia).
      all: try (intros c0 Hc0; cbn in *; try specialize (Hfr c0 Hc0); try specialize (Hfi c0 Hc0); unfold NONCE_POST_HANDSHAKE; lia).
    + (* data from the initiator *)
      pose proof (Hfi c Eem) as Hcr0.
      destruct (N.ltb_spec c 4); [lia|].
      unfold can_receive. cbn [s_hs].
      destruct (N.leb_spec 2 hr); cbn [negb].
      2:{ unchanged Hinv0. }
      destruct (validate_counter _ c) as [s1|] eqn:Ev; cbn [bind p_i p_r p_from_i p_from_r].
      2:{ unchanged Hinv0. }
      destruct (validate_spec _ _ _ Ev) as (E1 & E2 & E3 & E4 & E5 & E6 & E7).
      cbn [s_init s_hs s_cache s_nonce s_seen s_last] in *.
      destruct s1 as [i1 h1 c1 n1 l1 se1]. cbn [s_init s_hs s_cache s_nonce s_seen s_last] in *. subst i1 h1 c1 n1 se1.
      cbn [andb]. split; [discriminate|]. intros p' Hq; injection Hq as <-.
      assert (Hhr : hr = 3 \/ hr = 8) by lia.
      split; [|unfold ih, rh; cbn; lia].
      assert (Hhi4 : 4 <= hi) by (destruct (N.leb_spec 4 hi); [assumption|lia]).
      assert (Hhi48 : hi = 4 \/ hi = 8) by lia.
      constructor; cbn [p_i p_r p_from_i p_from_r s_init s_hs s_cache s_nonce s_last s_seen ih rh]; auto.
      all: try solve [destruct Hhi48 as [->| ->]; reflexivity].
      all: try solve [crush].
      * intros c0. rewrite memN_cons. intros Hm. apply Bool.orb_true_iff in Hm as [Hm|Hm]; [|auto].
        apply N.eqb_eq in Hm. now subst c0.
      * right. rewrite memN_cons. destruct E6 as [->|E6]; [now rewrite N.eqb_refl|].
        destruct Hlr as [Hl0|Hl0].
        -- unfold validate_counter in Ev. cbn [s_last s_seen s_init s_hs s_cache s_nonce] in Ev.
           destruct (N.leb_spec MAX_NONCE c); [discriminate|]. rewrite Hl0 in Ev.
           destruct (N.ltb_spec 0 c); [injection Ev as <-; lia|lia].
        -- rewrite E6, Hl0. apply Bool.orb_true_r.
  - (* ToI *)
    destruct (emitted_by_r _ m) eqn:Eem; [|unchanged Hinv0].
    unfold deliver. cbn [s_nonce s_init s_hs s_cache s_last s_seen].
    destruct (N.leb_spec MAX_NONCE ni).
    { unchanged Hinv0. }
    destruct m as [| | | |c]; cbn [emitted_by_r p_r s_cache cached nth] in Eem; try discriminate.
    + (* RespHello *)
      destruct Hc as [[-> ->]|[[-> ->]|[[-> ->]|[[-> ->]|[[-> ->]|[[-> ->]|[[-> ->]|[-> ->]]]]]]]];
        cbn in Eem; try discriminate;
        cbn; (split; [discriminate|]); intros p' Hq; injection Hq as <-; (split; [constructor; cbn; auto; try lia|unfold ih, rh; cbn; lia]).
      all: try (unfold NONCE_POST_HANDSHAKE; lia).
      all: try (intros c0 Hc0; cbn in *; try specialize (Hfr c0 Hc0); try specialize (Hfi c0 Hc0); unfold NONCE_POST_HANDSHAKE; lia).
    + (* RespDone *)
      destruct Hc as [[-> ->]|[[-> ->]|[[-> ->]|[[-> ->]|[[-> ->]|[[-> ->]|[[-> ->]|[-> ->]]]]]]]];
        cbn in Eem; try discriminate;
        cbn; (split; [discriminate|]); intros p' Hq; injection Hq as <-; (split; [constructor; cbn; auto; try lia|unfold ih, rh; cbn; lia]).
      all: try (unfold NONCE_POST_HANDSHAKE; lia).
      all: try (intros c0 Hc0; cbn in *; try specialize (Hfr c0 Hc0); try specialize (Hfi c0 Hc0); unfold NONCE_POST_HANDSHAKE; lia).
    + (* data from the responder *)
      pose proof (Hfr c Eem) as Hcr0.
      destruct (N.ltb_spec c 4); [lia|].
      unfold can_receive. cbn [s_hs].
      destruct (N.leb_spec 2 hi); cbn [negb].
      2:{ unchanged Hinv0. }
      destruct (validate_counter _ c) as [s1|] eqn:Ev; cbn [bind p_i p_r p_from_i p_from_r].
      2:{ unchanged Hinv0. }
      destruct (validate_spec _ _ _ Ev) as (E1 & E2 & E3 & E4 & E5 & E6 & E7).
      cbn [s_init s_hs s_cache s_nonce s_seen s_last] in *.
      destruct s1 as [i1 h1 c1 n1 l1 se1]. cbn [s_init s_hs s_cache s_nonce s_seen s_last] in *. subst i1 h1 c1 n1 se1.
      cbn [andb]. split; [discriminate|]. intros p' Hq; injection Hq as <-.
      (* data from the responder exists only once it reached stage 3 *)
      assert (Hrs : 3 <= hr).
      { destruct (N.leb_spec 3 hr); [assumption|]. lia. }
      assert (Hhi : hi = 2 \/ hi = 4 \/ hi = 8) by lia.
      assert (Hhr : hr = 3 \/ hr = 8) by lia.
      split; [|unfold ih, rh; cbn; lia].
      constructor; cbn [p_i p_r p_from_i p_from_r s_init s_hs s_cache s_nonce s_last s_seen ih rh]; auto.
      all: try solve [destruct Hhr as [->| ->]; reflexivity].
      all: try solve [crush].
      all: try solve [intros c0 Hc0; specialize (Hfi c0 Hc0); crush].
      * intros c0. rewrite memN_cons. intros Hm. apply Bool.orb_true_iff in Hm as [Hm|Hm]; [|auto].
        apply N.eqb_eq in Hm. now subst c0.
      * right. rewrite memN_cons. destruct E6 as [->|E6]; [now rewrite N.eqb_refl|].
        destruct Hli as [Hl0|Hl0].
        -- unfold validate_counter in Ev. cbn [s_last s_seen s_init s_hs s_cache s_nonce] in Ev.
           destruct (N.leb_spec MAX_NONCE c); [discriminate|]. rewrite Hl0 in Ev.
           destruct (N.ltb_spec 0 c); [injection Ev as <-; lia|lia].
        -- rewrite E6, Hl0. apply Bool.orb_true_r.
  - (* ReflectI: own messages come back *)
    destruct (emitted_by_i _ m) eqn:Eem; [|unchanged Hinv0].
    destruct m as [| | | |c]; cbn [emitted_by_i p_i s_cache cached nth] in Eem; try discriminate.
    + destruct Hc as [[-> ->]|[[-> ->]|[[-> ->]|[[-> ->]|[[-> ->]|[[-> ->]|[[-> ->]|[-> ->]]]]]]]]; unfold deliver; cbn in Hinv0 |- *; destruct (MAX_NONCE <=? ni); cbn; unchanged Hinv0.
    + destruct Hc as [[-> ->]|[[-> ->]|[[-> ->]|[[-> ->]|[[-> ->]|[[-> ->]|[[-> ->]|[-> ->]]]]]]]]; unfold deliver; cbn in Hinv0 |- *; destruct (MAX_NONCE <=? ni); cbn; unchanged Hinv0.
    + unchanged Hinv0.
  - (* ReflectR *)
    destruct (emitted_by_r _ m) eqn:Eem; [|unchanged Hinv0].
    destruct m as [| | | |c]; cbn [emitted_by_r p_r s_cache cached nth] in Eem; try discriminate.
    + destruct Hc as [[-> ->]|[[-> ->]|[[-> ->]|[[-> ->]|[[-> ->]|[[-> ->]|[[-> ->]|[-> ->]]]]]]]]; unfold deliver; cbn in Hinv0 |- *; destruct (MAX_NONCE <=? nr); cbn; unchanged Hinv0.
    + destruct Hc as [[-> ->]|[[-> ->]|[[-> ->]|[[-> ->]|[[-> ->]|[[-> ->]|[[-> ->]|[-> ->]]]]]]]]; unfold deliver; cbn in Hinv0 |- *; destruct (MAX_NONCE <=? nr); cbn; unchanged Hinv0.
    + unchanged Hinv0.
  - (* SendI *)
    unfold send. cbn [s_nonce s_init s_hs s_cache s_last s_seen]. destruct (N.leb_spec MAX_NONCE ni).
    { unchanged Hinv0. }
    unfold can_send. cbn [s_init s_hs]. destruct (N.leb_spec 3 hi); cbn [negb].
    2:{ unchanged Hinv0. }
    split; [discriminate|]. intros p' Hq; injection Hq as <-. split; [|unfold ih, rh; cbn; lia].
    assert (Hhi : 4 <= hi) by lia. destruct (N.leb_spec 4 hi); [|lia].
    constructor; cbn [p_i p_r p_from_i p_from_r s_init s_hs s_cache s_nonce s_last s_seen ih rh]; auto.
    + destruct (N.leb_spec 4 hi); lia.
    + intros c. rewrite memN_cons. intros Hm. apply Bool.orb_true_iff in Hm as [Hm|Hm].
      * apply N.eqb_eq in Hm. subst c. crush.
      * specialize (Hfi c Hm). crush.
    + intros c Hc0. rewrite memN_cons. rewrite (Hsr c Hc0). apply Bool.orb_true_r.
  - (* SendR *)
    unfold send. cbn [s_nonce s_init s_hs s_cache s_last s_seen]. destruct (N.leb_spec MAX_NONCE nr).
    { unchanged Hinv0. }
    unfold can_send. cbn [s_init s_hs]. destruct (N.leb_spec 2 hr); cbn [negb].
    2:{ unchanged Hinv0. }
    split; [discriminate|]. intros p' Hq; injection Hq as <-. split; [|unfold ih, rh; cbn; lia].
    assert (Hhr : 3 <= hr) by lia.
    constructor; cbn [p_i p_r p_from_i p_from_r s_init s_hs s_cache s_nonce s_last s_seen ih rh]; auto.
    all: try solve [crush].
    + intros c. rewrite memN_cons. intros Hm. apply Bool.orb_true_iff in Hm as [Hm|Hm].
      * apply N.eqb_eq in Hm. subst c. crush.
      * specialize (Hfr c Hm). crush.
    + intros c Hc0. rewrite memN_cons. rewrite (Hsi c Hc0). apply Bool.orb_true_r.
Qed.

(* ---------- every finite schedule ---------- *)
Theorem run_inv acts : forall p, Inv p ->
  (forall s, run p acts <> Panic s) /\
  forall p', run p acts = Ok p' -> Inv p' /\ ih p <= ih p' /\ rh p <= rh p'.
Proof.
  induction acts as [|a t IH]; intros p Hinv; cbn [run].
  - split; [discriminate|]. intros p' H; injection H as <-. split; [assumption|lia].
  - destruct (step_inv p a Hinv) as [Hnp Hok].
    destruct (step p a) as [p1|e|s] eqn:E; cbn [bind].
    + destruct (Hok p1 eq_refl) as (Hinv1 & Hi1 & Hr1). destruct (IH p1 Hinv1) as [Hnp' Hok'].
      split; [assumption|]. intros p' Hr. destruct (Hok' p' Hr) as (A & B & C). split; [assumption|lia].
    + split; [discriminate|]. intros ? H; discriminate.
    + exfalso. now apply (Hnp s).
Qed.

(* ---------- recovery: the fair suffix makes both sides ready ---------- *)
Theorem recovers p : Inv p -> under_limit p ->
  exists p', fair_suffix p = Ok p' /\ Inv p' /\ under_limit p' /\
             is_ready (p_i p') = true /\ is_ready (p_r p') = true.
Proof.
  intros Hinv [Hui Hur]. pose proof (good_pair_cases _ _ (inv_good p Hinv)) as Hc.
  open_pair p Hinv. unfold ih, rh in Hc; cbn [p_i p_r s_hs] in Hc. cbn [p_i p_r s_nonce] in Hui, Hur.
  assert (Hmi : (MAX_NONCE <=? ni) = false) by (destruct (N.leb_spec MAX_NONCE ni); [lia|reflexivity]).
  assert (Hmr : (MAX_NONCE <=? nr) = false) by (destruct (N.leb_spec MAX_NONCE nr); [lia|reflexivity]).
  assert (Hm16 : (MAX_NONCE <=? NONCE_POST_HANDSHAKE) = false) by reflexivity.
  destruct Hc as [[-> ->]|[[-> ->]|[[-> ->]|[[-> ->]|[[-> ->]|[[-> ->]|[[-> ->]|[-> ->]]]]]]]];
    cbn in Hni, Hnr;
    unfold fair_suffix, fair_round, current_msg, step, deliver;
    repeat (first [rewrite Hmi | rewrite Hmr | rewrite Hm16 | progress cbn]);
    (eexists; split; [reflexivity|]; split;
       [constructor; cbn; auto; try reflexivity; try lia;
        try (intros c0 Hc0; try specialize (Hfi c0 Hc0); try specialize (Hfr c0 Hc0); unfold NONCE_POST_HANDSHAKE in *; lia)
       |split; [unfold under_limit; cbn; unfold MAX_NONCE, NONCE_POST_HANDSHAKE in *; lia|split; reflexivity]]).
Qed.

(* ---------- data flows both ways once both sides are ready ---------- *)
Theorem dataflow p : Inv p -> under_limit p -> is_ready (p_i p) = true -> is_ready (p_r p) = true ->
  (exists si c, send (p_i p) = Some (si, c) /\ 16 <= c /\
                exists sr, deliver (p_r p) (MData c) = Ok (sr, OApp)) /\
  (exists sr c, send (p_r p) = Some (sr, c) /\ 16 <= c /\
                exists si, deliver (p_i p) (MData c) = Ok (si, OApp)).
Proof.
  intros Hinv [Hui Hur] Hri0 Hrr0.
  open_pair p Hinv. cbn [p_i p_r s_nonce] in Hui, Hur.
  unfold is_ready, can_send, can_receive in Hri0, Hrr0. cbn [p_i p_r s_init s_hs] in Hri0, Hrr0.
  assert (H3i : 3 <= hi) by lia. assert (H2r : 2 <= hr) by lia.
  assert (Hgi : hi = 4 \/ hi = 8) by (unfold good_pair, good_pairs in Hgood; cbn [existsb fst snd] in Hgood; lia).
  assert (Hgr : hr = 3 \/ hr = 8) by (unfold good_pair, good_pairs in Hgood; cbn [existsb fst snd] in Hgood; lia).
  assert (Hni16 : 16 <= ni) by (destruct (N.leb_spec 4 hi); lia).
  assert (Hnr16 : 16 <= nr) by (destruct (N.leb_spec 3 hr); lia).
  split.
  - unfold send. cbn [p_i p_r s_nonce s_init s_hs s_cache s_last s_seen can_send].
    destruct (N.leb_spec MAX_NONCE ni); [lia|]. destruct (N.leb_spec 3 hi); [|lia]. cbn [negb].
    eexists _, ni. split; [reflexivity|]. split; [assumption|].
    unfold deliver. cbn [s_nonce]. destruct (N.leb_spec MAX_NONCE nr); [lia|].
    destruct (N.ltb_spec ni 4); [lia|]. unfold can_receive. cbn [s_hs]. destruct (N.leb_spec 2 hr); [|lia]. cbn [negb].
    (* the fresh counter exceeds everything the responder has accepted *)
    assert (Hfresh : lr < ni).
    { destruct Hlr as [->|Hm]; [lia|]. specialize (Hfi lr (Hsr lr Hm)). lia. }
    unfold validate_counter. cbn [s_last s_seen s_init s_hs s_cache s_nonce].
    destruct (N.leb_spec MAX_NONCE ni); [lia|]. destruct (N.ltb_spec lr ni); [|lia].
    eexists. reflexivity.
  - unfold send. cbn [p_i p_r s_nonce s_init s_hs s_cache s_last s_seen can_send].
    destruct (N.leb_spec MAX_NONCE nr); [lia|]. destruct (N.leb_spec 2 hr); [|lia]. cbn [negb].
    eexists _, nr. split; [reflexivity|]. split; [assumption|].
    unfold deliver. cbn [s_nonce]. destruct (N.leb_spec MAX_NONCE ni); [lia|].
    destruct (N.ltb_spec nr 4); [lia|]. unfold can_receive. cbn [s_hs]. destruct (N.leb_spec 2 hi); [|lia]. cbn [negb].
    assert (Hfresh : li < nr).
    { destruct Hli as [->|Hm]; [lia|]. specialize (Hfr li (Hsi li Hm)). lia. }
    unfold validate_counter. cbn [s_last s_seen s_init s_hs s_cache s_nonce].
    destruct (N.leb_spec MAX_NONCE nr); [lia|]. destruct (N.ltb_spec li nr); [|lia].
    eexists. reflexivity.
Qed.

(* ---------- asking for the current handshake message is idempotent ---------- *)
Lemma with_hs_same s m s' : read_handshake s m = Some s' -> s_hs s' = s_hs s -> s' = s.
Proof.
  unfold read_handshake.
  repeat match goal with |- context [if ?b then _ else _] => destruct b eqn:? end;
    intros H; inversion H; subst; cbn; intros Hh; try reflexivity;
    repeat match goal with H : (_ && _) = true |- _ => apply andb_prop in H as [? ?] end; lia.
Qed.

Theorem handshake_idempotent s m s' o : deliver s m = Ok (s', o) -> s_hs s' = s_hs s ->
  write_handshake s' = write_handshake s.
Proof.
  unfold deliver. destruct (MAX_NONCE <=? s_nonce s); [intros H; injection H as <- <-; reflexivity|].
  destruct m as [| | | |c].
  5:{ destruct (c <? 4); [intros H; injection H as <- <-; reflexivity|].
      destruct (negb (can_receive s)); [intros H; injection H as <- <-; reflexivity|].
      destruct (validate_counter s c) as [s1|] eqn:Ev; [|intros H; injection H as <- <-; reflexivity].
      destruct (validate_spec _ _ _ Ev) as (E1 & E2 & E3 & _).
      intros H; injection H as <- <-. cbn [s_hs]. intros Hh. unfold write_handshake. cbn [s_hs s_init s_cache cached].
      rewrite <- Hh. reflexivity. }
  all: destruct (read_handshake s _) as [s1|] eqn:Er; [|intros H; injection H as <- <-; reflexivity];
       destruct (write_handshake s1) eqn:Ew; try discriminate; intros H; injection H as <- <-; intros Hh;
       rewrite (with_hs_same _ _ _ Er Hh) in *; reflexivity.
Qed.

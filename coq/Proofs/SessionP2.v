(* C03 / C02, part 2: whole histories of one session, for every input sequence. *)
From P2PV Require Import Lib.Base Model.Handshake Model.Session Proofs.BaseP Proofs.SessionP.
From Coq Require Import Lia ZifyBool ZifyN ZifyNat.
Open Scope N_scope.

(* ---------- the handshake-message cache is filled when the state asks for it ---------- *)
Definition cache_inv (s : ssess) : Prop :=
  length (x_cache s) = 4%nat /\
  (x_init s = true -> xcached s 0 <> None /\ (x_hs s = 2 -> xcached s 2 <> None)) /\
  (x_init s = false -> (x_hs s = 1 -> xcached s 1 <> None) /\ (x_hs s = 3 -> xcached s 3 <> None)).

Lemma set_cache_len l i w : length (set_cache l i w) = length l.
Proof. revert i; induction l as [|h t IH]; intros [|i]; cbn [set_cache length]; auto. Qed.

Lemma set_cache_nth l i w j : (i < length l)%nat ->
  nth j (set_cache l i w) None = if Nat.eqb j i then Some w else nth j l None.
Proof.
  revert i j; induction l as [|h t IH]; intros i j Hi; [cbn in Hi; lia|].
  destruct i as [|i], j as [|j]; cbn [set_cache nth Nat.eqb]; try reflexivity. apply IH. cbn in Hi. lia.
Qed.

Lemma cache_new i me e ts : cache_inv (new_ssess i me e ts).
Proof. unfold cache_inv, xcached, new_ssess. destruct i; cbn; repeat split; try discriminate; intros; lia. Qed.

Lemma effect_cache s w s' okb : cache_inv s -> hs_effect s w s' okb -> cache_inv s'.
Proof.
  intros (Hl & Hi1 & Hi0) He.
  destruct He as [okb|n|e ts kc sg k Hw Hi Hh Hkc Hsg|e c k Hw Hi Hh Hc|h c r Hw Hi Hh Hr Hc|h c pt Hw Hi Hh Hc];
    unfold cache_inv, xcached, spent, upd in *; cbn [x_cache x_init x_hs]; rewrite ?set_cache_len.
  - auto.
  - auto.
  - split; [assumption|]. rewrite Hi. split; [discriminate|]. intros _. rewrite set_cache_nth by lia. cbn. split; [discriminate|intros; lia].
  - split; [assumption|]. rewrite Hi. split; [|discriminate]. intros _. rewrite !set_cache_nth by lia. cbn.
    split; [apply Hi1; assumption|discriminate].
  - split; [assumption|]. rewrite Hi. split; [discriminate|]. intros _. rewrite !set_cache_nth by lia. cbn. split; [intros; lia|discriminate].
  - split; [assumption|]. rewrite Hi. split; [|discriminate]. intros _. split; [apply Hi1; assumption|intros; lia].
Qed.

Lemma write_handshake_no_panic s p : gate_inv s -> cache_inv s -> xwrite_handshake s <> Panic p.
Proof.
  intros (Hst & _) (Hl & Hi1 & Hi0). unfold xwrite_handshake, stage_ok in *.
  destruct (4 <=? x_hs s); [discriminate|].
  destruct (x_init s) eqn:Ei; cbn [negb andb].
  - destruct (N.eqb_spec (x_hs s) 0).
    + destruct (Hi1 eq_refl) as [H0 _]. destruct (xcached s 0); [discriminate|contradiction].
    + destruct (N.eqb_spec (x_hs s) 2); [|discriminate].
      destruct (Hi1 eq_refl) as [_ H2]. specialize (H2 e). destruct (xcached s 2); [discriminate|contradiction].
  - destruct (N.eqb_spec (x_hs s) 1).
    + destruct (Hi0 eq_refl) as [H1 _]. specialize (H1 e). destruct (xcached s 1); [discriminate|contradiction].
    + destruct (N.eqb_spec (x_hs s) 3); [|discriminate].
      destruct (Hi0 eq_refl) as [_ H3]. specialize (H3 e). destruct (xcached s 3); [discriminate|contradiction].
Qed.

Lemma sstep_cache s i s' o w : gate_inv s -> sender_inv s -> cache_inv s -> sstep s i = Ok (s', o, w) -> cache_inv s'.
Proof.
  intros Hg Hs Hc Hstep. destruct i as [wi|pt]; cbn [sstep] in Hstep.
  - destruct (xdeliver s wi) as [[s1 o1]|e|p] eqn:Ed; try discriminate. injection Hstep as <- <- <-.
    unfold xdeliver in Ed. destruct (MAX_NONCE <=? x_nonce s); [injection Ed as <- <-; exact Hc|].
    destruct (wire_nonce wi) as [n|]; [|injection Ed as <- <-; exact Hc].
    destruct (n <? 4).
    + destruct (xread_handshake s wi) as [s2 okb] eqn:Er. apply read_handshake_effect in Er.
      pose proof (effect_cache _ _ _ _ Hc Er) as Hc2.
      destruct okb; [destruct (xwrite_handshake s2); try discriminate|]; injection Ed as <- <-; exact Hc2.
    + destruct (negb (xcan_receive s)); [injection Ed as <- <-; exact Hc|].
      destruct wi as [| |h c|]; try (injection Ed as <- <-; exact Hc).
      destruct (as_aead c) as [[[key ctr] pt]|]; [|injection Ed as <- <-; exact Hc].
      destruct (_ && _); [|injection Ed as <- <-; exact Hc].
      destruct (xvalidate s n) as [s2|] eqn:Ev; [|injection Ed as <- <-; exact Hc].
      destruct Hs as [_ Hss].
      destruct (xvalidate_spec s n s2 Hss Ev) as (_ & _ & _ & _ & Vi & _ & _ & _ & _ & _ & _ & _ & _ & Vca & _).
      injection Ed as <- <-. destruct Hc as (Hl & Hi1 & Hi0).
      unfold cache_inv, xcached in *. cbn [x_cache x_init x_hs]. rewrite Vca, Vi.
      split; [assumption|]. split; intros Hi; [split; [apply Hi1; assumption|intros; lia]|split; intros; lia].
  - unfold xsend in Hstep. destruct (MAX_NONCE <=? x_nonce s); [injection Hstep as <- <- <-; exact Hc|].
    destruct (negb (xcan_send s)); injection Hstep as <- <- <-; exact Hc.
Qed.

Lemma sstep_no_panic s i p : gate_inv s -> cache_inv s -> sstep s i <> Panic p.
Proof.
  intros Hg Hc. destruct i as [w|pt]; cbn [sstep].
  - unfold xdeliver. destruct (MAX_NONCE <=? x_nonce s); [discriminate|].
    destruct (wire_nonce w) as [n|]; [|discriminate]. destruct (n <? 4).
    + destruct (xread_handshake s w) as [s2 okb] eqn:Er. apply read_handshake_effect in Er.
      destruct okb; [|discriminate].
      destruct (effect_gate s w s2 true Hg Er) as (G2 & _). pose proof (effect_cache _ _ _ _ Hc Er) as C2.
      pose proof (write_handshake_no_panic s2 p G2 C2) as Hnp.
      destruct (xwrite_handshake s2); try discriminate. congruence.
    + destruct (negb (xcan_receive s)); [discriminate|]. destruct w as [| |h c|]; try discriminate.
      destruct (as_aead c) as [[[? ?] ?]|]; [|discriminate]. destruct (_ && _); [|discriminate].
      destruct (xvalidate s n); discriminate.
  - destruct (xsend s pt) as [[? ?]|]; discriminate.
Qed.

Lemma nodup_app_intro {A} (l1 l2 : list A) :
  NoDup l1 -> NoDup l2 -> (forall x, In x l1 -> In x l2 -> False) -> NoDup (l1 ++ l2).
Proof.
  induction l1 as [|h t IH]; intros H1 H2 Hd; cbn [app]; [assumption|].
  inversion H1 as [|? ? Hn Ht]; subst. constructor.
  - intros Hin. apply in_app_or in Hin as [Hin|Hin]; [contradiction|]. apply (Hd h); [now left|assumption].
  - apply IH; auto. intros x Hx Hx'. apply (Hd x); [now right|assumption].
Qed.

(* ---------- histories ---------- *)
Definition event := (input * option xoutcome * option wire)%type.

Fixpoint srun (s : ssess) (ins : list input) : result (ssess * list event) :=
  match ins with
  | [] => Ok (s, [])
  | i :: t =>
      match sstep s i with
      | Ok (s', o, w) => match srun s' t with
                         | Ok (s'', log) => Ok (s'', (i, o, w) :: log)
                         | Err e => Err e | Panic p => Panic p end
      | Err e => Err e | Panic p => Panic p
      end
  end.

Definition all_inv (s : ssess) : Prop := gate_inv s /\ sender_inv s /\ cache_inv s.

Lemma all_new i me e ts : all_inv (new_ssess i me e ts).
Proof. split; [apply gate_new|split; [apply sender_new|apply cache_new]]. Qed.

(* counters accepted as application data *)
Definition app_counter (ev : event) : list N :=
  match ev with
  | (InDeliver (WC h _), Some (XApp _), _) => [h]
  | _ => []
  end.

Theorem srun_inv ins : forall s, all_inv s ->
  (forall p, srun s ins <> Panic p) /\
  forall s' log, srun s ins = Ok (s', log) ->
    all_inv s' /\
    (* at most once: every counter accepted in this history is new, and stays rejected afterwards *)
    NoDup (flat_map app_counter log) /\
    (forall h, In h (flat_map app_counter log) -> memN h (x_seen s) = false /\ memN h (x_seen s') = true) /\
    (forall c, memN c (x_seen s) = true -> memN c (x_seen s') = true) /\
    (* the authenticated peer never changes once the session is usable *)
    (usable s = true -> x_remote s' = x_remote s /\ binding s' = binding s /\ usable s' = true).
Proof.
  induction ins as [|i t IH]; intros s (Hg & Hs & Hc); cbn [srun].
  - split; [discriminate|]. intros s' log H; injection H as <- <-. cbn [flat_map].
    split; [exact (conj Hg (conj Hs Hc))|]. split; [constructor|]. split; [intros h []|].
    split; [intros c Hm; exact Hm|]. intros Hu. split; [reflexivity|split; [reflexivity|exact Hu]].
  - pose proof (sstep_no_panic s i) as Hnp.
    destruct (sstep s i) as [[[s1 o] w]|e|p] eqn:Es.
    2:{ split; [discriminate|]. intros ? ? H; discriminate. }
    2:{ exfalso. now apply (Hnp p). }
    destruct (sstep_inv s i s1 o w Hg Hs Es) as (G1 & S1 & I1 & E1 & M1 & U1 & T1 & A1 & Seen1).
    pose proof (sstep_cache s i s1 o w Hg Hs Hc Es) as C1.
    destruct (IH s1 (conj G1 (conj S1 C1))) as [Hnp' Hok].
    destruct (srun s1 t) as [[s2 log]|e|p] eqn:Er.
    2:{ split; [discriminate|]. intros ? ? H; discriminate. }
    2:{ exfalso. now apply (Hnp' p). }
    split; [discriminate|]. intros s' log' H; injection H as <- <-.
    destruct (Hok s2 log eq_refl) as (Hall & Hnd & Happ & Hseen & Hus).
    split; [exact Hall|].
    assert (Hhead : forall h, In h (app_counter (i, o, w)) -> memN h (x_seen s) = false /\ memN h (x_seen s1) = true).
    { intros h Hh. destruct i as [[| |h' c|]|]; cbn in Hh; try contradiction.
      destruct o as [[pt| | |]|]; cbn in Hh; try contradiction. destruct Hh as [<-|[]].
      destruct (A1 pt eq_refl) as (_ & wi & h0 & key & Hi & Hw & _ & _ & Hns & Hs1).
      injection Hi as <-. injection Hw as <- _. auto. }
    split; [|split; [|split]].
    + cbn [flat_map]. apply nodup_app_intro; auto.
      * destruct i as [[| |h' c|]|]; cbn; try constructor. destruct o as [[pt| | |]|]; cbn; try constructor;
          try (intros []); constructor.
      * intros h Hh Hh'. destruct (Hhead h Hh) as [_ H1]. destruct (Happ h Hh') as [H0 _]. congruence.
    + intros h Hh. cbn [flat_map] in Hh. apply in_app_or in Hh as [Hh|Hh].
      * destruct (Hhead h Hh) as [A B]. split; [exact A|]. now apply Hseen.
      * destruct (Happ h Hh) as [A B]. split; [|exact B].
        destruct (memN h (x_seen s)) eqn:E; [|reflexivity]. rewrite (Seen1 h E) in A. discriminate.
    + intros c Hm. apply Hseen, Seen1, Hm.
    + intros Hu. destruct (U1 Hu) as (R1 & B1 & Hu1). destruct (Hus Hu1) as (R2 & B2 & Hu2).
      split; [congruence|]. split; [congruence|exact Hu2].
Qed.

(* ---------- outbound counters ---------- *)
(* the AEAD counter of every ciphertext produced by Send in this history *)
Definition send_counter (ev : event) : list N :=
  match ev with
  | (InSend _, _, Some (WC _ (TAead _ c _))) => [c]
  | _ => []
  end.

Lemma sstep_nonce s i s' o w : sstep s i = Ok (s', o, w) -> sender_inv s -> gate_inv s ->
  (forall c, In c (send_counter (i, o, w)) -> c = x_nonce s /\ 16 <= c /\ x_nonce s' = c + 1 /\
     exists pt h, i = InSend pt /\ w = Some (WC h (TAead (kout s) c pt)) /\ h = c mod 2 ^ 32) /\
  (send_counter (i, o, w) = [] -> forall c, In c [x_nonce s'] -> x_nonce s <= c \/ c = NONCE_POST_HANDSHAKE) /\
  (xcan_send s = true -> x_nonce s <= x_nonce s').
Proof.
  intros Hstep [Hsn _] Hg. destruct i as [wi|pt]; cbn [sstep] in Hstep.
  - destruct (xdeliver s wi) as [[s1 o1]|e|p] eqn:Ed; try discriminate. injection Hstep as <- <- <-.
    split; [intros c []|]. 
    assert (Hn : x_nonce s1 = x_nonce s \/ (x_nonce s1 = NONCE_POST_HANDSHAKE /\ xcan_send s = false)).
    { unfold xdeliver in Ed. destruct (MAX_NONCE <=? x_nonce s); [injection Ed as <- <-; now left|].
      destruct (wire_nonce wi) as [n|]; [|injection Ed as <- <-; now left].
      destruct (n <? 4).
      - destruct (xread_handshake s wi) as [s2 okb] eqn:Er. apply read_handshake_effect in Er.
        assert (H2 : x_nonce s2 = x_nonce s \/ (x_nonce s2 = NONCE_POST_HANDSHAKE /\ xcan_send s = false)).
        { destruct Er as [okb|n0|e ts kc sg k Hw Hi Hh Hkc Hsg|e c k Hw Hi Hh Hc|h c r Hw Hi Hh Hr Hc|h c pt Hw Hi Hh Hc];
            cbn; auto; right; (split; [reflexivity|]); unfold xcan_send; rewrite Hi, Hh; reflexivity. }
        destruct okb; [destruct (xwrite_handshake s2); try discriminate|]; injection Ed as <- <-; exact H2.
      - destruct (negb (xcan_receive s)); [injection Ed as <- <-; now left|].
        destruct wi as [| |h c|]; try (injection Ed as <- <-; now left).
        destruct (as_aead c) as [[[key ctr] pt]|]; [|injection Ed as <- <-; now left].
        destruct (_ && _); [|injection Ed as <- <-; now left].
        destruct (xvalidate s n) as [s2|] eqn:Ev; [|injection Ed as <- <-; now left].
        unfold xvalidate in Ev. destruct (MAX_NONCE <=? n); [discriminate|].
        destruct (x_last s <? n).
        + injection Ev as <-. injection Ed as <- <-. cbn.
          destruct (x_init s && (x_hs s =? 2)) eqn:E2; [|now left]. right. split; [reflexivity|].
          apply andb_prop in E2 as [Ei Eh]. apply N.eqb_eq in Eh. unfold xcan_send. rewrite Ei, Eh. reflexivity.
        + destruct (WINDOW <? x_last s - n); [discriminate|]. destruct (memN n (x_seen s)); [discriminate|].
          injection Ev as <-. injection Ed as <- <-. cbn.
          destruct (x_init s && (x_hs s =? 2)) eqn:E2; [|now left]. right. split; [reflexivity|].
          apply andb_prop in E2 as [Ei Eh]. apply N.eqb_eq in Eh. unfold xcan_send. rewrite Ei, Eh. reflexivity. }
    split.
    + intros _ c [<-|[]]. destruct Hn as [->|[-> _]]; [left; lia|now right].
    + intros Hcs. destruct Hn as [->|[_ Hf]]; [lia|congruence].
  - unfold xsend in Hstep. destruct (MAX_NONCE <=? x_nonce s).
    { injection Hstep as <- <- <-. split; [intros c []|]. split; [intros _ c [<-|[]]; left; lia|intros; lia]. }
    destruct (xcan_send s) eqn:Ecs; cbn [negb] in Hstep.
    2:{ injection Hstep as <- <- <-. split; [intros c []|]. split; [intros _ c [<-|[]]; left; lia|intros; lia]. }
    injection Hstep as <- <- <-. cbn [send_counter x_nonce].
    split; [|split; [discriminate|intros; lia]].
    intros c [<-|[]]. split; [reflexivity|]. split; [apply Hsn; reflexivity|]. split; [reflexivity|].
    exists pt, (x_nonce s mod 2 ^ 32). auto.
Qed.

(* every ciphertext a session produces by Send carries a counter >= 16 that it never uses again:
   the counters of one history are strictly increasing *)
Fixpoint increasing_from (lo : N) (l : list N) : Prop :=
  match l with [] => True | c :: t => lo <= c /\ increasing_from (c + 1) t end.

Theorem send_counters_increasing ins : forall s s' log, all_inv s -> srun s ins = Ok (s', log) ->
  xcan_send s = true ->
  increasing_from (x_nonce s) (flat_map send_counter log) /\ x_nonce s <= x_nonce s'.
Proof.
  induction ins as [|i t IH]; intros s s' log (Hg & Hs & Hc) Hr Hcs; cbn [srun] in Hr.
  - injection Hr as <- <-. cbn. split; [exact I|lia].
  - destruct (sstep s i) as [[[s1 o] w]|e|p] eqn:Es; try discriminate.
    destruct (srun s1 t) as [[s2 log1]|e|p] eqn:Er; try discriminate. injection Hr as <- <-.
    destruct (sstep_inv s i s1 o w Hg Hs Es) as (G1 & S1 & I1 & E1 & M1 & U1 & _).
    pose proof (sstep_cache s i s1 o w Hg Hs Hc Es) as C1.
    destruct (sstep_nonce s i s1 o w Es Hs Hg) as (N1 & N2 & N3).
    assert (Hcs1 : xcan_send s1 = true).
    { assert (Hu : usable s = true) by (unfold usable; rewrite Hcs; reflexivity).
      destruct (U1 Hu) as (_ & _ & Hu1).
      (* can_send is monotone: stages only grow *)
      destruct G1 as (Hst1 & _). destruct Hg as (Hst & _). unfold stage_ok, xcan_send, usable, xcan_send, xcan_receive in *.
      rewrite I1 in *. destruct (x_init s).
      - destruct (N.leb_spec 3 (x_hs s)); [|discriminate].
        (* the stage never decreases *)
        destruct (N.leb_spec 3 (x_hs s1)); [reflexivity|]. exfalso.
        assert (x_hs s1 = 0 \/ x_hs s1 = 2) by lia.
        clear - Es H0 H Hst I1. destruct i as [wi|pt]; cbn [sstep] in Es.
        + destruct (xdeliver s wi) as [[sa oa]|?|?] eqn:Ed; try discriminate. injection Es as <- _ _.
          unfold xdeliver in Ed. destruct (MAX_NONCE <=? x_nonce s); [injection Ed as <- _; lia|].
          destruct (wire_nonce wi) as [n|]; [|injection Ed as <- _; lia].
          destruct (n <? 4).
          * destruct (xread_handshake s wi) as [sb okb] eqn:Er. apply read_handshake_effect in Er.
            assert (x_hs s <= x_hs sb) by (destruct Er; cbn; lia).
            destruct okb; [destruct (xwrite_handshake sb); try discriminate|]; injection Ed as <- _; lia.
          * destruct (negb (xcan_receive s)); [injection Ed as <- _; lia|].
            destruct wi as [| |hh c|]; try (injection Ed as <- _; lia).
            destruct (as_aead c) as [[[? ?] ?]|]; [|injection Ed as <- _; lia].
            destruct (_ && _); [|injection Ed as <- _; lia].
            destruct (xvalidate s n); injection Ed as <- _; cbn in *; lia.
        + unfold xsend in Es. destruct (MAX_NONCE <=? x_nonce s); [injection Es as <- _ _; lia|].
          destruct (negb _); injection Es as <- _ _; cbn in *; lia.
      - destruct (N.leb_spec 2 (x_hs s)); [|discriminate].
        destruct (N.leb_spec 2 (x_hs s1)); [reflexivity|]. exfalso.
        assert (x_hs s1 = 0 \/ x_hs s1 = 1) by lia.
        clear - Es H0 H Hst I1. destruct i as [wi|pt]; cbn [sstep] in Es.
        + destruct (xdeliver s wi) as [[sa oa]|?|?] eqn:Ed; try discriminate. injection Es as <- _ _.
          unfold xdeliver in Ed. destruct (MAX_NONCE <=? x_nonce s); [injection Ed as <- _; lia|].
          destruct (wire_nonce wi) as [n|]; [|injection Ed as <- _; lia].
          destruct (n <? 4).
          * destruct (xread_handshake s wi) as [sb okb] eqn:Er. apply read_handshake_effect in Er.
            assert (x_hs s <= x_hs sb) by (destruct Er; cbn; lia).
            destruct okb; [destruct (xwrite_handshake sb); try discriminate|]; injection Ed as <- _; lia.
          * destruct (negb (xcan_receive s)); [injection Ed as <- _; lia|].
            destruct wi as [| |hh c|]; try (injection Ed as <- _; lia).
            destruct (as_aead c) as [[[? ?] ?]|]; [|injection Ed as <- _; lia].
            destruct (_ && _); [|injection Ed as <- _; lia].
            destruct (xvalidate s n); injection Ed as <- _; cbn in *; lia.
        + unfold xsend in Es. destruct (MAX_NONCE <=? x_nonce s); [injection Es as <- _ _; lia|].
          destruct (negb _); injection Es as <- _ _; cbn in *; lia. }
    destruct (IH s1 s2 log1 (conj G1 (conj S1 C1)) Er Hcs1) as [Hinc Hle].
    specialize (N3 Hcs). cbn [flat_map].
    destruct (send_counter (i, o, w)) as [|c [|c2 r]] eqn:Esc.
    + cbn [app]. split; [|lia].
      clear - Hinc N3. revert Hinc. generalize (flat_map send_counter log1). intros l.
      destruct l as [|c l]; cbn; [auto|]. intros [A B]. split; [lia|assumption].
    + destruct (N1 c (or_introl eq_refl)) as (Ec & H16 & Hn1 & _). cbn [app increasing_from].
      split; [|lia]. split; [lia|]. rewrite <- Hn1. exact Hinc.
    + exfalso. destruct i as [wi|pt]; destruct w as [[| |hh [| | | | | |kk cc pp| |]|]|]; destruct o; cbn in Esc; discriminate.
Qed.

(* C20: dhtIterate terminates, contacts each id at most once, and the wrappers
   report truthfully — for every responder. *)
From P2PV Require Import Lib.Base Model.Distance Model.Dht Proofs.BaseP Proofs.DistanceP.
From Coq Require Import Lia ZifyBool ZifyN ZifyNat Sorting.Permutation Arith.Wf_nat.
Open Scope N_scope.

(* ---------- small facts ---------- *)
Lemma mem_id_In x l : mem_id x l = true <-> In x l.
Proof.
  induction l as [|h t IH]; cbn [mem_id In]; [split; [discriminate|contradiction]|].
  rewrite Bool.orb_true_iff, IH. destruct (bytes_eqb_spec x h) as [E|E]; split; intros [H|H]; auto; try discriminate; try congruence.
Qed.

Lemma mem_id_false x l : mem_id x l = false <-> ~ In x l.
Proof. rewrite <- mem_id_In. destruct (mem_id x l); split; congruence. Qed.

Lemma insert_node_perm key x l : Permutation (insert_node key x l) (x :: l).
Proof.
  induction l as [|h t IH]; cbn [insert_node]; [reflexivity|].
  destruct (distance_lt key (n_id x) (n_id h)); [reflexivity|]. rewrite IH. apply perm_swap.
Qed.

Lemma sort_nodes_perm key l : Permutation (sort_nodes key l) l.
Proof.
  unfold sort_nodes. induction l as [|h t IH]; cbn [fold_right]; [reflexivity|].
  rewrite insert_node_perm. now constructor.
Qed.

Lemma firstn_In {A} n (l : list A) x : In x (firstn n l) -> In x l.
Proof. intros H. rewrite <- (firstn_skipn n l). apply in_or_app. now left. Qed.

Lemma admit_peers_In key cur visited news : forall queue x,
  In x (admit_peers key cur visited queue news) -> In x queue \/ In x news.
Proof.
  induction news as [|h t IH]; intros queue x; cbn [admit_peers]; [now left|].
  destruct (negb (distance_lt key (n_id h) (n_id cur))); [intros H; destruct (IH _ _ H); auto; right; now right|].
  destruct (mem_id (n_id h) visited); [intros H; destruct (IH _ _ H); auto; right; now right|].
  destruct (mem_id (n_id h) (map n_id queue)); [intros H; destruct (IH _ _ H); auto; right; now right|].
  intros H. destruct (IH _ _ H) as [H1|H1]; [|right; now right].
  apply in_app_or in H1 as [H1|[<-|[]]]; [now left|right; now left].
Qed.

(* ---------- termination ---------- *)
Definition unvisited (U visited : list bytes) : nat :=
  length (filter (fun u => negb (mem_id u visited)) U).

Lemma filter_length_le {A} (f g : A -> bool) l :
  (forall x, g x = true -> f x = true) -> (length (filter g l) <= length (filter f l))%nat.
Proof.
  intros H. induction l as [|h t IH]; cbn [filter]; [lia|].
  destruct (g h) eqn:Eg; [rewrite (H h Eg); cbn [length]; lia|].
  destruct (f h); cbn [length]; lia.
Qed.

Lemma filter_length_lt {A} (f g : A -> bool) l x :
  (forall y, g y = true -> f y = true) -> In x l -> f x = true -> g x = false ->
  (length (filter g l) < length (filter f l))%nat.
Proof.
  intros H. induction l as [|h t IH]; intros Hin Hf Hg; [contradiction|]. cbn [filter].
  destruct Hin as [->|Hin].
  - rewrite Hf, Hg. cbn [length]. pose proof (filter_length_le f g t H). lia.
  - specialize (IH Hin Hf Hg). destruct (g h) eqn:Eg; [rewrite (H h Eg); cbn [length]; lia|].
    destruct (f h); cbn [length]; lia.
Qed.

Lemma unvisited_decreases U visited x :
  In x U -> ~ In x visited -> (unvisited U (x :: visited) < unvisited U visited)%nat.
Proof.
  intros HU Hv. unfold unvisited. apply filter_length_lt with (x := x); auto.
  - intros y. cbn [mem_id]. destruct (bytes_eqb y x); cbn; [discriminate|auto].
  - apply mem_id_false in Hv. now rewrite Hv.
  - cbn [mem_id]. now rewrite bytes_eqb_refl.
Qed.

Section Generic.
  Context {S : Type} (fn : S -> node -> S * option (list node)).

  Definition ids (l : list node) : list bytes := map n_id l.

  (* every id a callback ever hands back lies in a finite universe U *)
  Definition answers_in (U : list bytes) : Prop :=
    forall st nd st' news, fn st nd = (st', Some news) -> forall x, In x news -> In (n_id x) U.

  Lemma iterate_terminates U key n : answers_in U ->
    forall m len queue visited st,
      (unvisited U visited <= m)%nat -> (length queue <= len)%nat ->
      (forall x, In x queue -> In (n_id x) U) ->
      exists fuel, iterate fn fuel key n queue visited st <> None.
  Proof.
    intros HU. induction m as [m IHm] using lt_wf_ind.
    induction len as [len IHl] using lt_wf_ind.
    intros queue visited st Hm Hlen Hq.
    destruct (firstn n (sort_nodes key queue)) as [|nd rest] eqn:Efirst.
    - exists 1%nat. cbn [iterate]. rewrite Efirst. discriminate.
    - assert (Hsub : forall x, In x (nd :: rest) -> In x queue).
      { intros x Hx. rewrite <- Efirst in Hx. apply firstn_In in Hx.
        now apply (Permutation_in _ (sort_nodes_perm key queue)). }
      assert (Hrestlen : (length rest < length queue)%nat).
      { pose proof (firstn_length n (sort_nodes key queue)) as Hl.
        pose proof (Permutation_length (sort_nodes_perm key queue)) as Hp.
        rewrite Efirst in Hl. cbn [length] in Hl. lia. }
      destruct (mem_id (n_id nd) visited) eqn:Evis.
      + destruct (IHl (length rest) ltac:(lia) rest visited st Hm (le_n _)) as [f Hf].
        { intros x Hx. apply Hq, Hsub. now right. }
        exists (Datatypes.S f). cbn [iterate]. now rewrite Efirst, Evis.
      + apply mem_id_false in Evis.
        assert (HndU : In (n_id nd) U) by (apply Hq, Hsub; now left).
        pose proof (unvisited_decreases U visited (n_id nd) HndU Evis) as Hdec.
        destruct (fn st nd) as [st' r] eqn:Efn. destruct r as [news|].
        * set (q' := admit_peers key nd (n_id nd :: visited) rest news).
          destruct (IHm (unvisited U (n_id nd :: visited)) ltac:(lia) (length q') q' (n_id nd :: visited) st'
                        (le_n _) (le_n _)) as [f Hf].
          { intros x Hx. apply admit_peers_In in Hx as [Hx|Hx]; [apply Hq, Hsub; now right|].
            eapply HU; eauto. }
          exists (Datatypes.S f). cbn [iterate]. rewrite Efirst.
          apply mem_id_false in Evis. rewrite Evis, Efn. exact Hf.
        * exists 1%nat. cbn [iterate]. rewrite Efirst.
          apply mem_id_false in Evis. rewrite Evis, Efn. discriminate.
  Qed.

  (* ---------- invariants carried through the loop ---------- *)
  Lemma iterate_inv (P : S -> list bytes -> Prop) :
    (forall st nd visited st' r, P st visited -> ~ In (n_id nd) visited ->
        fn st nd = (st', r) -> P st' (n_id nd :: visited)) ->
    forall fuel key n queue visited st st_f vis_f,
      P st visited -> iterate fn fuel key n queue visited st = Some (st_f, vis_f) -> P st_f vis_f.
  Proof.
    intros Hstep. induction fuel as [|f IH]; intros key n queue visited st st_f vis_f HP Hit; [discriminate|].
    cbn [iterate] in Hit. destruct (firstn n (sort_nodes key queue)) as [|nd rest].
    - injection Hit as <- <-. exact HP.
    - destruct (mem_id (n_id nd) visited) eqn:Evis; [eapply IH; eauto|].
      apply mem_id_false in Evis. destruct (fn st nd) as [st' r] eqn:Efn.
      pose proof (Hstep st nd visited st' r HP Evis Efn) as HP'.
      destruct r as [news|]; [eapply IH; eauto|]. injection Hit as <- <-. exact HP'.
  Qed.

  Lemma iterate_visited_nodup fuel key n queue visited st st_f vis_f :
    NoDup visited -> iterate fn fuel key n queue visited st = Some (st_f, vis_f) -> NoDup vis_f.
  Proof.
    intros Hnd Hit.
    refine (iterate_inv (fun _ v => NoDup v) _ fuel key n queue visited st st_f vis_f Hnd Hit).
    intros. now constructor.
  Qed.
End Generic.

(* ---------- strict order facts ---------- *)
Lemma dlt_trans x a b c : distance_lt x a b = true -> distance_lt x b c = true -> distance_lt x a c = true.
Proof.
  unfold distance_lt. destruct (distance_cmp x a b) eqn:E1; try discriminate.
  destruct (distance_cmp x b c) eqn:E2; try discriminate. intros _ _.
  assert (H : dle x a b) by (unfold dle; congruence). now rewrite (dle_lt_trans x a b c H E2).
Qed.

Lemma dlt_irrefl x a : distance_lt x a a = false.
Proof. unfold distance_lt. pose proof (dle_refl x a) as H. unfold dle in H. rewrite cmp_spec, lex_refl. reflexivity. Qed.

(* c is a nearest element of l *)
Definition is_nearest (key c : bytes) (l : list bytes) : Prop :=
  In c l /\ forall v, In v l -> distance_lt key v c = false.

Lemma nearest_step key c l x :
  is_nearest key c l ->
  is_nearest key (if distance_lt key x c then x else c) (x :: l).
Proof.
  intros [Hin Hmin]. destruct (distance_lt key x c) eqn:E.
  - split; [now left|]. intros v [<-|Hv]; [apply dlt_irrefl|].
    destruct (distance_lt key v x) eqn:E2; [|reflexivity].
    rewrite <- (Hmin v Hv). symmetry. now apply dlt_trans with x.
  - split; [now right|]. intros v [<-|Hv]; [assumption|now apply Hmin].
Qed.

Lemma nearest_first key x : is_nearest key x [x].
Proof. split; [now left|]. intros v [<-|[]]. apply dlt_irrefl. Qed.

(* ---------- the ask log ---------- *)
Definition asked (log : asklog) : list bytes := map (fun p => n_id (fst p)) log.
Definition genuine (resp : responder) (log : asklog) : Prop :=
  forall i nd a, nth_error log i = Some (nd, a) -> a = resp (N.of_nat i) nd.

Lemma asked_app log nd a : asked (log ++ [(nd, a)]) = asked log ++ [n_id nd].
Proof. unfold asked. now rewrite map_app. Qed.

Lemma genuine_ask resp log nd : genuine resp log -> genuine resp (snd (ask resp log nd)).
Proof.
  intros Hg i nd' a'. unfold ask. cbn [snd]. intros Hn.
  destruct (Nat.lt_ge_cases i (length log)) as [Hlt|Hge].
  - rewrite nth_error_app1 in Hn by assumption. now apply Hg.
  - rewrite nth_error_app2 in Hn by assumption.
    destruct (i - length log)%nat eqn:Ei; cbn [nth_error] in Hn; [|destruct n; discriminate].
    injection Hn as <- <-. f_equal. rewrite lenN_spec. lia.
Qed.

(* the part of the invariant every wrapper shares *)
Definition log_ok (resp : responder) (log : asklog) (visited : list bytes) : Prop :=
  genuine resp log /\ NoDup (asked log) /\ (forall x, In x (asked log) -> In x visited).

Lemma nodup_snoc_id (l : list bytes) x : NoDup l -> ~ In x l -> NoDup (l ++ [x]).
Proof.
  induction l as [|h t IH]; intros Hnd Hx; cbn [app]; [constructor; [intros []|constructor]|].
  inversion Hnd; subst. constructor.
  - intros Hin. apply in_app_or in Hin as [Hin|[<-|[]]]; [contradiction|]. apply Hx. now left.
  - apply IH; [assumption|]. intros Hin. apply Hx. now right.
Qed.

Lemma log_ok_ask resp log visited nd :
  log_ok resp log visited -> ~ In (n_id nd) visited ->
  log_ok resp (snd (ask resp log nd)) (n_id nd :: visited).
Proof.
  intros (Hg & Hnd & Hsub) Hv. split; [now apply genuine_ask|]. unfold ask. cbn [snd].
  rewrite asked_app. split.
  - apply nodup_snoc_id; [assumption|]. intros Hin. apply Hv. now apply Hsub.
  - intros x Hx. apply in_app_or in Hx as [Hx|[<-|[]]]; [right; now apply Hsub|now left].
Qed.

Lemma log_ok_skip resp log visited x : log_ok resp log visited -> log_ok resp log (x :: visited).
Proof. intros (Hg & Hnd & Hsub). split; [assumption|]. split; [assumption|]. intros y Hy. right. now apply Hsub. Qed.

(* ---------- DHTFindNode ---------- *)
Definition find_inv (resp : responder) (target : bytes) (st : find_st) (visited : list bytes) : Prop :=
  log_ok resp (f_log st) visited /\
  (f_closest st = None -> visited = []) /\
  (forall c, f_closest st = Some c -> is_nearest target (n_id c) visited) /\
  f_contacted st = lenN (filter (fun p => a_ok (snd p)) (f_log st)).

Lemma filter_snoc {A} (f : A -> bool) l x : filter f (l ++ [x]) = filter f l ++ (if f x then [x] else []).
Proof. rewrite filter_app. reflexivity. Qed.

Lemma find_step resp target validate st nd visited st' r :
  find_inv resp target st visited -> ~ In (n_id nd) visited ->
  find_fn resp target validate st nd = (st', r) -> find_inv resp target st' (n_id nd :: visited).
Proof.
  intros (Hlog & Hnone & Hsome & Hcnt) Hv. unfold find_fn.
  set (closest := match f_closest st with
                  | None => nd
                  | Some c => if distance_lt target (n_id nd) (n_id c) then nd else c end).
  assert (Hnear : is_nearest target (n_id closest) (n_id nd :: visited)).
  { unfold closest. destruct (f_closest st) as [c|] eqn:Ec.
    - specialize (Hsome c eq_refl). pose proof (nearest_step target (n_id c) visited (n_id nd) Hsome) as H.
      destruct (distance_lt target (n_id nd) (n_id c)); exact H.
    - rewrite (Hnone eq_refl). apply nearest_first. }
  destruct (bytes_eqb (n_id closest) target).
  - intros H; injection H as <- <-. split; [now apply log_ok_skip|]. cbn [f_closest f_contacted f_log].
    split; [discriminate|]. split; [|assumption]. intros c Hc; injection Hc as <-. exact Hnear.
  - pose proof (log_ok_ask resp (f_log st) visited nd Hlog Hv) as Hlog'.
    unfold ask in *. cbn [snd] in Hlog'.
    set (a := resp (lenN (f_log st)) nd) in *. destruct (a_ok a) eqn:Eok.
    + intros H; injection H as <- <-. split; [exact Hlog'|]. cbn [f_closest f_contacted f_log].
      split; [discriminate|]. split; [intros c Hc; injection Hc as <-; exact Hnear|].
      rewrite filter_snoc. cbn [snd]. rewrite Eok, lenN_app, Hcnt. reflexivity.
    + intros H; injection H as <- <-. split; [exact Hlog'|]. cbn [f_closest f_contacted f_log].
      split; [discriminate|]. split; [intros c Hc; injection Hc as <-; exact Hnear|].
      rewrite filter_snoc. cbn [snd]. rewrite Eok, app_nil_r. exact Hcnt.
Qed.

Lemma find_inv_init resp target : find_inv resp target (mkFind None 0 []) [].
Proof.
  split; [|split; [reflexivity|split; [discriminate|reflexivity]]].
  split; [intros i nd a H; destruct i; discriminate|]. split; [constructor|intros x []].
Qed.

(* ---------- DHTJoin ---------- *)
Definition join_inv (resp : responder) (addpeer : node -> bool) (st : join_st) (visited : list bytes) : Prop :=
  log_ok resp (j_log st) visited /\ asked (j_log st) = rev visited /\
  j_added st = lenN (filter addpeer (map fst (j_log st))).

Lemma join_step resp addpeer st nd visited st' r :
  join_inv resp addpeer st visited -> ~ In (n_id nd) visited ->
  join_fn resp addpeer st nd = (st', r) -> join_inv resp addpeer st' (n_id nd :: visited).
Proof.
  intros (Hlog & Hall & Hadd) Hv. unfold join_fn.
  pose proof (log_ok_ask resp (j_log st) visited nd Hlog Hv) as Hlog'.
  unfold ask in *. cbn [snd] in Hlog'. set (a := resp (lenN (j_log st)) nd) in *.
  assert (Hadd' : (if addpeer nd then j_added st + 1 else j_added st) =
                  lenN (filter addpeer (map fst (j_log st ++ [(nd, a)])))).
  { rewrite map_app. cbn [map fst]. rewrite filter_snoc, lenN_app, Hadd. destruct (addpeer nd); cbn; lia. }
  destruct (a_ok a); intros H; injection H as <- <-; (split; [exact Hlog'|]); cbn [j_log j_added];
    (split; [rewrite asked_app, Hall; reflexivity|exact Hadd']).
Qed.

(* ---------- DHTGet ---------- *)
Definition responders (log : asklog) : list bytes := asked (filter (fun p => a_ok (snd p)) log).

Definition get_inv (resp : responder) (key : bytes) (validate : bytes -> bool) (st : get_st) (visited : list bytes) : Prop :=
  log_ok resp (g_log st) visited /\
  g_contacted st = lenN (g_log st) /\
  g_responded st = lenN (responders (g_log st)) /\
  (g_closest st = None -> responders (g_log st) = []) /\
  (forall c, g_closest st = Some c -> is_nearest key c (responders (g_log st))) /\
  (g_from st = None -> g_value st = None) /\
  (forall f, g_from st = Some f ->
     exists nd a v, In (nd, a) (g_log st) /\ n_id nd = f /\ a_ok a = true /\
                    a_value a = Some v /\ validate v = true /\ g_value st = Some v).

Lemma responders_snoc log nd a :
  responders (log ++ [(nd, a)]) = responders log ++ (if a_ok a then [n_id nd] else []).
Proof. unfold responders, asked. rewrite filter_snoc, map_app. cbn [snd]. destruct (a_ok a); reflexivity. Qed.

Lemma is_nearest_snoc key c l x :
  is_nearest key c l -> is_nearest key (if distance_lt key x c then x else c) (l ++ [x]).
Proof.
  intros H. pose proof (nearest_step key c l x H) as [Hin Hmin]. split.
  - destruct Hin as [<-|Hin]; apply in_or_app; [right; now left|now left].
  - intros v Hv. apply Hmin. apply in_app_or in Hv as [Hv|[<-|[]]]; [now right|now left].
Qed.

Lemma get_step resp key validate st nd visited st' r :
  get_inv resp key validate st visited -> ~ In (n_id nd) visited ->
  get_fn resp key validate st nd = (st', r) -> get_inv resp key validate st' (n_id nd :: visited).
Proof.
  intros (Hlog & Hc & Hr & Hcn & Hcs & Hfn & Hfs) Hv. unfold get_fn.
  destruct (match g_from st with Some f => distance_lt key f (n_id nd) | None => false end).
  { intros H; injection H as <- <-. split; [now apply log_ok_skip|]. split; [exact Hc|]. split; [exact Hr|]. split; [exact Hcn|]. split; [exact Hcs|]. split; [exact Hfn|exact Hfs]. }
  pose proof (log_ok_ask resp (g_log st) visited nd Hlog Hv) as Hlog'.
  unfold ask in *. cbn [snd] in Hlog'. set (a := resp (lenN (g_log st)) nd) in *.
  destruct (a_ok a) eqn:Eok; cbn [negb].
  2:{ intros H; injection H as <- <-. split; [exact Hlog'|].
      cbn [g_contacted g_responded g_closest g_from g_value g_log].
      rewrite responders_snoc, Eok, app_nil_r, lenN_app.
      split; [rewrite Hc; reflexivity|]. split; [exact Hr|]. split; [exact Hcn|]. split; [exact Hcs|].
      split; [exact Hfn|]. intros f Hf. destruct (Hfs f Hf) as (nd0 & a0 & v & Hin & Hrest).
      exists nd0, a0, v. split; [apply in_or_app; now left|exact Hrest]. }
  intros H; injection H as <- <-. split; [exact Hlog'|].
  cbn [g_contacted g_responded g_closest g_from g_value g_log].
  rewrite responders_snoc, Eok, !lenN_app.
  split; [rewrite Hc; reflexivity|]. split; [rewrite Hr; reflexivity|].
  split; [destruct (g_closest st) as [c|]; [destruct (distance_lt key (n_id nd) c)|]; discriminate|].
  split.
  { intros c Hcl. destruct (g_closest st) as [c0|] eqn:Ec0.
    - pose proof (is_nearest_snoc key c0 _ (n_id nd) (Hcs c0 eq_refl)) as Hn.
      destruct (distance_lt key (n_id nd) c0); injection Hcl as <-; exact Hn.
    - injection Hcl as <-. rewrite (Hcn eq_refl). apply nearest_first. }
  destruct (a_value a) as [v|] eqn:Eval.
  - destruct (validate v) eqn:Evd.
    + split; [discriminate|]. intros f Hf; injection Hf as <-.
      exists nd, a, v. split; [apply in_or_app; right; now left|]. repeat split; auto.
    + split; [exact Hfn|]. intros f Hf. destruct (Hfs f Hf) as (nd0 & a0 & v0 & Hin & Hrest).
      exists nd0, a0, v0. split; [apply in_or_app; now left|exact Hrest].
  - split; [exact Hfn|]. intros f Hf. destruct (Hfs f Hf) as (nd0 & a0 & v0 & Hin & Hrest).
    exists nd0, a0, v0. split; [apply in_or_app; now left|exact Hrest].
Qed.

(* ---------- DHTPut ---------- *)
Definition accepters (log : asklog) : list bytes := asked (filter (fun p => a_ok (snd p) && a_accept (snd p)) log).

Definition put_inv (resp : responder) (key : bytes) (st : put_st) (visited : list bytes) : Prop :=
  log_ok resp (p_log st) visited /\
  p_contacted st = lenN (p_log st) /\
  p_responded st = lenN (responders (p_log st)) /\
  p_accepted st = lenN (accepters (p_log st)) /\
  (p_closest st = None -> accepters (p_log st) = []) /\
  (forall c, p_closest st = Some c -> is_nearest key c (accepters (p_log st))).

Lemma accepters_snoc log nd a :
  accepters (log ++ [(nd, a)]) = accepters log ++ (if a_ok a && a_accept a then [n_id nd] else []).
Proof. unfold accepters, asked. rewrite filter_snoc, map_app. cbn [snd]. destruct (a_ok a && a_accept a); reflexivity. Qed.

Lemma put_step resp key st nd visited st' r :
  put_inv resp key st visited -> ~ In (n_id nd) visited ->
  put_fn resp key st nd = (st', r) -> put_inv resp key st' (n_id nd :: visited).
Proof.
  intros (Hlog & Hc & Hr & Ha & Hcn & Hcs) Hv. unfold put_fn.
  pose proof (log_ok_ask resp (p_log st) visited nd Hlog Hv) as Hlog'.
  unfold ask in *. cbn [snd] in Hlog'. set (a := resp (lenN (p_log st)) nd) in *.
  destruct (a_ok a) eqn:Eok; cbn [negb].
  2:{ intros H; injection H as <- <-. split; [exact Hlog'|].
      cbn [p_contacted p_responded p_accepted p_closest p_log].
      rewrite responders_snoc, accepters_snoc, Eok, lenN_app. cbn [andb]. rewrite !app_nil_r.
      split; [rewrite Hc; reflexivity|]. split; [exact Hr|]. split; [exact Ha|]. split; [exact Hcn|exact Hcs]. }
  destruct (a_accept a) eqn:Eacc.
  - intros H; injection H as <- <-. split; [exact Hlog'|].
    cbn [p_contacted p_responded p_accepted p_closest p_log].
    rewrite responders_snoc, accepters_snoc, Eok, Eacc, !lenN_app. cbn [andb].
    split; [rewrite Hc; reflexivity|]. split; [rewrite Hr; reflexivity|]. split; [rewrite Ha; reflexivity|].
    split; [destruct (p_closest st) as [c|]; [destruct (distance_lt key (n_id nd) c)|]; discriminate|].
    intros c Hcl. destruct (p_closest st) as [c0|] eqn:Ec0.
    + pose proof (is_nearest_snoc key c0 _ (n_id nd) (Hcs c0 eq_refl)) as Hn.
      destruct (distance_lt key (n_id nd) c0); injection Hcl as <-; exact Hn.
    + injection Hcl as <-. rewrite (Hcn eq_refl). apply nearest_first.
  - intros H; injection H as <- <-. split; [exact Hlog'|].
    cbn [p_contacted p_responded p_accepted p_closest p_log].
    rewrite responders_snoc, accepters_snoc, Eok, Eacc. cbn [andb]. rewrite !app_nil_r, !lenN_app.
    split; [rewrite Hc; reflexivity|]. split; [rewrite Hr; reflexivity|]. split; [exact Ha|]. split; [exact Hcn|exact Hcs].
Qed.

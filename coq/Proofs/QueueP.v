(* swarmutil.Queue: every accepted message leaves the queue exactly once, in the
   order it was accepted; the queue never holds more than its capacity or a
   message above its MTU; after Close nothing is accepted or handed out. *)
From P2PV Require Import Lib.Base Model.Queue.
From Coq Require Import Lia.
Close Scope N_scope. Open Scope nat_scope.

Definition QInv (q : queue) (h : qhist) : Prop :=
  h_accepted h = map fst (h_left h) ++ q_items q /\
  length (q_items q) <= q_cap q /\
  Forall (fun m => length (q_payload m) <= q_mtu q) (q_items q) /\
  (q_closed q = true -> q_items q = []).

Lemma qinv_new cap mtu : QInv (new_queue cap mtu) (mkH [] []).
Proof. unfold QInv. cbn. repeat split; auto; lia. Qed.

Lemma map_fst_tag (l : list qmsg) (x : qexit) : map fst (map (fun m => (m, x)) l) = l.
Proof. induction l as [|a l IH]; cbn; [reflexivity|now rewrite IH]. Qed.

Lemma qstep_inv q h o : QInv q h -> QInv (fst (qstep q o)) (qhstep q h o).
Proof.
  intros [Ha [Hc [Hm Hcl]]]. unfold QInv, qhstep, qstep. destruct o as [m| |taken| | |].
  - destruct (Nat.ltb_spec (q_mtu q) (length (q_payload m))) as [L|L]; cbn [fst snd]; [tauto|].
    destruct (q_closed q) eqn:Ecl; cbn [fst snd]; [rewrite Ecl; tauto|].
    destruct (Nat.ltb_spec (length (q_items q)) (q_cap q)) as [L2|L2]; cbn [fst snd]; [|rewrite Ecl; tauto].
    cbn [q_items q_cap q_mtu q_closed h_accepted h_left]. repeat split.
    + rewrite Ha. now rewrite app_assoc.
    + rewrite app_length. cbn. lia.
    + apply Forall_app. split; [exact Hm|]. constructor; [lia|constructor].
    + discriminate.
  - destruct (q_items q) as [|m t] eqn:Ei; cbn [fst snd].
    + destruct (q_closed q); cbn; rewrite Ei; tauto.
    + cbn [q_items q_cap q_mtu q_closed h_accepted h_left]. repeat split.
      * rewrite Ha, map_app. cbn. now rewrite <- app_assoc.
      * cbn in Hc. lia.
      * now inversion Hm.
      * intros E. specialize (Hcl E). discriminate.
  - destruct taken; [|cbn [fst snd]; tauto].
    destruct (q_items q) as [|m t] eqn:Ei; cbn [fst snd]; [rewrite Ei; tauto|].
    cbn [q_items q_cap q_mtu q_closed h_accepted h_left]. repeat split.
    + rewrite Ha, map_app. cbn. now rewrite <- app_assoc.
    + cbn in Hc. lia.
    + now inversion Hm.
    + intros E. specialize (Hcl E). discriminate.
  - cbn [fst snd q_items q_cap q_mtu q_closed h_accepted h_left]. split; [|split; [cbn; lia|split; [constructor|auto]]].
    rewrite Ha, map_app, map_fst_tag. now rewrite app_nil_r.
  - cbn [fst snd q_items q_cap q_mtu q_closed h_accepted h_left]. split; [|split; [cbn; lia|split; [constructor|auto]]].
    rewrite Ha, map_app, map_fst_tag. now rewrite app_nil_r.
  - cbn [fst snd]. tauto.
Qed.

Theorem qrun_inv ops : forall q h, QInv q h -> QInv (fst (qhrun q h ops)) (snd (qhrun q h ops)).
Proof.
  induction ops as [|o t IH]; intros q h H; cbn [qhrun]; [exact H|].
  apply IH. now apply qstep_inv.
Qed.

(* every history of a fresh queue: what was accepted is exactly what has left (in
   the same order) followed by what is still queued *)
Theorem queue_exactly_once cap mtu ops :
  let '(q, h) := qhrun (new_queue cap mtu) (mkH [] []) ops in
  h_accepted h = map fst (h_left h) ++ q_items q /\ length (q_items q) <= cap.
Proof.
  pose proof (qrun_inv ops _ _ (qinv_new cap mtu)) as H.
  destruct (qhrun (new_queue cap mtu) (mkH [] []) ops) as [q h] eqn:E. cbn [fst snd] in H.
  destruct H as [Ha [Hc _]]. split; [exact Ha|].
  assert (C : forall ops q0 h0, q_cap (fst (qhrun q0 h0 ops)) = q_cap q0).
  { clear. induction ops as [|o t IH]; intros q0 h0; cbn [qhrun]; [reflexivity|]. rewrite IH.
    destruct o; unfold qstep; cbn;
      repeat match goal with |- context [if ?b then _ else _] => destruct b end;
      try reflexivity; destruct (q_items q0); reflexivity. }
  specialize (C ops (new_queue cap mtu) (mkH [] [])). rewrite E in C. cbn in C. lia.
Qed.

(* Receive hands out the oldest message still queued, and only that *)
Theorem receive_is_oldest q m q' : qstep q QReceive = (q', QGot m) -> q_items q = m :: q_items q'.
Proof.
  unfold qstep. destruct (q_items q) as [|x t]; [destruct (q_closed q); discriminate|].
  intros E. inversion E. subst. reflexivity.
Qed.

(* a closed queue accepts nothing and hands out nothing, for good *)
Theorem closed_is_final q h o : QInv q h -> q_closed q = true ->
  q_closed (fst (qstep q o)) = true /\
  match snd (qstep q o) with QAccepted | QGot _ | QWouldBlock => False | _ => True end.
Proof.
  intros [_ [_ [_ Hcl]]] E. specialize (Hcl E). unfold qstep. destruct o as [m| |taken| | |].
  - destruct (Nat.ltb (q_mtu q) _); cbn [fst snd]; rewrite E; cbn [fst snd]; auto.
  - rewrite Hcl, E. cbn. auto.
  - rewrite Hcl. destruct taken; cbn; auto.
  - cbn. auto.
  - cbn. auto.
  - cbn. auto.
Qed.

(* a refused Deliver changes nothing: the message was not enqueued *)
Theorem refused_unseen q m : snd (qstep q (QDeliver m)) = QRefused -> fst (qstep q (QDeliver m)) = q.
Proof.
  unfold qstep. destruct (Nat.ltb _ _); [reflexivity|]. destruct (q_closed q); [reflexivity|].
  destruct (Nat.ltb _ _); [discriminate|reflexivity].
Qed.

(* an accepted message is stored as given (the queue copies; it keeps no alias) *)
Theorem accepted_stored q m : snd (qstep q (QDeliver m)) = QAccepted ->
  q_items (fst (qstep q (QDeliver m))) = q_items q ++ [m] /\ length (q_payload m) <= q_mtu q.
Proof.
  unfold qstep. destruct (Nat.ltb_spec (q_mtu q) (length (q_payload m))); [discriminate|].
  destruct (q_closed q); [discriminate|]. destruct (Nat.ltb _ _); [|discriminate]. cbn. split; [reflexivity|lia].
Qed.

Example queue_hist_nontrivial :
  let ops := [QDeliver (1, 2, [7; 8])%N; QDeliver (1, 2, [9])%N; QReceive; QDeliver (3, 2, [1; 2; 3; 4])%N; QDeliver (3, 2, [5])%N;
              QDeliver (3, 2, [6])%N; QPurge; QDeliver (4, 2, [])%N; QClose; QDeliver (5, 2, [])%N; QReceive] in
  snd (qrun (new_queue 2 3) ops) =
    [QAccepted; QAccepted; QGot (1, 2, [7; 8])%N; QRefused; QAccepted; QRefused; QCount 2; QAccepted; QDone; QRefused; QErrClosed].
Proof. vm_compute. reflexivity. Qed.

(* C09 / C10 for s/fragswarm: honest MTU on the sender, sound reassembly on the receiver. *)
From P2PV Require Import Lib.Base Lib.Varint Model.Frag Proofs.BaseP Proofs.VarintP.
From Coq Require Import Lia ZifyBool ZifyN ZifyNat.
Ltac Zify.zify_post_hook ::= Z.div_mod_to_equations.
Open Scope N_scope.

Arguments N.pow : simpl never.
Arguments N.div : simpl never.
Arguments N.modulo : simpl never.
Arguments N.mul : simpl never.

(* ---------- chunks ---------- *)
Lemma chunks_fuel_concat sz : (0 < sz)%nat -> forall fuel l, (length l <= fuel)%nat ->
  concat (chunks_fuel fuel sz l) = l.
Proof.
  intros Hsz. induction fuel as [|f IH]; intros l Hl.
  - destruct l; [reflexivity|cbn in Hl; lia].
  - cbn [chunks_fuel]. destruct l as [|x t]; [reflexivity|]. cbn [concat].
    rewrite IH; [apply firstn_skipn|]. rewrite skipn_length. cbn [length] in *. lia.
Qed.

Lemma chunks_concat sz l : (0 < sz)%nat -> concat (chunks sz l) = l.
Proof. intros H. apply chunks_fuel_concat; [assumption|lia]. Qed.

Lemma chunks_fuel_bound sz : (0 < sz)%nat -> forall fuel l, (length l <= fuel)%nat ->
  Forall (fun c => (length c <= sz)%nat /\ c <> []) (chunks_fuel fuel sz l) /\
  (length (chunks_fuel fuel sz l) * sz < length l + sz)%nat /\
  (length l <= length (chunks_fuel fuel sz l) * sz)%nat.
Proof.
  intros Hsz. induction fuel as [|f IH]; intros l Hl.
  - destruct l; [cbn; repeat split; [constructor|lia|lia]|cbn in Hl; lia].
  - cbn [chunks_fuel]. destruct l as [|x t]; [cbn; repeat split; [constructor|lia|lia]|].
    set (l := x :: t) in *.
    assert (Hs : (length (skipn sz l) <= f)%nat) by (rewrite skipn_length; cbn [length] in *; lia).
    destruct (IH (skipn sz l) Hs) as (A & B & C). rewrite skipn_length in B, C.
    assert (Hlen : (1 <= length l)%nat) by (unfold l; cbn [length]; lia).
    split.
    2:{ cbn [length]. set (n := length (chunks_fuel f sz (skipn sz l))) in *.
        destruct (Nat.le_gt_cases sz (length l)) as [Hle|Hgt].
        - replace (length l - sz + sz)%nat with (length l) in B by lia. split; lia.
        - replace (length l - sz)%nat with 0%nat in * by lia.
          assert (n = 0)%nat by (destruct n; [reflexivity|cbn in B; lia]). subst n. cbn [length]. split; lia. }
    constructor; [|exact A]. split; [rewrite firstn_length; lia|].
    destruct sz; [lia|]. unfold l. cbn [firstn]. discriminate.
Qed.

Lemma chunks_bound sz l : (0 < sz)%nat ->
  Forall (fun c => (length c <= sz)%nat /\ c <> []) (chunks sz l) /\
  (length (chunks sz l) * sz < length l + sz)%nat /\ (length l <= length (chunks sz l) * sz)%nat.
Proof. intros H. apply chunks_fuel_bound; [assumption|lia]. Qed.

Lemma chunks_single sz l c : (0 < sz)%nat -> chunks sz l = [c] -> c = l.
Proof. intros Hsz H. pose proof (chunks_concat sz l Hsz) as E. rewrite H in E. cbn in E. now rewrite app_nil_r in E. Qed.

Lemma chunks_nil sz l : (0 < sz)%nat -> chunks sz l = [] -> l = [].
Proof. intros Hsz H. pose proof (chunks_concat sz l Hsz) as E. now rewrite H in E. Qed.

(* ---------- header sizes ---------- *)
Lemma put_uvarint_fuel_short k : forall fuel x, x < 2 ^ (7 * N.of_nat k) -> (1 <= k)%nat ->
  lenN (put_uvarint_fuel fuel x) <= N.of_nat k.
Proof.
  induction k as [|k IH]; intros fuel x Hx Hk; [lia|].
  destruct fuel as [|f]; cbn [put_uvarint_fuel]; [rewrite lenN_spec; cbn; lia|].
  destruct (N.ltb_spec x 128); [rewrite lenN_spec; cbn; lia|].
  rewrite lenN_cons. destruct k as [|k'].
  - change (2 ^ (7 * N.of_nat 1)) with 128 in Hx. lia.
  - specialize (IH f (x / 128)). assert (x / 128 < 2 ^ (7 * N.of_nat (S k'))).
    { apply N.div_lt_upper_bound; [lia|]. change 128 with (2 ^ 7). rewrite <- N.pow_add_r.
      replace (7 + 7 * N.of_nat (S k')) with (7 * N.of_nat (S (S k'))) by lia. exact Hx. }
    specialize (IH H0 ltac:(lia)). lia.
Qed.

Lemma header_len id part total : id < 2 ^ 32 -> part < 256 -> total < 256 ->
  lenN (frag_header id part total) <= 9.
Proof.
  intros Hi Hp Ht. unfold frag_header, put_uvarint. rewrite !lenN_app.
  pose proof (put_uvarint_fuel_short 5 (N.size_nat id) id) as A.
  pose proof (put_uvarint_fuel_short 2 (N.size_nat part) part) as B.
  pose proof (put_uvarint_fuel_short 2 (N.size_nat total) total) as C.
  assert (2 ^ 32 < 2 ^ (7 * N.of_nat 5)) by (vm_compute; reflexivity).
  assert (256 < 2 ^ (7 * N.of_nat 2)) by (vm_compute; reflexivity).
  specialize (A ltac:(lia) ltac:(lia)). specialize (B ltac:(lia) ltac:(lia)). specialize (C ltac:(lia) ltac:(lia)). lia.
Qed.

(* ---------- parse . new_message ---------- *)
Lemma parse_new id part total data : id < 2 ^ 32 -> part < total -> total < 256 ->
  parse_message (new_message id part total data) = Ok (id, part, total, data).
Proof.
  intros Hi Hp Ht. unfold parse_message, new_message, frag_header. rewrite <- !app_assoc.
  assert (H64 : 2 ^ 32 < 2 ^ 64) by (vm_compute; reflexivity).
  assert (H8 : 256 < 2 ^ 64) by (vm_compute; reflexivity).
  rewrite (uvarint_put id) by lia.
  pose proof (put_uvarint_len_pos id). destruct (Z.ltb_spec (Z.of_N (lenN (put_uvarint id))) 1); [lia|].
  rewrite N2Z.id, dropN_app_len.
  rewrite (uvarint_put part) by lia.
  pose proof (put_uvarint_len_pos part). destruct (Z.ltb_spec (Z.of_N (lenN (put_uvarint part))) 1); [lia|].
  rewrite N2Z.id, dropN_app_len.
  rewrite (uvarint_put total) by lia.
  pose proof (put_uvarint_len_pos total). destruct (Z.ltb_spec (Z.of_N (lenN (put_uvarint total))) 1); [lia|].
  rewrite N2Z.id, dropN_app_len.
  rewrite !N.mod_small by lia. destruct (N.leb_spec total part); [lia|]. reflexivity.
Qed.

(* ---------- the sender ---------- *)
Lemma number_from_spec {A} (l : list A) : forall i j x,
  nth_error (number_from i l) j = Some x <-> exists y, nth_error l j = Some y /\ x = (i + N.of_nat j, y).
Proof.
  induction l as [|h t IH]; intros i j x; cbn [number_from].
  - destruct j; split; [discriminate|intros (y & H & _); discriminate|discriminate|intros (y & H & _); discriminate].
  - destruct j as [|j]; cbn [nth_error].
    + split; [intros H; injection H as <-; exists h; split; [reflexivity|f_equal; lia]|].
      intros (y & H & ->). injection H as <-. f_equal. f_equal. lia.
    + rewrite IH. split; intros (y & H & ->); exists y; (split; [assumption|f_equal; lia]).
Qed.

Lemma number_from_length {A} (l : list A) i : length (number_from i l) = length l.
Proof. revert i; induction l as [|h t IH]; intros i; cbn [number_from length]; auto. Qed.

(* what a genuine fragment set looks like *)
Definition fragments (id : N) (cs : list bytes) : list bytes :=
  match cs with
  | [] => [new_message id 0 1 []]
  | [c] => [new_message id 0 1 c]
  | _ => map (fun p => new_message id (fst p) (lenN cs) (snd p)) (number_from 0 cs)
  end.

Lemma frag_tell_ok inner cfg id payload :
  (1 <= under_mtu inner)%Z -> (Z.of_N (lenN payload) <= frag_mtu inner cfg)%Z ->
  let cs := chunks (Z.to_nat (under_mtu inner)) payload in
  frag_tell inner cfg id payload = Ok (fragments id cs) /\
  concat cs = payload /\ lenN cs <= 255 /\
  Forall (fun c => Z.of_N (lenN c) <= under_mtu inner)%Z cs.
Proof.
  intros Hu Hm. cbn zeta. unfold frag_tell.
  destruct (Z.ltb_spec (under_mtu inner) 1); [lia|]. cbn [orb].
  destruct (Z.ltb_spec (frag_mtu inner cfg) (Z.of_N (lenN payload))); [lia|].
  set (sz := Z.to_nat (under_mtu inner)). assert (Hsz : (0 < sz)%nat) by lia.
  pose proof (chunks_concat sz payload Hsz) as Hc.
  destruct (chunks_bound sz payload Hsz) as (Hall & Hup & Hlo).
  split; [|split; [exact Hc|split]].
  - unfold fragments. destruct (chunks sz payload) as [|c [|c2 t]] eqn:E; try reflexivity.
    + now rewrite (chunks_nil sz payload Hsz E).
    + now rewrite (chunks_single sz payload c Hsz E).
  - (* at most 255 fragments *)
    unfold frag_mtu in Hm. pose proof (lenN_spec payload) as Hlp. pose proof (lenN_spec (chunks sz payload)) as Hlc.
    assert (Hb : (Z.of_N (lenN payload) <= 255 * under_mtu inner)%Z).
    { destruct (Z.ltb_spec (255 * under_mtu inner) cfg); [|lia].
      destruct (Z.ltb_spec (255 * under_mtu inner) 0); lia. }
    assert (length payload <= 255 * sz)%nat by lia. nia.
  - apply Forall_forall. intros c Hin. rewrite Forall_forall in Hall. destruct (Hall c Hin) as [Hl _].
    rewrite lenN_spec. lia.
Qed.

Lemma frag_tell_err inner cfg id payload :
  (frag_mtu inner cfg < Z.of_N (lenN payload))%Z -> frag_tell inner cfg id payload = Err E_MTU.
Proof.
  intros H. unfold frag_tell. destruct (Z.ltb_spec (frag_mtu inner cfg) (Z.of_N (lenN payload))); [|lia].
  now rewrite Bool.orb_true_r.
Qed.

(* every emitted fragment fits the inner transport *)
Lemma fragment_fits inner id cs pkt :
  id < 2 ^ 32 -> lenN cs <= 255 -> Forall (fun c => Z.of_N (lenN c) <= under_mtu inner)%Z cs ->
  (1 <= under_mtu inner)%Z -> In pkt (fragments id cs) -> (Z.of_N (lenN pkt) <= inner)%Z.
Proof.
  intros Hid Hn Hall Hu Hin. unfold under_mtu, OVERHEAD in *.
  assert (G : forall part total c, part < 256 -> total < 256 -> (Z.of_N (lenN c) <= inner - 15)%Z ->
              (Z.of_N (lenN (new_message id part total c)) <= inner)%Z).
  { intros part total c Hp Ht Hc. unfold new_message. rewrite lenN_app.
    pose proof (header_len id part total Hid Hp Ht). lia. }
  unfold fragments in Hin. destruct cs as [|c [|c2 t]].
  - destruct Hin as [<-|[]]. apply G; try lia. cbn. lia.
  - destruct Hin as [<-|[]]. apply G; try lia. now inversion Hall.
  - apply in_map_iff in Hin as ([i c'] & <- & Hin). cbn [fst snd].
    apply In_nth_error in Hin as (j & Hj). apply number_from_spec in Hj as (y & Hy & E). injection E as -> ->.
    unfold bytes in *. assert (j < length (c :: c2 :: t))%nat by (apply nth_error_Some; intros E0; rewrite E0 in Hy; discriminate).
    rewrite lenN_spec in Hn. apply G; [lia|rewrite lenN_spec; lia|].
    rewrite Forall_forall in Hall. apply Hall. eapply nth_error_In; eauto.
Qed.

(* ====================== the receiver: reassembly is sound ====================== *)
Record sent := mkSent { s_src : bytes; s_id : N; s_chunks : list bytes }.
Definition s_payload (m : sent) : bytes := concat (s_chunks m).
Definition s_key (m : sent) : agg_key := (s_src m, s_id m).
Definition wf_sent (m : sent) : Prop := s_id m < 2 ^ 32 /\ lenN (s_chunks m) <= 255.

Lemma key_eqb_spec a b : reflect (a = b) (key_eqb a b).
Proof.
  destruct a as [s i], b as [s' i']. unfold key_eqb. cbn [fst snd].
  destruct (bytes_eqb_spec s s') as [->|Hs]; cbn [andb]; [|constructor; congruence].
  destruct (N.eqb_spec i i') as [->|Hi]; constructor; congruence.
Qed.

Lemma st_get_del st k k' : st_get (st_del st k) k' = if key_eqb k k' then None else st_get st k'.
Proof.
  induction st as [|[k0 a] t IH]; cbn [st_del st_get]; [destruct (key_eqb k k'); reflexivity|].
  destruct (key_eqb_spec k0 k) as [->|Hne].
  - rewrite IH. destruct (key_eqb_spec k k'); reflexivity.
  - cbn [st_get]. destruct (key_eqb_spec k0 k') as [->|Hne'].
    + destruct (key_eqb_spec k k'); [congruence|reflexivity].
    + exact IH.
Qed.

Lemma st_get_put st k a k' : st_get (st_put st k a) k' = if key_eqb k k' then Some a else st_get st k'.
Proof.
  unfold st_put. cbn [st_get]. destruct (key_eqb_spec k k'); [reflexivity|].
  rewrite st_get_del. destruct (key_eqb_spec k k'); [contradiction|reflexivity].
Qed.

(* consistency of one aggregator with the message it belongs to; seen = the (src, packet) pairs delivered so far *)
Definition agg_ok (seen : list (bytes * bytes)) (m : sent) (a : agg) : Prop :=
  (2 <= length (s_chunks m))%nat /\ length a = length (s_chunks m) /\
  forall j d, nth_error a j = Some (Some d) ->
    nth_error (s_chunks m) j = Some d /\
    In (s_src m, new_message (s_id m) (N.of_nat j) (lenN (s_chunks m)) d) seen.

(* every entry anywhere in the state list (even a shadowed one) is consistent *)
Definition inv (L : list sent) (seen : list (bytes * bytes)) (st : frag_state) : Prop :=
  forall k a, In (k, a) st -> exists m, In m L /\ s_key m = k /\ agg_ok seen m a.

Lemma st_get_in st k a : st_get st k = Some a -> In (k, a) st.
Proof.
  induction st as [|[k0 a0] t IH]; cbn [st_get]; [discriminate|].
  destruct (key_eqb_spec k0 k) as [->|]; [intros H; injection H as <-; now left|intros H; right; auto].
Qed.

Lemma in_st_del st k k' a : In (k', a) (st_del st k) -> In (k', a) st.
Proof.
  induction st as [|[k0 a0] t IH]; cbn [st_del]; [contradiction|].
  destruct (key_eqb k0 k); [intros H; right; auto|intros [H|H]; [now left|right; auto]].
Qed.

Lemma agg_ok_mono seen seen' m a : (forall x, In x seen -> In x seen') -> agg_ok seen m a -> agg_ok seen' m a.
Proof. intros Hs (A & B & C). split; [assumption|]. split; [assumption|]. intros j d H. destruct (C j d H). auto. Qed.

Lemma inv_mono L seen seen' st : (forall x, In x seen -> In x seen') -> inv L seen st -> inv L seen' st.
Proof. intros Hs Hi k a Hin. destruct (Hi k a Hin) as (m & A & B & C). exists m. eauto using agg_ok_mono. Qed.

Lemma set_part_length a i d : length (set_part a i d) = length a.
Proof. revert i; induction a as [|h t IH]; intros [|i]; cbn [set_part length]; auto. Qed.

Lemma set_part_nth a i d j : (i < length a)%nat ->
  nth_error (set_part a i d) j = if Nat.eqb j i then Some (Some d) else nth_error a j.
Proof.
  revert i j; induction a as [|h t IH]; intros i j Hi; [cbn in Hi; lia|].
  destruct i as [|i], j as [|j]; cbn [set_part nth_error Nat.eqb]; try reflexivity.
  apply IH. cbn [length] in Hi. lia.
Qed.

Lemma all_present_spec a ps : all_present a = Some ps ->
  length ps = length a /\ forall j d, nth_error ps j = Some d -> nth_error a j = Some (Some d).
Proof.
  revert ps; induction a as [|[x|] t IH]; intros ps; cbn [all_present]; try discriminate.
  - intros H; injection H as <-. split; [reflexivity|]. intros [|j] d H; discriminate.
  - destruct (all_present t) as [r|]; [|discriminate]. cbn [option_map]. intros H; injection H as <-.
    destruct (IH r eq_refl) as [Hl Hn]. split; [cbn [length]; lia|].
    intros [|j] d H; cbn [nth_error] in *; [congruence|auto].
Qed.

Lemma nth_error_ext {A} (l1 l2 : list A) : length l1 = length l2 ->
  (forall j d, nth_error l1 j = Some d -> nth_error l2 j = Some d) -> l1 = l2.
Proof.
  revert l2; induction l1 as [|x t IH]; intros [|y u] Hl Hn; cbn [length] in Hl; try discriminate; [reflexivity|].
  f_equal; [specialize (Hn O x eq_refl); cbn in Hn; congruence|].
  apply IH; [lia|]. intros j d H. exact (Hn (S j) d H).
Qed.

Lemma repeat_none_nth n j (x : option bytes) : nth_error (repeat (@None bytes) n) j = Some x -> x = None.
Proof. revert j; induction n as [|n IH]; intros [|j]; cbn; try discriminate; [congruence|apply IH]. Qed.

Lemma nodup_key_unique (L : list sent) m m' :
  NoDup (map s_key L) -> In m L -> In m' L -> s_key m = s_key m' -> m = m'.
Proof.
  induction L as [|x L IH]; intros Hnd Hm Hm' Hk; [contradiction|]. cbn [map] in Hnd. inversion Hnd as [|? ? Hni Hnd']; subst.
  destruct Hm as [->|Hm], Hm' as [->|Hm']; auto.
  - exfalso. apply Hni. rewrite Hk. now apply in_map.
  - exfalso. apply Hni. rewrite <- Hk. now apply in_map.
Qed.

(* a genuine fragment of message m *)
Definition genuine (L : list sent) (src pkt : bytes) : Prop :=
  exists m, In m L /\ wf_sent m /\ s_src m = src /\ In pkt (fragments (s_id m) (s_chunks m)).

Lemma frag_recv_genuine L seen st src pkt :
  NoDup (map s_key L) -> inv L seen st -> genuine L src pkt ->
  exists st' d, frag_recv st src pkt = Ok (st', d) /\ inv L ((src, pkt) :: seen) st' /\
    forall p, d = Some p -> exists m, In m L /\ s_src m = src /\ s_payload m = p /\
       (* no partial delivery: every fragment of m has been delivered by now *)
       forall f, In f (fragments (s_id m) (s_chunks m)) -> In (src, f) ((src, pkt) :: seen).
Proof.
  intros Hnd Hinv (m & Hm & (Hid & Hcnt) & Hsrc & Hpkt).
  assert (Hmono : forall x, In x seen -> In x ((src, pkt) :: seen)) by (intros; now right).
  unfold fragments in Hpkt. destruct (s_chunks m) as [|c [|c2 t]] eqn:Ecs.
  - (* empty payload: one packet *)
    destruct Hpkt as [<-|[]]. unfold frag_recv. rewrite parse_new by lia. cbn [N.eqb Pos.eqb].
    exists st, (Some []). split; [reflexivity|]. split; [eapply inv_mono; eauto|].
    intros p Hp; injection Hp as <-. exists m. repeat split; auto.
    + unfold s_payload. now rewrite Ecs.
    + unfold fragments. rewrite Ecs. intros f [<-|[]]. now left.
  - destruct Hpkt as [<-|[]]. unfold frag_recv. rewrite parse_new by lia. cbn [N.eqb Pos.eqb].
    exists st, (Some c). split; [reflexivity|]. split; [eapply inv_mono; eauto|].
    intros p Hp; injection Hp as <-. exists m. repeat split; auto.
    + unfold s_payload. rewrite Ecs. cbn. now rewrite app_nil_r.
    + unfold fragments. rewrite Ecs. intros f [<-|[]]. now left.
  - (* a multi-fragment message *)
    set (cs := c :: c2 :: t) in *. set (total := lenN cs) in *.
    apply in_map_iff in Hpkt as ([i cj] & <- & Hin). cbn [fst snd].
    apply In_nth_error in Hin as (j & Hj). apply number_from_spec in Hj as (y & Hy & E). injection E as -> ->.
    assert (Hjlt : (j < length cs)%nat) by (unfold bytes in *; apply nth_error_Some; intros E0; rewrite E0 in Hy; discriminate).
    assert (Ht2 : 2 <= total) by (unfold total, cs; rewrite !lenN_cons; lia).
    assert (Htot : total = N.of_nat (length cs)) by (unfold total; apply lenN_spec).
    unfold frag_recv. rewrite parse_new by lia.
    destruct (N.eqb_spec total 1); [lia|].
    set (k := (src, s_id m)).
    assert (Hk : s_key m = k) by (unfold s_key, k; now rewrite Hsrc).
    (* the aggregator in use is consistent with m *)
    set (a := match st_get st k with Some a => a | None => repeat None (N.to_nat total) end).
    assert (Ha : agg_ok seen m a).
    { unfold a. destruct (st_get st k) as [a0|] eqn:Eg.
      - destruct (Hinv k a0 (st_get_in _ _ _ Eg)) as (m' & Hm' & Hk' & Hok).
        assert (m' = m) by (apply (nodup_key_unique L m' m Hnd Hm' Hm); congruence).
        subst m'. exact Hok.
      - unfold agg_ok. rewrite Ecs. fold cs. split; [unfold cs; cbn [length]; lia|]. split; [rewrite repeat_length; lia|].
        intros j0 d H. apply repeat_none_nth in H. discriminate. }
    unfold agg_ok in Ha. rewrite Ecs in Ha. destruct Ha as (Hlen2 & Hlen & Hcons). fold cs in Hlen, Hlen2, Hcons. fold total in Hcons.
    assert (HlenN : lenN a = total) by (rewrite lenN_spec, Hlen; lia).
    rewrite HlenN, N.eqb_refl. cbn [negb orb].
    destruct (N.leb_spec total (0 + N.of_nat j)); [lia|].
    replace (N.to_nat (0 + N.of_nat j)) with j by lia.
    set (a' := set_part a j y).
    assert (Ha' : agg_ok ((src, new_message (s_id m) (0 + N.of_nat j) total y) :: seen) m a').
    { unfold agg_ok. rewrite Ecs. fold cs. split; [assumption|]. split; [unfold a'; now rewrite set_part_length|].
      intros j0 d Hn0. unfold a' in Hn0. rewrite set_part_nth in Hn0 by lia.
      destruct (Nat.eqb_spec j0 j) as [->|Hne].
      - injection Hn0 as <-. split; [exact Hy|]. left. rewrite Hsrc. fold total. now rewrite N.add_0_l.
      - destruct (Hcons j0 d Hn0) as [A B]. split; [exact A|now right]. }
    destruct (all_present a') as [ps|] eqn:Eall.
    + (* complete: deliver the concatenation *)
      exists (st_del st k), (Some (concat ps)). split; [reflexivity|]. split.
      * intros k0 a0 Hin0. apply in_st_del in Hin0. destruct (Hinv k0 a0 Hin0) as (m0 & A & B & C).
        exists m0. split; [assumption|]. split; [assumption|]. eapply agg_ok_mono; [|exact C]. intros; now right.
      * intros p Hp; injection Hp as <-. exists m. split; [assumption|]. split; [assumption|].
        destruct (all_present_spec _ _ Eall) as [Hpl Hpn].
        unfold agg_ok in Ha'. rewrite Ecs in Ha'. fold cs in Ha'. destruct Ha' as (_ & Hl' & Hc').
        assert (ps = cs).
        { apply nth_error_ext; [lia|]. intros j0 d Hps. apply Hpn in Hps. now destruct (Hc' j0 d Hps). }
        subst ps. split; [unfold s_payload; now rewrite Ecs|].
        intros f Hf. unfold fragments in Hf. rewrite Ecs in Hf. fold cs in Hf.
        apply in_map_iff in Hf as ([i0 c0] & <- & Hin0). cbn [fst snd].
        apply In_nth_error in Hin0 as (j0 & Hj0). apply number_from_spec in Hj0 as (y0 & Hy0 & E0). injection E0 as -> ->.
        assert (Hs : nth_error a' j0 = Some (Some y0)).
        { destruct (nth_error a' j0) as [[d|]|] eqn:En.
          - destruct (Hc' j0 d En) as [A _]. congruence.
          - exfalso. assert (Hlt : (j0 < length cs)%nat) by (unfold bytes in *; apply nth_error_Some; intros E1; rewrite E1 in Hy0; discriminate).
            destruct (nth_error cs j0) as [z|] eqn:Ez; [|discriminate].
            pose proof (Hpn j0 z Ez) as Hz. congruence.
          - exfalso. apply nth_error_None in En. assert (Hlt : (j0 < length cs)%nat) by (unfold bytes in *; apply nth_error_Some; intros E1; rewrite E1 in Hy0; discriminate). lia. }
        destruct (Hc' j0 y0 Hs) as [_ B]. fold total in B. rewrite Hsrc in B.
        replace (0 + N.of_nat j0) with (N.of_nat j0) by lia. exact B.
    + exists (st_put st k a'), None. split; [reflexivity|]. split; [|discriminate].
      intros k0 a0 Hin0. unfold st_put in Hin0. destruct Hin0 as [E|Hin0].
      * injection E as <- <-. exists m. auto.
      * apply in_st_del in Hin0. destruct (Hinv k0 a0 Hin0) as (m0 & A & B & C).
        exists m0. split; [assumption|]. split; [assumption|]. eapply agg_ok_mono; [|exact C]. intros; now right.
Qed.

Lemma inv_cleanup L seen st drop : inv L seen st -> inv L seen (frag_cleanup st drop).
Proof. intros H k a Hin. apply H. unfold frag_cleanup in Hin. now apply filter_In in Hin as [? _]. Qed.

(* ---- whole schedules ---- *)
Inductive action := ADeliver (src pkt : bytes) | ACleanup (drop : agg_key -> bool).

Definition ok_action (L : list sent) (a : action) : Prop :=
  match a with ADeliver src pkt => genuine L src pkt | ACleanup _ => True end.

(* deliveries of a schedule, each with the packets delivered up to and including that step *)
Fixpoint run_sched (st : frag_state) (seen : list (bytes * bytes)) (acts : list action)
  : list (bytes * bytes * list (bytes * bytes)) :=
  match acts with
  | [] => []
  | ADeliver src pkt :: t =>
      match frag_recv st src pkt with
      | Ok (st', Some p) => (src, p, (src, pkt) :: seen) :: run_sched st' ((src, pkt) :: seen) t
      | Ok (st', None) => run_sched st' ((src, pkt) :: seen) t
      | _ => run_sched st ((src, pkt) :: seen) t
      end
  | ACleanup drop :: t => run_sched (frag_cleanup st drop) seen t
  end.

Theorem reassembly_sound L : NoDup (map s_key L) ->
  forall acts st seen, inv L seen st -> Forall (ok_action L) acts ->
  forall src p sn, In (src, p, sn) (run_sched st seen acts) ->
    exists m, In m L /\ s_src m = src /\ s_payload m = p /\
              forall f, In f (fragments (s_id m) (s_chunks m)) -> In (src, f) sn.
Proof.
  intros Hnd. induction acts as [|a acts IH]; intros st seen Hinv Hall src p sn Hin; [contradiction|].
  inversion Hall as [|? ? Ha Hrest]; subst. destruct a as [s pkt|drop]; cbn [run_sched] in Hin.
  - cbn [ok_action] in Ha.
    destruct (frag_recv_genuine L seen st s pkt Hnd Hinv Ha) as (st' & d & Hr & Hinv' & Hd).
    rewrite Hr in Hin. destruct d as [p0|].
    + destruct Hin as [E|Hin]; [|eapply IH; eauto].
      injection E as <- <- <-. destruct (Hd p0 eq_refl) as (m & A & B & C & D). exists m. auto.
    + eapply IH; eauto.
  - eapply IH; [|exact Hrest|exact Hin]. now apply inv_cleanup.
Qed.

Lemma inv_init L : inv L [] [].
Proof. intros k a []. Qed.

(* C16: every address a swarm produces survives marshal and parse, at every nesting. *)
From P2PV Require Import Lib.Base Lib.Base64 Model.Addr Proofs.BaseP Proofs.Base64P.
From Coq Require Import Lia ZifyBool ZifyN ZifyNat.
Ltac Zify.zify_post_hook ::= Z.div_mod_to_equations.
Open Scope N_scope.

Arguments N.div : simpl never.
Arguments N.modulo : simpl never.
Arguments N.mul : simpl never.
Arguments N.add : simpl never.
Arguments N.pow : simpl never.

(* ---------- decimal ---------- *)
Lemma dec_value_acc_app a b acc : dec_value_acc (a ++ b) acc = dec_value_acc b (dec_value_acc a acc).
Proof. revert acc; induction a as [|x a IH]; intros acc; cbn [app dec_value_acc]; [reflexivity|apply IH]. Qed.

Lemma dec_fuel_spec fuel : forall n, n < 2 ^ N.of_nat fuel ->
  dec_fuel fuel n <> [] /\ forallb is_digit (dec_fuel fuel n) = true /\
  (forall acc, dec_value_acc (dec_fuel fuel n) acc = acc * 10 ^ lenN (dec_fuel fuel n) + n) /\
  (n <> 0 -> hd 0 (dec_fuel fuel n) <> 48) /\ (n = 0 -> dec_fuel fuel n = [48]).
Proof.
  induction fuel as [|f IH]; intros n Hn.
  - assert (n = 0) by (cbn in Hn; lia). subst n. cbn [dec_fuel]. change (48 + 0 mod 10) with 48.
    split; [discriminate|]. split; [reflexivity|]. split; [|split; [intros H; contradiction|reflexivity]].
    intros acc. cbn [dec_value_acc]. change (lenN [48]) with 1. change (10 ^ 1) with 10. lia.
  - cbn [dec_fuel]. destruct (N.ltb_spec n 10) as [Hlt|Hge].
    + split; [discriminate|]. split; [cbn; unfold is_digit; lia|]. split; [|split].
      * intros acc. cbn [dec_value_acc lenN]. change (lenN [48 + n]) with 1. change (10 ^ 1) with 10. lia.
      * intros Hz. cbn [hd]. lia.
      * intros ->. reflexivity.
    + assert (Hq : n / 10 < 2 ^ N.of_nat f).
      { apply N.div_lt_upper_bound; [lia|]. rewrite Nat2N.inj_succ, N.pow_succ_r' in Hn. lia. }
      destruct (IH (n / 10) Hq) as (Hne & Hdig & Hval & Hhd & _).
      split; [intros E; apply app_eq_nil in E as [_ E]; discriminate|]. split; [|split; [|split]].
      * rewrite forallb_app, Hdig. cbn. unfold is_digit. assert (n mod 10 < 10) by (apply N.mod_lt; lia). lia.
      * intros acc. rewrite dec_value_acc_app, Hval. cbn [dec_value_acc]. rewrite lenN_app.
        change (lenN [48 + n mod 10]) with 1. rewrite N.pow_add_r. change (10 ^ 1) with 10.
        set (P := 10 ^ lenN (dec_fuel f (n / 10))). pose proof (N.div_mod n 10 ltac:(lia)). nia.
      * intros _. assert (Hq0 : n / 10 <> 0) by (intros E; pose proof (N.div_mod n 10 ltac:(lia)); pose proof (N.mod_lt n 10 ltac:(lia)); lia).
        specialize (Hhd Hq0). destruct (dec_fuel f (n / 10)); [contradiction|]. exact Hhd.
      * intros ->. lia.
Qed.

Lemma size_nat_bound' x : x < 2 ^ N.of_nat (N.size_nat x).
Proof.
  destruct x as [|p]; [cbn; lia|]. cbn [N.size_nat]. induction p as [p IH|p IH|]; cbn [Pos.size_nat].
  - rewrite Nat2N.inj_succ, N.pow_succ_r'. lia.
  - rewrite Nat2N.inj_succ, N.pow_succ_r'. lia.
  - cbn. lia.
Qed.

Lemma dec_digits n : forallb is_digit (dec n) = true.
Proof. unfold dec. now destruct (dec_fuel_spec (N.size_nat n) n (size_nat_bound' n)) as (_ & H & _). Qed.
Lemma dec_nonempty n : dec n <> [].
Proof. unfold dec. now destruct (dec_fuel_spec (N.size_nat n) n (size_nat_bound' n)) as (H & _). Qed.

Theorem undec_dec n : undec (dec n) = Some n.
Proof.
  unfold dec. destruct (dec_fuel_spec (N.size_nat n) n (size_nat_bound' n)) as (Hne & Hdig & Hval & Hhd & Hz).
  unfold undec. destruct (dec_fuel (N.size_nat n) n) as [|c r] eqn:E; [contradiction|].
  rewrite Hdig. cbn [andb]. specialize (Hval 0). rewrite N.mul_0_l, N.add_0_l in Hval. rewrite Hval.
  destruct (N.eq_dec n 0) as [->|Hn].
  - specialize (Hz eq_refl). injection Hz as -> ->. reflexivity.
  - specialize (Hhd Hn). cbn [hd] in Hhd. destruct (N.eqb_spec c 48); [contradiction|]. reflexivity.
Qed.

(* a character class that a text avoids *)
Lemma has_false_forall c l : has c l = false <-> Forall (fun x => x <> c) l.
Proof.
  induction l as [|x t IH]; cbn [has]; [split; [constructor|reflexivity]|].
  rewrite Bool.orb_false_iff, IH. split.
  - intros [Hx Ht]. constructor; [lia|assumption].
  - intros H. inversion H; subst. split; [lia|assumption].
Qed.

Lemma has_app c a b : has c (a ++ b) = has c a || has c b.
Proof. induction a as [|x a IH]; cbn [app has]; [reflexivity|]. now rewrite IH, Bool.orb_assoc. Qed.

Lemma digits_avoid c l : forallb is_digit l = true -> is_digit c = false -> has c l = false.
Proof.
  intros Hd Hc. apply has_false_forall. rewrite forallb_forall in Hd. apply Forall_forall.
  intros x Hx Heq. subst x. rewrite (Hd c Hx) in Hc. discriminate.
Qed.

Lemma dec_avoids c n : is_digit c = false -> has c (dec n) = false.
Proof. intros H. apply digits_avoid; [apply dec_digits|assumption]. Qed.

(* ---------- splitting ---------- *)
Lemma split_first_app c a b : has c a = false -> split_first c (a ++ c :: b) = Some (a, b).
Proof.
  induction a as [|x a IH]; cbn [app split_first has]; intros H.
  - now rewrite N.eqb_refl.
  - apply Bool.orb_false_iff in H as [Hx Ha]. rewrite Hx, (IH Ha). reflexivity.
Qed.

Lemma split_last_none c l : has c l = false -> split_last c l = None.
Proof.
  induction l as [|x t IH]; cbn [has split_last]; intros H; [reflexivity|].
  apply Bool.orb_false_iff in H as [Hx Ht]. now rewrite (IH Ht), Hx.
Qed.

Lemma split_last_app c a b : has c b = false -> split_last c (a ++ c :: b) = Some (a, b).
Proof.
  intros Hb. induction a as [|x a IH]; cbn [app split_last].
  - now rewrite (split_last_none c b Hb), N.eqb_refl.
  - now rewrite IH.
Qed.

Lemma split_scheme_app s rest : s <> [] -> has 58 s = false -> rest <> [] ->
  split_scheme (s ++ [58; 47; 47] ++ rest) = Some (s, rest).
Proof.
  intros Hs Hc Hr. destruct rest as [|r0 rest]; [contradiction|].
  induction s as [|x s IH]; [contradiction|]. cbn [has] in Hc. apply Bool.orb_false_iff in Hc as [Hx Hc].
  destruct s as [|y s].
  - reflexivity.
  - cbn [has] in Hc. apply Bool.orb_false_iff in Hc as [Hy Hc'].
    change ((x :: y :: s) ++ [58; 47; 47] ++ r0 :: rest) with (x :: (y :: s) ++ [58; 47; 47] ++ r0 :: rest).
    cbn [split_scheme]. rewrite IH; [|discriminate|cbn [has]; now rewrite Hy, Hc'].
    cbn [app]. destruct (N.eqb_spec y 58) as [->|Hne]; [discriminate|].
    destruct y as [|p]; [reflexivity|]. (* the head of the tail is not ':' so the pattern does not fire *)
    repeat (destruct p as [p|p|]; try reflexivity); exfalso; apply Hne; reflexivity.
Qed.

Section WithIP.
  Variable ipaddr : Type.
  Variable show : ipaddr -> bytes.
  Variable readip : bytes -> option ipaddr.

  (* what is assumed of netip's text codec *)
  Hypothesis ip_roundtrip : forall i, readip (show i) = Some i.
  Hypothesis ip_text : forall i, show i <> [] /\ has 10 (show i) = false /\
                                 has 91 (show i) = false /\ has 93 (show i) = false.

  Notation addr := (addr ipaddr).
  Notation marshal := (marshal ipaddr show).
  Notation parse := (parse ipaddr readip).

  Definition wf_scheme (s : bytes) : Prop := s <> [] /\ has 58 s = false /\ has 10 s = false.

  Fixpoint wf_addr (a : addr) : Prop :=
    match a with
    | AMem _ => True
    | AUdp _ port => port < 65536
    | ASsh fp _ port => fp <> [] /\ forallb ssh_fp_char fp = true /\ port < 65536
    | AKe id inner => wf_bytes id = true /\ lenN id = PEER_ID_SIZE /\ wf_addr inner
    | AMulti scheme inner => wf_scheme scheme /\ wf_addr inner
    end.

  Fixpoint assoc_first (m : list (bytes * schema)) (k : bytes) : option schema :=
    match m with
    | [] => None
    | (name, sub) :: m' => if bytes_eqb name k then Some sub else assoc_first m' k
    end.

  Fixpoint fits (s : schema) (a : addr) : Prop :=
    match a, s with
    | AMem _, SMem => True
    | AUdp _ _, SUdp => True
    | ASsh _ _ _, SSsh => True
    | AKe _ inner, SKe si => fits si inner
    | AMulti scheme inner, SMulti m =>
        exists sub, assoc_first m scheme = Some sub /\ fits sub inner
    | _, _ => False
    end.

  (* ---- texts avoid newline; are non-empty ---- *)
  Lemma fp_avoid c fp : forallb ssh_fp_char fp = true -> ssh_fp_char c = false -> has c fp = false.
  Proof.
    intros Hd Hc. apply has_false_forall. rewrite forallb_forall in Hd. apply Forall_forall.
    intros x Hx Heq. subst x. rewrite (Hd c Hx) in Hc. discriminate.
  Qed.

  Lemma encode_avoid c b : wf_bytes b = true -> index_of c = None -> has c (encode b) = false.
  Proof.
    intros Hw Hc. apply has_false_forall, Forall_forall. intros x Hx Heq. subst x.
    unfold encode in Hx. apply in_map_iff in Hx as (s & Hs & Hin).
    assert (Hl : all_lt 64 (enc_sextets b)) by (apply enc_sextets_lt64; now apply wf_all_lt).
    unfold all_lt in Hl. rewrite Forall_forall in Hl. specialize (Hl s Hin).
    rewrite <- Hs, index_alpha in Hc by assumption. discriminate.
  Qed.

  Lemma marshal_no_newline a : wf_addr a -> has 10 (marshal a) = false.
  Proof.
    induction a as [n|ip port|fp ip port|id inner IH|scheme inner IH]; cbn [wf_addr marshal]; intros Hw.
    - apply dec_avoids. reflexivity.
    - destruct (ip_text ip) as (_ & Hnl & _). unfold join_host_port.
      destruct (has 58 (show ip) || has 37 (show ip)); rewrite !has_app, Hnl, dec_avoids by reflexivity; reflexivity.
    - destruct Hw as (_ & Hfp & _). destruct (ip_text ip) as (_ & Hnl & _).
      rewrite !has_app, (fp_avoid 10 fp Hfp eq_refl), Hnl, dec_avoids by reflexivity. reflexivity.
    - destruct Hw as (Hwid & _ & Hin). rewrite !has_app, (IH Hin). unfold peerid_marshal.
      rewrite encode_avoid; [reflexivity|assumption|vm_compute; reflexivity].
    - destruct Hw as ((_ & _ & Hnl) & Hin). rewrite !has_app, Hnl, (IH Hin). reflexivity.
  Qed.

  Lemma marshal_nonempty a : wf_addr a -> marshal a <> [].
  Proof.
    destruct a as [n|ip port|fp ip port|id inner|scheme inner]; cbn [wf_addr marshal]; intros Hw E.
    - now apply dec_nonempty in E.
    - unfold join_host_port in E. destruct (ip_text ip) as (Hne & _).
      destruct (_ || _); [discriminate|]. apply app_eq_nil in E as [E _]. contradiction.
    - apply app_eq_nil in E as [_ E]. discriminate.
    - apply app_eq_nil in E as [_ E]. discriminate.
    - apply app_eq_nil in E as [_ E]. discriminate.
  Qed.

  Lemma port16_dec p : p < 65536 -> port16 (dec p) = Some p.
  Proof. intros H. unfold port16. rewrite undec_dec. destruct (N.ltb_spec p 65536); [reflexivity|lia]. Qed.

  Lemma split_join ip port : split_host_port (join_host_port (show ip) (dec port)) = Some (show ip, dec port).
  Proof.
    destruct (ip_text ip) as (Hne & _ & H91 & H93). unfold join_host_port.
    destruct (has 58 (show ip) || has 37 (show ip)) eqn:Eb.
    - cbn [app split_host_port].
      change (show ip ++ [93; 58] ++ dec port) with (show ip ++ 93 :: (58 :: dec port)).
      rewrite split_first_app by assumption.
      rewrite H91, !dec_avoids by reflexivity. reflexivity.
    - apply Bool.orb_false_iff in Eb as [H58 _].
      unfold split_host_port. destruct (show ip ++ [58] ++ dec port) as [|x t] eqn:E.
      + apply app_eq_nil in E as [E _]. contradiction.
      + assert (x <> 91).
        { destruct (show ip) as [|y s]; [contradiction|]. cbn [app] in E. injection E as <- _.
          cbn [has] in H91. apply Bool.orb_false_iff in H91 as [Hy _]. lia. }
        rewrite <- E. change (show ip ++ [58] ++ dec port) with (show ip ++ 58 :: dec port).
        rewrite split_last_app by (apply dec_avoids; reflexivity).
        rewrite H58, H91, H93.
        destruct x as [|p]; [reflexivity|].
        repeat (destruct p as [p|p|]; try reflexivity); contradiction.
  Qed.

  Lemma lookup_fix (m : list (bytes * schema)) scheme rest :
    (fix lookup (m : list (bytes * schema)) : option addr :=
       match m with
       | [] => None
       | (name, sub) :: m' =>
           if bytes_eqb name scheme then option_map (AMulti scheme) (parse sub rest) else lookup m'
       end) m
    = match assoc_first m scheme with
      | Some sub => option_map (AMulti scheme) (parse sub rest)
      | None => None end.
  Proof.
    induction m as [|[name sub] m IH]; [reflexivity|]. cbn [assoc_first].
    destruct (bytes_eqb name scheme); [reflexivity|exact IH].
  Qed.

  Theorem addr_roundtrip a : forall s, fits s a -> wf_addr a -> parse s (marshal a) = Some a.
  Proof.
    induction a as [n|ip port|fp ip port|id inner IH|scheme inner IH]; intros s Hf Hw;
      destruct s as [| | |si|m]; cbn [fits] in Hf; try contradiction; cbn [wf_addr] in Hw.
    - cbn [marshal parse]. now rewrite undec_dec.
    - cbn [marshal parse]. rewrite split_join, port16_dec, ip_roundtrip by assumption. reflexivity.
    - destruct Hw as (Hne & Hfp & Hp). destruct (ip_text ip) as (Hipne & Hnl & _).
      cbn [marshal parse].
      assert (Hnlall : has 10 (fp ++ [64] ++ show ip ++ [58] ++ dec port) = false).
      { rewrite !has_app, (fp_avoid 10 fp Hfp eq_refl), Hnl, dec_avoids by reflexivity. reflexivity. }
      rewrite Hnlall.
      change (fp ++ [64] ++ show ip ++ [58] ++ dec port) with (fp ++ 64 :: (show ip ++ [58] ++ dec port)).
      rewrite split_first_app by (apply fp_avoid; [assumption|reflexivity]).
      rewrite Hfp. cbn [negb orb].
      destruct (N.eqb_spec (lenN fp) 0) as [E|_].
      { destruct fp; [contradiction|]. rewrite lenN_cons in E. lia. }
      change (show ip ++ [58] ++ dec port) with (show ip ++ 58 :: dec port).
      rewrite split_last_app by (apply dec_avoids; reflexivity).
      destruct (N.eqb_spec (lenN (show ip)) 0) as [E|_].
      { destruct (show ip); [contradiction|]. rewrite lenN_cons in E. lia. }
      rewrite port16_dec, ip_roundtrip by assumption. reflexivity.
    - destruct Hw as (Hwid & Hlen & Hin). cbn [marshal parse].
      change (peerid_marshal id ++ [64] ++ marshal inner) with (peerid_marshal id ++ 64 :: marshal inner).
      rewrite split_first_app.
      2:{ unfold peerid_marshal. apply encode_avoid; [assumption|vm_compute; reflexivity]. }
      rewrite peerid_roundtrip by assumption. now rewrite (IH si Hf Hin).
    - destruct Hw as ((Hsne & Hs58 & Hsnl) & Hin). destruct Hf as (sub & Hassoc & Hfit).
      cbn [marshal parse].
      assert (Hnlall : has 10 (scheme ++ [58; 47; 47] ++ marshal inner) = false).
      { rewrite !has_app, Hsnl, (marshal_no_newline inner Hin). reflexivity. }
      rewrite Hnlall, split_scheme_app by (try assumption; now apply marshal_nonempty).
      rewrite lookup_fix, Hassoc, (IH sub Hfit Hin). reflexivity.
  Qed.

  (* parsing arbitrary text fails cleanly or yields an address that marshals back
     to an equivalent form: every well-formed result is a fixed point *)
  Corollary parse_canonical s t a : parse s t = Some a -> fits s a -> wf_addr a ->
    parse s (marshal a) = Some a.
  Proof. intros _. apply addr_roundtrip. Qed.
End WithIP.

(* C18, part 2: every operation preserves the invariant, refines a pointwise map
   specification, never panics; eviction takes the newest entry of the farthest
   unprotected bucket; expiry is exact. *)
From P2PV Require Import Lib.Base Model.Distance Model.Cache Proofs.BaseP Proofs.CacheP.
From Coq Require Import Lia ZifyBool ZifyN ZifyNat Sorting.Permutation.
Open Scope Z_scope.

(* the invariant without the capacity bound (holds between insertion and eviction) *)
Definition inv0 (c : cache) : Prop :=
  0 <= c_minpb c /\ 0 <= c_max c /\
  c_count c = lenZ (contents c) /\ buckets_ok (c_locus c) (c_buckets c).

Lemma inv_inv0 c : inv c <-> inv0 c /\ c_count c <= c_max c.
Proof. unfold inv, inv0. tauto. Qed.

Definition same_cfg (c c' : cache) : Prop :=
  c_locus c' = c_locus c /\ c_minpb c' = c_minpb c /\ c_max c' = c_max c.

Lemma lookup_set L mn mx cnt bs n b' k :
  (n < length bs)%nat ->
  lookup (mkC L mn mx cnt (set_nth bs n b')) k =
    if Nat.eqb (N.to_nat (bucket_index L k)) n then b_find (b_ents b') k
    else match nth_error bs (N.to_nat (bucket_index L k)) with
         | Some b => b_find (b_ents b) k | None => None end.
Proof.
  intros Hn. unfold lookup, get_bucket, bidx. cbn [c_locus c_buckets].
  rewrite set_nth_nth. destruct (Nat.eqb_spec (N.to_nat (bucket_index L k)) n) as [He|Hne]; [|reflexivity].
  destruct (nth_error bs n) eqn:E; [reflexivity|]. apply nth_error_None in E. lia.
Qed.

(* ---------------- minexp bookkeeping ---------------- *)
Lemma upd_minexp_ok es m x :
  ((m = 0 -> forall e, In e es -> e_exp e = 0) /\
   (m <> 0 -> forall e, In e es -> e_exp e <> 0 -> m <= e_exp e)) ->
  let m' := upd_minexp m x in
  (m' = 0 -> (forall e, In e es -> e_exp e = 0) /\ x = 0) /\
  (m' <> 0 -> (forall e, In e es -> e_exp e <> 0 -> m' <= e_exp e) /\ (x <> 0 -> m' <= x)).
Proof.
  intros [H0 H1]. unfold upd_minexp. cbn zeta.
  destruct (Z.eqb_spec x 0) as [->|Hx].
  - split; intros Hm; split; auto; try lia.
  - destruct (Z.eqb_spec m 0) as [->|Hm0]; cbn [orb].
    + split; intros Hm; [lia|]. split; [|lia]. intros e He Hne. rewrite (H0 eq_refl e He) in Hne. lia.
    + destruct (Z.ltb_spec x m).
      * split; intros Hm; [lia|]. split; [|lia]. intros e He Hne. specialize (H1 Hm0 e He Hne). lia.
      * split; intros Hm; [lia|]. split; [|lia]. intros e He Hne. now apply H1.
Qed.

Lemma fold_minexp_ok es : forall m done,
  ((m = 0 -> forall e, In e done -> e_exp e = 0) /\
   (m <> 0 -> forall e, In e done -> e_exp e <> 0 -> m <= e_exp e)) ->
  let m' := fold_left (fun m e => upd_minexp m (e_exp e)) es m in
  (m' = 0 -> forall e, In e (done ++ es) -> e_exp e = 0) /\
  (m' <> 0 -> forall e, In e (done ++ es) -> e_exp e <> 0 -> m' <= e_exp e).
Proof.
  induction es as [|h t IH]; intros m done Hm; cbn [fold_left].
  - cbn zeta. rewrite app_nil_r. exact Hm.
  - pose proof (upd_minexp_ok done m (e_exp h) Hm) as [U0 U1]. cbn zeta in U0, U1.
    specialize (IH (upd_minexp m (e_exp h)) (done ++ [h])).
    cbn zeta in IH. rewrite <- app_assoc in IH. cbn [app] in IH. apply IH. split.
    + intros Hz e He. destruct (U0 Hz) as [A B]. apply in_app_or in He as [He|[<-|[]]]; auto.
    + intros Hz e He Hne. destruct (U1 Hz) as [A B]. apply in_app_or in He as [He|[<-|[]]]; auto.
Qed.

Lemma minexp_ok_subset b es : minexp_ok b -> (forall e, In e es -> In e (b_ents b)) ->
  minexp_ok (mkB es (b_minexp b)).
Proof. intros [H0 H1] Hs. split; cbn; intros Hm e He; [apply H0|apply H1]; auto. Qed.

(* ---------------- bucket.update ---------------- *)
Lemma b_update_ok L n b k fn :
  bucket_ok L n b -> e_key (fn (b_find (b_ents b) k)) = k -> N.to_nat (bucket_index L k) = n ->
  bucket_ok L n (fst (b_update b k fn)).
Proof.
  intros (Hnd & Hidx & Hme) Hk Hn. unfold b_update. cbn [fst].
  set (next := fn (b_find (b_ents b) k)) in *. split; [|split]; cbn [b_ents b_minexp].
  - now apply b_replace_nodup.
  - intros e He. apply (b_replace_in _ _ _ Hnd) in He as [->|[He _]]; [now rewrite Hk|now apply Hidx].
  - destruct (upd_minexp_ok (b_ents b) (b_minexp b) (e_exp next) Hme) as [U0 U1]. cbn zeta in U0, U1.
    split; cbn [b_ents b_minexp]; intros Hm e He.
    + destruct (U0 Hm) as [A B]. apply (b_replace_in _ _ _ Hnd) in He as [->|[He _]]; auto.
    + intros Hne. destruct (U1 Hm) as [A B]. apply (b_replace_in _ _ _ Hnd) in He as [->|[He _]]; auto.
Qed.

(* ---------------- insertion phase of Cache.Update ---------------- *)
Definition insert (c : cache) (k : bytes) (fn : option entry -> entry) : cache :=
  let lz := bidx c k in
  let bs := extend (c_buckets c) lz in
  match nth_error bs lz with
  | None => c
  | Some b =>
      let '(b', added) := b_update b k fn in
      mkC (c_locus c) (c_minpb c) (c_max c)
          (if added then c_count c + 1 else c_count c) (set_nth bs lz b')
  end.

Lemma nth_extend_self bs n : exists b, nth_error (extend bs n) n = Some b /\
  (nth_error bs n = Some b \/ (nth_error bs n = None /\ b = empty_bucket)).
Proof.
  rewrite nth_extend. destruct (nth_error bs n) eqn:E.
  - eexists; split; [reflexivity|now left].
  - rewrite Nat.leb_refl. eexists; split; [reflexivity|now right].
Qed.

Lemma extend_length bs n : (n < length (extend bs n))%nat.
Proof. unfold extend. rewrite app_length, repeat_length. lia. Qed.

Lemma lookup_extend c k :
  match nth_error (extend (c_buckets c) (bidx c k)) (bidx c k) with
  | Some b => b_find (b_ents b) k | None => None end = lookup c k.
Proof.
  unfold lookup, get_bucket. destruct (nth_extend_self (c_buckets c) (bidx c k)) as (b & Hb & [H|[H ->]]);
    rewrite Hb, H; reflexivity.
Qed.

Lemma insert_spec c k fn :
  inv0 c -> e_key (fn (lookup c k)) = k ->
  let c1 := insert c k fn in
  inv0 c1 /\ same_cfg c c1 /\
  c_count c1 = (match lookup c k with None => c_count c + 1 | Some _ => c_count c end) /\
  (forall k', lookup c1 k' = if bytes_eqb k k' then Some (fn (lookup c k)) else lookup c k').
Proof.
  intros (Hmn & Hmx & Hcnt & Hbs) Hk. cbn zeta. unfold insert.
  pose proof (lookup_extend c k) as Hlk.
  destruct (nth_extend_self (c_buckets c) (bidx c k)) as (b & Hb & Hor).
  rewrite Hb in Hlk |- *. unfold b_update. rewrite Hlk.
  set (next := fn (lookup c k)) in *.
  set (bs := extend (c_buckets c) (bidx c k)) in *.
  set (b' := mkB (b_replace (b_ents b) next) (upd_minexp (b_minexp b) (e_exp next))).
  assert (Hbok : bucket_ok (c_locus c) (bidx c k) b).
  { apply (buckets_ok_extend _ _ (bidx c k) Hbs _ _ Hb). }
  assert (Hb'ok : bucket_ok (c_locus c) (bidx c k) b').
  { pose proof (b_update_ok (c_locus c) (bidx c k) b k fn Hbok) as H. unfold b_update in H. cbn [fst] in H.
    rewrite Hlk in H. apply H; [exact Hk|reflexivity]. }
  assert (Hlen : lenZ (b_ents b') = match lookup c k with None => lenZ (b_ents b) + 1 | Some _ => lenZ (b_ents b) end).
  { unfold b'. cbn [b_ents]. rewrite b_replace_len, Hk, Hlk. destruct (lookup c k); reflexivity. }
  split; [|split; [|split]].
  - (* inv0 *)
    unfold inv0, contents. cbn [c_minpb c_max c_count c_buckets c_locus].
    split; [assumption|]. split; [assumption|]. split.
    + rewrite (contents_set_nth bs _ b b' Hb). unfold bs. rewrite contents_extend. fold (contents c).
      rewrite Hlen. destruct (lookup c k); lia.
    + apply buckets_ok_set; [now apply buckets_ok_extend|exact Hb'ok].
  - unfold same_cfg. cbn. auto.
  - cbn [c_count]. destruct (lookup c k); reflexivity.
  - intros k'. rewrite lookup_set by apply extend_length.
    fold (bidx c k'). destruct (Nat.eqb_spec (bidx c k') (bidx c k)) as [He|Hne].
    + unfold b'. cbn [b_ents]. rewrite b_replace_find, Hk.
      destruct (bytes_eqb_spec k k') as [->|Hkk]; [reflexivity|].
      rewrite <- (lookup_extend c k'). rewrite He. fold bs. rewrite Hb. reflexivity.
    + destruct (bytes_eqb_spec k k') as [->|Hkk]; [congruence|].
      rewrite <- (lookup_extend c k'). unfold bs. rewrite !nth_extend.
      destruct (nth_error (c_buckets c) (bidx c k')) eqn:E; [reflexivity|].
      rewrite Nat.leb_refl. destruct (Nat.leb (bidx c k') (bidx c k)); reflexivity.
Qed.

(* ---------------- eviction ---------------- *)
Lemma first_over_some bs mn : forall i n, first_over bs mn i = Some n ->
  exists j b, n = (i + j)%nat /\ nth_error bs j = Some b /\ mn < lenZ (b_ents b) /\
              forall j' b', (j' < j)%nat -> nth_error bs j' = Some b' -> lenZ (b_ents b') <= mn.
Proof.
  induction bs as [|h t IH]; intros i n H; cbn [first_over] in H; [discriminate|].
  destruct (Z.ltb_spec mn (lenZ (b_ents h))) as [Hlt|Hge].
  - injection H as <-. exists O, h. split; [lia|]. split; [reflexivity|]. split; [assumption|]. intros j' b' Hj; lia.
  - destruct (IH _ _ H) as (j & b & -> & Hn & Hl & Hall). exists (S j), b. split; [lia|]. split; [exact Hn|]. split; [assumption|].
    intros [|j'] b' Hj Hn'; cbn [nth_error] in Hn'.
    + injection Hn' as <-. lia.
    + apply (Hall j' b'); [lia|assumption].
Qed.

Lemma first_over_none bs mn : forall i, first_over bs mn i = None ->
  forall j b, nth_error bs j = Some b -> lenZ (b_ents b) <= mn.
Proof.
  induction bs as [|h t IH]; intros i H j b Hn; [destruct j; discriminate|].
  cbn [first_over] in H. destruct (Z.ltb_spec mn (lenZ (b_ents h))); [discriminate|].
  destruct j as [|j]; cbn [nth_error] in Hn; [injection Hn as <-; lia|]. eapply IH; eauto.
Qed.

Lemma contents_empty_if_all_empty bs :
  (forall j b, nth_error bs j = Some b -> lenZ (b_ents b) <= 0) -> flat_map b_ents bs = [].
Proof.
  induction bs as [|h t IH]; intros H; cbn [flat_map]; [reflexivity|].
  rewrite IH by (intros j b Hj; apply (H (S j) b Hj)).
  specialize (H O h eq_refl). destruct (b_ents h); [reflexivity|]. rewrite lenZ_cons in H.
  pose proof (lenZ_nonneg l). lia.
Qed.

Lemma evict_index_spec c : inv0 c -> 0 < c_count c ->
  exists n b, evict_index c = Some n /\ nth_error (c_buckets c) n = Some b /\ b_ents b <> [] /\
    forall m b', (m < n)%nat -> nth_error (c_buckets c) m = Some b' -> lenZ (b_ents b') <= c_minpb c.
Proof.
  intros (Hmn & Hmx & Hcnt & Hbs) Hpos. unfold evict_index.
  destruct (first_over (c_buckets c) (c_minpb c) 0) as [n|] eqn:E.
  - destruct (first_over_some _ _ _ _ E) as (j & b & -> & Hn & Hl & Hall). exists j, b. cbn [Nat.add].
    repeat split; auto. intros Hnil. rewrite Hnil in Hl. cbn in Hl. lia.
  - pose proof (first_over_none _ _ _ E) as Hall.
    destruct (first_over (c_buckets c) 0 0) as [n|] eqn:E0.
    + destruct (first_over_some _ _ _ _ E0) as (j & b & -> & Hn & Hl & _). exists j, b. cbn [Nat.add].
      repeat split; auto.
      * intros Hnil. rewrite Hnil in Hl. cbn in Hl. lia.
      * intros m b' _ Hm. eapply Hall; eauto.
    + exfalso. pose proof (first_over_none _ _ _ E0) as H0.
      unfold contents in Hcnt. rewrite (contents_empty_if_all_empty _ H0) in Hcnt. cbn in Hcnt. lia.
Qed.

Lemma max_created_ge es : forall e, In e es -> e_created e <= max_created es.
Proof.
  destruct es as [|h t]; [contradiction|]. cbn [max_created].
  assert (G : forall l m, m <= fold_left (fun m e => Z.max m (e_created e)) l m /\
                          forall e, In e l -> e_created e <= fold_left (fun m e => Z.max m (e_created e)) l m).
  { induction l as [|x l IH]; intros m; cbn [fold_left]; [split; [lia|contradiction]|].
    destruct (IH (Z.max m (e_created x))) as [A B]. split; [lia|].
    intros e [<-|He]; [lia|now apply B]. }
  destruct (G t (e_created h)) as [A B]. intros e [<-|He]; [exact A|now apply B].
Qed.

Lemma evict_spec c victim :
  inv0 c -> 0 < c_count c ->
  (forall s, evict c victim <> Panic s) /\
  forall c2 ev, evict c victim = Ok (c2, ev) ->
    inv0 c2 /\ same_cfg c c2 /\ c_count c2 = c_count c - 1 /\ e_key ev = victim /\
    lookup c victim = Some ev /\
    (forall k', lookup c2 k' = if bytes_eqb victim k' then None else lookup c k') /\
    (* taken from the farthest bucket that is above its minimum ... *)
    (forall m b', (m < bidx c victim)%nat -> nth_error (c_buckets c2) m = Some b' ->
                  lenZ (b_ents b') <= c_minpb c) /\
    (* ... and the newest entry of that bucket *)
    (forall e, In e (contents c) -> bidx c (e_key e) = bidx c victim -> e_created e <= e_created ev).
Proof.
  intros Hinv Hpos. pose proof Hinv as (Hmn & Hmx & Hcnt & Hbs).
  destruct (evict_index_spec c Hinv Hpos) as (n & b & Hei & Hn & Hne & Hfar).
  unfold evict. rewrite Hei, Hn. unfold b_evict.
  destruct (b_ents b) as [|e0 es0] eqn:Hents; [contradiction|]. rewrite <- Hents in *.
  destruct (Hbs n b Hn) as (Hnd & Hidx & Hme).
  destruct (b_find (b_ents b) victim) as [e|] eqn:Hf; cbn [bind];
    [|split; [intros s; discriminate|intros ? ? ?; discriminate]].
  destruct (Z.eqb_spec (e_created e) (max_created (b_ents b))) as [Hmaxc|Hmaxc]; cbn [bind];
    [|split; [intros s; discriminate|intros ? ? ?; discriminate]].
  split; [intros s; discriminate|].
  intros c2 ev H. injection H as <- <-.
  destruct (b_find_some _ _ _ Hf) as [Hin Hkey].
  assert (Hbv : bidx c victim = n) by (unfold bidx; rewrite <- Hkey; now apply Hidx).
  assert (Hlt : (n < length (c_buckets c))%nat) by (apply nth_error_Some; congruence).
  split; [|split; [|split; [|split; [|split; [|split; [|split]]]]]].
  - unfold inv0, contents. cbn [c_minpb c_max c_count c_buckets c_locus].
    split; [assumption|]. split; [assumption|]. split.
    + rewrite (contents_set_nth _ _ b _ Hn). cbn [b_ents]. rewrite b_remove_len, Hf. fold (contents c). lia.
    + apply buckets_ok_set; [assumption|]. split; [|split]; cbn [b_ents b_minexp].
      * now apply b_remove_keys_nodup.
      * intros x Hx. apply Hidx. eapply b_remove_in; eauto.
      * apply minexp_ok_subset; [assumption|]. intros x Hx. eapply b_remove_in; eauto.
  - unfold same_cfg. cbn. auto.
  - reflexivity.
  - exact Hkey.
  - unfold lookup, get_bucket. rewrite Hbv, Hn. exact Hf.
  - intros k'. rewrite lookup_set by assumption. fold (bidx c k').
    destruct (Nat.eqb_spec (bidx c k') n) as [He|Hne'].
    + cbn [b_ents]. rewrite b_remove_find by assumption.
      destruct (bytes_eqb victim k'); [reflexivity|]. unfold lookup, get_bucket. now rewrite He, Hn.
    + destruct (bytes_eqb_spec victim k') as [->|_]; [congruence|]. reflexivity.
  - intros m b' Hm Hnm. cbn [c_buckets] in Hnm. rewrite set_nth_nth in Hnm.
    rewrite Hbv in Hm. destruct (Nat.eqb_spec m n); [lia|]. eapply Hfar; eauto.
  - intros x Hx Hbx. rewrite Hbv in Hbx.
    unfold contents in Hx. apply in_flat_map in Hx as (bx & Hbin & Hxin).
    apply In_nth_error in Hbin as (nx & Hnx). destruct (Hbs nx bx Hnx) as (_ & Hidx' & _).
    assert (nx = n) by (rewrite <- Hbx; symmetry; now apply Hidx'). subst nx.
    assert (bx = b) by congruence. subst bx.
    rewrite Hmaxc. now apply max_created_ge.
Qed.

(* ---------------- Cache.Update as a whole ---------------- *)
Lemma update_unfold c k fn orc :
  update c k fn orc =
    if c_max c =? 0 then Ok (c, (None, false))
    else let c1 := insert c k fn in
         if c_max c1 <? c_count c1 then
           do (c2, ev) <- evict c1 orc; Ok (c2, (Some ev, negb (bytes_eqb k (e_key ev))))
         else Ok (c1, (None, match lookup c k with None => true | Some _ => false end)).
Proof.
  unfold update, insert. destruct (c_max c =? 0); [reflexivity|].
  pose proof (lookup_extend c k) as Hlk.
  destruct (nth_extend_self (c_buckets c) (bidx c k)) as (b & Hb & _). rewrite Hb in Hlk |- *.
  unfold b_update. rewrite Hlk. cbn zeta. destruct (lookup c k); reflexivity.
Qed.

Definition fn_keeps_key (k : bytes) (fn : option entry -> entry) (c : cache) : Prop :=
  e_key (fn (lookup c k)) = k.

Lemma put_fn_key k v now exp c : fn_keeps_key k (put_fn k v now exp) c.
Proof. reflexivity. Qed.

Lemma keep_fn_key k v now exp c : inv c -> fn_keeps_key k (keep_fn k v now exp) c.
Proof.
  intros Hi. unfold fn_keeps_key, keep_fn. destruct (lookup c k) eqn:E; [|reflexivity].
  cbn. now destruct (lookup_in _ _ _ Hi E).
Qed.

(* the map specification of Update, pointwise in the looked-up key *)
Definition update_spec (c : cache) (k : bytes) (fn : option entry -> entry)
           (ev : option entry) (k' : bytes) : option entry :=
  if c_max c =? 0 then lookup c k'
  else
    match ev with
    | Some e => if bytes_eqb (e_key e) k' then None
                else if bytes_eqb k k' then Some (fn (lookup c k)) else lookup c k'
    | None => if bytes_eqb k k' then Some (fn (lookup c k)) else lookup c k'
    end.

Theorem update_correct c k fn orc :
  inv c -> fn_keeps_key k fn c ->
  (forall s, update c k fn orc <> Panic s) /\
  forall c' ev added, update c k fn orc = Ok (c', (ev, added)) ->
    inv c' /\ same_cfg c c' /\
    (forall k', lookup c' k' = update_spec c k fn ev k') /\
    (* the victim was stored (possibly the entry just put) and is reported *)
    (forall e, ev = Some e -> (if bytes_eqb k (e_key e) then fn (lookup c k) = e else lookup c (e_key e) = Some e)
                              /\ added = negb (bytes_eqb k (e_key e))
                              /\ c_count c' = c_max c
                              /\ (forall m b', (m < bidx c (e_key e))%nat -> nth_error (c_buckets c') m = Some b' ->
                                               lenZ (b_ents b') <= c_minpb c)
                              /\ (forall x, lookup c' (e_key x) = Some x -> bidx c (e_key x) = bidx c (e_key e) ->
                                            e_created x <= e_created e)) /\
    (ev = None -> added = if c_max c =? 0 then false else match lookup c k with None => true | Some _ => false end).
Proof.
  intros Hi Hk. rewrite update_unfold. pose proof Hi as (Hmn & Hmx & Hcnt & Hle & Hbs).
  destruct (Z.eqb_spec (c_max c) 0) as [Hz|Hnz].
  - split; [discriminate|]. intros c' ev added H. injection H as <- <- <-.
    split; [assumption|]. split; [unfold same_cfg; auto|]. split.
    + intros k'. unfold update_spec. now rewrite Hz.
    + split; [discriminate|]. intros _. reflexivity.
  - assert (Hi0 : inv0 c) by (apply inv_inv0 in Hi; tauto).
    destruct (insert_spec c k fn Hi0 Hk) as (Hi1 & Hcfg1 & Hc1 & Hl1). cbn zeta in *.
    set (c1 := insert c k fn) in *. destruct Hcfg1 as (HL1 & Hmn1 & Hmx1).
    destruct (Z.ltb_spec (c_max c1) (c_count c1)) as [Hover|Hfits].
    + assert (Hpos : 0 < c_count c1) by lia.
      destruct (evict_spec c1 orc Hi1 Hpos) as (Hp1 & Hev).
      destruct (evict c1 orc) as [[c2 e]|err|s] eqn:Eev; cbn [bind].
      * split; [discriminate|]. intros c' ev added H. injection H as <- <- <-.
        destruct (Hev c2 e eq_refl) as (Hi2 & (HL2 & Hmn2 & Hmx2) & Hc2 & Hke & Hlv & Hl2 & Hfar & Hnew).
        assert (Hcount : c_count c2 = c_max c) by (destruct (lookup c k); lia).
        split; [apply inv_inv0; split; [assumption|lia]|].
        split; [unfold same_cfg; repeat split; congruence|]. split; [|split; [|discriminate]].
        -- intros k'. unfold update_spec. destruct (Z.eqb_spec (c_max c) 0); [contradiction|].
           rewrite Hl2, Hl1, Hke. reflexivity.
        -- intros e' He'. injection He' as <-. rewrite Hl1 in Hlv.
           assert (Hb1 : forall x, bidx c1 x = bidx c x) by (intros x; unfold bidx; now rewrite HL1).
           repeat split.
           ++ rewrite Hke. destruct (bytes_eqb k orc); [congruence|assumption].
           ++ exact Hcount.
           ++ intros m b' Hm Hnm. rewrite <- Hmn1. apply (Hfar m b'); [rewrite Hb1, <- Hke; exact Hm|exact Hnm].
           ++ intros x Hx Hbx. apply Hnew.
              ** rewrite Hl2 in Hx. destruct (bytes_eqb orc (e_key x)); [discriminate|].
                 assert (Hi1' : inv c1 \/ True) by now right.
                 clear Hi1'. unfold contents.
                 (* x is found by lookup in c1, hence is in its contents *)
                 unfold lookup, get_bucket in Hx.
                 destruct (nth_error (c_buckets c1) (bidx c1 (e_key x))) as [bx|] eqn:Ebx; [|discriminate].
                 apply b_find_some in Hx as [Hin _]. apply in_flat_map. exists bx. split; [eapply nth_error_In; eauto|assumption].
              ** rewrite !Hb1, <- Hke. exact Hbx.
      * split; [discriminate|]. intros ? ? ? H; discriminate.
      * exfalso. now apply (Hp1 s).
    + split; [discriminate|]. intros c' ev added H. injection H as <- <- <-.
      split; [apply inv_inv0; split; [assumption|lia]|].
      split; [unfold same_cfg; auto|]. split; [|split; [discriminate|]].
      * intros k'. unfold update_spec. destruct (Z.eqb_spec (c_max c) 0); [contradiction|]. apply Hl1.
      * intros _. reflexivity.
Qed.

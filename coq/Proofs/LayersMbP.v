(* p/mbapp as a sound layer of the C01 composition. *)
From P2PV Require Import Lib.Base Lib.Varint Model.Frag Model.Mbapp Model.Layers
  Proofs.BaseP Proofs.FragP Proofs.MbappP Proofs.LayersP.
Open Scope N_scope.

Lemma mb_deliveries (S : list msent) mtu : NoDup (map ms_key S) -> forall inp st,
  mb_inv S st -> Forall (fun sw => genuine_mb S (fst sw) (snd sw)) inp ->
  forall src p, In (src, p) (deliveries_from (mb_rlayer mtu) st inp) ->
  exists m, In m S /\ ms_src m = src /\ ms_payload m = p.
Proof.
  intros Hnd. induction inp as [|[s w] t IH]; intros st Hinv Hall src p Hin; [contradiction|].
  inversion Hall as [|? ? Hw Ht]; subst. cbn [fst snd] in Hw.
  cbn [deliveries_from rrecv mb_rlayer] in Hin.
  destruct (mb_recv mtu st s w) as [[st' [[h body]|]]| |] eqn:Er; try (eapply IH; eauto; fail).
  - destruct (mb_recv_genuine S mtu st s w Hnd Hinv Hw st' _ Er) as (I' & D).
    destruct (h_ask h).
    + eapply IH; eauto.
    + destruct Hin as [E|Hin]; [|eapply IH; eauto].
      injection E as <- <-. destruct (D h body eq_refl) as (m & A & B & C). exists m. auto.
  - destruct (mb_recv_genuine S mtu st s w Hnd Hinv Hw st' _ Er) as (I' & _). eapply IH; eauto.
Qed.

Definition mb_slayer (mtu : Z) : slayer.
Proof.
  refine (mkSLayer (mb_rlayer mtu) (list msent)
            (fun S L => NoDup (map ms_key S) /\ forall m, In m S -> L (ms_src m) (ms_payload m))
            genuine_mb _).
  intros S L inp [Hnd HL] Hall src p Hin.
  destruct (mb_deliveries S mtu Hnd inp [] (mb_inv_init S) Hall src p Hin) as (m & A & <- & <-). now apply HL.
Defined.

(* C03 / C02, part 1: what holds of ONE session whatever is delivered to it. *)
From P2PV Require Import Lib.Base Model.Handshake Model.Session Proofs.BaseP.
From Coq Require Import Lia ZifyBool ZifyN ZifyNat.
Open Scope N_scope.

(* ---------- term equality ---------- *)
Fixpoint tsize (t : term) : nat :=
  match t with
  | TSig _ _ m => S (tsize m)
  | THash l => S (fold_right (fun x acc => tsize x + acc)%nat O l)
  | TAead k _ p => S (tsize k + tsize p)
  | TPair a b => S (tsize a + tsize b)
  | _ => 1%nat
  end.

Lemma term_eqb_spec_size n : forall x y, (tsize x <= n)%nat -> term_eqb x y = true -> x = y.
Proof.
  induction n as [|n IH]; intros x y Hs; [destruct x; cbn in Hs; lia|].
  destruct x, y; cbn [term_eqb]; try discriminate; intros H.
  - f_equal. lia.
  - f_equal. lia.
  - f_equal. lia.
  - apply andb_prop in H as [H Hm]. apply andb_prop in H as [Hk Hp].
    cbn [tsize] in Hs. f_equal; try lia. apply IH; [lia|assumption].
  - f_equal. cbn [tsize] in Hs. revert l0 H Hs.
    induction l as [|a l IHl]; intros [|b l0] H Hs; try discriminate; [reflexivity|].
    apply andb_prop in H as [Ha Hl]. cbn [fold_right] in Hs. f_equal.
    + apply IH; [lia|assumption].
    + apply IHl; [assumption|cbn [fold_right]; lia].
  - apply andb_prop in H as [H Hd]. apply andb_prop in H as [Ha Hb]. f_equal; lia.
  - apply andb_prop in H as [H Hp]. apply andb_prop in H as [Hk Hc]. cbn [tsize] in Hs.
    f_equal; [apply IH; [lia|assumption]|lia|apply IH; [lia|assumption]].
  - apply andb_prop in H as [Ha Hb]. cbn [tsize] in Hs. f_equal; apply IH; try assumption; lia.
  - reflexivity.
Qed.

Lemma term_eqb_eq x y : term_eqb x y = true -> x = y.
Proof. apply (term_eqb_spec_size (tsize x)). lia. Qed.

(* ---------- decoders ---------- *)
Lemma as_aead_some t k c p : as_aead t = Some (k, c, p) -> t = TAead k c p.
Proof. destruct t; cbn; try discriminate. intros H; now injection H as -> -> ->. Qed.
Lemma as_pair_some t a b : as_pair t = Some (a, b) -> t = TPair a b.
Proof. destruct t; cbn; try discriminate. intros H; now injection H as -> ->. Qed.

(* a signature verifies only if it was built with that key, purpose and message *)
Lemma verify_claim_some purpose kc sg msg k :
  verify_claim purpose kc sg msg = Some k -> kc = TPub k /\ sg = TSig k purpose msg.
Proof.
  unfold verify_claim. destruct kc; cbn; try discriminate. destruct sg; cbn; try discriminate.
  destruct ((k0 =? k1) && (purpose0 =? purpose) && term_eqb sg msg) eqn:E; [|discriminate].
  intros H; injection H as <-. apply andb_prop in E as [E Em]. apply andb_prop in E as [Ek Ep].
  apply N.eqb_eq in Ek, Ep. apply term_eqb_eq in Em. subst. auto.
Qed.

(* ---------- the gate ---------- *)
Definition usable (s : ssess) : bool := xcan_send s || xcan_receive s.

(* the channel binding this session's peer must have signed *)
Definition binding (s : ssess) : term := if x_init s then x_cb1 s else x_cb2 s.

(* w carries sig as the signature inside its encrypted handshake payload *)
Definition presents (w : wire) (sig : term) : Prop :=
  match w with
  | W1 _ (TAead _ _ (TPair _ sg)) => sg = sig
  | WC _ (TAead _ _ sg) => sg = sig
  | _ => False
  end.

Definition stage_ok (s : ssess) : Prop :=
  if x_init s then x_hs s = 0 \/ x_hs s = 2 \/ x_hs s = 4 \/ x_hs s = 8
  else x_hs s = 0 \/ x_hs s = 1 \/ x_hs s = 3 \/ x_hs s = 8.

(* the signed transcript contains this session's own fresh ephemeral *)
Definition binding_fresh (s : ssess) : Prop :=
  if x_init s then exists rest, x_cb1 s = THash (TEph (x_eph s) :: rest)
  else usable s = true -> exists cb1 c, x_cb2 s = THash [cb1; TEph (x_eph s); c].

Definition gate_inv (s : ssess) : Prop :=
  stage_ok s /\ binding_fresh s /\
  (usable s = true -> exists r, x_remote s = Some r /\ x_verified s = Some (r, binding s)) /\
  (* a responder past message 1 has its channel bindings and peer fixed *)
  (x_init s = false -> 1 <= x_hs s -> exists cb1 c, x_cb2 s = THash [cb1; TEph (x_eph s); c]).

Lemma usable_stage s : stage_ok s ->
  usable s = (if x_init s then 2 <=? x_hs s else 3 <=? x_hs s).
Proof.
  unfold stage_ok, usable, xcan_send, xcan_receive. destruct (x_init s); intros H;
    destruct (N.leb_spec 3 (x_hs s)), (N.leb_spec 2 (x_hs s)); cbn; try reflexivity; lia.
Qed.

Lemma gate_new i me e ts : gate_inv (new_ssess i me e ts).
Proof.
  unfold gate_inv, stage_ok, binding_fresh, usable, xcan_send, xcan_receive, new_ssess. destruct i; cbn.
  - split; [now left|]. split; [eexists; reflexivity|]. split; [discriminate|discriminate].
  - split; [now left|]. split; [discriminate|]. split; [discriminate|]. intros _ H. lia.
Qed.

Ltac break H :=
  repeat match type of H with
         | context [match ?x with _ => _ end] => destruct x eqn:?
         | context [if ?b then _ else _] => destruct b eqn:?
         end.

(* what one handshake read can do to a session *)
Inductive hs_effect (s : ssess) (w : wire) : ssess -> bool -> Prop :=
| HE_same okb : hs_effect s w s okb
| HE_spent n : hs_effect s w (spent s n) false
| HE_ih e ts kc sg k :                       (* responder accepted an InitHello *)
    w = W0 e ts kc sg -> x_init s = false -> x_hs s = 0 -> kc = TPub k -> sg = TSig k P_TS ts ->
    hs_effect s w
      (let cb1 := cb1_of e ts kc sg in
       let c := TAead (mk_key (x_eph s) e 2) 0 (TPair (TPub (x_me s)) (TSig (x_me s) P_CB cb1)) in
       upd s 1 2 (Some e) (Some k) cb1 (cb2_of cb1 (x_eph s) c)
           (set_cache (x_cache s) 1 (W1 (x_eph s) c)) (x_nonce s) (x_verified s)) true
| HE_rh e c k :                              (* initiator accepted a RespHello *)
    w = W1 e c -> x_init s = true -> x_hs s = 0 ->
    c = TAead (mk_key (x_eph s) e 2) 0 (TPair (TPub k) (TSig k P_CB (x_cb1 s))) ->
    hs_effect s w
      (let cb2 := cb2_of (x_cb1 s) e c in
       upd s 2 2 (Some e) (Some k) (x_cb1 s) cb2
           (set_cache (x_cache s) 2 (WC 2 (TAead (mk_key (x_eph s) e 0) 2 (TSig (x_me s) P_CB cb2)))) (x_nonce s)
           (Some (k, x_cb1 s))) true
| HE_id h c r :                              (* responder accepted an InitDone *)
    w = WC h c -> x_init s = false -> x_hs s = 1 -> x_remote s = Some r ->
    c = TAead (kin s) 2 (TSig r P_CB (x_cb2 s)) ->
    hs_effect s w
      (upd s 3 (x_noise s) (x_peer s) (Some r) (x_cb1 s) (x_cb2 s)
           (set_cache (x_cache s) 3 (WC 3 (TAead (kout s) 3 TNil))) NONCE_POST_HANDSHAKE (Some (r, x_cb2 s))) true
| HE_rd h c pt :                             (* initiator accepted a RespDone *)
    w = WC h c -> x_init s = true -> x_hs s = 2 -> c = TAead (kin s) 3 pt ->
    hs_effect s w
      (upd s 4 (x_noise s) (x_peer s) (x_remote s) (x_cb1 s) (x_cb2 s) (x_cache s) NONCE_POST_HANDSHAKE (x_verified s)) true.

Lemma read_handshake_effect s w s' okb : xread_handshake s w = (s', okb) -> hs_effect s w s' okb.
Proof.
  unfold xread_handshake. intros H.
  destruct (wire_nonce w) as [n|]; [|injection H as <- <-; constructor].
  destruct (negb (x_init s) && (x_hs s =? 0) && (n =? 0)) eqn:C1.
  { apply andb_prop in C1 as [C1 _]. apply andb_prop in C1 as [Ci Ch].
    apply Bool.negb_true_iff in Ci. apply N.eqb_eq in Ch.
    destruct w as [e ts kc sg| |h0 c0|]; try (injection H as <- <-; constructor);
      [|destruct (short_junk c0); injection H as <- <-; constructor].
    unfold read_init_hello in H. destruct (negb (x_noise s =? 0)); [injection H as <- <-; constructor|].
    destruct (verify_claim P_TS kc sg ts) as [k|] eqn:Ev; [|injection H as <- <-; constructor].
    destruct (verify_claim_some _ _ _ _ _ Ev) as [-> ->]. injection H as <- <-.
    eapply HE_ih; eauto. }
  destruct (x_init s && (x_hs s =? 0) && (n =? 1)) eqn:C2.
  { apply andb_prop in C2 as [C2 _]. apply andb_prop in C2 as [Ci Ch]. apply N.eqb_eq in Ch.
    destruct w as [|e c| |]; try (injection H as <- <-; constructor).
    unfold read_resp_hello in H. destruct (negb (x_noise s =? 1)); [injection H as <- <-; constructor|].
    destruct (as_aead c) as [[[key ctr] pt]|] eqn:Ea; [|injection H as <- <-; constructor].
    destruct (term_eqb key (mk_key (x_eph s) e 2) && (ctr =? 0)) eqn:Ek; cbn [negb] in H; [|injection H as <- <-; constructor].
    apply andb_prop in Ek as [Ek Ec]. apply term_eqb_eq in Ek. apply N.eqb_eq in Ec. subst key ctr.
    destruct (as_pair pt) as [[kc sg]|] eqn:Ep; [|injection H as <- <-; constructor].
    destruct (verify_claim P_CB kc sg (x_cb1 s)) as [k|] eqn:Ev; [|injection H as <- <-; constructor].
    destruct (verify_claim_some _ _ _ _ _ Ev) as [-> ->].
    apply as_pair_some in Ep. apply as_aead_some in Ea. subst pt.
    injection H as <- <-. rewrite Ea. eapply HE_rh; eauto. }
  destruct (negb (x_init s) && (x_hs s =? 1) && (n =? 2)) eqn:C3.
  { apply andb_prop in C3 as [C3 _]. apply andb_prop in C3 as [Ci Ch].
    apply Bool.negb_true_iff in Ci. apply N.eqb_eq in Ch.
    destruct w as [| |h c|]; try (injection H as <- <-; constructor).
    unfold read_init_done in H.
    destruct (as_aead c) as [[[key ctr] pt]|] eqn:Ea; [|injection H as <- <-; constructor].
    destruct (x_remote s) as [r|] eqn:Er; [|injection H as <- <-; constructor].
    destruct (term_eqb key (kin s) && (ctr =? 2)) eqn:Ek; [|injection H as <- <-; constructor].
    apply andb_prop in Ek as [Ek Ec]. apply term_eqb_eq in Ek. apply N.eqb_eq in Ec. subst key ctr.
    destruct (verify_claim P_CB (TPub r) pt (x_cb2 s)) as [k|] eqn:Ev; [|injection H as <- <-; constructor].
    destruct (verify_claim_some _ _ _ _ _ Ev) as [Hk ->]. injection Hk as <-.
    apply as_aead_some in Ea. injection H as <- <-. eapply HE_id; eauto. }
  destruct (x_init s && (x_hs s =? 2) && (n =? 3)) eqn:C4.
  { apply andb_prop in C4 as [C4 _]. apply andb_prop in C4 as [Ci Ch]. apply N.eqb_eq in Ch.
    destruct w as [| |h c|]; try (injection H as <- <-; constructor).
    unfold read_resp_done in H.
    destruct (as_aead c) as [[[key ctr] pt]|] eqn:Ea; [|injection H as <- <-; constructor].
    destruct (term_eqb key (kin s) && (ctr =? 3)) eqn:Ek; [|injection H as <- <-; constructor].
    apply andb_prop in Ek as [Ek Ec]. apply term_eqb_eq in Ek. apply N.eqb_eq in Ec. subst key ctr.
    apply as_aead_some in Ea. injection H as <- <-. eapply HE_rd; eauto. }
  destruct ((x_init s && (n mod 2 =? 1)) || (negb (x_init s) && (n mod 2 =? 0))); injection H as <- <-; constructor.
Qed.

(* the gate: a session becomes usable only by verifying, under the key it then
   reports as remote, a channel-binding signature over its own transcript, which
   contains its own fresh ephemeral *)
Lemma effect_gate s w s' okb : gate_inv s -> hs_effect s w s' okb ->
  gate_inv s' /\ x_init s' = x_init s /\ x_eph s' = x_eph s /\ x_me s' = x_me s /\
  (usable s = true -> x_remote s' = x_remote s /\ binding s' = binding s /\ usable s' = true) /\
  (usable s = false -> usable s' = true ->
     exists r, x_remote s' = Some r /\ presents w (TSig r P_CB (binding s')) /\ binding_fresh s').
Proof.
  intros (Hst & Hbf & Hg & Hr2) He. pose proof (usable_stage s Hst) as Hus.
  destruct He as [okb|n|e ts kc sg k Hw Hi Hh Hkc Hsg|e c k Hw Hi Hh Hc|h c r Hw Hi Hh Hr Hc|h c pt Hw Hi Hh Hc].
  - repeat split; auto. intros A B. congruence.
  - (* spent: only the Noise counter moved *)
    assert (Hu : usable (spent s n) = usable s) by reflexivity.
    split.
    { unfold gate_inv. split; [exact Hst|]. split; [exact Hbf|]. split; [exact Hg|exact Hr2]. }
    repeat split; auto. intros A B. rewrite Hu in B. congruence.
  - (* InitHello accepted: hsIndex 1, not yet usable *)
    assert (Hu : usable s = false) by (rewrite Hus, Hi, Hh; reflexivity).
    cbn zeta. set (s1 := upd s 1 2 _ _ _ _ _ _ _).
    assert (Hi1 : x_init s1 = false) by exact Hi.
    assert (Hu1 : usable s1 = false) by (unfold usable, xcan_send, xcan_receive; rewrite Hi1; reflexivity).
    split.
    { unfold gate_inv, stage_ok, binding_fresh. rewrite Hi1, Hu1.
      split; [right; now left|]. split; [discriminate|]. split; [discriminate|]. intros _ _. eexists _, _. reflexivity. }
    split; [rewrite Hi1, Hi; reflexivity|]. split; [reflexivity|]. split; [reflexivity|].
    split; [intros A; congruence|intros _ B; congruence].
  - (* RespHello accepted: usable, the responder's signature over cb1 verified *)
    assert (Hu : usable s = false) by (rewrite Hus, Hi, Hh; reflexivity).
    cbn zeta. set (s1 := upd s 2 2 _ _ _ _ _ _ _).
    assert (Hi1 : x_init s1 = true) by exact Hi.
    assert (Hu1 : usable s1 = true) by (unfold usable, xcan_send, xcan_receive; rewrite Hi1; reflexivity).
    assert (Hbf1 : binding_fresh s1) by (unfold binding_fresh in *; rewrite Hi1; rewrite Hi in Hbf; exact Hbf).
    split.
    { unfold gate_inv, stage_ok. rewrite Hi1.
      split; [right; now left|]. split; [exact Hbf1|].
      split; [intros _; exists k; split; [reflexivity|unfold binding; rewrite Hi1; reflexivity]|discriminate]. }
    split; [rewrite Hi1, Hi; reflexivity|]. split; [reflexivity|]. split; [reflexivity|].
    split; [intros A; congruence|].
    intros _ _. exists k. split; [reflexivity|]. split; [|exact Hbf1].
    subst w c. unfold binding. rewrite Hi1. reflexivity.
  - (* InitDone accepted: usable, the initiator's signature over cb2 verified *)
    assert (Hu : usable s = false) by (rewrite Hus, Hi, Hh; reflexivity).
    set (s1 := upd s 3 _ _ _ _ _ _ _ _).
    assert (Hi1 : x_init s1 = false) by exact Hi.
    assert (Hu1 : usable s1 = true) by (unfold usable, xcan_send, xcan_receive; rewrite Hi1; reflexivity).
    destruct (Hr2 Hi ltac:(lia)) as (cb1 & cc & Hcb2).
    assert (Hbf1 : binding_fresh s1) by (unfold binding_fresh; rewrite Hi1; intros _; exists cb1, cc; exact Hcb2).
    split.
    { unfold gate_inv, stage_ok. rewrite Hi1.
      split; [right; right; now left|]. split; [exact Hbf1|].
      split; [intros _; exists r; split; [reflexivity|unfold binding; rewrite Hi1; reflexivity]|].
      intros _ _. exists cb1, cc. exact Hcb2. }
    split; [rewrite Hi1, Hi; reflexivity|]. split; [reflexivity|]. split; [reflexivity|].
    split; [intros A; congruence|].
    intros _ _. exists r. split; [reflexivity|]. split; [|exact Hbf1].
    subst w c. unfold binding. rewrite Hi1. reflexivity.
  - (* RespDone accepted: already usable since RespHello *)
    assert (Hu : usable s = true) by (rewrite Hus, Hi, Hh; reflexivity).
    destruct (Hg Hu) as (r & Hr & Hv).
    set (s1 := upd s 4 _ _ _ _ _ _ _ _).
    assert (Hi1 : x_init s1 = true) by exact Hi.
    assert (Hu1 : usable s1 = true) by (unfold usable, xcan_send, xcan_receive; rewrite Hi1; reflexivity).
    assert (Hb1 : binding s1 = binding s) by (unfold binding; rewrite Hi1, Hi; reflexivity).
    split.
    { unfold gate_inv, stage_ok. rewrite Hi1.
      split; [right; right; now left|].
      split; [unfold binding_fresh in *; rewrite Hi1; rewrite Hi in Hbf; exact Hbf|].
      split; [intros _; exists r; split; [exact Hr|rewrite Hb1; exact Hv]|discriminate]. }
    split; [rewrite Hi1, Hi; reflexivity|]. split; [reflexivity|]. split; [reflexivity|].
    split; [intros _; split; [reflexivity|split; [exact Hb1|exact Hu1]]|intros A; congruence].
Qed.

(* ---------- whole-session steps ---------- *)
Definition sender_inv (s : ssess) : Prop :=
  (xcan_send s = true -> 16 <= x_nonce s) /\
  (forall c, memN c (x_seen s) = true -> c <= x_last s).

Lemma sender_new i me e ts : sender_inv (new_ssess i me e ts).
Proof. unfold sender_inv, xcan_send, new_ssess. destruct i; cbn; split; discriminate. Qed.

Lemma effect_sender s w s' okb : gate_inv s -> sender_inv s -> hs_effect s w s' okb -> sender_inv s'.
Proof.
  intros (Hst & _) [Hn Hs] He. unfold stage_ok in Hst.
  destruct He as [okb|n|e ts kc sg k Hw Hi Hh Hkc Hsg|e c k Hw Hi Hh Hc|h c r Hw Hi Hh Hr Hc|h c pt Hw Hi Hh Hc];
    unfold sender_inv, xcan_send, spent, upd in *; cbn; try rewrite Hi in *; cbn; split; auto; try discriminate;
    unfold NONCE_POST_HANDSHAKE; intros; lia.
Qed.

Inductive input := InDeliver (w : wire) | InSend (pt : term).

(* one API call on a session: new state and what came out (a wire for Send/replies, an outcome for Deliver) *)
Definition sstep (s : ssess) (i : input) : result (ssess * option xoutcome * option wire) :=
  match i with
  | InDeliver w =>
      match xdeliver s w with
      | Ok (s', o) => Ok (s', Some o, match o with XReply r => r | _ => None end)
      | Err e => Err e | Panic p => Panic p
      end
  | InSend pt =>
      match xsend s pt with
      | Some (s', w) => Ok (s', None, Some w)
      | None => Ok (s, None, None)
      end
  end.

Lemma xvalidate_spec s c s1 :
  (forall c', memN c' (x_seen s) = true -> c' <= x_last s) ->
  xvalidate s c = Some s1 ->
  memN c (x_seen s) = false /\ x_seen s1 = c :: x_seen s /\ c <= x_last s1 /\ x_last s <= x_last s1 /\
  x_init s1 = x_init s /\ x_me s1 = x_me s /\ x_eph s1 = x_eph s /\ x_hs s1 = x_hs s /\ x_noise s1 = x_noise s /\
  x_peer s1 = x_peer s /\ x_remote s1 = x_remote s /\ x_cb1 s1 = x_cb1 s /\ x_cb2 s1 = x_cb2 s /\
  x_cache s1 = x_cache s /\ x_nonce s1 = x_nonce s /\ x_verified s1 = x_verified s.
Proof.
  intros Hseen. unfold xvalidate. destruct (MAX_NONCE <=? c); [discriminate|].
  destruct (N.ltb_spec (x_last s) c) as [Hlt|Hge].
  - intros H; injection H as <-. cbn.
    assert (Hm : memN c (x_seen s) = false).
    { destruct (memN c (x_seen s)) eqn:E; [|reflexivity]. specialize (Hseen c E). lia. }
    repeat split; auto; lia.
  - destruct (WINDOW <? x_last s - c); [discriminate|]. destruct (memN c (x_seen s)) eqn:E; [discriminate|].
    intros H; injection H as <-. cbn. repeat split; auto; lia.
Qed.

Ltac same_state Hg Hs :=
  split; [exact Hg|]; split; [exact Hs|]; split; [reflexivity|]; split; [reflexivity|]; split; [reflexivity|];
  split; [let A := fresh in intros A; split; [reflexivity|split; [reflexivity|exact A]]|];
  split; [let A := fresh in let B := fresh in intros A B; congruence|];
  split; [let pt0 := fresh in let E := fresh in intros pt0 E; discriminate|let c0 := fresh in let Hm := fresh in intros c0 Hm; exact Hm].

(* every API call keeps both invariants; application data is only ever handed out by a usable
   session, and a counter is accepted at most once *)
Lemma sstep_inv s i s' o w :
  gate_inv s -> sender_inv s -> sstep s i = Ok (s', o, w) ->
  gate_inv s' /\ sender_inv s' /\ x_init s' = x_init s /\ x_eph s' = x_eph s /\ x_me s' = x_me s /\
  (usable s = true -> x_remote s' = x_remote s /\ binding s' = binding s /\ usable s' = true) /\
  (usable s = false -> usable s' = true -> exists wi r, i = InDeliver wi /\
     x_remote s' = Some r /\ presents wi (TSig r P_CB (binding s')) /\ binding_fresh s') /\
  (forall pt, o = Some (XApp pt) -> usable s = true /\
     exists wi h key, i = InDeliver wi /\ wi = WC h (TAead key h pt) /\ key = kin s /\ 4 <= h /\
       memN h (x_seen s) = false /\ memN h (x_seen s') = true) /\
  (forall c, memN c (x_seen s) = true -> memN c (x_seen s') = true).
Proof.
  intros Hg Hs Hstep. destruct i as [wi|pt]; cbn [sstep] in Hstep.
  - destruct (xdeliver s wi) as [[s1 o1]|e|p] eqn:Ed; try discriminate. injection Hstep as <- <- <-.
    unfold xdeliver in Ed. destruct (MAX_NONCE <=? x_nonce s).
    { injection Ed as <- <-. same_state Hg Hs. }
    destruct (wire_nonce wi) as [n|] eqn:En.
    2:{ injection Ed as <- <-. same_state Hg Hs. }
    destruct (N.ltb_spec n 4) as [Hn4|Hn4].
    + (* handshake range *)
      destruct (xread_handshake s wi) as [s2 okb] eqn:Er. apply read_handshake_effect in Er.
      destruct (effect_gate s wi s2 okb Hg Er) as (G1 & I1 & E1 & M1 & U1 & T1).
      pose proof (effect_sender s wi s2 okb Hg Hs Er) as S1.
      assert (Hseen : forall c, memN c (x_seen s) = true -> memN c (x_seen s2) = true).
      { destruct Er; cbn; auto. }
      destruct okb.
      * destruct (xwrite_handshake s2) eqn:Ew; try discriminate. injection Ed as <- <-.
        split; [exact G1|]. split; [exact S1|]. split; [exact I1|]. split; [exact E1|]. split; [exact M1|].
        split; [exact U1|]. split; [intros A B; destruct (T1 A B) as (r & R1 & R2 & R3); exists wi, r; auto|].
        split; [intros pt E; discriminate|exact Hseen].
      * injection Ed as <- <-.
        split; [exact G1|]. split; [exact S1|]. split; [exact I1|]. split; [exact E1|]. split; [exact M1|].
        split; [exact U1|]. split; [intros A B; destruct (T1 A B) as (r & R1 & R2 & R3); exists wi, r; auto|].
        split; [intros pt E; discriminate|exact Hseen].
    + (* data *)
      destruct (xcan_receive s) eqn:Ecr; cbn [negb] in Ed.
      2:{ injection Ed as <- <-. same_state Hg Hs. }
      assert (Hu : usable s = true) by (unfold usable; rewrite Ecr; apply Bool.orb_true_r).
      destruct wi as [| |h c|]; try (injection Ed as <- <-; same_state Hg Hs).
      cbn in En. injection En as ->.
      destruct (as_aead c) as [[[key ctr] pt]|] eqn:Ea.
      2:{ injection Ed as <- <-. same_state Hg Hs. }
      destruct (term_eqb key (kin s) && (ctr =? n)) eqn:Ek.
      2:{ injection Ed as <- <-. same_state Hg Hs. }
      apply andb_prop in Ek as [Ek Ec]. apply term_eqb_eq in Ek. apply N.eqb_eq in Ec. subst key ctr.
      apply as_aead_some in Ea. subst c.
      destruct (xvalidate s n) as [s2|] eqn:Ev.
      2:{ injection Ed as <- <-. same_state Hg Hs. }
      destruct Hs as [Hsn Hss].
      destruct (xvalidate_spec s n s2 Hss Ev) as (V0 & V1 & V2 & V3 & Vi & Vm & Ve & Vh & Vn & Vp & Vr & Vc1 & Vc2 & Vca & Vno & Vv).
      injection Ed as <- <-.
      destruct Hg as (Hst & Hbf & Hgv & Hr2).
      set (s3 := mkSS _ _ _ 8 _ _ _ _ _ _ _ _ _ _).
      assert (Hi3 : x_init s3 = x_init s) by exact Vi.
      assert (Hu3 : usable s3 = true) by (unfold usable, xcan_send, xcan_receive; cbn; destruct (x_init s2); reflexivity).
      assert (Hb3 : binding s3 = binding s) by (unfold binding; cbn; rewrite Vi, Vc1, Vc2; reflexivity).
      destruct (Hgv Hu) as (r & Hr & Hvv).
      split.
      { unfold gate_inv. split; [unfold stage_ok; cbn; destruct (x_init s2); right; right; now right|].
        split.
        { unfold binding_fresh in *. cbn. rewrite Vi. destruct (x_init s).
          - rewrite Vc1, Ve. exact Hbf.
          - intros _. rewrite Vc2, Ve. apply Hbf. exact Hu. }
        split; [intros _; exists r; split; [cbn; rewrite Vr; exact Hr|rewrite Hb3; cbn; rewrite Vv; exact Hvv]|].
        intros Hi0 _. cbn. rewrite Vc2, Ve. cbn in Hi0. rewrite Vi in Hi0.
        unfold binding_fresh in Hbf. rewrite Hi0 in Hbf. exact (Hbf Hu). }
      split.
      { unfold sender_inv. cbn. split.
        - intros _. destruct (x_init s2 && (x_hs s2 =? 2)) eqn:E2; [unfold NONCE_POST_HANDSHAKE; lia|].
          rewrite Vno. apply Hsn. unfold xcan_send. rewrite <- Vi, <- Vh.
          unfold stage_ok in Hst. rewrite <- Vi, <- Vh in Hst. unfold xcan_receive in Ecr. rewrite <- Vh in Ecr.
          destruct (x_init s2); cbn in E2.
          + destruct (N.eqb_spec (x_hs s2) 2); [discriminate|]. destruct (N.leb_spec 3 (x_hs s2)); [reflexivity|lia].
          + destruct (N.leb_spec 2 (x_hs s2)); [reflexivity|lia].
        - intros c0. rewrite V1. cbn [memN]. intros Hm. apply Bool.orb_true_iff in Hm as [Hm|Hm].
          + apply N.eqb_eq in Hm. subst c0. exact V2.
          + specialize (Hss c0 Hm). lia. }
      split; [exact Vi|]. split; [exact Ve|]. split; [exact Vm|].
      split; [intros _; split; [cbn; exact Vr|split; [exact Hb3|exact Hu3]]|].
      split; [intros A; congruence|].
      split.
      { intros pt0 E. injection E as <-. split; [exact Hu|].
        exists (WC n (TAead (kin s) n pt)), n, (kin s). repeat split; auto.
        cbn [x_seen s3]. rewrite V1. cbn [memN]. now rewrite N.eqb_refl. }
      intros c0 Hm. cbn [x_seen s3]. rewrite V1. cbn [memN]. rewrite Hm. apply Bool.orb_true_r.
  - (* Send *)
    unfold xsend in Hstep. destruct (MAX_NONCE <=? x_nonce s).
    { injection Hstep as <- <- <-. same_state Hg Hs. }
    destruct (xcan_send s) eqn:Ecs; cbn [negb] in Hstep.
    2:{ injection Hstep as <- <- <-. same_state Hg Hs. }
    injection Hstep as <- <- <-.
    destruct Hg as (Hst & Hbf & Hgv & Hr2). destruct Hs as [Hsn Hss].
    set (s1 := mkSS _ _ _ _ _ _ _ _ _ _ _ _ _ _).
    assert (Hu1 : usable s1 = usable s) by reflexivity.
    assert (Hb1 : binding s1 = binding s) by reflexivity.
    split; [unfold gate_inv; split; [exact Hst|split; [exact Hbf|split; [exact Hgv|exact Hr2]]]|].
    split; [unfold sender_inv, xcan_send in *; cbn; split; [intros A; specialize (Hsn A); lia|exact Hss]|].
    split; [reflexivity|]. split; [reflexivity|]. split; [reflexivity|].
    split; [intros A; split; [reflexivity|split; [exact Hb1|rewrite Hu1; exact A]]|].
    split; [intros A B; rewrite Hu1 in B; congruence|].
    split; [intros pt0 E; discriminate|intros c0 Hm; exact Hm].
Qed.

(* C01: faithfulness composes.  A layer is sound when, fed only genuine wire
   messages of the payloads in its told-set (any order, duplicates, omissions),
   it hands up only (source, payload) pairs of that told-set.  Soundness of the
   layers of a stack gives soundness of the stack. *)
From P2PV Require Import Lib.Base Lib.Varint Model.Mux Model.Frag Model.Layers
  Proofs.BaseP Proofs.MuxP Proofs.FragP.
Open Scope N_scope.

Definition told := bytes -> bytes -> Prop.       (* source -> payload -> was told *)

Record slayer := mkSLayer {
  sl :> rlayer;
  led : Type;                                    (* the layer's bookkeeping of what was sent through it *)
  led_ok : led -> told -> Prop;                  (* the bookkeeping only contains told payloads *)
  wire_ok : led -> bytes -> bytes -> Prop;       (* source -> wire: a genuine wire message *)
  sl_sound : forall a (L : told) inp, led_ok a L ->
      Forall (fun sw => wire_ok a (fst sw) (snd sw)) inp ->
      forall src p, In (src, p) (deliveries sl inp) -> L src p }.

(* ---- composition ---- *)
Lemma deliveries_compose (up lo : rlayer) : forall inp su slo,
  deliveries_from (compose up lo) (su, slo) inp =
  deliveries_from up su (deliveries_from lo slo inp).
Proof.
  induction inp as [|[src w] t IH]; intros su slo; [reflexivity|].
  cbn [deliveries_from compose rrecv fst snd].
  destruct (rrecv lo slo src w) as [l' [m|]] eqn:El.
  - cbn [deliveries_from]. destruct (rrecv up su src m) as [u' [d|]] eqn:Eu; cbn [fst snd]; now rewrite IH.
  - apply IH.
Qed.

Lemma deliveries_in_forall (R : rlayer) (P : bytes -> bytes -> Prop) inp :
  (forall src p, In (src, p) (deliveries R inp) -> P src p) ->
  Forall (fun sw => P (fst sw) (snd sw)) (deliveries R inp).
Proof. intros H. apply Forall_forall. intros [s p] Hin. now apply H. Qed.

Definition compose_s (up lo : slayer) : slayer.
Proof.
  refine (mkSLayer (compose up lo) (led up * led lo)
            (fun a L => led_ok up (fst a) L /\ led_ok lo (snd a) (wire_ok up (fst a)))
            (fun a => wire_ok lo (snd a)) _).
  intros [a b] L inp [Hu Hl] Hall src p Hin. cbn [fst snd] in *.
  unfold deliveries in Hin. cbn [rinit compose] in Hin. rewrite deliveries_compose in Hin.
  eapply (sl_sound up a L _ Hu); [|exact Hin].
  apply (deliveries_in_forall lo). intros s w Hw. exact (sl_sound lo b _ inp Hl Hall s w Hw).
Defined.

(* ---- instances ---- *)

(* multiplexer channel c: genuine wires are frames of told payloads on c, or
   frames of anything on other valid channels (other users of the same mux) *)
Definition mux_wire (k : kind) (c : chan) (a : told) (src w : bytes) : Prop :=
  (exists x, a src x /\ w = frame k c x) \/
  (exists c' x, c' <> c /\ valid_chan k c' = true /\ w = frame k c' x).

Lemma mux_deliveries k c (a : told) : valid_chan k c = true -> forall inp,
  Forall (fun sw => mux_wire k c a (fst sw) (snd sw)) inp ->
  forall src p, In (src, p) (deliveries (mux_rlayer k c) inp) -> a src p.
Proof.
  intros Hc. unfold deliveries. cbn [rinit mux_rlayer].
  induction inp as [|[s w] t IH]; intros Hall src p Hin; [contradiction|].
  inversion Hall as [|? ? Hw Ht]; subst. cbn [deliveries_from rrecv mux_rlayer fst snd] in *.
  destruct Hw as [(x & Hx & ->)|(c' & x & Hne & Hc' & ->)].
  - rewrite (roundtrip k c x Hc) in Hin. destruct (chan_eqb_spec c c) as [_|N]; [|congruence].
    destruct Hin as [E|Hin]; [injection E as <- <-; exact Hx|now apply IH].
  - rewrite (roundtrip k c' x Hc') in Hin. destruct (chan_eqb_spec c c') as [E|_]; [congruence|]. now apply IH.
Qed.

Definition mux_slayer (k : kind) (c : chan) (Hc : valid_chan k c = true) : slayer.
Proof.
  refine (mkSLayer (mux_rlayer k c) told (fun a L => forall s p, a s p -> L s p) (mux_wire k c) _).
  intros a L inp Ha Hall src p Hin. apply Ha. eapply mux_deliveries; eauto.
Defined.

(* fragswarm: bookkeeping is the list of sent messages (source, id, chunks) with
   distinct (source, id); genuine wires are their fragments from their source *)
Lemma frag_deliveries (S : list sent) : NoDup (map s_key S) -> forall inp st seen,
  inv S seen st -> Forall (fun sw => genuine S (fst sw) (snd sw)) inp ->
  forall src p, In (src, p) (deliveries_from frag_rlayer st inp) ->
  exists m, In m S /\ s_src m = src /\ s_payload m = p.
Proof.
  intros Hnd. induction inp as [|[s w] t IH]; intros st seen Hinv Hall src p Hin; [contradiction|].
  inversion Hall as [|? ? Hw Ht]; subst. cbn [fst snd] in Hw.
  destruct (frag_recv_genuine S seen st s w Hnd Hinv Hw) as (st' & d & Hr & Hinv' & Hd).
  cbn [deliveries_from rrecv frag_rlayer] in Hin. rewrite Hr in Hin. destruct d as [p0|].
  - destruct Hin as [E|Hin]; [|eapply IH; eauto].
    injection E as <- <-. destruct (Hd p0 eq_refl) as (m & A & B & C & _). exists m. auto.
  - eapply IH; eauto.
Qed.

Definition frag_slayer : slayer.
Proof.
  refine (mkSLayer frag_rlayer (list sent)
            (fun S L => NoDup (map s_key S) /\ forall m, In m S -> L (s_src m) (s_payload m))
            genuine _).
  intros S L inp [Hnd HL] Hall src p Hin.
  destruct (frag_deliveries S Hnd inp [] [] (inv_init S) Hall src p Hin) as (m & A & <- & <-). now apply HL.
Defined.

Definition id_slayer : slayer.
Proof.
  refine (mkSLayer id_rlayer told (fun a L => forall s p, a s p -> L s p) (fun a => a) _).
  intros a L inp Ha Hall src p Hin. apply Ha. unfold deliveries in Hin. cbn [rinit id_rlayer] in Hin.
  induction inp as [|[s w] t IH]; [contradiction|]. inversion Hall; subst.
  cbn [deliveries_from rrecv id_rlayer] in Hin. destruct Hin as [E|Hin]; [now injection E as <- <-|now apply IH].
Defined.

(* ---- whole stacks ---- *)
Fixpoint stack_slayer (ls : list slayer) : slayer :=
  match ls with
  | [] => id_slayer
  | l :: below => compose_s l (stack_slayer below)
  end.

Lemma stack_slayer_rlayer ls : sl (stack_slayer ls) = stack_rlayer (map sl ls).
Proof. induction ls as [|l t IH]; [reflexivity|]. cbn [stack_slayer stack_rlayer map compose_s sl]. now rewrite IH. Qed.

Theorem stack_faithful (ls : list slayer) : forall a (L : told) inp,
  led_ok (stack_slayer ls) a L ->
  Forall (fun sw => wire_ok (stack_slayer ls) a (fst sw) (snd sw)) inp ->
  forall src p, In (src, p) (deliveries (stack_rlayer (map sl ls)) inp) -> L src p.
Proof. intros a L inp Ha Hall src p Hin. rewrite <- stack_slayer_rlayer in Hin. eapply sl_sound; eauto. Qed.

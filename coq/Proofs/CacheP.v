(* C18: the cache is a faithful bounded map that sheds the farthest first. *)
From P2PV Require Import Lib.Base Model.Distance Model.Cache Proofs.BaseP.
From Coq Require Import Lia ZifyBool ZifyN ZifyNat Sorting.Permutation.
Open Scope Z_scope.

(* ---------------- list bookkeeping ---------------- *)
Lemma lenZ_nil {A} : lenZ (@nil A) = 0.
Proof. reflexivity. Qed.
Lemma lenZ_cons {A} (x : A) l : lenZ (x :: l) = lenZ l + 1.
Proof. unfold lenZ. rewrite lenN_cons. lia. Qed.
Lemma lenZ_app {A} (a b : list A) : lenZ (a ++ b) = lenZ a + lenZ b.
Proof. unfold lenZ. rewrite lenN_app. lia. Qed.
Lemma lenZ_nonneg {A} (l : list A) : 0 <= lenZ l.
Proof. unfold lenZ. lia. Qed.
Lemma lenZ_length {A} (l : list A) : lenZ l = Z.of_nat (length l).
Proof. unfold lenZ. rewrite lenN_spec. lia. Qed.

Definition keys (es : list entry) : list bytes := map e_key es.

Lemma b_find_some es k e : b_find es k = Some e -> In e es /\ e_key e = k.
Proof.
  induction es as [|h t IH]; cbn [b_find]; [discriminate|].
  destruct (bytes_eqb_spec (e_key h) k) as [Hk|Hk].
  - intros H; injection H as <-. split; [now left|assumption].
  - intros H. destruct (IH H). split; [now right|assumption].
Qed.

Lemma b_find_none es k : b_find es k = None <-> ~ In k (keys es).
Proof.
  induction es as [|h t IH]; cbn [b_find keys map In]; [tauto|].
  destruct (bytes_eqb_spec (e_key h) k) as [Hk|Hk].
  - split; [discriminate|]. intros H; exfalso; apply H; now left.
  - fold (keys t). rewrite IH. tauto.
Qed.

Lemma b_find_in es e : NoDup (keys es) -> In e es -> b_find es (e_key e) = Some e.
Proof.
  induction es as [|h t IH]; cbn [keys map b_find]; intros Hnd Hin; [contradiction|].
  inversion Hnd as [|? ? Hnot Hnd']; subst.
  destruct Hin as [->|Hin].
  - now rewrite bytes_eqb_refl.
  - destruct (bytes_eqb_spec (e_key h) (e_key e)) as [Hk|Hk].
    + exfalso. apply Hnot. rewrite Hk. now apply in_map.
    + now apply IH.
Qed.

Lemma b_replace_find es n k :
  b_find (b_replace es n) k = if bytes_eqb (e_key n) k then Some n else b_find es k.
Proof.
  induction es as [|h t IH]; cbn [b_replace b_find].
  - reflexivity.
  - destruct (bytes_eqb_spec (e_key h) (e_key n)) as [Hhn|Hhn]; cbn [b_find].
    + rewrite Hhn. destruct (bytes_eqb (e_key n) k); reflexivity.
    + destruct (bytes_eqb_spec (e_key h) k) as [Hk|Hk].
      * destruct (bytes_eqb_spec (e_key n) k); [congruence|reflexivity].
      * exact IH.
Qed.

Lemma b_replace_len es n :
  lenZ (b_replace es n) = match b_find es (e_key n) with Some _ => lenZ es | None => lenZ es + 1 end.
Proof.
  induction es as [|h t IH]; cbn [b_replace b_find]; [reflexivity|].
  destruct (bytes_eqb (e_key h) (e_key n)).
  - rewrite !lenZ_cons. reflexivity.
  - rewrite !lenZ_cons, IH. destruct (b_find t (e_key n)); lia.
Qed.

Lemma b_replace_keys es n :
  keys (b_replace es n) = match b_find es (e_key n) with Some _ => keys es | None => keys es ++ [e_key n] end.
Proof.
  induction es as [|h t IH]; cbn [b_replace b_find keys map]; [reflexivity|].
  destruct (bytes_eqb_spec (e_key h) (e_key n)) as [Hk|Hk]; cbn [keys map].
  - now rewrite Hk.
  - fold (keys (b_replace t n)). fold (keys t). rewrite IH. destruct (b_find t (e_key n)); reflexivity.
Qed.

Lemma nodup_snoc {A} (l : list A) x : NoDup l -> ~ In x l -> NoDup (l ++ [x]).
Proof.
  induction l as [|h t IH]; intros Hnd Hx; cbn [app].
  - constructor; [intros []|constructor].
  - inversion Hnd; subst. constructor.
    + intros Hin. apply in_app_or in Hin as [Hin|[<-|[]]]; [contradiction|]. apply Hx. now left.
    + apply IH; [assumption|]. intros Hin. apply Hx. now right.
Qed.

Lemma b_replace_nodup es n : NoDup (keys es) -> NoDup (keys (b_replace es n)).
Proof.
  intros H. rewrite b_replace_keys. destruct (b_find es (e_key n)) eqn:E; [assumption|].
  apply b_find_none in E. now apply nodup_snoc.
Qed.

Lemma b_replace_in es n e : NoDup (keys es) ->
  In e (b_replace es n) -> e = n \/ (In e es /\ e_key e <> e_key n).
Proof.
  induction es as [|h t IH]; cbn [b_replace keys map]; intros Hnd.
  - intros [<-|[]]. now left.
  - inversion Hnd as [|? ? Hnot Hnd']; subst.
    destruct (bytes_eqb_spec (e_key h) (e_key n)) as [Hk|Hk].
    + intros [<-|Hin]; [now left|]. right. split; [now right|].
      intros Heq. apply Hnot. rewrite Hk, <- Heq. now apply in_map.
    + intros [<-|Hin]; [right; split; [now left|assumption]|].
      destruct (IH Hnd' Hin) as [->|[Hi Hne]]; [now left|]. right. split; [now right|assumption].
Qed.

Lemma b_remove_find es k k' : NoDup (keys es) ->
  b_find (b_remove es k) k' = if bytes_eqb k k' then None else b_find es k'.
Proof.
  induction es as [|h t IH]; cbn [b_remove b_find keys map]; intros Hnd.
  - destruct (bytes_eqb k k'); reflexivity.
  - inversion Hnd as [|? ? Hnot Hnd']; subst.
    destruct (bytes_eqb_spec (e_key h) k) as [Hk|Hk].
    + destruct (bytes_eqb_spec k k') as [Hkk|Hkk].
      * apply b_find_none. rewrite <- Hkk, <- Hk. exact Hnot.
      * destruct (bytes_eqb_spec (e_key h) k'); [congruence|reflexivity].
    + cbn [b_find]. destruct (bytes_eqb_spec (e_key h) k') as [Hk'|Hk'].
      * destruct (bytes_eqb_spec k k'); [congruence|reflexivity].
      * now apply IH.
Qed.

Lemma b_remove_len es k :
  lenZ (b_remove es k) = match b_find es k with Some _ => lenZ es - 1 | None => lenZ es end.
Proof.
  induction es as [|h t IH]; cbn [b_remove b_find]; [reflexivity|].
  destruct (bytes_eqb (e_key h) k).
  - rewrite lenZ_cons. lia.
  - rewrite !lenZ_cons, IH. destruct (b_find t k); lia.
Qed.

Lemma b_remove_in es k e : In e (b_remove es k) -> In e es.
Proof.
  induction es as [|h t IH]; cbn [b_remove]; [contradiction|].
  destruct (bytes_eqb (e_key h) k); [now right|]. intros [<-|H]; [now left|right; auto].
Qed.

Lemma b_remove_keys_nodup es k : NoDup (keys es) -> NoDup (keys (b_remove es k)).
Proof.
  induction es as [|h t IH]; cbn [b_remove keys map]; intros Hnd; [constructor|].
  inversion Hnd as [|? ? Hnot Hnd']; subst.
  destruct (bytes_eqb (e_key h) k); [assumption|]. cbn [keys map]. constructor.
  - intros Hin. apply Hnot. apply in_map_iff in Hin as (e & He & Hin). apply in_map_iff. exists e.
    split; [assumption|]. eapply b_remove_in; eauto.
  - now apply IH.
Qed.

Lemma filter_keys_nodup (f : entry -> bool) es : NoDup (keys es) -> NoDup (keys (filter f es)).
Proof.
  induction es as [|h t IH]; cbn [filter keys map]; intros Hnd; [constructor|].
  inversion Hnd as [|? ? Hnot Hnd']; subst. destruct (f h); [|now apply IH].
  cbn [keys map]. constructor; [|now apply IH].
  intros Hin. apply Hnot. apply in_map_iff in Hin as (e & He & Hin). apply in_map_iff. exists e.
  split; [assumption|]. now apply filter_In in Hin as [? _].
Qed.

Lemma filter_find (f : entry -> bool) es k : NoDup (keys es) ->
  b_find (filter f es) k = match b_find es k with
                           | Some e => if f e then Some e else None
                           | None => None end.
Proof.
  induction es as [|h t IH]; cbn [filter b_find keys map]; intros Hnd; [reflexivity|].
  inversion Hnd as [|? ? Hnot Hnd']; subst.
  destruct (bytes_eqb_spec (e_key h) k) as [Hk|Hk].
  - destruct (f h) eqn:Hf; cbn [b_find].
    + now rewrite Hk, bytes_eqb_refl.
    + rewrite IH by assumption.
      assert (b_find t k = None) as -> by (apply b_find_none; now rewrite <- Hk). reflexivity.
  - destruct (f h); cbn [b_find]; [|now apply IH].
    destruct (bytes_eqb_spec (e_key h) k); [contradiction|now apply IH].
Qed.

(* ---------------- buckets inside a list ---------------- *)
Lemma set_nth_nth {A} (l : list A) n x m :
  nth_error (set_nth l n x) m = if Nat.eqb m n then (match nth_error l n with Some _ => Some x | None => None end)
                                else nth_error l m.
Proof.
  revert n m; induction l as [|h t IH]; intros n m; cbn [set_nth].
  - destruct (Nat.eqb m n); destruct n, m; reflexivity.
  - destruct n as [|n], m as [|m]; cbn [nth_error Nat.eqb]; try reflexivity. apply IH.
Qed.

Lemma set_nth_length {A} (l : list A) n x : length (set_nth l n x) = length l.
Proof. revert n; induction l as [|h t IH]; intros [|n]; cbn [set_nth length]; auto. Qed.

Lemma contents_set_nth bs n b b' : nth_error bs n = Some b ->
  lenZ (flat_map b_ents (set_nth bs n b')) = lenZ (flat_map b_ents bs) - lenZ (b_ents b) + lenZ (b_ents b').
Proof.
  revert n; induction bs as [|h t IH]; intros [|n] H; cbn [nth_error] in H; try discriminate.
  - injection H as ->. cbn [set_nth flat_map]. rewrite !lenZ_app. lia.
  - cbn [set_nth flat_map]. rewrite !lenZ_app, (IH n H). lia.
Qed.

Lemma flat_map_repeat_empty n : flat_map b_ents (repeat empty_bucket n) = [].
Proof. induction n; cbn; auto. Qed.

Lemma contents_extend bs n : flat_map b_ents (extend bs n) = flat_map b_ents bs.
Proof. unfold extend. rewrite flat_map_app, flat_map_repeat_empty, app_nil_r. reflexivity. Qed.

Lemma nth_extend bs n m :
  nth_error (extend bs n) m =
    match nth_error bs m with
    | Some b => Some b
    | None => if Nat.leb m n then Some empty_bucket else None
    end.
Proof.
  unfold extend. destruct (nth_error bs m) eqn:E.
  - rewrite nth_error_app1; [assumption|]. apply nth_error_Some. congruence.
  - apply nth_error_None in E. rewrite nth_error_app2 by assumption.
    destruct (Nat.leb_spec m n).
    + rewrite nth_error_repeat; [reflexivity|lia].
    + apply nth_error_None. rewrite repeat_length. lia.
Qed.

(* ---------------- the invariant ---------------- *)
Definition minexp_ok (b : bucket) : Prop :=
  (b_minexp b = 0 -> forall e, In e (b_ents b) -> e_exp e = 0) /\
  (b_minexp b <> 0 -> forall e, In e (b_ents b) -> e_exp e <> 0 -> b_minexp b <= e_exp e).

Definition bucket_ok (L : bytes) (n : nat) (b : bucket) : Prop :=
  NoDup (keys (b_ents b)) /\
  (forall e, In e (b_ents b) -> N.to_nat (bucket_index L (e_key e)) = n) /\
  minexp_ok b.

Definition buckets_ok (L : bytes) (bs : list bucket) : Prop :=
  forall n b, nth_error bs n = Some b -> bucket_ok L n b.

Definition inv (c : cache) : Prop :=
  0 <= c_minpb c /\ 0 <= c_max c /\
  c_count c = lenZ (contents c) /\ c_count c <= c_max c /\
  buckets_ok (c_locus c) (c_buckets c).

Lemma empty_bucket_ok L n : bucket_ok L n empty_bucket.
Proof. repeat split; cbn; try constructor; try contradiction; intros; contradiction. Qed.

Lemma buckets_ok_extend L bs n : buckets_ok L bs -> buckets_ok L (extend bs n).
Proof.
  intros H m b Hm. rewrite nth_extend in Hm. destruct (nth_error bs m) eqn:E.
  - injection Hm as <-. now apply H.
  - destruct (Nat.leb m n); [|discriminate]. injection Hm as <-. apply empty_bucket_ok.
Qed.

Lemma buckets_ok_set L bs n b' : buckets_ok L bs -> bucket_ok L n b' -> buckets_ok L (set_nth bs n b').
Proof.
  intros H Hb m b Hm. rewrite set_nth_nth in Hm. destruct (Nat.eqb_spec m n) as [->|Hne].
  - destruct (nth_error bs n); [|discriminate]. injection Hm as <-. exact Hb.
  - now apply H.
Qed.

Lemma new_cache_inv L mx mn c : new_cache L mx mn = Ok c -> inv c.
Proof.
  unfold new_cache. destruct (Z.ltb_spec mx 0) as [?|Hmx]; [discriminate|].
  destruct (Z.ltb_spec mn 0) as [?|Hmn]; [discriminate|].
  destruct (mx <? mn * 8 * lenZ L); [discriminate|].
  intros Heq; injection Heq as <-. unfold inv, contents; cbn.
  split; [lia|]. split; [lia|]. split; [reflexivity|]. split; [lia|].
  intros m b Hm. destruct m; discriminate.
Qed.

(* entries of a well-formed cache are found by lookup, and vice versa *)
Lemma lookup_in c k e : inv c -> lookup c k = Some e -> In e (contents c) /\ e_key e = k.
Proof.
  intros _ H. unfold lookup, get_bucket in H. destruct (nth_error (c_buckets c) (bidx c k)) as [b|] eqn:E; [|discriminate].
  apply b_find_some in H as [Hin Hk]. split; [|assumption].
  unfold contents. apply in_flat_map. exists b. split; [eapply nth_error_In; eauto|assumption].
Qed.

Lemma in_lookup c e : inv c -> In e (contents c) -> lookup c (e_key e) = Some e.
Proof.
  intros (_ & _ & _ & _ & Hb) Hin. unfold contents in Hin. apply in_flat_map in Hin as (b & Hbin & He).
  apply In_nth_error in Hbin as (n & Hn). destruct (Hb n b Hn) as (Hnd & Hidx & _).
  unfold lookup, get_bucket, bidx. rewrite (Hidx e He), Hn. now apply b_find_in.
Qed.

(* The two queue models agree: used by one caller at a time (every Receive's
   callback returns before the next call), the buffer-level model QueueBuf
   behaves exactly like the message-level model Queue.  abs forgets the buffers. *)
From P2PV Require Import Lib.Base Model.Queue Model.QueueBuf Proofs.QueueBufP.
From Coq Require Import Lia.
Open Scope nat_scope.

Definition abs (s : bq) : queue := mkQ (b_cap s) (b_mtu s) (map snd (b_queue s)) (b_closed s).

(* one call of the sequential interface, executed on the buffer-level model *)
Definition bq_call (s : bq) (o : qop) : bq * qout :=
  match o with
  | QDeliver m => match bstep s (BDeliver m) with
                  | Some (s', BWrote _) => (s', QAccepted) | Some (s', _) => (s', QRefused) | None => (s, QRefused) end
  | QReceive => match bstep s BRecvBegin with
                | Some (s1, BGot b m) => match bstep s1 (BRecvEnd b) with Some (s2, _) => (s2, QGot m) | None => (s1, QGot m) end
                | _ => (s, if b_closed s then QErrClosed else QWouldBlock) end
  | QRecvCancelled taken =>
      if taken then
        match bstep s BRecvBegin with
        | Some (s1, BGot b m) => match bstep s1 (BRecvEnd b) with Some (s2, _) => (s2, QGot m) | None => (s1, QGot m) end
        | _ => (s, QCtxErr) end
      else (s, QCtxErr)
  | QPurge => match bstep s BPurge with Some (s', _) => (s', QCount (length (b_queue s))) | None => (s, QCount 0) end
  | QClose => match bstep s BClose with Some (s', _) => (s', QDone) | None => (s, QDone) end
  | QLen => (s, QCount (length (b_queue s)))
  end.

Definition Quiet (s : bq) : Prop := BInv s /\ b_busy s = [].

Lemma quiet_room s : Quiet s -> (b_free s = [] <-> ~ length (b_queue s) < b_cap s).
Proof.
  intros [[_ Len] Hb]. unfold all_bufs in Len. rewrite Hb, app_nil_r, app_length, map_length in Len.
  split.
  - intros E. rewrite E in Len. cbn in Len. lia.
  - intros H. destruct (b_free s); [reflexivity|]. cbn in Len. lia.
Qed.

Lemma recv_pair s b m t : Quiet s -> b_queue s = (b, m) :: t ->
  exists s2, bstep (mkBQ (b_cap s) (b_mtu s) (b_free s) t (b :: b_busy s) (b_closed s)) (BRecvEnd b) = Some (s2, BDone) /\
             s2 = mkBQ (b_cap s) (b_mtu s) (b_free s ++ [b]) t [] (b_closed s).
Proof.
  intros [_ Hb] Eq. rewrite Hb. unfold bstep. cbn [b_busy existsb]. rewrite Nat.eqb_refl. cbn [orb remove_nat].
  rewrite Nat.eqb_refl. eexists. split; reflexivity.
Qed.

Lemma refines_deliver s m : Quiet s ->
  let '(s', r) := bq_call s (QDeliver m) in qstep (abs s) (QDeliver m) = (abs s', r) /\ Quiet s'.
Proof.
  intros Q. pose proof Q as [Hi Hb]. unfold bq_call, qstep, abs. cbn [q_mtu q_closed q_items q_cap]. rewrite map_length.
  destruct (bstep s (BDeliver m)) as [[s' r]|] eqn:E.
  2:{ exfalso. unfold bstep in E. destruct (Nat.ltb _ _); [discriminate|]. destruct (b_closed s); [discriminate|]. destruct (b_free s); discriminate. }
  pose proof (bstep_inv _ _ _ _ Hi E) as Hi'. unfold bstep in E.
  destruct (Nat.ltb (b_mtu s) (length (q_payload m))); [injection E as <- <-; auto|].
  destruct (b_closed s) eqn:Ec; [injection E as <- <-; rewrite Ec; auto|].
  destruct (b_free s) as [|b t] eqn:Ef.
  - injection E as <- <-. apply (quiet_room s Q) in Ef.
    destruct (Nat.ltb_spec (length (b_queue s)) (b_cap s)); [lia|]. rewrite Ec. auto.
  - injection E as <- <-.
    assert (R : length (b_queue s) < b_cap s).
    { destruct (Nat.lt_ge_cases (length (b_queue s)) (b_cap s)) as [L|L]; [exact L|].
      assert (Hf : b_free s = []) by (apply (quiet_room s Q); lia). congruence. }
    destruct (Nat.ltb_spec (length (b_queue s)) (b_cap s)); [|lia].
    cbn [b_cap b_mtu b_queue b_closed]. rewrite map_app. cbn [map snd]. split; [reflexivity|].
    split; [exact Hi'|exact Hb].
Qed.

Lemma refines_take s : Quiet s ->
  match bstep s BRecvBegin with
  | Some (s1, BGot b m) =>
      exists t s2, b_queue s = (b, m) :: t /\ bstep s1 (BRecvEnd b) = Some (s2, BDone) /\
                   abs s2 = mkQ (b_cap s) (b_mtu s) (map snd t) (b_closed s) /\ Quiet s2
  | Some (s1, _) => b_queue s = [] /\ s1 = s
  | None => False
  end.
Proof.
  intros Q. pose proof Q as [Hi Hb]. destruct (bstep s BRecvBegin) as [[s1 r]|] eqn:E; unfold bstep in E.
  - destruct (b_queue s) as [|[b m] t] eqn:Eq; injection E as <- <-; [auto|].
    destruct (recv_pair s b m t Q Eq) as [s2 [E2 ->]]. exists t. eexists. split; [reflexivity|]. split; [exact E2|].
    split; [reflexivity|]. split; [|reflexivity].
    assert (E1 : bstep s BRecvBegin = Some (mkBQ (b_cap s) (b_mtu s) (b_free s) t (b :: b_busy s) (b_closed s), BGot b m))
      by (unfold bstep; rewrite Eq; reflexivity).
    eapply bstep_inv; [eapply bstep_inv; [exact Hi|exact E1]|exact E2].
  - destruct (b_queue s) as [|[b m] t]; discriminate.
Qed.

Theorem bq_call_refines s o : Quiet s ->
  let '(s', r) := bq_call s o in qstep (abs s) o = (abs s', r) /\ Quiet s'.
Proof.
  intros Q. pose proof Q as [Hi Hb]. destruct o as [m| |taken| | |].
  - apply refines_deliver, Q.
  - unfold bq_call. pose proof (refines_take s Q) as T.
    destruct (bstep s BRecvBegin) as [[s1 [b0| |b m| |]]|]; try (destruct T as [Eq ->]; unfold qstep, abs; cbn [q_items q_closed]; rewrite Eq; cbn; auto); [|contradiction].
    destruct T as [t [s2 [Eq [E2 [A Q2]]]]]. rewrite E2. unfold qstep. unfold abs at 1. cbn [q_items]. rewrite Eq. cbn [map snd]. rewrite A. auto.
  - unfold bq_call. destruct taken; [|unfold qstep; auto].
    pose proof (refines_take s Q) as T.
    destruct (bstep s BRecvBegin) as [[s1 [b0| |b m| |]]|]; try (destruct T as [Eq ->]; unfold qstep, abs; cbn [q_items q_closed]; rewrite Eq; cbn; auto); [|contradiction].
    destruct T as [t [s2 [Eq [E2 [A Q2]]]]]. rewrite E2. unfold qstep. unfold abs at 1. cbn [q_items]. rewrite Eq. cbn [map snd]. rewrite A. auto.
  - unfold bq_call. destruct (bstep s BPurge) as [[s' r]|] eqn:E; [|discriminate].
    pose proof (bstep_inv _ _ _ _ Hi E) as Hi'. unfold bstep in E. injection E as <- <-.
    unfold qstep, abs. cbn. rewrite map_length. split; [reflexivity|]. split; [exact Hi'|exact Hb].
  - unfold bq_call. destruct (bstep s BClose) as [[s' r]|] eqn:E; [|discriminate].
    pose proof (bstep_inv _ _ _ _ Hi E) as Hi'. unfold bstep in E. injection E as <- <-.
    unfold qstep, abs. cbn. split; [reflexivity|]. split; [exact Hi'|exact Hb].
  - unfold bq_call, qstep, abs. cbn. rewrite map_length. auto.
Qed.

(* whole histories *)
Fixpoint bq_calls (s : bq) (ops : list qop) : bq * list qout :=
  match ops with
  | [] => (s, [])
  | o :: t => let '(s1, r) := bq_call s o in let '(s2, rs) := bq_calls s1 t in (s2, r :: rs)
  end.

Theorem queue_models_agree ops : forall s, Quiet s -> snd (bq_calls s ops) = snd (qrun (abs s) ops).
Proof.
  induction ops as [|o t IH]; intros s Q; [reflexivity|]. cbn [bq_calls qrun].
  pose proof (bq_call_refines s o Q) as R. destruct (bq_call s o) as [s1 r]. destruct R as [E Q1]. rewrite E.
  specialize (IH s1 Q1). destruct (bq_calls s1 t) as [s2 rs]. destruct (qrun (abs s1) t) as [q2 rs']. cbn [snd] in *. now rewrite IH.
Qed.

Corollary fresh_queue_models_agree cap mtu ops :
  snd (bq_calls (new_bq cap mtu) ops) = snd (qrun (new_queue cap mtu) ops).
Proof. apply (queue_models_agree ops (new_bq cap mtu)). split; [apply binv_new|reflexivity]. Qed.

Print Assumptions fresh_queue_models_agree.

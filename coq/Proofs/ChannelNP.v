(* The channel never panics: neither the "session became ready outside the
   prospective slot" panic of Channel.Deliver nor the missing cached handshake
   message of Session.writeHandshake is reachable, in any history. *)
From P2PV Require Import Lib.Base Model.Handshake Model.Channel Proofs.ChannelP.
From Coq Require Import Lia ZifyBool ZifyN.
Open Scope N_scope.

Arguments write_handshake : simpl never.
Arguments with_hs : simpl never.
Arguments auth : simpl never.
Arguments validate_counter : simpl never.

(* the handshake message a session may have to (re)send is cached *)
Definition cache_ok (s : sess) : Prop :=
  length (s_cache s) = 4%nat /\
  (s_init s = true -> s_hs s = 0 -> cached s 0 = true) /\
  (s_init s = false -> s_hs s = 1 -> cached s 1 = true) /\
  (s_init s = true -> s_hs s = 2 -> cached s 2 = true) /\
  (s_init s = false -> s_hs s = 3 -> cached s 3 = true).

Lemma write_handshake_no_panic s p : cache_ok s -> write_handshake s <> Panic p.
Proof.
  intros (_ & C0 & C1 & C2 & C3). unfold write_handshake.
  destruct (4 <=? s_hs s); [discriminate|].
  destruct (s_init s) eqn:Ei; cbn [andb negb].
  - destruct (N.eqb_spec (s_hs s) 0) as [E|_]; [rewrite (C0 eq_refl E); discriminate|].
    destruct (N.eqb_spec (s_hs s) 2) as [E|_]; [rewrite (C2 eq_refl E); discriminate|discriminate].
  - destruct (N.eqb_spec (s_hs s) 1) as [E|_]; [rewrite (C1 eq_refl E); discriminate|].
    destruct (N.eqb_spec (s_hs s) 3) as [E|_]; [rewrite (C3 eq_refl E); discriminate|discriminate].
Qed.

Lemma set_true_len l i : length (set_true l i) = length l.
Proof. revert i; induction l as [|b t IH]; intros [|i]; cbn; auto. Qed.
Lemma set_true_nth l i : (i < length l)%nat -> nth i (set_true l i) false = true.
Proof. revert i; induction l as [|b t IH]; intros [|i] H; cbn in *; try lia; auto. apply IH. lia. Qed.

Lemma cache_ok_with_hs s hs i nn :
  cache_ok s -> (i < 4)%nat ->
  ((s_init s = true /\ hs = 2 /\ i = 2%nat) \/ (s_init s = false /\ hs = 3 /\ i = 3%nat) \/ (s_init s = false /\ hs = 1 /\ i = 1%nat)) ->
  cache_ok (with_hs s hs (Some i) nn).
Proof.
  intros (L & _) Hi Hc. unfold cache_ok, with_hs, cached. cbn [s_cache s_init s_hs].
  rewrite set_true_len. split; [exact L|].
  destruct Hc as [(Ei & -> & ->)|[(Ei & -> & ->)|(Ei & -> & ->)]]; rewrite Ei;
    repeat split; intros; try discriminate; try lia; apply set_true_nth; lia.
Qed.

Lemma cache_ok_far s hs c nn l sn : 4 <= hs -> length c = 4%nat -> cache_ok (mkS (s_init s) hs c nn l sn).
Proof. intros H L. unfold cache_ok. cbn. repeat split; auto; intros; lia. Qed.

Lemma validate_counter_cache s c s1 : validate_counter s c = Some s1 ->
  s_init s1 = s_init s /\ s_hs s1 = s_hs s /\ s_cache s1 = s_cache s.
Proof.
  unfold validate_counter. destruct (MAX_NONCE <=? c); [discriminate|].
  destruct (s_last s <? c); [intros [= <-]; auto|].
  destruct (WINDOW <? s_last s - c); [discriminate|]. destruct (memN c (s_seen s)); [discriminate|].
  intros [= <-]; auto.
Qed.

(* Session.Deliver never panics and keeps the cache invariant and the tag *)
Lemma sess_deliver_cache se w : cache_ok (cs se) ->
  (forall p, sess_deliver se w <> Panic p) /\
  (forall se' a o, sess_deliver se w = Ok (SOk se' a o) -> cache_ok (cs se') /\ c_tag se' = c_tag se).
Proof.
  intros Hc. pose proof Hc as (L & _).
  assert (Hreply : forall se2, cache_ok (cs se2) -> c_tag se2 = c_tag se ->
     (forall p, match write_handshake (cs se2) with
                | Ok r0 => Ok (SOk se2 false r0) | Err e => Err e | Panic p0 => Panic p0 end <> Panic p) /\
     (forall se' a o, match write_handshake (cs se2) with
                | Ok r0 => Ok (SOk se2 false r0) | Err e => Err e | Panic p0 => Panic p0 end = Ok (SOk se' a o) ->
                cache_ok (cs se') /\ c_tag se' = c_tag se)).
  { intros se2 C2 T2. pose proof (write_handshake_no_panic (cs se2)) as NP.
    destruct (write_handshake (cs se2)) as [r| |p0] eqn:E.
    - split; [discriminate|]. intros se' a o [= <- _ _]. auto.
    - split; discriminate.
    - exfalso. now apply (NP p0). }
  unfold sess_deliver.
  destruct (expired se || (MAX_NONCE <=? s_nonce (cs se))); [split; [discriminate|discriminate]|].
  destruct (w_kind w) as [| | | |c] eqn:Ek; cbn [msg_nonce].
  5: { destruct (c <? 4); [split; discriminate|].
       destruct (negb (can_receive (cs se))); [split; discriminate|].
       destruct (negb _); [split; discriminate|].
       destruct (validate_counter (cs se) c) as [s1|] eqn:Ev.
       - destruct (validate_counter_cache _ _ _ Ev) as (Ei & Eh & Ec).
         split; [discriminate|]. intros se' a o [= <- _ _]. split; [|reflexivity].
         cbn [cs upd]. apply cache_ok_far; [lia|]. now rewrite Ec.
       - split; [discriminate|]. intros se' a o [= <- _ _]. auto. }
  all: destruct (s_init (cs se)) eqn:Ei; cbn; rewrite ?Bool.andb_false_r, ?Bool.andb_true_r; cbn;
       try (split; discriminate); try (apply (Hreply se Hc eq_refl)).
  - (* RespHello at an initiator *)
    destruct (N.eqb_spec (s_hs (cs se)) 0) as [E0|N0]; [|apply (Hreply se Hc eq_refl)].
    destruct (auth se w); [|split; discriminate].
    refine (Hreply (mkCS (with_hs (cs se) 2 (Some 2%nat) (s_nonce (cs se))) (c_tag se) (Some (w_from w)) (Some (w_chan w))
                         (c_rank se) (c_ts se) (c_age se)) _ eq_refl).
    cbn [cs]. apply cache_ok_with_hs; [exact Hc|lia|left; auto].
  - (* InitDone at a responder *)
    destruct (N.eqb_spec (s_hs (cs se)) 1) as [E1|N1]; [|apply (Hreply se Hc eq_refl)].
    destruct (auth se w); [|split; discriminate].
    refine (Hreply (upd se (with_hs (cs se) 3 (Some 3%nat) NONCE_POST_HANDSHAKE)) _ eq_refl).
    cbn [cs upd]. apply cache_ok_with_hs; [exact Hc|lia|right; left; auto].
  - (* RespDone at an initiator *)
    destruct (N.eqb_spec (s_hs (cs se)) 2) as [E2|N2]; [|apply (Hreply se Hc eq_refl)].
    destruct (auth se w); [|split; discriminate].
    refine (Hreply (upd se (with_hs (cs se) 4 None NONCE_POST_HANDSHAKE)) _ eq_refl).
    cbn [cs upd]. unfold with_hs. apply cache_ok_far; [lia|exact L].
Qed.

Section NP.
Variable accept : N -> bool.

Definition ocache (x : option csess) : Prop := match x with Some se => cache_ok (cs se) | None => True end.
Definition odiff (x y : option csess) : Prop :=
  match x, y with Some a, Some b => c_tag a <> c_tag b | _, _ => True end.
Definition tags_distinct (ch : chan) : Prop :=
  odiff (ch_s0 ch) (ch_s1 ch) /\ odiff (ch_s0 ch) (ch_s2 ch) /\ odiff (ch_s1 ch) (ch_s2 ch).

Definition InvP (ch : chan) : Prop :=
  Inv accept ch /\ (ocache (ch_s0 ch) /\ ocache (ch_s1 ch) /\ ocache (ch_s2 ch)) /\ tags_distinct ch.

Lemma invp_new key : InvP (new_chan key).
Proof. split; [apply inv_new|]. cbn. repeat split; exact I. Qed.

Lemma on_ready_shape ch ch' b se : ch_s2 ch = Some se -> on_ready accept ch = (ch', b) ->
  ch_s2 ch' = None /\
  (b = true -> ch_s0 ch' = ch_s1 ch /\ ch_s1 ch' = Some se) /\
  (b = false -> ch_s0 ch' = ch_s0 ch /\ ch_s1 ch' = ch_s1 ch).
Proof.
  intros E2. unfold on_ready. cbn [slot]. rewrite E2.
  destruct (ch_remote ch) as [k|].
  - destruct (k =? _); intros [= <- <-]; cbn; repeat split; auto; discriminate.
  - destruct (accept _); intros [= <- <-]; cbn; repeat split; auto; discriminate.
Qed.

Lemma find_tag_has ch t j : find_tag ch t = Some j -> has_tag t (slot ch j) = true.
Proof.
  unfold find_tag. destruct (has_tag t (slot ch 0)) eqn:E0; [intros [= <-]; exact E0|].
  destruct (has_tag t (slot ch 1)) eqn:E1; [intros [= <-]; exact E1|].
  destruct (has_tag t (slot ch 2)) eqn:E2; [intros [= <-]; exact E2|discriminate].
Qed.

Definition tagrel (snapshot : list (option csess)) (ch : chan) : Prop :=
  forall i se0, (i < 2)%nat -> nth i snapshot None = Some se0 -> has_tag (c_tag se0) (ch_s2 ch) = false.

Definition fresh_tag (ch : chan) (t : N) : Prop :=
  has_tag t (ch_s0 ch) = false /\ has_tag t (ch_s1 ch) = false /\ has_tag t (ch_s2 ch) = false.

Definition np_good (tf : N) (ch ch' : chan) : Prop := InvP ch' /\ (fresh_tag ch tf -> fresh_tag ch' tf).

Definition np_res (tf : N) (ch : chan) (x : result (chan * dres) + chan) : Prop :=
  match x with
  | inl (Panic _) => False
  | inl (Ok (ch', _)) => np_good tf ch ch'
  | inl (Err _) => True
  | inr ch' => np_good tf ch ch'
  end.

Lemma has_tag_same t se se' : c_tag se' = c_tag se -> has_tag t (Some se') = has_tag t (Some se).
Proof. intros E. cbn. now rewrite E. Qed.

(* the session loop of Channel.Deliver never panics, keeps the invariant and introduces no tag *)
Lemma loop_np tf snapshot w : length snapshot = 3%nat -> forall ord ch, InvP ch -> tagrel snapshot ch ->
  np_res tf ch (deliver_loop accept snapshot w ord ch).
Proof.
  intros Hlen3. induction ord as [|i t IH]; intros ch HP HR; cbn [deliver_loop]; [split; [exact HP|auto]|].
  assert (Hskip : np_res tf ch (deliver_loop accept snapshot w t ch)) by (apply IH; assumption).
  destruct (nth i snapshot None) as [se0|] eqn:Esnap; [|exact Hskip].
  destruct (match w_kind w with MIH => negb (c_rank se0 =? w_rank w) | _ => false end); [exact Hskip|].
  destruct (find_tag ch (c_tag se0)) as [j|] eqn:Ef; [|exact Hskip].
  destruct (slot ch j) as [se|] eqn:Es; [|exact Hskip].
  pose proof HP as (HI & (K0 & K1 & K2) & (T01 & T02 & T12)).
  pose proof HI as (A & B & (C & Cn) & D).
  assert (Kse : cache_ok (cs se)).
  { destruct (find_tag_slot _ _ _ Ef) as [-> | [-> | ->]]; cbn [slot] in Es; rewrite Es in *; assumption. }
  destruct (sess_deliver_cache se w Kse) as (NP & Keep).
  destruct (sess_deliver se w) as [[|se' a o]| |p] eqn:Ed; [exact Hskip| |exact I|exact (NP p eq_refl)].
  destruct (Keep se' a o eq_refl) as (Kse' & Tse').
  (* continuing the loop from a later state *)
  assert (Hcont : forall ch2, InvP ch2 -> tagrel snapshot ch2 -> (fresh_tag ch tf -> fresh_tag ch2 tf) ->
            np_res tf ch (deliver_loop accept snapshot w t ch2)).
  { intros ch2 P2 R2 F2. specialize (IH ch2 P2 R2). unfold np_res in *.
    destruct (deliver_loop accept snapshot w t ch2) as [[[c3 r]| |]|c3]; auto;
      destruct IH as (P3 & F3); split; auto. }
  assert (Hfin : forall ch2, InvP ch2 -> (fresh_tag ch tf -> fresh_tag ch2 tf) -> np_good tf ch ch2) by (intros; split; assumption).
  assert (Hlr : forall ch2, InvP ch2 -> InvP (set_lr ch2 0)).
  { intros ch2 (I2 & Kc & Td). split; [apply (inv_set_lr accept); exact I2|split; assumption]. }
  destruct (find_tag_slot _ _ _ Ef) as [-> | [-> | ->]]; cbn [slot] in Es.
  - (* previous *)
    rewrite Es in A. destruct (sess_deliver_spec accept _ _ _ _ _ Ed (est_swf' _ _ A)) as ((W' & _ & _ & K) & _).
    destruct A as (R & E & Nn). destruct (K R) as (R' & E'). rewrite R, R'. cbn [negb andb].
    assert (P1 : InvP (set_slot ch 0 (Some se'))).
    { split; [unfold Inv, est; cbn; repeat split; auto; congruence|]. cbn. rewrite Es in T01, T02.
      split; [split; [exact Kse'|split; assumption]|]. unfold tags_distinct. cbn. unfold odiff in *. rewrite Tse'.
      split; [exact T01|split; [exact T02|exact T12]]. }
    assert (R1 : tagrel snapshot (set_slot ch 0 (Some se'))) by exact HR.
    assert (F1 : fresh_tag ch tf -> fresh_tag (set_slot ch 0 (Some se')) tf).
    { intros (F0 & F1 & F2). unfold fresh_tag. cbn. rewrite Es in F0. cbn in F0. rewrite Tse'. auto. }
    destruct a.
    + destruct (has_tag (c_tag se') (slot (set_slot ch 0 (Some se')) 1)); [apply Hfin; [apply Hlr; exact P1|exact F1]|apply Hfin; assumption].
    + destruct o as [k|]; [apply Hfin; assumption|apply Hcont; assumption].
  - (* current *)
    rewrite Es in B. destruct (sess_deliver_spec accept _ _ _ _ _ Ed (est_swf' _ _ B)) as ((W' & _ & _ & K) & _).
    destruct B as (R & E & Nn). destruct (K R) as (R' & E'). rewrite R, R'. cbn [negb andb].
    assert (P1 : InvP (set_slot ch 1 (Some se'))).
    { split; [unfold Inv, est; cbn; repeat split; auto; congruence|]. cbn. rewrite Es in T01, T12.
      split; [split; [assumption|split; [exact Kse'|assumption]]|]. unfold tags_distinct. cbn. unfold odiff in *. rewrite Tse'.
      split; [exact T01|split; [exact T02|exact T12]]. }
    assert (R1 : tagrel snapshot (set_slot ch 1 (Some se'))) by exact HR.
    assert (F1 : fresh_tag ch tf -> fresh_tag (set_slot ch 1 (Some se')) tf).
    { intros (F0 & F1 & F2). unfold fresh_tag. cbn. rewrite Es in F1. cbn in F1. rewrite Tse'. auto. }
    destruct a.
    + destruct (has_tag (c_tag se') (slot (set_slot ch 1 (Some se')) 1)); [apply Hfin; [apply Hlr; exact P1|exact F1]|apply Hfin; assumption].
    + destruct o as [k|]; [apply Hfin; assumption|apply Hcont; assumption].
  - (* prospective: the snapshot index can only be 2 *)
    assert (Hi2 : i = 2%nat).
    { destruct (Nat.lt_ge_cases i 2) as [Hlt|Hge].
      - pose proof (HR i se0 Hlt Esnap) as Hno. apply find_tag_has in Ef. cbn [slot] in Ef. congruence.
      - destruct i as [|[|[|i]]]; try lia.
        exfalso. rewrite nth_overflow in Esnap by lia. discriminate. }
    subst i.
    rewrite Es in C, Cn, T02, T12. cbn in C, Cn.
    destruct (sess_deliver_spec accept _ _ _ _ _ Ed C) as ((W' & _ & _ & _) & Happ).
    rewrite Cn. cbn [negb andb Nat.eqb].
    destruct (c_ready se') eqn:R'; cbn [negb andb].
    + assert (I1 : Inv2 accept (set_slot ch 2 (Some se'))) by (unfold Inv2; cbn; repeat split; auto).
      destruct (on_ready accept (set_slot ch 2 (Some se'))) as [ch2 okp] eqn:Eo.
      destruct (on_ready_inv accept _ _ _ se' I1 eq_refl R' Eo) as (I2 & _ & _ & _).
      destruct (on_ready_shape (set_slot ch 2 (Some se')) ch2 okp se' eq_refl Eo) as (S2 & St & Sf).
      assert (P2 : InvP ch2).
      { split; [exact I2|]. destruct okp.
        - destruct (St eq_refl) as (E0 & E1). cbn in E0. rewrite S2, E0, E1.
          split; [split; [exact K1|split; [exact Kse'|exact I]]|]. unfold tags_distinct. rewrite S2, E0, E1.
          unfold odiff in *. split; [destruct (ch_s1 ch); [rewrite Tse'; exact T12|exact I]|split; [destruct (ch_s1 ch); exact I|exact I]].
        - destruct (Sf eq_refl) as (E0 & E1). cbn in E0, E1. rewrite S2, E0, E1.
          split; [split; [exact K0|split; [exact K1|exact I]]|]. unfold tags_distinct. rewrite S2, E0, E1.
          unfold odiff in *. split; [exact T01|split; [destruct (ch_s0 ch); exact I|destruct (ch_s1 ch); exact I]]. }
      assert (R2 : tagrel snapshot ch2) by (intros i0 s0 Hlt Hn; rewrite S2; reflexivity).
      assert (F2 : fresh_tag ch tf -> fresh_tag ch2 tf).
      { intros (F0 & F1 & F2). unfold fresh_tag. rewrite S2. destruct okp.
        - destruct (St eq_refl) as (E0 & E1). cbn in E0. rewrite E0, E1. rewrite Es in F2. cbn in F2 |- *. rewrite Tse'. auto.
        - destruct (Sf eq_refl) as (E0 & E1). cbn in E0, E1. rewrite E0, E1. auto. }
      destruct okp; cbn [negb].
      * destruct a.
        -- destruct (has_tag (c_tag se') (slot ch2 1)); [apply Hfin; [apply Hlr; exact P2|exact F2]|apply Hfin; assumption].
        -- destruct o as [k|]; [apply Hfin; assumption|apply Hcont; assumption].
      * apply Hfin; assumption.
    + assert (P1 : InvP (set_slot ch 2 (Some se'))).
      { split; [apply (inv_set2 accept); auto|]. cbn. split; [split; [assumption|split; [assumption|exact Kse']]|].
        unfold tags_distinct. cbn. unfold odiff in *. rewrite Tse'. split; [exact T01|split; [exact T02|exact T12]]. }
      assert (R1 : tagrel snapshot (set_slot ch 2 (Some se'))).
      { intros i0 s0 Hlt Hn. cbn. pose proof (HR i0 s0 Hlt Hn) as H0. rewrite Es in H0. cbn in H0 |- *. now rewrite Tse'. }
      assert (F1 : fresh_tag ch tf -> fresh_tag (set_slot ch 2 (Some se')) tf).
      { intros (F0 & F1 & F2). unfold fresh_tag. cbn. rewrite Es in F2. cbn in F2. rewrite Tse'. auto. }
      destruct a; [destruct (Happ eq_refl) as [Hx _]; congruence|].
      destruct o as [k|]; [apply Hfin; assumption|apply Hcont; assumption].
Qed.

(* Channel.Deliver as a whole never panics *)
Theorem chan_deliver_np fresh ch w : InvP ch -> fresh_tag ch fresh ->
  match chan_deliver accept fresh ch w with
  | Panic _ => False
  | Ok (ch', _) => InvP ch'
  | Err _ => True
  end.
Proof.
  intros HP HF. unfold chan_deliver.
  assert (HR : tagrel (ch_slots ch) ch).
  { destruct HP as (_ & _ & (T01 & T02 & T12)). intros i se0 Hlt Hn. destruct i as [|[|i]]; try lia; cbn in Hn.
    - rewrite Hn in T02. destruct (ch_s2 ch) as [x|]; [|reflexivity]. cbn in *. apply N.eqb_neq. congruence.
    - rewrite Hn in T12. destruct (ch_s2 ch) as [x|]; [|reflexivity]. cbn in *. apply N.eqb_neq. congruence. }
  pose proof (loop_np fresh (ch_slots ch) w eq_refl (deliver_order w) ch HP HR) as HL.
  destruct (deliver_loop accept (ch_slots ch) w (deliver_order w) ch) as [[[c r]| |]|ch1]; cbn in HL; try exact I; try contradiction.
  - apply HL.
  - destruct HL as (P1 & F1). specialize (F1 HF).
    destruct (w_kind w); try exact P1.
    destruct (existsb _ _); [exact P1|]. destruct (w_ts w <? ch_rts ch1); [exact P1|].
    destruct (negb _); [exact P1|].
    set (R := mkCS _ fresh _ _ _ _ 0).
    assert (KR : cache_ok (cs R)).
    { unfold R. cbn [cs]. apply cache_ok_with_hs; [unfold cache_ok, new_sess; cbn; repeat split; intros; try discriminate; lia|lia|right; right; auto]. }
    assert (P2 : InvP (set_slot ch1 2 (Some R))).
    { destruct P1 as (I1 & (K0 & K1 & K2) & (T01 & T02 & T12)). destruct F1 as (F0 & F1' & F2).
      split; [apply (inv_set2 accept); [exact I1|intros _; discriminate|reflexivity]|].
      cbn. split; [split; [assumption|split; [assumption|exact KR]]|]. unfold tags_distinct. cbn. unfold odiff.
      split; [exact T01|split].
      + destruct (ch_s0 ch1) as [x|]; [|exact I]. cbn in F0. apply N.eqb_neq in F0. unfold R. cbn. congruence.
      + destruct (ch_s1 ch1) as [x|]; [|exact I]. cbn in F1'. apply N.eqb_neq in F1'. unfold R. cbn. congruence. }
    destruct (slot ch1 2) as [X|] eqn:EX; [|exact P2].
    destruct (if s_init (cs X) then c_rank X <? w_rank w else negb (c_ts X <? w_ts w)); [|exact P2].
    assert (KX : cache_ok (cs X)).
    { destruct P1 as (_ & (_ & _ & K2) & _). cbn [slot] in EX. rewrite EX in K2. exact K2. }
    pose proof (write_handshake_no_panic (cs X)) as NPX.
    destruct (write_handshake (cs X)) as [[k|]| |p]; try exact P1; try exact I. exact (NPX p KX eq_refl).
Qed.

(* ---- the other operations ---- *)
Lemma expire_np ch : InvP ch -> InvP (expire ch) /\ (forall t, fresh_tag ch t -> fresh_tag (expire ch) t).
Proof.
  intros (HI & HK & HT). split; [split; [exact (proj1 (expire_inv accept ch HI))|]|].
  - destruct ch as [k s0 s1 s2 r ts lr]. unfold tags_distinct, odiff, ocache in *. cbn in HK, HT.
    destruct HK as (K0 & K1 & K2). destruct HT as (T01 & T02 & T12).
    unfold expire, expire0, expire1, expire2. cbn [ch_s0 ch_s1 ch_s2 ch_lr set_slot].
    destruct s0 as [a|]; [destruct (expired a)|]; cbn [ch_s0 ch_s1 ch_s2 ch_lr set_slot];
      (destruct s1 as [b|]; [destruct (expired b || (KEEPALIVE <? lr)%Z)|]; cbn [ch_s0 ch_s1 ch_s2 ch_lr set_slot]);
      (destruct s2 as [c|]; [destruct (expired c)|]; cbn [ch_s0 ch_s1 ch_s2 ch_lr set_slot]);
      intuition auto.
  - intros t (F0 & F1 & F2). destruct ch as [k s0 s1 s2 r ts lr]. unfold fresh_tag in *. cbn in F0, F1, F2.
    unfold expire, expire0, expire1, expire2. cbn [ch_s0 ch_s1 ch_s2 ch_lr set_slot].
    destruct s0 as [a|]; [destruct (expired a)|]; cbn [ch_s0 ch_s1 ch_s2 ch_lr set_slot];
      (destruct s1 as [b|]; [destruct (expired b || (KEEPALIVE <? lr)%Z)|]; cbn [ch_s0 ch_s1 ch_s2 ch_lr set_slot]);
      (destruct s2 as [c|]; [destruct (expired c)|]; cbn [ch_s0 ch_s1 ch_s2 ch_lr set_slot]);
      intuition auto.
Qed.

Lemma handshake_np ch : InvP ch -> InvP (fst (chan_handshake ch)).
Proof. intros HP. unfold chan_handshake. cbn [fst]. exact (proj1 (expire_np ch HP)). Qed.

Lemma rekey_np fresh rank ts ch : InvP ch -> fresh_tag ch fresh -> InvP (fst (chan_rekey fresh rank ts ch)).
Proof.
  intros HP HF. unfold chan_rekey. destruct (expire_np ch HP) as (P1 & F1). specialize (F1 fresh HF).
  destruct (slot (expire ch) 2) eqn:E2; [cbn [fst]; exact P1|].
  set (I0 := mkCS (new_sess true) fresh None None rank ts 0).
  apply handshake_np.
  destruct P1 as (I1 & (K0 & K1 & K2) & (T01 & T02 & T12)). destruct F1 as (F0 & F1' & F2).
  split; [apply (inv_set2 accept); [exact I1| |reflexivity]|].
  - intros [Hx|Hx]; [discriminate|]. cbn in Hx. lia.
  - cbn. split; [split; [assumption|split; [assumption|]]|].
    + unfold cache_ok, new_sess, cached. cbn. repeat split; intros; try discriminate; lia.
    + unfold tags_distinct, odiff. cbn. split; [exact T01|split].
      * destruct (ch_s0 (expire ch)) as [x|]; [|exact I]. cbn in F0. apply N.eqb_neq in F0. cbn. congruence.
      * destruct (ch_s1 (expire ch)) as [x|]; [|exact I]. cbn in F1'. apply N.eqb_neq in F1'. cbn. congruence.
Qed.

Lemma send_np ch : InvP ch -> InvP (fst (chan_send ch)).
Proof.
  intros HP. pose proof (send_inv accept ch (proj1 HP)) as X. revert X.
  unfold chan_send. destruct (expire_np ch HP) as (P1 & _).
  destruct (slot (expire ch) 1) as [se|] eqn:E1; [|cbn [fst]; intros _; exact P1]. cbn [slot] in E1.
  destruct (expired se) eqn:Ex; [cbn [fst]; intros _; exact P1|].
  destruct (send (cs se)) as [[s' c]|] eqn:Es; [|cbn [fst]; intros _; exact P1]. cbn [fst]. intros (X & _).
  split; [exact X|].
  destruct P1 as (_ & (K0 & K1 & K2) & (T01 & T02 & T12)). rewrite E1 in K1, T01, T12.
  unfold send in Es. destruct (MAX_NONCE <=? _); [discriminate|]. destruct (negb _); [discriminate|]. injection Es as <- _.
  cbn. split; [split; [assumption|split; [|assumption]]|].
  - destruct K1 as (L & C0 & C1 & C2 & C3). unfold cache_ok, cached in *. cbn. repeat split; assumption.
  - unfold tags_distinct, odiff in *. cbn. split; [exact T01|split; [exact T02|exact T12]].
Qed.

Lemma age_np d ch : InvP ch -> InvP (chan_age d ch) /\ (forall t, fresh_tag ch t -> fresh_tag (chan_age d ch) t).
Proof.
  intros (HI & (K0 & K1 & K2) & (T01 & T02 & T12)). split.
  - split; [exact (proj1 (age_inv accept d ch HI))|]. unfold chan_age. cbn.
    split; [split; [destruct (ch_s0 ch); assumption|split; [destruct (ch_s1 ch); assumption|destruct (ch_s2 ch); assumption]]|].
    unfold tags_distinct, odiff in *. cbn.
    destruct (ch_s0 ch), (ch_s1 ch), (ch_s2 ch); cbn; auto.
  - intros t (F0 & F1 & F2). unfold fresh_tag, chan_age. cbn. destruct (ch_s0 ch), (ch_s1 ch), (ch_s2 ch); cbn in *; auto.
Qed.

(* ---- every history whose new sessions get fresh tags ---- *)
Definition op_fresh (ch : chan) (o : cop) : Prop :=
  match o with ODeliver f _ => fresh_tag ch f | ORekey f _ _ => fresh_tag ch f | _ => True end.

Fixpoint never_panics (ch : chan) (ops : list cop) : Prop :=
  match ops with
  | [] => True
  | o :: t => op_fresh ch o ->
              match cstep accept ch o with
              | Panic _ => False
              | Ok (ch', _) => never_panics ch' t
              | Err _ => True
              end
  end.

Theorem channel_never_panics : forall ops ch, InvP ch -> never_panics ch ops.
Proof.
  induction ops as [|o t IH]; intros ch HP; cbn [never_panics]; [exact I|]. intros HF.
  destruct o as [f w|f rank ts| | |d]; cbn [cstep op_fresh] in *.
  - pose proof (chan_deliver_np f ch w HP HF) as G.
    destruct (chan_deliver accept f ch w) as [[c r]| |]; [apply IH; exact G|exact I|exact G].
  - apply IH. now apply rekey_np.
  - apply IH. now apply handshake_np.
  - apply IH. now apply send_np.
  - apply IH. exact (proj1 (age_np d ch HP)).
Qed.

End NP.

(* C18 — The Kademlia cache is a faithful bounded map that sheds the farthest first. *)
From P2PV Require Import Lib.Base Model.Distance Model.Cache
  Proofs.CacheP Proofs.CacheP2 Proofs.CacheP3 Proofs.CacheP4.
Open Scope Z_scope.

(* every configuration the constructor accepts, every operation history, every oracle *)
Theorem C18_no_panic : forall L mx mn c0 ops,
  new_cache L mx mn = Ok c0 -> forall s, run c0 ops <> Panic s.
Proof. intros L mx mn c0 ops H. exact (proj1 (run_inv ops c0 (new_cache_inv _ _ _ _ H))). Qed.

Theorem C18_count_exact : forall L mx mn c, reachable L mx mn c -> c_count c = lenZ (contents c).
Proof. intros L mx mn c H. exact (proj1 (proj2 (proj2 (reachable_inv _ _ _ _ H)))). Qed.

Theorem C18_bounded : forall L mx mn c, reachable L mx mn c -> c_count c <= c_max c.
Proof. intros L mx mn c H. exact (proj1 (proj2 (proj2 (proj2 (reachable_inv _ _ _ _ H))))). Qed.

(* refinement to a map, pointwise in the looked-up key: after any operation the
   cache answers lookups as the abstract map updated by that operation's reported
   result; Get returns the value of the latest entry stored under the key *)
Theorem C18_refines_map : forall L mx mn c o orc c' r,
  reachable L mx mn c -> step c o orc = Ok (c', r) ->
  (forall k, lookup c' k = spec_after c o r k) /\
  (forall k, get c' k = option_map e_val (lookup c' k)) /\
  reachable L mx mn c'.
Proof.
  intros L mx mn c o orc c' r Hr Hs.
  destruct (step_correct c o orc (reachable_inv _ _ _ _ Hr)) as [_ H].
  destruct (H c' r Hs) as (_ & _ & Hspec & _). split; [exact Hspec|]. split; [reflexivity|].
  destruct Hr as (c0 & ops & H0 & Hrun). exists c0, (ops ++ [(o, orc)]). split; [exact H0|].
  clear - Hrun Hs. revert c0 Hrun. induction ops as [|[o1 r1] t IH]; intros c0 Hrun; cbn [run app] in *.
  - injection Hrun as ->. rewrite Hs. reflexivity.
  - destruct (step c0 o1 r1) as [[c1 x]| |]; cbn [bind] in *; try discriminate. now apply IH.
Qed.

(* an entry disappears only by Delete, by expiring (and then it is in Expire's
   output), or by being reported as the eviction victim *)
Theorem C18_no_silent_loss : forall L mx mn c o orc c' r k e,
  reachable L mx mn c -> step c o orc = Ok (c', r) ->
  lookup c k = Some e -> lookup c' k = None ->
  o = ODel k \/
  (exists now, o = OExpire now /\ is_expired now e = true /\
               r = RExpire (filter (is_expired now) (contents c)) /\
               In e (filter (is_expired now) (contents c))) \/
  (exists ev added, r = RPut (Some ev) added /\ e_key ev = k).
Proof. intros L mx mn c o orc c' r k e Hr. exact (no_silent_loss c o orc c' r k e (reachable_inv _ _ _ _ Hr)). Qed.

(* eviction: the victim was stored, comes from the farthest bucket above its
   minimum (every farther bucket is within its minimum afterwards), is the newest
   entry of its bucket, and the cache is exactly full afterwards *)
Theorem C18_victim_farthest : forall L mx mn c k fn orc c' ev added,
  reachable L mx mn c -> fn_keeps_key k fn c ->
  update c k fn orc = Ok (c', (Some ev, added)) ->
  (if bytes_eqb k (e_key ev) then fn (lookup c k) = ev else lookup c (e_key ev) = Some ev) /\
  added = negb (bytes_eqb k (e_key ev)) /\
  c_count c' = c_max c /\
  (forall m b', (m < bidx c (e_key ev))%nat -> nth_error (c_buckets c') m = Some b' ->
                lenZ (b_ents b') <= c_minpb c) /\
  (forall x, lookup c' (e_key x) = Some x -> bidx c (e_key x) = bidx c (e_key ev) ->
             e_created x <= e_created ev).
Proof.
  intros L mx mn c k fn orc c' ev added Hr Hk Hu.
  destruct (update_correct c k fn orc (reachable_inv _ _ _ _ Hr) Hk) as [_ H].
  destruct (H c' (Some ev) added Hu) as (_ & _ & _ & Hv & _). exact (Hv ev eq_refl).
Qed.

(* expiry removes exactly the entries past their time (non-zero ExpiresAt before
   now), reports exactly those, and leaves a cache on which everything above still holds *)
Theorem C18_expire_exact : forall L mx mn c now c' out,
  reachable L mx mn c -> expire c now = (c', out) ->
  out = filter (is_expired now) (contents c) /\
  contents c' = filter (fun e => negb (is_expired now e)) (contents c) /\
  inv c'.
Proof.
  intros L mx mn c now c' out Hr He.
  destruct (expire_correct c now c' out (reachable_inv _ _ _ _ Hr) He) as (A & _ & B & C & _). auto.
Qed.

(* non-vacuity: a reachable full cache where an eviction happens *)
Example C18_nonvacuous :
  exists c0 c c' ev, new_cache [0%N] 2 0 = Ok c0 /\
    run c0 [(OPut [128%N] [1%N] 1 0, []); (OPut [64%N] [2%N] 2 0, [])] = Ok c /\
    update c [1%N] (put_fn [1%N] [3%N] 3 0) [128%N] = Ok (c', (Some ev, true)) /\
    e_key ev = [128%N] /\ c_count c' = 2.
Proof. vm_compute. do 4 eexists. repeat split; reflexivity. Qed.

Print Assumptions C18_no_panic.
Print Assumptions C18_count_exact.
Print Assumptions C18_bounded.
Print Assumptions C18_refines_map.
Print Assumptions C18_no_silent_loss.
Print Assumptions C18_victim_farthest.
Print Assumptions C18_expire_exact.

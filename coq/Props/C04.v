(* C04 — Secure swarms attribute every message to the key its sender proved. *)
From P2PV Require Import Lib.Base Model.Handshake Model.Channel Model.KeSwarm Proofs.ChannelP Model.Wl.
Open Scope N_scope.

(* p2pkeswarm.  For every fingerprinter, whitelist and every history of a
   channel created either way (by a Tell to identity `want`, or by a peer's
   message), whenever the channel hands up application data: the message is
   delivered only if the whitelist accepts the identity attached to it, that
   identity is the fingerprint of the channel's bound key, and every established
   session of the channel (the one that decrypted the data included) is with
   exactly that key, which the session proved in its handshake (C02/C03). *)
Theorem C04_attribution_and_whitelist : forall fp whitelist accept key ops ch' r id,
  In (ch', Some r) (ctrace accept (new_chan key) ops) ->
  handle_app fp whitelist ch' = Some id ->
  whitelist id = true /\
  exists k, ch_remote ch' = Some k /\ id = fp k /\ accept k = true /\
            est ch' (ch_s0 ch') /\ est ch' (ch_s1 ch').
Proof.
  intros fp wl accept key ops ch' r id Hin Hh.
  destruct (ctrace_good accept ops (new_chan key) (inv_new accept key) ch' (Some r) Hin) as ((A & B & C & D) & _ & _).
  unfold handle_app in Hh. destruct (ch_remote ch') as [k|] eqn:Ek; [|discriminate].
  destruct (wl (fp k)) eqn:Ew; [|discriminate]. injection Hh as <-.
  split; [exact Ew|]. exists k. repeat split; auto.
Qed.

(* a Tell addressed to identity `want` only ever uses a channel whose bound key
   has that identity, whoever opened the channel and whatever happened on it;
   Send encrypts with the current session, which is with that key *)
Theorem C04_tell_reaches_only_the_identity : forall fp accept key ops ch' r want ch'' w,
  In (ch', r) (ctrace accept (new_chan key) ops) ->
  tell_uses fp want ch' = true -> chan_send ch' = (ch'', Some w) ->
  exists se k, ch_s1 (expire ch') = Some se /\ c_rkey se = Some k /\ fp k = want.
Proof.
  intros fp accept key ops ch' r want ch'' w Hin Hu Hs.
  destruct (ctrace_good accept ops (new_chan key) (inv_new accept key) ch' r Hin) as (HI & _ & _).
  destruct (C05_send_bound accept ch' ch'' w HI Hs) as (se & k & E1 & Ek & Er & _).
  exists se, k. split; [exact E1|split; [exact Ek|]].
  unfold tell_uses in Hu. rewrite Er in Hu. now apply N.eqb_eq.
Qed.

(* a channel opened by a Tell to `want` never binds another identity at all *)
Theorem C04_outbound_channel_binds_only_want : forall fp key ops ch' r want k,
  In (ch', r) (ctrace (accept_out fp want) (new_chan key) ops) ->
  ch_remote ch' = Some k -> fp k = want.
Proof.
  intros fp key ops ch' r want k Hin Hk.
  destruct (ctrace_good (accept_out fp want) ops (new_chan key) (inv_new _ key) ch' r Hin) as ((_ & _ & _ & D) & _ & _).
  specialize (D k Hk). unfold accept_out in D. now apply N.eqb_eq.
Qed.

(* and a channel opened by a peer only binds whitelisted identities *)
Theorem C04_inbound_channel_binds_only_whitelisted : forall fp whitelist key ops ch' r k,
  In (ch', r) (ctrace (accept_in fp whitelist) (new_chan key) ops) ->
  ch_remote ch' = Some k -> whitelist (fp k) = true.
Proof.
  intros fp wl key ops ch' r k Hin Hk.
  destruct (ctrace_good (accept_in fp wl) ops (new_chan key) (inv_new _ key) ch' r Hin) as ((_ & _ & _ & D) & _ & _).
  exact (D k Hk).
Qed.

(* ---- wlswarm: a peer rejected by the whitelist never has a message or ask delivered ---- *)
Theorem C04_whitelist_wrapper_receive : forall allow inner m,
  In m (wl_receive allow inner) <-> (In m inner /\ allow (w_src m) = true).
Proof. intros. unfold wl_receive. apply filter_In. Qed.

(* ... and nothing is sent or asked towards a rejected address *)
Theorem C04_whitelist_wrapper_send : forall allow m m',
  wl_send allow m = Some m' -> m' = m /\ allow (w_dst m) = true.
Proof. intros allow m m'. unfold wl_send. destruct (allow (w_dst m)); [intros [= <-]; auto|discriminate]. Qed.

Print Assumptions C04_attribution_and_whitelist.
Print Assumptions C04_tell_reaches_only_the_identity.
Print Assumptions C04_outbound_channel_binds_only_want.
Print Assumptions C04_inbound_channel_binds_only_whitelisted.
Print Assumptions C04_whitelist_wrapper_receive.
Print Assumptions C04_whitelist_wrapper_send.

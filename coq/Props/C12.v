(* C12 — Close ends everything promptly and for good. *)
From P2PV Require Import Lib.Base Model.Hub Proofs.HubP Model.Queue Proofs.QueueP Model.QueueBuf Proofs.QueueBufP.

(* every Receive/ServeAsk/Deliver that is parked when the hub closes can return
   the close error at once: nothing it waits for can keep it *)
Theorem C12_blocked_calls_released : forall h r d, closing h = true ->
  (h_r h r = RWait -> hstep h (HRecvRetErr r true) <> None) /\
  (h_d h d = DOffer -> hstep h (HDlvRetErr d true) <> None).
Proof.
  intros h r d C. split; intros E.
  - exact (proj1 (parked_receiver_can_leave h r E) C).
  - exact (proj1 (parked_deliverer_can_leave h d E) C).
Qed.

(* a call made after Close has returned never has a message delivered to its
   callback, in any continuation, and if it returns it returns an error *)
Theorem C12_no_delivery_after_close : forall pre r post h h1,
  hrun hub0 pre = Some h1 -> h_phase h1 = Closed ->
  hrun hub0 (pre ++ HRecvCall r :: post) = Some h ->
  count (is_meet_r r) post = 0 /\ (forall ok m, h_r h r = RRet ok m -> ok = false).
Proof. exact call_after_close_never_served. Qed.

(* the only ways a receiver call ends: with the message of exactly one
   callback (success), or with an error that Close or its own cancellation caused *)
Theorem C12_no_spurious_result : forall h r ce h', hstep h (HRecvRetErr r ce) = Some h' ->
  if ce then closing h = true \/ h_r h r = RDead else h_rc h r = true.
Proof. exact no_spurious_errors. Qed.

(* closing twice is closing once *)
Theorem C12_close_idempotent : forall h h1 h2, hstep h HCloseBegin = Some h1 -> hstep h1 HCloseEnd = Some h2 ->
  hstep h2 HCloseBegin = Some h2 /\ hstep h2 HCloseEnd = Some h2.
Proof.
  intros [p r d rc dc] h1 h2. destruct p; cbn; intros [= <-]; cbn; intros [= <-]; cbn; auto.
Qed.

Example C12_nonvacuous :
  hrun hub0 [HRecvCall 0; HRecvCall 1; HCloseBegin; HRecvRetErr 0 true; HCloseEnd; HRecvRetErr 1 true;
             HRecvCall 2; HRecvRetErr 2 true; HDlvCall 0; HDlvRetErr 0 true] <> None /\
  hrun hub0 [HRecvCall 0; HCloseBegin; HCloseEnd; HDlvCall 0; HMeet 0 0] = None.
Proof. split; [vm_compute; discriminate|vm_compute; reflexivity]. Qed.

(* ---- swarmutil.Queue (the buffer behind vswarm's Receive) ---- *)

(* once closed, a queue accepts nothing, hands nothing out and never blocks a
   Receive again, whatever is called on it; and it stays closed *)
Theorem C12_queue_closed_is_final : forall q h o, QInv q h -> q_closed q = true ->
  q_closed (fst (qstep q o)) = true /\
  match snd (qstep q o) with QAccepted | QGot _ | QWouldBlock => False | _ => True end.
Proof. exact closed_is_final. Qed.

(* the invariant holds in every state a fresh queue can reach *)
Theorem C12_queue_invariant : forall cap mtu ops,
  QInv (fst (qhrun (new_queue cap mtu) (mkH [] []) ops)) (snd (qhrun (new_queue cap mtu) (mkH [] []) ops)).
Proof. intros. apply qrun_inv, qinv_new. Qed.

(* the same at the level of buffers and under ANY interleaving (Receive callbacks still
   running, Deliver, Purge, further Close calls): once the closed signal is set nothing is
   accepted any more and no callback is handed a message *)
Theorem C12_queue_nothing_after_close_concurrent : forall evs s s' os,
  ClosedEmpty s -> b_closed s = true -> brun s evs = Some (s', os) ->
  forall o, In o os -> match o with BWrote _ | BGot _ _ => False | _ => True end.
Proof. exact nothing_after_close. Qed.

Print Assumptions C12_blocked_calls_released.
Print Assumptions C12_no_delivery_after_close.
Print Assumptions C12_no_spurious_result.
Print Assumptions C12_close_idempotent.
Print Assumptions C12_queue_closed_is_final.
Print Assumptions C12_queue_invariant.
Print Assumptions C12_queue_nothing_after_close_concurrent.

(* C06 — The handshake completes under loss, duplication and reordering.
   Schedules are arbitrary finite lists of deliveries (to either side, in any
   order, any number of times, reflections included) of the genuine messages the
   two sessions have emitted so far, interleaved with application Sends. *)
From P2PV Require Import Lib.Base Model.Handshake Proofs.HandshakeP.
Open Scope N_scope.

(* no schedule makes a session panic, and no session ever regresses *)
Theorem C06_no_panic_monotone : forall acts,
  (forall s, run init_pair acts <> Panic s) /\
  forall p, run init_pair acts = Ok p ->
    Inv p /\ forall more p', run p more = Ok p' -> ih p <= ih p' /\ rh p <= rh p'.
Proof.
  intros acts. destruct (run_inv acts init_pair inv_init) as [A B]. split; [exact A|].
  intros p Hp. destruct (B p Hp) as (Hinv & _). split; [exact Hinv|].
  intros more p' Hm. destruct (run_inv more p Hinv) as [_ C]. now destruct (C p' Hm) as (_ & ? & ?).
Qed.

(* after ANY schedule, delivering each side's current handshake message once
   more in sequence (two rounds) makes both sessions ready, while the message limit is not reached *)
Theorem C06_recovers : forall acts p,
  run init_pair acts = Ok p -> under_limit p ->
  exists p', fair_suffix p = Ok p' /\ Inv p' /\ under_limit p' /\
             is_ready (p_i p') = true /\ is_ready (p_r p') = true.
Proof.
  intros acts p Hp Hu. destruct (run_inv acts init_pair inv_init) as [_ B].
  exact (recovers p (proj1 (B p Hp)) Hu).
Qed.

(* ... and then data flows both ways: a Send on either side is accepted as application data by the other *)
Theorem C06_dataflow : forall p,
  Inv p -> under_limit p -> is_ready (p_i p) = true -> is_ready (p_r p) = true ->
  (exists si c, send (p_i p) = Some (si, c) /\ 16 <= c /\ exists sr, deliver (p_r p) (MData c) = Ok (sr, OApp)) /\
  (exists sr c, send (p_r p) = Some (sr, c) /\ 16 <= c /\ exists si, deliver (p_i p) (MData c) = Ok (si, OApp)).
Proof. exact dataflow. Qed.

(* asking for the current handshake message returns the same message until the state advances *)
Theorem C06_idempotent : forall s m s' o,
  deliver s m = Ok (s', o) -> s_hs s' = s_hs s -> write_handshake s' = write_handshake s.
Proof. exact handshake_idempotent. Qed.

(* non-vacuity: data overtaking RespDone (the state the unrepaired code mishandled) recovers *)
Example C06_nonvacuous :
  match run init_pair [ToR MIH; ToI MRH; ToR MID; SendR; ToI (MData 16)] with
  | Ok p => ih p = 8 /\ rh p = 3 /\ s_nonce (p_i p) = 16 /\
            match fair_suffix p with
            | Ok p' => is_ready (p_i p') = true /\ is_ready (p_r p') = true
            | _ => False end
  | _ => False
  end.
Proof. vm_compute. repeat split; reflexivity. Qed.

Print Assumptions C06_no_panic_monotone.
Print Assumptions C06_recovers.
Print Assumptions C06_dataflow.
Print Assumptions C06_idempotent.

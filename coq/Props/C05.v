(* C05 — A channel talks only to an accepted key, and to the same key forever. *)
From P2PV Require Import Lib.Base Model.Handshake Model.Channel Proofs.ChannelP.
Open Scope N_scope.

(* For EVERY acceptance predicate, every channel and EVERY history of operations
   on it (deliveries of arbitrary wire messages from any sessions of any
   channels, in any order and multiplicity, whichever side initiated; rekey and
   handshake timer firings; sends; ageing), in every state along the history:
   - the previous and the current session are ready sessions whose remote key is
     the channel's bound key, the bound key is one the predicate accepted, and the
     prospective session is not ready (it cannot carry application data);
   - a bound key never changes (mono);
   - application data is only ever handed up while the channel is bound to an
     accepted key. *)
Theorem C05_history : forall (accept : N -> bool) key ops ch' r,
  In (ch', r) (ctrace accept (new_chan key) ops) ->
  Inv accept ch' /\
  match r with Some r => app_ok accept ch' r | None => True end.
Proof.
  intros accept key ops ch' r Hin.
  destruct (ctrace_good accept ops (new_chan key) (inv_new accept key) ch' r Hin) as (A & _ & B). auto.
Qed.

(* once bound, always bound to the same key: from any state of the invariant *)
Theorem C05_same_key_forever : forall (accept : N -> bool) ch ops ch' r k,
  Inv accept ch -> ch_remote ch = Some k ->
  In (ch', r) (ctrace accept ch ops) -> ch_remote ch' = Some k.
Proof.
  intros accept ch ops ch' r k HI Hk Hin.
  destruct (ctrace_good accept ops ch HI ch' r Hin) as (_ & M & _). now apply M.
Qed.

(* a refused handshake (key rejected, or another key than the bound one) removes
   the prospective session and leaves the established sessions and the bound key
   exactly as they were *)
Theorem C05_refusal_undisturbed : forall (accept : N -> bool) ch ch',
  on_ready accept ch = (ch', false) ->
  ch_s0 ch' = ch_s0 ch /\ ch_s1 ch' = ch_s1 ch /\ ch_remote ch' = ch_remote ch /\
  (ch_s2 ch <> None -> ch_s2 ch' = None).
Proof.
  intros accept ch ch'. unfold on_ready. cbn [slot].
  destruct (ch_s2 ch) as [se|]; [|intros [= <-]; repeat split; congruence].
  destruct (ch_remote ch) as [k|] eqn:Er.
  - destruct (k =? _); [discriminate|]. intros [= <-]. cbn. repeat split; auto.
  - destruct (accept _); [discriminate|]. intros [= <-]. cbn. repeat split; auto.
Qed.

(* application data is only encrypted with the current session, hence to the bound key *)
Theorem C05_send_to_bound_key : forall (accept : N -> bool) ch ch' w,
  Inv accept ch -> chan_send ch = (ch', Some w) ->
  exists se k, ch_s1 (expire ch) = Some se /\ c_rkey se = Some k /\ ch_remote ch = Some k /\ accept k = true.
Proof.
  intros accept ch ch' w HI. unfold chan_send.
  destruct (expire_inv accept ch HI) as ((A & B & C & D) & R).
  cbn [slot]. destruct (ch_s1 (expire ch)) as [se|] eqn:E1; [|discriminate].
  destruct B as (Rd & K & Nn). destruct (ch_remote (expire ch)) as [k|] eqn:Ek; [|congruence].
  intros _. exists se, k. repeat split; auto; congruence.
Qed.

(* non-vacuity: an initiator that accepts only key 7.  With a responder of key 7
   the handshake ends bound to 7 with a current session; with a responder of
   key 8 the session is refused when it becomes ready and nothing is bound. *)
Definition acc7 (k : N) : bool := k =? 7.
Definition hs_ops (k : N) : list cop :=
  [ORekey 10 100 1; ODeliver 11 (mkW k 50 (Some 10) MRH 0 0); ODeliver 12 (mkW k 50 (Some 10) MRD 0 0)].
Example C05_nonvacuous :
  map (fun x => (ch_remote (fst x), match ch_s1 (fst x) with Some _ => true | None => false end))
      (ctrace acc7 (new_chan 1) (hs_ops 7)) = [(None, false); (None, false); (Some 7, true)] /\
  map (fun x => (ch_remote (fst x), match ch_s1 (fst x) with Some _ => true | None => false end,
                 match ch_s2 (fst x) with Some _ => true | None => false end))
      (ctrace acc7 (new_chan 1) (hs_ops 8)) = [(None, false, true); (None, false, true); (None, false, false)].
Proof. split; vm_compute; reflexivity. Qed.

Print Assumptions C05_history.
Print Assumptions C05_same_key_forever.
Print Assumptions C05_refusal_undisturbed.
Print Assumptions C05_send_to_bound_key.

(* C01 — Every swarm delivers exactly what was told, to whom it was told. *)
From P2PV Require Import Lib.Base Lib.Varint Model.Mux Model.Frag Model.Layers
  Proofs.MuxP Proofs.FragP Proofs.LayersP Proofs.MbappP Proofs.LayersMbP.
Open Scope N_scope.

(* Composition: for EVERY stack of sound layers (any depth, any nesting), any
   bookkeeping consistent with the set L of (source, payload) pairs told at the
   top, and every sequence of genuine wire messages reaching the receiver's base
   transport from their true sources (any interleaving of any number of
   senders, any order, duplicates, omissions): whatever the stack hands to the
   receiver is a (source, payload) pair that was told; never a truncation,
   concatenation or mixture, never attributed to another source. *)
Theorem C01_stack_faithful : forall (ls : list slayer) a (L : told) inp,
  led_ok (stack_slayer ls) a L ->
  Forall (fun sw => wire_ok (stack_slayer ls) a (fst sw) (snd sw)) inp ->
  forall src p, In (src, p) (deliveries (stack_rlayer (map sl ls)) inp) -> L src p.
Proof. exact stack_faithful. Qed.

(* the sound layers: any multiplexer channel (among other channels sharing the
   multiplexer), the fragmenting swarm, pass-through wrappers *)
Definition C01_mux_layer := mux_slayer.
Definition C01_frag_layer := frag_slayer.
Definition C01_id_layer := id_slayer.
Definition C01_mbapp_layer := mb_slayer.

(* soundness of one multiplexer channel stated directly *)
Theorem C01_mux_sound : forall k c (a : told), valid_chan k c = true -> forall inp,
  Forall (fun sw => mux_wire k c a (fst sw) (snd sw)) inp ->
  forall src p, In (src, p) (deliveries (mux_rlayer k c) inp) -> a src p.
Proof. exact mux_deliveries. Qed.

(* and of the fragmenting swarm *)
Theorem C01_frag_sound : forall (S : list sent), NoDup (map s_key S) -> forall inp,
  Forall (fun sw => genuine S (fst sw) (snd sw)) inp ->
  forall src p, In (src, p) (deliveries frag_rlayer inp) ->
  exists m, In m S /\ s_src m = src /\ s_payload m = p.
Proof. intros S Hnd inp Hall src p Hin. exact (frag_deliveries S Hnd inp [] [] (inv_init S) Hall src p Hin). Qed.

(* non-vacuity: channel "ab" of a string multiplexer over the fragmenting swarm
   over channel 7 of a uint16 multiplexer; two senders' three-fragment messages
   interleaved, one fragment duplicated, plus another channel's traffic *)
Definition exA := mkSent [48] 0 [[2; 97; 98; 1]; [2; 3; 4]; [5]].     (* frame "ab" [1;2;3;4;5] in chunks *)
Definition exB := mkSent [49] 0 [[2; 97; 98; 9]; [9; 8; 8]; [7]].
Definition w16 (x : bytes) := frame KU16 (CInt 7) x.
Definition fr (m : sent) i := w16 (nth i (fragments (s_id m) (s_chunks m)) []).
Definition ex_inp : list (bytes * bytes) :=
  [([48], fr exA 2); ([49], fr exB 0); ([48], fr exA 0); ([48], fr exA 0); ([50], frame KU16 (CInt 8) [1; 1]);
   ([49], fr exB 2); ([48], fr exA 1); ([49], fr exB 1)].
Example C01_nonvacuous :
  deliveries (stack_rlayer [mux_rlayer KString (CStr [97; 98]); frag_rlayer; mux_rlayer KU16 (CInt 7)]) ex_inp
  = [([48], [1; 2; 3; 4; 5]); ([49], [9; 9; 8; 8; 7])].
Proof. vm_compute. reflexivity. Qed.

Print Assumptions C01_stack_faithful.
Print Assumptions C01_mux_sound.
Print Assumptions C01_frag_sound.
Print Assumptions frag_slayer.
Print Assumptions mux_slayer.
Print Assumptions mb_slayer.

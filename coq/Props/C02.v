(* C02 — Secure channel delivers only authentic peer plaintexts, at most once
   (session level: every input sequence to one session). *)
From P2PV Require Import Lib.Base Model.Handshake Model.Session Proofs.SessionP Proofs.SessionP2.
Open Scope N_scope.

(* at most once: in any history the counters accepted as application data are
   pairwise distinct, each was new when accepted and is rejected ever after *)
Theorem C02_at_most_once : forall is_init me eph ts ins s log,
  srun (new_ssess is_init me eph ts) ins = Ok (s, log) ->
  NoDup (flat_map app_counter log) /\
  forall h, In h (flat_map app_counter log) -> memN h (x_seen s) = true.
Proof.
  intros is_init me eph ts ins s log Hr.
  destruct (srun_inv ins _ (all_new is_init me eph ts)) as [_ H].
  destruct (H s log Hr) as (_ & Hnd & Happ & _). split; [exact Hnd|]. intros h Hh. now destruct (Happ h Hh).
Qed.

(* what is handed to the application is the plaintext of an AEAD under this
   session's inbound key and the header counter, accepted by a usable session *)
Theorem C02_app_is_authenticated_ciphertext : forall s i s' pt w,
  all_inv s -> sstep s i = Ok (s', Some (XApp pt), w) ->
  usable s = true /\
  exists wi h, i = InDeliver wi /\ wi = WC h (TAead (kin s) h pt) /\ 4 <= h /\
               memN h (x_seen s) = false /\ memN h (x_seen s') = true.
Proof.
  intros s i s' pt w (Hg & Hs & _) Hstep.
  destruct (sstep_inv s i s' _ w Hg Hs Hstep) as (_ & _ & _ & _ & _ & _ & _ & A & _).
  destruct (A pt eq_refl) as (Hu & wi & h & key & Hi & Hw & Hk & H4 & Hn & Hm). subst key.
  split; [exact Hu|]. exists wi, h. auto.
Qed.

(* no two ciphertexts under the same key and counter: the counters a session uses
   for Send are strictly increasing and start at 16, above the counters 2 and 3
   used once each by the handshake under the same keys; and no plaintext leaves
   a session except inside an AEAD under its outbound key *)
Theorem C02_counters_increasing : forall ins s s' log,
  all_inv s -> srun s ins = Ok (s', log) -> xcan_send s = true ->
  increasing_from (x_nonce s) (flat_map send_counter log) /\ 16 <= x_nonce s.
Proof.
  intros ins s s' log Hall Hr Hcs. destruct (send_counters_increasing ins s s' log Hall Hr Hcs) as [A _].
  split; [exact A|]. destruct Hall as (_ & (Hsn & _) & _). now apply Hsn.
Qed.

Theorem C02_send_is_aead : forall s pt s' o w,
  all_inv s -> sstep s (InSend pt) = Ok (s', o, Some w) ->
  exists c, w = WC (c mod 2 ^ 32) (TAead (kout s) c pt) /\ c = x_nonce s /\ 16 <= c.
Proof.
  intros s pt s' o w (Hg & Hs & _) Hstep.
  destruct (sstep_nonce s (InSend pt) s' o (Some w) Hstep Hs Hg) as (N1 & _).
  cbn [sstep] in Hstep. unfold xsend in Hstep. destruct (MAX_NONCE <=? x_nonce s); [discriminate|].
  destruct (negb (xcan_send s)); [discriminate|]. injection Hstep as <- <- <-.
  destruct (N1 (x_nonce s) (or_introl eq_refl)) as (_ & H16 & _). exists (x_nonce s). auto.
Qed.

(* non-vacuity: a replayed ciphertext is dropped, a fresh one accepted *)
Example C02_nonvacuous :
  let i0 := new_ssess true 1 100 7 in
  let r0 := new_ssess false 2 101 8 in
  match xwrite_handshake i0 with
  | Ok (Some m0) =>
    match xdeliver r0 m0 with
    | Ok (r1, XReply (Some m1)) =>
      match xdeliver i0 m1 with
      | Ok (i1, XReply (Some m2)) =>
        match xdeliver r1 m2 with
        | Ok (r2, _) =>
          match xsend r2 (TAtom 42) with
          | Some (r3, c) =>
              match xdeliver i1 c with
              | Ok (i2, XApp (TAtom 42)) =>
                  match xdeliver i2 c with Ok (_, XDrop) => x_nonce i2 = 16 | _ => False end
              | _ => False end
          | None => False end
        | _ => False end
      | _ => False end
    | _ => False end
  | _ => False end.
Proof. vm_compute. reflexivity. Qed.

Print Assumptions C02_at_most_once.
Print Assumptions C02_app_is_authenticated_ciphertext.
Print Assumptions C02_counters_increasing.
Print Assumptions C02_send_is_aead.

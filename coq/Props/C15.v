(* C15 — Multiplexed channels are isolated and framing is unambiguous.
   Only statements, closed by [exact], non-vacuity examples and Print Assumptions. *)
From P2PV Require Import Lib.Base Lib.Varint Model.Mux Proofs.MuxP.
Open Scope N_scope.

(* framing then unframing returns the same channel and payload, for every
   channel identifier of the kind and every payload (including empty) *)
Theorem C15_roundtrip : forall k c x,
  valid_chan k c = true -> unframe k (frame k c x) = Ok (c, x).
Proof. exact roundtrip. Qed.

(* two different (channel, payload) pairs never produce the same bytes *)
Theorem C15_injective : forall k c c' x x',
  valid_chan k c = true -> valid_chan k c' = true ->
  frame k c x = frame k c' x' -> c = c' /\ x = x'.
Proof. exact injective. Qed.

(* the headers form a prefix-free code *)
Theorem C15_prefix_free : forall k c c' r r',
  valid_chan k c = true -> valid_chan k c' = true ->
  header k c ++ r = header k c' ++ r' -> c = c' /\ r = r'.
Proof. exact prefix_free. Qed.

(* for every set of open channels a frame made on c reaches the swarm of c if
   open, is dropped otherwise *)
Theorem C15_isolation : forall k opened c x,
  valid_chan k c = true ->
  dispatch k opened (frame k c x) = if existsb (chan_eqb c) opened then Some (c, x) else None.
Proof. exact isolation. Qed.

(* ... and never reaches a swarm opened for a different channel, payload unchanged *)
Theorem C15_never_cross : forall k opened c x c' y,
  valid_chan k c = true -> dispatch k opened (frame k c x) = Some (c', y) ->
  c' = c /\ y = x /\ In c opened.
Proof. exact never_cross. Qed.

(* demultiplexing arbitrary bytes never panics (shared with C08) *)
Theorem C15_no_panic : forall k b site, unframe k b <> Panic site.
Proof. exact unframe_no_panic. Qed.

(* what is handed up is a suffix of what arrived: nothing is invented *)
Theorem C15_body_is_suffix : forall k b c body,
  unframe k b = Ok (c, body) -> exists h, b = h ++ body.
Proof. exact unframe_suffix. Qed.

(* non-vacuity: the hypotheses hold for extreme identifiers of every kind *)
Example C15_valid_examples :
  valid_chan KString (CStr []) = true /\
  valid_chan KString (CStr [0; 255; 97]) = true /\
  valid_chan KVarint (CInt (2 ^ 64 - 1)) = true /\
  valid_chan KU16 (CInt 65535) = true /\
  valid_chan KU32 (CInt (2 ^ 32 - 1)) = true /\
  valid_chan KU64 (CInt (2 ^ 64 - 1)) = true /\
  unframe KVarint (frame KVarint (CInt (2 ^ 64 - 1)) [1; 2]) = Ok (CInt (2 ^ 64 - 1), [1; 2]) /\
  dispatch KString [CStr [97]; CStr [97; 0]] (frame KString (CStr [97; 0]) []) = Some (CStr [97; 0], []).
Proof. vm_compute. repeat split; reflexivity. Qed.

Print Assumptions C15_roundtrip.
Print Assumptions C15_injective.
Print Assumptions C15_prefix_free.
Print Assumptions C15_isolation.
Print Assumptions C15_never_cross.
Print Assumptions C15_no_panic.
Print Assumptions C15_body_is_suffix.

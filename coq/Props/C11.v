(* C11 — An Ask returns its own handler's answer or an error, never another's. *)
From P2PV Require Import Lib.Base Model.Hub Model.AskTable Proofs.HubP Proofs.AskTableP.

(* The ask hub every ask-capable swarm serves through: over every accepted event
   list, an Ask (Deliver) that returns success was handed to exactly one handler
   call and returns after that handler call has finished (the answer it returns
   is the one that call wrote: req.n is assigned before done is closed) *)
Theorem C11_answer_is_own_handlers : forall pre d h, hrun hub0 (pre ++ [HDlvRetOk d]) = Some h ->
  exists r, In (HMeet r d) pre /\ In (HCbEnd r) pre /\ (count (is_meet_d d) pre <= 1)%nat.
Proof.
  intros pre d h H. destruct (ok_after_callback pre d h H) as (r & A & B). exists r. split; [exact A|split; [exact B|]].
  rewrite hrun_app in H. destruct (hrun hub0 pre) as [h1|] eqn:E; [|discriminate].
  exact (proj1 (at_most_one_meet pre h1 E) d).
Qed.

(* a handler never serves two requests in one call, and a failed Ask was seen by no handler *)
Theorem C11_failed_ask_unseen : forall pre post d ce h,
  hrun hub0 (pre ++ HDlvRetErr d ce :: post) = Some h ->
  count (is_meet_d d) (pre ++ HDlvRetErr d ce :: post) = 0%nat.
Proof. exact err_never_met. Qed.

(* the message-box swarm's table of outstanding asks: a reply completes exactly
   the ask filed under its (address, origin time, counter) and no other *)
Theorem C11_reply_completes_own_ask : forall t id resp err t' req resp' err',
  t_reply t id resp err = (t', Some (req, resp', err')) ->
  (exists a, t_get t id = Some a /\ a_req a = req /\ a_state a = Pending) /\ resp' = resp /\ err' = err /\
  t_get t' id = None /\ (forall id2, id2 <> id -> t_get t' id2 = t_get t id2).
Proof. exact reply_completes_own_ask. Qed.

Theorem C11_stray_reply_ignored : forall t id resp err, t_get t id = None -> t_reply t id resp err = (t, None).
Proof. exact stray_reply_ignored. Qed.

(* success is never a truncated answer nor an answer carrying an error code *)
Theorem C11_no_truncated_success : forall cap resp err r, ask_result cap resp err = OAnswer r ->
  r = resp /\ (lenN resp <= cap)%N /\ err = 0%N.
Proof. exact ask_result_success. Qed.

Print Assumptions C11_answer_is_own_handlers.
Print Assumptions C11_failed_ask_unseen.
Print Assumptions C11_reply_completes_own_ask.
Print Assumptions C11_no_truncated_success.

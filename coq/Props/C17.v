(* C17 — Keys and identities have one canonical, lossless encoding. *)
From P2PV Require Import Lib.Base Lib.Varint Lib.Der Lib.Base64 Model.Distance Proofs.DerP Proofs.Base64P.
Open Scope N_scope.

(* marshal then parse yields the same key: every algorithm identifier the decoder
   supports (valid_oid: >= 2 arcs, X.660 first/second-arc rule, arcs <= MaxInt32),
   every key body *)
Theorem C17_spki_roundtrip : forall oid data,
  valid_oid oid = true -> parse_spki (marshal_spki oid data) = Some (oid, data).
Proof. exact spki_roundtrip. Qed.

(* the error branch: an identifier that cannot be encoded marshals to nothing, which does not parse *)
Theorem C17_spki_invalid : forall oid data,
  encodable_oid oid = false -> marshal_spki oid data = [] /\ parse_spki [] = None.
Proof. exact spki_invalid. Qed.

(* two keys compare equal exactly when their encodings are equal *)
Theorem C17_equal_iff_encoding : forall o1 d1 o2 d2,
  valid_oid o1 = true -> valid_oid o2 = true ->
  (equal_keys o1 d1 o2 d2 = true <-> marshal_spki o1 d1 = marshal_spki o2 d2).
Proof. exact equal_iff_encoding. Qed.

(* the fingerprint H(MarshalPublicKey k) is a function of the key alone, for every hash H *)
Theorem C17_fingerprint_function_of_key : forall (H : bytes -> bytes) o1 d1 o2 d2,
  valid_oid o1 = true -> valid_oid o2 = true -> equal_keys o1 d1 o2 d2 = true ->
  H (marshal_spki o1 d1) = H (marshal_spki o2 d2).
Proof. exact fingerprint_function_of_key. Qed.

(* peer-id text round-trips ... *)
Theorem C17_peerid_roundtrip : forall id,
  wf_bytes id = true -> lenN id = PEER_ID_SIZE -> peerid_unmarshal (peerid_marshal id) = Some id.
Proof. exact peerid_roundtrip. Qed.

(* ... preserves byte order ... *)
Theorem C17_peerid_order : forall a b,
  length a = length b -> wf_bytes a = true -> wf_bytes b = true ->
  lex_compare (peerid_marshal a) (peerid_marshal b) = lex_compare a b.
Proof. exact encode_order. Qed.

(* ... and text that is not THE encoding of an id is rejected: wrong length,
   foreign symbols and non-zero trailing bits never yield some other identity *)
Theorem C17_peerid_rejects : forall t id,
  peerid_unmarshal t = Some id -> t = peerid_marshal id /\ wf_bytes id = true /\ lenN id = PEER_ID_SIZE.
Proof. exact peerid_rejects. Qed.

(* non-vacuity *)
Example C17_nonvacuous :
  valid_oid [1; 3; 101; 112] = true /\                                   (* Ed25519 *)
  parse_spki (marshal_spki [1; 3; 101; 112] [7; 8; 9]) = Some ([1; 3; 101; 112], [7; 8; 9]) /\
  valid_oid [2; 999; 2147483647] = true /\
  peerid_unmarshal (peerid_marshal (repeat 255 32)) = Some (repeat 255 32) /\
  peerid_unmarshal (repeat 33 43) = None.                               (* 43 x '!' *)
Proof. vm_compute. repeat split; reflexivity. Qed.

Print Assumptions C17_spki_roundtrip.
Print Assumptions C17_equal_iff_encoding.
Print Assumptions C17_fingerprint_function_of_key.
Print Assumptions C17_peerid_roundtrip.
Print Assumptions C17_peerid_order.
Print Assumptions C17_peerid_rejects.

(* C16 — Every address a swarm produces survives marshal and parse. *)
From P2PV Require Import Lib.Base Lib.Base64 Model.Addr Proofs.AddrP.
Open Scope N_scope.

(* decimal numbers (memswarm addresses, ports) *)
Theorem C16_decimal_roundtrip : forall n, undec (dec n) = Some n.
Proof. exact undec_dec. Qed.

(* For every IP text codec that round-trips and avoids newline and brackets
   (netip's; checked as an assumption test on every generated IP), every nesting
   identity@transport / scheme://inner of memswarm, udpswarm, sshswarm,
   p2pkeswarm/quicswarm and multiswarm addresses, and every schema the address
   fits: parsing the marshalled text yields the same address. *)
Theorem C16_addr_roundtrip :
  forall (ipaddr : Type) (show : ipaddr -> bytes) (readip : bytes -> option ipaddr),
  (forall i, readip (show i) = Some i) ->
  (forall i, show i <> [] /\ has 10 (show i) = false /\ has 91 (show i) = false /\ has 93 (show i) = false) ->
  forall (a : addr ipaddr) (s : schema),
    fits ipaddr s a -> wf_addr ipaddr a -> parse ipaddr readip s (marshal ipaddr show a) = Some a.
Proof. intros ipaddr show readip H1 H2 a s. exact (addr_roundtrip ipaddr show readip H1 H2 a s). Qed.

(* parsing arbitrary text fails or yields an address that marshals back to itself *)
Theorem C16_parse_canonical :
  forall (ipaddr : Type) (show : ipaddr -> bytes) (readip : bytes -> option ipaddr),
  (forall i, readip (show i) = Some i) ->
  (forall i, show i <> [] /\ has 10 (show i) = false /\ has 91 (show i) = false /\ has 93 (show i) = false) ->
  forall s t (a : addr ipaddr), parse ipaddr readip s t = Some a -> fits ipaddr s a -> wf_addr ipaddr a ->
    parse ipaddr readip s (marshal ipaddr show a) = Some a.
Proof. intros ipaddr show readip H1 H2 s t a. exact (parse_canonical ipaddr show readip H1 H2 s t a). Qed.

(* non-vacuity: quic://id@[::1]:65535 under a two-transport multiswarm, with the identity IP codec *)
Definition ex_id : bytes := repeat 7 32.
Definition ex_addr : addr bytes := AMulti [113; 117; 105; 99] (AKe ex_id (AUdp [58; 58; 49] 65535)).
Definition ex_schema : schema := SMulti [([117; 100; 112], SUdp); ([113; 117; 105; 99], SKe SUdp)].
Example C16_nonvacuous :
  fits bytes ex_schema ex_addr /\ wf_addr bytes ex_addr /\
  parse bytes (fun t => Some t) ex_schema (marshal bytes (fun t => t) ex_addr) = Some ex_addr.
Proof.
  split; [cbn; eexists; split; reflexivity|]. split.
  - cbn. repeat split; try discriminate; try reflexivity.
  - vm_compute. reflexivity.
Qed.

Print Assumptions C16_decimal_roundtrip.
Print Assumptions C16_addr_roundtrip.
Print Assumptions C16_parse_canonical.

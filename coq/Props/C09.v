(* C09 — MTU is honest: anything up to MTU is sendable intact, anything above is refused. *)
From P2PV Require Import Lib.Base Lib.Varint Model.Mux Model.Frag Model.Mbapp Model.Stack
  Proofs.FragP Proofs.StackP.
From Coq Require Import Lia ZifyBool ZifyN.
Open Scope N_scope.

(* For every stack of layers (multiplexer channels of any kind and identifier,
   fragmenting and message-box layers of any configured MTU, P2PKE, multi-transport
   minimum, pass-through wrappers) in any order and nesting depth, over every base
   MTU, and every payload:
   - a payload no longer than the MTU the stack reports is accepted by every layer
     and every message that reaches the base transport fits the base MTU;
   - a longer payload is refused with the MTU error (the result is the error,
     no wire message is produced). *)
Theorem C09_stack_honest : forall st base p, wf_stack st base ->
  ((Z.of_N (lenN p) <= stack_mtu st base)%Z ->
     exists ws, stack_send st base p = Ok ws /\ Forall (fun w => (Z.of_N (lenN w) <= base)%Z) ws) /\
  ((stack_mtu st base < Z.of_N (lenN p))%Z -> stack_send st base p = Err E_MTU).
Proof. exact stack_honest. Qed.

(* the fragmenting layers deliver the payload complete: the fragments are the
   consecutive chunks of the payload (reassembly is C10) *)
Theorem C09_frag_covers : forall inner cfg id payload,
  (1 <= under_mtu inner)%Z -> (Z.of_N (lenN payload) <= frag_mtu inner cfg)%Z ->
  let cs := chunks (Z.to_nat (under_mtu inner)) payload in
  frag_tell inner cfg id payload = Ok (fragments id cs) /\ concat cs = payload /\ lenN cs <= 255 /\
  Forall (fun c => Z.of_N (lenN c) <= under_mtu inner)%Z cs.
Proof. exact frag_tell_ok. Qed.

(* the reported MTU of a fragmenting layer never promises more than 255 parts *)
Theorem C09_frag_mtu_cap : forall inner cfg, (1 <= under_mtu inner)%Z ->
  (frag_mtu inner cfg <= 255 * under_mtu inner)%Z /\ (frag_mtu inner cfg <= Z.max cfg 0)%Z.
Proof.
  intros inner cfg H. unfold frag_mtu.
  destruct (Z.ltb_spec (255 * under_mtu inner) cfg); [destruct (Z.ltb_spec (255 * under_mtu inner) 0)|]; lia.
Qed.

(* non-vacuity: a four-layer stack over a 100-byte transport; its MTU, a payload
   of exactly that size splitting into 255 wire messages that all fit, and one
   byte more refused *)
Definition ex_stack : list layer :=
  [LMux KString (CStr [97; 98]); LFrag 65536 0; LMux KU16 (CInt 7); LId].
Example C09_nonvacuous :
  wf_stack ex_stack 100 /\ stack_mtu ex_stack 100 = 21162%Z /\
  (match stack_send ex_stack 100 (repeat 7 (N.to_nat 21162)) with
   | Ok ws => lenN ws = 255 /\ forallb (fun w => lenN w <=? 100) ws = true
   | _ => False end) /\
  stack_send ex_stack 100 (repeat 7 (N.to_nat 21163)) = Err E_MTU.
Proof.
  split; [cbn; repeat split; vm_compute; congruence|].
  split; [vm_compute; reflexivity|]. split; vm_compute; [split; reflexivity|reflexivity].
Qed.

Print Assumptions C09_stack_honest.
Print Assumptions C09_frag_covers.
Print Assumptions C09_frag_mtu_cap.

(* C07 — Channels establish, converge and keep working across rotation and restart.
   PARTIAL: the liveness statement over all adversarial prefixes is proved at the
   session level (C06: every schedule over a pair's own messages, then a fair
   suffix, reaches ready and data flows); at the channel level the facts below
   are proved and the convergence of two whole channels is explored on the
   model-tied harness (not a proof). *)
From P2PV Require Import Lib.Base Model.Handshake Model.Channel Proofs.HandshakeP Proofs.ChannelP.
From Coq Require Import Lia ZifyBool ZifyN.
Open Scope N_scope.

(* session level: whatever happened to the handshake messages of a pair (lost,
   reordered, duplicated, reflected, data overtaking RespDone), two rounds of
   retransmission bring both sessions to ready *)
Theorem C07_session_recovers : forall acts p,
  run init_pair acts = Ok p -> under_limit p ->
  exists p', fair_suffix p = Ok p' /\ is_ready (p_i p') = true /\ is_ready (p_r p') = true.
Proof.
  intros acts p Hp Hu. destruct (run_inv acts init_pair inv_init) as [_ B].
  destruct (recovers p (proj1 (B p Hp)) Hu) as (p' & E & _ & _ & Ri & Rr). eauto.
Qed.

(* a session that keeps receiving is not torn down for idleness: the current
   session survives the expiry step unless it is past RejectAfterTime or nothing
   was received through it for longer than KeepAliveTimeout *)
Theorem C07_no_idle_teardown : forall ch se,
  ch_s1 ch = Some se -> expired se = false -> (ch_lr ch <= KEEPALIVE)%Z ->
  ch_s1 (expire ch) = Some se.
Proof.
  intros ch se E1 Hx Hl. unfold expire, expire2, expire1, expire0.
  assert (E1' : ch_s1 (match ch_s0 ch with Some se0 => if expired se0 then set_slot ch 0 None else ch | None => ch end) = Some se)
    by (destruct (ch_s0 ch) as [s0|]; [destruct (expired s0)|]; exact E1).
  assert (L' : ch_lr (match ch_s0 ch with Some se0 => if expired se0 then set_slot ch 0 None else ch | None => ch end) = ch_lr ch)
    by (destruct (ch_s0 ch) as [s0|]; [destruct (expired s0)|]; reflexivity).
  set (c0 := match ch_s0 ch with Some se0 => if expired se0 then set_slot ch 0 None else ch | None => ch end) in *.
  rewrite E1', Hx, L'. destruct (Z.ltb_spec KEEPALIVE (ch_lr ch)); [lia|]. cbn [orb].
  destruct (ch_s2 c0) as [s2|]; [destruct (expired s2)|]; exact E1'.
Qed.

(* application data received through the current session refreshes lastReceived *)
Theorem C07_receive_refreshes : forall ch, ch_lr (set_lr ch 0) = 0%Z.
Proof. reflexivity. Qed.

(* rotation: when the prospective session is promoted the old current session
   stays available as the previous one (it still decrypts what is in flight) *)
Theorem C07_rotation_keeps_previous : forall accept ch ch',
  on_ready accept ch = (ch', true) -> ch_s0 ch' = ch_s1 ch /\ ch_s1 ch' = ch_s2 ch /\ ch_s2 ch' = None.
Proof.
  intros accept ch ch'. unfold on_ready. cbn [slot].
  destruct (ch_s2 ch) as [se|]; [|discriminate].
  destruct (ch_remote ch) as [k|].
  - destruct (k =? _); [|discriminate]. intros [= <-]. cbn. auto.
  - destruct (accept _); [|discriminate]. intros [= <-]. cbn. auto.
Qed.

(* Send goes out whenever a current session exists after the expiry step and has not hit its message limit *)
Theorem C07_send_when_current : forall ch se,
  ch_s1 (expire ch) = Some se -> c_ready se = true -> s_nonce (cs se) < MAX_NONCE ->
  exists ch' w, chan_send ch = (ch', Some w).
Proof.
  intros ch se E1 Hr Hn. unfold chan_send. cbn [slot]. rewrite E1.
  assert (Hx : expired se = false).
  { unfold expire, expire2 in E1. destruct (ch_s2 (expire1 (expire0 ch))) as [s2|] eqn:E2.
    - destruct (expired s2); cbn in E1; revert E1; unfold expire1;
        destruct (ch_s1 (expire0 ch)) as [s1|] eqn:E1'; try destruct (expired s1 || _) eqn:Eo; cbn; try discriminate;
        rewrite ?E1'; intros [= ->]; apply Bool.orb_false_iff in Eo; tauto.
    - revert E1; unfold expire1;
        destruct (ch_s1 (expire0 ch)) as [s1|] eqn:E1'; try destruct (expired s1 || _) eqn:Eo; cbn; try discriminate;
        rewrite ?E1'; intros [= ->]; apply Bool.orb_false_iff in Eo; tauto. }
  rewrite Hx. unfold send. destruct (N.leb_spec MAX_NONCE (s_nonce (cs se))); [lia|].
  unfold c_ready, is_ready in Hr. apply Bool.andb_true_iff in Hr as [Hs _]. rewrite Hs. cbn [negb]. eauto.
Qed.

Print Assumptions C07_session_recovers.
Print Assumptions C07_no_idle_teardown.
Print Assumptions C07_rotation_keeps_previous.
Print Assumptions C07_send_when_current.
